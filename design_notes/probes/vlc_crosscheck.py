import re
src=open('/repo/h263/src/parser/macroblock.rs').read()
def table(name):
    i=src.index('const '+name); j=src.index('\n];',i)
    body=re.sub(r'//.*','',src[i:j]); body=body[body.index('= [')+3:]
    ents=[]
    # split top-level entries
    depth=0; cur=''
    for ch in body:
        if ch in '([': depth+=1
        if ch in ')]': depth-=1
        if ch==',' and depth==0:
            if cur.strip(): ents.append(re.sub(r'\s+','',cur))
            cur=''
        else: cur+=ch
    if cur.strip(): ents.append(re.sub(r'\s+','',cur))
    return ents
def codes(ents):
    out={}
    def walk(i,pre):
        e=ents[i]
        m=re.match(r'Fork\((\d+),(\d+)\)',e)
        if m: walk(int(m.group(1)),pre+'0'); walk(int(m.group(2)),pre+'1')
        else: out.setdefault(e,[]).append(pre)
    walk(0,''); return out
T={0:'Inter',1:'InterQ',2:'Inter4V',3:'Intra',4:'IntraQ',5:'Inter4Vq'}
b=lambda c:'true' if c=='1' else 'false'
def mc(spec,name):
    c=codes(table(name)); bad=0
    for line in spec.split():
        pass
    toks=spec.split(); 
    for k in range(0,len(toks),3):
        t,cb,code=toks[k:k+3]
        key='End(BlockPatternEntry::Valid(MacroblockType::%s,%s,%s,))'%(T[int(t)],b(cb[0]),b(cb[1]))
        key2=key.replace(',))','))')
        got=c.get(key) or c.get(key2)
        if got!=[code]: bad+=1; print('MISMATCH',name,t,cb,code,got)
    print(name,'bad',bad,'stuffing',c.get('End(BlockPatternEntry::Stuffing)'),'invalid',c.get('End(BlockPatternEntry::Invalid)'))
mc("3 00 1 3 01 001 3 10 010 3 11 011 4 00 0001 4 01 000001 4 10 000010 4 11 000011",'MCBPC_I_TABLE')
mc("""0 00 1 0 01 0011 0 10 0010 0 11 000101 1 00 011 1 01 0000111 1 10 0000110 1 11 000000101
2 00 010 2 01 0000101 2 10 0000100 2 11 00000101 3 00 00011 3 01 00000100 3 10 00000011 3 11 0000011
4 00 000100 4 01 000000100 4 10 000000011 4 11 000000010 5 00 00000000010 5 01 0000000001100 5 10 0000000001110 5 11 0000000001111""",'MCBPC_P_TABLE')
c=codes(table('CBPY_TABLE_INTRA')); bad=0
spec="0000 0011 0001 00101 0010 00100 0011 1001 0100 00011 0101 0111 0110 000010 0111 1011 1000 00010 1001 000011 1010 0101 1011 1010 1100 0100 1101 1000 1110 0110 1111 11".split()
for k in range(0,32,2):
    p,code=spec[k],spec[k+1]; key='End(Some([%s]))'%','.join(b(x) for x in p)
    if c.get(key)!=[code]: bad+=1; print('MISMATCH cbpy',p,code,c.get(key))
print('CBPY bad',bad,'none',c.get('End(None)'))
c=codes(table('MVD_TABLE')); bad=0
mv=[(1,2),(1,3),(1,4),(3,6),(5,7),(4,7),(3,7),(11,9),(10,9),(9,9),(17,10),(16,10),(15,10),(14,10),(13,10),(12,10),(11,10),(10,10),(9,10),(8,10),(7,10),(6,10),(5,10),(4,10),(7,11),(6,11),(5,11),(4,11),(3,11),(2,11),(3,12),(2,12)]
def key(v): return 'End(Some(%s))'%( ('%.1f'%v))
if c.get(key(0.0))!=['1']: bad+=1
for k,(cv,n) in enumerate(mv,1):
    base=format(cv,'0%db'%n)
    for sign,s in ((1,'0'),(-1,'1')):
        v=sign*k/2
        if k==32 and sign==1:
            continue
        if c.get(key(v))!=[base+s]: bad+=1; print('MISMATCH mvd',v,base+s,c.get(key(v)))
print('MVD bad',bad,'none',c.get('End(None)'), 'has +16?',c.get(key(16.0)))
print('MODB',codes(table('MODB_TABLE')))
