use h263_rs::parser::H263Reader;
use h263_rs::{DecoderOption, H263State};
use std::panic::{catch_unwind, AssertUnwindSafe};
struct W { bits: Vec<u8> }
impl W {
    fn new() -> Self { W { bits: vec![] } }
    fn put(&mut self, v: u32, n: u32) { for i in (0..n).rev() { self.bits.push(((v >> i) & 1) as u8); } }
    fn s(&mut self, s: &str) { for c in s.chars() { if c == '0' { self.bits.push(0) } else if c == '1' { self.bits.push(1) } } }
    fn align(&mut self) { while self.bits.len() % 8 != 0 { self.bits.push(0); } }
    fn bytes(&self) -> Vec<u8> { let mut o = vec![]; for ch in self.bits.chunks(8) { let mut b = 0u8; for (i, x) in ch.iter().enumerate() { b |= x << (7 - i); } o.push(b); } o }
}
// standard header, sub-QCIF 128x96 = 8x6 MBs; intra_bit = value of PTYPE bit 9 to get an I picture on this tree
fn std_hdr(w: &mut W, tr: u32, bit9: u32, q: u32) { w.put(1, 17); w.put(0, 5); w.put(tr, 8); w.s("10000001"); w.put(bit9, 1); w.s("0000"); w.put(q, 5); w.s("0"); w.s("0"); }
fn intra_mb_dc(w: &mut W, dc: u32) { w.s("1"); w.s("0011"); for _ in 0..6 { w.put(dc, 8); } }
fn main() {
    std::panic::set_hook(Box::new(|i| { eprintln!("  panic: {}", i); }));
    let mut w = W::new();
    std_hdr(&mut w, 0, 1, 5); for _ in 0..48 { intra_mb_dc(&mut w, 100); } w.s("000"); w.align();
    std_hdr(&mut w, 1, 1, 5); for _ in 0..48 { intra_mb_dc(&mut w, 60); }
    let b = w.bytes(); let mut st = H263State::new(DecoderOption::empty()); let mut rd = H263Reader::from_source(&b[..]);
    for i in 0..3 { let r = catch_unwind(AssertUnwindSafe(|| st.decode_next_picture(&mut rd).map_err(|e| format!("{:?}", e)))); println!("std concat call{}: {:?} last_y0={:?} tr={:?}", i, r.as_ref().map_err(|_| "PANIC"), st.get_last_picture().map(|p| p.as_yuv().0[0]), st.get_last_picture().map(|p| p.as_header().temporal_reference)); if r.is_err() { break; } }
    // D14: PLUSPTYPE with UMV unlimited. I picture: PTYPE 8 bits "10000111", PLUSPTYPE: UFEP=001, OPPTYPE: fmt=001(subqcif) pcf0 umv1 sac0 ap0 aic0 df0 ss0 rps0 isd0 aiv0 mq0 1000 ; MPPTYPE: type 000 rpr0 rru0 rtype0 00 1
    let plus = |w: &mut W, tr: u32, ptype3: u32| { w.put(1, 17); w.put(0, 5); w.put(tr, 8); w.s("10000111"); w.s("001"); w.s("001"); w.s("0"); w.s("1"); w.s("000000000"); w.s("1000"); w.put(ptype3, 3); w.s("000"); w.s("001"); w.s("0"); /*CPM*/ w.s("01"); /*UUI unlimited*/ w.put(5, 5); /*PQUANT*/ w.s("0"); /*PEI*/ };
    let mut i0 = W::new(); plus(&mut i0, 0, 0); for _ in 0..48 { intra_mb_dc(&mut i0, 100); }
    let mut p1 = W::new(); plus(&mut p1, 1, 1);
    // each MB: COD=0, MCBPC "1" inter, CBPY inter none coded = intra all = "11", MVD umv x,y. umv for large value: 0 then pairs "x1" continue ... end "x0": value bits. Encode +8191?: start 0, then 12 continue pairs "11", then "00"
    for _ in 0..48 { p1.s("0"); p1.s("1"); p1.s("11"); for _ in 0..2 { p1.s("0"); for _ in 0..11 { p1.s("11"); } p1.s("00"); } }
    let mut st = H263State::new(DecoderOption::empty());
    for (i, p) in [i0.bytes(), p1.bytes()].iter().enumerate() { let r = catch_unwind(AssertUnwindSafe(|| { let mut rd = H263Reader::from_source(&p[..]); st.decode_next_picture(&mut rd).map_err(|e| format!("{:?}", e)) })); println!("umv pic{}: {:?}", i, r.as_ref().map_err(|_| "PANIC")); }
}
