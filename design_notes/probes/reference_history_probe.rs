use h263_rs::parser::H263Reader;
use h263_rs::{DecoderOption, H263State};
use std::panic::{catch_unwind, AssertUnwindSafe};
struct W { bits: Vec<u8> }
impl W {
    fn new() -> Self { W { bits: vec![] } }
    fn put(&mut self, v: u32, n: u32) { for i in (0..n).rev() { self.bits.push(((v >> i) & 1) as u8); } }
    fn s(&mut self, s: &str) { for c in s.chars() { if c == '0' { self.bits.push(0) } else if c == '1' { self.bits.push(1) } } }
    fn bytes(&self) -> Vec<u8> { let mut o = vec![]; for ch in self.bits.chunks(8) { let mut b = 0u8; for (i, x) in ch.iter().enumerate() { b |= x << (7 - i); } o.push(b); } o }
}
fn sor_hdr(w: &mut W, tr: u32, ptype: u32) { w.put(1, 17); w.put(0, 5); w.put(tr, 8); w.put(1, 3); w.put(16, 16); w.put(16, 16); w.put(ptype, 2); w.put(0, 1); w.put(5, 5); w.put(0, 1); }
fn pic(tr: u32, ptype: u32, dc: Option<u32>) -> Vec<u8> {
    let mut w = W::new(); sor_hdr(&mut w, tr, ptype);
    match (ptype, dc) { (0, Some(d)) => { w.s("1"); w.s("0011"); for _ in 0..6 { w.put(d, 8); } }
        (_, Some(d)) => { w.s("0"); w.s("00011"); w.s("0011"); for _ in 0..6 { w.put(d, 8); } }
        (_, None) => { w.s("1"); } }
    w.bytes()
}
fn run(name: &str, pics: &[Vec<u8>]) {
    let mut st = H263State::new(DecoderOption::SORENSON_SPARK_BITSTREAM);
    let mut out = vec![];
    for p in pics { let r = catch_unwind(AssertUnwindSafe(|| { let mut rd = H263Reader::from_source(&p[..]); st.decode_next_picture(&mut rd).map_err(|e| format!("{:?}", e)) }));
        out.push(match r { Ok(Ok(())) => format!("{}", st.get_last_picture().unwrap().as_yuv().0[0]), Ok(Err(e)) => e, Err(_) => "PANIC".into() }); }
    println!("{}: {:?}", name, out);
}
fn main() {
    std::panic::set_hook(Box::new(|_| {}));
    // expected (spec): I=100, P=25 (ref), D=200 (not ref), Pskip = copy of ref = 25
    run("I,P25,D200(tr2),Pskip", &[pic(0,0,Some(100)), pic(1,1,Some(25)), pic(2,2,Some(200)), pic(3,1,None)]);
    run("I,P25(tr1),D200(tr1 collision),Pskip", &[pic(0,0,Some(100)), pic(1,1,Some(25)), pic(1,2,Some(200)), pic(3,1,None)]);
    run("I(tr0),D200(tr0 collision),Pskip", &[pic(0,0,Some(100)), pic(0,2,Some(200)), pic(3,1,None)]);
}
