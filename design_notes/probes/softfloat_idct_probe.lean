import Sf.Basis
/-- soft binary32, normal range only: value = m * 2^e -/
structure F where
  m : Int
  e : Int
deriving Repr, BEq, Inhabited

def bitlen (n : Nat) : Nat := Nat.log2 n + (if n = 0 then 0 else 1)

def rnd24 (m e : Int) : F :=
  let a := m.natAbs
  let bl := bitlen a
  if bl ≤ 24 then ⟨m, e⟩ else
    let k := bl - 24
    let q := a >>> k
    let r := a - (q <<< k)
    let half := (1 : Nat) <<< (k - 1)
    let q' := if r > half || (r == half && q % 2 == 1) then q + 1 else q
    ⟨if m < 0 then -(q' : Int) else (q' : Int), e + k⟩

def F.mul (a b : F) : F := rnd24 (a.m * b.m) (a.e + b.e)
def F.add (a b : F) : F :=
  if a.m == 0 then b else if b.m == 0 then a else
  let e := min a.e b.e
  rnd24 (a.m * (2 : Int) ^ (a.e - e).toNat + b.m * (2 : Int) ^ (b.e - e).toNat) e
def F.ofInt (i : Int) : F := ⟨i, 0⟩
def F.zero : F := ⟨0, 0⟩
/-- truncate toward zero to Int -/
def F.trunc (a : F) : Int :=
  if a.e ≥ 0 then a.m * (2:Int) ^ a.e.toNat else
    let d := (2:Int) ^ (-a.e).toNat
    Int.tdiv a.m d

def idct1d (inp : Array F) : Array F := Id.run do
  let mut out : Array F := Array.replicate 8 F.zero
  for i in [0:8] do
    let mut acc := F.zero
    for f in [0:8] do
      let (bm, be) := basis[f]![i]!
      acc := acc.add (inp[f]!.mul ⟨bm, be⟩)
    out := out.set! i acc
  return out

def finish (x : F) : Int :=
  -- (x/4.0 + signum(x)*0.5) as i16 clamp -256..255
  let q : F := ⟨x.m, x.e - 2⟩
  let h : F := if x.m < 0 then ⟨-1, -1⟩ else ⟨1, -1⟩
  let v := (q.add h).trunc
  max (-256) (min 255 v)

def idctFull (blk : Array (Array Int)) : Array (Array Int) := Id.run do
  -- returns out[x][y] as in code (idct_output[x_offset][y_offset])
  let mut inter : Array (Array F) := Array.replicate 8 (Array.replicate 8 F.zero)
  for row in [0:8] do
    let o := idct1d (blk[row]!.map F.ofInt)
    for i in [0:8] do
      inter := inter.set! i (inter[i]!.set! row o[i]!)
  let mut res : Array (Array Int) := #[]
  for row in [0:8] do
    let o := idct1d inter[row]!
    res := res.push (o.map finish)
  return res
