#[allow(clippy::approx_constant)]
const BASIS_TABLE: [[f32; 8]; 8] = [
    [ 0.70710677,  0.70710677,  0.70710677,  0.70710677,  0.70710677,  0.70710677,  0.70710677,  0.70710677, ],
    [ 0.98078525,  0.8314696,   0.5555702,   0.19509023, -0.19509032, -0.55557036, -0.83146966, -0.9807853,  ],
    [ 0.9238795,   0.38268343, -0.38268352, -0.9238796,  -0.9238795,  -0.38268313,  0.3826836,   0.92387956, ],
    [ 0.8314696,  -0.19509032, -0.9807853,  -0.55557,     0.55557007,  0.98078525,  0.19509007, -0.8314698,  ],
    [ 0.70710677, -0.70710677, -0.70710665,  0.707107,    0.70710677, -0.70710725, -0.70710653,  0.7071068,  ],
    [ 0.5555702,  -0.9807853,   0.19509041,  0.83146936, -0.8314698,  -0.19508928,  0.9807853,  -0.55557007, ],
    [ 0.38268343, -0.9238795,   0.92387974, -0.3826839,  -0.38268384,  0.9238793,  -0.92387974,  0.3826839,  ],
    [ 0.19509023, -0.55557,     0.83146936, -0.9807852,   0.98078525, -0.83147013,  0.55557114, -0.19508967, ],
];
fn idct_1d(input: &[f32; 8], output: &mut [f32; 8]) {
    *output = [0.0; 8];
    // Note that we could immediately return here if `*input == *output`
    // (if input is all zeroes, return all zeroes), but it didn't seem to
    // improve performance in practice - most likely because the majority
    // of the cases where this would occur is already covered by the
    // special `DecodedDctBlock` cases.
    for (i, out) in output.iter_mut().enumerate() {
        // Do your magic, autovectorizer! Thanks...
        for freq in 0..8 {
            *out += input[freq] * BASIS_TABLE[freq][i];
        }
    }
}

fn main(){
 let n:usize=std::env::args().nth(1).unwrap().parse().unwrap();
 let mut s:u64=1; let mut acc:i64=0;
 for _ in 0..n{
  let mut blk=[[0f32;8];8];
  for r in 0..8{for c in 0..8{ s=(s*1103515245+12345)%4294967296; blk[r][c]=(((s/65536)%4096) as i64-2048) as f32;}}
  let mut inter=[[0f32;8];8]; let mut out=[[0f32;8];8];
  for row in 0..8{ idct_1d(&blk[row],&mut out[row]); for i in 0..8{inter[i][row]=out[row][i];}}
  for row in 0..8{ idct_1d(&inter[row],&mut out[row]);}
  for row in 0..8{for i in 0..8{ let idct=out[row][i]; let v=((idct/4.0+idct.signum()*0.5) as i16).clamp(-256,255); acc=(acc*31+v as i64).rem_euclid(1000000007);}}
 }
 println!("{}",acc);
}
