
inductive Sym | run (last : Bool) (run level : Nat) | esc | bad
deriving DecidableEq, Repr
inductive Entry | done (s : Sym) | fork (z o : Nat)
deriving DecidableEq, Repr
inductive R | ok (s : Sym) (rest : List Bool) | eof | internal
deriving DecidableEq, Repr
-- def tcoef : Array Entry := #[ … 207 generated entries … ]
def walk (t : Array Entry) : Nat → List Bool → R
  | idx, [] => match t[idx]? with
    | none => .internal
    | some (.done s) => .ok s []
    | some (.fork _ _) => .eof
  | idx, b :: bs => match t[idx]? with
    | none => .internal
    | some (.done s) => .ok s (b :: bs)
    | some (.fork z o) => walk t (if b then o else z) bs
-- def specTab : List (List Bool × Sym) := [ … 102 entries from spec_tables.md … ]
theorem walk_append (t : Array Entry) (code : List Bool) : ∀ idx s rest, walk t idx code = .ok s [] →
    walk t idx (code ++ rest) = .ok s rest := by
  induction code with
  | nil =>
    intro idx s rest h
    cases rest with
    | nil => simpa using h
    | cons r rs =>
      simp only [walk, List.nil_append] at h ⊢
      split at h <;> simp_all
  | cons b bs ih =>
    intro idx s rest h
    simp only [walk, List.cons_append] at h ⊢
    split at h <;> simp_all
theorem table_ok : specTab.all (fun (c, s) => walk tcoef 0 c == .ok s []) = true := by decide +kernel
#print axioms table_ok
#print axioms walk_append
