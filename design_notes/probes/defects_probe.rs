use h263_rs::parser::H263Reader;
use h263_rs::{DecoderOption, H263State};
use std::panic::{catch_unwind, AssertUnwindSafe};

struct W { bits: Vec<u8> }
impl W {
    fn new() -> Self { W { bits: vec![] } }
    fn put(&mut self, v: u32, n: u32) { for i in (0..n).rev() { self.bits.push(((v >> i) & 1) as u8); } }
    fn s(&mut self, s: &str) { for c in s.chars() { if c == '0' { self.bits.push(0) } else if c == '1' { self.bits.push(1) } } }
    fn bytes(&self) -> Vec<u8> { let mut o = vec![]; for ch in self.bits.chunks(8) { let mut b = 0u8; for (i, x) in ch.iter().enumerate() { b |= x << (7 - i); } o.push(b); } o }
}
// sorenson header
fn sor_hdr(w: &mut W, ver: u32, tr: u32, width: u32, height: u32, ptype: u32, q: u32) {
    w.put(1, 17); w.put(ver, 5); w.put(tr, 8);
    w.put(1, 3); w.put(width, 16); w.put(height, 16);
    w.put(ptype, 2); w.put(0, 1); w.put(q, 5); w.put(0, 1);
}
fn intra_mb_dc(w: &mut W, dc: [u32; 6]) { w.s("1"); w.s("0011"); for d in dc { w.put(d, 8); } }
fn try_decode(name: &str, opts: DecoderOption, pics: &[Vec<u8>]) {
    let mut st = H263State::new(opts);
    for (i, p) in pics.iter().enumerate() {
        let r = catch_unwind(AssertUnwindSafe(|| { let mut rd = H263Reader::from_source(&p[..]); st.decode_next_picture(&mut rd).map_err(|e| format!("{:?}", e)) }));
        match r {
            Ok(Ok(())) => { let lp = st.get_last_picture().unwrap(); let (y, u, v) = lp.as_yuv(); println!("{} pic{}: ok type={:?} tr={} y[0..4]={:?} u0={:?} v0={:?} ylen={}", name, i, lp.as_header().picture_type, lp.as_header().temporal_reference, &y[..y.len().min(4)], u.get(0), v.get(0), y.len()); }
            Ok(Err(e)) => println!("{} pic{}: err {}", name, i, e),
            Err(_) => { println!("{} pic{}: PANIC", name, i); return; }
        }
    }
}
fn main() {
    std::panic::set_hook(Box::new(|i| { eprintln!("  panic: {}", i); }));
    let sor = DecoderOption::SORENSON_SPARK_BITSTREAM;
    // 1. 11-bit escape at q=31
    let mut w = W::new(); sor_hdr(&mut w, 1, 0, 16, 16, 0, 31);
    w.s("1"); w.s("00010"); // cbpy intra [t,f,f,f]
    w.put(100, 8); w.s("0000011"); w.s("1"); w.s("1"); w.put(0, 6); w.put(1023, 11);
    for _ in 0..5 { w.put(100, 8); }
    try_decode("esc11_q31", sor, &[w.bytes()]);
    // 2. extra MB
    let mut w = W::new(); sor_hdr(&mut w, 0, 0, 16, 16, 0, 5); intra_mb_dc(&mut w, [100; 6]); intra_mb_dc(&mut w, [50; 6]);
    try_decode("extra_mb", sor, &[w.bytes()]);
    // 2b. two pics concatenated in one reader
    let mut w = W::new(); sor_hdr(&mut w, 0, 0, 16, 16, 0, 5); intra_mb_dc(&mut w, [100; 6]); while w.bits.len() % 8 != 0 { w.bits.push(0); }
    sor_hdr(&mut w, 0, 1, 16, 16, 0, 5); intra_mb_dc(&mut w, [60; 6]);
    {
        let b = w.bytes(); let mut st = H263State::new(sor); let mut rd = H263Reader::from_source(&b[..]);
        for i in 0..2 { let r = catch_unwind(AssertUnwindSafe(|| st.decode_next_picture(&mut rd).map_err(|e| format!("{:?}", e)))); println!("concat call{}: {:?} last_y0={:?}", i, r.as_ref().map_err(|_| "PANIC"), st.get_last_picture().map(|p| p.as_yuv().0[0])); if r.is_err() { break; } }
    }
    // 3. width 0
    let mut w = W::new(); sor_hdr(&mut w, 0, 0, 0, 16, 0, 5); intra_mb_dc(&mut w, [100; 6]);
    try_decode("width0", sor, &[w.bytes()]);
    let mut w = W::new(); sor_hdr(&mut w, 0, 0, 16, 0, 0, 5); intra_mb_dc(&mut w, [100; 6]);
    try_decode("height0", sor, &[w.bytes()]);
    // 4/5. I(100), P tr1 all intra 200?, disposable
    let mut i0 = W::new(); sor_hdr(&mut i0, 0, 0, 16, 16, 0, 5); intra_mb_dc(&mut i0, [100; 6]);
    // disposable P with a coded intra MB: COD=0, MCBPC_P intra "00011", cbpy intra none "0011"
    let mut d1 = W::new(); sor_hdr(&mut d1, 0, 1, 16, 16, 2, 5); d1.s("0"); d1.s("00011"); d1.s("0011"); for _ in 0..6 { d1.put(25, 8); }
    try_decode("disp_coded", sor, &[i0.bytes(), d1.bytes()]);
    // same but as normal P (type 1) to show it works
    let mut p1 = W::new(); sor_hdr(&mut p1, 0, 1, 16, 16, 1, 5); p1.s("0"); p1.s("00011"); p1.s("0011"); for _ in 0..6 { p1.put(25, 8); }
    // uncoded P
    let mut p2 = W::new(); sor_hdr(&mut p2, 0, 2, 16, 16, 1, 5); p2.s("1");
    try_decode("I,P(intra25),Pskip", sor, &[i0.bytes(), p1.bytes(), p2.bytes()]);
    // disposable all-uncoded, after I(100) then P(25 intra): ref should be P(25). Then D(uncoded) -> copy 25. Make D differ: can't w/o coded. Use: I(100) tr0, D tr0(collision, uncoded->copy 100)...
    // ref bug: I(100), P(25), D uncoded (copy=25), same. Need D different from ref: D must have coded MBs -> unimplemented. skip.
    // 8. P-frame of different size than reference
    let mut p3 = W::new(); sor_hdr(&mut p3, 0, 1, 32, 32, 1, 5); p3.s("1"); p3.s("1"); p3.s("1"); p3.s("1");
    try_decode("P_bigger_than_ref", sor, &[i0.bytes(), p3.bytes()]);
    let mut i32_ = W::new(); sor_hdr(&mut i32_, 0, 0, 32, 32, 0, 5); for _ in 0..4 { intra_mb_dc(&mut i32_, [100; 6]); }
    let mut p4 = W::new(); sor_hdr(&mut p4, 0, 1, 16, 16, 1, 5); p4.s("1");
    try_decode("P_smaller_than_ref", sor, &[i32_.bytes(), p4.bytes()]);
    // 6. standard H.263 PTYPE polarity: PSC, TR, PTYPE: 1 0 0 0 0 010(QCIF) then bit9=0 (INTRA per spec) 0000, PQUANT 5, CPM 0, PEI 0
    for bit9 in [0u32, 1] {
        let mut w = W::new(); w.put(1, 17); w.put(0, 5); w.put(7, 8); w.s("10000010"); w.put(bit9, 1); w.s("0000"); w.put(5, 5); w.s("0"); w.s("0");
        let b = w.bytes(); let mut rd = H263Reader::from_source(&b[..]);
        let p = h263_rs::parser::decode_picture(&mut rd, DecoderOption::empty(), None);
        println!("std ptype bit9={} -> {:?}", bit9, p.map(|p| p.map(|p| p.picture_type)));
    }
    // 7. deblock
    for h in [0usize, 1, 2, 3] { let r = catch_unwind(|| h263_rs_deblock::deblock::deblock(&vec![7u8; 16 * h], 16, 3)); println!("deblock 16x{}: {}", h, if r.is_ok() { "ok" } else { "PANIC" }); }
    // SIMD vs scalar: falling edge in a 16-wide (simd) vs 7-wide (scalar) image, horizontal edges
    for wd in [8usize, 7] {
        let mut img = vec![0u8; wd * 16]; for y in 0..16 { for x in 0..wd { img[y * wd + x] = if y < 8 { 10 } else { 0 }; } }
        let out = h263_rs_deblock::deblock::deblock(&img, wd, 4);
        println!("deblock falling w={} col0 rows6..10 = {:?}", wd, (6..10).map(|y| out[y * wd]).collect::<Vec<_>>());
    }
    // yuv empty with nonzero width
    let r = catch_unwind(|| h263_rs_yuv::bt601::yuv420_to_rgba(&[], &[], &[], 16)); println!("yuv empty w=16: {}", if r.is_ok() { "ok" } else { "PANIC" });
}
