import Sf.Basic
def lcg (s : Nat) : Nat := (s * 1103515245 + 12345) % 4294967296
def main (args : List String) : IO Unit := do
  let n := args.head!.toNat!
  let mut s := 1
  let mut acc : Int := 0
  for _ in [0:n] do
    let mut blk : Array (Array Int) := #[]
    for _ in [0:8] do
      let mut row : Array Int := #[]
      for _ in [0:8] do
        s := lcg s
        row := row.push (((s / 65536) % 4096 : Nat) - 2048)
      blk := blk.push row
    let r := idctFull blk
    for x in r do for v in x do acc := (acc * 31 + v) % 1000000007
  IO.println s!"{acc}"
