import re
src=open('/repo/h263/src/parser/block.rs').read()
i=src.index('const TCOEF_TABLE'); j=src.index('\n];',i)
body=src[i:j]
body=body[body.index('= [')+3:]
# strip comments
body=re.sub(r'//.*','',body)
# tokenise entries
entries=[]
pos=0
pat=re.compile(r'Fork\((\d+),\s*(\d+)\)|End\(Some\(Run\s*\{\s*last:\s*(true|false),\s*run:\s*(\d+),\s*level:\s*(\d+),?\s*\}\)\)|End\(Some\(EscapeToLong\)\)|End\(None\)',re.S)
for m in pat.finditer(body):
    t=m.group(0)
    if t.startswith('Fork'): entries.append(('F',int(m.group(1)),int(m.group(2))))
    elif 'Run' in t: entries.append(('R',m.group(3)=='true',int(m.group(4)),int(m.group(5))))
    elif 'Escape' in t: entries.append(('E',))
    else: entries.append(('N',))
print(len(entries))
codes={}
def walk(i,pre):
    e=entries[i]
    if e[0]=='F': walk(e[1],pre+'0'); walk(e[2],pre+'1')
    else: codes.setdefault(e,[]).append(pre)
walk(0,'')
# ffmpeg tables from memory
vlc=[(0x2,2),(0xf,4),(0x15,6),(0x17,7),(0x1f,8),(0x25,9),(0x24,9),(0x21,10),(0x20,10),(0x7,11),(0x6,11),(0x20,11),
(0x6,3),(0x14,6),(0x1e,8),(0xf,10),(0x21,11),(0x50,12),(0xe,4),(0x1d,8),(0xe,10),(0x51,12),(0xd,5),(0x23,9),(0xd,10),
(0xc,5),(0x22,9),(0x52,12),(0xb,5),(0xc,10),(0x53,12),(0x13,6),(0xb,10),(0x54,12),(0x12,6),(0xa,10),(0x11,6),(0x9,10),
(0x10,6),(0x8,10),(0x16,7),(0x55,12),(0x15,7),(0x14,7),(0x1c,8),(0x1b,8),(0x21,9),(0x20,9),(0x1f,9),(0x1e,9),(0x1d,9),
(0x1c,9),(0x1b,9),(0x1a,9),(0x22,11),(0x23,11),(0x56,12),(0x57,12),(0x7,4),(0x19,9),(0x5,11),(0xf,6),(0x4,11),(0xe,6),
(0xd,6),(0xc,6),(0x13,7),(0x12,7),(0x11,7),(0x10,7),(0x1a,8),(0x19,8),(0x18,8),(0x17,8),(0x16,8),(0x15,8),(0x14,8),
(0x13,8),(0x18,9),(0x17,9),(0x16,9),(0x15,9),(0x14,9),(0x13,9),(0x12,9),(0x11,9),(0x7,10),(0x6,10),(0x5,10),(0x4,10),
(0x24,11),(0x25,11),(0x26,11),(0x27,11),(0x58,12),(0x59,12),(0x5a,12),(0x5b,12),(0x5c,12),(0x5d,12),(0x5e,12),(0x5f,12),(0x3,7)]
rl=[]
for r,n in [(0,12),(1,6),(2,4),(3,3),(4,3),(5,3),(6,3),(7,2),(8,2),(9,2),(10,2)]+[(r,1) for r in range(11,27)]:
    for l in range(1,n+1): rl.append((False,r,l))
for r,n in [(0,3),(1,2)]+[(r,1) for r in range(2,41)]:
    for l in range(1,n+1): rl.append((True,r,l))
assert len(rl)==102 and len(vlc)==103
bad=0
for (last,run,lev),(c,n) in zip(rl,vlc[:102]):
    code=format(c,'0%db'%n)
    got=codes.get(('R',last,run,lev))
    if got!=[code]: bad+=1; print('MISMATCH',last,run,lev,code,got)
print('escape',codes.get(('E',)),format(vlc[102][0],'07b'))
print('invalid prefixes',codes.get(('N',)))
print('bad',bad,'rust run entries',sum(1 for e in entries if e[0]=='R'))
