from fractions import Fraction
def f32_of_decimal(s):
    """exact round-to-nearest-even of a decimal literal to binary32 (normal range only). returns (M,E): value=M*2^E, |M|<2^24"""
    q=Fraction(s)
    if q==0: return (0,0)
    sign=-1 if q<0 else 1
    a=abs(q)
    # find e such that 2^23 <= a/2^e < 2^24
    e=0
    while a/Fraction(2)**e >= 2**24: e+=1
    while a/Fraction(2)**e < 2**23: e-=1
    x=a/Fraction(2)**e
    fl=x.numerator//x.denominator
    rem=x-fl
    if rem>Fraction(1,2) or (rem==Fraction(1,2) and fl%2==1): fl+=1
    if fl==2**24: fl//=2; e+=1
    assert -126-23<=e<=127-23
    return (sign*fl,e)
