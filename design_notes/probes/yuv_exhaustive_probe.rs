use h263_rs_yuv::bt601::yuv420_to_rgba;
fn main() {
    // exhaustive: impl vs fixed-point formula vs real formula
    let mut maxdiff = 0f64; let mut bad = 0u64; let mut worst=(0,0,0);
    let cl = |v: i64| v.clamp(0, 255);
    for y in 0..256i64 { for cb in (0..256i64).step_by(1) { 
        // 4x1 picture: 4 lumas same y, cb pair (cb, cb), cr varies in pairs
        for cr2 in 0..128i64 { let cr0 = cr2*2; let cr1 = cr2*2+1;
            let out = yuv420_to_rgba(&[y as u8; 4], &[cb as u8, cb as u8], &[cr0 as u8, cr1 as u8], 4);
            for (lane, cr) in [(0usize, cr0), (2usize, cr1)] {
                let g = 76309*(y-16); 
                let r = cl((g + 104597*(cr-128) + 32768) >> 16);
                let gg = cl((g - 53279*(cr-128) - 25675*(cb-128) + 32768) >> 16);
                let b = cl((g + 132201*(cb-128) + 32768) >> 16);
                let px = &out[lane*4..lane*4+4];
                if px != [r as u8, gg as u8, b as u8, 255] || out[lane*4+4..lane*4+8] != *px { bad += 1; }
                let yf = 255.0/219.0*(y as f64-16.0);
                let rf = (yf + 255.0/224.0*1.402*(cr as f64-128.0)).clamp(0.0,255.0);
                let gf = (yf - 255.0/224.0*1.402*0.299/0.587*(cr as f64-128.0) - 255.0/224.0*1.772*0.114/0.587*(cb as f64-128.0)).clamp(0.0,255.0);
                let bf = (yf + 255.0/224.0*1.772*(cb as f64-128.0)).clamp(0.0,255.0);
                for (a, f) in [(r, rf), (gg, gf), (b, bf)] { let d = (a as f64 - f).abs(); if d > maxdiff { maxdiff = d; worst=(y,cb,cr); } }
            } } } }
    println!("bad={} maxdiff={} at {:?}", bad, maxdiff, worst);
}
