def td (x k : Int) : Int := if 0 ≤ x then x / k else -((-x) / k)
def sgn (x : Int) : Int := if x > 0 then 1 else if x < 0 then -1 else 0
def ramp (x s : Int) : Int := sgn x * max 0 (x.natAbs - max 0 (2 * ((x.natAbs : Int) - s)))
def clipd (x lim : Int) : Int := max (-(lim.natAbs : Int)) (min (lim.natAbs : Int) x)
structure Q where (a b c d : Int)
def kern (A B C D s : Int) : Q :=
  let d := td (A - 4*B + 4*C - D) 8
  let d1 := ramp d s
  let d2 := clipd (td (A - D) 4) (td d1 2)
  ⟨A - d2, max 0 (min 255 (B + d1)), max 0 (min 255 (C - d1)), D + d2⟩

theorem kern_range (A B C D s : Int) (hA : 0 ≤ A ∧ A ≤ 255) (hB : 0 ≤ B ∧ B ≤ 255) (hC : 0 ≤ C ∧ C ≤ 255)
    (hD : 0 ≤ D ∧ D ≤ 255) (hs : 1 ≤ s ∧ s ≤ 12) :
    0 ≤ (kern A B C D s).a ∧ (kern A B C D s).a ≤ 255 ∧ 0 ≤ (kern A B C D s).d ∧ (kern A B C D s).d ≤ 255 := by
  simp only [kern, clipd, ramp, sgn, td]
  repeat' split
  all_goals omega

-- halfpel wrap
def inv (d : Int) : Int := if d > 0 then d - 64 else if d < 0 then d + 64 else d
def hp (p d : Int) : Int := let o := d + p; if -32 ≤ o ∧ o < 32 then o else inv d + p
theorem hp_spec (p d : Int) (hp' : -32 ≤ p ∧ p < 32) (hd : -32 ≤ d ∧ d < 32) :
    hp p d = (p + d + 32) % 64 - 32 := by
  simp only [hp, inv]; split <;> (try split) <;> (try split) <;> omega
