theorem chunk_id : ∀ b : Fin 256, ∀ o : Fin 8, ∀ t : Fin 9, o.val + t.val ≤ 8 →
    ((b.val * 2^o.val) % 256) / 2^(8 - t.val) = (b.val / 2^(8 - o.val - t.val)) % 2^t.val := by
  decide +kernel
#print axioms chunk_id
