import numpy as np, re, math
src=open('/repo/h263/src/decoder/cpu/idct.rs').read()
i=src.index('const BASIS_TABLE: [[f32; 8]; 8] = ['); j=src.index('\n];',i)
T=np.array([np.float32(x) for x in re.findall(r'-?\d+\.\d+',src[i+40:j])],dtype=np.float32).reshape(8,8)
def idct1d(inp):  # inp [...,8] float32 -> [...,8]
    out=np.zeros_like(inp)
    for i in range(8):
        acc=np.zeros(inp.shape[:-1],dtype=np.float32)
        for f in range(8):
            acc=(acc+(inp[...,f]*T[f][i]).astype(np.float32)).astype(np.float32)
        out[...,i]=acc
    return out
def impl(blocks):  # blocks [N,8(y),8(x)] ints ; Full path
    b=blocks.astype(np.float32)
    o1=idct1d(b)                 # [N,row(v),i(x)]
    inter=np.transpose(o1,(0,2,1)).copy()   # [N,x,v]
    o2=idct1d(inter)             # [N,x,y]
    v=(o2/np.float32(4.0)+np.where(np.signbit(o2),np.float32(-0.5),np.float32(0.5))).astype(np.float32)
    r=np.clip(np.trunc(v),-256,255).astype(np.int64)
    return np.transpose(r,(0,2,1))  # [N,y,x]
C=np.array([[ (math.sqrt(0.5) if u==0 else 1.0)*0.5*math.cos((2*x+1)*u*math.pi/16) for x in range(8)] for u in range(8)])
def fdct(b): return C@b@C.T
def ridct(F): return C.T@F@C
randx=1
def ieeerand(L,H):
    global randx
    randx=(randx*1103515245+12345)&0xffffffff
    s=randx-(1<<32) if randx&0x80000000 else randx
    i=s&0x7ffffffe
    x=i/float(0x7fffffff); x*=(L+H+1); return int(x)-L
def run(L,H,sign,n=10000):
    global randx; randx=1
    blocks=np.zeros((n,8,8))
    for k in range(n):
        for a in range(8):
            for b in range(8): blocks[k,a,b]=sign*ieeerand(L,H)
    F=np.array([fdct(blocks[k]) for k in range(n)])
    Fi=np.clip(np.floor(F+0.5),-2048,2047)
    ref=np.array([ridct(Fi[k]) for k in range(n)])
    refi=np.clip(np.floor(ref+0.5),-256,255)
    out=impl(Fi.astype(np.int64))
    e=out-refi
    return dict(peak=np.abs(e).max(), pmse=(e**2).mean(0).max(), omse=(e**2).mean(), pme=np.abs(e.mean(0)).max(), ome=abs(e.mean()))
for (L,H) in [(256,255),(5,5),(300,300)]:
    for sign in (1,-1):
        print(L,H,sign,run(L,H,sign,n=2000))
