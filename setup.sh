#!/bin/sh
# Build the framework from files on disk only (offline): translator, Lean model + theorems + driver, Rust harness.
set -e
cd "$(dirname "$0")"
export CARGO_NET_OFFLINE=true
python3 tools/gen_tables.py
( cd lean && lake build driver H263V )
[ -f harness/Cargo.lock ] || cp /repo/Cargo.lock harness/Cargo.lock
( cd harness && cargo build --release --offline )
echo "setup: done"
