#!/usr/bin/env python3
"""Source fingerprints: which Rust files each property's model mirrors, and whether they differ from the tree the model was
written against.  A difference never fails a check; it makes the quick tier explore more (see core.amplify / DESIGN 8.8).
  python3 tools/srcmap.py --write   records the fingerprints of /repo's working tree in tools/srcmap_baseline.json
"""
import glob, hashlib, json, os, re, sys

REPO = os.environ.get("VERIF_REPO", "/repo")
HERE = os.path.dirname(os.path.abspath(__file__))
BASE = os.path.join(HERE, "srcmap_baseline.json")

H = "h263/src/"
DECODE = [H + "decoder/state.rs", H + "decoder/picture.rs", H + "decoder/cpu/*.rs", H + "parser/*.rs", H + "types.rs", H + "decoder/types.rs"]
UNITS = {
    "C01": DECODE, "C02": DECODE, "C03": DECODE, "C05": DECODE, "C15": DECODE, "C17": DECODE + ["yuv/src/*.rs", "deblock/src/*.rs"],
    "C04": [H + "decoder/state.rs", H + "decoder/picture.rs", H + "parser/picture.rs"],
    "C06": [H + "parser/picture.rs", H + "parser/reader.rs", H + "types.rs"],
    "C07": ["yuv/src/bt601.rs"], "C08": ["yuv/src/bt601.rs"],
    "C09": ["deblock/src/deblock.rs"], "C16": ["deblock/src/deblock.rs"],
    "C10": [H + "decoder/cpu/idct.rs", H + "decoder/cpu/rle.rs"],
    "C11": [H + "decoder/cpu/rle.rs", H + "parser/block.rs", H + "decoder/state.rs", H + "types.rs"],
    "C12": [H + "decoder/cpu/mvd_pred.rs", H + "types.rs", H + "parser/macroblock.rs", H + "decoder/state.rs"],
    "C13": DECODE + ["yuv/src/bt601.rs", "deblock/src/deblock.rs"],
    "C14": [H + "parser/reader.rs", H + "parser/vlc.rs"],
}


def normalise(text):
    text = re.sub(r"/\*.*?\*/", "", text, flags=re.S)
    text = re.sub(r"//[^\n]*", "", text)
    # drop test modules: they are not part of the modelled code
    text = re.split(r"#\[cfg\(test\)\]", text)[0]
    return re.sub(r"\s+", "", text)


def fingerprint(path):
    try:
        return hashlib.sha1(normalise(open(path, errors="replace").read()).encode()).hexdigest()
    except OSError:
        return "missing"


def current():
    out = {}
    for pats in UNITS.values():
        for pat in pats:
            for f in sorted(glob.glob(os.path.join(REPO, pat))):
                rel = os.path.relpath(f, REPO)
                if rel not in out:
                    out[rel] = fingerprint(f)
    return out


def changed_files(prop):
    """relative paths of the property's source files whose fingerprint differs from the recorded one (or that appeared / vanished)"""
    try:
        base = json.load(open(BASE))
    except OSError:
        return []
    cur = current()
    rel = set()
    for pat in UNITS.get(prop, []):
        for f in glob.glob(os.path.join(REPO, pat)):
            rel.add(os.path.relpath(f, REPO))
        for b in base:
            if glob.fnmatch.fnmatch(b, pat):
                rel.add(b)
    return sorted(r for r in rel if base.get(r) != cur.get(r, "missing"))


if __name__ == "__main__":
    if "--write" in sys.argv:
        json.dump(current(), open(BASE, "w"), indent=1, sort_keys=True)
        print("recorded", len(current()), "files")
    else:
        for p in sorted(UNITS):
            print(p, changed_files(p))
