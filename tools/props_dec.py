"""Plug-ins for the properties observed through decode histories (P / PP / S lines)."""
import re

import core
from props import Prop, register, COMMON_TRUSTED


def split_ops(out_line):
    """'P a | b | c' -> ['a', 'b', 'c']"""
    body = out_line.split(" ", 1)[1] if " " in out_line else ""
    return [x.strip() for x in body.split(" | ")] if body else []


def op_fields(op):
    """'ok last=[...] ref=[...] rem=12' -> (result, last, ref, rem)"""
    m = re.match(r"(\S+) last=(\[.*?\]|-) ref=(\[.*?\]|-) rem=(\d+) run=\d+$", op)
    if not m:
        return (op, None, None, None)
    return (m.group(1), m.group(2), m.group(3), int(m.group(4)))


def op_run(op):
    """the carried-over option bits reported after an op"""
    m = re.search(r" run=(\d+)$", op)
    return int(m.group(1)) if m else None


def is_crash(s):
    return ("PANIC" in s) or ("FUEL" in s) or s in ("CRASH", "TIMEOUT") or "THREAD-DIED" in s


class DecProp(Prop):
    # the carried-over option bits (`run=`) are part of what C05 states; for the other properties they are not compared, so that a
    # change to that bookkeeping alone is reported by C05 and not by every property that decodes pictures
    compare_run = False

    def compare(self, case, impl, other):
        if not self.compare_run:
            impl = re.sub(r" run=\d+", "", impl)
            other = re.sub(r" run=\d+", "", other)
        return impl == other

    def tally(self, hist, case, impl, model):
        for op in split_ops(impl):
            r = op.split(" ", 1)[0]
            hist[r] = hist.get(r, 0) + 1
        for t in re.findall(r"type=(\w+)", impl):
            hist["pic type " + t] = hist.get("pic type " + t, 0) + 1

    def nontrivial(self, case, model_out):
        return " ok " in model_out or model_out.startswith("P ok") or "post=ok" in model_out


def mutate(rng, hexs):
    b = bytearray(bytes.fromhex(hexs))
    if not b:
        return hexs
    k = rng.randint(0, 6)
    if k == 0:      # single bit flip
        i = rng.randrange(len(b) * 8)
        b[i // 8] ^= 0x80 >> (i % 8)
    elif k == 1:    # several bit flips
        for _ in range(rng.randint(2, 8)):
            i = rng.randrange(len(b) * 8)
            b[i // 8] ^= 0x80 >> (i % 8)
    elif k == 2:    # truncation
        b = b[:rng.randint(1, len(b))]
    elif k == 3:    # splice with itself
        i = rng.randrange(len(b))
        j = rng.randrange(len(b))
        b = b[:i] + b[j:]
    elif k == 4:    # random byte run
        i = rng.randrange(len(b))
        n = rng.randint(1, 6)
        b[i:i + n] = bytes(rng.randint(0, 255) for _ in range(n))
    elif k == 5:    # append garbage / extra macroblock data after the picture
        b += bytes(rng.randint(0, 255) for _ in range(rng.randint(1, 40)))
    else:           # flip a bit in the header area
        i = rng.randrange(min(len(b) * 8, 80))
        b[i // 8] ^= 0x80 >> (i % 8)
    return bytes(b).hex() if b else "00"


def mutate_line(rng, line):
    t = line.split(" ")
    ops = t[2].split(";") if len(t) > 2 else []
    out = []
    for op in ops:
        if op[:2] in ("d:", "a:", "r:") and rng.random() < 0.6:
            out.append(op[:2] + mutate(rng, op[2:]))
        else:
            out.append(op)
    if rng.random() < 0.3:
        out.append("n")
    o = t[1] if rng.random() < 0.7 else str(rng.randint(0, 3))
    return f"P {o} " + ";".join(out)


@register
class C01(DecProp):
    id = "C01"
    thm_module = "H263V.Thm.C01"
    rule = ("P lines: decode histories on one decoder and one growable reader - generated valid pictures (all four stream flavours), "
            "then corrupted (bit flips, truncations, splices, random runs, trailing garbage, header flips), random bytes behind a start code, "
            "and hand-built stress streams (zero sizes, 11-bit levels at high quantizers, more macroblocks than the picture holds, size changes), "
            "under all four option combinations; every call in-process under catch_unwind with overflow checks and debug assertions on.  "
            "Compared with the model for panic / no panic only (the model's outcome classes: value, error value).  Declared sizes above 2^21 samples "
            "are excluded on both sides (`skip-large`).  Non-trivial: the line got past the picture header at least once; distinct by text.")
    assumptions = ["allocation failure, stack exhaustion and wall-clock behaviour are runtime behaviour the model cannot exhibit; they are observed only by the harness (CRASH / TIMEOUT outcomes)",
                   "usize arithmetic modelled on unbounded Nat (64-bit target)"]

    def cases(self, tier, rng):
        n = core.q(tier, 250, 3000)
        seed = rng.randint(1, 10 ** 6)
        base = core.gen_lines("intra", seed, n) + core.gen_lines("inter", seed + 1, n) + core.gen_lines("hist", seed + 2, n)
        out = list(base)
        for l in base:
            for _ in range(core.q(tier, 2, 4)):
                out.append(mutate_line(rng, l))
        for _ in range(n * 4):
            nb = rng.randint(3, 60)
            body = bytes(rng.randint(0, 255) for _ in range(nb))
            first = 0x80 | (rng.choice([0, 0, 0, 1, 15, 31, rng.randint(0, 31)]) << 2) | rng.randint(0, 3)
            out.append(f"P {rng.randint(0, 3)} d:{(bytes([0, 0, first]) + body).hex()};n")
        out += core.gen_lines("stress", seed + 3, 0)
        return out

    def compare(self, case, impl, other):
        return is_crash(impl) == is_crash(other)

    def nontrivial(self, case, model_out):
        return any(x in model_out for x in (" ok ", "P ok", "InvalidMacroblock", "InvalidIntraDc", "Coefficient", "UncodedIFrame", "Unimplemented", "FormatInvalid"))

    def extra(self, tier, cases, impl_out, model_out, hist):
        return [{"case": c, "impl": i[:300], "why": "decode call panicked / aborted / hung"} for c, i in zip(cases, impl_out) if is_crash(i)][:20]


@register
class C02(DecProp):
    id = "C02"
    thm_module = "H263V.Thm.C02"
    rule = ("P lines: one generated intra picture per line (Sorenson v0 / v1, baseline H.263, PLUSPTYPE custom format; sizes 1x1 MB, one row, one column, "
            "non-multiples of 16, >= 3x3 MB, widths / heights at the top of the 16-bit range, and the sizes video uses: QCIF, CIF, 320x240, 160x120, sub-QCIF; quantizer, DQUANT, INTRADC, short / 7- / 8- / 11-bit escape events, stuffing, PEI bytes, truncated pictures) written by "
            "the specification encoder, decoded by the real H263State vs. the Lean model; planes compared by FNV-1a hash, plane sizes and chroma stride explicitly.  "
            "Non-trivial: the picture decodes; distinct by text.")
    assumptions = ["the ideal-transform clause is delegated to C10 (Annex A accuracy of the same soft-float IDCT model)"]

    def cases(self, tier, rng):
        # plus declared sizes at the top of the 16-bit range (one dimension 65521..65535, the other small)
        return (core.gen_lines("intra", rng.randint(1, 10 ** 6), core.q(tier, 500, 8000))
                + core.gen_lines("edgesizes", rng.randint(1, 10 ** 6), core.q(tier, 6, 0) if tier == "quick" else 0)
                + core.gen_lines("realsize", rng.randint(1, 10 ** 6), core.q(tier, 20, 400))
                + core.gen_lines("tallplus", rng.randint(1, 10 ** 6), 4 if tier == "quick" else 0))


@register
class C03(DecProp):
    id = "C03"
    thm_module = "H263V.Thm.C03"
    rule = ("P lines: an intra picture (high-entropy content) followed by 1..3 predicted pictures of the same size (small sizes of every class, and QCIF / CIF / 320x240 pairs): every macroblock type mix (not coded, INTER, INTER+Q, "
            "INTER4V, INTER4V+Q, INTRA, INTRA+Q), differentials over -16..15.5 so that vectors point outside every edge and wrap, disposable pictures, truncation after "
            "any macroblock; `noref`: histories that start without a reference picture (disposable or ordinary predicted pictures of INTRA macroblocks only, then pictures that need "
            "prediction, an I picture, further predicted pictures, one reader each); real decoder vs. Lean model, planes by hash.  Non-trivial: at least one predicted picture decodes; distinct by text.")

    def cases(self, tier, rng):
        return (core.gen_lines("inter", rng.randint(1, 10 ** 6), core.q(tier, 500, 8000))
                + core.gen_lines("realsize", rng.randint(1, 10 ** 6), core.q(tier, 20, 400))
                + core.gen_lines("noref", rng.randint(1, 10 ** 6), core.q(tier, 40, 600))
                + self.rejected_between(rng, core.gen_lines("inter", rng.randint(1, 10 ** 6), core.q(tier, 30, 600))))

    @staticmethod
    def rejected_between(rng, lines):
        """I picture, a REJECTED I picture (cut short / corrupted), then the predicted pictures - one reader each: the
        predicted pictures are predicted from the first I picture"""
        out = []
        for l in lines:
            t = l.split(" ")
            ops = t[2].split(";")
            if len(ops) < 2:
                continue
            hx = ops[0][2:]
            cut = hx[: 2 * rng.randint(8, max(9, len(hx) // 2 - 1))]
            bad = cut if rng.random() < 0.6 else mutate(rng, hx)
            out.append(f"P {t[1]} " + ";".join(["r:" + hx, "r:" + bad] + ["r:" + o[2:] for o in ops[1:]]))
        return out

    def nontrivial(self, case, model_out):
        return len(re.findall(r"(^P|\|) ok ", model_out)) >= 2


def spec_machine(ops_in, ops_out):
    """Replays the abstract rule of C04 on the implementation's own output; returns a description of the first deviation."""
    last = ref = "-"
    for k, op in enumerate(ops_out):
        r, l, f, _rem = op_fields(op)
        if l is None:
            return None
        if r == "ok":
            m = re.search(r"type=(\w+)", l)
            t = m.group(1) if m else "?"
            exp_ref = ref if t == "D" else l
            if f != exp_ref:
                return f"op {k}: after an accepted picture of type {t} the reference is {f[:60]}, the rule gives {exp_ref[:60]}"
            last, ref = l, exp_ref
        else:
            if l != last or f != ref:
                return f"op {k} ({r}): last/reference changed without an accepted picture"
    return None


@register
class C04(DecProp):
    id = "C04"
    thm_module = "H263V.Thm.C04"
    rule = ("P lines: histories of 2..9 operations over {I, P, disposable P, rejected picture, clean-up, size change} with temporal references drawn so that they collide "
            "(equal to the reference's, +1, +128 mod 256), and `noref` histories that start with disposable / predicted pictures of INTRA macroblocks only (no reference yet); pictures pairwise distinct; after every call the last and the reference picture (get_last_picture / "
            "get_reference_picture) are compared with the model, and the abstract rule (reference := new picture unless disposable) is replayed on the implementation's own "
            "output.  Non-trivial: the history contains a disposable picture followed by another accepted picture; distinct by text.")
    assumptions = ["temporal references are below 0x8000 (parsed values are at most 10 bits)"]

    def cases(self, tier, rng):
        return (core.gen_lines("hist", rng.randint(1, 10 ** 6), core.q(tier, 600, 10000))
                + core.gen_lines("noref", rng.randint(1, 10 ** 6), core.q(tier, 60, 1000)))

    def nontrivial(self, case, model_out):
        ops = split_ops(model_out)
        seen_d = False
        for op in ops:
            r, l, _f, _ = op_fields(op)
            if r == "ok" and l:
                if seen_d:
                    return True
                if "type=D" in l:
                    seen_d = True
        return False

    def extra(self, tier, cases, impl_out, model_out, hist):
        fails = []
        for c, i in zip(cases, impl_out):
            d = spec_machine(None, split_ops(i))
            if d:
                fails.append({"case": c, "impl": i[:400], "why": d})
        return fails[:20]


@register
class C05(DecProp):
    id = "C05"
    compare_run = True
    thm_module = "H263V.Thm.C05"
    rule = ("P lines: (a) histories containing rejected pictures at every depth (header, macroblock header, block data, prediction) followed by valid continuations; "
            "(b) every byte split (thorough: of pictures up to 400 bytes, 300 random splits of longer ones; quick: up to 60 bytes, 40 random splits) of a valid picture across two deliveries (append part 1, decode, append part 2, decode) against the single delivery.  On the implementation's "
            "own output: after a call that returned an error the last picture, the reference picture, the carried-over option bits (hook `verif_running_options`) and the number of unread bits are those before the call (plus the bits appended), "
            "and a call that failed for lack of data, repeated after the rest was appended, yields the single-delivery picture; "
            "(b2) `junction`: two pictures in one source, the second 0..7 zero bits behind the first, delivered in two pieces cut at every byte around the junction; (c) `leak`: a PLUSPTYPE picture that announces options (modified quantization, unrestricted vectors, ...) and is rejected after its header, followed by a picture "
            "that carries no OPPTYPE of its own; (d) pictures of 8 KiB and more split, or corrupted, beyond their first 4 KiB.  Non-trivial: the line contains a failed call "
            "followed by a successful one; distinct by text.")

    def cases(self, tier, rng):
        n = core.q(tier, 250, 3000)
        seed = rng.randint(1, 10 ** 6)
        out = core.gen_lines("hist", seed, n)
        # failing pictures planted into valid histories
        for l in core.gen_lines("inter", seed + 1, n):
            t = l.split(" ")
            ops = t[2].split(";")
            k = rng.randrange(len(ops))
            bad = "d:" + mutate(rng, ops[k][2:])
            ops2 = ops[:k] + [bad] + ops[k:]
            out.append(f"P {t[1]} " + ";".join(ops2))
            # the same with every picture in a reader of its own: the pictures behind the rejected one are decoded (the line
            # above leaves the reader in front of the rejected bytes), as if the failed call had never been made
            out.append(f"P {t[1]} " + ";".join("r:" + o[2:] for o in ops2))
        # split deliveries
        self._splits = {}
        whole = core.gen_lines("intra", seed + 2, core.q(tier, 40, 200))
        for l in whole:
            t = l.split(" ")
            hx = t[2][2:]
            nb = len(hx) // 2
            if tier == "thorough":
                ks = range(1, nb) if nb <= 400 else sorted(set(rng.randrange(1, nb) for _ in range(300)))
            else:
                ks = range(1, nb) if nb <= 60 else sorted(set(rng.randrange(1, nb) for _ in range(40)))
            out.append(l)
            for k in ks:
                s = f"P {t[1]} a:{hx[:2 * k]};n;a:{hx[2 * k:]};n"
                self._splits[s] = l
                out.append(s)
        # the same deliveries through a source that hands out at most 1 / 2 / 3 bytes per read call (option number / 4)
        sp = [l for l in out if ";n;a:" in l]
        for k, l in enumerate(sp[:: max(1, len(sp) // core.q(tier, 40, 400))]):
            t = l.split(" ", 2)
            out.append(f"P {int(t[1]) + 4 * (1 + k % 3)} {t[2]}")
        # two pictures in one source (junction byte aligned or not), delivered in two pieces cut around the junction
        out += core.gen_lines("junction", seed + 6, core.q(tier, 16, 160))
        # options announced by a rejected picture, then a picture that inherits its options
        out += core.gen_lines("leak", seed + 3, core.q(tier, 24, 240))
        # pictures of 8 KiB and more: deliveries split, and errors planted, beyond the first 4 KiB (after a small valid picture)
        small = core.gen_lines("intra", seed + 4, 8)
        for j, l in enumerate(core.gen_lines("bigintra", seed + 5, core.q(tier, 2, 12))):
            t = l.split(" ")
            hx = t[2][2:]
            nb = len(hx) // 2
            if nb < 4400:
                continue
            out.append(l)
            for k in sorted(set([4097, nb - 1] + [rng.randrange(4097, nb) for _ in range(core.q(tier, 2, 6))])):
                s = f"P {t[1]} a:{hx[:2 * k]};n;a:{hx[2 * k:]};n"
                self._splits[s] = l
                out.append(s)
            b = bytearray(bytes.fromhex(hx))
            for _ in range(core.q(tier, 2, 6)):
                b2 = bytearray(b)
                i = rng.randrange(4200, nb)
                b2[i:i + 4] = bytes(rng.randint(0, 255) for _ in range(4))
                first = [x for x in small if x.split(" ")[1] == t[1]]
                pre = (first[j % len(first)].split(" ")[2] + ";") if first else ""
                out.append(f"P {t[1]} {pre}d:{bytes(b2).hex()};n")
        return out

    def nontrivial(self, case, model_out):
        ops = [op_fields(o)[0] for o in split_ops(model_out)]
        for a, b in zip(ops, ops[1:] + [None]):
            pass
        seen_err = False
        for r in ops:
            if r.startswith("err"):
                seen_err = True
            elif r == "ok" and seen_err:
                return True
        return False

    def extra(self, tier, cases, impl_out, model_out, hist):
        fails = []
        res = dict(zip(cases, impl_out))
        for c, i in zip(cases, impl_out):
            ops_in = c.split(" ")[2].split(";") if len(c.split(" ")) > 2 else []
            ops_out = split_ops(i)
            prev = ("-", "-", 0)
            prev_run = 0
            for oi, oo in zip(ops_in, ops_out):
                r, l, f, rem = op_fields(oo)
                if l is None:
                    break
                run = op_run(oo)
                if (r.startswith("err") or r in ("app", "cleanup")) and run != prev_run:
                    fails.append({"case": c, "impl": i[:400], "why": f"after `{oi[:12]}` -> {r}: carried-over options {run}, before the call {prev_run}"})
                    break
                prev_run = run
                added = (len(oi) - 2) // 2 * 8 if oi[:2] in ("d:", "a:") else 0
                if oi[:2] == "r:":
                    prev = (prev[0], prev[1], (len(oi) - 2) // 2 * 8)
                    added = 0
                if r.startswith("err") or r in ("app", "cleanup"):
                    if (l, f) != prev[:2] or (r.startswith("err") and rem != prev[2] + added):
                        fails.append({"case": c, "impl": i[:400], "why": f"after `{oi[:12]}` -> {r}: last/reference/position not as before the call"})
                        break
                prev = (l, f, rem)
            if c in self._splits:
                w = res.get(self._splits[c])
                if w is not None and len(ops_out) == 4:
                    first = op_fields(ops_out[1])[0]
                    if first.startswith("err"):
                        a = op_fields(ops_out[3])
                        b = op_fields(split_ops(w)[0])
                        if (a[0], a[1], a[2]) != (b[0], b[1], b[2]):
                            fails.append({"case": c, "impl": i[:400], "whole": w[:300],
                                          "why": "a call that failed for lack of data, retried after the rest was appended, differs from the single delivery"})
        return fails[:20]


@register
class C13(DecProp):
    id = "C13"
    thm_module = "H263V.Thm.C13"
    rule = ("PP lines: a generated complete intra picture of every width x height (quick: 1..24 x 1..24; thorough: 1..40 x 1..40, plus the mixed intra generator, plus sizes with one dimension at the top of the 16-bit range; SZ lines: the plane sizes DecodedPicture::new allocates for sizes up to 2^27 luma samples) and a random "
            "quantizer is decoded by the real H263State; each plane is deblocked with QUANT_TO_STRENGTH[quantizer] and the result converted by yuv420_to_rgba, under "
            "catch_unwind with debug assertions on; outcome, RGBA length and hash compared with the model pipeline.  Non-trivial: the picture decodes and is post-processed; distinct by text.")

    def cases(self, tier, rng):
        out = core.gen_lines("sizes", rng.randint(1, 10 ** 6), core.q(tier, 24, 40))
        more = core.gen_lines("intra", rng.randint(1, 10 ** 6), core.q(tier, 150, 3000))
        out += ["PP " + l.split(" ")[1] + " " + l.split(" ")[2][2:] for l in more]
        out += core.gen_lines("edgesizespp", rng.randint(1, 10 ** 6), core.q(tier, 6, 0) if tier == "quick" else 0)
        # plane sizes alone, for picture sizes no decode case can afford (up to 2^27 luma samples): SZ lines
        szs = [(8193, 8193), (8194, 8194), (65534, 1025), (65535, 1025), (8192, 8192), (4097, 4097), (11587, 11585), (65535, 2047),
               (1, 65535), (65535, 1), (2, 2), (1, 1), (3, 5)]
        for _ in range(core.q(tier, 12, 60)):
            w = rng.randint(4097, 65535)
            szs.append((w, rng.randint(1, max(1, (1 << 27) // w))))
        out += [f"SZ {w} {h}" for (w, h) in szs]
        # one decoder, pictures of equal area and another shape one after the other (P lines: plane sizes and chroma stride of each)
        out += core.gen_lines("shapeswitch", rng.randint(1, 10 ** 6), 0)
        return out

    def compare(self, case, impl, other):
        return impl == other

    def extra(self, tier, cases, impl_out, model_out, hist):
        fails = []
        for c, i in zip(cases, impl_out):
            if "post=PANIC" in i or is_crash(i):
                fails.append({"case": c, "impl": i[:300], "why": "post-processing of a decoded picture panicked"})
            m = re.search(r"ok (\d+)x(\d+) q=\d+ post=ok len=(\d+)", i)
            if m and int(m.group(3)) != 4 * int(m.group(1)) * int(m.group(2)):
                fails.append({"case": c, "impl": i[:300], "why": "RGBA output is not width x height pixels"})
        return fails[:20]

    def tally(self, hist, case, impl, model):
        m = re.search(r"ok (\d+)x(\d+) q=(\d+)", impl)
        k = "other"
        if m:
            w, h = int(m.group(1)), int(m.group(2))
            k = ("w<10 " if w < 10 else "") + ("h<2 " if h < 2 else "") + ("odd " if (w % 2 or h % 2) else "even")
        hist[k] = hist.get(k, 0) + 1


@register
class C15(DecProp):
    id = "C15"
    thm_module = "H263V.Thm.C15"
    rule = ("P line pairs: 2..4 generated complete pictures (I, P, disposable P; Sorenson v0/v1, baseline, PLUSPTYPE; stuffing codewords; each padded with 0..7 zero bits "
            "to a byte boundary; and, at reader level, scripts that consume more than 64 KiB before `commit` and read on) (a) concatenated in one reader and decoded call after call, (b) one fresh reader per picture on the same decoder; both against the model, and the "
            "two lines against each other on the implementation's own output (same result and same last picture after every call).  Non-trivial: at least two pictures decode; distinct by text.")

    def cases(self, tier, rng):
        out = core.gen_lines("concat", rng.randint(1, 10 ** 6), core.q(tier, 300, 5000))
        # a picture with a dimension at the top of the 16-bit range, then a small one (pairs: one reader / one reader each)
        out += core.gen_lines("edgeconcat", rng.randint(1, 10 ** 6), 2 if tier == "quick" else 0)
        # what a picture of more than 64 KiB does to the reader: `commit` after that many bytes, at every bit phase, then more
        # reads (R lines, reader level: the Lean model of the picture layer is quadratic in the picture length, so pictures of
        # that size are exercised at this level only)
        out += long_source_scripts(rng, core.q(tier, 4, 40))
        return out

    def nontrivial(self, case, model_out):
        return len(re.findall(r"(^P|\|) ok ", model_out)) >= 2

    def extra(self, tier, cases, impl_out, model_out, hist):
        fails = []
        for k in range(0, len(cases) - 1, 2):
            a, b = cases[k], cases[k + 1]
            if not (a.split(" ")[2].startswith("a:") and b.split(" ")[2].startswith("r:")):
                continue
            oa = [op_fields(o) for o in split_ops(impl_out[k])][1:]   # skip the `app`
            ob = [op_fields(o) for o in split_ops(impl_out[k + 1])]
            # only when every picture decodes on its own reader (valid pictures)
            if not ob or any(x[0] != "ok" for x in ob):
                continue
            if [(x[0], x[1]) for x in oa] != [(x[0], x[1]) for x in ob]:
                fails.append({"case": a, "case_separate_readers": b, "impl": impl_out[k][:400], "impl_separate": impl_out[k + 1][:400],
                              "why": "pictures concatenated in one reader do not decode to the pictures obtained with one reader per picture"})
        return fails[:20]


@register
class C17(DecProp):
    id = "C17"
    thm_module = "H263V.Thm.C17"
    rule = ("S lines: 2..3 different histories (different picture sizes; temporal-reference collisions with disposable pictures) run on 4 (quick) / 8 (thorough) threads, every thread "
            "holding its own decoder instance per history and interleaving the instances operation by operation in a rotated order; all threads must obtain, for every history, "
            "the model's single sequential answer (pictures by hash, errors, reader position).  Non-trivial: at least two histories with different picture sizes decode; distinct by text.")
    assumptions = ["thread scheduling, the allocator and lazy-static initialisation races are runtime behaviour the model cannot exhibit; observed only through the harness"]

    def cases(self, tier, rng):
        n = core.q(tier, 120, 1500)
        seed = rng.randint(1, 10 ** 6)
        h1 = core.gen_lines("hist", seed, n)
        h2 = core.gen_lines("inter", seed + 1, n)
        h3 = core.gen_lines("intra", seed + 2, n)
        th = core.q(tier, 4, 8)
        out = []
        for a, b, c in zip(h1, h2, h3):
            parts = [a[2:], b[2:]] + ([c[2:]] if rng.random() < 0.5 else [])
            rng.shuffle(parts)
            out.append(f"S {th} " + " || ".join(parts))
        return out

    def nontrivial(self, case, model_out):
        return len(set(re.findall(r"(\d+x\d+) n=", model_out))) >= 2

    def extra(self, tier, cases, impl_out, model_out, hist):
        return [{"case": c, "impl": i[:400], "why": "instances on different threads / in different interleavings disagree"}
                for c, i in zip(cases, impl_out) if "DIFFER" in i or is_crash(i)][:20]


@register
class C06(DecProp):
    id = "C06"
    thm_module = "H263V.Thm.C06"
    rule = ("H lines: header descriptions (Sorenson: all 32 versions, all 256 temporal references, all 8 size codes x edge sizes x 4 picture types, all quantizers x deblocking flag; "
            "baseline: all 32 PTYPE low-bit patterns x all source formats, all temporal references, wrong marker bits; PLUSPTYPE: all 2^10 OPPTYPE mode patterns, custom picture format "
            "width x height grid (thorough: all 512 x 289), all PAR codes incl. EPAR, custom clock + ETR, UUI, SSS, ELNUM/RLNUM under the scalability option, RPSMF, TRPI/TRP, BCI, CPM/PSBI, "
            "MPPTYPE, PB fields, PEI bytes, UFEP=000 after parsed and after synthetic previous headers, every fixed marker wrong, BCI=1) written by the specification encoder, followed by random bits; parsed "
            "by parser::decode_picture; the header (all public fields) and the number of bits consumed are compared with the model and with the specification's expected header.  "
            "Non-trivial: every accepted header; distinct by text.")
    assumptions = ["baseline (no PLUSPTYPE) headers are exercised without the scalability option: whether ELNUM accompanies them is not pinned down by the statement",
                   "UFEP=000 headers follow (a) real previous headers given in hex and parsed first (all OPPTYPE mode patterns), (b) synthetic previous headers without a format built through the public Picture struct (arbitrary option sets, incl. ones no parse produces)"]

    def cases(self, tier, rng):
        seed = rng.randint(1, 10 ** 6)
        kind = "headersT" if tier == "thorough" else "headers"
        cs = core.gen_lines(kind, seed, 0)
        self._expected = dict(zip(cs, core.gen_lines(kind.replace("headers", "headersx"), seed, 0)))
        return cs

    def nontrivial(self, case, model_out):
        return model_out.startswith("H ver=")

    def tally(self, hist, case, impl, model):
        k = "accepted" if impl.startswith("H ver=") else impl.split(" ")[1] if " " in impl else impl
        hist[k] = hist.get(k, 0) + 1

    def extra(self, tier, cases, impl_out, model_out, hist):
        fails = []
        for c, i in zip(cases, impl_out):
            e = self._expected.get(c)
            if e is None:
                continue
            ok = (i.startswith("H err:") and i.endswith("used=0")) if e == "H err:* used=0" else (i == e)
            if not ok:
                fails.append({"case": c, "impl": i[:500], "spec": e[:500], "why": "parsed header differs from the specification's"})
        return fails[:20]


def long_source_scripts(rng, count):
    """more than 64 KiB consumed before a commit (a big picture), ending at every bit phase, then more reads"""
    out = []
    for k in range(count):
        nb = rng.randint(65600, 70000)
        src = bytes(rng.randint(0, 255) for _ in range(nb))
        consumed = 8 * rng.randint(65537, nb - 40) + (k % 8)
        ops = [f"rd{rng.choice([1, 7, 8, 13])}", f"sk{consumed}", "cm", "rd32", f"pk{rng.choice([9, 17, 32])}", f"rd{rng.choice([3, 19, 32])}", "cm", "rd16"]
        out.append(f"R 32 {src.hex()} {';'.join(ops)}")
    # failing transactions, look-aheads and `none` unions that span many bytes (5 KB .. 66 KB) before they roll back
    for k in range(count):
        span = [5000, 9000, 20000, 40000, 66000][k % 5] + rng.randint(0, 300)
        nb = span + rng.randint(600, 3000)
        src = bytes(rng.randint(0, 255) for _ in range(nb))
        big = 8 * span + (k % 8)
        ops = [f"rd{rng.choice([1, 5, 8, 13])}", f"tx(sk{big};rd9)fail", "rd16", f"la(sk{big};rd7)", "rd9",
               f"tu(sk{big};rd3)none", "rd32", f"tx(sk{big};rd11)ok", "rd8", "cm", "rd24"]
        out.append(f"R 32 {src.hex()} {';'.join(ops)}")
    return out


def gen_reader_ops(rng, depth=0, n=None):
    ops = []
    n = n or rng.randint(1, 8)
    for _ in range(n):
        k = rng.randint(0, 13)
        w = rng.choice([0, 1, 1, 2, 3, 5, 7, 8, 9, 13, 16, 17, 24, 31, 32, 33, 64, 65])
        if k <= 1:
            ops.append(f"pk{w}")
        elif k <= 4:
            ops.append(f"rd{w}")
        elif k == 5:
            ops.append(f"sk{rng.choice([0, 1, 3, 8, 17, 40])}")
        elif k == 6:
            ops.append(f"ps{max(1, w)}")
        elif k == 7:
            ops.append(f"rs{max(1, w)}")
        elif k == 8:
            ops.append(f"sc{rng.randint(0, 1)}")
        elif k == 9:
            ops.append("cm" if depth == 0 else f"rd{w}")
        elif k == 10:
            ops.append(f"vl{rng.randint(0, 2)}")
        elif depth < 2:
            body = ";".join(gen_reader_ops(rng, depth + 1, rng.randint(1, 4)))
            c = rng.randint(0, 2)
            if c == 0:
                ops.append(f"tx({body}){rng.choice(['ok', 'fail'])}")
            elif c == 1:
                ops.append(f"tu({body}){rng.choice(['some', 'none', 'fail'])}")
            else:
                ops.append(f"la({body})")
        else:
            ops.append(f"rd{w}")
    return ops


@register
class C14(Prop):
    id = "C14"
    thm_module = "H263V.Thm.C14"
    rule = ("R lines: operation scripts (peek / read / signed peek and read / skip / start-code recognition in both modes / read_vlc on three test tables / commit, nested "
            "with_transaction (ok, fail), with_transaction_union (some, none, fail) and with_lookahead up to depth 2; widths 0..65) over sources of 0..12 bytes (random, sparse with planted "
            "start codes at every phase, all-zero runs) for result types u8/u16/u32/u64 on the real H263Reader, compared with the concrete reader model and with the specification "
            "machine (a plain bit list).  quick: bounded-exhaustive scripts of <= 2 ops over a width set on 4 sources + 20,000 random scripts; thorough: <= 3 ops + 400,000 random.  "
            "Long sources (more than 64 KiB consumed, then commit at every bit phase, then further reads; failing transactions, look-aheads and `none` unions spanning 5 KB .. 66 KB).  Non-trivial: an op starts at a non-zero bit phase and some op straddles a byte boundary or the end of data; distinct by text.")
    assumptions = ["signed reads of width 0 are outside the domain (two's complement of a 0-bit field is undefined; the code computes bits_needed - 1 on a u32)",
                   "`commit` inside an open transaction invalidates the checkpoint (documented precondition of rollback): scripts commit only at top level",
                   "a bare failed read_vlc keeps the bits it consumed (documented: position undefined); inside a combinator the position is restored"]

    def cases(self, tier, rng):
        out = []
        widths = [0, 1, 7, 8, 9, 16, 17, 31, 32]
        basic = [f"pk{w}" for w in widths] + [f"rd{w}" for w in widths] + [f"rs{w}" for w in widths if w] + ["sk1", "sk8", "sk17", "sc0", "sc1", "cm", "vl0"]
        srcs = ["a5c3f00f", "00008a", "ff", "000000010000"]
        depth = core.q(tier, 2, 3)
        import itertools
        for src in srcs:
            for W in (8, 32):
                for k in range(1, depth + 1):
                    pool = basic if k < 3 else basic[::3]
                    for combo in itertools.product(pool, repeat=k):
                        out.append(f"R {W} {src} {';'.join(combo)}")
        for _ in range(core.q(tier, 20000, 400000)):
            nb = rng.randint(0, 12)
            style = rng.randint(0, 3)
            if style == 0:
                src = bytes(rng.randint(0, 255) for _ in range(nb))
            elif style == 1:
                src = bytes(rng.choice([0, 0, 0, 0x80, 1, 0xff]) for _ in range(nb))
            else:
                src = bytes(rng.choice([0, 0, 0, rng.randint(0, 255)]) for _ in range(nb))
            out.append(f"R {rng.choice([8, 16, 32, 64])} {src.hex() or '-'} {';'.join(gen_reader_ops(rng))}")
        out += long_source_scripts(rng, core.q(tier, 8, 80))
        return out

    def oracle_line(self, case):
        return "RS " + case.split(" ", 1)[1]

    def nontrivial(self, case, model_out):
        return "=" in model_out and ("!Eof" in model_out or len(case.split(" ")[2]) > 2)

    def tally(self, hist, case, impl, model):
        for tok in impl.split(" ")[1:]:
            k = tok.split("=")[0] if tok.startswith("rem") else (tok if not tok.startswith("=") else "value")
            hist[k] = hist.get(k, 0) + 1
