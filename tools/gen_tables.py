#!/usr/bin/env python3
"""Translator: Rust constants / literals of /repo's *current* working tree -> lean/H263V/Gen/Tables.lean.

Re-run by every check.  Everything the Lean theorems say about tables and numeric literals is
therefore re-checked against what the code says now.  If an item cannot be located or parsed the
translator exits non-zero with a message naming it (the check treats this as a broken obligation).

No third-party imports.
"""
import json
import os
import re
import sys
from fractions import Fraction

REPO = os.environ.get("VERIF_REPO", "/repo")
OUT = os.path.join(os.path.dirname(os.path.abspath(__file__)), "..", "lean", "H263V", "Gen", "Tables.lean")


class TranslateError(Exception):
    pass


def read(rel):
    p = os.path.join(REPO, rel)
    try:
        return open(p, encoding="utf-8").read()
    except OSError as e:
        raise TranslateError(f"cannot read {rel}: {e}")


def strip_comments(src):
    # remove /* */ (non-nested is enough for this code base, but handle nesting anyway) and // comments
    out = []
    i, n, depth = 0, len(src), 0
    while i < n:
        if src.startswith("/*", i):
            depth += 1
            i += 2
        elif depth and src.startswith("*/", i):
            depth -= 1
            i += 2
        elif depth:
            i += 1
        elif src.startswith("//", i):
            j = src.find("\n", i)
            i = n if j < 0 else j
        elif src[i] == '"':
            j = i + 1
            while j < n and src[j] != '"':
                j += 2 if src[j] == "\\" else 1
            out.append(src[i:j + 1])
            i = j + 1
        else:
            out.append(src[i])
            i += 1
    return "".join(out)


def const_body(src, name, rel):
    """Text between the `[` that follows `const NAME ... =` and its matching `]`."""
    m = re.search(r"\b(?:pub\s+)?(?:const|static)\s+" + re.escape(name) + r"\s*:[^=]*=\s*\[", src)
    if not m:
        raise TranslateError(f"{rel}: constant {name} not found")
    i = m.end()
    depth = 1
    j = i
    while j < len(src) and depth:
        c = src[j]
        if c == "[":
            depth += 1
        elif c == "]":
            depth -= 1
        j += 1
    if depth:
        raise TranslateError(f"{rel}: constant {name}: unbalanced brackets")
    return src[i:j - 1]


def split_top(body):
    """Split on commas at nesting depth 0."""
    parts, depth, cur = [], 0, []
    for c in body:
        if c in "([{":
            depth += 1
        elif c in ")]}":
            depth -= 1
        if c == "," and depth == 0:
            parts.append("".join(cur).strip())
            cur = []
        else:
            cur.append(c)
    last = "".join(cur).strip()
    if last:
        parts.append(last)
    return parts


def lean_bool(s):
    s = s.strip()
    if s == "true":
        return "true"
    if s == "false":
        return "false"
    raise TranslateError(f"expected bool, got {s!r}")


MBTYPES = {
    "Inter": "inter", "InterQ": "interQ", "Inter4V": "inter4V",
    "Intra": "intra", "IntraQ": "intraQ", "Inter4Vq": "inter4Vq",
}


def payload_bpe(s):
    s = re.sub(r"\s+", "", s)
    if s == "BlockPatternEntry::Stuffing":
        return ".stuffing"
    if s == "BlockPatternEntry::Invalid":
        return ".invalid"
    m = re.fullmatch(r"BlockPatternEntry::Valid\(MacroblockType::(\w+),(true|false),(true|false),?\)", s)
    if not m or m.group(1) not in MBTYPES:
        raise TranslateError(f"MCBPC payload not understood: {s}")
    return f"(.valid .{MBTYPES[m.group(1)]} {m.group(2)} {m.group(3)})"


def payload_modb(s):
    s = re.sub(r"\s+", "", s)
    m = re.fullmatch(r"\((true|false),(true|false)\)", s)
    if not m:
        raise TranslateError(f"MODB payload not understood: {s}")
    return f"({m.group(1)}, {m.group(2)})"


def payload_cbpy(s):
    s = re.sub(r"\s+", "", s)
    if s == "None":
        return "none"
    m = re.fullmatch(r"Some\(\[(true|false),(true|false),(true|false),(true|false),?\]\)", s)
    if not m:
        raise TranslateError(f"CBPY payload not understood: {s}")
    return f"(some ({m.group(1)}, {m.group(2)}, {m.group(3)}, {m.group(4)}))"


def rust_int(lit):
    """a Rust integer literal: decimal / 0x / 0o / 0b, `_` separators, optional type suffix, optional sign"""
    t = lit.strip().replace("_", "")
    t = re.sub(r"(u8|u16|u32|u64|u128|usize|i8|i16|i32|i64|i128|isize)$", "", t)
    if not re.fullmatch(r"-?(0x[0-9a-fA-F]+|0o[0-7]+|0b[01]+|\d+)", t):
        raise TranslateError(f"integer literal not understood: {lit!r}")
    return int(t, 0) if not t.lstrip("-").isdigit() else int(t)


def dec_to_fraction(lit):
    lit = lit.strip().replace("_", "")
    lit = re.sub(r"f32$|f64$", "", lit)
    if not re.fullmatch(r"-?\d+(\.\d*)?([eE][-+]?\d+)?", lit):
        raise TranslateError(f"float literal not understood: {lit!r}")
    return Fraction(lit)


def payload_mvd(s):
    s = re.sub(r"\s+", "", s)
    if s == "None":
        return "none"
    m = re.fullmatch(r"Some\((-?[\d.]+)\)", s)
    if not m:
        raise TranslateError(f"MVD payload not understood: {s}")
    f = dec_to_fraction(m.group(1))
    return f"(some ({lean_int(f.numerator)}, {f.denominator}))"


def payload_tcoef(s):
    s = re.sub(r"\s+", "", s)
    if s == "None":
        return "none"
    if s == "Some(EscapeToLong)":
        return "(some .esc)"
    m = re.fullmatch(r"Some\(Run\{last:(true|false),run:(\d+),level:(\d+),?\}\)", s)
    if not m:
        raise TranslateError(f"TCOEF payload not understood: {s}")
    return f"(some (.run {m.group(1)} {m.group(2)} {m.group(3)}))"


def lean_int(n):
    return f"({n})" if n < 0 else str(n)


def vlc_table(src, name, rel, payload):
    body = const_body(src, name, rel)
    out = []
    for e in split_top(body):
        e1 = re.sub(r"\s+", "", e)
        m = re.fullmatch(r"(?:Entry::)?Fork\((\d+),(\d+)\)", e1)
        if m:
            out.append(f".fork {m.group(1)} {m.group(2)}")
            continue
        m = re.fullmatch(r"(?:Entry::)?End\((.*)\)", e, re.S)
        if not m:
            raise TranslateError(f"{rel}: {name}: entry not understood: {e!r}")
        out.append(f".fin {payload(m.group(1))}")
    if not out:
        raise TranslateError(f"{rel}: {name}: empty table")
    return out


def f32_of_fraction(x):
    """Exact round-to-nearest-even conversion of a rational to binary32 (normal range only).
    Returns (mantissa, exponent) with value = mantissa * 2**exponent, |mantissa| < 2**24."""
    if x == 0:
        return (0, 0)
    sign = -1 if x < 0 else 1
    a = abs(x)
    # find e with 2^23 <= a / 2^e < 2^24
    e = 0
    while a / Fraction(2) ** e >= 2 ** 24:
        e += 1
    while a / Fraction(2) ** e < 2 ** 23:
        e -= 1
    q = a / Fraction(2) ** e
    m = q.numerator // q.denominator
    rem = q - m
    if rem > Fraction(1, 2) or (rem == Fraction(1, 2) and m % 2 == 1):
        m += 1
    if m == 2 ** 24:
        m //= 2
        e += 1
    if not (-126 - 23 <= e <= 127 - 23):
        raise TranslateError(f"f32 literal {x} outside the normal range")
    return (sign * m, e)


def let_literal(src, var, rel, pattern=r"-?\d[\d_]*"):
    """The integer literal inside `let <var> = ... splat(<lit>)` or `let <var> = ... <lit>` (first literal after '=')."""
    m = re.search(r"\blet\s+" + re.escape(var) + r"\b[^=;]*=\s*([^;]*);", src)
    if not m:
        raise TranslateError(f"{rel}: `let {var}` not found")
    return m.group(1)


def sec_deblock_table():
    L = []
    w = L.append
    rel = "deblock/src/deblock.rs"
    src = strip_comments(read(rel))
    body = const_body(src, "QUANT_TO_STRENGTH", rel)
    vals = [rust_int(x) for x in split_top(body)]
    w(f"def QUANT_TO_STRENGTH : Array Nat := #[{', '.join(map(str, vals))}]")
    w("")
    return L


def sec_yuv_kernel():
    L = []
    w = L.append
    rel = "yuv/src/bt601.rs"
    src = strip_comments(read(rel))
    fm = re.search(r"fn\s+yuv_to_rgba_4x\b.*?\n}\n", src, re.S)
    if not fm:
        raise TranslateError(f"{rel}: fn yuv_to_rgba_4x not found")
    fsrc = fm.group(0)

    def splat_of(var):
        rhs = let_literal(fsrc, var, rel)
        m = re.search(r"splat\(\s*(-?\d[\d_]*)\s*\)", rhs)
        if not m:
            raise TranslateError(f"{rel}: `let {var}`: no splat literal in {rhs!r}")
        return int(m.group(1).replace("_", ""))

    def offset_of(var):
        # `let y = i32x4::from([...]) - i32x4::splat(16);`  (the first `let y` in the function)
        m = re.search(r"\blet\s+" + var + r"\s*=\s*i32x4::from\(\[[^;]*?\]\)\s*-\s*i32x4::splat\(\s*(\d+)\s*\)\s*;", fsrc, re.S)
        if not m:
            raise TranslateError(f"{rel}: offset of `{var}` not found")
        return int(m.group(1))

    def lanes_of(var):
        m = re.search(r"\blet\s+" + var + r"\s*=\s*i32x4::from\(\[([^;]*?)\]\)\s*-", fsrc, re.S)
        if not m:
            raise TranslateError(f"{rel}: lanes of `{var}` not found")
        idx = re.findall(var + r"\[(\d)\]", m.group(1))
        if len(idx) != 4:
            raise TranslateError(f"{rel}: lanes of `{var}`: expected 4 indices, got {idx}")
        return [int(i) for i in idx]

    yuv = {
        "Y_OFF": offset_of("y"), "CB_OFF": offset_of("cb"), "CR_OFF": offset_of("cr"),
        "C_GRAY": splat_of("gray"), "C_CR2R": splat_of("cr2r"), "C_CR2G": splat_of("cr2g"),
        "C_CB2G": splat_of("cb2g"), "C_CB2B": splat_of("cb2b"), "HALF": splat_of("half"),
        "MAXV": splat_of("max"), "ALPHA": splat_of("a"),
    }
    for k, v in yuv.items():
        w(f"def YUV_{k} : Int := {lean_int(v)}")
    # shifts of the three channel expressions and the formula shape
    for ch, expect in (("r", ["gray", "cr2r", "half"]), ("g", ["gray", "cr2g", "cb2g", "half"]), ("b", ["gray", "cb2b", "half"])):
        m = re.search(r"\blet\s+" + ch + r"\s*:\s*i32x4\s*=\s*\(([^)]*)\)\s*>>\s*(\d+)\s*;", fsrc)
        if not m:
            raise TranslateError(f"{rel}: channel expression `{ch}` not found")
        terms = [t.strip() for t in m.group(1).split("+")]
        if terms != expect:
            raise TranslateError(f"{rel}: channel `{ch}` sums {terms}, the model expects {expect}")
        w(f"def YUV_SHIFT_{ch.upper()} : Nat := {int(m.group(2))}")
    for ch in "rgb":
        if not re.search(r"\blet\s+" + ch + r"\s*=\s*" + ch + r"\.max\(i32x4::ZERO\)\.min\(max\)\s*;", fsrc):
            raise TranslateError(f"{rel}: clamp of channel `{ch}` not in the expected form")
    m = re.search(r'#\[cfg\(target_endian\s*=\s*"little"\)\]\s*let\s+rgba_4x\s*=\s*\(\(r\)\s*\|\s*\(g\s*<<\s*(\d+)\)\)\s*\|\s*\(\(b\s*<<\s*(\d+)\)\s*\|\s*\(a\s*<<\s*(\d+)\)\)\s*;', fsrc)
    if not m:
        raise TranslateError(f"{rel}: little-endian byte interleave not in the expected form")
    w(f"def YUV_PACK_SHIFTS : List Nat := [0, {m.group(1)}, {m.group(2)}, {m.group(3)}]")
    w(f"def YUV_Y_LANES : List Nat := {lanes_of('y')}")
    w(f"def YUV_CB_LANES : List Nat := {lanes_of('cb')}")
    w(f"def YUV_CR_LANES : List Nat := {lanes_of('cr')}")
    w("")
    return L


def sec_dezigzag_basis():
    L = []
    w = L.append
    rel = "h263/src/decoder/cpu/rle.rs"
    src = strip_comments(read(rel))
    body = const_body(src, "DEZIGZAG_MAPPING", rel)
    pairs = []
    for e in split_top(body):
        m = re.fullmatch(r"\(\s*(\w+)\s*,\s*(\w+)\s*\)", e)
        if not m:
            raise TranslateError(f"{rel}: DEZIGZAG_MAPPING entry {e!r}")
        pairs.append((rust_int(m.group(1)), rust_int(m.group(2))))
    w("/-- (x, y) per zig-zag index. -/")
    w("def DEZIGZAG : Array (Nat × Nat) := #[" + ", ".join(f"({a}, {b})" for a, b in pairs) + "]")
    w("")

    rel = "h263/src/decoder/cpu/idct.rs"
    src = strip_comments(read(rel))
    body = const_body(src, "BASIS_TABLE", rel)
    rows = split_top(body)
    lit_rows, f32_rows = [], []
    for r in rows:
        r = r.strip()
        if not (r.startswith("[") and r.endswith("]")):
            raise TranslateError(f"{rel}: BASIS_TABLE row {r!r}")
        lits = [dec_to_fraction(x) for x in split_top(r[1:-1])]
        lit_rows.append(lits)
        f32_rows.append([f32_of_fraction(x) for x in lits])
    w("/-- BASIS_TABLE[freq][x] as exact binary32 values: (mantissa, exponent), value = mantissa * 2^exponent. -/")
    w("def BASIS : Array (Array (Int × Int)) := #[")
    w(",\n".join("  #[" + ", ".join(f"({lean_int(m)}, {lean_int(e)})" for m, e in row) + "]" for row in f32_rows))
    w("]")
    w("/-- The decimal literals as written in the source: (numerator, denominator). -/")
    w("def BASIS_LIT : Array (Array (Int × Nat)) := #[")
    w(",\n".join("  #[" + ", ".join(f"({lean_int(x.numerator)}, {x.denominator})" for x in row) + "]" for row in lit_rows))
    w("]")
    w("")
    return L


def sec_vlc_tables():
    L = []
    w = L.append
    rel = "h263/src/parser/macroblock.rs"
    src = strip_comments(read(rel))
    for name, lname, ty, pl in (
        ("MCBPC_I_TABLE", "MCBPC_I", "BPE", payload_bpe),
        ("MCBPC_P_TABLE", "MCBPC_P", "BPE", payload_bpe),
        ("MODB_TABLE", "MODB", "(Bool × Bool)", payload_modb),
        ("CBPY_TABLE_INTRA", "CBPY", "(Option (Bool × Bool × Bool × Bool))", payload_cbpy),
        ("MVD_TABLE", "MVD", "(Option (Int × Nat))", payload_mvd),
    ):
        ents = vlc_table(src, name, rel, pl)
        w(f"def {lname} : Array (Entry {ty}) := #[")
        w(",\n".join("  " + e for e in ents))
        w("]")
        w("")
    rel = "h263/src/parser/block.rs"
    src = strip_comments(read(rel))
    ents = vlc_table(src, "TCOEF_TABLE", rel, payload_tcoef)
    w("def TCOEF : Array (Entry (Option TShort)) := #[")
    w(",\n".join("  " + e for e in ents))
    w("]")
    w("")
    return L


def sec_halfpel():
    L = []
    w = L.append
    rel = "h263/src/types.rs"
    src = strip_comments(read(rel))
    for name in ("STANDARD_RANGE", "EXTENDED_RANGE", "EXTENDED_RANGE_QUADCIF", "EXTENDED_RANGE_SIXTEENCIF", "EXTENDED_RANGE_BEYONDCIF"):
        m = re.search(r"pub\s+const\s+" + name + r"\s*:\s*(?:Self|HalfPel)\s*=\s*(?:Self|HalfPel)\(\s*(\w+)\s*\)\s*;", src)
        if not m:
            raise TranslateError(f"{rel}: HalfPel::{name} not found")
        w(f"def HP_{name} : Int := {rust_int(m.group(1))}")
    m = re.search(r"fn\s+invert\b.*?Ordering::Greater\s*=>\s*Self\(self\.0\s*-\s*(\d+)\).*?Ordering::Less\s*=>\s*Self\(self\.0\s*\+\s*(\d+)\)", src, re.S)
    if not m:
        raise TranslateError(f"{rel}: HalfPel::invert constants not found")
    w(f"def HP_INVERT_POS : Int := {m.group(1)}")
    w(f"def HP_INVERT_NEG : Int := {m.group(2)}")
    w("")
    return L


def sec_option_masks():
    L = []
    w = L.append
    tsrc = strip_comments(read("h263/src/types.rs"))
    flag_vals = {}
    bm = re.search(r"pub\s+struct\s+PictureOption\s*:\s*u32\s*\{(.*?)\n    \}", tsrc, re.S)
    if not bm:
        raise TranslateError("h263/src/types.rs: bitflags PictureOption not found")
    for fm in re.finditer(r"const\s+(\w+)\s*=\s*(0b[01_]+|0x[0-9a-fA-F_]+|\d+)\s*;", bm.group(1)):
        flag_vals[fm.group(1)] = int(fm.group(2).replace("_", ""), 0)
    masks = []
    for relm in ("h263/src/types.rs", "h263/src/parser/picture.rs"):
        msrc = strip_comments(read(relm))
        for lm in re.finditer(r"lazy_static!\s*\{(.*?)\n\}", msrc, re.S):
            for sm in re.finditer(r"static\s+ref\s+(\w+)\s*:\s*([\w:]+)\s*=\s*([^;]*);", lm.group(1)):
                val = 0
                for term in sm.group(3).split("|"):
                    term = term.strip()
                    tm = re.fullmatch(r"PictureOption::(\w+)", term)
                    if not tm or tm.group(1) not in flag_vals:
                        raise TranslateError(f"{relm}: lazy static {sm.group(1)}: initialiser term {term!r} is not a constant PictureOption flag")
                    val |= flag_vals[tm.group(1)]
                masks.append((relm, sm.group(1), val))
    w("/-- every lazily initialised static: (file, name, value of its constant initialiser) -/")
    w("def LAZY_MASKS : List (String × String × Nat) := [")
    w(",\n".join(f'  ("{a}", "{b}", {c})' for a, b, c in masks))
    w("]")
    w("def PICTURE_OPTION_FLAGS : List (String × Nat) := [")
    w(",\n".join(f'  ("{a}", {b})' for a, b in flag_vals.items()))
    w("]")
    w("")
    return L


def sec_struct_scan():
    L = []
    w = L.append
    scan = []
    pat = re.compile(r"\b(static\s+mut\b|thread_local!|lazy_static!|OnceLock\b|OnceCell\b|LazyLock\b|LazyCell\b|RefCell\b|Cell<|Atomic[A-Z]\w*|Mutex\b|RwLock\b|unsafe\b|static\s+ref\b)")
    for crate in ("h263", "yuv", "deblock"):
        for root, _dirs, files in os.walk(os.path.join(REPO, crate, "src")):
            for f in sorted(files):
                if not f.endswith(".rs"):
                    continue
                p = os.path.join(root, f)
                relp = os.path.relpath(p, REPO)
                s = strip_comments(open(p, encoding="utf-8").read())
                # cut test modules: everything after `#[cfg(test)]`
                s_main = s.split("#[cfg(test)]")[0]
                for mm in pat.finditer(s_main):
                    scan.append((relp, re.sub(r"\s+", " ", mm.group(1))))
                # iteration over the HashMap (nondeterministic order)
                if relp.endswith("decoder/state.rs"):
                    for mm in re.finditer(r"reference_states\s*\.\s*(iter|iter_mut|into_iter|keys|values|values_mut|drain|retain)\b", s_main):
                        scan.append((relp, "hashmap-iteration:" + mm.group(1)))
                    for mm in re.finditer(r"\bfor\b[^{;]*\bin\b[^{;]*reference_states", s_main):
                        scan.append((relp, "hashmap-iteration:for"))
    scan.sort()
    w("/-- Constructs capable of shared / hidden mutable state or nondeterminism found outside test modules. -/")
    w("def STRUCT_SCAN : List (String × String) := [")
    w(",\n".join(f'  ("{a}", "{b}")' for a, b in scan))
    w("]")
    cargo = read("Cargo.toml")
    n_abort = len(re.findall(r"panic\s*=\s*.abort.", cargo))
    w(f"def PROFILE_PANIC_ABORT : Nat := {n_abort}")
    w("")
    return L


# Sections of the generated file.  Each is extracted from the source on its own; when one cannot be read (the source was
# rewritten into a form the patterns do not know) the section's text for the tree the model was written against
# (tools/tables_baseline.json) is used instead and the fact is reported: for that part the model is then a hand-written one, tied to
# the code by the correspondence check alone, which the check driver deepens for the properties concerned.
SECTIONS = [("deblock-table", sec_deblock_table), ("yuv-kernel", sec_yuv_kernel), ("dezigzag-basis", sec_dezigzag_basis), ("vlc-tables", sec_vlc_tables), ("halfpel", sec_halfpel), ("option-masks", sec_option_masks), ("struct-scan", sec_struct_scan)]
BASELINE = os.path.join(os.path.dirname(os.path.abspath(__file__)), "tables_baseline.json")


def main():
    strict = "--strict" in sys.argv
    L = []
    w = L.append
    w("/- GENERATED by tools/gen_tables.py from /repo's working tree. Do not edit; never committed by hand. -/")
    w("import H263V.Model.Vlc")
    w("namespace H263V.Gen")
    w("open H263V")
    w("")
    try:
        baseline = json.load(open(BASELINE, encoding="utf-8"))
    except OSError:
        baseline = {}
    produced = {}
    fallbacks = []
    for name, fn in SECTIONS:
        try:
            try:
                lines = fn()
            except TranslateError:
                raise
            except Exception as e:  # a pattern matched something it does not understand
                raise TranslateError(f"section {name}: {type(e).__name__}: {e}")
        except TranslateError as e:
            if strict or name not in baseline:
                raise
            lines = baseline[name]
            fallbacks.append((name, str(e)))
        produced[name] = lines
        L.extend(lines)
    if "--write-baseline" in sys.argv:
        if fallbacks:
            raise TranslateError("cannot write a baseline from a run with fall-backs")
        json.dump(produced, open(BASELINE, "w", encoding="utf-8"), indent=0)
        print(f"gen_tables: baseline written to {BASELINE}")
    w("end H263V.Gen")

    text = "\n".join(L) + "\n"
    out = os.path.normpath(OUT)
    os.makedirs(os.path.dirname(out), exist_ok=True)
    old = None
    try:
        old = open(out, encoding="utf-8").read()
    except OSError:
        pass
    if old != text:
        tmp = out + ".tmp"
        open(tmp, "w", encoding="utf-8").write(text)
        os.replace(tmp, out)
        print(f"gen_tables: wrote {out} ({len(text)} bytes)")
    else:
        print("gen_tables: unchanged")
    for name, why in fallbacks:
        print(f"gen_tables: FALLBACK section={name} reason={why}")


if __name__ == "__main__":
    try:
        main()
    except TranslateError as e:
        print(f"gen_tables: TRANSLATE-ERROR: {e}", file=sys.stderr)
        sys.exit(2)
