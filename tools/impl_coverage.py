#!/usr/bin/env python3
"""Source coverage of the *implementation* under the correspondence inputs.

Builds the correspondence harness once more with `-C instrument-coverage` (nightly toolchain, its own target directory),
feeds it the same case lines the quick tier of every registered check feeds the ordinary harness, and reports, for every
source file of /repo, which lines the cases executed.  The output answers "how much of the code does the tie between model
and code actually see": a line of a modelled function that no case executes is a line on which model and code were never
compared.  Nothing here decides a property; the result is written to coverage/impl_coverage.json and
coverage/uncovered.txt and is quoted in DESIGN.md §8.13.

usage: tools/impl_coverage.py [--tier quick|thorough] [--props C01,C02,...]
"""
import argparse
import glob
import json
import os
import shutil
import subprocess
import sys

sys.path.insert(0, os.path.dirname(os.path.abspath(__file__)))
import core  # noqa: E402
import props  # noqa: E402

COV = os.path.join(core.HARNESS, "target", "cov")
LLVM = glob.glob(os.path.expanduser("~/.rustup/toolchains/nightly-x86_64-unknown-linux-gnu/lib/rustlib/*/bin"))[0]


def sh(cmd, **kw):
    return subprocess.run(cmd, stdout=subprocess.PIPE, stderr=subprocess.STDOUT, text=True, **kw)


def main():
    ap = argparse.ArgumentParser()
    ap.add_argument("--tier", default="quick")
    ap.add_argument("--props", default=",".join(sorted(props.REGISTRY)))
    args = ap.parse_args()
    env = dict(os.environ, CARGO_NET_OFFLINE="true", RUSTFLAGS="-C instrument-coverage",
               LLVM_PROFILE_FILE=os.path.join(COV, "build-%p.profraw"))
    r = sh(["cargo", "+nightly", "build", "--release", "--offline", "--target-dir", COV], cwd=core.HARNESS, env=env)
    if r.returncode != 0:
        print(r.stdout[-3000:])
        return 2
    binary = os.path.join(COV, "release", "harness")
    prof = os.path.join(COV, "prof")
    shutil.rmtree(prof, ignore_errors=True)
    os.makedirs(prof)
    core.ENV["LLVM_PROFILE_FILE"] = os.path.join(prof, "h-%8m.profraw")
    per_prop = {}
    for pid in args.props.split(","):
        P = props.REGISTRY[pid]()
        cases = P.corpus() + P.cases(args.tier, core.Rng(1))
        out = core.run_cases(binary, cases)
        per_prop[pid] = {"cases": len(cases), "crashed": sum(1 for o in out if o in ("CRASH", "TIMEOUT"))}
        print(f"{pid}: {len(cases)} cases", flush=True)
    merged = os.path.join(COV, "merged.profdata")
    r = sh([os.path.join(LLVM, "llvm-profdata"), "merge", "-sparse", "-o", merged] + glob.glob(os.path.join(prof, "*.profraw")))
    if r.returncode != 0:
        print(r.stdout[-3000:])
        return 2
    r = subprocess.run([os.path.join(LLVM, "llvm-cov"), "export", "--format=lcov", "--instr-profile", merged, binary,
                        "--ignore-filename-regex", r"(\.cargo|rustc|/verif/)"], stdout=subprocess.PIPE, text=True)
    files = {}
    cur = None
    for line in r.stdout.split("\n"):
        if line.startswith("SF:"):
            cur = line[3:]
            files[cur] = {}
        elif line.startswith("DA:") and cur:
            ln, cnt = line[3:].split(",")[:2]
            files[cur][int(ln)] = int(cnt)
    report = {"tier": args.tier, "per_property_cases": per_prop, "files": {}}
    unc_txt = []
    tot = hit = 0
    for f in sorted(files):
        if not f.startswith("/repo/"):
            continue
        src = open(f).read().split("\n")
        das = files[f]
        # lines inside #[cfg(test)] modules are not part of the library
        cut = next((k + 1 for k, l in enumerate(src) if l.strip().startswith("#[cfg(test)]")), None)
        lines = {ln: c for ln, c in das.items() if cut is None or ln < cut}
        if not lines:
            continue
        missed = sorted(ln for ln, c in lines.items() if c == 0)
        tot += len(lines)
        hit += len(lines) - len(missed)
        report["files"][f] = {"lines": len(lines), "covered": len(lines) - len(missed), "uncovered_lines": missed}
        if missed:
            unc_txt.append(f"== {f}: {len(lines) - len(missed)}/{len(lines)} lines executed")
            for ln in missed:
                unc_txt.append(f"{ln:5d}: {src[ln - 1]}")
    report["total_lines"] = tot
    report["covered_lines"] = hit
    os.makedirs(os.path.join(core.VERIF, "coverage"), exist_ok=True)
    core.write_json(os.path.join(core.VERIF, "coverage", "impl_coverage.json"), report)
    open(os.path.join(core.VERIF, "coverage", "uncovered.txt"), "w").write("\n".join(unc_txt) + "\n")
    print(f"implementation lines executed by the correspondence inputs: {hit}/{tot}")
    for f, v in report["files"].items():
        print(f"  {v['covered']:5d}/{v['lines']:5d}  {f}")
    shutil.rmtree(prof, ignore_errors=True)
    return 0


if __name__ == "__main__":
    sys.exit(main())
