#!/bin/sh
# usage: tools/round_mutants.sh <id>...  — confirm each seeded change in a scratch worktree, then run its targeted quick check.
cd "$(dirname "$0")/.."
for id in "$@"; do
  tools/confirm_mutants.sh $id 2>&1 | tail -1
  tools/mutant_matrix.sh $id 2>&1 | tail -1
done
