"""Property plug-ins: per property, the theorem module, the correspondence generators, the
non-triviality rule, the spec oracle used when searching for a failing input."""
import os
import core

COMMON_TRUSTED = [
    "Lean 4.33.0 kernel (axioms per theorem listed under coverage.axioms; allowed: propext, Classical.choice, Quot.sound)",
    "tools/gen_tables.py (translator of Rust constants into Gen/Tables.lean; cross-checked by the correspondence runs that use the tables)",
    "the correspondence check itself: harness/ (Rust, links /repo's working tree, overflow-checks and debug-assertions on), Driver.lean, the generators in tools/props*.py",
    "Spec/*.lean: my transcription of the H.263 / BT.601 rules quoted in the property statement",
]


class Prop:
    id = None
    thm_module = None
    native_ok = ()
    trusted = COMMON_TRUSTED
    assumptions = []
    rule = ""

    def corpus(self):
        p = os.path.join(os.path.dirname(os.path.abspath(__file__)), "..", "corpus", f"{self.id}.txt")
        if os.path.exists(p):
            return [l.strip() for l in open(p) if l.strip() and not l.startswith("#")]
        return []

    def cases(self, tier, rng):
        return []

    def nontrivial(self, case, model_out):
        return True

    def oracle_line(self, case):
        return None

    def compare(self, case, impl, other):
        return impl == other

    def in_domain(self, case):
        return True

    def tally(self, hist, case, impl, model):
        k = case.split(" ", 1)[0]
        hist[k] = hist.get(k, 0) + 1

    def shrink(self, failing):
        """Greedy reduction of operation lists: for a failing line of the form `<kind> <arg> op;op;...` whose failure is a
        disagreement between the real code and the model (= the specification, by theorem), operations are dropped one at a time
        as long as the two still disagree.  At most the first three failing inputs are reduced, with a bounded number of runs;
        the original line is kept in `unreduced`."""
        out = []
        for k, f in enumerate(failing):
            c = f.get("case", "")
            t = c.split(" ")
            if k >= 3 or len(t) != 3 or ";" not in t[2] or not any(x in f for x in ("model(=spec by theorem)",)) \
                    or not (os.path.exists(core.HARNESS_BIN) and os.path.exists(core.DRIVER)):
                out.append(f)
                continue
            ops = t[2].split(";")
            runs = 0

            def bad(cand):
                line = f"{t[0]} {t[1]} {';'.join(cand)}"
                i = core.run_cases(core.HARNESS_BIN, [line])[0]
                m = core.run_cases(core.DRIVER, [line])[0]
                return (not self.compare(line, i, m)), line, i, m

            changed = True
            best = None
            while changed and runs < 80 and len(ops) > 1:
                changed = False
                for j in range(len(ops) - 1, -1, -1):
                    if len(ops) <= 1 or runs >= 80:
                        break
                    cand = ops[:j] + ops[j + 1:]
                    runs += 1
                    b, line, i, m = bad(cand)
                    if b:
                        ops, best, changed = cand, (line, i, m), True
            if best:
                g = dict(f)
                g["unreduced"] = c[:2000]
                g["case"], g["impl"], g["model(=spec by theorem)"] = best
                out.append(g)
            else:
                out.append(f)
        return out

    def extra(self, tier, cases, impl_out, model_out, hist):
        """Oracle evaluated on the implementation's outputs alone; returns a list of failing dicts ({"case": ..., ...})."""
        return []

    def exhaustive(self, tier):
        return False


REGISTRY = {}


def register(cls):
    REGISTRY[cls.id] = cls
    return cls


def hexb(bs):
    return bytes(bs).hex() if len(bs) else "-"


# ---------------------------------------------------------------------------------------------
# C09 / C16: deblocking

NINE = [0, 1, 2, 7, 127, 128, 200, 254, 255]


def deblock_image_cases(rng, sizes, strengths_per_size):
    out = []
    for (w, h) in sizes:
        for _ in range(strengths_per_size):
            s = rng.randint(1, 12)
            style = rng.randint(0, 8)
            if style == 4:      # rows constant: a staircase down the rows with plateaus (adjacent rows often equal)
                px, v = [], rng.randint(0, 255)
                for y in range(h):
                    if rng.randint(0, 2) == 0:
                        v = max(0, min(255, v + rng.choice([-80, -40, -17, -8, -3, 3, 8, 17, 40, 80])))
                    px += [v] * w
            elif style == 5:    # columns constant: a staircase across the columns with plateaus
                row, v = [], rng.randint(0, 255)
                for x in range(w):
                    if rng.randint(0, 2) == 0:
                        v = max(0, min(255, v + rng.choice([-80, -40, -17, -8, -3, 3, 8, 17, 40, 80])))
                    row.append(v)
                px = row * h
            elif style == 6:    # the rows / columns next to every block edge are equal pairwise (B == C), outer ones differ
                rowv = [rng.randint(0, 255) for _ in range(h)]
                colv = [rng.randint(-20, 20) for _ in range(w)]
                for y in range(h):
                    if y % 8 == 0 and y > 0:
                        rowv[y] = rowv[y - 1]
                for x in range(w):
                    if x % 8 == 0 and x > 0:
                        colv[x] = colv[x - 1]
                flat = rng.randint(0, 1)
                px = [max(0, min(255, rowv[y] + (0 if flat else colv[x]))) for y in range(h) for x in range(w)]
            elif style == 7:    # two-valued
                a, b = rng.randint(0, 255), rng.randint(0, 255)
                px = [rng.choice([a, b]) for _ in range(w * h)]
            elif style == 8:    # smooth gradient
                gx, gy, b0 = rng.randint(-9, 9), rng.randint(-9, 9), rng.randint(0, 255)
                px = [max(0, min(255, b0 + gx * x + gy * y)) for y in range(h) for x in range(w)]
            elif style == 0:      # random content
                px = [rng.randint(0, 255) for _ in range(w * h)]
            elif style == 1:    # blocky: constant 8x8 blocks (so edges carry steps)
                bl = {}
                px = []
                for y in range(h):
                    for x in range(w):
                        k = (x // 8, y // 8)
                        if k not in bl:
                            bl[k] = rng.randint(0, 255)
                        px.append(max(0, min(255, bl[k] + rng.randint(-2, 2))))
            elif style == 2:    # small steps (inside the ramp of every strength)
                base = rng.randint(0, 255)
                px = [max(0, min(255, base + rng.randint(-14, 14))) for _ in range(w * h)]
            else:               # extremes
                px = [rng.choice([0, 255, 1, 254, 128]) for _ in range(w * h)]
            out.append(f"D {w} {s} {hexb(px)}")
    return out


@register
class C09(Prop):
    id = "C09"
    thm_module = "H263V.Thm.C09"
    rule = ("K lines: four samples + strength through the real scalar kernel and through each of the 8 lanes of the real vector "
            "kernel vs. the Lean model (all 9^4 x 12 patterns over a 9-point value set, plus random); D lines: whole images "
            "(every width x height of the tier's range, nine content styles incl. row- and column-constant staircases, equal rows / columns next to block edges, two-valued and gradient images) through deblock::deblock vs. the model. "
            "Non-trivial: the filter changes at least one sample (model output differs from input). Distinct by case text.")
    assumptions = ["wide::i16x8 operations are lane-wise and wrap (modelled with explicit wrap16, proved not to occur)",
                   "input immutability is a type-level fact (&[u8]); the harness additionally compares the input before/after"]

    def cases(self, tier, rng):
        out = []
        for a in NINE:
            for b in NINE:
                for c in NINE:
                    for d in NINE:
                        for s in range(1, 13):
                            out.append(f"K {a} {b} {c} {d} {s}")
        n = core.q(tier, 150000, 4000000)
        for _ in range(n):
            m = rng.randint(0, 2)
            if m == 0:
                a, b, c, d = (rng.randint(0, 255) for _ in range(4))
            else:   # near-edge patterns: small differences so that the ramp region is exercised
                base = rng.randint(0, 255)
                a, b, c, d = (max(0, min(255, base + rng.randint(-40, 40))) for _ in range(4))
            out.append(f"K {a} {b} {c} {d} {rng.randint(1, 12)}")
        if tier == "quick":
            sizes = [(w, h) for w in range(1, 35) for h in range(0, 35) if (w * 7 + h * 3) % 3 == rng.randint(0, 2)]
            sizes += [(w, h) for w in (8, 9, 10, 11, 16, 17, 18, 19, 24, 25, 26, 27, 33) for h in (9, 10, 11, 17, 18, 19, 26)]
            out += deblock_image_cases(rng, sizes, 1)
        else:
            sizes = [(w, h) for w in range(1, 41) for h in range(0, 41)]
            out += deblock_image_cases(rng, sizes, 3)
            out += deblock_image_cases(rng, [(rng.randint(41, 200), rng.randint(10, 80)) for _ in range(150)], 1)
        return out

    def nontrivial(self, case, model_out):
        t = case.split(" ")
        if t[0] == "K":
            return model_out.split(" | ")[0] != "K " + " ".join(t[1:5])
        if t[0] == "D":
            return model_out != "D " + t[3]
        return False

    def oracle_line(self, case):
        t = case.split(" ", 1)
        return {"K": "KS ", "D": "DS "}.get(t[0], None) and {"K": "KS ", "D": "DS "}[t[0]] + t[1]

    def in_domain(self, case):
        t = case.split(" ")
        if t[0] == "D":
            w = int(t[1])
            n = 0 if t[3] == "-" else len(t[3]) // 2
            return w >= 1 and n % w == 0 and 1 <= int(t[2]) <= 12
        return True

    def tally(self, hist, case, impl, model):
        t = case.split(" ")
        if t[0] == "D":
            w = int(t[1])
            n = 0 if t[3] == "-" else len(t[3]) // 2
            h = n // w
            k = f"D w%8={w % 8} h%8={h % 8}"
        else:
            k = "K changed" if self.nontrivial(case, model) else "K unchanged"
        hist[k] = hist.get(k, 0) + 1


@register
class C16(Prop):
    id = "C16"
    thm_module = "H263V.Thm.C16"
    rule = ("D lines: every width 1..W x height 0..H x strength of the tier (quick: W=H=24, 4 strengths; thorough: W=H=40, all 12) "
            "through deblock::deblock under catch_unwind with overflow checks on; compared with the model for panic / no panic "
            "(the model is proved never to panic on this domain).  J line: the published table vs. the regenerated one. "
            "Non-trivial: an image with fewer than two rows or fewer than ten columns, or a size that has a filterable edge. Distinct by case text.")
    assumptions = ["overflow checks and debug assertions are on in the harness build, so wrapped unsigned subtraction is observable as a panic"]

    def cases(self, tier, rng):
        out = ["J"]
        if tier == "quick":
            for w in range(1, 25):
                for h in range(0, 25):
                    for s in (1, 5, 12, rng.randint(1, 12)):
                        px = [rng.randint(0, 255) for _ in range(w * h)]
                        out.append(f"D {w} {s} {hexb(px)}")
        else:
            for w in range(1, 41):
                for h in range(0, 41):
                    for s in range(1, 13):
                        px = [rng.randint(0, 255) for _ in range(w * h)]
                        out.append(f"D {w} {s} {hexb(px)}")
        # an empty image is a multiple of ANY width: widths up to the top of the usize range (the row arithmetic must not overflow)
        for w in (1 << 60, (1 << 61) - 1, 1 << 61, (1 << 61) + 1, 1 << 62, 1 << 63, (1 << 64) - 1, (1 << 32) + 1, 1 << 32):
            for s in (1, 7, 12):
                out.append(f"D {w} {s} {hexb([])}")
        return out

    def compare(self, case, impl, other):
        if case.startswith("D "):
            return ("PANIC" in impl or impl in ("CRASH", "TIMEOUT")) == ("PANIC" in other)
        return impl == other

    def oracle_line(self, case):
        if case == "J":
            return "JS"
        return "DS " + case.split(" ", 1)[1]

    def nontrivial(self, case, model_out):
        return True

    def exhaustive(self, tier):
        return True

    def tally(self, hist, case, impl, model):
        t = case.split(" ")
        if t[0] == "D":
            w = int(t[1])
            n = 0 if t[3] == "-" else len(t[3]) // 2
            h = n // w
            k = "D " + ("h<2 " if h < 2 else "") + ("w<10 " if w < 10 else "") + ("has-edge" if (h >= 10 or w >= 10) else "no-edge")
        else:
            k = t[0]
        hist[k] = hist.get(k, 0) + 1


# ---------------------------------------------------------------------------------------------
# C07 / C08: colour conversion

def yuv_line(w, h, ys, cbs, crs):
    return f"Y {w} {hexb(ys)} {hexb(cbs)} {hexb(crs)}"


@register
class C07(Prop):
    id = "C07"
    thm_module = "H263V.Thm.C07"
    rule = ("Y lines: 256x1 pictures, luma 0..255 with one (Cb, Cr) pair per picture, through bt601::yuv420_to_rgba vs. the Lean "
            "model; quick: a 24x24 stratified grid of (Cb, Cr) pairs incl. the extremes (147,456 triples) plus random pairs plus every pair for which some luma puts a channel sum exactly on a rounding boundary; "
            "thorough: all 65,536 pairs = all 2^24 triples; both tiers: rows whose neighbouring chroma samples differ (every pattern of {neutral, v} over the two Cb and two Cr samples of a 4-pixel group) - a pixel depends on its own triple only - and pictures 5, 6 and 7 wide in which every luma value lands in one of the 1..3 leftover columns (a subset of the pairs): the colour does not depend on the column.  Non-trivial / distinct: distinct (Y,Cb,Cr) triples counted (256 per distinct pair).")
    assumptions = ["little-endian target (the big-endian cfg branch of the byte interleave is not compiled here)",
                   "wide::i32x4 operations are lane-wise and wrap (modelled with explicit wrap32, proved not to occur)"]

    def cases(self, tier, rng):
        out = []
        ys = list(range(256))
        if tier == "quick":
            grid = sorted(set([0, 1, 2, 15, 16, 17, 64, 90, 110, 126, 127, 128, 129, 130, 160, 200, 224, 239, 240, 241, 243, 244, 254, 255]))
            pairs = [(a, b) for a in grid for b in grid]
            pairs += [(rng.randint(0, 255), rng.randint(0, 255)) for _ in range(400)]
            # rounding boundaries: (Cb, Cr) pairs for which some luma value puts a channel sum exactly half-way between two
            # integers (16.16 fixed point; coefficients as proved equal to the BT.601 values by the C07 theorems)
            ky, krv, kgu, kgv, kbu = 76309, 104597, -25675, -53279, 132201
            by_res = {}
            for y in range(256):
                by_res.setdefault(((y - 16) * ky) % 65536, []).append(y)
            bnd = set()
            for c in range(256):
                if (32768 - (c - 128) * krv) % 65536 in by_res:
                    bnd.add((rng.randint(0, 255), c))
                if (32768 - (c - 128) * kbu) % 65536 in by_res:
                    bnd.add((c, rng.randint(0, 255)))
            for cb in range(256):
                for cr in range(256):
                    if (32768 - (cb - 128) * kgu - (cr - 128) * kgv) % 65536 in by_res:
                        bnd.add((cb, cr))
            pairs += sorted(bnd)
        else:
            pairs = [(a, b) for a in range(256) for b in range(256)]
        for (cb, cr) in pairs:
            out.append(yuv_line(256, 1, ys, [cb] * 128, [cr] * 128))
        # neighbour independence: a pixel depends on its own triple only, whatever the chroma samples of the pixels converted in the
        # same 4-pixel group: every pattern of {neutral, v} over the two Cb and the two Cr samples of a group
        for v in (0, 16, 127, 129, 240, 255, rng.randint(1, 254)):
            for m in range(16):
                c = [v if (m >> k) & 1 else 128 for k in range(4)]
                out.append(yuv_line(256, 1, ys, [c[0], c[1]] * 64, [c[2], c[3]] * 64))
        # row independence: identical luma rows over chroma rows that differ (a row's colours depend on ITS chroma row)
        gp = pairs[:: max(1, len(pairs) // (40 if tier == "quick" else 400))]
        for k in range(len(gp) - 1):
            (cb1, cr1), (cb2, cr2) = gp[k], gp[k + 1]
            for rows in (3, 4, 6):
                crw = (rows + 1) // 2
                cbp = ([cb1] * 128 + [cb2] * 128) * crw
                crp = ([cr1] * 128 + [cr2] * 128) * crw
                out.append(yuv_line(256, rows, ys * rows, cbp[: 128 * crw], crp[: 128 * crw]))
        # position independence: the same triples in the 1..3 leftover columns of a width that is not a multiple of four
        # (widths 5, 6, 7: every luma value lands in a leftover column of some row)
        sub = pairs[:: max(1, len(pairs) // (200 if tier == "quick" else 4000))]
        for k, (cb, cr) in enumerate(sub):
            w = 5 + k % 3
            left = w - 4
            rows = (256 + left - 1) // left
            rows += rows % 2
            y = []
            for r in range(rows):
                y += [(r * 7) % 256] * 4 + [(r * left + j) % 256 for j in range(left)]
            cw = (w + 1) // 2
            out.append(yuv_line(w, rows, y, [cb] * (cw * (rows // 2)), [cr] * (cw * (rows // 2))))
        self._pairs = len(set(pairs))
        return out

    def nontrivial(self, case, model_out):
        return True

    def oracle_line(self, case):
        return "YS " + case.split(" ", 1)[1]

    def tally(self, hist, case, impl, model):
        hist["triples"] = hist.get("triples", 0) + 256
        # how many of the output channels were clamped at 0 or 255 (branch coverage of the clamp)
        if model.startswith("Y ") and len(model) > 4:
            h = model[2:]
            lo = sum(1 for k in range(0, len(h), 8) for c in range(3) if h[k + 2 * c:k + 2 * c + 2] == "00")
            hi = sum(1 for k in range(0, len(h), 8) for c in range(3) if h[k + 2 * c:k + 2 * c + 2] == "ff")
            hist["channels_at_0"] = hist.get("channels_at_0", 0) + lo
            hist["channels_at_255"] = hist.get("channels_at_255", 0) + hi

    def exhaustive(self, tier):
        return tier == "thorough"


def yuv_plane(rng, w, h, style):
    """one plane: 0 random; 1 every row the same (column-only content); 2 every column the same (row-only content);
    3 constant; 4 rows repeated in pairs; 5 two-valued"""
    if style == 1:
        row = [rng.randint(0, 255) for _ in range(w)]
        return row * h
    if style == 2:
        return [v for y in range(h) for v in [rng.randint(0, 255)] * w]
    if style == 3:
        return [rng.choice([128, 128, rng.randint(0, 255)])] * (w * h)
    if style == 4:
        rows = []
        for y in range(h):
            if y % 2 == 0 or not rows:
                rows.append([rng.randint(0, 255) for _ in range(w)])
            else:
                rows.append(rows[-1])
        return [v for r in rows for v in r]
    if style == 5:
        a, b = rng.randint(0, 255), rng.randint(0, 255)
        return [rng.choice([a, b]) for _ in range(w * h)]
    if style == 6:   # neutral (128) except the last column
        return [rng.randint(0, 255) if x == w - 1 else 128 for y in range(h) for x in range(w)]
    if style == 7:   # neutral except one sample
        p = [128] * (w * h)
        if p:
            p[rng.randrange(len(p))] = rng.randint(0, 255)
        return p
    if style == 8:   # neutral except every second sample of some rows
        return [rng.randint(0, 255) if (x % 2 == 1 and y % 2 == 0) else 128 for y in range(h) for x in range(w)]
    return [rng.randint(0, 255) for _ in range(w * h)]


def yuv_size_cases(rng, sizes, structured=False):
    out = []
    for (w, h) in sizes:
        bw, bh = (w + 1) // 2, (h + 1) // 2
        if structured:
            # independent styles per plane: rows / columns of one plane repeat while another plane changes
            sy, sb, sr = rng.choice([1, 1, 4, 3, 2, 5]), rng.choice([1, 1, 3, 4, 2, 0]), rng.choice([2, 0, 2, 4, 1, 5])
            if rng.random() < 0.4:
                # (nearly) neutral chroma: constant 128 with a deviating last column / single sample / alternate samples
                sb, sr = rng.choice([(6, 6), (3, 7), (7, 6), (8, 3), (6, 8), (7, 7)])
            if rng.random() < 0.5:
                sb, sr = sr, sb
        else:
            sy = sb = sr = 0
        out.append(yuv_line(w, h, yuv_plane(rng, w, h, sy), yuv_plane(rng, bw, bh, sb), yuv_plane(rng, bw, bh, sr)))
    return out


@register
class C08(Prop):
    id = "C08"
    thm_module = "H263V.Thm.C08"
    rule = ("Y lines: pictures of every width x height of the tier's range (quick: 1..70 x 1..9; thorough: 1..140 x 1..18, plus random "
            "larger ones) with random plane contents and, on a dense range of sizes, structured contents (each plane independently column-only, row-only, constant, rows in pairs, two-valued), plus empty pictures (w x 0 for several w), through bt601::yuv420_to_rgba "
            "(debug assertions on) vs. the Lean model; the search oracle is the pointwise statement pixel(x,y) = BT.601(luma(x,y), chroma(x/2,y/2)). "
            "Non-trivial: width not a multiple of 4, or odd height, or more than one 4-pixel group per row. Distinct by case text.")
    assumptions = C07.assumptions

    def cases(self, tier, rng):
        if tier == "quick":
            sizes = [(w, h) for w in range(1, 71) for h in range(1, 10)]
            sizes += [(rng.randint(71, 400), rng.randint(1, 40)) for _ in range(60)]
        else:
            sizes = [(w, h) for w in range(1, 141) for h in range(1, 19)]
            sizes += [(rng.randint(141, 1500), rng.randint(1, 60)) for _ in range(300)]
        out = yuv_size_cases(rng, sizes)
        # structured contents (planes whose rows or columns repeat independently of the other planes)
        out += yuv_size_cases(rng, [(w, h) for w in range(1, core.q(tier, 22, 60)) for h in range(1, core.q(tier, 10, 18))], structured=True)
        # planes of one value (0, 255, 128, 16): nothing in the code may mistake a sample value for "not yet written"
        for w in range(1, 13):
            for h in range(1, 7):
                cw, ch = (w + 1) // 2, (h + 1) // 2
                for v in (0, 255) if tier == "quick" and (w + h) % 2 else (0, 255, 128, 16):
                    out.append(yuv_line(w, h, [v] * (w * h), [v] * (cw * ch), [v] * (cw * ch)))
        # the empty picture at any width, up to the top of the usize range (an empty picture is a multiple of every width)
        out += [f"Y {w} - - -" for w in (0, 1, 2, 3, 4, 5, 16, 17, 176, 1 << 31, 1 << 32, (1 << 32) + 1, 1 << 61, (1 << 62) - 1,
                                         1 << 62, (1 << 62) + 1, 1 << 63, (1 << 64) - 1)]
        return out

    def nontrivial(self, case, model_out):
        t = case.split(" ")
        w = int(t[1])
        n = 0 if t[2] == "-" else len(t[2]) // 2
        if n == 0 or w == 0:
            return False
        h = n // w
        return w % 4 != 0 or h % 2 == 1 or w >= 8

    def oracle_line(self, case):
        return "YS " + case.split(" ", 1)[1]

    def in_domain(self, case):
        t = case.split(" ")
        w = int(t[1])
        n = 0 if t[2] == "-" else len(t[2]) // 2
        return n == 0 or w >= 1

    def tally(self, hist, case, impl, model):
        t = case.split(" ")
        w = int(t[1])
        n = 0 if t[2] == "-" else len(t[2]) // 2
        h = n // w if w else 0
        k = "empty" if n == 0 else f"w%4={w % 4} h%2={h % 2} groups={'0' if w < 4 else ('1' if w < 8 else '>1')}"
        hist[k] = hist.get(k, 0) + 1


# ---------------------------------------------------------------------------------------------
# C11 / C12: dequantisation and vector arithmetic (hook-level unit cases)

@register
class C11(Prop):
    id = "C11"
    thm_module = "H263V.Thm.C11"
    rule = ("L lines: inverse_rle (hook) on one-coefficient blocks: all 31 quantizers x all levels -1023..1023 (quick: all levels at 3 zig-zag "
            "positions + a 1-in-7 sample at the other 61; thorough: all 64 positions), multi-event blocks with random runs, early-return "
            "blocks (run past position 63); IDC lines: all 256 INTRADC codes; P lines: 16x16 Sorenson pictures carrying INTRA+Q macroblocks for "
            "all 31 x 4 quantizer updates (the observation route named in the property), and one-macroblock pictures with every escape form at the ends of its level range, both signs. Non-trivial: every L/IDC line; distinct by text.")
    assumptions = ["levels are stored as f32 in the Rust code; all values are integers of magnitude <= 2048 and exact"]

    def cases(self, tier, rng):
        out = [f"IDC {c}" for c in range(256)]
        for q in range(1, 32):
            for lvl in range(-1023, 1024):
                if lvl == 0:
                    continue
                for pos in range(64):
                    if tier == "thorough" or pos in (0, 1, 63) or (q * 31 + lvl * 7 + pos) % 97 == 0:
                        out.append(f"L {q} - {pos},{lvl}")
        for _ in range(core.q(tier, 3000, 60000)):
            q = rng.randint(1, 31)
            dc = rng.choice(["-", str(rng.choice([1, 2, 127, 129, 254, 255, rng.randint(1, 254)]))])
            if dc == "128":
                dc = "129"
            n = rng.randint(0, 8)
            evs = []
            for _k in range(n):
                evs.append(f"{rng.choice([0, 0, 1, 2, 5, rng.randint(0, 63)])},{rng.choice([1, -1, 2, -3, 100, -127, 1023, rng.randint(-1023, 1023) or 1])}")
            out.append(f"L {q} {dc} {';'.join(evs) if evs else '-'}")

        out += core.gen_lines("dquant", 0, 0)
        # the escape forms at the ends of their level ranges, parsed and dequantised through whole pictures
        out += core.gen_lines("esclevels", 0, 0)
        return out

    def oracle_line(self, case):
        t = case.split(" ", 1)
        return {"L": "LS ", "IDC": "IDCS "}.get(t[0]) and {"L": "LS ", "IDC": "IDCS "}[t[0]] + t[1]

    def in_domain(self, case):
        # the spec evaluator (LS) handles one-coefficient blocks without INTRADC
        t = case.split(" ")
        if t[0] == "L":
            return t[2] == "-" and t[3] != "-" and ";" not in t[3]
        return True

    def exhaustive(self, tier):
        return tier == "thorough"


@register
class C12(Prop):
    id = "C12"
    thm_module = "H263V.Thm.C12"
    rule = ("M lines: mv_decode (hook) on all 64 x 64 (predictor, differential) pairs per component (x and y swapped in turn), plus the UMV "
            "range classes; A lines: average_sum_of_mvs for all sums -128..124 and a sample of the i16 range; LP / MED lines; N lines: "
            "predict_candidate at every macroblock position of pictures 1, 2, 3 and 5 macroblocks wide x 3 rows x 4 block indices with random "
            "neighbour vectors (zero vectors for intra / not-coded neighbours); P lines: generated P pictures (every macroblock type mix, one- and four-vector, intra and not-coded "
            "neighbours) through the real decoder vs. the model, planes by hash - the stored neighbour vectors are observable only there. Non-trivial: M with a wrap, N with row > 0; distinct by text.")

    def cases(self, tier, rng):
        out = []
        for p in range(-32, 32):
            for d in range(-32, 32):
                out.append(f"M 0 0 - 176 144 {p} {rng.randint(-32, 31)} {d} {rng.randint(-32, 31)}")
                out.append(f"M 0 0 - 176 144 {rng.randint(-32, 31)} {p} {rng.randint(-32, 31)} {d}")
        for s in range(-128, 125):
            out.append(f"A {s}")
        for s in [-32768, -32767, -129, 125, 126, 127, 128, 4095, 32767] + [rng.randint(-32768, 32767) for _ in range(500)]:
            out.append(f"A {s}")
        for v in list(range(-70, 71)) + [rng.randint(-32768, 32767) for _ in range(200)]:
            out.append(f"LP {v}")
        vals = [-32, -3, -1, 0, 1, 2, 31]
        for a in vals:
            for b in vals:
                for c in vals:
                    out.append(f"MED {a} {b} {c}")
        # UMV variants
        for _ in range(core.q(tier, 2000, 40000)):
            plus = rng.randint(0, 1)
            umv = rng.randint(0, 1)
            mvr = rng.choice(["E", "U", "-"])
            w = rng.choice([16, 176, 352, 356, 704, 708, 1408, 1412, 2048])
            h = rng.choice([16, 144, 288, 292, 576, 580, 1152])
            big = rng.random() < 0.3
            px, py = (rng.randint(-600, 600), rng.randint(-600, 600)) if big else (rng.randint(-64, 64), rng.randint(-64, 64))
            dx, dy = rng.randint(-32, 31), rng.randint(-32, 31)
            out.append(f"M {plus} {umv} {mvr} {w} {h} {px} {py} {dx} {dy}")
        # candidate predictors
        def mv4(zero=False):
            return [0] * 8 if zero else [rng.randint(-32, 31) for _ in range(8)]
        reps = core.q(tier, 2, 12)
        for w in (1, 2, 3, 5):
            for n in range(0, 3 * w):
                for idx in range(4):
                    for _ in range(reps):
                        pv = []
                        for _k in range(n):
                            pv += mv4(zero=rng.random() < 0.3)
                        cur = mv4()
                        out.append(f"N {w} {idx} {','.join(map(str, cur))} {','.join(map(str, pv)) if pv else '-'}")
        # the vectors the macroblock loop files for its neighbours (zero for intra and not-coded macroblocks, the decoded ones for
        # INTER / INTER4V) are observable only through whole pictures: P pictures with every macroblock type mix
        out += core.gen_lines("inter", rng.randint(1, 10 ** 6), core.q(tier, 250, 4000))
        return out

    def nontrivial(self, case, model_out):
        t = case.split(" ")
        if t[0] == "M":
            return not (-32 <= int(t[6]) + int(t[8]) < 32)
        return True

    def oracle_line(self, case):
        t = case.split(" ", 1)
        m = {"M": "MS ", "A": "AS ", "MED": "MEDS ", "LP": "LPS "}
        return m.get(t[0]) and m[t[0]] + t[1]

    def in_domain(self, case):
        t = case.split(" ")
        if t[0] == "M":
            return t[2] == "0" and all(-32 <= int(v) < 32 for v in t[6:10])
        if t[0] == "A":
            return True
        return True

    def exhaustive(self, tier):
        return True


# ---------------------------------------------------------------------------------------------
# C10: inverse DCT accuracy (Annex A)

def _unhex(h):
    return [] if h == "-" else list(bytes.fromhex(h))


@register
class C10(Prop):
    id = "C10"
    thm_module = "H263V.Thm.C10"
    native_ok = ("annexA_range_256_255", "annexA_range_5_5", "annexA_range_300_300", "annexA_range_neg_256_255",
                 "annexA_range_neg_5_5", "annexA_range_neg_300_300", "dc_only_peak", "first_row_peak_sample", "first_col_peak_sample")
    rule = ("T lines: the Annex A coefficient blocks (IEEE-1180 generator, exact forward transform in the Lean spec) of all six ranges "
            "(quick: the first 700 blocks per range for seed 1; thorough: all 10,000 for seed 1 plus 2,000 for seeds 2, 3 and 1180), each on predictions 0 and 255 so that "
            "the signed residual is observable, through the real idct_channel (hook) vs. the soft-float model, bit for bit; all 4095 DC-only "
            "blocks and random first-row / first-column blocks over -2048..2047 on predictions 0, 128, 255; the all-zero block.  The five Annex A "
            "statistics are recomputed from the implementation's outputs against the exact reference transform (TR lines).  Non-trivial: "
            "blocks with a non-zero residual; distinct by text.  Also blocks of every shape over predictions that vary inside the block (row / column / diagonal ramps, noise).")
    trusted = COMMON_TRUSTED + ["Lean.ofReduceBool / Lean.trustCompiler (native_decide) for the nine statistical theorems named in coverage.axioms",
                                "Spec/AnnexA.lean: cosines as 40-digit decimals, exact integer arithmetic (stands in for the procedure's double precision)"]
    assumptions = ["rustc compiles the f32 arithmetic of idct.rs to IEEE-754 binary32 round-to-nearest-even without fused multiply-add"]

    def cases(self, tier, rng):

        out = []
        self._ranges = []
        plan = [(k, 1, core.q(tier, 700, 10000)) for k in range(6)]
        if tier == "thorough":
            plan += [(k, s, 2000) for k in range(6) for s in (2, 3, 1180)]
        for (k, seed, n) in plan:
            ls = core.gen_lines(f"annexa{k}", seed, n)
            self._ranges.append((k, seed, len(out), len(ls)))
            out += ls
        out.append("T 1 8 64 0 F:" + ",".join(["0"] * 64))
        out.append("T 1 8 64 77 Z")
        for v in range(-2048, 2048):
            if v == 0:
                continue
            for pred in ((0, 255) if tier == "quick" and v % 5 else (0, 128, 255)):
                out.append(f"T 1 8 64 {pred} D:{v}")
        for _ in range(core.q(tier, 3000, 40000)):
            shape = rng.choice("HV")
            kind = rng.randint(0, 2)
            if kind == 0:
                vals = [rng.randint(-2048, 2047) for _ in range(8)]
            elif kind == 1:
                vals = [rng.choice([0, 0, 0, rng.randint(-300, 300)]) for _ in range(8)]
            else:
                vals = [rng.choice([-2048, 2047, 0, 1, -1]) for _ in range(8)]
            out.append(f"T 1 8 64 {rng.choice([0, 128, 255])} {shape}:{','.join(map(str, vals))}")
        # cropped / multi-block planes (shapes mixed, sizes not multiples of 8)
        for _ in range(core.q(tier, 300, 3000)):
            bpl = rng.randint(1, 3)
            rows = rng.randint(1, 2)
            spl = rng.randint(max(1, bpl * 8 - 7), bpl * 8)
            h = rng.randint(max(1, rows * 8 - 7), rows * 8)
            blocks = []
            for _b in range(bpl * rows):
                t = rng.choice("ZDHVF")
                if t == "Z":
                    blocks.append("Z")
                elif t == "D":
                    blocks.append(f"D:{rng.randint(-2048, 2047) or 8}")
                elif t in "HV":
                    blocks.append(f"{t}:" + ",".join(str(rng.randint(-400, 400)) for _ in range(8)))
                else:
                    blocks.append("F:" + ",".join(str(rng.choice([0, 0, rng.randint(-300, 300)])) for _ in range(64)))
            out.append(f"T {bpl} {spl} {spl * h} {rng.choice([0, 128, 255])} " + " ".join(blocks))
        # level grids with more block columns than the plane shows (luma of widths 1..8 mod 16: blocks per line is even), two or
        # three block rows: the row stride of the level array is blocks-per-line, not the visible count
        for _ in range(core.q(tier, 200, 2000)):
            bpl = rng.choice([2, 4, 6])
            rows = rng.randint(2, 3)
            spl = rng.randint((bpl - 2) * 8 + 1, (bpl - 1) * 8)
            h = rng.randint((rows - 1) * 8 + 1, rows * 8)
            blocks = []
            for _b in range(bpl * rows):
                t = rng.choice("DHVFF")
                if t == "D":
                    blocks.append(f"D:{rng.randint(-2048, 2047) or 8}")
                elif t in "HV":
                    blocks.append(f"{t}:" + ",".join(str(rng.randint(-400, 400)) for _ in range(8)))
                else:
                    blocks.append("F:" + ",".join(str(rng.choice([0, 0, rng.randint(-300, 300)])) for _ in range(64)))
            out.append(f"T {bpl} {spl} {spl * h} {rng.choice([0, 128, 255])} " + " ".join(blocks))
        # predictions that vary inside the block (rows, columns, both, noise): the transform's contribution must not depend on them
        for _ in range(core.q(tier, 400, 4000)):
            t = rng.choice("DHHVVF")
            if t == "D":
                blk = f"D:{rng.randint(-300, 300) or 8}"
            elif t in "HV":
                blk = f"{t}:" + ",".join(str(rng.randint(-120, 120)) for _ in range(8))
            else:
                blk = "F:" + ",".join(str(rng.choice([0, 0, rng.randint(-100, 100)])) for _ in range(64))
            style = rng.randint(0, 3)
            a0, dx, dy = rng.randint(60, 120), rng.randint(-6, 6), rng.randint(-6, 6)
            plane = []
            for y in range(8):
                for x in range(8):
                    v = (a0 + dy * y if style == 0 else a0 + dx * x if style == 1 else a0 + dx * x + dy * y if style == 2 else rng.randint(40, 215))
                    plane.append(max(0, min(255, v)))
            out.append("T 1 8 64 p" + bytes(plane).hex() + " " + blk)
        return out

    def nontrivial(self, case, model_out):
        t = case.split(" ")
        if t[4].startswith("p"):
            return model_out != "T " + t[4][1:]
        return model_out != "T " + ("%02x" % int(t[4])) * int(t[3])

    def tally(self, hist, case, impl, model):
        t = case.split(" ")
        k = "T " + (t[5][0] if len(t) == 6 else "multi")
        hist[k] = hist.get(k, 0) + 1

    def extra(self, tier, cases, impl_out, model_out, hist):
        """Annex A statistics of the *implementation* over each generated range, against the exact reference transform."""

        fails = []
        for (k, seed, start, n) in self._ranges:
            tr = core.run_cases(core.DRIVER, ["TR" + cases[start + 2 * i][1:] for i in range(n // 2)])
            cnt = n // 2
            sum_e = [0] * 64
            sum_q = [0] * 64
            peak = 0
            worst = None
            for i in range(cnt):
                o0 = impl_out[start + 2 * i]
                o255 = impl_out[start + 2 * i + 1]
                if not (o0.startswith("T ") and o255.startswith("T ")) or "PANIC" in o0 + o255:
                    fails.append({"case": cases[start + 2 * i], "impl": o0, "why": "no output"})
                    break
                a = _unhex(o0[2:])
                b = _unhex(o255[2:])
                ref = [int(x) for x in tr[i][3:].split(",")]
                for p in range(64):
                    # the u8 output plane shows the residual only within -255..255 (prediction 0 / 255): both the
                    # observed and the reference value are clipped to that range (the model-level theorems use -256..255)
                    res = a[p] if a[p] > 0 else b[p] - 255
                    e = res - max(-255, ref[p])
                    sum_e[p] += e
                    sum_q[p] += e * e
                    if abs(e) > peak:
                        peak = abs(e)
                        worst = cases[start + 2 * i]
            ok = (peak <= 1 and all(q * 100 <= 6 * cnt for q in sum_q) and sum(sum_q) * 100 <= 2 * 64 * cnt
                  and all(abs(e) * 1000 <= 15 * cnt for e in sum_e) and abs(sum(sum_e)) * 10000 <= 15 * 64 * cnt)
            hist[f"annexA range{k} seed{seed}"] = {"blocks": cnt, "peak": peak, "max_pos_mse": max(sum_q) / cnt,
                                                 "overall_mse": sum(sum_q) / (64 * cnt),
                                                 "max_pos_mean_err": max(abs(e) for e in sum_e) / cnt,
                                                 "overall_mean_err": sum(sum_e) / (64 * cnt)}
            if not ok:
                fails.append({"case": worst or cases[start], "why": f"Annex A criteria violated by the implementation on range index {k}, seed {seed}",
                              "stats": hist[f"annexA range{k} seed{seed}"],
                              "replay_lines": f"driver GEN annexa{k} {seed} {cnt}"})
        return fails


# decoder-level plug-ins live in props_dec.py (imported last: it uses the registry above)
import props_dec  # noqa: E402,F401
