#!/bin/sh
# Confirms every seeded change in a scratch worktree: unchanged tree -> demo exits 0; with the patch -> builds,
# the 34 baseline tests pass, demo exits non-zero.  Writes seeded/<id>/confirm.txt.  Removes the worktree afterwards.
WT=/tmp/confirm_wt
export CARGO_NET_OFFLINE=true
git -C /repo worktree remove --force $WT 2>/dev/null
git -C /repo worktree add -q --detach $WT HEAD || exit 1
cp /repo/Cargo.lock $WT/
for d in /verif/seeded/C*; do
  id=$(basename $d)
  [ -n "$1" ] && [ "$1" != "$id" ] && continue
  rm -rf $WT/out; mkdir -p $WT/out/1; cp -r $d/demo $WT/out/1/demo
  ( cd $WT/out/1/demo && cargo run --offline --quiet >/tmp/confirm_demo0.txt 2>&1 ); r0=$?
  ( cd $WT && git apply $d/patch.diff ) || { echo "$id patch-does-not-apply" | tee $d/confirm.txt; continue; }
  ( cd $WT && cargo test --workspace --offline 2>&1 | grep -E "^test result" | awk '{p+=$4; f+=$6} END {print p" passed "f" failed"}' > /tmp/confirm_tests.txt )
  ( cd $WT/out/1/demo && cargo run --offline --quiet >/tmp/confirm_demo1.txt 2>&1 ); r1=$?
  ( cd $WT && git checkout -- . )
  echo "$id unchanged-demo-exit=$r0 patched-tests=[$(cat /tmp/confirm_tests.txt)] patched-demo-exit=$r1" | tee $d/confirm.txt
done
rm -rf $WT/out $WT/target
git -C /repo worktree remove --force $WT
