#!/usr/bin/env python3
"""Writes MANIFEST.json from the table below (kept in one place so that the file is always schema-valid)."""
import json, os, sys
sys.path.insert(0, os.path.dirname(os.path.abspath(__file__)))
import props

V = os.path.normpath(os.path.join(os.path.dirname(os.path.abspath(__file__)), ".."))

CLAIMS = {
 "C09": dict(
   text="Lean 4 theorems: the scalar kernel and each lane of the vector kernel equal the Annex J filter for all 2^32 patterns x 12 strengths (no i16 wrap, casts exact), hence lane/remainder and position independence of the kernel result; and at image level, for EVERY width >= 1, every height (0 and 1 rows included), every byte content and every strength 1..12, the model of deblock (in-place horizontal-edge pass with vector lanes for the first floor(w/8)*8 columns and the scalar kernel for the rest, then the vertical-edge pass with vector lanes for the first floor(h/8)*8 rows, chunk by chunk along each row, nothing for widths below ten) returns exactly the pointwise Annex J specification (deblock_eq_spec): each sample within e-2..e+1 of an 8-aligned edge e >= 8 whose four samples lie inside the image gets the corresponding output of the edge filter on the four samples straddling that edge, every other sample is unchanged; vertical pass on the result of the horizontal one. The model is tied to deblock.rs by correspondence on every width x height of a dense range with nine content styles (incl. structured ones where vector chunks have equal rows), model = code = specification.",
   note="Complete at model level. Proof: invariant `every sample is its original value or the filter of the ORIGINAL four samples` through both in-place loops (the four samples of one application are touched by no other). Axioms: propext, Classical.choice, Quot.sound. Trusted: wide's lane-wise wrapping semantics, translator, harness. Input immutability is a type-level fact (&[u8]).",
   design="DESIGN.md §4 C09, §8.6", technique="Lean 4 proof (omega over the kernel; loop invariants over both passes) + model/code correspondence"),
 "C16": dict(
   text="Lean 4 theorems: for every width >= 1, every image whose length is a multiple of it (0 and 1 rows, < 10 columns included) and every strength 1..12 the model of deblock returns a same-length byte image (panic outcome unreachable: every index checked, every subtraction and i16 operation range-checked); the regenerated QUANT_TO_STRENGTH equals Table J.2 (decide over all 32 entries). Model tied to the code by exhaustive correspondence over widths x heights x strengths with overflow checks on.",
   note="Axioms: propext, Classical.choice, Quot.sound. usize additions/multiplications are modelled on unbounded Nat (64-bit target, sizes far below 2^64). Table J.2 is my transcription of the Recommendation.",
   design="DESIGN.md §4 C16", technique="Lean 4 proof (induction over the edge loops) + regenerated-table theorem + correspondence"),
 "C07": dict(
   text="Lean 4 theorems over all 2^24 (Y,Cb,Cr) triples: every literal of the kernel re-extracted from the source equals the value derived from the BT.601 constants (nearest integer to the rational coefficient x 2^16, offsets, rounding term, shift, clamp, alpha, byte and lane order); the lane function (with explicit i32 wrap-around) equals the fixed-point specification; each channel is within 1 of the exact rational formula before and after clamping; alpha = 255; seven monotonicity statements; lane/byte layout of the 4-pixel kernel. Model tied to the code by correspondence (thorough: all 2^24 triples).",
   note="Axioms: propext, Classical.choice, Quot.sound. Little-endian byte interleave only; the OR of shifted channels is modelled under the (proved) guard that each channel is in 0..255. wide::i32x4 lane-wise wrapping semantics trusted.",
   design="DESIGN.md §4 C07", technique="Lean 4 proof (omega over regenerated literals) + exhaustive correspondence"),
 "C08": dict(
   text="Lean 4 theorems for every width >= 1, height >= 1, planes of the documented sizes and arbitrary byte contents: yuv420_to_rgba's model returns (never panics: every assertion and slice bound holds) exactly 4*w*h bytes, and bytes 4(y*w+x)..+3 are R,G,B,A of the BT.601 pixel (C07) of luma (x,y) with chroma (floor(x/2), floor(y/2)), whether the pixel lies in a whole 4-pixel group or in the per-row remainder path with its x%4, (x%4)/2, i%16 indexing; all plane indices are proved in range; an empty picture of any width yields an empty output. Model tied to the code by correspondence on every width x height of a dense range (debug assertions on) and checked against the pointwise statement.",
   note="Axioms: propext, Classical.choice, Quot.sound. The model writes the output pointwise (each byte is written exactly once by the Rust code: whole groups by the chunk loop, the last w%4 pixels of a row by the remainder path); that this matches the in-place writes is what the correspondence establishes. Little-endian byte interleave only.",
   design="DESIGN.md §4 C08", technique="Lean 4 proof (index arithmetic by omega, case analysis on w mod 4) + correspondence over all sizes"),
 "C11": dict(
   text="Lean 4 theorems: the model's dequantisation equals sign(L)*(Q*(2|L|+1) - [Q even]) saturated to -2048..2047 for every quantizer and level; INTRADC codes 0/128 rejected, 255 -> 1024, others -> 8*code; the quantizer update is clamp(1,31,Q+DQUANT) with no i8 overflow; the regenerated de-zig-zag table equals the classical scan; two's-complement round trip of the 7/8/11-bit escape levels. Model tied to the code by exhaustive correspondence through the inverse_rle hook (31 quantizers x 2046 levels x positions) and through 16x16 pictures for all 31 x 4 quantizer updates.",
   note="Axioms: propext, Classical.choice, Quot.sound. PARTIAL: that the k-th coded coefficient lands at zig-zag position k (run-length expansion and the lossless Zero/Dc/Horiz/Vert/Full shape classification) is covered by correspondence (multi-event blocks) and by the executable spec for one-coefficient blocks, not yet by a general theorem.",
   design="DESIGN.md §4 C11", technique="Lean 4 proof (omega) + exhaustive hook-level correspondence"),
 "C12": dict(
   text="Lean 4 theorems: for all predictors and differentials in -32..31 half samples the reconstructed component is (p+d+32) mod 64 - 32; for every sum of four components the chroma component is sign(s)*(2*floor(|s|/16)+tab16(|s| mod 16)); median_of is the median; the half-sample split is (floor(v/2), v odd); predict_candidate equals the two-dimensional neighbour rule at every position of every picture width >= 1 for all four block indices (no lookup fails); the regenerated MVD tree decodes all 64 Table-14 codewords (decide +kernel) and is prefix-free; range constants regenerated. Exhaustive correspondence through the mv_decode / predict_candidate hooks.",
   note="Axioms: propext, Classical.choice, Quot.sound. That intra / not-coded neighbours contribute zero candidates is an invariant of the macroblock loop (the decoder stores zero vectors for them), exercised by correspondence on P pictures (C03 generator), not proved here.",
   design="DESIGN.md §4 C12", technique="Lean 4 proof (omega, case analysis, decide +kernel over the regenerated table) + exhaustive correspondence"),
 "C10": dict(
   text="Lean 4 theorems evaluated by native_decide over a bit-exact soft-float (binary32, RNE, no FMA) model of the IDCT with the basis table regenerated from the source: for generator seed 1 and each of the six Annex A ranges (10,000 blocks each) peak error <= 1, per-position mse <= 0.06, overall mse <= 0.02, per-position mean error <= 0.015, overall mean error <= 0.0015 against an exact (40-digit) reference transform; all 4095 DC-only blocks and 20,000 random first-row / first-column blocks within 1; all-zero block -> zeros (kernel decide); and, for ALL blocks with coefficients in -2048..2048 and all four shape paths, no f32 intermediate leaves the normal range (interval analysis, ordinary axioms), so the soft-float model is exact IEEE arithmetic wherever it is used. The model is tied to the real idct_channel bit for bit by correspondence on the same blocks (predictions 0 and 255), and the five statistics are recomputed from the implementation's own outputs.",
   note="Axioms: propext, Classical.choice, Quot.sound and, for the nine statistical theorems, the per-call native_decide axioms (trust in the Lean compiler/runtime) - the only theorems in the framework that use native_decide. The reference transform uses 40-digit cosine constants and exact integer arithmetic in place of the procedure's double precision (difference < 1e-33). A universal (all blocks) peak-error theorem is not claimed. The u8 output plane shows residuals only within -255..255, so the implementation-side statistics clip at -255; the model-level theorems use -256..255.",
   design="DESIGN.md §4 C10", technique="Lean 4 native_decide over a soft-float model with regenerated table + bit-exact correspondence"),
 "C01": dict(
   text="Lean 4 model of the whole decode path in which every Rust panic site (index, slice, checked arithmetic, division, unwrap, assertion) is an explicit `panic` outcome and every data-driven loop takes fuel bounded by the unread bits. Theorems (all option sets, all histories, all bit strings): `decode_next_picture` returns the new state or an error value - `panic` and `fuel` are unreachable (decode_never_crashes), and this holds after every history of deliveries, successful and failed decode calls and clean-ups on a fresh decoder (history_never_crashes), incl. reference pictures of other sizes, zero sizes, more macroblocks than the picture holds, saturating escape levels, accumulated UMV vectors; the macroblock loop terminates because every iteration consumes a bit or adds a macroblock. Proved by a program logic over the parser monad (every header / macroblock / block parser total, VLC roots checked on the regenerated tables), a loop invariant (quantizer <= 31, level-array sizes and bounds, vector/type counts), index-range lemmas for inverse_rle, gather and idct_channel, and an interval analysis showing that no f32 intermediate of the IDCT leaves the normal range. The model is tied to the code by correspondence on valid, corrupted and random streams after random histories under all four option combinations, every call under catch_unwind with overflow checks and debug assertions on.",
   note="Complete at model level (no `_partial`). The theorem is about the model: that the model panics exactly where the code does is what the correspondence (panic / no-panic class per case) establishes. usize/isize arithmetic is modelled on unbounded Nat/Int (64-bit target; picture dimensions are u16). Allocation failure (sizes that do not fit in memory are excluded by the property), stack exhaustion, aborts and wall-clock behaviour are runtime behaviour a Lean model cannot exhibit (the harness observes CRASH / TIMEOUT). Axioms: propext, Classical.choice, Quot.sound.",
   design="DESIGN.md §4 C01, §8.5", technique="Lean 4 proof (totality of the whole decode path: program logic + loop invariant + index arithmetic) + panic-class correspondence on malformed streams"),
 "C02": dict(
   text="Lean 4 theorems: the regenerated TCOEF, MCBPC-I and CBPY trees decode every codeword of Tables 16, 7, 13 (incl. ESCAPE and stuffing) to the specified symbol, and are prefix codes (codewords decode identically in front of any bits); planes are allocated with exactly the signalled sizes; dequantisation = the H.263 formula (C11). The picture-level behaviour (positions, quantizer tracking, zig-zag placement, four IDCT shapes, cropping) is modelled in full (soft-float IDCT) and tied to the code bit-exactly by correspondence on intra pictures written by the specification encoder.",
   note="PARTIAL: no picture-level round-trip theorem `decode (encode P) = reconstruct P` yet; the ideal-transform tolerance clause is delegated to C10. Axioms: propext, Classical.choice, Quot.sound.",
   design="DESIGN.md §4 C02", technique="Lean 4 proof (regenerated VLC tables vs. specification encoder) + bit-exact picture correspondence"),
 "C03": dict(
   text="Lean 4 theorems: Table 8 (MCBPC-P) agreement; upward-rounding half-sample interpolation; reference coordinates outside the picture take the nearest edge sample (read_sample clamps, never out of bounds); vector wrap, chroma rounding, median and candidate rules (C12); a picture needing prediction without a reference is rejected. Gather (fast and generic paths), early-end handling and residual addition are modelled in full and tied to the code bit-exactly on generated P pictures over high-entropy references.",
   note="PARTIAL: no picture-level theorem `decode = motion-compensated prediction + residual` yet. Axioms: propext, Classical.choice, Quot.sound.",
   design="DESIGN.md §4 C03", technique="Lean 4 proof (sample/vector rules) + bit-exact P-picture correspondence"),
 "C04": dict(
   text="Lean 4 refinement theorems: with abs(state) = (get_last_picture, get_reference_picture), accepting a picture acts on abs exactly by the rule `last := new; reference := new unless disposable` for every temporal reference (incl. one equal to the reference's: disposable pictures are filed under tr|0x8000), a clean-up changes neither, a rejected picture changes nothing; every successful decode step is such an acceptance of the picture reconstructed from the current abstraction (no side condition: the header parser is proved to yield temporal references below 1024); hence after EVERY history of deliveries, accepted and rejected decode calls and clean-ups the two reported pictures are the fold of the rule over the accepted pictures (history_refines), i.e. reference = most recent accepted non-disposable picture, last = most recent accepted picture (spec_run_ref). Model tied to the code by correspondence on histories with colliding temporal references; the abstract rule is also replayed on the implementation's own output.",
   note="Complete at model level. Axioms: propext, Classical.choice, Quot.sound.",
   design="DESIGN.md §4 C04", technique="Lean 4 refinement proof to a two-variable spec machine + history correspondence"),
 "C05": dict(
   text="Lean 4 theorems over the system model: a failed decode step returns the instance unchanged; later steps give the same results as if it had never been made; a retry after appending data is the call on the completed data; a decode call depends on the decoder only through options, last and reference picture; carried-over options are never changed. That the code behaves like this model (mutations after the last fallible step, reader rollback, retained bytes) is established by correspondence: failing pictures at every depth inside histories, every byte split of a picture across two deliveries, with atomicity also checked on the implementation's own output.",
   note="In a functional model `an error carries no new state` holds by construction, so the theorems are consequences rather than the tie to the code; the tie is the correspondence (and C14 for the reader). Axioms: propext, Quot.sound.",
   design="DESIGN.md §4 C05", technique="Lean 4 model with state returned only on success + fault-injection correspondence"),
 "C13": dict(
   text="Lean 4 theorems: after ANY history of decode calls (successful or failed) and clean-ups on a fresh decoder, the picture reported as last has both dimensions >= 1 and planes of exactly luma w*h, chroma ceil(w/2)*ceil(h/2), chroma row ceil(w/2), holding bytes (invariant of the whole decode path: allocation, motion compensation incl. fast and interpolating paths, the three inverse transforms and the state update preserve it); hence for every quantizer 1..31 deblocking each plane with the regenerated table's strength and converting to RGBA is `ok` with exactly 4*w*h bytes (composition with C16.no_panic and C08.no_panic_and_length). Real pipeline decode -> deblock x3 -> rgba on every size of a dense range tied to the model.",
   note="Complete at model level. Axioms: propext, Classical.choice, Quot.sound. usize arithmetic on unbounded Nat.",
   design="DESIGN.md §4 C13", technique="Lean 4 proof (plane-shape invariant over the whole decode path by induction over histories) + pipeline correspondence"),
 "C15": dict(
   text="Lean 4 theorems: once the picture's macroblocks are decoded the macroblock loop stops without reading a further bit, whatever follows; the position after a successful call is the loop's final cursor. Concatenated streams (2..4 pictures, all flavours, paddings 0..7) are decoded call after call by the real decoder and compared with the model and with one reader per picture.",
   note="PARTIAL: no theorem for whole concatenated streams (needs the picture-level round trip of C02/C03). Axioms: propext, Quot.sound.",
   design="DESIGN.md §4 C15", technique="Lean 4 proof (loop termination at the picture end) + concatenation correspondence"),
 "C17": dict(
   text="Lean 4 theorems: for any number of instances and any interleaving of their operations each instance ends in the state it reaches alone (induction over the schedule); the structural scan regenerated from the source shows no static mut / thread_local / interior mutability / atomics / locks / unsafe / hash-map iteration and exactly three lazy statics whose constant initialisers equal the model's masks. Replicated instances on 4-8 threads with rotated interleavings are compared with the model's single sequential answer.",
   note="PARTIAL by nature: thread scheduling, allocator and lazy-static initialisation races are runtime behaviour the model cannot exhibit. Axioms: propext, Quot.sound.",
   design="DESIGN.md §4 C17", technique="Lean 4 proof (interleaving independence) + regenerated structural scan + multi-thread schedule correspondence"),
 "C06": dict(
   text="Lean 4 theorems: an n-bit field written MSB-first is read back exactly (all widths, all values); a start code at the current position is recognised at any alignment; for every Sorenson Spark header (all versions, temporal references, the seven size codes incl. 8/16-bit custom sizes and the reserved code, picture types, deblocking flag, quantizers, any list of extra-information bytes) parsing the encoded header yields exactly the specified record and consumes exactly the header's bits, whatever follows. The standard H.263 header parser (PTYPE, PLUSPTYPE/OPPTYPE/MPPTYPE with inheritance, CPFMT/EPAR, CPCFC/ETR, UUI, SSS, ELNUM/RLNUM, RPSMF, TRPI/TRP, BCI, CPM/PSBI, PB fields, PEI) is modelled in full and compared field for field with the real parser and with the specification's expected header on exhaustive-per-field header descriptions, incl. every wrong fixed marker.",
   note="PARTIAL: the round-trip theorem is proved for Sorenson headers; for standard headers the same statement is carried by the three-way correspondence (implementation = model = specification) only. The clause `a decoded picture reports the header it was decoded from` is covered by the P-line digests (tr, type, quantizer, options, size). Baseline headers are exercised without the scalability option; UFEP=000 inheritance uses synthesised previous headers (the parser demands RPRP after any header that carries a format). Axioms: propext, Classical.choice, Quot.sound.",
   design="DESIGN.md §4 C06", technique="Lean 4 proof (encoder/parser round trip by symbolic evaluation) + exhaustive-per-field three-way correspondence"),
 "C14": dict(
   text="Lean 4 theorems over a concrete model of the reader (source, retained buffer, bits_read): peek_bits - including its per-byte accumulation loop with checked_shl/checked_shr - returns exactly what the specification machine (a bit list) returns: the MSB-first value of the next n bits, end-of-data, or an internal error for n > W, consuming nothing (byte-level identity kernel-checked for all 256 x 8 x 9 cases, lifted by induction over the buffered bytes); read_bits consumes exactly the bits it returns or nothing; skip_bits likewise; fetching bytes is unobservable; rollback restores exactly the checkpoint's bits and cannot fail without an intervening commit; commit keeps bits, phase and well-formedness; start-code recognition on the specification machine reports only genuine, nearest start codes within realignment+1 <= 8 bits and consumes nothing. Concrete model and specification machine are both run against the real H263Reader on bounded-exhaustive and random nested scripts.",
   note="PARTIAL: the per-operation refinements are proved; their lifting to whole nested scripts (run_refines) and to the start-code / VLC loops over the concrete reader is carried by the three-way correspondence. Scope: signed reads of width 0, commit inside an open transaction and bare failed read_vlc are excluded / treated as documented (see evidence assumptions). Axioms: propext, Classical.choice, Quot.sound.",
   design="DESIGN.md §4 C14", technique="Lean 4 proof (per-operation refinement of the concrete reader to a bit list) + three-way script correspondence"),
}

PENDING = {}

def main():
    props_all = [json.loads(l)["id"] for l in open(os.path.join(V, "properties.jsonl"))]
    checks = []
    for pid in props_all:
        if pid in CLAIMS and pid in props.REGISTRY:
            c = CLAIMS[pid]
            checks.append({
                "property_id": pid,
                "quick_cmd": f"./check {pid} --tier quick",
                "thorough_cmd": f"./check {pid} --tier thorough",
                "evidence_file": f"/verif/evidence/{pid}.json",
                "replay_cmd_template": f"./check {pid} --replay {{path}}",
                "engine": "lean4-proof+correspondence",
                "level_claimed": {"category": "proof", "text": c["text"], "design_ref": c["design"]},
                "level_note": c["note"],
                "technique": c["technique"],
            })
    na = [{"property_id": p, "reason": PENDING.get(p, "not claimed yet: its model, theorems and correspondence are still being built in this framework (no check registered until they exist)")}
          for p in props_all if p not in CLAIMS]
    m = {
        "version": 1,
        "setup_cmd": "./setup.sh",
        "hooks": {
            "guard": "cargo feature `verif-hooks` (crates h263-rs and h263-rs-deblock)",
            "enable": "the harness crate /verif/harness depends on /repo/h263 and /repo/deblock by path with features = [\"verif-hooks\"]; cargo build --release --offline in /verif/harness",
            "baseline_off_cmd": "cd /repo && cargo test --workspace --no-fail-fast --offline",
            "source_commits": ["5f2220b"],
            "add_only": True,
        },
        "engines": [{
            "name": "lean4-proof+correspondence", "path": "/verif/check",
            "serves_properties": [c["property_id"] for c in checks],
            "kind_free_text": "Lean 4 theorems about a hand-written executable model (lean/H263V), constants regenerated from the Rust source on every run (tools/gen_tables.py), model tied to the code by a differential correspondence check (harness/ vs. Driver.lean)",
        }],
        "checks": checks,
        "not_applicable": na,
        "notes": "See DESIGN.md. Fix commits and the hook commit are in /repo's history; known_findings.json lists the repaired defects.",
    }
    with open(os.path.join(V, "MANIFEST.json"), "w") as f:
        json.dump(m, f, indent=1)
        f.write("\n")

if __name__ == "__main__":
    main()
