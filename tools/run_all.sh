#!/bin/sh
# Runs every registered check at the given tier (default quick) on /repo as it is; prints one line per property.
tier=${1:-quick}
cd "$(dirname "$0")/.."
rc=0
for p in C01 C02 C03 C04 C05 C06 C07 C08 C09 C10 C11 C12 C13 C14 C15 C16 C17; do
  ./check $p --tier $tier 2>&1 | grep -E "^VIOLATION|^OK|^KNOWN" || { echo "$p: no verdict"; rc=1; }
done
exit $rc
