#!/bin/sh
# usage: tools/try_mutant.sh <seeded dir name> <tier> <prop>...   — applies the patch to /repo, runs the checks, reverts.
d=/verif/seeded/$1; tier=$2; shift 2
cd /repo && git apply "$d/patch.diff" || { echo "patch does not apply"; exit 3; }
cd /verif
for p in "$@"; do
  ./check $p --tier $tier 2>&1 | tail -3
done
cd /repo && git checkout -- . && git status --short | grep -v Cargo.lock
