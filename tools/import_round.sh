#!/bin/sh
# usage: tools/import_round.sh <round> <prop>...   — imports /tmp/wt<round>_<prop>/out/1 (patch.diff, demo/, summary.json written by a
# sub-agent that saw only the property text and its own worktree) as seeded/<prop>_<round>/ with a meta.json.
cd "$(dirname "$0")/.."
r=$1; shift
for p in "$@"; do
  src=/tmp/wt${r}_$p/out/1; dst=seeded/${p}_$r
  [ -f $src/patch.diff ] || { echo "$p: no patch"; continue; }
  rm -rf $dst; mkdir -p $dst
  cp $src/patch.diff $dst/; cp -r $src/demo $dst/demo; rm -rf $dst/demo/target
  python3 - "$src/summary.json" "$dst/meta.json" "${p}_$r" "$p" "$r" <<'PY'
import json, sys
src, dst, mid, prop, rnd = sys.argv[1:6]
try:
    s = json.load(open(src))
except Exception as e:
    s = {"summary": "(summary.json missing or unreadable: %s)" % e}
m = {"id": mid, "property": prop, "summary": s.get("summary", ""), "needs_to_manifest": s.get("needs_to_manifest", ""),
     "files_touched": s.get("files_touched", []),
     "origin": f"round {rnd}: written by a fresh sub-agent that saw only the property text and a scratch worktree of /repo (nothing from /verif)",
     "demo_cmd": "copy demo/ to <worktree>/out/1/demo, then: cd <worktree>/out/1/demo && cargo run --offline --quiet"}
json.dump(m, open(dst, "w"), indent=1)
PY
  echo "imported $dst"
done
