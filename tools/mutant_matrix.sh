#!/bin/sh
# Runs every seeded change against the quick check of the property it targets (applies the patch to /repo, runs, reverts)
# and records the verdict in seeded/<id>/detected.txt.  /repo is left clean.
cd "$(dirname "$0")/.."
for d in seeded/C*; do
  id=$(basename $d); prop=${id%_*}
  [ -n "$1" ] && [ "$1" != "$id" ] && continue
  ( cd /repo && git apply /verif/$d/patch.diff ) || { echo "$id patch-does-not-apply" > $d/detected.txt; continue; }
  out=$(./check $prop --tier quick 2>&1 | grep -E "^VIOLATION|^OK|^KNOWN" | head -3 | tr '\n' ' ')
  ( cd /repo && git checkout -- . )
  echo "$id check=$prop quick: $out" | tee $d/detected.txt
done
git -C /repo status --short | grep -v Cargo.lock
