def hello := "world"
