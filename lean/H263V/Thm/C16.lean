/-
C16 — deblocking accepts every image size and strength; the strength table is Table J.2.
Property theorems only.
-/
import H263V.Model.Deblock
import H263V.Spec.AnnexJ
import H263V.Gen.Tables
import H263V.Lemmas.DeblockImg
namespace H263V.Thm.C16
open H263V H263V.Deblock

/-- every sample of the image is a byte -/
def Bytes (img : Img) : Prop := ∀ i (h : i < img.size), img[i] < 256

/-- For every width of at least one, every image whose length is a multiple of the width (any number
of rows, including 0 and 1; any width, including fewer than ten columns) and every strength 1..12 the
filter returns — it never panics: no index is out of bounds, no unsigned subtraction wraps, no i16
arithmetic overflows — and the result has the same length and holds bytes. -/
theorem no_panic (img : Img) (w s : Nat) (hw : 1 ≤ w) (hl : img.size % w = 0) (hb : Bytes img)
    (hs : 1 ≤ s ∧ s ≤ 12) :
    ∃ out, deblock img w s = .ok out ∧ out.size = img.size ∧ Bytes out :=
  Lemmas.DeblockImg.deblock_ok img w s hw hl hb hs

/-- The quantizer-to-strength table re-extracted from the source equals Table J.2 for all 32 entries. -/
theorem table_J2 : Gen.QUANT_TO_STRENGTH.toList = Spec.AnnexJ.tableJ2 := by decide

/-- Every tabulated strength for a legal quantizer is a legal strength. -/
theorem table_strength_legal (q : Nat) (h1 : 1 ≤ q) (h2 : q ≤ 31) :
    1 ≤ Gen.QUANT_TO_STRENGTH[q]! ∧ Gen.QUANT_TO_STRENGTH[q]! ≤ 12 := by
  have : ∀ q : Fin 32, 1 ≤ q.val → 1 ≤ Gen.QUANT_TO_STRENGTH[q.val]! ∧ Gen.QUANT_TO_STRENGTH[q.val]! ≤ 12 := by decide
  exact this ⟨q, by omega⟩ h1

/-- non-vacuity: a 16x1 image (one row: the size on which the pinned tree underflowed, finding D7) and a
3x9 image (fewer than ten columns) meet the hypotheses and are returned unchanged -/
example : deblock (Array.replicate 16 7) 16 3 = .ok (Array.replicate 16 7) := by decide
example : deblock (Array.replicate 27 200) 3 12 = .ok (Array.replicate 27 200) := by decide

end H263V.Thm.C16
