/-
C15 — one decode call consumes exactly one picture of a stream.  Property theorems only.

Sorenson Spark streams: proved in full below (`one_call_one_picture`, `stream_decodes_picture_by_picture`).  Standard H.263
streams (where the macroblock loop may also end through the GOB resynchronisation path) are carried by the correspondence
runs: N pictures in one reader vs. one reader per picture, both modes, paddings 0..7.
-/
import H263V.Lemmas.ShortAtStart
import H263V.Model.State
import H263V.Lemmas.SorensonPicture
import H263V.Lemmas.StreamAny
import H263V.Model.System
namespace H263V.Thm.C15
open H263V H263V.State H263V.Lemmas.SorensonPicture H263V.Lemmas.PictureRoundTrip

/-- **One call, one picture.**  A valid Sorenson picture (any header fields, any size, any macroblock mix incl. stuffing, escapes,
four-vector and not-coded macroblocks; described by `SPic.Valid`), preceded by `k ≤ 7` zero stuffing bits within the alignment
window of the current position and followed by *anything* (`rest`: the next picture's start code, padding, garbage, nothing):
the call behaves exactly as on the picture alone — same success or error, same committed state — and on success the reader
stands exactly at `rest`: not one bit of the following data has been consumed, no bit of the picture is left over. -/
theorem one_call_one_picture (s : State) (hs : s.opts.sorenson = true) (hr : s.running = 0) (p : SPic) (w h : Nat)
    (hv : p.Valid s.opts w h) (k : Nat) (hk : k ≤ 7) (rest : Bits) (pos : Nat) (hwin : k ≤ realignmentBits ⟨[], pos⟩ + 1) :
    decodeNextPicture s ⟨zeros k ++ (p.bits ++ rest), pos⟩ =
      decodeNextPicture s ⟨p.bits, 0⟩ >>= fun r => .ok (r.1, ⟨rest, pos + k + p.bits.length⟩) := by
  rw [decode_spic_padded s hs hr p w h hv k rest pos hk hwin]
  have e0 := decode_spic s hs hr p w h hv [] 0
  rw [List.append_nil] at e0
  rw [e0]
  cases semCore s (Spec.HeaderSpec.sorensonPicture p.hdr) p.mbs <;> rfl

/-- **Streams.**  `n` pictures in one reader — each brought to a byte boundary by zero bits, the first at any bit position,
anything behind the last — decode call after call to the same decoder states (hence the same pictures and the same errors)
as the same pictures decoded from one reader each, and the reader ends exactly behind the last picture. -/
theorem stream_decodes_picture_by_picture (o : DecOpts) (ho : o.sorenson = true) (ps : List SPic) (s : State) (pos : Nat)
    (tail : Bits) (hso : s.opts = o) (hr : s.running = 0) (hv : ∀ p ∈ ps, ∃ w h, p.Valid o w h) :
    decodeCalls ps.length s ⟨stream ps pos ++ tail, pos⟩ =
      decodeAlone s ps >>= fun s' => .ok (s', ⟨tail, streamEnd ps pos⟩) :=
  calls_eq_alone o ho ps s pos tail hso hr hv

/-- **One call, one picture — every flavour.**  The same for a valid picture of any of the three header flavours (`Pic`: Sorenson
Spark, baseline H.263 with PTYPE, H.263v2 with PLUSPTYPE in either UFEP form) in a decoder of the matching mode, in any reachable
decoder state. -/
theorem one_call_one_picture_any (s : State) (hr : s.running = 0) (p : Lemmas.StreamAny.Pic) (w h : Nat) (hv : p.Valid s w h)
    (k : Nat) (hk : k ≤ 7) (rest : Bits) (pos : Nat) (hwin : k ≤ realignmentBits ⟨[], pos⟩ + 1) :
    decodeNextPicture s ⟨zeros k ++ (p.bits s ++ rest), pos⟩ =
      decodeNextPicture s ⟨p.bits s, 0⟩ >>= fun r => .ok (r.1, ⟨rest, pos + k + (p.bits s).length⟩) := by
  rw [Lemmas.StreamAny.decode_pic_padded s hr p w h hv k rest pos hk hwin]
  have e0 := Lemmas.StreamAny.decode_pic s hr p w h hv [] 0
  rw [List.append_nil] at e0
  rw [e0]
  cases semCore s (p.picture s) p.mbs <;> rfl

/-- **Streams — every flavour**, including standard-H.263 streams mixing PTYPE and PLUSPTYPE pictures, where a header may
inherit modes from the previous picture (UFEP = 000): the stream is written by an encoder that tracks the decoder state, and
every picture is valid in the state the decoder is in when it reaches it (`StreamValid`). -/
theorem stream_decodes_picture_by_picture_any (ps : List Lemmas.StreamAny.Pic) (s : State) (pos : Nat) (tail : Bits)
    (hr : s.running = 0) (hv : Lemmas.StreamAny.StreamValid s ps) :
    Lemmas.SorensonPicture.decodeCalls ps.length s ⟨Lemmas.StreamAny.stream s ps pos ++ tail, pos⟩ =
      Lemmas.StreamAny.decodeAlone s ps >>= fun s' => .ok (s', ⟨tail, Lemmas.StreamAny.streamEnd s ps pos⟩) :=
  Lemmas.StreamAny.calls_eq_alone ps s pos tail hr hv

/-- the carried-over options are empty in every state a fresh decoder can reach (the hypothesis `s.running = 0` above) -/
theorem running_zero_of_history (o : DecOpts) (c0 : Cur) (ops : List System.Op) :
    (System.run ⟨State.new o, c0⟩ ops).1.st.running = 0 ∧ (System.run ⟨State.new o, c0⟩ ops).1.st.opts = o := by
  suffices h : ∀ (ops : List System.Op) (i : System.Inst), i.st.running = 0 ∧ i.st.opts = o →
      (System.run i ops).1.st.running = 0 ∧ (System.run i ops).1.st.opts = o from h ops _ ⟨rfl, rfl⟩
  intro ops
  induction ops with
  | nil => intro i hi; exact hi
  | cons op rest ih =>
    intro i hi
    simp only [System.run]
    apply ih
    cases op with
    | feed bits => exact hi
    | cleanup => exact hi
    | decode =>
      simp only [System.step]
      cases hd : decodeNextPicture i.st i.cur with
      | ok r =>
        simp only
        unfold decodeNextPicture at hd
        cases hc : decodeCore i.st i.cur with
        | ok x =>
          rw [hc] at hd
          simp only [Out.bind_ok, Out.pure_eq, Out.ok.injEq] at hd
          rw [← hd]
          obtain ⟨k1, k2⟩ := commit_keeps i.st x.1 x.2.1
          exact ⟨by rw [k2]; exact hi.1, by rw [k1]; exact hi.2⟩
        | err e => rw [hc] at hd; simp at hd
        | panic m => rw [hc] at hd; simp at hd
        | fuel => rw [hc] at hd; simp at hd
      | err e => exact hi
      | panic m => exact hi
      | fuel => exact hi

/-- Once the picture's macroblocks are all decoded the macroblock loop stops without reading a single further bit,
whatever follows in the stream (the next picture's start code, padding, garbage). -/
theorem loop_stops_at_picture_end (d : DecOpts) (hdr : PicHdr) (dims : Option (Nat × Nat)) (running mbPerLine mbTotal : Nat)
    (l : Loop) (h : mbTotal ≤ l.types.size) :
    mbStep d hdr dims running mbPerLine mbTotal l = .ok (.stop l) := by
  unfold mbStep
  simp [h]

/-- Consequently the loop as a whole returns the state it was given, cursor included. -/
theorem loop_done (d : DecOpts) (hdr : PicHdr) (dims : Option (Nat × Nat)) (running mbPerLine mbTotal fuel : Nat)
    (l : Loop) (h : mbTotal ≤ l.types.size) :
    mbLoop d hdr dims running mbPerLine mbTotal (fuel + 1) l = .ok l := by
  unfold mbLoop
  rw [loop_stops_at_picture_end d hdr dims running mbPerLine mbTotal l h]

/-- The reader position after a successful call is the macroblock loop's final cursor: nothing is consumed after it
(gather and the inverse transform do not touch the reader; `commit` only drops bytes already read). -/
theorem position_after_decode (s : State) (c : Cur) (s' : State) (c' : Cur) (h : decodeNextPicture s c = .ok (s', c')) :
    ∃ hdr pic, decodeCore s c = .ok (hdr, pic, c') := by
  unfold decodeNextPicture at h
  cases hc : decodeCore s c with
  | ok r =>
    obtain ⟨hdr, pic, c2⟩ := r
    rw [hc] at h
    simp only [Out.bind_ok, Out.pure_eq, Out.ok.injEq, Prod.mk.injEq] at h
    exact ⟨hdr, pic, by rw [← h.2]⟩
  | err e => rw [hc] at h; simp at h
  | panic m => rw [hc] at h; simp at h
  | fuel => rw [hc] at h; simp at h

open H263V.State H263V.Lemmas.StreamAny H263V.Lemmas.TruncatedAny H263V.Lemmas.SorensonPicture H263V.Lemmas.PictureRoundTrip
  H263V.Spec.Syntax H263V.Spec.Vlc in
/-- **A short picture inside a stream (standard mode).**  A valid baseline or PLUSPTYPE picture of which only the first `n`
macroblocks are present (`cut n p`), followed by fewer than eight zero bits inside the alignment window and then the NEXT picture's
start code (17 bits and group number 0) with anything behind it: the call ends the picture at that start code — the macroblock
parse fails on it, `decode_gob` recognises a picture start and consumes nothing — commits the bit-free semantics of the macroblocks
that are there (the rest are copies of the reference, C03) and leaves the reader exactly behind the picture's last macroblock, in
front of the stuffing, where `one_call_one_picture_any` takes over for the next call. -/
theorem short_picture_ends_at_next_start_code (s : State) (hr : s.running = 0) (hstd : s.opts.sorenson = false) (p : Pic)
    (w h : Nat) (hv : p.Valid s w h) (n k : Nat) (hk : k ≤ 7) (y : Bits) (pos : Nat)
    (hwin : k ≤ realignmentBits ⟨[], pos + ((cut n p).bits s).length⟩ + 1) :
    decodeNextPicture s ⟨(cut n p).bits s ++ (zeros k ++ (startCode ++ (natBits 5 0 ++ y))), pos⟩ =
      semCore s (p.picture s) (p.mbs.take n) >>= fun r =>
        .ok (commitPic s r.1 r.2, ⟨zeros k ++ (startCode ++ (natBits 5 0 ++ y)), pos + ((cut n p).bits s).length⟩) :=
  Lemmas.ShortAtStart.decode_pic_short_at_start s hr hstd p w h hv n k hk y pos hwin

open H263V.State H263V.Lemmas.StreamAny H263V.Lemmas.TruncatedAny H263V.Lemmas.SorensonPicture H263V.Lemmas.PictureRoundTrip
  H263V.Spec.Syntax H263V.Spec.Vlc in
/-- The same with the tail written as a picture: a short picture, fewer than eight zero bits, then the next standard-mode picture
`q` (PTYPE or PLUSPTYPE header, encoded for any decoder state `s'`) and anything behind it.  The first call commits the short
picture and leaves the reader in front of the stuffing and `q`; `one_call_one_picture_any` then decodes `q` from there when `q`
is valid in the new state. -/
theorem short_picture_then_next_picture (s : State) (hr : s.running = 0) (hstd : s.opts.sorenson = false) (p : Pic) (w h : Nat)
    (hv : p.Valid s w h) (n k : Nat) (hk : k ≤ 7) (s' : State) (q : Pic) (hq : ∀ x, q ≠ .sor x) (rest : Bits) (pos : Nat)
    (hwin : k ≤ realignmentBits ⟨[], pos + ((cut n p).bits s).length⟩ + 1) :
    decodeNextPicture s ⟨(cut n p).bits s ++ (zeros k ++ (q.bits s' ++ rest)), pos⟩ =
      semCore s (p.picture s) (p.mbs.take n) >>= fun r =>
        .ok (commitPic s r.1 r.2, ⟨zeros k ++ (q.bits s' ++ rest), pos + ((cut n p).bits s).length⟩) :=
  Lemmas.ShortAtStart.decode_pic_short_then_next s hr hstd p w h hv n k hk s' q hq rest pos hwin

end H263V.Thm.C15
