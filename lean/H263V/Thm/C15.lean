/-
C15 — one decode call consumes exactly one picture of a stream.  Property theorems only.
(PARTIAL: the loop-termination fact that makes a call stop at the picture's last macroblock is proved;
the statement for whole concatenated streams is carried by the correspondence runs: N pictures in one
reader vs. one reader per picture, both modes, paddings 0..7.)
-/
import H263V.Model.State
namespace H263V.Thm.C15
open H263V H263V.State

/-- Once the picture's macroblocks are all decoded the macroblock loop stops without reading a single further bit,
whatever follows in the stream (the next picture's start code, padding, garbage). -/
theorem loop_stops_at_picture_end (d : DecOpts) (hdr : PicHdr) (dims : Option (Nat × Nat)) (running mbPerLine mbTotal : Nat)
    (l : Loop) (h : mbTotal ≤ l.types.size) :
    mbStep d hdr dims running mbPerLine mbTotal l = .ok (.stop l) := by
  unfold mbStep
  simp [h]

/-- Consequently the loop as a whole returns the state it was given, cursor included. -/
theorem loop_done (d : DecOpts) (hdr : PicHdr) (dims : Option (Nat × Nat)) (running mbPerLine mbTotal fuel : Nat)
    (l : Loop) (h : mbTotal ≤ l.types.size) :
    mbLoop d hdr dims running mbPerLine mbTotal (fuel + 1) l = .ok l := by
  unfold mbLoop
  rw [loop_stops_at_picture_end d hdr dims running mbPerLine mbTotal l h]

/-- The reader position after a successful call is the macroblock loop's final cursor: nothing is consumed after it
(gather and the inverse transform do not touch the reader; `commit` only drops bytes already read). -/
theorem position_after_decode (s : State) (c : Cur) (s' : State) (c' : Cur) (h : decodeNextPicture s c = .ok (s', c')) :
    ∃ hdr pic, decodeCore s c = .ok (hdr, pic, c') := by
  unfold decodeNextPicture at h
  cases hc : decodeCore s c with
  | ok r =>
    obtain ⟨hdr, pic, c2⟩ := r
    rw [hc] at h
    simp only [Out.bind_ok, Out.pure_eq, Out.ok.injEq, Prod.mk.injEq] at h
    exact ⟨hdr, pic, by rw [← h.2]⟩
  | err e => rw [hc] at h; simp at h
  | panic m => rw [hc] at h; simp at h
  | fuel => rw [hc] at h; simp at h

end H263V.Thm.C15
