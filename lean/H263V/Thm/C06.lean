/-
C06 — picture headers are parsed field-for-field as H.263 and Sorenson define them.  Property theorems only.
-/
import H263V.Model.Header
import H263V.Spec.HeaderSpec
import H263V.Lemmas.ParseLemmas
import H263V.Lemmas.SorensonRoundTrip
import H263V.Lemmas.BaseRoundTrip
import H263V.Lemmas.SorensonPicture
import H263V.Lemmas.Total
namespace H263V.Thm.C06
open H263V H263V.Spec.Vlc H263V.Spec.Syntax H263V.Spec.HeaderSpec

/-- An `n`-bit field written most-significant-bit first is read back as its value, consuming exactly `n` bits,
for every width up to the reader type's and every value that fits. -/
theorem field_round_trip (W n v : Nat) (hn : n ≤ W) (hv : v < 2 ^ n) (rest : Bits) (pos : Nat) :
    readBits W n ⟨natBits n v ++ rest, pos⟩ = .ok (v, ⟨rest, pos + n⟩) :=
  Lemmas.BitsLemmas.readBits_natBits W n v hn hv rest pos

/-- A start code at the current position is recognised there (zero bits skipped), at any alignment. -/
theorem start_code_recognised (rest : Bits) (pos : Nat) :
    recognizeStartCode false ⟨startCode ++ rest, pos⟩ = .ok (some 0, ⟨startCode ++ rest, pos⟩) :=
  Lemmas.ParseLemmas.rsc_at_start rest pos

/-- Sorenson Spark headers: for every combination of version, temporal reference, size code (incl. 8- and 16-bit custom
sizes), picture type, deblocking flag, quantizer and extra-information bytes, parsing the encoded header yields exactly the
specified header record and consumes exactly the header's bits, whatever follows and at any alignment. -/
theorem parse_encode_sorenson (h : SorensonHdr) (hv : Lemmas.SorensonRoundTrip.Valid h) (scal : Bool) (prev : Option PicHdr)
    (rest : Bits) (pos : Nat) :
    Header.decodePicture { sorenson := true, scalability := scal } prev ⟨encodeSorensonHdr h ++ rest, pos⟩ =
      .ok (some (sorensonPicture h), ⟨rest, pos + (encodeSorensonHdr h).length⟩) :=
  Lemmas.SorensonRoundTrip.round_trip h hv scal prev rest pos


/-- Baseline H.263 headers (PTYPE, no PLUSPTYPE): for every temporal reference, every combination of the three PTYPE flag bits,
every source format 1..6, INTRA / INTER (bit 9: 0 = INTRA, 1 = INTER), the UMV / SAC / AP / PB bits, every quantizer, CPM with
every PSBI, TRB / DBQUANT of PB frames and any list of extra-information bytes, parsing the encoded header yields exactly the
specified record and consumes exactly the header's bits, whatever follows and at any alignment (standard mode without the
scalability option; a previous header, if given, of the same source format). -/
theorem parse_encode_baseline (h : BaseHdr) (hv : Lemmas.BaseRoundTrip.Valid h) (prev : Option PicHdr)
    (hprev : ∀ p, prev = some p → p.format = some (stdFmt h.srcFmt)) (rest : Bits) (pos : Nat) :
    Header.decodePicture { sorenson := false, scalability := false } prev ⟨encodeBaseHdr h ++ rest, pos⟩ =
      .ok (some (basePicture h), ⟨rest, pos + (encodeBaseHdr h).length⟩) :=
  Lemmas.BaseRoundTrip.round_trip h hv prev hprev rest pos

/-- Up to seven zero stuffing bits in front of the start code, within the alignment window of the current position, are
skipped: the header parses exactly as it does at the start code (any header flavour). -/
theorem stuffing_before_start_code (o : DecOpts) (prev : Option PicHdr) (k : Nat) (x : Bits) (pos : Nat) (hk : k ≤ 7)
    (hwin : k ≤ realignmentBits ⟨Lemmas.SorensonPicture.zeros k ++ (startCode ++ x), pos⟩ + 1) (hdr : PicHdr) (c' : Cur)
    (h : Header.decodePicture o prev ⟨startCode ++ x, pos + k⟩ = .ok (some hdr, c')) :
    Header.decodePicture o prev ⟨Lemmas.SorensonPicture.zeros k ++ (startCode ++ x), pos⟩ = .ok (some hdr, c') :=
  Lemmas.SorensonPicture.decodePicture_zeros o prev k x pos hk hwin hdr c' h

/-- Every header the parser accepts — any flavour, any input bits — carries a quantizer below 32 and a temporal reference
below 1024 (8 bits, plus the two ETR bits with a custom clock); the parser itself never panics or hangs. -/
theorem parsed_header_ranges (d : DecOpts) (prev : Option PicHdr) (c : Cur) (hdr : PicHdr) (c' : Cur)
    (h : Header.decodePicture d prev c = .ok (some hdr, c')) : hdr.quantizer < 32 ∧ hdr.tr < 1024 :=
  ((Lemmas.Total.decodePicture_sat d prev).ok_len c (some hdr) c' h).2 hdr rfl

/-- A decoded picture reports the header it was decoded from and, when the header signals one, its format. -/
theorem decoded_picture_reports_header (s : State.State) (hdr : PicHdr) (mbs : List MbD) (r : PicHdr × Gather.DecPic)
    (h : Lemmas.PictureRoundTrip.semCore s hdr mbs = .ok r) : r.2.hdr = hdr ∧ ∀ f, hdr.format = some f → r.2.fmt = f :=
  ⟨(Lemmas.SorensonPicture.semCore_hdr s hdr mbs r h).2.1, (Lemmas.SorensonPicture.semCore_hdr s hdr mbs r h).2.2⟩

end H263V.Thm.C06
