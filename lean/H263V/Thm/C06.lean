/-
C06 — picture headers are parsed field-for-field as H.263 and Sorenson define them.  Property theorems only.
-/
import H263V.Model.Header
import H263V.Spec.HeaderSpec
import H263V.Lemmas.ParseLemmas
import H263V.Lemmas.SorensonRoundTrip
namespace H263V.Thm.C06
open H263V H263V.Spec.Vlc H263V.Spec.Syntax H263V.Spec.HeaderSpec

/-- An `n`-bit field written most-significant-bit first is read back as its value, consuming exactly `n` bits,
for every width up to the reader type's and every value that fits. -/
theorem field_round_trip (W n v : Nat) (hn : n ≤ W) (hv : v < 2 ^ n) (rest : Bits) (pos : Nat) :
    readBits W n ⟨natBits n v ++ rest, pos⟩ = .ok (v, ⟨rest, pos + n⟩) :=
  Lemmas.BitsLemmas.readBits_natBits W n v hn hv rest pos

/-- A start code at the current position is recognised there (zero bits skipped), at any alignment. -/
theorem start_code_recognised (rest : Bits) (pos : Nat) :
    recognizeStartCode false ⟨startCode ++ rest, pos⟩ = .ok (some 0, ⟨startCode ++ rest, pos⟩) :=
  Lemmas.ParseLemmas.rsc_at_start rest pos

/-- Sorenson Spark headers: for every combination of version, temporal reference, size code (incl. 8- and 16-bit custom
sizes), picture type, deblocking flag, quantizer and extra-information bytes, parsing the encoded header yields exactly the
specified header record and consumes exactly the header's bits, whatever follows and at any alignment. -/
theorem parse_encode_sorenson (h : SorensonHdr) (hv : Lemmas.SorensonRoundTrip.Valid h) (scal : Bool) (prev : Option PicHdr)
    (rest : Bits) (pos : Nat) :
    Header.decodePicture { sorenson := true, scalability := scal } prev ⟨encodeSorensonHdr h ++ rest, pos⟩ =
      .ok (some (sorensonPicture h), ⟨rest, pos + (encodeSorensonHdr h).length⟩) :=
  Lemmas.SorensonRoundTrip.round_trip h hv scal prev rest pos

end H263V.Thm.C06
