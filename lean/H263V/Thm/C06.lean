/-
C06 — picture headers are parsed field-for-field as H.263 and Sorenson define them.  Property theorems only.
-/
import H263V.Model.Header
import H263V.Spec.HeaderSpec
import H263V.Lemmas.ParseLemmas
import H263V.Lemmas.SorensonRoundTrip
import H263V.Lemmas.BaseRoundTrip
import H263V.Lemmas.SorensonPicture
import H263V.Lemmas.Total
import H263V.Lemmas.PlusHeader
import H263V.Lemmas.Reject
namespace H263V.Thm.C06
open H263V H263V.Spec.Vlc H263V.Spec.Syntax H263V.Spec.HeaderSpec

/-- An `n`-bit field written most-significant-bit first is read back as its value, consuming exactly `n` bits,
for every width up to the reader type's and every value that fits. -/
theorem field_round_trip (W n v : Nat) (hn : n ≤ W) (hv : v < 2 ^ n) (rest : Bits) (pos : Nat) :
    readBits W n ⟨natBits n v ++ rest, pos⟩ = .ok (v, ⟨rest, pos + n⟩) :=
  Lemmas.BitsLemmas.readBits_natBits W n v hn hv rest pos

/-- A start code at the current position is recognised there (zero bits skipped), at any alignment. -/
theorem start_code_recognised (rest : Bits) (pos : Nat) :
    recognizeStartCode false ⟨startCode ++ rest, pos⟩ = .ok (some 0, ⟨startCode ++ rest, pos⟩) :=
  Lemmas.ParseLemmas.rsc_at_start rest pos

/-- Sorenson Spark headers: for every combination of version, temporal reference, size code (incl. 8- and 16-bit custom
sizes), picture type, deblocking flag, quantizer and extra-information bytes, parsing the encoded header yields exactly the
specified header record and consumes exactly the header's bits, whatever follows and at any alignment. -/
theorem parse_encode_sorenson (h : SorensonHdr) (hv : Lemmas.SorensonRoundTrip.Valid h) (scal : Bool) (prev : Option PicHdr)
    (rest : Bits) (pos : Nat) :
    Header.decodePicture { sorenson := true, scalability := scal } prev ⟨encodeSorensonHdr h ++ rest, pos⟩ =
      .ok (some (sorensonPicture h), ⟨rest, pos + (encodeSorensonHdr h).length⟩) :=
  Lemmas.SorensonRoundTrip.round_trip h hv scal prev rest pos


/-- Baseline H.263 headers (PTYPE, no PLUSPTYPE): for every temporal reference, every combination of the three PTYPE flag bits,
every source format 1..6, INTRA / INTER (bit 9: 0 = INTRA, 1 = INTER), the UMV / SAC / AP / PB bits, every quantizer, CPM with
every PSBI, TRB / DBQUANT of PB frames and any list of extra-information bytes, parsing the encoded header yields exactly the
specified record and consumes exactly the header's bits, whatever follows and at any alignment (standard mode without the
scalability option; a previous header, if given, of the same source format). -/
theorem parse_encode_baseline (h : BaseHdr) (hv : Lemmas.BaseRoundTrip.Valid h) (prev : Option PicHdr)
    (hprev : ∀ p, prev = some p → p.format = some (stdFmt h.srcFmt)) (rest : Bits) (pos : Nat) :
    Header.decodePicture { sorenson := false, scalability := false } prev ⟨encodeBaseHdr h ++ rest, pos⟩ =
      .ok (some (basePicture h), ⟨rest, pos + (encodeBaseHdr h).length⟩) :=
  Lemmas.BaseRoundTrip.round_trip h hv prev hprev rest pos

/-- H.263 headers with PLUSPTYPE (H.263v2), both update codes.  UFEP = 001: OPPTYPE with every source format, the custom
picture format CPFMT (with EPAR when PAR = 15), the custom clock CPCFC and the two ETR bits it adds to TR, UUI, SSS, ELNUM and RLNUM
when scalability was negotiated, RPSMF; UFEP = 000: the OPPTYPE-class modes are inherited from the previous header and only
MPPTYPE is sent.  In both: every picture type code, RRU and RTYPE, CPM with PSBI, TRPI / TRP / BCI when reference picture
selection is in force, PQUANT, TRB (3 bits, 5 with a custom clock) and DBQUANT of improved PB frames, and any extra-information
bytes.  Parsing the encoded header yields exactly the specified record and consumes exactly the header's bits, whatever
follows and at any alignment.  `Valid` states the field widths, the fixed marker bits, that RPR is not signalled (the parser
rejects it) and that the format does not change against `prev`. -/
theorem parse_encode_plusptype (scal : Bool) (prev : Option PicHdr) (h : PlusHdr) (hv : Lemmas.PlusRoundTrip.Valid scal prev h)
    (rest : Bits) (pos : Nat) :
    Header.decodePicture { sorenson := false, scalability := scal } prev
        ⟨encodePlusHdr scal (Opt.has (Lemmas.PlusRoundTrip.oppInForce prev h) Opt.REFERENCE_PICTURE_SELECTION) h ++ rest, pos⟩ =
      .ok (some (plusPicture scal (Header.prevOptions prev) h),
           ⟨rest, pos + (encodePlusHdr scal (Opt.has (Lemmas.PlusRoundTrip.oppInForce prev h) Opt.REFERENCE_PICTURE_SELECTION) h).length⟩) :=
  Lemmas.PlusHeader.plus_round_trip scal prev h hv rest pos

/-- for a header that does not restate the format (UFEP = 000) the `no format change` clause of `Valid` holds whatever the previous
header was: such a header inherits the format together with the modes -/
theorem inherit_never_changes_format (scal : Bool) (prev : Option PicHdr) (h : PlusHdr) (hu : h.ufep = false) :
    Header.formatChanged prev (plusPicture scal (Header.prevOptions prev) h).format = false := by
  unfold Header.formatChanged plusPicture
  cases prev <;> simp [hu]

/-- the hypotheses of `parse_encode_plusptype` are satisfiable: a custom-format, custom-clock, UMV, slice-structured,
reference-picture-selection improved-PB header with extended PAR and extra information -/
example : Lemmas.PlusRoundTrip.Valid true none
    { tr := 200, ufep := true, srcFmt := 6, customPcf := true, umv := true, ss := true, rps := true, mq := true, picType := 2,
      rtype := true, cpm := some 3, par := 15, pwi := 43, phi := 36, eparW := 12, eparH := 11, cpcfc := 100, etr := 3,
      sssRect := true, elnum := 2, rlnum := 1, rpsmf := 5, trp := some 1000, quant := 31, trb := 31, dbquant := 3,
      extra := [1, 255] } := by
  refine ⟨by decide, by decide, by decide, ⟨rfl, rfl, rfl, rfl, rfl, rfl⟩, rfl, ?_, ?_, by decide, by decide, by decide, ?_, by decide,
    by decide, by decide, by decide, rfl⟩
  · intro p hp; cases hp; decide
  · intro _ _; exact ⟨by decide, by decide, by decide, fun _ => by decide⟩
  · intro v hv; cases hv; decide

/-- **Wrong fixed marker bits and reserved codes are rejected**, for EVERY value that violates them: PTYPE bits 1-2 other than "10"
and the forbidden source format 000; UFEP codes 010..111; OPPTYPE bits 15-18 other than "1000"; MPPTYPE bits 7-9 other than "001";
the CPFMT marker bit 0 and the forbidden PAR code 0000; UUI "00"; BCI "00"; BCI "1" (back-channel message: reported as
unimplemented).  Each is an error of the section parser on every remaining input; an error in a section is the error of the whole
header parse (`section_error_propagates`: the parser is a chain of binds and an error carries no cursor — nothing is consumed), and
the reader is rolled back by the enclosing transaction (C14). -/
theorem wrong_markers_rejected :
    (∀ v, v < 256 → v &&& 0xC0 ≠ 0x80 → ∀ rest pos, Header.decodePtype ⟨natBits 8 v ++ rest, pos⟩ = .err .invalidPType) ∧
    (∀ v, v < 256 → v &&& 0xC0 = 0x80 → v &&& 0x07 = 0 → ∀ rest pos,
      Header.decodePtype ⟨natBits 8 v ++ rest, pos⟩ = .err .invalidPType) ∧
    (∀ d po c, 2 ≤ c → c < 8 → ∀ rest pos, Header.decodePlusptype d po ⟨natBits 3 c ++ rest, pos⟩ = .err .invalidPlusPType) ∧
    (∀ d po opp, opp < 2 ^ 18 → opp &&& 0xF ≠ 0x8 → ∀ rest pos,
      Header.decodePlusptype d po ⟨natBits 3 1 ++ (natBits 18 opp ++ rest), pos⟩ = .err .invalidPlusPType) ∧
    (∀ d po mpp, mpp < 2 ^ 9 → mpp &&& 0x7 ≠ 0x1 → ∀ rest pos,
      Header.decodePlusptype d po ⟨natBits 3 0 ++ (natBits 9 mpp ++ rest), pos⟩ = .err .invalidPlusPType) ∧
    (∀ v, v < 2 ^ 23 → v &&& 0x200 = 0 → ∀ rest pos, Header.decodeCpfmt ⟨natBits 23 v ++ rest, pos⟩ = .err .formatInvalid) ∧
    (∀ v, v < 2 ^ 23 → v &&& 0x200 ≠ 0 → (v &&& 0x780000) >>> 19 = 0 → ∀ rest pos,
      Header.decodeCpfmt ⟨natBits 23 v ++ rest, pos⟩ = .err .formatInvalid) ∧
    (∀ rest pos, Header.decodeUui ⟨false :: false :: rest, pos⟩ = .err .invalidBitstream) ∧
    (∀ rest pos, Header.decodeBcm ⟨false :: false :: rest, pos⟩ = .err .invalidBitstream) ∧
    (∀ rest pos, Header.decodeBcm ⟨true :: rest, pos⟩ = .err .unimplemented) :=
  ⟨fun v hv hm r p => Lemmas.Reject.ptype_markers v hv hm r p,
   fun v hv hm hf r p => Lemmas.Reject.ptype_format_zero v hv hm hf r p,
   fun d po c h2 h8 r p => Lemmas.Reject.ufep_reserved d po c h2 h8 r p,
   fun d po opp ho hm r p => Lemmas.Reject.opptype_tail d po opp ho hm r p,
   fun d po mpp h9 hm r p => Lemmas.Reject.mpptype_tail d po mpp h9 hm r p,
   fun v hv hm r p => Lemmas.Reject.cpfmt_marker v hv hm r p,
   fun v hv hm hp r p => Lemmas.Reject.cpfmt_par_zero v hv hm hp r p,
   fun r p => Lemmas.Reject.uui_zero_zero r p,
   fun r p => Lemmas.Reject.bci_zero_zero r p,
   fun r p => Lemmas.Reject.bci_one r p⟩

theorem section_error_propagates {α β : Type} (p : P α) (f : α → P β) (c : Cur) (e : Err) (h : p c = .err e) :
    (p >>= f) c = .err e :=
  Lemmas.Reject.bind_err p f c e h

/-- Up to seven zero stuffing bits in front of the start code, within the alignment window of the current position, are
skipped: the header parses exactly as it does at the start code (any header flavour). -/
theorem stuffing_before_start_code (o : DecOpts) (prev : Option PicHdr) (k : Nat) (x : Bits) (pos : Nat) (hk : k ≤ 7)
    (hwin : k ≤ realignmentBits ⟨Lemmas.SorensonPicture.zeros k ++ (startCode ++ x), pos⟩ + 1) (hdr : PicHdr) (c' : Cur)
    (h : Header.decodePicture o prev ⟨startCode ++ x, pos + k⟩ = .ok (some hdr, c')) :
    Header.decodePicture o prev ⟨Lemmas.SorensonPicture.zeros k ++ (startCode ++ x), pos⟩ = .ok (some hdr, c') :=
  Lemmas.SorensonPicture.decodePicture_zeros o prev k x pos hk hwin hdr c' h

/-- Every header the parser accepts — any flavour, any input bits — carries a quantizer below 32 and a temporal reference
below 1024 (8 bits, plus the two ETR bits with a custom clock); the parser itself never panics or hangs. -/
theorem parsed_header_ranges (d : DecOpts) (prev : Option PicHdr) (c : Cur) (hdr : PicHdr) (c' : Cur)
    (h : Header.decodePicture d prev c = .ok (some hdr, c')) : hdr.quantizer < 32 ∧ hdr.tr < 1024 :=
  ((Lemmas.Total.decodePicture_sat d prev).ok_len c (some hdr) c' h).2 hdr rfl

/-- A decoded picture reports the header it was decoded from and, when the header signals one, its format. -/
theorem decoded_picture_reports_header (s : State.State) (hdr : PicHdr) (mbs : List MbD) (r : PicHdr × Gather.DecPic)
    (h : Lemmas.PictureRoundTrip.semCore s hdr mbs = .ok r) : r.2.hdr = hdr ∧ ∀ f, hdr.format = some f → r.2.fmt = f :=
  ⟨(Lemmas.SorensonPicture.semCore_hdr s hdr mbs r h).2.1, (Lemmas.SorensonPicture.semCore_hdr s hdr mbs r h).2.2⟩

end H263V.Thm.C06
