/-
C12 — motion vectors are reconstructed exactly for every predictor/differential pair.
Property theorems only.
-/
import H263V.Model.Mv
import H263V.Spec.Recon
import H263V.Spec.Vlc
import H263V.Lemmas.VlcTables
namespace H263V.Thm.C12
open H263V H263V.Mv H263V.Mb

/-- the vector-range constants re-extracted from the source are those of H.263 -/
theorem range_consts : Gen.HP_STANDARD_RANGE = 32 ∧ Gen.HP_EXTENDED_RANGE = 64 ∧ Gen.HP_EXTENDED_RANGE_QUADCIF = 128 ∧
    Gen.HP_EXTENDED_RANGE_SIXTEENCIF = 256 ∧ Gen.HP_EXTENDED_RANGE_BEYONDCIF = 512 ∧
    Gen.HP_INVERT_POS = 64 ∧ Gen.HP_INVERT_NEG = 64 := by decide

/-- a header / option set without unrestricted motion vectors (the baseline and Sorenson case) -/
def plainHdr : PicHdr :=
  { version := none, tr := 0, format := none, options := 0, hasPlusptype := false, hasOpptype := false, picType := .pFrame,
    mvRange := none, sliceSubmode := none, layer := none, rpsMode := none, predictionRef := none, quantizer := 1,
    multiplex := none, pbReference := none, pbQuantizer := none, extra := [] }

/-- For every predictor and differential in the half-sample range −32..31 (−16..15.5 samples), in each component,
the reconstructed component is predictor + differential reduced modulo 64 half samples into −32..31. -/
theorem wrap_spec (hdr : PicHdr) (dims : Option (Nat × Nat)) (running : Nat)
    (hu : Opt.has running Opt.UNRESTRICTED_MOTION_VECTORS = false) (p d : Int)
    (hp : -32 ≤ p ∧ p < 32) (hd : -32 ≤ d ∧ d < 32) (isX : Bool) :
    halfpelDecode hdr dims running p d isX = Spec.Recon.wrapVector p d := by
  obtain ⟨c1, -, -, -, -, c6, c7⟩ := range_consts
  unfold halfpelDecode
  simp only [hu, Bool.false_and, Bool.false_eq_true, ↓reduceIte, c1]
  have e1 : hpAdd d p = d + p := by unfold hpAdd satI16; split <;> (try split) <;> omega
  have e2 : hpAdd (invert d) p = invert d + p := by
    unfold hpAdd satI16 invert; rw [c6, c7]; repeat' split
    all_goals omega
  rw [e1, e2]
  simp only [withinRange, invert, c6, c7, Spec.Recon.wrapVector, decide_eq_true_eq]
  repeat' split
  all_goals omega

/-- The reconstructed component always lies in the restricted range. -/
theorem wrap_range (p d : Int) : -32 ≤ Spec.Recon.wrapVector p d ∧ Spec.Recon.wrapVector p d < 32 := by
  unfold Spec.Recon.wrapVector; omega

/-- For every sum of four luma components (any i16 value, in particular −128..124) the chroma component follows
the sixteenth-position rounding table, symmetrically in sign. -/
theorem chroma_round_spec (s : Int) : averageSum s = Spec.Recon.chromaVector s := by
  unfold averageSum Spec.Recon.chromaVector Spec.Recon.sign Spec.Recon.tab16
  have hs : (0 < s ∧ ¬ s < 0) ∨ (¬ 0 < s ∧ ¬ s < 0) ∨ (s < 0 ∧ ¬ 0 < s) := by omega
  rcases hs with ⟨h1, h2⟩ | ⟨h1, h2⟩ | ⟨h1, h2⟩ <;> simp only [h1, h2, ↓reduceIte] <;> (repeat' split) <;> omega

/-- `median_of` is the median of its three arguments. -/
theorem median_spec (a b c : Int) : medianOf a b c = Spec.Recon.median a b c := by
  unfold medianOf Spec.Recon.median
  simp only [Int.max_def, Int.min_def]
  repeat' split
  all_goals omega

/-- half-sample split: whole-sample offset = ⌊v/2⌋, interpolate iff v is odd -/
theorem lerp_params (v : Int) : lerpParams v = (v / 2, decide (v % 2 = 1)) := by
  have hm : v % 2 = 0 ∨ v % 2 = 1 := by omega
  have h1 : tdiv2 v = if 0 ≤ v then v / 2 else -((-v) / 2) := rfl
  unfold lerpParams tmod2
  rw [h1]
  rcases hm with h | h
  · have e : (v - 2 * (if 0 ≤ v then v / 2 else -((-v) / 2)) = 0) := by split <;> omega
    simp only [e, ↓reduceIte, h, Int.zero_ne_one, decide_false, Prod.mk.injEq, and_true]
    split <;> omega
  · have e : ¬ (v - 2 * (if 0 ≤ v then v / 2 else -((-v) / 2)) = 0) := by split <;> omega
    simp only [e, ↓reduceIte, h, decide_true]
    by_cases hv : v < 0
    · simp only [hv, ↓reduceIte, Prod.mk.injEq, and_true]; split <;> omega
    · simp only [hv, ↓reduceIte, Prod.mk.injEq, and_true]; split <;> omega

/-- Candidate predictors at every position of a picture `w` macroblocks wide (w ≥ 1), for the macroblock in
column `col < w` of row `row` when all earlier macroblocks' vectors `pv` are present (|pv| = row·w + col), and for
every block index 0..3: the flat-array lookups never fail and equal the two-dimensional rule
  MV1 = left neighbour (zero at the left border; inside the macroblock for blocks 1, 3),
  MV2 = above (MV1 in the first row; block 0 of the current macroblock for blocks 2, 3),
  MV3 = above-right (zero at the right border, MV1 in the first row; block 1 for blocks 2, 3). -/
theorem candidate_spec (pv : Array Mv4) (cur : Mv4) (w row col index : Nat) (hw : 1 ≤ w) (hc : col < w)
    (hn : pv.size = row * w + col) (hi : index < 4) :
    predictCandidate pv cur w index =
      .ok (
        let mbAt (r c : Nat) : Mv4 := pv.getD (r * w + c) zeroMv4
        let mv1 : Mv := if index = 0 ∨ index = 2 then (if col = 0 then zeroMv else (mbAt row (col - 1)).get (index + 1))
                        else cur.get (index - 1)
        let mv2 : Mv := if index = 0 ∨ index = 1 then (if row = 0 then mv1 else (mbAt (row - 1) col).get (index + 2))
                        else cur.get 0
        let mv3 : Mv := if index = 0 ∨ index = 1 then
                          (if col = w - 1 then zeroMv else if row = 0 then mv1 else (mbAt (row - 1) (col + 1)).get 2)
                        else cur.get 1
        mvMedian mv1 mv2 mv3) := by
  have hcm : (row * w + col) % w = col := by
    rw [Nat.add_comm, Nat.add_mul_mod_self_right]; exact Nat.mod_eq_of_lt hc
  have hcd : (row * w + col) / w = row := by
    rw [Nat.add_comm, Nat.add_mul_div_right _ _ (by omega), Nat.div_eq_of_lt hc]; omega
  unfold predictCandidate
  have hw0 : ¬ w = 0 := by omega
  simp only [hw0, ↓reduceIte, hn, hcm, hcd]
  -- the left neighbour exists when col > 0
  have hleft : col ≠ 0 → pv[row * w + col - 1]? = some (pv.getD (row * w + (col - 1)) zeroMv4) := by
    intro h
    have e : row * w + col - 1 = row * w + (col - 1) := by omega
    rw [e, Array.getD_eq_getD_getElem?]
    have : row * w + (col - 1) < pv.size := by omega
    simp [Array.getElem?_eq_getElem this]
  -- the row above exists when row > 0
  have habove : row ≠ 0 → pv[(row - 1) * w + col]? = some (pv.getD ((row - 1) * w + col) zeroMv4) := by
    intro h
    have : (row - 1) * w + col < pv.size := by
      rw [hn]
      have : (row - 1) * w + w = row * w := by
        obtain ⟨k, rfl⟩ : ∃ k, row = k + 1 := ⟨row - 1, by omega⟩
        simp [Nat.add_mul]
      omega
    rw [Array.getD_eq_getD_getElem?]; simp [Array.getElem?_eq_getElem this]
  have haboveR : row ≠ 0 → col ≠ w - 1 → pv[(row - 1) * w + col + 1]? = some (pv.getD ((row - 1) * w + (col + 1)) zeroMv4) := by
    intro h h2
    have : (row - 1) * w + col + 1 < pv.size := by
      rw [hn]
      have : (row - 1) * w + w = row * w := by
        obtain ⟨k, rfl⟩ : ∃ k, row = k + 1 := ⟨row - 1, by omega⟩
        simp [Nat.add_mul]
      omega
    have e : (row - 1) * w + (col + 1) = (row - 1) * w + col + 1 := by omega
    rw [e, Array.getD_eq_getD_getElem?]; simp [Array.getElem?_eq_getElem this]
  simp only [beq_iff_eq]
  rcases (show index = 0 ∨ index = 1 ∨ index = 2 ∨ index = 3 by omega) with h | h | h | h <;> subst h <;>
    simp (config := { decide := true }) only [↓reduceIte, Nat.zero_add, Nat.reduceAdd, Nat.reduceSub, Out.bind] <;>
    by_cases hc0 : col = 0 <;> by_cases hr0 : row = 0 <;> by_cases hce : col = w - 1 <;>
    (try (first | simp only [if_pos hc0] | simp only [if_neg hc0])) <;>
    (try (first | simp only [if_pos hr0] | simp only [if_neg hr0])) <;>
    (try (first | simp only [if_pos hce] | simp only [if_neg hce])) <;>
    (try simp only [hleft hc0]) <;> (try simp only [habove hr0]) <;> (try simp only [haboveR hr0 hce]) <;>
    (try simp only [Out.bind])

/-- The MVD tree re-extracted from the source decodes each of the 64 codewords of Table 14 to its differential
(−16..15.5 samples), consuming exactly the codeword; by `walk_append` the same holds in front of any further bits. -/
theorem mvd_table : Lemmas.VlcTables.MvdTableOk := Lemmas.VlcTables.mvd_agrees

theorem mvd_prefix_free (code rest : Bits) (idx used n : Nat) (a : Option (Int × Nat))
    (h : vlcWalk Gen.MVD idx code used = .ok (a, [], n)) : vlcWalk Gen.MVD idx (code ++ rest) used = .ok (a, rest, n) :=
  Lemmas.VlcTables.walk_append Gen.MVD code idx used a n rest h

/-- non-vacuity: the wrap triggers (15.5 + 1.0 wraps to −15.5) and the border rules apply -/
example : Spec.Recon.wrapVector 31 2 = -31 ∧ Spec.Recon.wrapVector (-32) (-1) = 31 ∧
    averageSum (-3) = -1 ∧ averageSum 13 = 1 ∧ averageSum 14 = 2 := by decide

end H263V.Thm.C12
