/-
C09 — deblocking equals the Annex J edge filter.  Property theorems only.
-/
import H263V.Model.Deblock
import H263V.Spec.AnnexJ
import H263V.Lemmas.Deblock
import H263V.Lemmas.DeblockPass
namespace H263V.Thm.C09
open H263V H263V.Deblock

/-- A u8 sample value. -/
def U8 (x : Int) : Prop := 0 ≤ x ∧ x ≤ 255
/-- A legal filter strength. -/
def Strength (s : Int) : Prop := 1 ≤ s ∧ s ≤ 12

/-- The scalar kernel equals the Annex J filter for every one of the 2^32 patterns and 12 strengths,
never overflows i16 and its `as u8` casts never truncate. -/
theorem scalar_eq_spec (a b c d s : Int) (ha : U8 a) (hb : U8 b) (hc : U8 c) (hd : U8 d) (hs : Strength s) :
    processScalar a b c d s = .ok (Spec.AnnexJ.filter s a b c d) :=
  Lemmas.Deblock.scalar_eq_spec a b c d s ha hb hc hd hs

/-- Each lane of the vector kernel equals the Annex J filter on the same domain: no i16 wrap-around
occurs and the shifts-with-bias divide with truncation toward zero. -/
theorem simd_eq_spec (a b c d s : Int) (ha : U8 a) (hb : U8 b) (hc : U8 c) (hd : U8 d) (hs : Strength s) :
    processSimd a b c d s = .ok (Spec.AnnexJ.filter s a b c d) :=
  Lemmas.Deblock.simd_eq_spec a b c d s ha hb hc hd hs

/-- Hence the result for a four-sample pattern does not depend on whether it falls into a vector
lane or into a scalar remainder. -/
theorem simd_eq_scalar (a b c d s : Int) (ha : U8 a) (hb : U8 b) (hc : U8 c) (hd : U8 d) (hs : Strength s) :
    processSimd a b c d s = processScalar a b c d s := by
  rw [scalar_eq_spec a b c d s ha hb hc hd hs, simd_eq_spec a b c d s ha hb hc hd hs]

/-- The filter's outputs are again sample values. -/
theorem filter_range (a b c d s : Int) (ha : U8 a) (hb : U8 b) (hc : U8 c) (hd : U8 d) (hs : Strength s) :
    U8 (Spec.AnnexJ.filter s a b c d).1 ∧ U8 (Spec.AnnexJ.filter s a b c d).2.1 ∧
    U8 (Spec.AnnexJ.filter s a b c d).2.2.1 ∧ U8 (Spec.AnnexJ.filter s a b c d).2.2.2 :=
  Lemmas.Deblock.filter_range a b c d s ha hb hc hd hs

/-- non-vacuity: the falling edge 10 10 | 0 0 at strength 4 (the pattern on which the pinned
vector kernel differed from the scalar one, finding D8) -/
example : processSimd 10 10 0 0 4 = .ok (9, 7, 3, 1) ∧ processScalar 10 10 0 0 4 = .ok (9, 7, 3, 1) := by
  decide


/-- every sample is a byte -/
def Bytes (img : Img) : Prop := ∀ i (h : i < img.size), img[i] < 256

/-- **Image level, all sizes.**  For every width ≥ 1, every image whose length is a multiple of the width (any height, 0 and 1
rows included), every content and every strength 1..12, `deblock` returns exactly the pointwise Annex J specification: the
horizontal-edge pass maps the sample at (x, y) to the corresponding output of the edge filter applied to column x at rows
e−2..e+1 whenever an 8-aligned edge row e ≥ 8 with e+1 inside the image has e−2 ≤ y ≤ e+1, and leaves it alone otherwise; the
vertical-edge pass does the same along rows on the result.  The in-place loops with their vector-lane / scalar-remainder split
(columns below ⌊w/8⌋·8 vs. the rest; rows below ⌊h/8⌋·8 vs. the rest) are part of the model. -/
theorem deblock_eq_spec (img : Img) (w s : Nat) (hw : 1 ≤ w) (hl : img.size % w = 0) (hb : Bytes img) (hs : 1 ≤ s ∧ s ≤ 12) :
    deblock img w s = .ok (Spec.AnnexJ.deblock img w s) :=
  Lemmas.DeblockPass.deblock_eq_spec img w s hw hl hb hs

/-- Consequences read off the specification: a sample more than one position away from every block edge, or next to an edge
whose four samples do not all lie inside the image, comes out of a pass unchanged. -/
theorem horiz_pass_far_unchanged (img : Img) (w s i : Nat) (hi : i < img.size)
    (hfar : Spec.AnnexJ.edgeOf (i / w) (img.size / w) = none) :
    (Spec.AnnexJ.horizPass img w s).getD i 0 = img.getD i 0 := by
  rw [Lemmas.DeblockPass.horizPass_getD img w s i hi, hfar]

theorem vert_pass_far_unchanged (img : Img) (w s i : Nat) (hi : i < img.size) (hfar : Spec.AnnexJ.edgeOf (i % w) w = none) :
    (Spec.AnnexJ.vertPass img w s).getD i 0 = img.getD i 0 := by
  rw [Lemmas.DeblockPass.vertPass_getD img w s i hi, hfar]

/-- which positions have an edge: rows (columns) 8k−2 .. 8k+1 for k ≥ 1 with 8k+1 inside -/
theorem edgeOf_iff (y n e : Nat) : Spec.AnnexJ.edgeOf y n = some e ↔ (e % 8 = 0 ∧ 8 ≤ e ∧ e ≤ y + 2 ∧ y ≤ e + 1 ∧ e + 2 ≤ n) := by
  constructor
  · exact Lemmas.DeblockPass.edgeOf_some y n e
  · intro ⟨h1, h2, h3, h4, h5⟩
    unfold Spec.AnnexJ.edgeOf
    simp only
    have : (y + 2) / 8 * 8 = e := by omega
    rw [this, if_pos (by omega)]

/-- the output has the input's length -/
theorem deblock_length (img : Img) (w s : Nat) : (Spec.AnnexJ.deblock img w s).size = img.size := by
  simp [Spec.AnnexJ.deblock, Spec.AnnexJ.vertPass, Spec.AnnexJ.horizPass]

/-- non-vacuity: a 10x10 image with a step across its horizontal and vertical edges is filtered, and model and specification agree on it -/
example : deblock (Array.ofFn (n := 100) fun i => if i.val / 10 < 8 then 10 else 0) 10 4 =
    .ok (Spec.AnnexJ.deblock (Array.ofFn (n := 100) fun i => if i.val / 10 < 8 then 10 else 0) 10 4) := by
  apply deblock_eq_spec
  · omega
  · simp
  · intro i hi; simp only [Array.getElem_ofFn]; split <;> omega
  · omega

end H263V.Thm.C09
