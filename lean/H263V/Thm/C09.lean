/-
C09 — deblocking equals the Annex J edge filter.  Property theorems only.
-/
import H263V.Model.Deblock
import H263V.Spec.AnnexJ
import H263V.Lemmas.Deblock
namespace H263V.Thm.C09
open H263V H263V.Deblock

/-- A u8 sample value. -/
def U8 (x : Int) : Prop := 0 ≤ x ∧ x ≤ 255
/-- A legal filter strength. -/
def Strength (s : Int) : Prop := 1 ≤ s ∧ s ≤ 12

/-- The scalar kernel equals the Annex J filter for every one of the 2^32 patterns and 12 strengths,
never overflows i16 and its `as u8` casts never truncate. -/
theorem scalar_eq_spec (a b c d s : Int) (ha : U8 a) (hb : U8 b) (hc : U8 c) (hd : U8 d) (hs : Strength s) :
    processScalar a b c d s = .ok (Spec.AnnexJ.filter s a b c d) :=
  Lemmas.Deblock.scalar_eq_spec a b c d s ha hb hc hd hs

/-- Each lane of the vector kernel equals the Annex J filter on the same domain: no i16 wrap-around
occurs and the shifts-with-bias divide with truncation toward zero. -/
theorem simd_eq_spec (a b c d s : Int) (ha : U8 a) (hb : U8 b) (hc : U8 c) (hd : U8 d) (hs : Strength s) :
    processSimd a b c d s = .ok (Spec.AnnexJ.filter s a b c d) :=
  Lemmas.Deblock.simd_eq_spec a b c d s ha hb hc hd hs

/-- Hence the result for a four-sample pattern does not depend on whether it falls into a vector
lane or into a scalar remainder. -/
theorem simd_eq_scalar (a b c d s : Int) (ha : U8 a) (hb : U8 b) (hc : U8 c) (hd : U8 d) (hs : Strength s) :
    processSimd a b c d s = processScalar a b c d s := by
  rw [scalar_eq_spec a b c d s ha hb hc hd hs, simd_eq_spec a b c d s ha hb hc hd hs]

/-- The filter's outputs are again sample values. -/
theorem filter_range (a b c d s : Int) (ha : U8 a) (hb : U8 b) (hc : U8 c) (hd : U8 d) (hs : Strength s) :
    U8 (Spec.AnnexJ.filter s a b c d).1 ∧ U8 (Spec.AnnexJ.filter s a b c d).2.1 ∧
    U8 (Spec.AnnexJ.filter s a b c d).2.2.1 ∧ U8 (Spec.AnnexJ.filter s a b c d).2.2.2 :=
  Lemmas.Deblock.filter_range a b c d s ha hb hc hd hs

/-- non-vacuity: the falling edge 10 10 | 0 0 at strength 4 (the pattern on which the pinned
vector kernel differed from the scalar one, finding D8) -/
example : processSimd 10 10 0 0 4 = .ok (9, 7, 3, 1) ∧ processScalar 10 10 0 0 4 = .ok (9, 7, 3, 1) := by
  decide

end H263V.Thm.C09
