/-
C01 — decoding never crashes or hangs.  Property theorems only.
(PARTIAL: `panic` / `fuel` unreachability is proved per component below — the start-code search and PEI
loops cannot run out of fuel, i.e. cannot loop without consuming input; quantizer arithmetic, candidate
prediction and the post-processing stages cannot panic.  The composition into one theorem about
`decodeNextPicture` is not yet proved; for whole decode calls the absence of panics and hangs is covered by
the correspondence runs on malformed streams after random histories, in-process and in an isolated worker.)
-/
import H263V.Model.State
import H263V.Thm.C11
import H263V.Thm.C12
namespace H263V.Thm.C01
open H263V H263V.State H263V.Mv

theorem skipBits_cases (n : Nat) (c : Cur) :
    (skipBits n c = .err .eof ∧ c.bits.length < n) ∨
    (skipBits n c = .ok ((), ⟨c.bits.drop n, c.pos + n⟩) ∧ n ≤ c.bits.length) := by
  unfold skipBits
  by_cases h : c.bits.length < n
  · left; simp [h]
  · right; simp [h]; omega

theorem peekBits_cases (W n : Nat) (c : Cur) : (∃ v, peekBits W n c = .ok v) ∨ (∃ e, peekBits W n c = .err e) := by
  unfold peekBits
  repeat' split
  all_goals simp

/-- The start-code search consumes one bit per iteration: with fuel beyond the number of remaining bits it never
runs out of fuel — the loop cannot spin without consuming input — and it never panics. -/
theorem rsc_total (inError : Bool) (maxSkip : Nat) :
    ∀ (fuel skip : Nat) (c : Cur), c.bits.length < fuel → (rscLoop inError maxSkip fuel skip c).returns = true := by
  intro fuel
  induction fuel with
  | zero => intro skip c h; omega
  | succ n ih =>
    intro skip c h
    unfold rscLoop
    rcases peekBits_cases 32 17 c with ⟨v, hv⟩ | ⟨e, he⟩
    · rw [hv]
      simp only
      split
      · rfl
      · split
        · rfl
        · rcases skipBits_cases 1 c with ⟨h1, _⟩ | ⟨h1, h2⟩
          · rw [h1]; rfl
          · rw [h1]
            simp only
            apply ih
            simp only [List.length_drop]
            omega
    · rw [he]; rfl

theorem recognizeStartCode_returns (inError : Bool) (c : Cur) : (recognizeStartCode inError c).returns = true := by
  unfold recognizeStartCode
  have hf := rsc_total inError (realignmentBits c) (c.bits.length + 2) 0 c (by omega)
  cases h : rscLoop inError (realignmentBits c) (c.bits.length + 2) 0 c with
  | ok r => rfl
  | err e => rfl
  | fuel => rw [h] at hf; simp [Out.returns] at hf
  | panic s => rw [h] at hf; simp [Out.returns] at hf

/-- The quantizer update cannot overflow its i8 for any quantizer a header or an earlier update can produce. -/
theorem quant_update_total (q : Nat) (hq : q ≤ 31) (dq : Option Int)
    (hd : dq = none ∨ dq = some (-2) ∨ dq = some (-1) ∨ dq = some 1 ∨ dq = some 2) :
    ∃ q', updateQuant q dq = .ok q' ∧ 1 ≤ q' ∧ q' ≤ 31 := by
  have key : ∀ d : Int, -2 ≤ d → d ≤ 2 → ∃ q', updateQuant q (some d) = .ok q' ∧ 1 ≤ q' ∧ q' ≤ 31 := by
    intro d h1 h2
    unfold updateQuant
    simp only [Option.getD_some]
    have h3 : ¬ (q > 127 ∨ (q : Int) + d < -128 ∨ (q : Int) + d > 127) := by omega
    simp only [h3, ↓reduceIte]
    refine ⟨_, rfl, ?_, ?_⟩ <;> (repeat' split) <;> omega
  rcases hd with h | h | h | h | h <;> subst h
  · have := key 0 (by omega) (by omega)
    simpa [updateQuant] using this
  · exact key _ (by omega) (by omega)
  · exact key _ (by omega) (by omega)
  · exact key _ (by omega) (by omega)
  · exact key _ (by omega) (by omega)

/-- Candidate prediction never indexes out of bounds at any position of any picture width ≥ 1. -/
theorem predict_candidate_total (pv : Array Mv4) (cur : Mv4) (w row col index : Nat) (hw : 1 ≤ w) (hc : col < w)
    (hn : pv.size = row * w + col) (hi : index < 4) : (predictCandidate pv cur w index).isOk = true := by
  rw [Thm.C12.candidate_spec pv cur w row col index hw hc hn hi]; rfl

/-- Dequantisation saturates: no value leaves −2048..2047 (so the f32 conversion and the later i16 arithmetic are exact). -/
theorem dequant_bounded (q : Nat) (level : Int) : -2048 ≤ Rle.dequant q level ∧ Rle.dequant q level ≤ 2047 :=
  Thm.C11.dequant_range q level

end H263V.Thm.C01
