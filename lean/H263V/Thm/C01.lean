/-
C01 — decoding never crashes or hangs.  Property theorems only.

The model returns `panic` exactly where the Rust code (overflow checks and debug assertions on) would panic — every slice
and Vec index, checked arithmetic, division, unwrap, assertion — and `fuel` when one of its data-driven loops would exceed a
bound that is a function of the number of unread bits.  The theorems below say that neither outcome is reachable: for every
option set, every history of decode calls and clean-ups (so every reference-picture state and every picture-size change),
and every bit string, `decode_next_picture` returns the new state or an error value.

What the model cannot exhibit and is observed by the harness only: allocation failure (sizes too large for memory are
outside the property), stack exhaustion, aborts, wall-clock time.
-/
import H263V.Model.State
import H263V.Model.System
import H263V.Lemmas.DecodeTotal
import H263V.Thm.C11
import H263V.Thm.C12
namespace H263V.Thm.C01
open H263V H263V.State H263V.Mv

/-- **One call.**  In any decoder state whose stored pictures have planes of the sizes their formats prescribe (an
invariant of every history, next theorem), on any input bits, `decode_next_picture` returns: it neither panics nor runs out
of fuel — no index out of bounds, no arithmetic overflow, no division by zero, no unwrap on `None`, no unbounded loop. -/
theorem decode_never_crashes (s : State) (hs : Lemmas.PlaneInv.StoreOK s) (c : Cur) :
    (∃ s' c', decodeNextPicture s c = .ok (s', c')) ∨ (∃ e, decodeNextPicture s c = .err e) := by
  have := Lemmas.DecodeTotal.decodeNextPicture_returns s hs c
  cases h : decodeNextPicture s c with
  | ok r => exact Or.inl ⟨r.1, r.2, rfl⟩
  | err e => exact Or.inr ⟨e, rfl⟩
  | panic m => rw [h] at this; simp [Out.returns] at this
  | fuel => rw [h] at this; simp [Out.returns] at this

/-- **Every history.**  Starting from a fresh decoder with any options, after any sequence of data deliveries, decode calls
(successful or failing) and clean-ups, no operation ever crashes or hangs. -/
theorem history_never_crashes (o : DecOpts) (c0 : Cur) (ops : List System.Op) :
    ∀ r ∈ (System.run ⟨State.new o, c0⟩ ops).2, r ≠ System.Res.crashed :=
  Lemmas.DecodeTotal.run_not_crashed ops ⟨State.new o, c0⟩ (Lemmas.PlaneInv.new_storeOK o)

/-- The invariant the first theorem needs holds after every history. -/
theorem invariant_of_history (o : DecOpts) (c0 : Cur) (ops : List System.Op) :
    Lemmas.PlaneInv.StoreOK (System.run ⟨State.new o, c0⟩ ops).1.st := by
  suffices h : ∀ (ops : List System.Op) (i : System.Inst), Lemmas.PlaneInv.StoreOK i.st → Lemmas.PlaneInv.StoreOK (System.run i ops).1.st from
    h ops _ (Lemmas.PlaneInv.new_storeOK o)
  intro ops
  induction ops with
  | nil => intro i hi; exact hi
  | cons op rest ih => intro i hi; exact ih _ (Lemmas.DecodeTotal.step_storeOK i hi op)

/-- The macroblock loop cannot spin: with the fuel `decode_next_picture` gives it (unread bits + macroblocks of the picture
+ 2) it never runs out, because every iteration either consumes a bit or adds a macroblock. -/
theorem macroblock_loop_terminates (d : DecOpts) (hdr : PicHdr) (dims : Option (Nat × Nat)) (running w mbH : Nat) (hw : 1 ≤ w)
    (l : Loop) (hl : Lemmas.DecodeTotal.LoopInv w mbH l) :
    (mbLoop d hdr dims running w (w * mbH) (l.cur.bits.length + w * mbH + 2) l).returns = true :=
  (Lemmas.DecodeTotal.mbLoop_ok d hdr dims running w mbH hw _ l hl
    (by unfold Lemmas.DecodeTotal.measure; omega)).returns

/-- non-vacuity: the invariant is met by a fresh decoder, and a concrete (truncated) input is rejected with an error value -/
example : Lemmas.PlaneInv.StoreOK (State.new { sorenson := true, scalability := false }) := Lemmas.PlaneInv.new_storeOK _
example : decodeNextPicture (State.new { sorenson := true, scalability := false }) ⟨[false, false, true], 0⟩ = .err .eof := by
  decide

theorem skipBits_cases (n : Nat) (c : Cur) :
    (skipBits n c = .err .eof ∧ c.bits.length < n) ∨
    (skipBits n c = .ok ((), ⟨c.bits.drop n, c.pos + n⟩) ∧ n ≤ c.bits.length) := by
  unfold skipBits
  by_cases h : c.bits.length < n
  · left; simp [h]
  · right; simp [h]; omega

theorem peekBits_cases (W n : Nat) (c : Cur) : (∃ v, peekBits W n c = .ok v) ∨ (∃ e, peekBits W n c = .err e) := by
  unfold peekBits
  repeat' split
  all_goals simp

/-- The start-code search consumes one bit per iteration: with fuel beyond the number of remaining bits it never
runs out of fuel — the loop cannot spin without consuming input — and it never panics. -/
theorem rsc_total (inError : Bool) (maxSkip : Nat) :
    ∀ (fuel skip : Nat) (c : Cur), c.bits.length < fuel → (rscLoop inError maxSkip fuel skip c).returns = true := by
  intro fuel
  induction fuel with
  | zero => intro skip c h; omega
  | succ n ih =>
    intro skip c h
    unfold rscLoop
    rcases peekBits_cases 32 17 c with ⟨v, hv⟩ | ⟨e, he⟩
    · rw [hv]
      simp only
      split
      · rfl
      · split
        · rfl
        · rcases skipBits_cases 1 c with ⟨h1, _⟩ | ⟨h1, h2⟩
          · rw [h1]; rfl
          · rw [h1]
            simp only
            apply ih
            simp only [List.length_drop]
            omega
    · rw [he]; rfl

theorem recognizeStartCode_returns (inError : Bool) (c : Cur) : (recognizeStartCode inError c).returns = true := by
  unfold recognizeStartCode
  have hf := rsc_total inError (realignmentBits c) (c.bits.length + 2) 0 c (by omega)
  cases h : rscLoop inError (realignmentBits c) (c.bits.length + 2) 0 c with
  | ok r => rfl
  | err e => rfl
  | fuel => rw [h] at hf; simp [Out.returns] at hf
  | panic s => rw [h] at hf; simp [Out.returns] at hf

/-- The quantizer update cannot overflow its i8 for any quantizer a header or an earlier update can produce. -/
theorem quant_update_total (q : Nat) (hq : q ≤ 31) (dq : Option Int)
    (hd : dq = none ∨ dq = some (-2) ∨ dq = some (-1) ∨ dq = some 1 ∨ dq = some 2) :
    ∃ q', updateQuant q dq = .ok q' ∧ 1 ≤ q' ∧ q' ≤ 31 :=
  Lemmas.DecodeTotal.quant_update_total q hq dq hd

/-- Candidate prediction never indexes out of bounds at any position of any picture width ≥ 1. -/
theorem predict_candidate_total (pv : Array Mv4) (cur : Mv4) (w row col index : Nat) (hw : 1 ≤ w) (hc : col < w)
    (hn : pv.size = row * w + col) (hi : index < 4) : (predictCandidate pv cur w index).isOk = true := by
  rw [Thm.C12.candidate_spec pv cur w row col index hw hc hn hi]; rfl

/-- Dequantisation saturates: no value leaves −2048..2047 (so the f32 conversion and the later i16 arithmetic are exact). -/
theorem dequant_bounded (q : Nat) (level : Int) : -2048 ≤ Rle.dequant q level ∧ Rle.dequant q level ≤ 2047 :=
  Thm.C11.dequant_range q level

end H263V.Thm.C01
