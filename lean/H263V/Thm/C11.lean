/-
C11 — dequantisation is exact and saturating over the whole quantizer x level domain.
Property theorems only.
-/
import H263V.Model.State
import H263V.Spec.Recon
import H263V.Spec.Vlc
import H263V.Lemmas.RlePlacement
namespace H263V.Thm.C11
open H263V H263V.Rle H263V.State

/-- For every quantizer and every level (in particular 1..31 and all codable levels ±1..1023) the model's
dequantisation is the H.263 reconstruction saturated to −2048..2047. -/
theorem dequant_spec (q : Nat) (level : Int) : dequant q level = Spec.Recon.dequant q level := by
  simp only [dequant, Spec.Recon.dequant, Spec.Recon.clamp, Spec.Recon.sign]
  generalize (q : Int) * (2 * (level.natAbs : Int) + 1) = p
  have hq : q % 2 = 1 ∨ q % 2 = 0 := by omega
  have hs : (0 < level ∧ ¬ level < 0) ∨ (¬ 0 < level ∧ ¬ level < 0) ∨ (level < 0 ∧ ¬ 0 < level) := by omega
  rcases hq with h | h <;> rcases hs with ⟨h1, h2⟩ | ⟨h1, h2⟩ | ⟨h1, h2⟩ <;>
    simp only [h, h1, h2, gt_iff_lt, ↓reduceIte, Nat.one_ne_zero, Nat.zero_ne_one] <;> (repeat' split) <;> omega

/-- The dequantised value always lies in −2048..2047. -/
theorem dequant_range (q : Nat) (level : Int) : -2048 ≤ dequant q level ∧ dequant q level ≤ 2047 := by
  rw [dequant_spec]; unfold Spec.Recon.dequant Spec.Recon.clamp
  generalize Spec.Recon.sign level * _ = v
  split <;> (try split) <;> omega

/-- Saturation is reached exactly as stated: at Q = 31 every |L| ≥ 34 saturates. -/
example : dequant 31 33 = 2047 ∧ dequant 31 34 = 2047 ∧ dequant 31 (-34) = -2048 ∧ dequant 31 1023 = 2047 ∧
    dequant 31 32 = 2015 ∧ dequant 30 5 = 329 := by decide

/-- INTRADC: codes 0 and 128 are rejected, 255 ↦ 1024, every other code ↦ 8·code. -/
theorem intradc_spec (code : Nat) :
    (Mb.intraDcOfByte code).map intraDcLevel = Spec.Recon.intraDc code := by
  unfold Mb.intraDcOfByte intraDcLevel Spec.Recon.intraDc
  by_cases h0 : code = 0
  · simp [h0]
  · by_cases h1 : code = 128
    · simp [h1]
    · by_cases h2 : code = 255
      · simp [h2]
      · simp [h0, h1, h2]; omega

/-- The quantizer after a DQUANT of −2, −1, +1, +2 (or none) is clipped to 1..31 and the i8 addition cannot overflow. -/
theorem dquant_clamp (q : Nat) (hq : q ≤ 31) (d : Int) (hd : d = -2 ∨ d = -1 ∨ d = 1 ∨ d = 2) :
    updateQuant q (some d) = .ok (Spec.Recon.quantAfter q d).toNat := by
  unfold updateQuant Spec.Recon.quantAfter Spec.Recon.clamp
  simp only [Option.getD_some]
  have h1 : ¬ (q > 127 ∨ (q : Int) + d < -128 ∨ (q : Int) + d > 127) := by omega
  simp only [h1, ↓reduceIte]
  congr 1
  repeat' split
  all_goals omega

theorem dquant_none (q : Nat) (hq : 1 ≤ q ∧ q ≤ 31) : updateQuant q none = .ok q := by
  unfold updateQuant
  simp only [Option.getD_none]
  have h1 : ¬ (q > 127 ∨ (q : Int) + 0 < -128 ∨ (q : Int) + 0 > 127) := by omega
  simp only [h1, ↓reduceIte]
  congr 1
  repeat' split
  all_goals omega

/-- The de-zig-zag table re-extracted from the source is the classical zig-zag scan ((x, y) = (column, row)). -/
theorem zigzag_table : Gen.DEZIGZAG.toList = (List.range 64).map Spec.Recon.zigzag := by decide

/-- Escape level widths: the two's complement field read for an escape level is exactly the written level,
for the 7-, 8- and 11-bit forms (levels −63..63, −127..127, −1023..1023). -/
theorem escape_level_roundtrip (n : Nat) (hn : n = 7 ∨ n = 8 ∨ n = 11) (l : Int)
    (hl : -(2 ^ (n - 1) : Nat) ≤ l ∧ l < (2 ^ (n - 1) : Nat)) :
    signExtend n (if l < 0 then (l + (2 ^ n : Nat)).toNat else l.toNat) = l := by
  unfold signExtend
  rcases hn with h | h | h <;> subst h <;> simp at hl ⊢ <;> split <;> omega


open H263V.Lemmas.RlePlacement in
/-- **Placement.**  The `k`-th coded coefficient of a block lands at zig-zag position
`start + (runs and coefficients before it) + its own run` (`start` = 1 after an INTRADC, else 0), i.e. at raster index
`rasterOf` of that position in the regenerated (= classical, `zigzag_table`) scan, and holds the dequantised level; positions no
event lands on keep what they had (zero, or the INTRADC level at position 0); the block has 64 entries. -/
theorem coefficient_placement (q : Nat) (b : Mb.Block) (data : List Int) (h : blockData b q = some data) :
    data.length = 64 ∧
    (∀ k (hk : k < b.tcoef.length), posOf (initState b).zz b.tcoef k < 64 ∧
      data.getD (rasterOf (posOf (initState b).zz b.tcoef k)) 0 = dequant q (b.tcoef[k]).level) ∧
    (∀ i, i < 64 → lookupPos (initState b).zz b.tcoef i = none → data.getD (rasterOf i) 0 = (initState b).data.getD (rasterOf i) 0) := by
  unfold blockData at h
  cases hl : rleLoop q b.tcoef (initState b) with
  | none => rw [hl] at h; simp at h
  | some s =>
    rw [hl] at h
    simp only [Option.map_some, Option.some.injEq] at h
    subst h
    have hlen : (initState b).data.length = 64 := by unfold initState; split <;> simp
    obtain ⟨h1, h2⟩ := rleLoop_data q _ _ s hlen hl
    refine ⟨h1, ?_, ?_⟩
    · intro k hk
      have hp : posOf (initState b).zz b.tcoef k < 64 := by
        have h3 : ¬ (64 ≤ posOf (initState b).zz b.tcoef k) := fun hge => by
          have := (rleLoop_none_iff q b.tcoef (initState b)).mpr ⟨k, hk, hge⟩
          rw [hl] at this; simp at this
        omega
      refine ⟨hp, ?_⟩
      rw [h2 _ hp, lookup_posOf _ _ k hk]
    · intro i hi hn
      rw [h2 i hi, hn]

open H263V.Lemmas.RlePlacement in
/-- The block is dropped (left as it was) exactly when some event's position leaves the 64 coefficients. -/
theorem block_dropped_iff (q : Nat) (b : Mb.Block) :
    blockData b q = none ↔ ∃ k, k < b.tcoef.length ∧ 64 ≤ posOf (initState b).zz b.tcoef k := by
  unfold blockData
  rw [← rleLoop_none_iff q b.tcoef (initState b)]
  cases rleLoop q b.tcoef (initState b) <;> simp

open H263V.Lemmas.RlePlacement in
/-- **The sparse shapes are lossless.**  Whatever `inverse_rle` stores for a block — `Zero`, `Dc`, `Horiz` (first row), `Vert`
(first column) or `Full` — stands for exactly the block's 64 reconstruction levels. -/
theorem shapes_lossless (b : Mb.Block) (q : Nat) : (inverseRleBlock b q).map expand = blockData b q :=
  inverseRleBlock_lossless b q

end H263V.Thm.C11
