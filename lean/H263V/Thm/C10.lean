/-
C10 — the inverse DCT meets the H.263 Annex A accuracy requirements.  Property theorems only.
The statistical theorems are evaluated by `native_decide` (axiom `Lean.ofReduceBool`: trust in the Lean
compiler and runtime) — about 10^8 soft-float operations per range, out of reach of kernel reduction.
-/
import H263V.Lemmas.AnnexA1
import H263V.Lemmas.AnnexA2
import H263V.Lemmas.AnnexA3
import H263V.Lemmas.AnnexA4
import H263V.Lemmas.AnnexA5
import H263V.Lemmas.AnnexA6
import H263V.Lemmas.AnnexA7
import H263V.Lemmas.F32Range
import H263V.Lemmas.IdctErr
namespace H263V.Thm.C10
open H263V H263V.Idct H263V.Spec.AnnexA H263V.Lemmas.AnnexA

/-- Annex A procedure, generator seed 1, 10,000 blocks per range: peak error ≤ 1, per-position mean square error ≤ 0.06,
overall mean square error ≤ 0.02, per-position mean error ≤ 0.015, overall mean error ≤ 0.0015, for the decoder's full
2-D inverse transform (soft-float model, regenerated basis table) against the exact reference transform. -/
theorem annexA_range_256_255 : rangeOk 1 256 255 false 10000 = true := range1_ok
theorem annexA_range_5_5 : rangeOk 1 5 5 false 10000 = true := range2_ok
theorem annexA_range_300_300 : rangeOk 1 300 300 false 10000 = true := range3_ok
theorem annexA_range_neg_256_255 : rangeOk 1 256 255 true 10000 = true := range4_ok
theorem annexA_range_neg_5_5 : rangeOk 1 5 5 true 10000 = true := range5_ok
theorem annexA_range_neg_300_300 : rangeOk 1 300 300 true 10000 = true := range6_ok

/-- **Peak error for EVERY block** (not a sample; ordinary axioms, no `native_decide`).  For every 8x8 coefficient block whose
entries have magnitude at most 2048 — whatever dequantisation can produce — and every sample position, the decoder's full
inverse transform differs from the Annex A reference (exact arithmetic with 40-digit cosines, nearest integer, clipped to
-256..255) by at most 1.  Forward error analysis over the rationals: each binary32 operation has relative error at most 2^-24
(`rnd24_err`, proved from the bit-level rounding), two passes of eight-term running sums accumulate at most 0.86 before the
division by four, the final `+ signum * 0.5` / truncation is within 1/2 + 0.071 of the quotient, and the regenerated table is within
9 * 2^-24 of the ideal basis at every entry (kernel-checked), which moves the exact value by at most 0.106. -/
theorem full_transform_peak_error_all_blocks (coef : Blk) (hb : ∀ v ∈ coef.toList, v.natAbs ≤ 2048) (i : Nat) (hi : i < 64) :
    ((modelIdct coef).getD i 0 - (refIdct coef).getD i 0).natAbs ≤ 1 :=
  Lemmas.IdctErr.full_within_one coef hb i hi

/-- **The first-row and first-column shortcuts, for EVERY block of their shape**: eight coefficients of magnitude at most 2048 in
the first row (column) and zeros elsewhere; the shortcut path (`idct_1d` once, `* B00 / 4`, rounding with `x.signum()`) is within 1
of the reference transform of that block at every sample.  Same error analysis as the full path; ordinary axioms. -/
theorem first_row_peak_all_blocks (row : List Int) (hb : ∀ v ∈ row, v.natAbs ≤ 2048) (i : Nat) (hi : i < 64) :
    ((shapeIdct (.horiz row)).getD i 0 - (refIdct (Lemmas.IdctErr.rowBlock row)).getD i 0).natAbs ≤ 1 :=
  Lemmas.IdctErr.horiz_within_one row hb i hi

theorem first_col_peak_all_blocks (col : List Int) (hb : ∀ v ∈ col, v.natAbs ≤ 2048) (i : Nat) (hi : i < 64) :
    ((shapeIdct (.vert col)).getD i 0 - (refIdct (Lemmas.IdctErr.colBlock col)).getD i 0).natAbs ≤ 1 :=
  Lemmas.IdctErr.vert_within_one col hb i hi

/-- **Every block shape the decoder can store** (`Zero` has no residual; `Dc`, first row, first column, full), entries of magnitude
at most 2048: the residual it adds is within 1 of the reference inverse transform of the 64 levels the shape stands for
(`expand`, C11 `shapes_lossless`), at every sample.  Error analysis throughout, including the DC shortcut — no `native_decide`. -/
theorem every_shape_peak_error (b : Rle.Dct) (hb : Lemmas.F32Range.Dct.Bounded b) (res : Nat → Nat → Int) (bad : Bool)
    (h : blockResidual b = some (res, bad)) (x y : Nat) (hx : x < 8) (hy : y < 8) :
    (res x y - (refIdct (Lemmas.RlePlacement.expand b).toArray).getD (8 * y + x) 0).natAbs ≤ 1 :=
  Lemmas.IdctErr.residual_within_one b hb res bad h x y hx hy

/-- non-vacuity and shape of the reference blocks: `rowBlock` puts the list into row 0, `colBlock` into column 0 -/
example : Lemmas.IdctErr.rowBlock [1, 2, 3, 4, 5, 6, 7, 8] =
    #[1, 2, 3, 4, 5, 6, 7, 8] ++ Array.replicate 56 0 := by decide +kernel

/-- an all-zero coefficient block maps to all zeros (kernel-checked) -/
theorem zero_block : modelIdct (Array.replicate 64 0) = Array.replicate 64 0 := by decide +kernel

/-- the DC-only shortcut is within 1 of the reference for all 4095 non-zero DC values -/
theorem dc_only_peak : dcAllOk = true := dc_all_ok

/-- the first-row / first-column shortcuts are within 1 of the reference on 20,000 pseudo-random blocks each over
the full coefficient range (a sample, as the property's quantifier prescribes) -/
theorem first_row_peak_sample : sparseOk true 1 20000 = true := row_sample_ok
theorem first_col_peak_sample : sparseOk false 1 20000 = true := col_sample_ok

/-- The soft-float model is exact binary32 arithmetic on every block the decoder can produce: for every block whose
coefficients are integers of magnitude at most 2048 (dequantisation saturates to −2048..2047, INTRADC levels are at most
2040), in every one of the four shape paths, no product, partial sum or final scaling of the inverse transform leaves the
normal range of binary32 (no overflow, no subnormal), so the "model gap" outcome is unreachable.  The bound on the basis
table entries is checked on the table as regenerated from the source.  (All inputs, by interval analysis; no `native_decide`.) -/
theorem idct_arithmetic_in_normal_range (b : Rle.Dct) (hb : Lemmas.F32Range.Dct.Bounded b) (res : Nat → Nat → Int) (bad : Bool)
    (h : blockResidual b = some (res, bad)) : bad = false :=
  Lemmas.F32Range.blockResidual_no_gap b hb res bad h

/-- non-vacuity: a full-range block meets the hypothesis -/
example : Lemmas.F32Range.Dct.Bounded (.full (List.replicate 64 (-2048))) := by
  intro v hv; rw [List.mem_replicate] at hv; rw [hv.2]; decide

end H263V.Thm.C10
