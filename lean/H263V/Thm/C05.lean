/-
C05 — a failed decode changes nothing and can be retried.  Property theorems only.

In the model a decode step returns a new state and cursor only on success, so "a failed call changes
nothing" holds by construction (`failed_step_noop`); that the *code* behaves like this model — every
mutation after the last fallible step, the reader rolled back, fetched bytes retained — is what the
correspondence runs (failing pictures at every depth, split deliveries) and C14's reader refinement establish.
The theorems below are the consequences the property lists.
-/
import H263V.Model.System
import H263V.Lemmas.Store
namespace H263V.Thm.C05
open H263V H263V.State H263V.System

/-- A decode call that returns an error leaves the decoder (last picture, reference picture, options, stored pictures)
and the bit position exactly as they were. -/
theorem failed_step_noop (i : Inst) (e : Err) (h : decodeNextPicture i.st i.cur = .err e) :
    step i .decode = (i, .failed e) := by
  simp [step, h]

/-- Decoding afterwards gives the same results as if the failed call had never been made. -/
theorem retry_equiv (i : Inst) (e : Err) (h : decodeNextPicture i.st i.cur = .err e) (ops : List Op) :
    (run i (.decode :: ops)).1 = (run i ops).1 ∧ (run i (.decode :: ops)).2 = .failed e :: (run i ops).2 := by
  simp [run, failed_step_noop i e h]

/-- A call that failed for lack of data, repeated after more data has been appended, is the call on the completed data:
the failed attempt leaves no trace. -/
theorem append_equiv (i : Inst) (e : Err) (h : decodeNextPicture i.st i.cur = .err e) (more : Bits) (ops : List Op) :
    run i (.decode :: .feed more :: .decode :: ops) =
      (let r := run i (.feed more :: .decode :: ops); (r.1, .failed e :: r.2)) := by
  simp [run, failed_step_noop i e h]

/-- What a decode call does depends on the decoder only through its options, its last picture and its reference picture
(not on how the pictures are stored, nor on pictures that a clean-up would drop). -/
theorem decode_depends_on_abs (s t : State) (c : Cur) (ho : s.opts = t.opts) (hr : s.running = t.running)
    (hl : s.getLast = t.getLast) (hf : s.getRef = t.getRef) : decodeCore s c = decodeCore t c := by
  unfold decodeCore
  rw [ho, hr, hl, hf]

/-- In particular a clean-up between calls never changes what the next call decodes. -/
theorem cleanup_invisible (s : State) (c : Cur) : decodeCore s.cleanup c = decodeCore s c :=
  decode_depends_on_abs _ _ c rfl rfl (Lemmas.Store.cleanup_getLast s) (Lemmas.Store.cleanup_getRef s)

/-- The options carried from picture to picture are never changed by a decode call, successful or not. -/
theorem running_options_kept (s : State) (c : Cur) (s' : State) (c' : Cur) (h : decodeNextPicture s c = .ok (s', c')) :
    s'.opts = s.opts ∧ s'.running = s.running := by
  unfold decodeNextPicture at h
  cases hc : decodeCore s c with
  | ok r =>
    obtain ⟨hdr, pic, c2⟩ := r
    rw [hc] at h
    simp only [Out.bind_ok, Out.pure_eq, Out.ok.injEq, Prod.mk.injEq] at h
    rw [← h.1]
    exact ⟨rfl, rfl⟩
  | err e => rw [hc] at h; simp at h
  | panic m => rw [hc] at h; simp at h
  | fuel => rw [hc] at h; simp at h

end H263V.Thm.C05
