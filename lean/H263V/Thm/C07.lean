/-
C07 — YUV to RGB conversion is the BT.601 studio-range formula for every colour.
Property theorems only.  All statements quantify over all (Y, Cb, Cr) byte triples (2^24).
-/
import H263V.Model.Yuv
import H263V.Spec.Bt601
import H263V.Lemmas.Yuv
namespace H263V.Thm.C07
open H263V H263V.Yuv H263V.Spec.Bt601

def U8 (x : Int) : Prop := 0 ≤ x ∧ x ≤ 255

/-- Every numeric literal of the kernel, re-extracted from the source, is the value the specification
derives: offsets 16/128/128, each coefficient the nearest integer to its BT.601 constant times 2^16,
rounding term 2^15, shift 16, clamp to 255, alpha 255, byte order R,G,B,A, chroma duplicated pairwise. -/
theorem coeffs_rounded :
    Gen.YUV_Y_OFF = 16 ∧ Gen.YUV_CB_OFF = 128 ∧ Gen.YUV_CR_OFF = 128 ∧
    Gen.YUV_C_GRAY = cY ∧ Gen.YUV_C_CR2R = cRV ∧ Gen.YUV_C_CR2G = cGV ∧
    Gen.YUV_C_CB2G = cGU ∧ Gen.YUV_C_CB2B = cBU ∧
    Gen.YUV_HALF = 32768 ∧ Gen.YUV_SHIFT_R = 16 ∧ Gen.YUV_SHIFT_G = 16 ∧ Gen.YUV_SHIFT_B = 16 ∧
    Gen.YUV_MAXV = 255 ∧ Gen.YUV_ALPHA = 255 ∧ Gen.YUV_PACK_SHIFTS = [0, 8, 16, 24] ∧
    Gen.YUV_Y_LANES = [0, 1, 2, 3] ∧ Gen.YUV_CB_LANES = [0, 0, 1, 1] ∧ Gen.YUV_CR_LANES = [0, 0, 1, 1] :=
  Lemmas.Yuv.consts

/-- The spec's rounded coefficients are within one half of the exact rational constants times 2^16. -/
theorem spec_coeffs_nearest :
    2 * (219 * cY - 255 * 65536).natAbs ≤ 219 ∧
    2 * (224000 * cRV - 255 * 1402 * 65536).natAbs ≤ 224000 ∧
    2 * (224000 * 587 * cGV + 255 * 1402 * 299 * 65536).natAbs ≤ 224000 * 587 ∧
    2 * (224000 * 587 * cGU + 255 * 1772 * 114 * 65536).natAbs ≤ 224000 * 587 ∧
    2 * (224000 * cBU - 255 * 1772 * 65536).natAbs ≤ 224000 := by decide

/-- The kernel's lane result equals the 16.16 fixed-point BT.601 pixel for every colour; in particular
no i32 intermediate wraps. -/
theorem kernel_eq_spec (y cb cr : Int) (hy : U8 y) (hb : U8 cb) (hr : U8 cr) :
    lane y cb cr = pixel y cb cr :=
  Lemmas.Yuv.lane_eq_spec y cb cr hy hb hr

/-- alpha is always 255 -/
theorem alpha_255 (y cb cr : Int) : (lane y cb cr).2.2.2 = 255 := by
  simp only [lane]; exact Lemmas.Yuv.consts.2.2.2.2.2.2.2.2.2.2.2.2.2.1

/-- Before clamping, each fixed-point channel is within 1 of the real-valued BT.601 value
(|raw * den - num| < den, where the real value is num/den). -/
theorem within_one_of_real (y cb cr : Int) (hy : U8 y) (hb : U8 cb) (hr : U8 cr) :
    (rawR y cr * denRB - realRNum y cr).natAbs < denRB ∧
    (rawG y cb cr * denG - realGNum y cb cr).natAbs < denG ∧
    (rawB y cb * denRB - realBNum y cb).natAbs < denRB :=
  Lemmas.Yuv.within_one y cb cr hy hb hr

/-- Clamping to 0..255 never increases the distance to the (clamped) real value: if `|raw*den - num| < den`
then `|clamp raw * den - clampReal| < den` where clampReal is num clamped to `[0, 255*den]`. -/
theorem within_one_after_clamp (raw num den : Int) (hd : 0 < den) (h : (raw * den - num).natAbs < den) :
    (clamp255 raw * den - (if num < 0 then 0 else if 255 * den < num then 255 * den else num)).natAbs < den :=
  Lemmas.Yuv.clamp_lipschitz raw num den hd h

/-- Monotonicity of every channel in every component it depends on. -/
theorem mono_R_y (y y' cr : Int) (h : y ≤ y') : clamp255 (rawR y cr) ≤ clamp255 (rawR y' cr) :=
  Lemmas.Yuv.mono_R_y y y' cr h
theorem mono_R_cr (y cr cr' : Int) (h : cr ≤ cr') : clamp255 (rawR y cr) ≤ clamp255 (rawR y cr') :=
  Lemmas.Yuv.mono_R_cr y cr cr' h
theorem mono_B_y (y y' cb : Int) (h : y ≤ y') : clamp255 (rawB y cb) ≤ clamp255 (rawB y' cb) :=
  Lemmas.Yuv.mono_B_y y y' cb h
theorem mono_B_cb (y cb cb' : Int) (h : cb ≤ cb') : clamp255 (rawB y cb) ≤ clamp255 (rawB y cb') :=
  Lemmas.Yuv.mono_B_cb y cb cb' h
theorem mono_G_y (y y' cb cr : Int) (h : y ≤ y') : clamp255 (rawG y cb cr) ≤ clamp255 (rawG y' cb cr) :=
  Lemmas.Yuv.mono_G_y y y' cb cr h
theorem antitone_G_cb (y cb cb' cr : Int) (h : cb ≤ cb') : clamp255 (rawG y cb' cr) ≤ clamp255 (rawG y cb cr) :=
  Lemmas.Yuv.antitone_G_cb y cb cb' cr h
theorem antitone_G_cr (y cb cr cr' : Int) (h : cr ≤ cr') : clamp255 (rawG y cb cr') ≤ clamp255 (rawG y cb cr) :=
  Lemmas.Yuv.antitone_G_cr y cb cr cr' h

/-- Lane structure of the 4-pixel kernel: output byte `4*i + k` (i < 4, k < 4) is channel `k` of the
specification pixel of luma sample `i` with chroma samples `i/2`. -/
theorem lanes (y4 cb2 cr2 : List Nat) (hy : y4.length = 4) (hb : cb2.length = 2) (hr : cr2.length = 2)
    (hy8 : ∀ v ∈ y4, v < 256) (hb8 : ∀ v ∈ cb2, v < 256) (hr8 : ∀ v ∈ cr2, v < 256)
    (i k : Nat) (hi : i < 4) (hk : k < 4) :
    kernelByte y4 cb2 cr2 (4 * i + k) =
      some (Lemmas.Yuv.chan (pixel (y4.getD i 0) (cb2.getD (i / 2) 0) (cr2.getD (i / 2) 0)) k).toNat :=
  Lemmas.Yuv.kernelByte_spec y4 cb2 cr2 hy hb hr hy8 hb8 hr8 i k hi hk

/-- non-vacuity / anchor values from the H.263 Recommendation: studio black, white, and a saturated colour -/
example : pixel 16 128 128 = (0, 0, 0, 255) ∧ pixel 235 128 128 = (255, 255, 255, 255) ∧
    pixel 41 240 110 = (0, 0, 255, 255) := by decide

end H263V.Thm.C07
