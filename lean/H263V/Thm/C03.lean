/-
C03 — predicted pictures equal motion-compensated reference plus residual.  Property theorems only.

Picture level (Sorenson Spark streams): `predicted_picture_round_trip` — the decoder commits exactly the bit-free semantics of
the picture description: per macroblock the vector predicted from the stored neighbour vectors (zero for intra and not-coded
neighbours, `non_inter_stores_zero_vector`) plus the differential, the residual blocks dequantised and placed, then motion
compensation *from the decoder's reference picture* (`s.getRef`) and the inverse transforms on top of it.  The sample-level and
vector-level rules inside those steps are the theorems below and C12.  Standard-H.263 headers, truncated pictures (missing
macroblocks = not coded) and extended vector ranges are carried by the correspondence runs.
-/
import H263V.Model.State
import H263V.Spec.Recon
import H263V.Lemmas.VlcTables
import H263V.Thm.C12
import H263V.Lemmas.SorensonPicture
import H263V.Lemmas.GatherSpec
import H263V.Lemmas.StreamAny
import H263V.Lemmas.ReconSpec
import H263V.Lemmas.LevelArrays
import H263V.Lemmas.SampleErr
import H263V.Lemmas.Truncated
import H263V.Lemmas.TruncatedAny
import H263V.Lemmas.InterEnd
import H263V.Thm.C02
namespace H263V.Thm.C03
open H263V H263V.Gather H263V.Mv H263V.Spec.Vlc

/-- Table 8 (MCBPC for P pictures) incl. stuffing against the regenerated tree. -/
theorem mcbpc_p_table_agrees :
    Lemmas.VlcTables.agrees Gen.MCBPC_P mcbpcPTable (fun s => BPE.valid s.1 s.2.1 s.2.2) = true ∧
    vlcWalk Gen.MCBPC_P 0 mcbpcStuffing 0 = .ok (BPE.stuffing, [], 9) :=
  Lemmas.VlcTables.mcbpcP_agrees

/-- Half-sample interpolation rounds upward: (a + b + 1) / 2; a whole-sample position copies. -/
theorem lerp_spec (a b : Nat) : lerp a b true = (a + b + 1) / 2 ∧ lerp a b false = a := by
  simp [lerp]

/-- A reference coordinate outside the picture takes the nearest edge sample. -/
theorem read_sample_clamps (px : Array Nat) (spr rows : Nat) (hs : 1 ≤ spr) (hr : 1 ≤ rows) (hsz : px.size = spr * rows)
    (x y : Int) :
    ∃ cx cy : Nat, cx < spr ∧ cy < rows ∧
      (cx : Int) = max 0 (min ((spr : Int) - 1) x) ∧ (cy : Int) = max 0 (min ((rows : Int) - 1) y) ∧
      readSample px spr rows x y = .ok (px.getD (cx + cy * spr) 0) := by
  unfold readSample
  simp only
  have hs' : ((spr - 1 : Nat) : Int) = (spr : Int) - 1 := by omega
  have hr' : ((rows - 1 : Nat) : Int) = (rows : Int) - 1 := by omega
  rw [hs', hr']
  let cx : Int := if x < 0 then 0 else if x > (spr : Int) - 1 then (spr : Int) - 1 else x
  let cy : Int := if y < 0 then 0 else if y > (rows : Int) - 1 then (rows : Int) - 1 else y
  have hcx : 0 ≤ cx ∧ cx < spr := by
    show 0 ≤ (if x < 0 then (0 : Int) else if x > (spr : Int) - 1 then (spr : Int) - 1 else x) ∧
      (if x < 0 then (0 : Int) else if x > (spr : Int) - 1 then (spr : Int) - 1 else x) < spr
    repeat' split
    all_goals omega
  have hcy : 0 ≤ cy ∧ cy < rows := by
    show 0 ≤ (if y < 0 then (0 : Int) else if y > (rows : Int) - 1 then (rows : Int) - 1 else y) ∧
      (if y < 0 then (0 : Int) else if y > (rows : Int) - 1 then (rows : Int) - 1 else y) < rows
    repeat' split
    all_goals omega
  refine ⟨cx.toNat, cy.toNat, by omega, by omega, ?_, ?_, ?_⟩
  · show ((if x < 0 then (0 : Int) else if x > (spr : Int) - 1 then (spr : Int) - 1 else x).toNat : Int) = _
    simp only [Int.max_def, Int.min_def]
    repeat' split
    all_goals omega
  · show ((if y < 0 then (0 : Int) else if y > (rows : Int) - 1 then (rows : Int) - 1 else y).toNat : Int) = _
    simp only [Int.max_def, Int.min_def]
    repeat' split
    all_goals omega
  · have hlt : cx.toNat + cy.toNat * spr < px.size := by
      rw [hsz]
      have h1 : cy.toNat + 1 ≤ rows := by omega
      have h2 : (cy.toNat + 1) * spr ≤ rows * spr := Nat.mul_le_mul_right spr h1
      rw [Nat.add_mul, Nat.one_mul] at h2
      rw [Nat.mul_comm spr rows]
      omega
    show (match px[cx.toNat + cy.toNat * spr]? with | some v => Out.ok v | none => _) = _
    rw [Array.getElem?_eq_getElem hlt]
    simp [Array.getD, hlt]

/-- Vector reconstruction, chroma vector and candidate predictors: see C12. -/
theorem luma_vector_wrap (hdr : PicHdr) (dims : Option (Nat × Nat)) (running : Nat)
    (hu : Opt.has running Opt.UNRESTRICTED_MOTION_VECTORS = false) (p d : Int)
    (hp : -32 ≤ p ∧ p < 32) (hd : -32 ≤ d ∧ d < 32) (isX : Bool) :
    halfpelDecode hdr dims running p d isX = Spec.Recon.wrapVector p d :=
  Thm.C12.wrap_spec hdr dims running hu p d hp hd isX

theorem chroma_vector (s : Int) : averageSum s = Spec.Recon.chromaVector s := Thm.C12.chroma_round_spec s

/-- A picture that needs prediction when no reference exists is rejected. -/
theorem no_reference_rejected (types : Array MbType) (mvs : Array Mv4) (mbPerLine : Nat) (pic : DecPic)
    (h : 0 < min types.size mvs.size) (h0 : (types.getD 0 .inter).isInter = true) :
    gather types none mvs mbPerLine pic = .err .uncodedIFrame := by
  unfold gather
  obtain ⟨n, hn⟩ : ∃ n, min types.size mvs.size = n + 1 := ⟨min types.size mvs.size - 1, by omega⟩
  rw [hn, List.range_succ_eq_map, List.foldlM_cons]
  have h0' : (types[0]?.getD MbType.inter).isInter = true := by simpa [Array.getD_eq_getD_getElem?] using h0
  simp [h0']


open H263V.State H263V.Lemmas.SorensonPicture H263V.Lemmas.PictureRoundTrip in
/-- **Predicted pictures.**  For a valid P or disposable-P picture description: the decoder commits the picture the bit-free
semantics computes from the description and the decoder's current reference picture, and consumes exactly the picture's bits. -/
theorem predicted_picture_round_trip (s : State) (hs : s.opts.sorenson = true) (hr : s.running = 0) (p : SPic) (w h : Nat)
    (hv : p.Valid s.opts w h) (_hp : p.hdr.picType = 1 ∨ p.hdr.picType = 2) (rest : Bits) (pos : Nat) :
    decodeNextPicture s ⟨p.bits ++ rest, pos⟩ =
      semCore s (Spec.HeaderSpec.sorensonPicture p.hdr) p.mbs >>= fun r => .ok (commitPic s r.1 r.2, ⟨rest, pos + p.bits.length⟩) :=
  decode_spic s hs hr p w h hv rest pos

open H263V.State H263V.Lemmas.StreamAny H263V.Lemmas.PictureRoundTrip in
/-- The same for every header flavour (`Pic`: Sorenson, baseline PTYPE, PLUSPTYPE in either UFEP form): a valid P picture —
or I picture — decodes to the bit-free semantics applied to the decoder's current reference. -/
theorem predicted_picture_round_trip_any (s : State) (hr : s.running = 0) (p : Pic) (w h : Nat) (hv : p.Valid s w h)
    (rest : Bits) (pos : Nat) :
    decodeNextPicture s ⟨p.bits s ++ rest, pos⟩ =
      semCore s (p.picture s) p.mbs >>= fun r => .ok (commitPic s r.1 r.2, ⟨rest, pos + (p.bits s).length⟩) :=
  decode_pic s hr p w h hv rest pos

open H263V.State H263V.Lemmas.PictureRoundTrip H263V.Spec.Syntax in
/-- Not-coded macroblocks and intra macroblocks store zero vectors, so they contribute zero candidates to their neighbours'
predictors (the loop invariant behind C12's candidate rule). -/
theorem non_inter_stores_zero_vector (hdr : PicHdr) (dims : Option (Nat × Nat)) (running w : Nat) (l l' : Loop) (m : MbD)
    (hm : match m.kind with | .notCoded => True | .coded t _ _ _ _ => t.isInter = false)
    (h : semMb hdr dims running w l m = .ok l') : l'.mvs = l.mvs.push zeroMv4 := by
  unfold semMb at h
  cases hk : m.kind with
  | notCoded =>
    rw [hk] at h
    simp only at h
    split at h
    · simp at h
    · simp only [Out.ok.injEq] at h; rw [← h]
  | coded t dq mvd mvd234 blocks =>
    rw [hk] at h hm
    simp only at h hm
    unfold codedMbSem at h
    simp only [hm, Bool.false_eq_true, ↓reduceIte, bind, Out.bind] at h
    repeat' split at h
    all_goals (try (simp at h; done))
    all_goals
      simp only [pure, Out.ok.injEq] at *
      subst_vars
      rfl


open H263V.State H263V.Lemmas.GatherPic H263V.Lemmas.ReconSpec in
/-- **Every sample of a predicted picture** = motion-compensated prediction + residual.  With a reference `r` of the picture's
dimensions, whenever the reconstruction step returns: planes keep their sizes, and sample `k` of the luma plane is
`clamp 0..255 (residual of the covering 8x8 block + P)` where `P` is, for a sample inside an INTER macroblock, the half-sample
interpolation (`predSample`: upward rounding, edge-extended reference) of `r` at the sample's position displaced by the vector of
the 8x8 block containing it (`mvSel`: the macroblock's vector, or the block's own one of four), and the plane's initial value (0)
inside INTRA macroblocks; likewise both chroma planes with the vector `mvChroma` = the four luma vectors summed and rounded by the
sixteenth-position table.  Not-coded macroblocks are INTER macroblocks with zero vectors and `Zero` residual blocks: exact copies. -/
theorem predicted_picture_samples (types : Array MbType) (r : DecPic) (mvs : Array Mv4) (m w hh : Nat) (pic out : DecPic)
    (lumaLv cbLv crLv : Array Rle.Dct)
    (hdims : r.fmt.dims = some (w, hh)) (hw : 1 ≤ w) (hc : 1 ≤ r.chromaSpr) (hcs : pic.chromaSpr = r.chromaSpr) (hm : m ≠ 0)
    (hl : pic.luma.size = r.luma.size) (hb : pic.cb.size = r.cb.size) (hr : pic.cr.size = r.cr.size)
    (h : reconstruct types (some r) mvs m w pic lumaLv cbLv crLv = .ok out) :
    (out.luma.size = r.luma.size ∧ ∀ k, out.luma.getD k 0 =
      idctVal lumaLv (m * 2) w r.luma.size k (lumaAt types r mvs m w pic.luma k)) ∧
    (out.cb.size = r.cb.size ∧ ∀ k, out.cb.getD k 0 =
      idctVal cbLv m r.chromaSpr r.cb.size k (chromaAt types r.cb r.chromaSpr mvs m pic.cb k)) ∧
    (out.cr.size = r.cr.size ∧ ∀ k, out.cr.getD k 0 =
      idctVal crLv m r.chromaSpr r.cr.size k (chromaAt types r.cr r.chromaSpr mvs m pic.cr k)) :=
  reconstruct_pointwise types r mvs m w hh pic out lumaLv cbLv crLv hdims hw hc hcs hm hl hb hr h

open H263V.State H263V.Lemmas.LevelArrays H263V.Lemmas.PictureRoundTrip in
/-- **The vectors the macroblock loop files.**  For any macroblock list run through the (bit-free) loop from any loop state, the
vector array grows by one entry per macroblock, `MvChain`: entry `i` is `mbVec` of macroblock `i` over the entries filed before it
— zero vectors for not-coded and INTRA macroblocks; for INTER macroblocks the candidate-median predictor (`predict_candidate`
over the filed vectors; for four-vector macroblocks also over this macroblock's vectors decoded so far) plus the coded
differential, wrapped into the vector range (`mv_decode`) — C12 states what those two functions compute. -/
theorem vector_array (hdr : PicHdr) (dims : Option (Nat × Nat)) (running m : Nat) (mbs : List Spec.Syntax.MbD) (l l' : Loop)
    (h : semMbs hdr dims running m mbs l = .ok l') :
    ∃ vs, MvChain hdr dims running m l.mvs mbs vs ∧ l'.mvs = l.mvs ++ vs.toArray :=
  semMbs_vectors hdr dims running m mbs l l' h

open H263V.State H263V.Lemmas.GatherPic H263V.Lemmas.SampleErr in
/-- **The statement of C03, sample by sample**: every sample of a predicted picture is within one of
`clip 0..255 (motion-compensated prediction + reference inverse transform of the covering block's dequantised levels)`. -/
theorem predicted_samples_within_one_of_ideal (types : Array MbType) (r : DecPic) (mvs : Array Mv4) (m w hh : Nat) (pic out : DecPic)
    (lumaLv cbLv crLv : Array Rle.Dct)
    (hdims : r.fmt.dims = some (w, hh)) (hw : 1 ≤ w) (hc : 1 ≤ r.chromaSpr) (hcs : pic.chromaSpr = r.chromaSpr) (hm : m ≠ 0)
    (hls : pic.luma.size = r.luma.size) (hbs : pic.cb.size = r.cb.size) (hrs : pic.cr.size = r.cr.size)
    (hl : AllBounded lumaLv) (hb : AllBounded cbLv) (hr : AllBounded crLv)
    (h : reconstruct types (some r) mvs m w pic lumaLv cbLv crLv = .ok out) :
    (∀ k, ((out.luma.getD k 0 : Int) -
      (idealVal lumaLv (m * 2) w r.luma.size k (lumaAt types r mvs m w pic.luma k) : Int)).natAbs ≤ 1) ∧
    (∀ k, ((out.cb.getD k 0 : Int) -
      (idealVal cbLv m r.chromaSpr r.cb.size k (chromaAt types r.cb r.chromaSpr mvs m pic.cb k) : Int)).natAbs ≤ 1) ∧
    (∀ k, ((out.cr.getD k 0 : Int) -
      (idealVal crLv m r.chromaSpr r.cr.size k (chromaAt types r.cr r.chromaSpr mvs m pic.cr k) : Int)).natAbs ≤ 1) :=
  predicted_close types r mvs m w hh pic out lumaLv cbLv crLv hdims hw hc hcs hm hls hbs hrs hl hb hr h

open H263V.State H263V.Lemmas.SorensonPicture H263V.Lemmas.PictureRoundTrip H263V.Lemmas.Truncated in
/-- **Early end of data.**  A Sorenson picture of which only the first macroblocks are present — any number up to the picture's —
followed by at most seven zero padding bits and the end of the data: the call behaves as the bit-free semantics of the SHORT
macroblock list (`semCore` completes the arrays with not-coded macroblocks: INTER, zero vectors, no coefficients), commits its
picture and leaves the reader at the padding.  By `not_coded_macroblocks_are_copies` those macroblocks are exact copies of the
co-located reference macroblocks.  (The general form, for any header flavour and any tail that reads as end of data, is
`Lemmas.Truncated.decodeCore_encode_le`.) -/
theorem truncated_picture_round_trip (s : State) (hs : s.opts.sorenson = true) (hr : s.running = 0) (p : SPic) (w h : Nat)
    (hhdr : Lemmas.SorensonRoundTrip.Valid p.hdr) (hpt : p.hdr.picType ≤ 2)
    (hd : (Spec.HeaderSpec.sorensonFmt p.hdr).dims = some (w, h))
    (hcount : p.mbs.length ≤ (w + 15) / 16 * ((h + 15) / 16))
    (hmbs : ∀ m ∈ p.mbs, MbOK s.opts (Spec.HeaderSpec.sorensonPicture p.hdr) (p.hdr.picType == 0) m)
    (k : Nat) (hk : k ≤ 7) (pos : Nat) :
    decodeNextPicture s ⟨p.bits ++ zeros k, pos⟩ =
      semCore s (Spec.HeaderSpec.sorensonPicture p.hdr) p.mbs >>= fun r =>
        .ok (commitPic s r.1 r.2, ⟨zeros k, pos + p.bits.length⟩) :=
  decode_spic_truncated s hs hr p w h hhdr hpt hd hcount hmbs k hk pos

open H263V.State H263V.Lemmas.StreamAny H263V.Lemmas.PictureRoundTrip H263V.Lemmas.SorensonPicture H263V.Lemmas.TruncatedAny in
/-- **Early end of data, every header flavour**: a valid picture (Sorenson, baseline PTYPE or PLUSPTYPE) cut after ANY number `n` of
its macroblocks (`cut n p`), followed by at most seven zero padding bits and the end of the data, decodes to the bit-free semantics
of the macroblocks that are there — the rest of the picture are not-coded macroblocks, i.e. copies of the reference. -/
theorem truncated_picture_round_trip_any (s : State) (hr : s.running = 0) (p : Pic) (w h : Nat) (hv : p.Valid s w h) (n k : Nat)
    (hk : k ≤ 7) (pos : Nat) :
    decodeNextPicture s ⟨(cut n p).bits s ++ zeros k, pos⟩ =
      semCore s (p.picture s) (p.mbs.take n) >>= fun r =>
        .ok (commitPic s r.1 r.2, ⟨zeros k, pos + ((cut n p).bits s).length⟩) :=
  decode_pic_truncated s hr p w h hv n k hk pos

open H263V.Lemmas.GatherPic H263V.Lemmas.ReconSpec in
/-- **Not-coded macroblocks are exact copies** of the co-located reference macroblock: an INTER macroblock with zero vectors whose
block slot holds no coefficients (COD = 1, and every macroblock after an early end of data) reproduces the reference sample. -/
theorem not_coded_macroblocks_are_copies (types : Array MbType) (r : DecPic) (mvs : Array Mv4) (m w : Nat) (hw : 1 ≤ w)
    (orig : Array Nat) (lumaLv : Array Rle.Dct) (k : Nat) (h1 : k / w < r.luma.size / w) (h2 : k % w / 16 < m)
    (hi : k % w / 16 + k / w / 16 * m < min types.size mvs.size)
    (ht : (types.getD (k % w / 16 + k / w / 16 * m) .inter).isInter = true)
    (hmv : mvs.getD (k % w / 16 + k / w / 16 * m) zeroMv4 = zeroMv4)
    (hlv : ∀ d, lumaLv[k % w / 8 + k / w / 8 * (m * 2)]? = some d → d = .zero) :
    idctVal lumaLv (m * 2) w r.luma.size k (lumaAt types r mvs m w orig k) = r.luma.getD k 0 :=
  not_coded_copies types r mvs m w hw orig lumaLv k h1 h2 hi ht hmv hlv

open H263V.Lemmas.GatherPic H263V.Lemmas.ReconSpec in
/-- a zero vector predicts the co-located reference sample (not-coded macroblocks, which also carry no residual, are exact copies
of the co-located reference macroblock) -/
theorem zero_vector_copies (px : Array Nat) (spr : Nat) (hs : 1 ≤ spr) (k : Nat) (hk : k / spr < px.size / spr) :
    predSample px spr (0, 0) k = px.getD k 0 :=
  predSample_zero px spr hs k hk

open H263V.Lemmas.GatherSpec in
/-- **Block level, all paths.**  For every reference plane, every row length ≥ 1, every block position (incl. blocks cropped by
the right or bottom border and blocks entirely outside), every vector (whole, half in x, half in y, half in both; pointing any
distance outside any edge) and every target plane of the same size, `gather_block` succeeds and writes, inside the block, exactly
the prediction `predAt`: the clamped reference sample for whole vectors, `(a + b + 1) / 2` for one half component,
`(a + b + c + d + 2) / 4` for two — every other target sample is untouched.  The slice-copy fast path equals the generic path. -/
theorem gather_block_eq_spec (px : Array Nat) (spr : Nat) (hs : 1 ≤ spr) (pos : Nat × Nat) (mv : Mb.Mv) (target : Array Nat)
    (hsz : target.size = px.size) :
    ∃ t', gatherBlock px spr pos mv target = .ok t' ∧ t'.size = px.size ∧
      ∀ k, t'.getD k 0 =
        if pos.2 ≤ k / spr ∧ k / spr < pos.2 + min 8 (px.size / spr - pos.2) ∧ pos.1 ≤ k % spr ∧ k % spr < pos.1 + min 8 (spr - pos.1) then
          predAt px spr (px.size / spr) ((k % spr : Nat) + (lerpParams mv.1).1) ((k / spr : Nat) + (lerpParams mv.2).1)
            (lerpParams mv.1).2 (lerpParams mv.2).2
        else target.getD k 0 :=
  gatherBlock_spec px spr hs pos mv target hsz

open H263V.Lemmas.GatherSpec in
/-- the prediction formula spelled out for the four kinds of vector -/
theorem predAt_cases (px : Array Nat) (spr rows : Nat) (x y : Int) :
    predAt px spr rows x y false false = refAt px spr rows x y ∧
    predAt px spr rows x y true false = (refAt px spr rows x y + refAt px spr rows (x + 1) y + 1) / 2 ∧
    predAt px spr rows x y false true = (refAt px spr rows x y + refAt px spr rows x (y + 1) + 1) / 2 ∧
    predAt px spr rows x y true true =
      (refAt px spr rows x y + refAt px spr rows (x + 1) y + refAt px spr rows x (y + 1) + refAt px spr rows (x + 1) (y + 1) + 2) / 4 := by
  simp [predAt, lerp]

/-- the whole / half split of a vector component: `v` half samples = `⌊v/2⌋` whole samples plus a half iff `v` is odd -/
theorem lerp_params_floor (v : Int) : (lerpParams v).1 = v / 2 ∧ ((lerpParams v).2 = true ↔ v % 2 = 1) := by
  unfold lerpParams tmod2 tdiv2
  repeat' split
  all_goals (constructor <;> simp <;> omega)

open H263V.State H263V.Lemmas.StreamAny H263V.Lemmas.LevelArrays H263V.Lemmas.SampleErr H263V.Lemmas.PlaneInv
  H263V.Lemmas.GatherPic in
/-- **C03 in one statement.**  In every decoder state a history can reach (`StoreOK`, carried-over options empty), with a
reference picture `r` of the picture's dimensions, a valid predicted picture (P or disposable) of ANY header flavour, followed by
anything:
* **decodes successfully** and leaves the reader exactly behind the picture's bits;
* the decoded picture reports the header; its planes have exactly the signalled sizes;
* the type array is `typeOf` of the description's macroblocks (INTER for not-coded ones), the vector array is `MvChain` — median
  predictor over the vectors filed so far plus the coded differential, wrapped (C12); zero for INTRA and not-coded macroblocks —
  and the level arrays hold the description's blocks, dequantised with the quantizer in force (`QChain`; C11);
* **every sample is within one of clip 0..255 (prediction + reference inverse transform of the covering block)**, the prediction
  (`lumaAt` / `chromaAt`) being, in INTER macroblocks, the half-sample bilinear interpolation of `r` at the macroblock's vector
  (chroma: the sum of the four luma vectors through the sixteenth-position table) with coordinates clamped to the picture
  (`predicted_picture_samples`, `gather_block_eq_spec`), and 0 in INTRA macroblocks; a not-coded macroblock (zero vector, no
  levels) is therefore an exact copy (`not_coded_macroblocks_are_copies`).
Without a reference the picture is rejected (`no_reference_rejected`). -/
theorem predicted_picture_decodes_within_one (s : State) (hs : StoreOK s) (hr : s.running = 0) (p : Pic) (w h : Nat)
    (hv : p.Valid s w h) (hw : 1 ≤ w) (hh : 1 ≤ h) (hi : (p.picture s).picType ≠ .iFrame) (r : DecPic)
    (href : s.getRef = some r) (hrd : r.fmt.dims = some (w, h)) (rest : Bits) (pos : Nat) :
    ∃ (pic : DecPic) (lumaLv cbLv crLv : Array Rle.Dct) (qs : List Nat) (vs : List Mv4),
      decodeNextPicture s ⟨p.bits s ++ rest, pos⟩ =
        .ok (commitPic s (p.picture s) pic, ⟨rest, pos + (p.bits s).length⟩) ∧
      pic.hdr = p.picture s ∧ QChain (p.picture s).quantizer p.mbs qs ∧
      MvChain (p.picture s) (some (w, h)) (nextRunning (p.picture s) s.running) ((w + 15) / 16) #[] p.mbs vs ∧
      (∀ id, lumaLv.getD id .zero = lumaLvAt ((w + 15) / 16) 0 p.mbs qs .zero id) ∧
      (∀ id, cbLv.getD id .zero = chromaLvAt 0 p.mbs qs 4 .zero id) ∧
      (∀ id, crLv.getD id .zero = chromaLvAt 0 p.mbs qs 5 .zero id) ∧
      pic.luma.size = w * h ∧ pic.cb.size = (w + 1) / 2 * ((h + 1) / 2) ∧ pic.cr.size = (w + 1) / 2 * ((h + 1) / 2) ∧
      (∀ k, ((pic.luma.getD k 0 : Int) - (idealVal lumaLv ((w + 15) / 16 * 2) w (w * h) k
        (lumaAt (p.mbs.map typeOf).toArray r vs.toArray ((w + 15) / 16) w (Array.replicate (w * h) 0) k) : Int)).natAbs ≤ 1) ∧
      (∀ k, ((pic.cb.getD k 0 : Int) - (idealVal cbLv ((w + 15) / 16) ((w + 1) / 2) ((w + 1) / 2 * ((h + 1) / 2)) k
        (chromaAt (p.mbs.map typeOf).toArray r.cb ((w + 1) / 2) vs.toArray ((w + 15) / 16)
          (Array.replicate ((w + 1) / 2 * ((h + 1) / 2)) 0) k) : Int)).natAbs ≤ 1) ∧
      (∀ k, ((pic.cr.getD k 0 : Int) - (idealVal crLv ((w + 15) / 16) ((w + 1) / 2) ((w + 1) / 2 * ((h + 1) / 2)) k
        (chromaAt (p.mbs.map typeOf).toArray r.cr ((w + 1) / 2) vs.toArray ((w + 15) / 16)
          (Array.replicate ((w + 1) / 2 * ((h + 1) / 2)) 0) k) : Int)).natAbs ≤ 1) :=
  Lemmas.InterEnd.predicted_picture_decodes s hs hr p w h hv hw hh hi r href hrd rest pos

/-- a 16x16 predicted picture of one INTER macroblock: vector differential (1, −2) half samples, two coded blocks -/
def exPPic : Lemmas.SorensonPicture.SPic :=
  ⟨{ version := 1, tr := 8, sizeCode := 0, customW := 16, customH := 16, picType := 1, deblock := false, quant := 9, extra := [] },
    [⟨0, .coded .inter 0 (1, -2) ((0, 0), (0, 0), (0, 0))
      [{ dc := none, events := [⟨0, 3, .short⟩, ⟨2, -50, .esc7⟩] }, { dc := none }, { dc := none }, { dc := none },
       { dc := none, events := [⟨63, -1, .esc7⟩] }, { dc := none }]⟩]⟩

/-- a decoder state holding one 16x16 reference picture -/
def exState : State.State :=
  { opts := { sorenson := true, scalability := false }, last := some 7, ref := some 7, running := 0,
    store := [(7, Lemmas.InterEnd.freshPic (Spec.HeaderSpec.sorensonPicture C02.exSPic.hdr) (Spec.HeaderSpec.sorensonFmt C02.exSPic.hdr) 16 16)] }

open H263V.Lemmas.SorensonPicture H263V.Lemmas.PictureRoundTrip H263V.Lemmas.RoundTrip H263V.Spec.Syntax in
theorem exPPic_valid : exPPic.Valid { sorenson := true, scalability := false } 16 16 := by
  unfold exPPic
  refine ⟨⟨by decide, by decide, by decide, by decide, by decide, by decide, by decide, by decide⟩, by decide, rfl, rfl, ?_⟩
  intro m hm
  simp only [List.mem_singleton] at hm
  subst hm
  refine ⟨by decide, fun h => by simp [MbType.hasQuantizer] at h, fun _ => by unfold MvdVal; omega,
    fun h => by simp [MbType.hasFourVec] at h, ?_⟩
  intro i hi
  have : i = 0 ∨ i = 1 ∨ i = 2 ∨ i = 3 ∨ i = 4 ∨ i = 5 := by omega
  rcases this with e | e | e | e | e | e <;> subst e <;>
    refine ⟨rfl, ?_⟩ <;>
    simp only [blk, List.getD_cons_zero, List.getD_cons_succ, EventsOK, EventOK, v1] <;> decide

open H263V.State H263V.Lemmas.StreamAny H263V.Lemmas.PlaneInv in
/-- non-vacuity: `exState` and `exPPic` meet the hypotheses, so that predicted picture decodes successfully -/
example (rest : Bits) : ∃ pic, decodeNextPicture exState ⟨(Pic.sor exPPic).bits exState ++ rest, 0⟩ =
    .ok (commitPic exState ((Pic.sor exPPic).picture exState) pic, ⟨rest, 0 + ((Pic.sor exPPic).bits exState).length⟩) ∧
    pic.luma.size = 16 * 16 := by
  have hst : StoreOK exState := by
    intro k p hp
    unfold exState lookup at hp
    simp only [List.find?_cons, List.find?_nil] at hp
    split at hp
    · simp only [Option.map_some, Option.some.injEq] at hp
      subst hp
      refine ⟨16, 16, by omega, by omega, rfl, ⟨by simp [Lemmas.InterEnd.freshPic], ?_⟩, ⟨by simp [Lemmas.InterEnd.freshPic], ?_⟩,
        ⟨by simp [Lemmas.InterEnd.freshPic], ?_⟩, rfl⟩ <;>
      · intro i hi; simp [Lemmas.InterEnd.freshPic]
    · simp at hp
  obtain ⟨pic, _, _, _, _, _, h, _, _, _, _, _, _, hz, _⟩ :=
    predicted_picture_decodes_within_one exState hst rfl (Pic.sor exPPic) 16 16 ⟨rfl, exPPic_valid⟩ (by omega) (by omega)
      (by decide) _ rfl rfl rest 0
  exact ⟨pic, h, hz⟩

open H263V.State H263V.Lemmas.StreamAny H263V.Lemmas.LevelArrays H263V.Lemmas.PlaneInv in
/-- **Rejected without a reference, end to end**: in a reachable state without a reference picture, a valid predicted picture of
any flavour in which at least one macroblock needs prediction (INTER of any kind, or not coded: `typeOf` is an INTER type) is
rejected with the error value; by C05 the decoder and the reader are then as before the call.  (A predicted picture made of INTRA
macroblocks only needs no prediction and decodes.) -/
theorem predicted_picture_without_reference_rejected (s : State) (hs : StoreOK s) (hr : s.running = 0) (p : Pic) (w h : Nat)
    (hv : p.Valid s w h) (hw : 1 ≤ w) (hh : 1 ≤ h) (hi : (p.picture s).picType ≠ .iFrame) (href : s.getRef = none)
    (i : Nat) (hil : i < p.mbs.length) (hinter : (typeOf (p.mbs.getD i default)).isInter = true) (rest : Bits) (pos : Nat) :
    decodeNextPicture s ⟨p.bits s ++ rest, pos⟩ = .err .uncodedIFrame :=
  Lemmas.InterEnd.predicted_without_reference_rejected s hs hr p w h hv hw hh hi href i hil hinter rest pos

open H263V.State H263V.Lemmas.StreamAny in
/-- non-vacuity: a fresh decoder rejects `exPPic` -/
example (rest : Bits) : decodeNextPicture (State.new { sorenson := true, scalability := false })
    ⟨(Pic.sor exPPic).bits (State.new { sorenson := true, scalability := false }) ++ rest, 0⟩ = .err .uncodedIFrame :=
  predicted_picture_without_reference_rejected _ (Lemmas.PlaneInv.new_storeOK _) rfl (Pic.sor exPPic) 16 16 ⟨rfl, exPPic_valid⟩
    (by omega) (by omega) (by decide) rfl 0 (by decide) (by decide) rest 0

end H263V.Thm.C03
