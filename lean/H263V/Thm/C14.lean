/-
C14 — the bit reader delivers each bit once, in order, under any mix of operations.  Property theorems only.

Two layers.  `Reader.Rd` models the concrete reader (source, retained buffer, bits_read).  `Cur` is the
specification machine (the remaining bits as a list).  The operation-script interpreters over both are in
Model/Script.lean and are run against the real reader on every check.
The refinement is proved operation by operation (peek, read, signed peek / read, skip, VLC read, start-code search, rollback,
commit) and lifted to whole scripts of any length with transactions, unions and look-aheads nested to any depth
(`script_refines`).  One documented misuse is excluded: a `commit` inside an open transaction invalidates the checkpoint; at that
point the real code is run by the correspondence check and the observed behaviour recorded in the evidence.
-/
import H263V.Model.Reader
import H263V.Lemmas.ReaderLemmas
import H263V.Lemmas.ParseLemmas
import H263V.Lemmas.PeekLoop
import H263V.Lemmas.ScriptRefine
namespace H263V.Thm.C14
open H263V H263V.Lemmas.ReaderLemmas

/-- `skip_bits(n)`: on success exactly the next `n` bits are consumed (each once, in order); if fewer than `n` bits remain it
reports end-of-data and consumes nothing; the reader stays well-formed and no byte is lost. -/
theorem skip_spec (n : Nat) (r : Reader.Rd) (h : r.WF) :
    ((Reader.skipBits n r).1 = .ok () ∧ (Reader.skipBits n r).2.bits = r.bits.drop n ∧ (Reader.skipBits n r).2.WF ∧
        total (Reader.skipBits n r).2 = total r) ∨
    ((Reader.skipBits n r).1 = .err .eof ∧ (Reader.skipBits n r).2.bits = r.bits ∧ (Reader.skipBits n r).2.WF ∧
        total (Reader.skipBits n r).2 = total r ∧ (Reader.skipBits n r).2.bitsRead = r.bitsRead) :=
  skipBits_spec n r h

/-- Fetching bytes on behalf of a peek or a failed read changes nothing observable: the deliverable bits are the same. -/
theorem fetch_invisible (n : Nat) (r : Reader.Rd) : (Reader.ensureBits n r).2.bits = r.bits ∧ total (Reader.ensureBits n r).2 = total r :=
  ⟨(ensureBits_bits n r).1, (ensureBits_bits n r).2.2⟩

/-- Rolling back to a checkpoint (what failed transactions, `Ok(None)` unions and look-aheads do) restores exactly the bits
of the checkpoint, whatever was read in between — every byte fetched meanwhile is retained — as long as no `commit`
intervened; it never fails. -/
theorem rollback_restores (r0 r : Reader.Rd) (h0 : r0.WF) (ht : total r = total r0) (hl : r0.buf.length ≤ r.buf.length) :
    (Reader.rollback r0.bitsRead r).1 = .ok () ∧ (Reader.rollback r0.bitsRead r).2.bits = r0.bits ∧
      (Reader.rollback r0.bitsRead r).2.WF ∧ total (Reader.rollback r0.bitsRead r).2 = total r0 :=
  Lemmas.ReaderLemmas.rollback_restores r0 r h0 ht hl

/-- `commit` discards only whole bytes that were already read: the deliverable bits, the alignment phase and
well-formedness are unchanged. -/
theorem commit_keeps_bits (r : Reader.Rd) (h : r.WF) :
    (Reader.commit r).bits = r.bits ∧ (Reader.commit r).WF ∧ (Reader.commit r).bitsRead % 8 = r.bitsRead % 8 :=
  commit_bits r h

/-- `peek_bits::<T>(n)`, concrete per-byte accumulation loop included: for every reader state, width `W ≥ 1` and `n`, it
returns exactly what the specification machine returns on the remaining bits — the MSB-first value of the next `n` bits,
end-of-data when fewer remain, an internal error when `n > W` — and it consumes nothing and loses no byte. -/
theorem peek_refines (W n : Nat) (hW : 1 ≤ W) (r : Reader.Rd) (h : r.WF) (hb : Lemmas.PeekLoop.ByteSrc r) :
    (Reader.peekBits W n r).1 = H263V.peekBits W n (Lemmas.PeekLoop.absC r) ∧
      Lemmas.PeekLoop.absC (Reader.peekBits W n r).2 = Lemmas.PeekLoop.absC r ∧
      Lemmas.PeekLoop.Step r (Reader.peekBits W n r).2 :=
  Lemmas.PeekLoop.peek_refines W n hW r h hb

/-- `read_bits::<T>(n)` delivers the next `n` bits MSB first and consumes exactly those, each once and in order; when fewer
remain it reports end-of-data and consumes nothing. -/
theorem read_refines (W n : Nat) (hW : 1 ≤ W) (r : Reader.Rd) (h : r.WF) (hb : Lemmas.PeekLoop.ByteSrc r) :
    (match H263V.readBits W n (Lemmas.PeekLoop.absC r) with
      | .ok (v, c') => (Reader.readBits W n r).1 = .ok v ∧ Lemmas.PeekLoop.absC (Reader.readBits W n r).2 = c'
      | .err e => (Reader.readBits W n r).1 = .err e ∧ Lemmas.PeekLoop.absC (Reader.readBits W n r).2 = Lemmas.PeekLoop.absC r
      | _ => False) ∧ Lemmas.PeekLoop.Step r (Reader.readBits W n r).2 :=
  Lemmas.PeekLoop.read_refines W n hW r h hb

/-- the byte-level fact under the accumulation loop, kernel-checked for all 256 bytes x 8 offsets x 9 chunk widths -/
theorem chunk_identity : ∀ b : Fin 256, ∀ off : Fin 8, ∀ t : Fin 9, off.val + t.val ≤ 8 → 1 ≤ t.val →
    ((b.val * 2 ^ off.val) % 256) / 2 ^ (8 - t.val) =
      ofBits ((Lemmas.PeekLoop.byteBits b.val).drop off.val |>.take t.val) :=
  Lemmas.PeekLoop.chunk_identity

/-- Specification machine: a start code is reported only where sixteen zero bits followed by a one actually begin, it is the
nearest one, and (outside error-resynchronisation) at most `realignment + 1 ≤ 8` bits are skipped. -/
theorem start_code_sound (inError : Bool) (m : Nat) :
    ∀ (fuel skip : Nat) (c : Cur) (k : Nat), (inError = false → skip ≤ m + 1) → rscLoop inError m fuel skip c = .ok (some k) →
      ∃ j, k = skip + j ∧ peekBits 32 17 ⟨c.bits.drop j, c.pos + j⟩ = .ok 1 ∧
        (∀ i, i < j → peekBits 32 17 ⟨c.bits.drop i, c.pos + i⟩ ≠ .ok 1) ∧ (inError = false → k ≤ m + 1) := by
  intro fuel
  induction fuel with
  | zero => intro skip c k _ h; simp [rscLoop] at h
  | succ n ih =>
    intro skip c k hsk h
    unfold rscLoop at h
    cases hp : peekBits 32 17 c with
    | ok code =>
      rw [hp] at h
      simp only at h
      by_cases hc : code = 1
      · simp only [hc, ↓reduceIte, Out.ok.injEq, Option.some.injEq] at h
        refine ⟨0, by omega, ?_, ?_, ?_⟩
        · simpa [hc] using hp
        · intro i hi; omega
        · intro he; have := hsk he; omega
      · simp only [hc, ↓reduceIte] at h
        by_cases hs : (!inError && decide (skip > m)) = true
        · simp [hs] at h
        · simp only [hs, Bool.false_eq_true, ↓reduceIte] at h
          unfold skipBits at h
          by_cases hl : c.bits.length < 1
          · simp [hl] at h
          · simp only [hl, ↓reduceIte] at h
            have hsk' : inError = false → skip + 1 ≤ m + 1 := by
              intro he
              rw [he] at hs
              simp at hs
              omega
            obtain ⟨j, hk, h1, h2, h3⟩ := ih (skip + 1) _ k hsk' h
            refine ⟨j + 1, by omega, ?_, ?_, ?_⟩
            · simpa [List.drop_drop, Nat.add_comm, Nat.add_assoc, Nat.add_left_comm] using h1
            · intro i hi
              cases i with
              | zero => simp only [List.drop_zero, Nat.add_zero]; rw [hp]; simpa using hc
              | succ i =>
                have := h2 i (by omega)
                simpa [List.drop_drop, Nat.add_comm, Nat.add_assoc, Nat.add_left_comm] using this
            · intro he
              have := h3 he
              omega
    | err e => rw [hp] at h; simp at h
    | panic s => rw [hp] at h; simp at h
    | fuel => rw [hp] at h; simp at h

/-- Look-aheads consume nothing: `recognize_start_code` leaves the cursor where it was. -/
theorem start_code_lookahead (inError : Bool) (c : Cur) (r : Option Nat) (c' : Cur)
    (h : recognizeStartCode inError c = .ok (r, c')) : c' = c := by
  unfold recognizeStartCode at h
  cases hr : rscLoop inError (realignmentBits c) (c.bits.length + 2) 0 c with
  | ok x => rw [hr] at h; simp at h; exact h.2.symm
  | err e => rw [hr] at h; simp at h
  | panic s => rw [hr] at h; simp at h
  | fuel => rw [hr] at h; simp at h

/-- The bound on skipped bits is at most one byte of stuffing. -/
theorem realignment_le (c : Cur) : realignmentBits c + 1 ≤ 8 := by
  unfold realignmentBits; omega


open H263V.Script H263V.Lemmas.ScriptRefine H263V.Lemmas.PeekLoop in
/-- **Whole scripts.**  For every operation script — peeks, reads, signed peeks / reads of any width (0 and > width of the type
included: both sides report the same error or panic), skips, VLC reads, start-code searches (both modes), transactions that
succeed or fail, unions returning some / none / error, look-aheads, nested to any depth, with commits between top-level
operations — for every reader type width ≥ 1, every well-formed reader state and every byte source: the concrete reader prints
exactly what the specification machine (the list of remaining bits) prints, operation by operation, and is left with exactly the
specification machine's remaining bits.  In particular every bit is delivered exactly once and in order; failed reads, `Ok(None)`
unions, failed transactions and look-aheads consume nothing; reading past the end reports end-of-data without consuming; commit
loses nothing. -/
theorem script_refines (W : Nat) (hW : 1 ≤ W) (ops : List Op) (hops : ∀ op ∈ ops, TopOK op = true) (r : Reader.Rd) (h : r.WF)
    (hb : ByteSrc r) :
    (runTopR W ops r).1 = (runTopS W ops (absC r)).1 ∧ absC (runTopR W ops r).2 = (runTopS W ops (absC r)).2 := by
  rw [runTopR_eq, runTopS_eq]
  exact Lemmas.ScriptRefine.script_refines W hW ops hops r (absC r) [] h hb rfl

open H263V.Script H263V.Lemmas.ScriptRefine H263V.Lemmas.PeekLoop in
/-- A fresh reader over any byte source is well-formed; the theorem's hypotheses are met by every reader the API can build. -/
theorem fresh_reader_ok (src : List Nat) (hs : ∀ b ∈ src, b < 256) :
    (⟨src, [], 0⟩ : Reader.Rd).WF ∧ ByteSrc ⟨src, [], 0⟩ := by
  refine ⟨by simp [Reader.Rd.WF], ?_⟩
  intro b hb
  exact hs b (by simpa [Lemmas.ReaderLemmas.total] using hb)

open H263V.Script H263V.Lemmas.ScriptRefine in
/-- non-vacuity: a script with a failed nested transaction, a union that returns none, a look-ahead, a start-code search, a VLC
read, signed reads and a commit is covered -/
example : ∀ op ∈ [Op.rd 3, .tx [.rd 5, .tu [.rs 7, .pk 40] 1, .la [.sk 9, .vl 0]] true, .cm, .sc false, .ps 11, .tx [.rd 64] false],
    TopOK op = true := by decide

end H263V.Thm.C14
