/-
C17 — decoding is deterministic and decoder instances are independent.  Property theorems only.
The model is a pure function, so "same options and history ⇒ same pictures and errors" holds of it by
construction; what is stated here is (a) independence under arbitrary interleaving and (b) the checked
modelling assumption that the code has no state outside the instances.
-/
import H263V.Model.System
import H263V.Gen.Tables
namespace H263V.Thm.C17
open H263V H263V.System

/-- For any number of instances and any interleaving of their operations, every instance ends in exactly the state it
reaches when its own operations are run alone, in order: instances never influence one another. -/
theorem interleave_independent (sched : List (Nat × Op)) (sys : Nat → Inst) (i : Nat) :
    runSched sys sched i = (run (sys i) ((sched.filter (·.1 = i)).map (·.2))).1 := by
  induction sched generalizing sys with
  | nil => simp [runSched, run]
  | cons x rest ih =>
    obtain ⟨k, op⟩ := x
    simp only [runSched]
    rw [ih]
    by_cases h : k = i
    · subst h
      simp [run]
    · have : ¬ (i = k) := fun e => h e.symm
      simp [h, this]

/-- Determinism: an operation sequence determines the results (the model is a function; stated for completeness). -/
theorem run_deterministic (i j : Inst) (ops : List Op) (h : i = j) : run i ops = run j ops := by rw [h]

/-- Modelling assumption, re-checked against the source on every run: outside test modules the three crates contain no
`static mut`, `thread_local!`, interior mutability, atomics, locks or `unsafe`, no iteration over the picture hash map,
and exactly three lazily initialised statics — -/
theorem no_hidden_state : Gen.STRUCT_SCAN =
    [("h263/src/parser/picture.rs", "lazy_static!"), ("h263/src/parser/picture.rs", "static ref"),
     ("h263/src/types.rs", "lazy_static!"), ("h263/src/types.rs", "static ref"), ("h263/src/types.rs", "static ref")] := by
  decide

/-- — whose initialisers are constant expressions equal to the option masks of the model. -/
theorem lazy_statics_constant : Gen.LAZY_MASKS =
    [("h263/src/types.rs", "OPPTYPE_OPTIONS", Opt.OPPTYPE_OPTIONS), ("h263/src/types.rs", "MPPTYPE_OPTIONS", Opt.MPPTYPE_OPTIONS),
     ("h263/src/parser/picture.rs", "OPPTYPE_OPTIONS", Opt.OPPTYPE_OPTIONS)] := by
  decide

end H263V.Thm.C17
