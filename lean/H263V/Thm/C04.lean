/-
C04 — the reference picture is always the last non-disposable decoded picture.  Property theorems only.
-/
import H263V.Model.System
import H263V.Lemmas.Store
namespace H263V.Thm.C04
open H263V H263V.State H263V.Gather H263V.System

/-- The specification machine: just the two pictures the property speaks about. -/
structure Spec where
  last : Option DecPic
  ref : Option DecPic

/-- the abstraction: what `get_last_picture` / `get_reference_picture` report -/
def abs (s : State) : Spec := { last := s.getLast, ref := s.getRef }

/-- rule of the property: the new picture becomes the most recent one; it becomes the reference unless it is disposable,
in which case the reference is untouched -/
def Spec.accept (a : Spec) (hdr : PicHdr) (pic : DecPic) : Spec :=
  { last := some pic, ref := if hdr.picType.isDisposable then a.ref else some pic }

/-- the reference key is a temporal reference proper (never a disposable picture's key) -/
def Inv (s : State) : Prop := ∀ k, s.ref = some k → k < 0x8000

theorem disposable_key_ge (tr : Nat) (h : tr < 0x8000) : tr ||| 0x8000 = tr + 0x8000 := by
  have := Nat.shiftLeft_add_eq_or_of_lt (a := 1) (i := 15) (b := tr) (by simpa using h)
  simp at this
  rw [Nat.or_comm]; omega

/-- Accepting a picture (whatever its temporal reference, including one equal to the reference's) acts on the two
reported pictures exactly as the rule says, and preserves the invariant. -/
theorem accept_refines (s : State) (hs : Inv s) (hdr : PicHdr) (htr : hdr.tr < 0x8000) (pic : DecPic) :
    abs (commitPic s hdr pic) = (abs s).accept hdr pic ∧ Inv (commitPic s hdr pic) := by
  unfold commitPic
  simp only
  by_cases hd : hdr.picType.isDisposable = true
  · -- disposable: filed under tr | 0x8000, which no reference key can equal
    have hI : ¬ hdr.picType = .iFrame := by intro h; rw [h] at hd; simp [PicType.isDisposable] at hd
    have hkey := disposable_key_ge hdr.tr htr
    simp only [hd, ↓reduceIte, hI]
    constructor
    · unfold abs Spec.accept
      simp only [hd, ↓reduceIte, Lemmas.Store.cleanup_getLast, Lemmas.Store.cleanup_getRef]
      congr 1
      · simp [State.getLast, Lemmas.Store.lookup_insert]
      · unfold State.getRef
        cases hr : s.ref with
        | none => simp
        | some kr =>
          have := hs kr hr
          have hne : ¬ kr = hdr.tr ||| 0x8000 := by omega
          simp [Lemmas.Store.lookup_insert, hne]
    · intro k hk
      rw [Lemmas.Store.cleanup_ref] at hk
      exact hs k hk
  · have hd' : hdr.picType.isDisposable = false := by simpa using hd
    simp only [hd', Bool.false_eq_true, ↓reduceIte, Nat.or_zero]
    constructor
    · unfold abs Spec.accept
      simp only [hd', Bool.false_eq_true, ↓reduceIte, Lemmas.Store.cleanup_getLast, Lemmas.Store.cleanup_getRef]
      congr 1
      · simp [State.getLast, Lemmas.Store.lookup_insert]
      · simp [State.getRef, Lemmas.Store.lookup_insert]
    · intro k hk
      rw [Lemmas.Store.cleanup_ref] at hk
      simp at hk
      omega

/-- A clean-up call changes neither reported picture. -/
theorem cleanup_refines (s : State) : abs s.cleanup = abs s ∧ (Inv s → Inv s.cleanup) := by
  constructor
  · unfold abs; rw [Lemmas.Store.cleanup_getLast, Lemmas.Store.cleanup_getRef]
  · intro h k hk; exact h k hk

/-- A rejected picture changes nothing at all (the model returns the state only on success). -/
theorem reject_refines (i : Inst) (e : Err) (h : decodeNextPicture i.st i.cur = .err e) :
    (step i .decode).1 = i := by
  simp [step, h]

/-- Every decode step acts on the reported pictures by the rule: on success the outcome is `accept` of the decoded header
and picture, where the picture was reconstructed from the *current* reference and last picture of the abstraction. -/
theorem decode_refines (s : State) (c : Cur) (s' : State) (c' : Cur)
    (h : decodeNextPicture s c = .ok (s', c')) :
    ∃ hdr pic, decodeCore s c = .ok (hdr, pic, c') ∧ s' = commitPic s hdr pic := by
  unfold decodeNextPicture at h
  cases hc : decodeCore s c with
  | ok r =>
    obtain ⟨hdr, pic, c2⟩ := r
    rw [hc] at h
    simp only [Out.bind_ok, Out.pure_eq, Out.ok.injEq, Prod.mk.injEq] at h
    exact ⟨hdr, pic, by rw [← h.2], h.1.symm⟩
  | err e => rw [hc] at h; simp at h
  | panic m => rw [hc] at h; simp at h
  | fuel => rw [hc] at h; simp at h

/-- the initial state satisfies the invariant and reports no pictures -/
theorem init_inv (o : DecOpts) : Inv (State.new o) ∧ (abs (State.new o)).last = none ∧ (abs (State.new o)).ref = none := by
  refine ⟨?_, rfl, rfl⟩
  intro k hk; simp [State.new] at hk

end H263V.Thm.C04
