/-
C04 — the reference picture is always the last non-disposable decoded picture.  Property theorems only.
-/
import H263V.Model.System
import H263V.Lemmas.Store
import H263V.Lemmas.DecodeTotal
namespace H263V.Thm.C04
open H263V H263V.State H263V.Gather H263V.System

/-- The specification machine: just the two pictures the property speaks about. -/
structure Spec where
  last : Option DecPic
  ref : Option DecPic

/-- the abstraction: what `get_last_picture` / `get_reference_picture` report -/
def abs (s : State) : Spec := { last := s.getLast, ref := s.getRef }

/-- rule of the property: the new picture becomes the most recent one; it becomes the reference unless it is disposable,
in which case the reference is untouched -/
def Spec.accept (a : Spec) (hdr : PicHdr) (pic : DecPic) : Spec :=
  { last := some pic, ref := if hdr.picType.isDisposable then a.ref else some pic }

/-- the reference key is a temporal reference proper (never a disposable picture's key) -/
def Inv (s : State) : Prop := ∀ k, s.ref = some k → k < 0x8000

theorem disposable_key_ge (tr : Nat) (h : tr < 0x8000) : tr ||| 0x8000 = tr + 0x8000 := by
  have := Nat.shiftLeft_add_eq_or_of_lt (a := 1) (i := 15) (b := tr) (by simpa using h)
  simp at this
  rw [Nat.or_comm]; omega

/-- Accepting a picture (whatever its temporal reference, including one equal to the reference's) acts on the two
reported pictures exactly as the rule says, and preserves the invariant. -/
theorem accept_refines (s : State) (hs : Inv s) (hdr : PicHdr) (htr : hdr.tr < 0x8000) (pic : DecPic) :
    abs (commitPic s hdr pic) = (abs s).accept hdr pic ∧ Inv (commitPic s hdr pic) := by
  unfold commitPic
  simp only
  by_cases hd : hdr.picType.isDisposable = true
  · -- disposable: filed under tr | 0x8000, which no reference key can equal
    have hI : ¬ hdr.picType = .iFrame := by intro h; rw [h] at hd; simp [PicType.isDisposable] at hd
    have hkey := disposable_key_ge hdr.tr htr
    simp only [hd, ↓reduceIte, hI]
    constructor
    · unfold abs Spec.accept
      simp only [hd, ↓reduceIte, Lemmas.Store.cleanup_getLast, Lemmas.Store.cleanup_getRef]
      congr 1
      · simp [State.getLast, Lemmas.Store.lookup_insert]
      · unfold State.getRef
        cases hr : s.ref with
        | none => simp
        | some kr =>
          have := hs kr hr
          have hne : ¬ kr = hdr.tr ||| 0x8000 := by omega
          simp [Lemmas.Store.lookup_insert, hne]
    · intro k hk
      rw [Lemmas.Store.cleanup_ref] at hk
      exact hs k hk
  · have hd' : hdr.picType.isDisposable = false := by simpa using hd
    simp only [hd', Bool.false_eq_true, ↓reduceIte, Nat.or_zero]
    constructor
    · unfold abs Spec.accept
      simp only [hd', Bool.false_eq_true, ↓reduceIte, Lemmas.Store.cleanup_getLast, Lemmas.Store.cleanup_getRef]
      congr 1
      · simp [State.getLast, Lemmas.Store.lookup_insert]
      · simp [State.getRef, Lemmas.Store.lookup_insert]
    · intro k hk
      rw [Lemmas.Store.cleanup_ref] at hk
      simp at hk
      omega

/-- A clean-up call changes neither reported picture. -/
theorem cleanup_refines (s : State) : abs s.cleanup = abs s ∧ (Inv s → Inv s.cleanup) := by
  constructor
  · unfold abs; rw [Lemmas.Store.cleanup_getLast, Lemmas.Store.cleanup_getRef]
  · intro h k hk; exact h k hk

/-- A rejected picture changes nothing at all (the model returns the state only on success). -/
theorem reject_refines (i : Inst) (e : Err) (h : decodeNextPicture i.st i.cur = .err e) :
    (step i .decode).1 = i := by
  simp [step, h]

/-- Every decode step acts on the reported pictures by the rule: on success the outcome is `accept` of the decoded header
and picture, where the picture was reconstructed from the *current* reference and last picture of the abstraction. -/
theorem decode_refines (s : State) (c : Cur) (s' : State) (c' : Cur)
    (h : decodeNextPicture s c = .ok (s', c')) :
    ∃ hdr pic, decodeCore s c = .ok (hdr, pic, c') ∧ s' = commitPic s hdr pic := by
  unfold decodeNextPicture at h
  cases hc : decodeCore s c with
  | ok r =>
    obtain ⟨hdr, pic, c2⟩ := r
    rw [hc] at h
    simp only [Out.bind_ok, Out.pure_eq, Out.ok.injEq, Prod.mk.injEq] at h
    exact ⟨hdr, pic, by rw [← h.2], h.1.symm⟩
  | err e => rw [hc] at h; simp at h
  | panic m => rw [hc] at h; simp at h
  | fuel => rw [hc] at h; simp at h

/-- the initial state satisfies the invariant and reports no pictures -/
theorem init_inv (o : DecOpts) : Inv (State.new o) ∧ (abs (State.new o)).last = none ∧ (abs (State.new o)).ref = none := by
  refine ⟨?_, rfl, rfl⟩
  intro k hk; simp [State.new] at hk


/-- The hypothesis of `accept_refines` always holds for a decoded picture: the header parser yields temporal references of at
most ten bits (8 bits, plus the 2 ETR bits with a custom clock), far below the 0x8000 flag used for disposable pictures. -/
theorem decoded_tr_small (s : State) (c : Cur) (hdr : PicHdr) (pic : DecPic) (c' : Cur)
    (h : decodeCore s c = .ok (hdr, pic, c')) : hdr.tr < 0x8000 := by
  have := Lemmas.DecodeTotal.decodeCore_tr s c hdr pic c' h
  omega

/-- One successful decode call, with no side condition left: the reported pictures change exactly by the rule. -/
theorem decode_step_refines (s : State) (hs : Inv s) (c : Cur) (s' : State) (c' : Cur)
    (h : decodeNextPicture s c = .ok (s', c')) :
    ∃ hdr pic, decodeCore s c = .ok (hdr, pic, c') ∧ abs s' = (abs s).accept hdr pic ∧ Inv s' := by
  obtain ⟨hdr, pic, hc, hs'⟩ := decode_refines s c s' c' h
  have := accept_refines s hs hdr (decoded_tr_small s c hdr pic c' hc) pic
  rw [← hs'] at this
  exact ⟨hdr, pic, hc, this.1, this.2⟩

/-- the pictures accepted along a history, oldest first -/
def accepted (i : Inst) : List Op → List (PicHdr × DecPic)
  | [] => []
  | op :: ops =>
    match op with
    | .decode =>
      match decodeCore i.st i.cur with
      | .ok (hdr, pic, _) => (hdr, pic) :: accepted (step i op).1 ops
      | _ => accepted (step i op).1 ops
    | _ => accepted (step i op).1 ops

def Spec.run (a : Spec) (l : List (PicHdr × DecPic)) : Spec := l.foldl (fun a p => a.accept p.1 p.2) a

theorem step_abs (i : Inst) (hi : Inv i.st) (op : Op) :
    Inv (step i op).1.st ∧
    abs (step i op).1.st = match op with
      | .decode => (match decodeCore i.st i.cur with
          | .ok (hdr, pic, _) => (abs i.st).accept hdr pic
          | _ => abs i.st)
      | _ => abs i.st := by
  cases op with
  | feed bits => exact ⟨hi, rfl⟩
  | cleanup => exact ⟨(cleanup_refines i.st).2 hi, (cleanup_refines i.st).1⟩
  | decode =>
    simp only [step]
    cases hd : decodeNextPicture i.st i.cur with
    | ok r =>
      obtain ⟨s', c'⟩ := r
      obtain ⟨hdr, pic, hc, ha, hinv⟩ := decode_step_refines i.st hi i.cur s' c' hd
      simp only [hc]
      exact ⟨hinv, ha⟩
    | err e =>
      have : ∀ r, decodeCore i.st i.cur ≠ .ok r := by
        intro r hr
        unfold decodeNextPicture at hd
        rw [hr] at hd
        simp at hd
      simp only
      refine ⟨hi, ?_⟩
      cases hc : decodeCore i.st i.cur with
      | ok r => exact absurd hc (this r)
      | err e => rfl
      | panic m => rfl
      | fuel => rfl
    | panic m =>
      simp only
      refine ⟨hi, ?_⟩
      cases hc : decodeCore i.st i.cur with
      | ok r => unfold decodeNextPicture at hd; rw [hc] at hd; simp at hd
      | err e => rfl
      | panic m => rfl
      | fuel => rfl
    | fuel =>
      simp only
      refine ⟨hi, ?_⟩
      cases hc : decodeCore i.st i.cur with
      | ok r => unfold decodeNextPicture at hd; rw [hc] at hd; simp at hd
      | err e => rfl
      | panic m => rfl
      | fuel => rfl

/-- **Every history.**  After any sequence of deliveries, decode calls (accepted or rejected) and clean-ups on a fresh decoder,
with arbitrary (repeating, wrapping, colliding) temporal references, the two reported pictures are the result of applying the
rule `last := new; reference := new unless disposable` to the accepted pictures in order. -/
theorem history_refines (o : DecOpts) (c0 : Cur) (ops : List Op) :
    abs (run ⟨State.new o, c0⟩ ops).1.st = Spec.run ⟨none, none⟩ (accepted ⟨State.new o, c0⟩ ops) := by
  suffices h : ∀ (ops : List Op) (i : Inst), Inv i.st → abs (run i ops).1.st = Spec.run (abs i.st) (accepted i ops) from
    h ops _ (init_inv o).1
  intro ops
  induction ops with
  | nil => intro i _; rfl
  | cons op rest ih =>
    intro i hi
    obtain ⟨hinv, ha⟩ := step_abs i hi op
    simp only [run]
    rw [ih _ hinv, ha]
    cases op with
    | feed bits => rfl
    | cleanup => rfl
    | decode =>
      simp only [accepted]
      cases hc : decodeCore i.st i.cur with
      | ok r => obtain ⟨hdr, pic, c'⟩ := r; rfl
      | err e => rfl
      | panic m => rfl
      | fuel => rfl

/-- What the rule computes: the reference is the most recent accepted picture that is not disposable; the last picture is the
most recent accepted picture. -/
theorem spec_run_ref (l : List (PicHdr × DecPic)) (a : Spec) :
    (Spec.run a l).ref = (match (l.filter (fun p => !p.1.picType.isDisposable)).getLast? with
      | some p => some p.2
      | none => a.ref) ∧
    (Spec.run a l).last = (match l.getLast? with | some p => some p.2 | none => a.last) := by
  induction l generalizing a with
  | nil => exact ⟨rfl, rfl⟩
  | cons p ps ih =>
    have := ih (a.accept p.1 p.2)
    simp only [Spec.run, List.foldl_cons] at this ⊢
    rw [this.1, this.2]
    constructor
    · by_cases hd : p.1.picType.isDisposable = true
      · simp [hd, Spec.accept]
      · have hd' : p.1.picType.isDisposable = false := by simpa using hd
        simp only [List.filter_cons, hd', Bool.not_false, ↓reduceIte]
        cases hf : (ps.filter (fun p => !p.1.picType.isDisposable)).getLast? with
        | none =>
          have : ps.filter (fun p => !p.1.picType.isDisposable) = [] := List.getLast?_eq_none_iff.mp hf
          simp [this, Spec.accept, hd']
        | some q =>
          rw [List.getLast?_cons, hf]; rfl
    · cases hf : ps.getLast? with
      | none =>
        have : ps = [] := List.getLast?_eq_none_iff.mp hf
        simp [this, Spec.accept]
      | some q => rw [List.getLast?_cons, hf]; rfl

end H263V.Thm.C04
