/-
C13 — every decoded picture can be deblocked and converted to RGBA.  Property theorems only.
-/
import H263V.Model.State
import H263V.Model.Deblock
import H263V.Model.Yuv
import H263V.Lemmas.DeblockImg
import H263V.Lemmas.YuvImg
import H263V.Thm.C16
import H263V.Lemmas.PlaneInv
import H263V.Model.System
namespace H263V.Thm.C13
open H263V H263V.Gather

def Bytes (a : Array Nat) : Prop := ∀ i (h : i < a.size), a[i] < 256

/-- the size relations the two post-processing stages require -/
structure Sized (p : DecPic) (w h : Nat) : Prop where
  dims : p.fmt.dims = some (w, h)
  luma : p.luma.size = w * h
  cb : p.cb.size = ((w + 1) / 2) * ((h + 1) / 2)
  cr : p.cr.size = ((w + 1) / 2) * ((h + 1) / 2)
  spr : p.chromaSpr = (w + 1) / 2
  bytes : Bytes p.luma ∧ Bytes p.cb ∧ Bytes p.cr

/-- A picture buffer is allocated with exactly these relations, for every signalled size. -/
theorem new_sized (hdr : PicHdr) (fmt : SrcFmt) (w h : Nat) (hd : fmt.dims = some (w, h)) :
    ∃ p, DecPic.new hdr fmt = some p ∧ Sized p w h := by
  unfold DecPic.new
  simp only [hd]
  refine ⟨_, rfl, ⟨hd, by simp, by simp, by simp, rfl, ?_, ?_, ?_⟩⟩ <;>
    (intro i hi; simp)

/-- `planeSizes` (what the driver prints for the `SZ` correspondence lines, sizes far above what a decode case can afford) is
exactly what `DecodedPicture::new` allocates in the model -/
theorem new_planeSizes (hdr : PicHdr) (fmt : SrcFmt) (w h : Nat) (hd : fmt.dims = some (w, h)) :
    ∃ p, DecPic.new hdr fmt = some p ∧ (p.luma.size, p.cb.size, p.chromaSpr) = planeSizes w h ∧ p.cr.size = p.cb.size := by
  obtain ⟨p, hp, hs⟩ := new_sized hdr fmt w h hd
  exact ⟨p, hp, by simp [planeSizes, hs.luma, hs.cb, hs.spr], by rw [hs.cr, hs.cb]⟩

/-- For every width and height of at least one (1-row, 1-column, odd, fewer than ten columns) and every quantizer 1..31:
deblocking each plane with the strength tabulated for the quantizer and converting the result to RGBA completes without
panic and yields exactly width x height pixels. -/
theorem postprocess_ok (p : DecPic) (w h q : Nat) (hs : Sized p w h) (hw : 1 ≤ w) (hh : 1 ≤ h) (hq : 1 ≤ q ∧ q ≤ 31) :
    ∃ y2 cb2 cr2 rgba,
      Deblock.deblock p.luma w (Gen.QUANT_TO_STRENGTH[q]!) = .ok y2 ∧
      Deblock.deblock p.cb p.chromaSpr (Gen.QUANT_TO_STRENGTH[q]!) = .ok cb2 ∧
      Deblock.deblock p.cr p.chromaSpr (Gen.QUANT_TO_STRENGTH[q]!) = .ok cr2 ∧
      Yuv.yuv420ToRgba y2 cb2 cr2 w = .ok rgba ∧ rgba.size = 4 * (w * h) := by
  have hst := Thm.C16.table_strength_legal q hq.1 hq.2
  obtain ⟨hy, hb, hr⟩ := hs.bytes
  have hcw : 1 ≤ (w + 1) / 2 := by omega
  obtain ⟨y2, e1, s1, b1⟩ := Lemmas.DeblockImg.deblock_ok p.luma w _ hw (by rw [hs.luma]; exact Nat.mul_mod_right _ _) hy hst
  obtain ⟨cb2, e2, s2, b2⟩ := Lemmas.DeblockImg.deblock_ok p.cb p.chromaSpr _ (by rw [hs.spr]; exact hcw)
    (by rw [hs.cb, hs.spr]; exact Nat.mul_mod_right _ _) hb hst
  obtain ⟨cr2, e3, s3, b3⟩ := Lemmas.DeblockImg.deblock_ok p.cr p.chromaSpr _ (by rw [hs.spr]; exact hcw)
    (by rw [hs.cr, hs.spr]; exact Nat.mul_mod_right _ _) hr hst
  obtain ⟨rgba, e4, s4⟩ := Lemmas.YuvImg.yuv_ok y2 cb2 cr2 w h hw hh (by rw [s1, hs.luma]) (by rw [s2, hs.cb]) (by rw [s3, hs.cr]) b1 b2 b3
  exact ⟨y2, cb2, cr2, rgba, e1, e2, e3, e4, s4⟩

/-- Every successfully decoded picture, after any history of decode calls and clean-ups on a fresh decoder, has both
dimensions at least one and exposes planes of exactly the sizes the two post-processing stages require, holding bytes:
the motion-compensation step and the three inverse transforms write in place and never change a plane's length. -/
theorem decoded_picture_sized (o : DecOpts) (ops : List System.Op) (c0 : Cur) :
    let i := (System.run ⟨State.State.new o, c0⟩ ops).1
    ∀ p, i.st.getLast = some p → ∃ w h, 1 ≤ w ∧ 1 ≤ h ∧ Sized p w h := by
  intro i p hp
  -- invariant over the history
  have hinv : ∀ (ops : List System.Op) (j : System.Inst), Lemmas.PlaneInv.StoreOK j.st →
      Lemmas.PlaneInv.StoreOK (System.run j ops).1.st := by
    intro ops
    induction ops with
    | nil => intro j hj; exact hj
    | cons op rest ih =>
      intro j hj
      simp only [System.run]
      apply ih
      cases op with
      | feed bits => exact hj
      | cleanup =>
        simp only [System.step]
        intro k q hk
        exact hj k q (Lemmas.PlaneInv.cleanup_lookup _ k q hk)
      | decode =>
        simp only [System.step]
        cases hd : State.decodeNextPicture j.st j.cur with
        | ok r => exact (Lemmas.PlaneInv.decode_storeOK j.st hj j.cur r.1 r.2 (by rw [hd])).1
        | err e => exact hj
        | panic m => exact hj
        | fuel => exact hj
  have hst := hinv ops ⟨State.State.new o, c0⟩ (Lemmas.PlaneInv.new_storeOK o)
  have : Lemmas.PlaneInv.PicOK p := by
    unfold State.State.getLast at hp
    cases hl : i.st.last with
    | none => rw [hl] at hp; simp at hp
    | some k => rw [hl] at hp; simp only [Option.bind_some] at hp; exact hst k p hp
  obtain ⟨w, h, hw, hh, hd, ⟨l1, l2⟩, ⟨b1, b2⟩, ⟨r1, r2⟩, hs⟩ := this
  exact ⟨w, h, hw, hh, ⟨hd, l1, b1, r1, hs, l2, b2, r2⟩⟩

/-- The property in one statement: whatever was decoded before, the picture reported by `get_last_picture` can be deblocked
plane by plane with the strength tabulated for any quantizer 1..31 and converted to RGBA without panic, giving exactly
width x height pixels. -/
theorem every_decoded_picture_postprocesses (o : DecOpts) (ops : List System.Op) (c0 : Cur) (q : Nat) (hq : 1 ≤ q ∧ q ≤ 31) :
    let i := (System.run ⟨State.State.new o, c0⟩ ops).1
    ∀ p, i.st.getLast = some p → ∃ w h y2 cb2 cr2 rgba, p.fmt.dims = some (w, h) ∧
      Deblock.deblock p.luma w (Gen.QUANT_TO_STRENGTH[q]!) = .ok y2 ∧
      Deblock.deblock p.cb p.chromaSpr (Gen.QUANT_TO_STRENGTH[q]!) = .ok cb2 ∧
      Deblock.deblock p.cr p.chromaSpr (Gen.QUANT_TO_STRENGTH[q]!) = .ok cr2 ∧
      Yuv.yuv420ToRgba y2 cb2 cr2 w = .ok rgba ∧ rgba.size = 4 * (w * h) := by
  intro i p hp
  obtain ⟨w, h, hw, hh, hs⟩ := decoded_picture_sized o ops c0 p hp
  obtain ⟨y2, cb2, cr2, rgba, e1, e2, e3, e4, e5⟩ := postprocess_ok p w h q hs hw hh hq
  exact ⟨w, h, y2, cb2, cr2, rgba, hs.dims, e1, e2, e3, e4, e5⟩

end H263V.Thm.C13
