/-
C13 — every decoded picture can be deblocked and converted to RGBA.  Property theorems only.
-/
import H263V.Model.State
import H263V.Model.Deblock
import H263V.Model.Yuv
import H263V.Lemmas.DeblockImg
import H263V.Lemmas.YuvImg
import H263V.Thm.C16
namespace H263V.Thm.C13
open H263V H263V.Gather

def Bytes (a : Array Nat) : Prop := ∀ i (h : i < a.size), a[i] < 256

/-- the size relations the two post-processing stages require -/
structure Sized (p : DecPic) (w h : Nat) : Prop where
  dims : p.fmt.dims = some (w, h)
  luma : p.luma.size = w * h
  cb : p.cb.size = ((w + 1) / 2) * ((h + 1) / 2)
  cr : p.cr.size = ((w + 1) / 2) * ((h + 1) / 2)
  spr : p.chromaSpr = (w + 1) / 2
  bytes : Bytes p.luma ∧ Bytes p.cb ∧ Bytes p.cr

/-- A picture buffer is allocated with exactly these relations, for every signalled size. -/
theorem new_sized (hdr : PicHdr) (fmt : SrcFmt) (w h : Nat) (hd : fmt.dims = some (w, h)) :
    ∃ p, DecPic.new hdr fmt = some p ∧ Sized p w h := by
  unfold DecPic.new
  simp only [hd]
  refine ⟨_, rfl, ⟨hd, by simp, by simp, by simp, rfl, ?_, ?_, ?_⟩⟩ <;>
    (intro i hi; simp)

/-- For every width and height of at least one (1-row, 1-column, odd, fewer than ten columns) and every quantizer 1..31:
deblocking each plane with the strength tabulated for the quantizer and converting the result to RGBA completes without
panic and yields exactly width x height pixels. -/
theorem postprocess_ok (p : DecPic) (w h q : Nat) (hs : Sized p w h) (hw : 1 ≤ w) (hh : 1 ≤ h) (hq : 1 ≤ q ∧ q ≤ 31) :
    ∃ y2 cb2 cr2 rgba,
      Deblock.deblock p.luma w (Gen.QUANT_TO_STRENGTH[q]!) = .ok y2 ∧
      Deblock.deblock p.cb p.chromaSpr (Gen.QUANT_TO_STRENGTH[q]!) = .ok cb2 ∧
      Deblock.deblock p.cr p.chromaSpr (Gen.QUANT_TO_STRENGTH[q]!) = .ok cr2 ∧
      Yuv.yuv420ToRgba y2 cb2 cr2 w = .ok rgba ∧ rgba.size = 4 * (w * h) := by
  have hst := Thm.C16.table_strength_legal q hq.1 hq.2
  obtain ⟨hy, hb, hr⟩ := hs.bytes
  have hcw : 1 ≤ (w + 1) / 2 := by omega
  obtain ⟨y2, e1, s1, b1⟩ := Lemmas.DeblockImg.deblock_ok p.luma w _ hw (by rw [hs.luma]; exact Nat.mul_mod_right _ _) hy hst
  obtain ⟨cb2, e2, s2, b2⟩ := Lemmas.DeblockImg.deblock_ok p.cb p.chromaSpr _ (by rw [hs.spr]; exact hcw)
    (by rw [hs.cb, hs.spr]; exact Nat.mul_mod_right _ _) hb hst
  obtain ⟨cr2, e3, s3, b3⟩ := Lemmas.DeblockImg.deblock_ok p.cr p.chromaSpr _ (by rw [hs.spr]; exact hcw)
    (by rw [hs.cr, hs.spr]; exact Nat.mul_mod_right _ _) hr hst
  obtain ⟨rgba, e4, s4⟩ := Lemmas.YuvImg.yuv_ok y2 cb2 cr2 w h hw hh (by rw [s1, hs.luma]) (by rw [s2, hs.cb]) (by rw [s3, hs.cr]) b1 b2 b3
  exact ⟨y2, cb2, cr2, rgba, e1, e2, e3, e4, s4⟩

end H263V.Thm.C13
