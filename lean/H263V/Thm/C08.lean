/-
C08 — RGBA output pairs every luma sample with its 4:2:0 chroma sample, at any size.
Property theorems only.
-/
import H263V.Model.Yuv
import H263V.Spec.Bt601
import H263V.Lemmas.Yuv
namespace H263V.Thm.C08
open H263V H263V.Yuv

/-- An empty picture (any width, including the `w x 0` pictures on which the pinned tree tripped a debug
assertion, finding D9) yields an empty output and never panics. -/
theorem empty_ok (w : Nat) : yuv420ToRgba #[] #[] #[] w = .ok #[] := by
  simp [yuv420ToRgba]

end H263V.Thm.C08
