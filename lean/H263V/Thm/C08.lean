/-
C08 — RGBA output pairs every luma sample with its 4:2:0 chroma sample, at any size.
Property theorems only.
-/
import H263V.Model.Yuv
import H263V.Spec.Bt601
import H263V.Lemmas.Yuv
import H263V.Lemmas.YuvImg
namespace H263V.Thm.C08
open H263V H263V.Yuv

/-- An empty picture (any width, including the `w x 0` pictures on which the pinned tree tripped a debug
assertion, finding D9) yields an empty output and never panics. -/
theorem empty_ok (w : Nat) : yuv420ToRgba #[] #[] #[] w = .ok #[] := by
  simp [yuv420ToRgba]

/-- every sample of a plane is a byte -/
def Bytes (a : Array Nat) : Prop := ∀ i (h : i < a.size), a[i] < 256

/-- For every width and height of at least one (odd sizes and widths not divisible by four included) with planes of the
documented sizes, the conversion never panics (no assertion fails, no slice is out of range) and the output holds exactly
width x height RGBA pixels. -/
theorem no_panic_and_length (y cb cr : Array Nat) (w h : Nat) (hw : 1 ≤ w) (hh : 1 ≤ h) (hys : y.size = w * h)
    (hbs : cb.size = ((w + 1) / 2) * ((h + 1) / 2)) (hrs : cr.size = ((w + 1) / 2) * ((h + 1) / 2))
    (hy : Bytes y) (hb : Bytes cb) (hr : Bytes cr) :
    ∃ out, yuv420ToRgba y cb cr w = .ok out ∧ out.size = 4 * (w * h) :=
  Lemmas.YuvImg.yuv_ok y cb cr w h hw hh hys hbs hrs hy hb hr

end H263V.Thm.C08
