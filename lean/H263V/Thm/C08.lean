/-
C08 — RGBA output pairs every luma sample with its 4:2:0 chroma sample, at any size.
Property theorems only.
-/
import H263V.Model.Yuv
import H263V.Spec.Bt601
import H263V.Lemmas.Yuv
import H263V.Lemmas.YuvImg
import H263V.Lemmas.YuvPixel
namespace H263V.Thm.C08
open H263V H263V.Yuv

/-- An empty picture (any width, including the `w x 0` pictures on which the pinned tree tripped a debug
assertion, finding D9) yields an empty output and never panics. -/
theorem empty_ok (w : Nat) : yuv420ToRgba #[] #[] #[] w = .ok #[] := by
  simp [yuv420ToRgba]

/-- every sample of a plane is a byte -/
def Bytes (a : Array Nat) : Prop := ∀ i (h : i < a.size), a[i] < 256

/-- For every width and height of at least one (odd sizes and widths not divisible by four included) with planes of the
documented sizes, the conversion never panics (no assertion fails, no slice is out of range) and the output holds exactly
width x height RGBA pixels. -/
theorem no_panic_and_length (y cb cr : Array Nat) (w h : Nat) (hw : 1 ≤ w) (hh : 1 ≤ h) (hys : y.size = w * h)
    (hbs : cb.size = ((w + 1) / 2) * ((h + 1) / 2)) (hrs : cr.size = ((w + 1) / 2) * ((h + 1) / 2))
    (hy : Bytes y) (hb : Bytes cb) (hr : Bytes cr) :
    ∃ out, yuv420ToRgba y cb cr w = .ok out ∧ out.size = 4 * (w * h) :=
  Lemmas.YuvImg.yuv_ok y cb cr w h hw hh hys hbs hrs hy hb hr

/-- The full layout statement, for every width and height of at least one and arbitrary plane contents: the output holds
width x height RGBA pixels in row-major order, and bytes 4(y·w+x) .. +3 are R, G, B, A of the BT.601 conversion (C07) of luma
sample (x, y) with the chroma samples at (⌊x/2⌋, ⌊y/2⌋) — replicated, never interpolated or shifted — whether the pixel falls
into a whole 4-pixel group or into the per-row remainder path; all plane indices used are in range. -/
theorem pixel_at (y cb cr : Array Nat) (w h : Nat) (hw : 1 ≤ w) (hh : 1 ≤ h) (hys : y.size = w * h)
    (hbs : cb.size = ((w + 1) / 2) * ((h + 1) / 2)) (hrs : cr.size = ((w + 1) / 2) * ((h + 1) / 2))
    (hy : Bytes y) (hb : Bytes cb) (hr : Bytes cr) :
    ∃ out, yuv420ToRgba y cb cr w = .ok out ∧ out.size = 4 * (w * h) ∧
      ∀ x yy k, x < w → yy < h → k < 4 →
        yy * w + x < y.size ∧ yy / 2 * ((w + 1) / 2) + x / 2 < cb.size ∧ yy / 2 * ((w + 1) / 2) + x / 2 < cr.size ∧
        out[4 * (yy * w + x) + k]? =
          some (Lemmas.Yuv.chan (Spec.Bt601.pixel (y.getD (yy * w + x) 0) (cb.getD (yy / 2 * ((w + 1) / 2) + x / 2) 0)
            (cr.getD (yy / 2 * ((w + 1) / 2) + x / 2) 0)) k).toNat :=
  Lemmas.YuvPixel.pixel_at y cb cr w h hw hh hys hbs hrs hy hb hr

/-- non-vacuity: a 5x3 picture (remainder column, odd height) meets the hypotheses -/
example : ∃ out, yuv420ToRgba (Array.replicate 15 100) (Array.replicate 6 90) (Array.replicate 6 200) 5 = .ok out ∧ out.size = 60 := by
  obtain ⟨out, h1, h2, _⟩ := pixel_at (Array.replicate 15 100) (Array.replicate 6 90) (Array.replicate 6 200) 5 3 (by omega) (by omega)
    (by simp) (by simp) (by simp) (by intro i hi; simp) (by intro i hi; simp) (by intro i hi; simp)
  exact ⟨out, h1, by simpa using h2⟩

end H263V.Thm.C08
