/-
C02 — intra pictures reconstruct exactly as H.263 prescribes.  Property theorems only.
(PARTIAL, see MANIFEST level_note: the layer-wise facts below are proved; the picture-level statement
`decode (encode P) = reconstruct P` is carried by the correspondence runs over generated valid pictures.)
-/
import H263V.Model.State
import H263V.Spec.Recon
import H263V.Lemmas.VlcTables
import H263V.Thm.C11
namespace H263V.Thm.C02
open H263V H263V.Gather H263V.Spec.Vlc

/-- The TCOEF tree re-extracted from the source decodes every one of the 102 (LAST, RUN, LEVEL) codewords of Table 16 and
the ESCAPE codeword to the symbol the specification assigns, consuming exactly the codeword. -/
theorem tcoef_table_agrees :
    Lemmas.VlcTables.agrees Gen.TCOEF tcoefTable (fun s => some (TShort.run s.1 s.2.1 s.2.2)) = true ∧
    vlcWalk Gen.TCOEF 0 tcoefEscape 0 = .ok (some TShort.esc, [], 7) :=
  Lemmas.VlcTables.tcoef_agrees

/-- Table 7 (MCBPC for I pictures) incl. stuffing, and Table 13 (CBPY). -/
theorem mcbpc_i_table_agrees :
    Lemmas.VlcTables.agrees Gen.MCBPC_I mcbpcITable (fun s => BPE.valid s.1 s.2.1 s.2.2) = true ∧
    vlcWalk Gen.MCBPC_I 0 mcbpcStuffing 0 = .ok (BPE.stuffing, [], 9) :=
  Lemmas.VlcTables.mcbpcI_agrees

theorem cbpy_table_agrees : Lemmas.VlcTables.agrees Gen.CBPY cbpyTable (fun s => some s) = true :=
  Lemmas.VlcTables.cbpy_agrees

/-- A codeword is decoded the same way whatever follows it (the trees are prefix codes): this lifts the table theorems
to codewords inside a bitstream. -/
theorem codeword_in_stream {α : Type} (t : Array (Entry α)) (code rest : Bits) (a : α) (n : Nat)
    (h : vlcWalk t 0 code 0 = .ok (a, [], n)) : vlcWalk t 0 (code ++ rest) 0 = .ok (a, rest, n) :=
  Lemmas.VlcTables.walk_append t code 0 0 a n rest h

/-- Planes are allocated with exactly the signalled size: luma w·h, both chroma planes ⌈w/2⌉·⌈h/2⌉, chroma row ⌈w/2⌉. -/
theorem planes_sized (hdr : PicHdr) (fmt : SrcFmt) (w h : Nat) (hd : fmt.dims = some (w, h)) :
    ∃ p, DecPic.new hdr fmt = some p ∧ p.luma.size = w * h ∧ p.cb.size = ((w + 1) / 2) * ((h + 1) / 2) ∧
      p.cr.size = ((w + 1) / 2) * ((h + 1) / 2) ∧ p.chromaSpr = (w + 1) / 2 ∧ p.fmt = fmt ∧ p.hdr = hdr := by
  unfold DecPic.new
  simp [hd]

/-- Dequantisation (C11) and INTRADC reconstruction as used by the intra path. -/
theorem dequant_spec (q : Nat) (level : Int) : Rle.dequant q level = Spec.Recon.dequant q level :=
  Thm.C11.dequant_spec q level

end H263V.Thm.C02
