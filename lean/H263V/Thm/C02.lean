/-
C02 — intra pictures reconstruct exactly as H.263 prescribes.  Property theorems only.

Picture level (`picture_round_trip`, Sorenson Spark streams, intra and predicted pictures alike): on the bits the specification
encoder writes for a valid picture description the decoder commits exactly the picture computed by the *bit-free* semantics of
the description — header record, per macroblock the quantizer update, vector reconstruction, dequantisation and zig-zag
placement of every block at its position, then motion compensation and the inverse transforms — and consumes exactly those
bits.  The arithmetic inside those semantic steps is the subject of C11 (dequantisation, INTRADC, DQUANT), C12 (vectors) and
C10 (transform accuracy); standard-H.263 headers and truncated pictures are carried by the correspondence runs.
-/
import H263V.Model.State
import H263V.Spec.Recon
import H263V.Lemmas.VlcTables
import H263V.Thm.C11
import H263V.Lemmas.SorensonPicture
import H263V.Lemmas.BasePicture
import H263V.Lemmas.PlusPicture
import H263V.Lemmas.IdctSpec
import H263V.Lemmas.ReconSpec
import H263V.Lemmas.LevelArrays
import H263V.Lemmas.SampleErr
import H263V.Lemmas.IntraEnd
namespace H263V.Thm.C02
open H263V H263V.Gather H263V.Spec.Vlc

/-- The TCOEF tree re-extracted from the source decodes every one of the 102 (LAST, RUN, LEVEL) codewords of Table 16 and
the ESCAPE codeword to the symbol the specification assigns, consuming exactly the codeword. -/
theorem tcoef_table_agrees :
    Lemmas.VlcTables.agrees Gen.TCOEF tcoefTable (fun s => some (TShort.run s.1 s.2.1 s.2.2)) = true ∧
    vlcWalk Gen.TCOEF 0 tcoefEscape 0 = .ok (some TShort.esc, [], 7) :=
  Lemmas.VlcTables.tcoef_agrees

/-- Table 7 (MCBPC for I pictures) incl. stuffing, and Table 13 (CBPY). -/
theorem mcbpc_i_table_agrees :
    Lemmas.VlcTables.agrees Gen.MCBPC_I mcbpcITable (fun s => BPE.valid s.1 s.2.1 s.2.2) = true ∧
    vlcWalk Gen.MCBPC_I 0 mcbpcStuffing 0 = .ok (BPE.stuffing, [], 9) :=
  Lemmas.VlcTables.mcbpcI_agrees

theorem cbpy_table_agrees : Lemmas.VlcTables.agrees Gen.CBPY cbpyTable (fun s => some s) = true :=
  Lemmas.VlcTables.cbpy_agrees

/-- A codeword is decoded the same way whatever follows it (the trees are prefix codes): this lifts the table theorems
to codewords inside a bitstream. -/
theorem codeword_in_stream {α : Type} (t : Array (Entry α)) (code rest : Bits) (a : α) (n : Nat)
    (h : vlcWalk t 0 code 0 = .ok (a, [], n)) : vlcWalk t 0 (code ++ rest) 0 = .ok (a, rest, n) :=
  Lemmas.VlcTables.walk_append t code 0 0 a n rest h

/-- Planes are allocated with exactly the signalled size: luma w·h, both chroma planes ⌈w/2⌉·⌈h/2⌉, chroma row ⌈w/2⌉. -/
theorem planes_sized (hdr : PicHdr) (fmt : SrcFmt) (w h : Nat) (hd : fmt.dims = some (w, h)) :
    ∃ p, DecPic.new hdr fmt = some p ∧ p.luma.size = w * h ∧ p.cb.size = ((w + 1) / 2) * ((h + 1) / 2) ∧
      p.cr.size = ((w + 1) / 2) * ((h + 1) / 2) ∧ p.chromaSpr = (w + 1) / 2 ∧ p.fmt = fmt ∧ p.hdr = hdr := by
  unfold DecPic.new
  simp [hd]

/-- Dequantisation (C11) and INTRADC reconstruction as used by the intra path. -/
theorem dequant_spec (q : Nat) (level : Int) : Rle.dequant q level = Spec.Recon.dequant q level :=
  Thm.C11.dequant_spec q level


open H263V.State H263V.Lemmas.SorensonPicture H263V.Lemmas.PictureRoundTrip H263V.Lemmas.RoundTrip H263V.Spec.Syntax in
/-- **Picture round trip.**  For every decoder state in Sorenson mode, every valid picture description `p` (`SPic.Valid`: header
fields in range; exactly the picture's macroblocks; every macroblock's MCBPC / DQUANT / MVD codable; every block's INTRADC
code and coefficient events codable in the stream's flavour) and whatever follows it:
`decode_next_picture (encode p ++ rest)` = (bit-free semantics of `p`), committed, with the reader at `rest`. -/
theorem picture_round_trip (s : State) (hs : s.opts.sorenson = true) (hr : s.running = 0) (p : SPic) (w h : Nat)
    (hv : p.Valid s.opts w h) (rest : Bits) (pos : Nat) :
    decodeNextPicture s ⟨p.bits ++ rest, pos⟩ =
      semCore s (Spec.HeaderSpec.sorensonPicture p.hdr) p.mbs >>= fun r => .ok (commitPic s r.1 r.2, ⟨rest, pos + p.bits.length⟩) :=
  decode_spic s hs hr p w h hv rest pos

open H263V.State H263V.Lemmas.BasePicture H263V.Lemmas.PictureRoundTrip in
/-- The same for baseline standard-H.263 pictures (PTYPE headers; 8-bit escapes; no PB frames; standard mode without the
scalability option; the previous picture, if any, of the same source format). -/
theorem picture_round_trip_baseline (s : State) (hs : s.opts = { sorenson := false, scalability := false }) (hr : s.running = 0)
    (p : BPic) (w h : Nat) (hv : p.Valid s.opts w h)
    (hprev : ∀ q, s.getLast = some q → q.hdr.format = some (Spec.HeaderSpec.stdFmt p.hdr.srcFmt)) (rest : Bits) (pos : Nat) :
    decodeNextPicture s ⟨p.bits ++ rest, pos⟩ =
      semCore s (Spec.HeaderSpec.basePicture p.hdr) p.mbs >>= fun r => .ok (commitPic s r.1 r.2, ⟨rest, pos + p.bits.length⟩) :=
  decode_bpic s hs hr p w h hv hprev rest pos

open H263V.State H263V.Lemmas.PlusPicture H263V.Lemmas.PictureRoundTrip in
/-- The same for H.263v2 pictures with a PLUSPTYPE header (both UFEP codes, custom picture formats, custom clock, scalability
negotiated or not, in ANY decoder state in standard mode): I and P pictures whose options in force keep the macroblock layer in the
plain syntax (no modified quantization, which the decoder rejects; no PLUSPTYPE unrestricted-MV coding of differentials — with
UFEP = 001 these are the header's own MQ and UMV bits: `plusptype_plain_syntax`).  All other announced modes are parsed and
recorded but, as in the code, do not alter the reconstruction. -/
theorem picture_round_trip_plusptype (s : State) (hs : s.opts.sorenson = false) (p : PPic) (w h : Nat) (hv : p.Valid s w h)
    (rest : Bits) (pos : Nat) :
    decodeNextPicture s ⟨p.bits s ++ rest, pos⟩ =
      semCore s (p.picture s) p.mbs >>= fun r => .ok (commitPic s r.1 r.2, ⟨rest, pos + (p.bits s).length⟩) :=
  decode_ppic s hs p w h hv rest pos

open H263V.State H263V.Lemmas.PlusPicture in
theorem plusptype_plain_syntax (s : State) (p : PPic) (hu : p.hdr.ufep = true) :
    Opt.has (nextRunning (p.picture s) s.running) Opt.MODIFIED_QUANTIZATION = p.hdr.mq ∧
    Opt.has (nextRunning (p.picture s) s.running) Opt.UNRESTRICTED_MOTION_VECTORS = p.hdr.umv :=
  plain_of_ufep s p hu

open H263V.State H263V.Lemmas.SorensonPicture H263V.Lemmas.PictureRoundTrip in
/-- The decoded picture reports the header it was decoded from and the format that header signals; its planes have the
signalled sizes (`planes_sized`). -/
theorem decoded_picture_reports_header (s : State) (hdr : PicHdr) (mbs : List Spec.Syntax.MbD) (r : PicHdr × DecPic)
    (h : semCore s hdr mbs = .ok r) : r.2.hdr = hdr ∧ ∀ f, hdr.format = some f → r.2.fmt = f :=
  ⟨(semCore_hdr s hdr mbs r h).2.1, (semCore_hdr s hdr mbs r h).2.2⟩

open H263V.Lemmas.IdctSpec in
/-- **Block position, cropping and clipping for every plane size.**  Whenever `idct_channel` returns (any level array, any plane,
any blocks-per-line >= 1 and samples-per-line >= 1, multiples of 8 or not), sample `k` — column `k % spl` of row `k / spl` — holds
`clamp 0..255 (prediction + residual of block (column / 8, row / 8) at offset (column % 8, row % 8))` when that block is in the
level array, and its previous value otherwise (rows below the last whole line, columns right of the last block column, `Zero`
blocks); the plane keeps its size.  The residual of a block is the (soft-float) inverse transform of its shape (C10). -/
theorem idct_channel_pointwise (levels : Array Rle.Dct) (output : Array Nat) (bpl spl : Nat) (hb : 1 ≤ bpl) (hs : 1 ≤ spl)
    (r : Array Nat) (h : Idct.idctChannel levels output bpl spl = .ok r) :
    r.size = output.size ∧ ∀ k, r.getD k 0 = idctAt levels bpl spl output k :=
  idctChannel_spec levels output bpl spl hb hs r h

open H263V.State H263V.Lemmas.LevelArrays H263V.Lemmas.PictureRoundTrip in
/-- **Macroblock / block position and quantizer tracking.**  For any list of macroblock descriptions run through the (bit-free)
macroblock loop from any loop state, with `m >= 1` macroblocks per line: there is the chain `qs` of quantizers in force (`QChain`:
each coded macroblock's quantizer is `update_quant` — clamp(1, 31, previous + DQUANT), C11 — of the previous one, a not-coded
macroblock keeps it), the type array grows by the macroblocks' types (INTER for not-coded ones), and the coefficient arrays are
the previous arrays with exactly these slots rewritten: luma slot `id` — column `id % 2m`, row `id / 2m` of the 8x8-block grid —
holds block `id % 2m % 2 + 2 * (id / 2m % 2)` of macroblock `id % 2m / 2 + id / 2m / 2 * m`, chroma slot `id` holds block 4 / 5 of
macroblock `id`, each expanded (`inverseRleBlock`: zig-zag placement, dequantisation, shape; C11) with THAT macroblock's quantizer;
slots of not-coded macroblocks, of blocks without coefficients and of macroblocks outside the list keep their content.  These are
the slots `idct_channel` reads for the samples of that block (`idct_channel_pointwise`). -/
theorem level_arrays (hdr : PicHdr) (dims : Option (Nat × Nat)) (running m : Nat) (hm : 1 ≤ m) (mbs : List Spec.Syntax.MbD)
    (l l' : Loop) (h : semMbs hdr dims running m mbs l = .ok l') :
    ∃ qs, QChain l.quant mbs qs ∧ l'.types = l.types ++ (mbs.map typeOf).toArray ∧
      (l'.lumaLv.size = l.lumaLv.size ∧
        ∀ id, l'.lumaLv.getD id .zero = lumaLvAt m l.types.size mbs qs (l.lumaLv.getD id .zero) id) ∧
      (l'.cbLv.size = l.cbLv.size ∧ ∀ id, l'.cbLv.getD id .zero = chromaLvAt l.types.size mbs qs 4 (l.cbLv.getD id .zero) id) ∧
      (l'.crLv.size = l.crLv.size ∧ ∀ id, l'.crLv.getD id .zero = chromaLvAt l.types.size mbs qs 5 (l.crLv.getD id .zero) id) :=
  semMbs_levels hdr dims running m hm mbs l l' h

open H263V.State H263V.Lemmas.ReconSpec in
/-- **Every sample of an intra picture.**  The reconstruction step of `decode_next_picture` for a picture without INTER macroblocks
(every I picture; the reference is irrelevant): plane sizes are kept, and sample `k` of each plane is
`clamp 0..255 (initial value + residual of the block covering it at its offset inside the block)` — `idctVal` — where the blocks are
the level arrays filled by the macroblock loop (C11: dequantised, zig-zag placed) and the initial value of a fresh picture is 0. -/
theorem intra_picture_samples (types : Array MbType) (ref : Option DecPic) (mvs : Array Mv.Mv4) (m w : Nat) (pic out : DecPic)
    (lumaLv cbLv crLv : Array Rle.Dct) (hw : 1 ≤ w) (hc : 1 ≤ pic.chromaSpr) (hm : m ≠ 0)
    (hall : ∀ i, i < types.size → (types.getD i .inter).isInter = false)
    (h : reconstruct types ref mvs m w pic lumaLv cbLv crLv = .ok out) :
    (out.luma.size = pic.luma.size ∧ ∀ k, out.luma.getD k 0 = idctVal lumaLv (m * 2) w pic.luma.size k (pic.luma.getD k 0)) ∧
    (out.cb.size = pic.cb.size ∧ ∀ k, out.cb.getD k 0 = idctVal cbLv m pic.chromaSpr pic.cb.size k (pic.cb.getD k 0)) ∧
    (out.cr.size = pic.cr.size ∧ ∀ k, out.cr.getD k 0 = idctVal crLv m pic.chromaSpr pic.cr.size k (pic.cr.getD k 0)) :=
  reconstruct_intra types ref mvs m w pic out lumaLv cbLv crLv hw hc hm hall h

open H263V.State H263V.Lemmas.SampleErr in
/-- **The statement of C02, sample by sample.**  For a picture without INTER macroblocks whose level arrays hold blocks with
entries of magnitude at most 2048 (`AllBounded`: what dequantisation and INTRADC reconstruction produce, C11), every sample of every
plane of the reconstructed picture differs by at most one from the H.263 reconstruction `idealVal`: clip to 0..255 of the plane's
initial value (0 in a fresh picture) plus the REFERENCE inverse transform — exact arithmetic, nearest integer, clipped to -256..255 —
of the 64 dequantised, zig-zag-placed levels of the 8x8 block covering the sample (`expand`, C11), at the sample's offset in the
block.  Composition of `intra_picture_samples` with the peak-error theorem for every block shape (C10, error analysis). -/
theorem intra_samples_within_one_of_ideal (types : Array MbType) (ref : Option DecPic) (mvs : Array Mv.Mv4) (m w : Nat)
    (pic out : DecPic) (lumaLv cbLv crLv : Array Rle.Dct) (hw : 1 ≤ w) (hc : 1 ≤ pic.chromaSpr) (hm : m ≠ 0)
    (hall : ∀ i, i < types.size → (types.getD i .inter).isInter = false)
    (hl : AllBounded lumaLv) (hb : AllBounded cbLv) (hr : AllBounded crLv)
    (h : reconstruct types ref mvs m w pic lumaLv cbLv crLv = .ok out) :
    (∀ k, ((out.luma.getD k 0 : Int) - (idealVal lumaLv (m * 2) w pic.luma.size k (pic.luma.getD k 0) : Int)).natAbs ≤ 1) ∧
    (∀ k, ((out.cb.getD k 0 : Int) - (idealVal cbLv m pic.chromaSpr pic.cb.size k (pic.cb.getD k 0) : Int)).natAbs ≤ 1) ∧
    (∀ k, ((out.cr.getD k 0 : Int) - (idealVal crLv m pic.chromaSpr pic.cr.size k (pic.cr.getD k 0) : Int)).natAbs ≤ 1) :=
  intra_close types ref mvs m w pic out lumaLv cbLv crLv hw hc hm hall hl hb hr h

open H263V.Lemmas.RoundTrip H263V.Spec.Syntax in
/-- Block layer on its own: `decode_block` returns exactly the INTRADC code and the (run, level) events written, in order,
for short and escape-coded events of the stream's flavour, and consumes exactly the block's bits. -/
theorem block_round_trip (d : DecOpts) (hdr : PicHdr) (running : Nat) (t : MbType) (b : BlockD) (hb : BlockOK d hdr t b)
    (rest : Bits) (pos : Nat) :
    Mb.decodeBlock d hdr running t (codedFlag b) ⟨encodeBlock b ++ rest, pos⟩ = .ok (toBlock b, ⟨rest, pos + (encodeBlock b).length⟩) :=
  decodeBlock_encode d hdr running t b hb rest pos

open H263V.Lemmas.RoundTrip H263V.Spec.Syntax in
/-- Macroblock layer on its own: [COD] MCBPC CBPY [DQUANT] [MVD] [MVD2-4] is parsed back to exactly what was written. -/
theorem macroblock_header_round_trip (hdr : PicHdr) (running : Nat) (ip : Bool) (ctx : HdrCtx hdr running ip) (t : MbType)
    (f : Bool × Bool × Bool × Bool) (ccb ccr : Bool) (dq : Int) (mvd : Mvd) (mvd234 : Mvd × Mvd × Mvd)
    (hmc : (Spec.Vlc.mcbpcCode ip t ccb ccr).isSome = true)
    (hdq : t.hasQuantizer = true → DqVal dq) (hmv : t.isInter = true → MvdVal mvd)
    (h4 : t.hasFourVec = true → MvdVal mvd234.1 ∧ MvdVal mvd234.2.1 ∧ MvdVal mvd234.2.2) (rest : Bits) (pos : Nat) :
    Mb.decodeMacroblock hdr running ⟨encodeMbHeader ip t f ccb ccr dq mvd mvd234 ++ rest, pos⟩ =
      .ok (toMacroblock t f ccb ccr dq mvd mvd234, ⟨rest, pos + (encodeMbHeader ip t f ccb ccr dq mvd mvd234).length⟩) :=
  decodeMacroblock_coded hdr running ip ctx t f ccb ccr dq mvd mvd234 hmc hdq hmv h4 rest pos

/-- a 16x16 intra picture of one INTRA+Q macroblock (DQUANT −2) with a short event, a 7-bit and an 11-bit escape event and
DC-only blocks -/
def exSPic : Lemmas.SorensonPicture.SPic :=
  ⟨{ version := 1, tr := 7, sizeCode := 0, customW := 16, customH := 16, picType := 0, deblock := true, quant := 5, extra := [9] },
    [⟨1, .coded .intraQ (-2) (0, 0) ((0, 0), (0, 0), (0, 0))
      [{ dc := some 100, events := [⟨0, 3, .short⟩, ⟨2, -50, .esc7⟩, ⟨5, 700, .esc11⟩] }, { dc := some 255 }, { dc := some 1 },
       { dc := some 127 }, { dc := some 129, events := [⟨63, -1, .esc7⟩] }, { dc := some 200 }]⟩]⟩

open H263V.Lemmas.SorensonPicture H263V.Lemmas.PictureRoundTrip H263V.Lemmas.RoundTrip H263V.Spec.Syntax in
/-- non-vacuity: `exSPic` meets `SPic.Valid` -/
theorem exSPic_valid : exSPic.Valid { sorenson := true, scalability := false } 16 16 := by
  unfold exSPic
  refine ⟨⟨by decide, by decide, by decide, by decide, by decide, by decide, by decide, by decide⟩, by decide, rfl, rfl, ?_⟩
  intro m hm
  simp only [List.mem_singleton] at hm
  subst hm
  refine ⟨by decide, fun _ => Or.inl rfl, fun h => by simp [MbType.isInter] at h, fun h => by simp [MbType.hasFourVec] at h, ?_⟩
  intro i hi
  have : i = 0 ∨ i = 1 ∨ i = 2 ∨ i = 3 ∨ i = 4 ∨ i = 5 := by omega
  rcases this with e | e | e | e | e | e <;> subst e <;>
    refine ⟨⟨_, rfl, by decide, by decide, by decide⟩, ?_⟩ <;>
    simp only [blk, List.getD_cons_zero, List.getD_cons_succ, EventsOK, EventOK, v1] <;> decide

open H263V.State H263V.Lemmas.PlusPicture H263V.Lemmas.PictureRoundTrip H263V.Lemmas.RoundTrip H263V.Spec.Syntax in
/-- non-vacuity: a fresh standard-mode decoder and a 16x16 custom-format PLUSPTYPE intra picture (custom clock, advanced
prediction and deblocking-filter bits set, CPM) of one INTRA macroblock meet `PPic.Valid` -/
example : (⟨{ tr := 9, ufep := true, srcFmt := 6, customPcf := true, ap := true, df := true, picType := 0, rtype := true, cpm := some 2, par := 2, pwi := 3, phi := 4, cpcfc := 30, etr := 1, quant := 7, extra := [5] },
    [⟨0, .coded .intra 0 (0, 0) ((0, 0), (0, 0), (0, 0))
      [{ dc := some 100, events := [⟨0, 3, .short⟩, ⟨2, -50, .esc8⟩] }, { dc := some 255 }, { dc := some 1 },
       { dc := some 127 }, { dc := some 129 }, { dc := some 200 }]⟩]⟩ : PPic).Valid
    (State.new { sorenson := false, scalability := false }) 16 16 := by
  refine ⟨⟨by decide, by decide, by decide, ⟨rfl, rfl, rfl, rfl, rfl, rfl⟩, rfl, ?_, ?_, by decide, by decide, by decide, ?_,
    by decide, by decide, by decide, by decide, rfl⟩, by decide, ?_, ?_, rfl, rfl, ?_⟩
  · intro q hq; cases hq; decide
  · intro _ _; exact ⟨by decide, by decide, by decide, fun h => by simp at h⟩
  · intro v hv; cases hv
  · rw [(plain_of_ufep _ _ rfl).1]
  · rw [(plain_of_ufep _ _ rfl).2]
  · intro m hm
    simp only [List.mem_singleton] at hm
    subst hm
    refine ⟨by decide, fun h => by simp [MbType.hasQuantizer] at h, fun h => by simp [MbType.isInter] at h,
      fun h => by simp [MbType.hasFourVec] at h, ?_⟩
    intro i hi
    have : i = 0 ∨ i = 1 ∨ i = 2 ∨ i = 3 ∨ i = 4 ∨ i = 5 := by omega
    rcases this with e | e | e | e | e | e <;> subst e <;>
      refine ⟨⟨_, rfl, by decide, by decide, by decide⟩, ?_⟩ <;>
      simp only [blk, List.getD_cons_zero, List.getD_cons_succ, EventsOK, EventOK, v1] <;> decide

open H263V.State H263V.Lemmas.StreamAny H263V.Lemmas.LevelArrays H263V.Lemmas.SampleErr H263V.Lemmas.PlaneInv in
/-- **C02 in one statement.**  In every decoder state a history can reach (`StoreOK`: the invariant of C01, `invariant_of_history`;
carried-over options empty: `C15.running_zero_of_history`), a valid intra picture of ANY header flavour (Sorenson, PTYPE, PLUSPTYPE)
with a non-empty picture area, followed by anything:
* **decodes successfully** (no error value; the panics are excluded by C01's totality theorem) and leaves the reader exactly
  behind the picture's bits;
* the decoded picture reports the header; its planes have **exactly the signalled sizes** `w*h`, `ceil(w/2)*ceil(h/2)` twice;
* the level arrays the inverse transform reads hold, slot by slot, the blocks of the description at their macroblock / block
  position, each expanded (zig-zag placement, dequantisation, INTRADC; C11) with the quantizer in force at its macroblock
  (`QChain`: picture quantizer, then clamp(1, 31, previous + DQUANT));
* **every sample of every plane is within one of the H.263 reconstruction** `idealVal`: clip to 0..255 of the reference inverse
  transform — exact arithmetic, nearest integer, clipped to -256..255 — of the block covering the sample (C10's error analysis).
The statement composes the syntax round trip, the level-array and sample theorems above and C01. -/
theorem intra_picture_decodes_within_one (s : State) (hs : StoreOK s) (hr : s.running = 0) (p : Pic) (w h : Nat) (hv : p.Valid s w h)
    (hw : 1 ≤ w) (hh : 1 ≤ h) (hi : (p.picture s).picType = .iFrame) (rest : Bits) (pos : Nat) :
    ∃ (pic : DecPic) (lumaLv cbLv crLv : Array Rle.Dct) (qs : List Nat),
      decodeNextPicture s ⟨p.bits s ++ rest, pos⟩ =
        .ok (commitPic s (p.picture s) pic, ⟨rest, pos + (p.bits s).length⟩) ∧
      pic.hdr = p.picture s ∧ QChain (p.picture s).quantizer p.mbs qs ∧
      (∀ id, lumaLv.getD id .zero = lumaLvAt ((w + 15) / 16) 0 p.mbs qs .zero id) ∧
      (∀ id, cbLv.getD id .zero = chromaLvAt 0 p.mbs qs 4 .zero id) ∧
      (∀ id, crLv.getD id .zero = chromaLvAt 0 p.mbs qs 5 .zero id) ∧
      pic.luma.size = w * h ∧ pic.cb.size = (w + 1) / 2 * ((h + 1) / 2) ∧ pic.cr.size = (w + 1) / 2 * ((h + 1) / 2) ∧
      (∀ k, ((pic.luma.getD k 0 : Int) - (idealVal lumaLv ((w + 15) / 16 * 2) w (w * h) k 0 : Int)).natAbs ≤ 1) ∧
      (∀ k, ((pic.cb.getD k 0 : Int) -
        (idealVal cbLv ((w + 15) / 16) ((w + 1) / 2) ((w + 1) / 2 * ((h + 1) / 2)) k 0 : Int)).natAbs ≤ 1) ∧
      (∀ k, ((pic.cr.getD k 0 : Int) -
        (idealVal crLv ((w + 15) / 16) ((w + 1) / 2) ((w + 1) / 2 * ((h + 1) / 2)) k 0 : Int)).natAbs ≤ 1) :=
  Lemmas.IntraEnd.intra_picture_decodes s hs hr p w h hv hw hh hi rest pos

open H263V.State H263V.Lemmas.StreamAny in
/-- non-vacuity: the hypotheses are met by a fresh Sorenson decoder and `exSPic`, so that picture decodes successfully -/
example (rest : Bits) : ∃ pic, decodeNextPicture (State.new { sorenson := true, scalability := false })
    ⟨(Pic.sor exSPic).bits (State.new { sorenson := true, scalability := false }) ++ rest, 0⟩ =
      .ok (commitPic (State.new { sorenson := true, scalability := false })
        ((Pic.sor exSPic).picture (State.new { sorenson := true, scalability := false })) pic,
        ⟨rest, 0 + ((Pic.sor exSPic).bits (State.new { sorenson := true, scalability := false })).length⟩) ∧ pic.luma.size = 16 * 16 := by
  obtain ⟨pic, _, _, _, _, h, _, _, _, _, _, hz, _⟩ :=
    intra_picture_decodes_within_one (State.new { sorenson := true, scalability := false })
      (Lemmas.PlaneInv.new_storeOK _) rfl (Pic.sor exSPic) 16 16 ⟨rfl, exSPic_valid⟩ (by omega) (by omega) rfl rest 0
  exact ⟨pic, h, hz⟩

end H263V.Thm.C02
