/- Driver ops for the hook-level unit cases (L, IDC, M, A, LP, MED, N, T). -/
import H263V.Model.Show
import H263V.Model.Util
import H263V.Spec.Recon
import H263V.Spec.AnnexA
open H263V H263V.Util H263V.Mb H263V.Mv H263V.Rle

namespace DriverUnits

def ints (s : String) : List Int := if s == "-" then [] else (s.splitOn ",").filterMap String.toInt?

def dctS : Dct → String
  | .zero => "Z"
  | .dc v => s!"D:{v}"
  | .horiz r => "H:" ++ ",".intercalate (r.map toString)
  | .vert r => "V:" ++ ",".intercalate (r.map toString)
  | .full d => "F:" ++ ",".intercalate (d.map toString)

def runL (q dc evs : String) : String :=
  match q.toNat? with
  | none => "bad-op"
  | some q =>
    let dcv : Option Nat := if dc == "-" then none else dc.toNat?
    if (dcv == some 0 || dcv == some 128) then "L invalid-dc" else
    let tc : List TCoef := if evs == "-" then [] else
      (evs.splitOn ";").filterMap fun e => match e.splitOn "," with
        | [r, l] => (match r.toNat?, l.toInt? with
          | some r, some l => some { isShort := false, run := r, level := l }
          | _, _ => none)
        | _ => none
    match inverseRle { intradc := dcv, tcoef := tc } #[.dc 7] (0, 0) 1 q with
    | .ok lv => s!"L {dctS (lv.getD 0 .zero)}"
    | _ => "L PANIC"

def runIDC (c : String) : String :=
  match c.toNat? with
  | some c => if c == 0 || c == 128 then "IDC none" else s!"IDC {intraDcLevel c}"
  | none => "bad-op"

def mkHdr (plus : Bool) (mvr : String) : PicHdr :=
  { version := none, tr := 0, format := none, options := 0, hasPlusptype := plus, hasOpptype := plus, picType := .pFrame,
    mvRange := if mvr == "E" then some .extended else if mvr == "U" then some .unlimited else none,
    sliceSubmode := none, layer := none, rpsMode := none, predictionRef := none, quantizer := 1, multiplex := none,
    pbReference := none, pbQuantizer := none, extra := [] }

def runM (a : List String) : String :=
  match a with
  | [plus, umv, mvr, w, h, px, py, dx, dy] =>
    match w.toNat?, h.toNat?, px.toInt?, py.toInt?, dx.toInt?, dy.toInt? with
    | some w, some h, some px, some py, some dx, some dy =>
      let r := mvDecode (mkHdr (plus == "1") mvr) (some (w, h)) (if umv == "1" then Opt.UNRESTRICTED_MOTION_VECTORS else 0) (px, py) (dx, dy)
      s!"M {r.1},{r.2}"
    | _, _, _, _, _, _ => "bad-op"
  | _ => "bad-op"

def mv4OfList (l : List Int) : Mv4 :=
  ((l.getD 0 0, l.getD 1 0), (l.getD 2 0, l.getD 3 0), (l.getD 4 0, l.getD 5 0), (l.getD 6 0, l.getD 7 0))

def runN (mbpl idx cur pv : String) : String :=
  match mbpl.toNat?, idx.toNat? with
  | some mbpl, some idx =>
    let c := mv4OfList (ints cur)
    let p := ints pv
    let pvs : Array Mv4 := ((List.range (p.length / 8)).map fun k => mv4OfList (p.drop (8 * k))).toArray
    match predictCandidate pvs c mbpl idx with
    | .ok r => s!"N {r.1},{r.2}"
    | _ => "N PANIC"
  | _, _ => "bad-op"

def parseBlock (s : String) : Dct :=
  if s == "Z" then .zero else
  match s.splitOn ":" with
  | [k, v] =>
    let vals := ints v
    if k == "D" then .dc (vals.getD 0 0) else if k == "H" then .horiz (vals.take 8)
    else if k == "V" then .vert (vals.take 8) else .full vals
  | _ => .zero

def runT (a : List String) : String :=
  match a with
  | bpl :: spl :: n :: pred :: blocks =>
    -- the prediction: one value for the whole plane, or `p<hex plane>`
    let plane : Option (Array Nat) :=
      if pred.startsWith "p" then unhex (pred.drop 1).toString else (pred.toNat?).bind fun v => n.toNat?.map fun k => Array.replicate k v
    match bpl.toNat?, spl.toNat?, n.toNat?, plane with
    | some bpl, some spl, some n, some plane =>
      if plane.size != n then "bad-op" else
      match Idct.idctChannel (blocks.map parseBlock).toArray plane bpl spl with
      | .ok o => s!"T {hex o}"
      | _ => "T PANIC"
    | _, _, _, _ => "bad-op"
  | _ => "bad-op"

def run (toks : List String) : Option String :=
  match toks with
  | ["L", q, dc, evs] => some (runL q dc evs)
  | ["IDC", c] => some (runIDC c)
  | "M" :: rest => some (runM rest)
  | ["A", s] => (s.toInt?).map fun v => s!"A {averageSum v}"
  | ["LP", s] => (s.toInt?).map fun v => let (d, i) := lerpParams v; s!"LP {d} {if i then 1 else 0}"
  | ["MED", a, b, c] => (match a.toInt?, b.toInt?, c.toInt? with
      | some a, some b, some c => some s!"MED {medianOf a b c}"
      | _, _, _ => none)
  -- specification evaluators (search oracle)
  | ["LS", q, "-", ev] =>
    (match q.toNat?, ev.splitOn "," with
      | some q, [r, l] => (match r.toNat?, l.toInt? with
        | some r, some l =>
          if r ≥ 64 then some "L D:7" else
          let v := Spec.Recon.dequant q l
          let (x, y) := Spec.Recon.zigzag r
          let grid : List Int := (List.replicate 64 0).set (8 * y + x) v
          -- expected block content, in the shape classification the decoder uses
          some (if v == 0 then "L Z"
                else if x == 0 && y == 0 then s!"L D:{v}"
                else if y == 0 then "L H:" ++ ",".intercalate ((grid.take 8).map toString)
                else if x == 0 then "L V:" ++ ",".intercalate (((List.range 8).map fun k => grid.getD (8 * k) 0).map toString)
                else "L F:" ++ ",".intercalate (grid.map toString))
        | _, _ => none)
      | _, _ => none)
  | ["IDCS", c] => (c.toNat?).map fun c => match Spec.Recon.intraDc c with | some v => s!"IDC {v}" | none => "IDC none"
  | ["AS", s] => (s.toInt?).map fun v => s!"A {Spec.Recon.chromaVector v}"
  | ["LPS", s] => (s.toInt?).map fun v => s!"LP {v / 2} {if v % 2 = 1 then 1 else 0}"
  | ["MEDS", a, b, c] => (match a.toInt?, b.toInt?, c.toInt? with
      | some a, some b, some c => some s!"MED {Spec.Recon.median a b c}"
      | _, _, _ => none)
  | ["MS", _, _, _, _, _, px, py, dx, dy] => (match px.toInt?, py.toInt?, dx.toInt?, dy.toInt? with
      | some px, some py, some dx, some dy => some s!"M {Spec.Recon.wrapVector px dx},{Spec.Recon.wrapVector py dy}"
      | _, _, _, _ => none)
  | ["N", mbpl, idx, cur, pv] => some (runN mbpl idx cur pv)
  | "T" :: rest => some (runT rest)
  -- reference transform of the first block of a T line (full or sparse shape), samples clipped to -256..255
  | "TR" :: _ :: _ :: _ :: _ :: blk :: _ =>
    let full : Array Int := match parseBlock blk with
      | .zero => Array.replicate 64 0
      | .dc v => (Array.replicate 64 (0 : Int)).set! 0 v
      | .horiz r => Array.ofFn (n := 64) fun i => if i.val / 8 = 0 then r.getD (i.val % 8) 0 else 0
      | .vert c => Array.ofFn (n := 64) fun i => if i.val % 8 = 0 then c.getD (i.val / 8) 0 else 0
      | .full d => d.toArray
    some ("TR " ++ ",".intercalate ((Spec.AnnexA.refIdct full).toList.map toString))
  | _ => none

end DriverUnits
