/-
The coefficient arrays the macroblock loop builds: block `j` of macroblock `i` is dequantised with the quantizer in force for that
macroblock (the picture quantizer after the DQUANT updates of macroblocks 0..i) and filed at the position `idct_channel` reads it
from; nothing else is written.
-/
import H263V.Lemmas.PictureRoundTrip
import H263V.Lemmas.IdctSpec
namespace H263V.Lemmas.LevelArrays
open H263V H263V.State H263V.Mb H263V.Rle H263V.Mv H263V.Spec.Syntax
open H263V.Lemmas.PictureRoundTrip H263V.Lemmas.RoundTrip H263V.Lemmas.IdctSpec

theorem getD_setD (t : Array Dct) (i : Nat) (v : Dct) (k : Nat) :
    (t.set! i v).getD k .zero = if i = k ∧ k < t.size then v else t.getD k .zero := by
  simp only [Array.set!_eq_setIfInBounds, Array.getD_eq_getD_getElem?, Array.getElem?_setIfInBounds]
  by_cases h : i = k
  · subst h
    by_cases hk : i < t.size
    · simp [hk]
    · simp [hk]
  · simp [h]

/-- `inverse_rle`: the block's slot receives the expanded block (when it has one); nothing else changes -/
theorem inverseRle_spec (b : Block) (lv lv' : Array Dct) (pos : Nat × Nat) (bpl q : Nat) (h : inverseRle b lv pos bpl q = .ok lv') :
    lv'.size = lv.size ∧ ∀ id, lv'.getD id .zero =
      if id = pos.1 / 8 + pos.2 / 8 * bpl then (inverseRleBlock b q).getD (lv.getD id .zero) else lv.getD id .zero := by
  unfold inverseRle at h
  simp only at h
  split at h
  · rename_i hlt
    cases hb : inverseRleBlock b q with
    | none =>
      rw [hb] at h
      simp only [Out.ok.injEq] at h
      subst h
      exact ⟨rfl, fun id => by simp⟩
    | some d =>
      rw [hb] at h
      simp only [Out.ok.injEq] at h
      subst h
      refine ⟨by simp, fun id => ?_⟩
      rw [getD_setD]
      by_cases hid : id = pos.1 / 8 + pos.2 / 8 * bpl
      · subst hid
        rw [if_pos ⟨rfl, hlt⟩, if_pos rfl]; rfl
      · rw [if_neg (fun hh => hid hh.1.symm), if_neg hid]
  · cases h

/-- a position in the macroblock grid: column `a < m` of row `c` is macroblock `n` -/
theorem inMb_iff (m n a c : Nat) (ha : a < m) : (a = n % m ∧ c = n / m) ↔ a + c * m = n := by
  constructor
  · rintro ⟨rfl, rfl⟩
    have := Nat.mod_add_div n m
    rw [Nat.mul_comm] at this
    exact this
  · intro h
    obtain ⟨d1, d2⟩ := idx_div_mod m a c ha
    rw [h] at d1 d2
    exact ⟨d2.symm, d1.symm⟩

/-- what a macroblock description files for its block `j`, over the slot's previous content -/
def lvOf (mb : MbD) (q : Nat) (j : Nat) (old : Dct) : Dct :=
  match mb.kind with
  | .notCoded => old
  | .coded _ _ _ _ blocks => (inverseRleBlock (toBlock (blk blocks j)) q).getD old

/-- the type the loop files for a macroblock -/
def typeOf (mb : MbD) : MbType :=
  match mb.kind with
  | .notCoded => .inter
  | .coded t _ _ _ _ => t

/-- one macroblock of the loop: quantizer, type, and the six slots -/
theorem semMb_levels (hdr : PicHdr) (dims : Option (Nat × Nat)) (running m : Nat) (hm : 1 ≤ m) (l l' : Loop) (mb : MbD)
    (h : semMb hdr dims running m l mb = .ok l') :
    (match mb.kind with
      | .notCoded => l'.quant = l.quant
      | .coded t dq _ _ _ => updateQuant l.quant (if t.hasQuantizer then some dq else none) = .ok l'.quant) ∧
    l'.types = l.types.push (typeOf mb) ∧
    (l'.lumaLv.size = l.lumaLv.size ∧ ∀ id, l'.lumaLv.getD id .zero =
      if id % (m * 2) / 2 + id / (m * 2) / 2 * m = l.types.size then
        lvOf mb l'.quant (id % (m * 2) % 2 + 2 * (id / (m * 2) % 2)) (l.lumaLv.getD id .zero)
      else l.lumaLv.getD id .zero) ∧
    (l'.cbLv.size = l.cbLv.size ∧ ∀ id, l'.cbLv.getD id .zero =
      if id = l.types.size then lvOf mb l'.quant 4 (l.cbLv.getD id .zero) else l.cbLv.getD id .zero) ∧
    (l'.crLv.size = l.crLv.size ∧ ∀ id, l'.crLv.getD id .zero =
      if id = l.types.size then lvOf mb l'.quant 5 (l.crLv.getD id .zero) else l.crLv.getD id .zero) := by
  unfold semMb at h
  cases hk : mb.kind with
  | notCoded =>
    rw [hk] at h
    simp only at h
    split at h
    · cases h
    · simp only [Out.ok.injEq] at h
      subst h
      simp [lvOf, typeOf, hk]
  | coded t dq mvd mvd234 blocks =>
    rw [hk] at h
    simp only at h
    unfold codedMbSem at h
    obtain ⟨q, eq, h⟩ := out_bind_ok _ _ _ h
    obtain ⟨mvs, _, h⟩ := out_bind_ok _ _ _ h
    obtain ⟨l0, e0, h⟩ := out_bind_ok _ _ _ h
    obtain ⟨l1, e1, h⟩ := out_bind_ok _ _ _ h
    obtain ⟨l2, e2, h⟩ := out_bind_ok _ _ _ h
    obtain ⟨l3, e3, h⟩ := out_bind_ok _ _ _ h
    obtain ⟨cb, e4, h⟩ := out_bind_ok _ _ _ h
    obtain ⟨cr, e5, h⟩ := out_bind_ok _ _ _ h
    cases h
    obtain ⟨s0, g0⟩ := inverseRle_spec _ _ _ _ _ _ e0
    obtain ⟨s1, g1⟩ := inverseRle_spec _ _ _ _ _ _ e1
    obtain ⟨s2, g2⟩ := inverseRle_spec _ _ _ _ _ _ e2
    obtain ⟨s3, g3⟩ := inverseRle_spec _ _ _ _ _ _ e3
    obtain ⟨s4, g4⟩ := inverseRle_spec _ _ _ _ _ _ e4
    obtain ⟨s5, g5⟩ := inverseRle_spec _ _ _ _ _ _ e5
    simp only at g0 g1 g2 g3 g4 g5
    have hX : l.types.size % m < m := Nat.mod_lt _ (by omega)
    generalize hXe : l.types.size % m = X at *
    generalize hYe : l.types.size / m = Y at *
    have hn : X + Y * m = l.types.size := by
      have := (inMb_iff m l.types.size X Y hX).1 ⟨hXe.symm, hYe.symm⟩
      exact this
    refine ⟨eq, by simp [typeOf, hk], ⟨by simp [s3, s2, s1, s0], fun id => ?_⟩, ⟨s4, fun id => ?_⟩, ⟨s5, fun id => ?_⟩⟩
    · show l3.getD id .zero = _
      rw [g3 id, g2 id, g1 id, g0 id]
      simp only [lvOf, hk]
      have a0 := idx_div_mod (m * 2) (2 * X) (2 * Y) (by omega)
      have a1 := idx_div_mod (m * 2) (2 * X + 1) (2 * Y) (by omega)
      have a2 := idx_div_mod (m * 2) (2 * X) (2 * Y + 1) (by omega)
      have a3 := idx_div_mod (m * 2) (2 * X + 1) (2 * Y + 1) (by omega)
      have p0 : X * 16 / 8 = 2 * X := by omega
      have p1 : (X * 16 + 8) / 8 = 2 * X + 1 := by omega
      have p2 : Y * 16 / 8 = 2 * Y := by omega
      have p3 : (Y * 16 + 8) / 8 = 2 * Y + 1 := by omega
      rw [p0, p1, p2, p3]
      have hidm := Nat.mod_lt id (show 0 < m * 2 by omega)
      have hrep := idx_of_div_mod (m * 2) id
      -- the four slots are distinct
      have d01 : 2 * X + 2 * Y * (m * 2) ≠ 2 * X + 1 + 2 * Y * (m * 2) := by omega
      have d02 : 2 * X + 2 * Y * (m * 2) ≠ 2 * X + (2 * Y + 1) * (m * 2) := by
        intro hh; have := congrArg (· / (m * 2)) hh; simp only [a0.1, a2.1] at this; omega
      have d03 : 2 * X + 2 * Y * (m * 2) ≠ 2 * X + 1 + (2 * Y + 1) * (m * 2) := by
        intro hh; have := congrArg (· / (m * 2)) hh; simp only [a0.1, a3.1] at this; omega
      have d12 : 2 * X + 1 + 2 * Y * (m * 2) ≠ 2 * X + (2 * Y + 1) * (m * 2) := by
        intro hh; have := congrArg (· / (m * 2)) hh; simp only [a1.1, a2.1] at this; omega
      have d13 : 2 * X + 1 + 2 * Y * (m * 2) ≠ 2 * X + 1 + (2 * Y + 1) * (m * 2) := by
        intro hh; have := congrArg (· / (m * 2)) hh; simp only [a1.1, a3.1] at this; omega
      have d23 : 2 * X + (2 * Y + 1) * (m * 2) ≠ 2 * X + 1 + (2 * Y + 1) * (m * 2) := by omega
      by_cases hc : id % (m * 2) / 2 + id / (m * 2) / 2 * m = l.types.size
      · rw [if_pos hc]
        obtain ⟨hcx, hcy⟩ := (inMb_iff m l.types.size (id % (m * 2) / 2) (id / (m * 2) / 2) (by omega)).2 hc
        rw [hXe] at hcx; rw [hYe] at hcy
        have hxa : id % (m * 2) = 2 * X ∨ id % (m * 2) = 2 * X + 1 := by omega
        have hya : id / (m * 2) = 2 * Y ∨ id / (m * 2) = 2 * Y + 1 := by omega
        rcases hxa with hx | hx <;> rcases hya with hy | hy <;> rw [hx, hy] at hrep ⊢ <;> subst hrep
        · have : 2 * X % 2 + 2 * (2 * Y % 2) = 0 := by omega
          rw [this]
          simp only [d01, d02, d03, ↓reduceIte]
        · have : 2 * X % 2 + 2 * ((2 * Y + 1) % 2) = 2 := by omega
          rw [this]
          simp only [d02.symm, d12.symm, d23, ↓reduceIte]
        · have : (2 * X + 1) % 2 + 2 * (2 * Y % 2) = 1 := by omega
          rw [this]
          simp only [d01.symm, d12, d13, ↓reduceIte]
        · have : (2 * X + 1) % 2 + 2 * ((2 * Y + 1) % 2) = 3 := by omega
          rw [this]
          simp only [d03.symm, d13.symm, d23.symm, ↓reduceIte]
      · rw [if_neg hc]
        have q0 : 2 * X / 2 = X := by omega
        have q1 : (2 * X + 1) / 2 = X := by omega
        have q2 : 2 * Y / 2 = Y := by omega
        have q3 : (2 * Y + 1) / 2 = Y := by omega
        have n0 : id ≠ 2 * X + 2 * Y * (m * 2) := by
          intro hh; apply hc; rw [hh, a0.1, a0.2, q0, q2]; exact hn
        have n1 : id ≠ 2 * X + 1 + 2 * Y * (m * 2) := by
          intro hh; apply hc; rw [hh, a1.1, a1.2, q1, q2]; exact hn
        have n2 : id ≠ 2 * X + (2 * Y + 1) * (m * 2) := by
          intro hh; apply hc; rw [hh, a2.1, a2.2, q0, q3]; exact hn
        have n3 : id ≠ 2 * X + 1 + (2 * Y + 1) * (m * 2) := by
          intro hh; apply hc; rw [hh, a3.1, a3.2, q1, q3]; exact hn
        simp only [n0, n1, n2, n3, ↓reduceIte]
    · show cb.getD id .zero = _
      rw [g4 id]
      have : X * 16 / 2 / 8 + Y * 16 / 2 / 8 * m = l.types.size := by
        have e1 : X * 16 / 2 / 8 = X := by omega
        have e2 : Y * 16 / 2 / 8 = Y := by omega
        rw [e1, e2]; exact hn
      rw [this]
      simp only [lvOf, hk]
    · show cr.getD id .zero = _
      rw [g5 id]
      have : X * 16 / 2 / 8 + Y * 16 / 2 / 8 * m = l.types.size := by
        have e1 : X * 16 / 2 / 8 = X := by omega
        have e2 : Y * 16 / 2 / 8 = Y := by omega
        rw [e1, e2]; exact hn
      rw [this]
      simp only [lvOf, hk]

/-- the quantizers in force: `qs[i]` is the one macroblock `i` of the list is dequantised with, the list starting from `q` -/
def QChain : Nat → List MbD → List Nat → Prop
  | _, [], [] => True
  | q, mb :: ms, q' :: qs =>
    (match mb.kind with
      | .notCoded => q' = q
      | .coded t dq _ _ _ => updateQuant q (if t.hasQuantizer then some dq else none) = .ok q') ∧ QChain q' ms qs
  | _, _, _ => False

/-- luma slot `id` (column `id % (2m)`, row `id / (2m)` of the 8x8-block grid) belongs to macroblock
`id % (2m) / 2 + id / (2m) / 2 * m`, as its block `id % (2m) % 2 + 2 * (id / (2m) % 2)` -/
def lumaLvAt (m base : Nat) (mbs : List MbD) (qs : List Nat) (old : Dct) (id : Nat) : Dct :=
  if base ≤ id % (m * 2) / 2 + id / (m * 2) / 2 * m ∧ id % (m * 2) / 2 + id / (m * 2) / 2 * m < base + mbs.length then
    lvOf (mbs.getD (id % (m * 2) / 2 + id / (m * 2) / 2 * m - base) default)
      (qs.getD (id % (m * 2) / 2 + id / (m * 2) / 2 * m - base) 0) (id % (m * 2) % 2 + 2 * (id / (m * 2) % 2)) old
  else old

/-- chroma slot `id` belongs to macroblock `id`, as its block `j` (4 = Cb, 5 = Cr) -/
def chromaLvAt (base : Nat) (mbs : List MbD) (qs : List Nat) (j : Nat) (old : Dct) (id : Nat) : Dct :=
  if base ≤ id ∧ id < base + mbs.length then lvOf (mbs.getD (id - base) default) (qs.getD (id - base) 0) j old else old

/-- **The level arrays after the macroblock loop.** -/
theorem semMbs_levels (hdr : PicHdr) (dims : Option (Nat × Nat)) (running m : Nat) (hm : 1 ≤ m) :
    ∀ (mbs : List MbD) (l l' : Loop), semMbs hdr dims running m mbs l = .ok l' →
      ∃ qs, QChain l.quant mbs qs ∧ l'.types = l.types ++ (mbs.map typeOf).toArray ∧
        (l'.lumaLv.size = l.lumaLv.size ∧
          ∀ id, l'.lumaLv.getD id .zero = lumaLvAt m l.types.size mbs qs (l.lumaLv.getD id .zero) id) ∧
        (l'.cbLv.size = l.cbLv.size ∧ ∀ id, l'.cbLv.getD id .zero = chromaLvAt l.types.size mbs qs 4 (l.cbLv.getD id .zero) id) ∧
        (l'.crLv.size = l.crLv.size ∧ ∀ id, l'.crLv.getD id .zero = chromaLvAt l.types.size mbs qs 5 (l.crLv.getD id .zero) id) := by
  intro mbs
  induction mbs with
  | nil =>
    intro l l' h
    simp only [semMbs, Out.ok.injEq] at h
    subst h
    exact ⟨[], trivial, by simp, ⟨rfl, fun id => by unfold lumaLvAt; rw [if_neg (by simp only [List.length_nil]; omega)]⟩,
      ⟨rfl, fun id => by unfold chromaLvAt; rw [if_neg (by simp only [List.length_nil]; omega)]⟩,
      ⟨rfl, fun id => by unfold chromaLvAt; rw [if_neg (by simp only [List.length_nil]; omega)]⟩⟩
  | cons mb ms ih =>
    intro l l' h
    simp only [semMbs] at h
    obtain ⟨l1, e1, e2⟩ := out_bind_ok _ _ _ h
    obtain ⟨hq, ht, ⟨sl, gl⟩, ⟨sb, gb⟩, ⟨sr, gr⟩⟩ := semMb_levels hdr dims running m hm l l1 mb e1
    obtain ⟨qs, hc, ht', ⟨sl', gl'⟩, ⟨sb', gb'⟩, ⟨sr', gr'⟩⟩ := ih l1 l' e2
    have hsz : l1.types.size = l.types.size + 1 := by rw [ht]; simp
    refine ⟨l1.quant :: qs, ⟨hq, hc⟩, ?_, ⟨by rw [sl', sl], fun id => ?_⟩, ⟨by rw [sb', sb], fun id => ?_⟩,
      ⟨by rw [sr', sr], fun id => ?_⟩⟩
    · rw [ht', ht]
      simp
    · rw [gl' id, gl id, hsz]
      unfold lumaLvAt
      generalize id % (m * 2) / 2 + id / (m * 2) / 2 * m = k
      by_cases hk : k = l.types.size
      · subst hk
        rw [if_neg (by omega), if_pos rfl, if_pos ⟨Nat.le_refl _, by simp⟩]
        simp
      · rw [if_neg hk]
        by_cases hin : l.types.size + 1 ≤ k ∧ k < l.types.size + 1 + ms.length
        · rw [if_pos hin, if_pos ⟨by omega, by simp only [List.length_cons]; omega⟩]
          have : k - l.types.size = (k - (l.types.size + 1)) + 1 := by omega
          rw [this, List.getD_cons_succ, List.getD_cons_succ]
        · rw [if_neg hin, if_neg (by simp only [List.length_cons]; omega)]
    · rw [gb' id, gb id, hsz]
      unfold chromaLvAt
      by_cases hk : id = l.types.size
      · subst hk
        rw [if_neg (by omega), if_pos rfl, if_pos ⟨Nat.le_refl _, by simp⟩]
        simp
      · rw [if_neg hk]
        by_cases hin : l.types.size + 1 ≤ id ∧ id < l.types.size + 1 + ms.length
        · rw [if_pos hin, if_pos ⟨by omega, by simp only [List.length_cons]; omega⟩]
          have : id - l.types.size = (id - (l.types.size + 1)) + 1 := by omega
          rw [this, List.getD_cons_succ, List.getD_cons_succ]
        · rw [if_neg hin, if_neg (by simp only [List.length_cons]; omega)]
    · rw [gr' id, gr id, hsz]
      unfold chromaLvAt
      by_cases hk : id = l.types.size
      · subst hk
        rw [if_neg (by omega), if_pos rfl, if_pos ⟨Nat.le_refl _, by simp⟩]
        simp
      · rw [if_neg hk]
        by_cases hin : l.types.size + 1 ≤ id ∧ id < l.types.size + 1 + ms.length
        · rw [if_pos hin, if_pos ⟨by omega, by simp only [List.length_cons]; omega⟩]
          have : id - l.types.size = (id - (l.types.size + 1)) + 1 := by omega
          rw [this, List.getD_cons_succ, List.getD_cons_succ]
        · rw [if_neg hin, if_neg (by simp only [List.length_cons]; omega)]

/-! ### the vector array -/

/-- the four luma vectors the loop files for a macroblock, given the vectors filed so far: zero for not-coded and INTRA macroblocks;
for INTER ones each vector is the candidate-median predictor over the vectors filed so far (and, with four vectors, the ones of
this macroblock decoded before it) plus the coded differential, wrapped (`mvDecode`, C12) -/
def mbVec (hdr : PicHdr) (dims : Option (Nat × Nat)) (running m : Nat) (prev : Array Mv4) (mb : MbD) : Out Mv4 :=
  match mb.kind with
  | .notCoded => .ok zeroMv4
  | .coded t _ mvd mvd234 _ =>
    if t.isInter then do
      let p1 ← predictCandidate prev zeroMv4 m 0
      let m0 := mvDecode hdr dims running p1 mvd
      let cur : Mv4 := (m0, zeroMv, zeroMv, zeroMv)
      if t.hasFourVec then do
        let p2 ← predictCandidate prev cur m 1
        let cur := cur.set 1 (mvDecode hdr dims running p2 mvd234.1)
        let p3 ← predictCandidate prev cur m 2
        let cur := cur.set 2 (mvDecode hdr dims running p3 mvd234.2.1)
        let p4 ← predictCandidate prev cur m 3
        let cur := cur.set 3 (mvDecode hdr dims running p4 mvd234.2.2)
        pure cur
      else pure (m0, m0, m0, m0)
    else pure zeroMv4

def MvChain (hdr : PicHdr) (dims : Option (Nat × Nat)) (running m : Nat) : Array Mv4 → List MbD → List Mv4 → Prop
  | _, [], [] => True
  | prev, mb :: ms, v :: vs => mbVec hdr dims running m prev mb = .ok v ∧ MvChain hdr dims running m (prev.push v) ms vs
  | _, _, _ => False

theorem semMb_vector (hdr : PicHdr) (dims : Option (Nat × Nat)) (running m : Nat) (l l' : Loop) (mb : MbD)
    (h : semMb hdr dims running m l mb = .ok l') :
    ∃ v, mbVec hdr dims running m l.mvs mb = .ok v ∧ l'.mvs = l.mvs.push v := by
  unfold semMb at h
  unfold mbVec
  cases hk : mb.kind with
  | notCoded =>
    rw [hk] at h
    simp only at h
    split at h
    · cases h
    · simp only [Out.ok.injEq] at h
      subst h
      exact ⟨zeroMv4, rfl, rfl⟩
  | coded t dq mvd mvd234 blocks =>
    rw [hk] at h
    simp only at h
    unfold codedMbSem at h
    obtain ⟨q, _, h⟩ := out_bind_ok _ _ _ h
    obtain ⟨mvs, emv, h⟩ := out_bind_ok _ _ _ h
    obtain ⟨l0, _, h⟩ := out_bind_ok _ _ _ h
    obtain ⟨l1, _, h⟩ := out_bind_ok _ _ _ h
    obtain ⟨l2, _, h⟩ := out_bind_ok _ _ _ h
    obtain ⟨l3, _, h⟩ := out_bind_ok _ _ _ h
    obtain ⟨cb, _, h⟩ := out_bind_ok _ _ _ h
    obtain ⟨cr, _, h⟩ := out_bind_ok _ _ _ h
    cases h
    refine ⟨mvs, ?_, rfl⟩
    simp only
    cases hi : t.isInter with
    | false => rw [hi] at emv; simpa using emv
    | true =>
      rw [hi] at emv
      simp only [↓reduceIte, Option.getD_some] at emv ⊢
      cases h4 : t.hasFourVec with
      | false => rw [h4] at emv; simpa using emv
      | true => rw [h4] at emv; simpa using emv

/-- **The vector array after the macroblock loop**: one entry per macroblock, each computed from the entries before it. -/
theorem semMbs_vectors (hdr : PicHdr) (dims : Option (Nat × Nat)) (running m : Nat) :
    ∀ (mbs : List MbD) (l l' : Loop), semMbs hdr dims running m mbs l = .ok l' →
      ∃ vs, MvChain hdr dims running m l.mvs mbs vs ∧ l'.mvs = l.mvs ++ vs.toArray := by
  intro mbs
  induction mbs with
  | nil =>
    intro l l' h
    simp only [semMbs, Out.ok.injEq] at h
    subst h
    exact ⟨[], trivial, by simp⟩
  | cons mb ms ih =>
    intro l l' h
    simp only [semMbs] at h
    obtain ⟨l1, e1, e2⟩ := out_bind_ok _ _ _ h
    obtain ⟨v, hv, hp⟩ := semMb_vector hdr dims running m l l1 mb e1
    obtain ⟨vs, hc, ht⟩ := ih l1 l' e2
    refine ⟨v :: vs, ⟨hv, by rw [← hp]; exact hc⟩, ?_⟩
    rw [ht, hp]
    simp

end H263V.Lemmas.LevelArrays
