/-
Picture-level round trip: on the bits written by the specification encoder for a valid picture description, the
macroblock loop of `decode_next_picture` performs exactly the bit-free semantic steps of the description (quantizer update,
vector prediction, dequantisation and placement of each block) and stops after the picture's last macroblock with the cursor
exactly behind the picture's bits.
-/
import H263V.Lemmas.RoundTrip
namespace H263V.Lemmas.PictureRoundTrip
open H263V H263V.State H263V.Mb H263V.Mv H263V.Rle H263V.Spec.Vlc H263V.Spec.Syntax
open H263V.Lemmas.BitsLemmas H263V.Lemmas.ParseLemmas H263V.Lemmas.RoundTrip

/-! ### bit-free semantics of the macroblock layer -/

/-- `codedMb` with the six blocks given instead of parsed (the cursor is not touched) -/
def codedMbSem (hdr : PicHdr) (dims : Option (Nat × Nat)) (running : Nat) (mbPerLine : Nat) (l : Loop)
    (t : MbType) (dq : Option Int) (mv : Option Mv) (addl : Option (Mv × Mv × Mv)) (b : Nat → Block) : Out Loop := do
  let q ← updateQuant l.quant dq
  let n := l.types.size
  let pos : Nat × Nat := ((n % mbPerLine) * 16, (n / mbPerLine) * 16)
  let mvs ← (if t.isInter then do
      let mv1 := mv.getD zeroMv
      let p1 ← predictCandidate l.mvs zeroMv4 mbPerLine 0
      let m0 := mvDecode hdr dims running p1 mv1
      let cur : Mv4 := (m0, zeroMv, zeroMv, zeroMv)
      match addl with
      | some (mv2, mv3, mv4) =>
        let p2 ← predictCandidate l.mvs cur mbPerLine 1
        let cur := cur.set 1 (mvDecode hdr dims running p2 mv2)
        let p3 ← predictCandidate l.mvs cur mbPerLine 2
        let cur := cur.set 2 (mvDecode hdr dims running p3 mv3)
        let p4 ← predictCandidate l.mvs cur mbPerLine 3
        let cur := cur.set 3 (mvDecode hdr dims running p4 mv4)
        pure cur
      | none => pure (m0, m0, m0, m0)
    else pure zeroMv4 : Out Mv4)
  let lumaLv ← inverseRle (b 0) l.lumaLv pos (mbPerLine * 2) q
  let lumaLv ← inverseRle (b 1) lumaLv (pos.1 + 8, pos.2) (mbPerLine * 2) q
  let lumaLv ← inverseRle (b 2) lumaLv (pos.1, pos.2 + 8) (mbPerLine * 2) q
  let lumaLv ← inverseRle (b 3) lumaLv (pos.1 + 8, pos.2 + 8) (mbPerLine * 2) q
  let cbLv ← inverseRle (b 4) l.cbLv (pos.1 / 2, pos.2 / 2) mbPerLine q
  let crLv ← inverseRle (b 5) l.crLv (pos.1 / 2, pos.2 / 2) mbPerLine q
  pure { l with quant := q, mvs := l.mvs.push mvs, types := l.types.push t, lumaLv := lumaLv, cbLv := cbLv, crLv := crLv }

def Out.mapCur (x : Out Loop) (c : Cur) : Out Loop := x >>= fun l => .ok { l with cur := c }

@[simp] theorem mapCur_ok (l : Loop) (c : Cur) : Out.mapCur (.ok l) c = .ok { l with cur := c } := rfl
@[simp] theorem mapCur_err (e : Err) (c : Cur) : Out.mapCur (.err e) c = .err e := rfl
@[simp] theorem mapCur_panic (s : String) (c : Cur) : Out.mapCur (.panic s) c = .panic s := rfl
@[simp] theorem mapCur_fuel (c : Cur) : Out.mapCur .fuel c = .fuel := rfl

theorem mapCur_bind {α : Type} (x : Out α) (f : α → Out Loop) (c : Cur) : Out.mapCur (x >>= f) c = x >>= fun a => Out.mapCur (f a) c := by
  cases x <;> rfl

/-- the six blocks of a macroblock description -/
def blk (blocks : List BlockD) (i : Nat) : BlockD := blocks.getD i {}

def blockBits (blocks : List BlockD) : Bits :=
  encodeBlock (blk blocks 0) ++ (encodeBlock (blk blocks 1) ++ (encodeBlock (blk blocks 2) ++ (encodeBlock (blk blocks 3) ++
    (encodeBlock (blk blocks 4) ++ encodeBlock (blk blocks 5)))))

/-- `codedMb` on the encoded block data = the bit-free step, with the cursor behind the six blocks -/
theorem codedMb_encode (d : DecOpts) (hdr : PicHdr) (dims : Option (Nat × Nat)) (running w : Nat) (l : Loop) (t : MbType)
    (dq : Option Int) (mv : Option Mv) (addl : Option (Mv × Mv × Mv)) (blocks : List BlockD)
    (hb : ∀ i, i < 6 → BlockOK d hdr t (blk blocks i)) (rest : Bits) (pos : Nat) :
    codedMb d hdr dims running w { l with cur := ⟨blockBits blocks ++ rest, pos⟩ } t
        { luma := (codedFlag (blk blocks 0), codedFlag (blk blocks 1), codedFlag (blk blocks 2), codedFlag (blk blocks 3)),
          cb := codedFlag (blk blocks 4), cr := codedFlag (blk blocks 5) } dq mv addl =
      Out.mapCur (codedMbSem hdr dims running w l t dq mv addl (fun i => toBlock (blk blocks i)))
        ⟨rest, pos + (blockBits blocks).length⟩ := by
  unfold codedMb codedMbSem blockBits
  simp only [List.append_assoc]
  rw [mapCur_bind]
  congr 1
  funext q
  rw [mapCur_bind]
  congr 1
  funext mvs
  have e := fun i (hi : i < 6) r p => decodeBlock_encode d hdr running t (blk blocks i) (hb i hi) r p
  rw [e 0 (by omega)]
  simp only [Out.bind_ok]
  rw [mapCur_bind]
  congr 1
  funext l0
  rw [e 1 (by omega)]
  simp only [Out.bind_ok]
  rw [mapCur_bind]
  congr 1
  funext l1
  rw [e 2 (by omega)]
  simp only [Out.bind_ok]
  rw [mapCur_bind]
  congr 1
  funext l2
  rw [e 3 (by omega)]
  simp only [Out.bind_ok]
  rw [mapCur_bind]
  congr 1
  funext l3
  rw [e 4 (by omega)]
  simp only [Out.bind_ok]
  rw [mapCur_bind]
  congr 1
  funext l4
  rw [e 5 (by omega)]
  simp only [Out.bind_ok]
  rw [mapCur_bind]
  congr 1
  funext l5
  simp only [Out.pure_eq, mapCur_ok, List.length_append, Nat.add_assoc]


/-! ### one macroblock description through the loop -/

def MbOK (d : DecOpts) (hdr : PicHdr) (ip : Bool) (m : MbD) : Prop :=
  match m.kind with
  | .notCoded => ip = false
  | .coded t dq mvd mvd234 blocks =>
    (mcbpcCode ip t (codedFlag (blk blocks 4)) (codedFlag (blk blocks 5))).isSome = true ∧
    (t.hasQuantizer = true → DqVal dq) ∧ (t.isInter = true → MvdVal mvd) ∧
    (t.hasFourVec = true → MvdVal mvd234.1 ∧ MvdVal mvd234.2.1 ∧ MvdVal mvd234.2.2) ∧
    ∀ i, i < 6 → BlockOK d hdr t (blk blocks i)

/-- the bit-free effect of one macroblock description on the loop state -/
def semMb (hdr : PicHdr) (dims : Option (Nat × Nat)) (running w : Nat) (l : Loop) (m : MbD) : Out Loop :=
  match m.kind with
  | .notCoded =>
    if hdr.picType = .iFrame then .err .uncodedIFrame
    else .ok { l with mvs := l.mvs.push zeroMv4, types := l.types.push .inter }
  | .coded t dq mvd mvd234 blocks =>
    codedMbSem hdr dims running w l t (if t.hasQuantizer then some dq else none) (if t.isInter then some mvd else none)
      (if t.hasFourVec then some mvd234 else none) (fun i => toBlock (blk blocks i))

def stuffUnit (ip : Bool) : Bits := (if ip then [] else [false]) ++ mcbpcStuffing

def stuffBits (ip : Bool) : Nat → Bits
  | 0 => []
  | n + 1 => stuffUnit ip ++ stuffBits ip n

/-- the bits of one macroblock without its leading stuffing -/
def mbBody (ip : Bool) (m : MbD) : Bits :=
  match m.kind with
  | .notCoded => [true]
  | .coded t dq mvd mvd234 blocks =>
    encodeMbHeader ip t (codedFlag (blk blocks 0), codedFlag (blk blocks 1), codedFlag (blk blocks 2), codedFlag (blk blocks 3))
      (codedFlag (blk blocks 4)) (codedFlag (blk blocks 5)) dq mvd mvd234 ++ blockBits blocks

theorem stuff_flatMap (ip : Bool) (n : Nat) :
    ((List.range n).flatMap fun _ => (if ip then [] else [false]) ++ mcbpcStuffing) = stuffBits ip n := by
  induction n with
  | zero => rfl
  | succ n ih =>
    rw [List.range_succ, List.flatMap_append, ih]
    simp only [List.flatMap_cons, List.flatMap_nil, List.append_nil]
    clear ih
    induction n with
    | zero => simp [stuffBits, stuffUnit]
    | succ n ih2 => simp only [stuffBits, List.append_assoc]; rw [ih2]; simp [stuffBits, stuffUnit]

theorem encodeMb_eq (ip : Bool) (m : MbD) : encodeMb ip m = stuffBits ip m.stuffing ++ mbBody ip m := by
  unfold encodeMb mbBody
  simp only [stuff_flatMap]
  cases hk : m.kind with
  | notCoded => rfl
  | coded t dq mvd mvd234 blocks =>
    simp only [encodeMbHeader, blockBits, blk, List.append_assoc]
    congr 1
    have : (List.range 6).flatMap (fun i => encodeBlock (blocks.getD i {})) =
        encodeBlock (blocks.getD 0 {}) ++ (encodeBlock (blocks.getD 1 {}) ++ (encodeBlock (blocks.getD 2 {}) ++
        (encodeBlock (blocks.getD 3 {}) ++ (encodeBlock (blocks.getD 4 {}) ++ encodeBlock (blocks.getD 5 {}))))) := by
      simp [List.range, List.range.loop, List.flatMap_cons]
    rw [this]

/-- one step of the loop on the body of a macroblock description -/
theorem mbStep_body (d : DecOpts) (hdr : PicHdr) (dims : Option (Nat × Nat)) (running w total : Nat) (hw : w ≠ 0) (ip : Bool)
    (ctx : HdrCtx hdr running ip) (l : Loop) (hn : l.types.size < total) (m : MbD) (hm : MbOK d hdr ip m) (rest : Bits) (pos : Nat) :
    mbStep d hdr dims running w total { l with cur := ⟨mbBody ip m ++ rest, pos⟩ } =
      (Out.mapCur (semMb hdr dims running w l m) ⟨rest, pos + (mbBody ip m).length⟩) >>= fun l' => .ok (.continue l') := by
  unfold mbStep
  simp only
  rw [if_neg (by omega), if_neg hw]
  unfold mbBody semMb MbOK at *
  cases hk : m.kind with
  | notCoded =>
    rw [hk] at hm
    simp only at hm ⊢
    subst hm
    rw [decodeMacroblock_notCoded hdr running ctx rest pos]
    simp only
    have hp := ctx.ptype
    simp only [Bool.false_eq_true, ↓reduceIte] at hp
    have hne : hdr.picType ≠ .iFrame := by rcases hp with h | h <;> rw [h] <;> simp
    rw [if_neg hne, if_neg hne]
    rfl
  | coded t dq mvd mvd234 blocks =>
    rw [hk] at hm
    simp only at hm ⊢
    obtain ⟨hmc, hdq, hmv, h4, hb⟩ := hm
    rw [List.append_assoc, decodeMacroblock_coded hdr running ip ctx t _ _ _ dq mvd mvd234 hmc hdq hmv h4 _ pos]
    unfold toMacroblock
    simp only
    rw [codedMb_encode d hdr dims running w l t _ _ _ blocks hb rest _]
    simp only [List.length_append, Nat.add_assoc]
    rfl


/-! ### the whole macroblock list -/

def semMbs (hdr : PicHdr) (dims : Option (Nat × Nat)) (running w : Nat) : List MbD → Loop → Out Loop
  | [], l => .ok l
  | m :: ms, l => semMb hdr dims running w l m >>= semMbs hdr dims running w ms

/-- loop iterations a macroblock list needs: one per stuffing codeword and one per macroblock -/
def iters : List MbD → Nat
  | [] => 0
  | m :: ms => m.stuffing + 1 + iters ms

theorem mbLoop_succ (d : DecOpts) (hdr : PicHdr) (dims : Option (Nat × Nat)) (running w total fuel : Nat) (l : Loop) :
    mbLoop d hdr dims running w total (fuel + 1) l =
      match mbStep d hdr dims running w total l with
      | .ok (.continue l') => mbLoop d hdr dims running w total fuel l'
      | .ok (.stop l') => .ok l'
      | .err e => .err e
      | .panic s => .panic s
      | .fuel => .fuel := by
  rw [mbLoop]
  cases mbStep d hdr dims running w total l with
  | ok st => cases st <;> rfl
  | err e => rfl
  | panic s => rfl
  | fuel => rfl

theorem mbStep_stuff (d : DecOpts) (hdr : PicHdr) (dims : Option (Nat × Nat)) (running w total : Nat) (hw : w ≠ 0) (ip : Bool)
    (ctx : HdrCtx hdr running ip) (l : Loop) (hn : l.types.size < total) (rest : Bits) (pos : Nat) :
    mbStep d hdr dims running w total { l with cur := ⟨stuffUnit ip ++ rest, pos⟩ } =
      .ok (.continue { l with cur := ⟨rest, pos + (stuffUnit ip).length⟩ }) := by
  unfold mbStep stuffUnit
  simp only
  rw [if_neg (by omega), if_neg hw, List.append_assoc, decodeMacroblock_stuffing hdr running ip ctx rest pos]

theorem mbLoop_stuff (d : DecOpts) (hdr : PicHdr) (dims : Option (Nat × Nat)) (running w total : Nat) (hw : w ≠ 0) (ip : Bool)
    (ctx : HdrCtx hdr running ip) (l : Loop) (hn : l.types.size < total) (rest : Bits) :
    ∀ (n fuel pos : Nat), mbLoop d hdr dims running w total (fuel + n) { l with cur := ⟨stuffBits ip n ++ rest, pos⟩ } =
      mbLoop d hdr dims running w total fuel { l with cur := ⟨rest, pos + (stuffBits ip n).length⟩ } := by
  intro n
  induction n with
  | zero => intro fuel pos; simp [stuffBits]
  | succ n ih =>
    intro fuel pos
    have : fuel + (n + 1) = (fuel + n) + 1 := by omega
    rw [this, mbLoop_succ]
    simp only [stuffBits, List.append_assoc]
    rw [mbStep_stuff d hdr dims running w total hw ip ctx l hn _ pos]
    simp only
    rw [ih fuel _]
    simp only [List.length_append, Nat.add_assoc]

theorem codedMbSem_types (hdr : PicHdr) (dims : Option (Nat × Nat)) (running w : Nat) (l l' : Loop) (t : MbType) (dq : Option Int)
    (mv : Option Mv) (addl : Option (Mv × Mv × Mv)) (b : Nat → Block) (h : codedMbSem hdr dims running w l t dq mv addl b = .ok l') :
    l'.types.size = l.types.size + 1 := by
  unfold codedMbSem at h
  simp only [bind, Out.bind] at h
  repeat' split at h
  all_goals (try (simp at h; done))
  all_goals
    simp only [pure, Out.ok.injEq] at h
    rw [← h]; simp

theorem semMb_types (hdr : PicHdr) (dims : Option (Nat × Nat)) (running w : Nat) (l l' : Loop) (m : MbD)
    (h : semMb hdr dims running w l m = .ok l') : l'.types.size = l.types.size + 1 := by
  unfold semMb at h
  split at h
  · split at h
    · simp at h
    · simp only [Out.ok.injEq] at h; rw [← h]; simp
  · exact codedMbSem_types _ _ _ _ _ _ _ _ _ _ _ h

/-- **The macroblock loop on an encoded picture body.**  When the description holds exactly the macroblocks still missing,
the loop performs their bit-free semantic steps in order and stops with the cursor exactly behind their bits — it does not read
a single bit of what follows. -/
theorem mbLoop_encode (d : DecOpts) (hdr : PicHdr) (dims : Option (Nat × Nat)) (running w total : Nat) (hw : w ≠ 0) (ip : Bool)
    (ctx : HdrCtx hdr running ip) (rest : Bits) :
    ∀ (mbs : List MbD) (l : Loop) (fuel pos : Nat), l.types.size + mbs.length = total → iters mbs < fuel →
      (∀ m ∈ mbs, MbOK d hdr ip m) →
      mbLoop d hdr dims running w total fuel { l with cur := ⟨mbs.flatMap (encodeMb ip) ++ rest, pos⟩ } =
        Out.mapCur (semMbs hdr dims running w mbs l) ⟨rest, pos + (mbs.flatMap (encodeMb ip)).length⟩ := by
  intro mbs
  induction mbs with
  | nil =>
    intro l fuel pos hn hf _
    obtain ⟨f, rfl⟩ : ∃ f, fuel = f + 1 := ⟨fuel - 1, by simp [iters] at hf; omega⟩
    rw [mbLoop_succ]
    unfold mbStep
    simp only [List.length_nil, Nat.add_zero] at hn
    simp only
    rw [if_pos (by omega)]
    simp [semMbs]
  | cons m ms ih =>
    intro l fuel pos hn hf hok
    simp only [List.length_cons] at hn
    simp only [iters] at hf
    obtain ⟨f, rfl⟩ : ∃ f, fuel = (f + 1) + m.stuffing := ⟨fuel - 1 - m.stuffing, by omega⟩
    simp only [List.flatMap_cons, List.append_assoc]
    rw [encodeMb_eq, List.append_assoc]
    rw [mbLoop_stuff d hdr dims running w total hw ip ctx l (by omega) _ m.stuffing (f + 1) pos]
    rw [mbLoop_succ, List.append_assoc]
    rw [mbStep_body d hdr dims running w total hw ip ctx l (by omega) m (hok m (by simp)) _ _]
    simp only [semMbs]
    cases hs : semMb hdr dims running w l m with
    | ok l1 =>
      simp only [mapCur_ok, Out.bind_ok]
      have ht := semMb_types hdr dims running w l l1 m hs
      rw [ih l1 f _ (by omega) (by omega) (fun x hx => hok x (by simp [hx]))]
      simp only [List.length_append, Nat.add_assoc]
    | err e => rfl
    | panic s => rfl
    | fuel => rfl


/-! ### the whole picture -/

theorem stuffBits_length (ip : Bool) (n : Nat) : n ≤ (stuffBits ip n).length := by
  induction n with
  | zero => simp [stuffBits]
  | succ n ih =>
    simp only [stuffBits, stuffUnit, List.length_append]
    have : 1 ≤ mcbpcStuffing.length := by decide
    omega

theorem iters_le (ip : Bool) (mbs : List MbD) : iters mbs ≤ (mbs.flatMap (encodeMb ip)).length + mbs.length := by
  induction mbs with
  | nil => simp [iters]
  | cons m ms ih =>
    simp only [iters, List.flatMap_cons, List.length_append, List.length_cons, encodeMb_eq]
    have := stuffBits_length ip m.stuffing
    omega

/-- the source format a header resolves to in a given decoder state (its own, or the last picture's) -/
def fmtOf (s : State) (hdr : PicHdr) : Out SrcFmt :=
  match hdr.format with
  | some f => .ok f
  | none =>
    if hdr.picType = .iFrame then .err .formatMissing
    else match s.getLast with
      | some p => .ok p.fmt
      | none => .err .formatMissing

/-- what `decode_next_picture` computes from a parsed header and a macroblock description list, with no bits involved:
the bit-free counterpart of `decodeCore` after the header -/
def semCore (s : State) (hdr : PicHdr) (mbs : List MbD) : Out (PicHdr × Gather.DecPic) := do
  let running := nextRunning hdr s.running
  let fmt ← fmtOf s hdr
  let ref := s.getRef
  match fmt.dims with
  | none => .err .formatInvalid
  | some (w, h) =>
  if w = 0 ∨ h = 0 then .err .formatInvalid else
  let mbPerLine := (w + 15) / 16
  let mbHeight := (h + 15) / 16
  match Gather.DecPic.new hdr fmt with
  | none => .err .formatInvalid
  | some pic =>
  let l0 : Loop := { cur := ⟨[], 0⟩, quant := hdr.quantizer, mvs := #[], types := #[],
                     lumaLv := Array.replicate (mbPerLine * 16 * (mbHeight * 16) / 64) .zero,
                     cbLv := Array.replicate (mbPerLine * 16 * (mbHeight * 16) / 4 / 64) .zero,
                     crLv := Array.replicate (mbPerLine * 16 * (mbHeight * 16) / 4 / 64) .zero }
  let l ← semMbs hdr (some (w, h)) running mbPerLine mbs l0
  let total := mbPerLine * mbHeight
  let mvs := if l.mvs.size < total then l.mvs ++ Array.replicate (total - l.mvs.size) zeroMv4 else l.mvs
  let types := if l.types.size < total then l.types ++ Array.replicate (total - l.types.size) MbType.inter else l.types
  let pic ← reconstruct types ref mvs mbPerLine w pic l.lumaLv l.cbLv l.crLv
  pure (hdr, pic)

/-- the picture dimensions a header resolves to in a given decoder state -/
def dimsOf (s : State) (hdr : PicHdr) : Option (Nat × Nat) :=
  match hdr.format with
  | some f => f.dims
  | none => if hdr.picType = .iFrame then none else (s.getLast.bind fun p => p.fmt.dims)

/-- **Picture round trip.**  If the header parser returns `hdr` on `hbits` (consuming exactly them), the header puts the
macroblock layer in the plain H.263 / Sorenson syntax (`HdrCtx`), and `mbs` describes exactly the picture's macroblocks, each
valid, then `decodeCore` on `hbits ++ encoded macroblocks ++ rest` returns the bit-free semantic result and leaves the cursor
exactly at `rest`. -/
theorem decodeCore_encode (s : State) (hbits : Bits) (hdr : PicHdr) (ip : Bool) (mbs : List MbD) (w h : Nat)
    (hhdr : ∀ r p, Header.decodePicture s.opts (s.getLast.map (·.hdr)) ⟨hbits ++ r, p⟩ = .ok (some hdr, ⟨r, p + hbits.length⟩))
    (hdims : dimsOf s hdr = some (w, h)) (hcount : mbs.length = (w + 15) / 16 * ((h + 15) / 16))
    (ctx : HdrCtx hdr (nextRunning hdr s.running) ip) (hok : ∀ m ∈ mbs, MbOK s.opts hdr ip m) (rest : Bits) (pos : Nat) :
    decodeCore s ⟨hbits ++ (mbs.flatMap (encodeMb ip) ++ rest), pos⟩ =
      semCore s hdr mbs >>= fun r => .ok (r.1, r.2, ⟨rest, pos + hbits.length + (mbs.flatMap (encodeMb ip)).length⟩) := by
  unfold decodeCore semCore
  rw [hhdr]
  simp only [Out.bind_ok]
  -- the format computation is shared
  show (fmtOf s hdr >>= _) = ((fmtOf s hdr >>= _) >>= _)
  cases hfmt : fmtOf s hdr with
  | err e => rfl
  | panic m => rfl
  | fuel => rfl
  | ok fmt =>
    simp only [Out.bind_ok]
    have hfd : fmt.dims = some (w, h) := by
      unfold dimsOf at hdims
      unfold fmtOf at hfmt
      cases hf : hdr.format with
      | some f => rw [hf] at hfmt hdims; simp only [Out.ok.injEq] at hfmt; rw [← hfmt]; exact hdims
      | none =>
        rw [hf] at hfmt hdims
        simp only at hfmt hdims
        split at hfmt
        · simp at hfmt
        · rename_i hni
          rw [if_neg hni] at hdims
          cases hl : s.getLast with
          | none => rw [hl] at hfmt; simp at hfmt
          | some p => rw [hl] at hfmt hdims; simp only [Out.ok.injEq] at hfmt; rw [← hfmt]; simpa using hdims
    rw [hfd]
    simp only
    split
    · rfl
    · rename_i hz
      cases hnew : Gather.DecPic.new hdr fmt with
      | none => rfl
      | some pic =>
        simp only
        have hw : (w + 15) / 16 ≠ 0 := by omega
        have hloop := mbLoop_encode s.opts hdr (some (w, h)) (nextRunning hdr s.running) ((w + 15) / 16)
          ((w + 15) / 16 * ((h + 15) / 16)) hw ip ctx rest mbs
          { cur := ⟨[], 0⟩, quant := hdr.quantizer, mvs := #[], types := #[],
            lumaLv := Array.replicate ((w + 15) / 16 * 16 * ((h + 15) / 16 * 16) / 64) .zero,
            cbLv := Array.replicate ((w + 15) / 16 * 16 * ((h + 15) / 16 * 16) / 4 / 64) .zero,
            crLv := Array.replicate ((w + 15) / 16 * 16 * ((h + 15) / 16 * 16) / 4 / 64) .zero }
          ((mbs.flatMap (encodeMb ip) ++ rest).length + (w + 15) / 16 * ((h + 15) / 16) + 2) (pos + hbits.length)
          (by simp [hcount]) (by have := iters_le ip mbs; simp only [List.length_append]; omega) hok
        simp only at hloop
        rw [hloop]
        cases hsem : semMbs hdr (some (w, h)) (nextRunning hdr s.running) ((w + 15) / 16) mbs
            { cur := ⟨[], 0⟩, quant := hdr.quantizer, mvs := #[], types := #[],
              lumaLv := Array.replicate ((w + 15) / 16 * 16 * ((h + 15) / 16 * 16) / 64) .zero,
              cbLv := Array.replicate ((w + 15) / 16 * 16 * ((h + 15) / 16 * 16) / 4 / 64) .zero,
              crLv := Array.replicate ((w + 15) / 16 * 16 * ((h + 15) / 16 * 16) / 4 / 64) .zero } with
        | err e => rfl
        | panic m => rfl
        | fuel => rfl
        | ok l =>
          simp only [mapCur_ok, Out.bind_ok]
          cases hrec : reconstruct
              (if l.types.size < (w + 15) / 16 * ((h + 15) / 16) then l.types ++ Array.replicate ((w + 15) / 16 * ((h + 15) / 16) - l.types.size) MbType.inter else l.types)
              s.getRef
              (if l.mvs.size < (w + 15) / 16 * ((h + 15) / 16) then l.mvs ++ Array.replicate ((w + 15) / 16 * ((h + 15) / 16) - l.mvs.size) zeroMv4 else l.mvs)
              ((w + 15) / 16) w pic l.lumaLv l.cbLv l.crLv with
          | ok p => simp [Nat.add_assoc]
          | err e => rfl
          | panic m => rfl
          | fuel => rfl

end H263V.Lemmas.PictureRoundTrip
