/-
Totality of the decoder above the parsers: the macroblock loop, the batch reconstruction and `decode_next_picture`
never reach a `panic` or `fuel` outcome.  Composition of Lemmas/Total (parsers), Lemmas/F32Range (no f32 model gap),
Lemmas/PlaneInv (plane shapes) and the C11 / C12 component theorems.
-/
import H263V.Lemmas.Total
import H263V.Lemmas.F32Range
import H263V.Lemmas.PlaneInv
import H263V.Thm.C11
import H263V.Thm.C12
import H263V.Model.System
namespace H263V.Lemmas.DecodeTotal
open H263V H263V.State H263V.Mb H263V.Mv H263V.Rle H263V.Gather H263V.Lemmas.Total H263V.Lemmas.F32Range

/-! ### dequantised blocks are bounded -/

def AllB (l : List Int) : Prop := ∀ v ∈ l, v.natAbs ≤ 2048

theorem allB_set (l : List Int) (h : AllB l) (i : Nat) (v : Int) (hv : v.natAbs ≤ 2048) : AllB (l.set i v) := by
  intro x hx
  rcases List.mem_or_eq_of_mem_set hx with h1 | h1
  · exact h x h1
  · rw [h1]; exact hv

theorem allB_replicate (n : Nat) : AllB (List.replicate n 0) := by
  intro x hx
  rw [List.mem_replicate] at hx
  rw [hx.2]; decide

theorem dequant_natAbs (q : Nat) (level : Int) : (dequant q level).natAbs ≤ 2048 := by
  have := Thm.C11.dequant_range q level
  omega

theorem intraDcLevel_natAbs (dc : Nat) (h : dc < 256) : (intraDcLevel dc).natAbs ≤ 2048 := by
  unfold intraDcLevel; split <;> omega

theorem rleLoop_bounded (q : Nat) : ∀ (ts : List TCoef) (s s' : RleState), AllB s.data → rleLoop q ts s = some s' → AllB s'.data := by
  intro ts
  induction ts with
  | nil => intro s s' h e; simp only [rleLoop, Option.some.injEq] at e; rw [← e]; exact h
  | cons t ts ih =>
    intro s s' h e
    unfold rleLoop at e
    simp only at e
    split at e
    · simp at e
    · exact ih _ s' (allB_set _ h _ _ (dequant_natAbs q t.level)) e

theorem getD_allB (l : List Int) (h : AllB l) (i : Nat) : (l.getD i 0).natAbs ≤ 2048 := by
  by_cases hi : i < l.length
  · rw [List.getD_eq_getElem?_getD, List.getElem?_eq_getElem hi]; exact h _ (List.getElem_mem hi)
  · rw [List.getD_eq_getElem?_getD, List.getElem?_eq_none (by omega)]; decide

theorem inverseRleBlock_bounded (b : Block) (q : Nat) (hdc : ∀ dc, b.intradc = some dc → dc < 256) (d : Dct)
    (h : inverseRleBlock b q = some d) : Dct.Bounded d := by
  unfold inverseRleBlock at h
  split at h
  · split at h
    · rename_i dc hdc'
      split at h
      · simp only [Option.some.injEq] at h; rw [← h]; trivial
      · simp only [Option.some.injEq] at h; rw [← h]; exact intraDcLevel_natAbs dc (hdc dc hdc')
    · simp only [Option.some.injEq] at h; rw [← h]; trivial
  · have hinit : AllB (initState b).data := by
      unfold initState
      split
      · rename_i dc hdc'
        exact allB_set _ (allB_replicate 64) _ _ (intraDcLevel_natAbs dc (hdc dc hdc'))
      · exact allB_replicate 64
    split at h
    · simp at h
    · rename_i s hs
      have hb := rleLoop_bounded q _ _ s hinit hs
      split at h
      · split at h
        · simp only [Option.some.injEq] at h; rw [← h]; trivial
        · simp only [Option.some.injEq] at h; rw [← h]; exact getD_allB _ hb 0
      · simp only [Option.some.injEq] at h; rw [← h]
        intro v hv
        exact hb v (List.mem_of_mem_take hv)
      · simp only [Option.some.injEq] at h; rw [← h]
        intro v hv
        rw [List.mem_map] at hv
        obtain ⟨y, _, hy⟩ := hv
        rw [← hy]; exact getD_allB _ hb _
      · simp only [Option.some.injEq] at h; rw [← h]; exact hb

/-- a level array: fixed size, every block bounded -/
def Levels (n : Nat) (a : Array Dct) : Prop := a.size = n ∧ ∀ i (h : i < a.size), Dct.Bounded a[i]

theorem levels_replicate (n : Nat) : Levels n (Array.replicate n Dct.zero) := by
  refine ⟨by simp, ?_⟩
  intro i hi
  simp only [Array.getElem_replicate]
  trivial

theorem levels_set (n : Nat) (a : Array Dct) (h : Levels n a) (i : Nat) (d : Dct) (hd : Dct.Bounded d) : Levels n (a.set! i d) := by
  obtain ⟨hs, hb⟩ := h
  refine ⟨by simp [hs], ?_⟩
  intro j hj
  have hj' : j < a.size := by simpa using hj
  have : (a.set! i d)[j] = if i = j then d else a[j] := by
    simp [Array.set!_eq_setIfInBounds, Array.getElem_setIfInBounds, hj']
  rw [this]
  split
  · exact hd
  · exact hb j hj'

theorem inverseRle_ok (b : Block) (hdc : ∀ dc, b.intradc = some dc → dc < 256) (n : Nat) (levels : Array Dct) (hl : Levels n levels)
    (pos : Nat × Nat) (bpl q : Nat) (hidx : pos.1 / 8 + (pos.2 / 8) * bpl < n) :
    ∃ r, inverseRle b levels pos bpl q = .ok r ∧ Levels n r := by
  unfold inverseRle
  simp only
  rw [if_pos (by rw [hl.1]; exact hidx)]
  cases h : inverseRleBlock b q with
  | none => exact ⟨levels, rfl, hl⟩
  | some d => exact ⟨_, rfl, levels_set n levels hl _ d (inverseRleBlock_bounded b q hdc d h)⟩


/-! ### a small program logic for `Out` -/

def OutSat {α : Type} (x : Out α) (Q : α → Prop) : Prop :=
  match x with
  | .ok a => Q a
  | .err _ => True
  | .panic _ => False
  | .fuel => False

theorem OutSat.bind {α β : Type} {x : Out α} {f : α → Out β} {Q1 : α → Prop} {Q : β → Prop}
    (hx : OutSat x Q1) (hf : ∀ a, x = .ok a → Q1 a → OutSat (f a) Q) : OutSat (x >>= f) Q := by
  cases x with
  | ok a => exact hf a rfl hx
  | err e => trivial
  | panic s => exact hx
  | fuel => exact hx

theorem OutSat.ok {α : Type} {a : α} {Q : α → Prop} (h : Q a) : OutSat (.ok a) Q := h
theorem OutSat.pure {α : Type} {a : α} {Q : α → Prop} (h : Q a) : OutSat (pure a : Out α) Q := h

theorem OutSat.weaken {α : Type} {x : Out α} {Q Q' : α → Prop} (h : OutSat x Q) (hq : ∀ a, Q a → Q' a) : OutSat x Q' := by
  cases x with
  | ok a => exact hq a h
  | err e => trivial
  | panic s => exact h
  | fuel => exact h

theorem OutSat.of_sat {α : Type} {p : P α} {Q : α → Prop} (h : Sat p Q) (c : Cur) :
    OutSat (p c) (fun r => r.2.bits.length ≤ c.bits.length ∧ Q r.1) := by
  have := h.run c
  cases hp : p c with
  | ok r => obtain ⟨a, c'⟩ := r; rw [hp] at this; exact this
  | err e => trivial
  | panic s => rw [hp] at this; exact this
  | fuel => rw [hp] at this; exact this

theorem OutSat.returns {α : Type} {x : Out α} {Q : α → Prop} (h : OutSat x Q) : x.returns = true := by
  cases x with
  | ok a => rfl
  | err e => rfl
  | panic s => exact absurd h id
  | fuel => exact absurd h id

/-! ### one coded macroblock -/

/-- The quantizer update cannot overflow its i8 for any quantizer a header or an earlier update can produce. -/
theorem quant_update_total (q : Nat) (hq : q ≤ 31) (dq : Option Int) (hd : DqOK dq) :
    ∃ q', updateQuant q dq = .ok q' ∧ 1 ≤ q' ∧ q' ≤ 31 := by
  have key : ∀ d : Int, -2 ≤ d → d ≤ 2 → ∃ q', updateQuant q (some d) = .ok q' ∧ 1 ≤ q' ∧ q' ≤ 31 := by
    intro d h1 h2
    unfold updateQuant
    simp only [Option.getD_some]
    have h3 : ¬ (q > 127 ∨ (q : Int) + d < -128 ∨ (q : Int) + d > 127) := by omega
    simp only [h3, ↓reduceIte]
    refine ⟨_, rfl, ?_, ?_⟩ <;> (repeat' split) <;> omega
  rcases hd with h | h | h | h | h <;> subst h
  · have := key 0 (by omega) (by omega)
    simpa [updateQuant] using this
  · exact key _ (by omega) (by omega)
  · exact key _ (by omega) (by omega)
  · exact key _ (by omega) (by omega)
  · exact key _ (by omega) (by omega)

/-- invariant of the macroblock loop for a picture of `w x mbH` macroblocks -/
structure LoopInv (w mbH : Nat) (l : Loop) : Prop where
  quant : l.quant ≤ 31
  mvs : l.mvs.size = l.types.size
  luma : Levels (w * 16 * (mbH * 16) / 64) l.lumaLv
  cb : Levels (w * 16 * (mbH * 16) / 4 / 64) l.cbLv
  cr : Levels (w * 16 * (mbH * 16) / 4 / 64) l.crLv

theorem idx_lt (a b W H : Nat) (ha : a < W) (hb : b < H) : a + b * W < W * H := by
  have h1 : (b + 1) * W ≤ H * W := Nat.mul_le_mul_right W (by omega)
  rw [Nat.add_mul, Nat.one_mul, Nat.mul_comm H W] at h1
  omega

theorem level_sizes (w mbH : Nat) : w * 16 * (mbH * 16) / 64 = (w * 2) * (mbH * 2) ∧ w * 16 * (mbH * 16) / 4 / 64 = w * mbH := by
  have e1 : w * 16 * (mbH * 16) = (w * mbH) * 256 := by
    rw [Nat.mul_mul_mul_comm]
  have e2 : (w * 2) * (mbH * 2) = (w * mbH) * 4 := by
    rw [Nat.mul_mul_mul_comm]
  rw [e1, e2]
  generalize w * mbH = k
  omega

theorem predictCandidate_ok (pv : Array Mv4) (cur : Mv4) (w index : Nat) (hw : 1 ≤ w) (hi : index < 4) :
    ∃ m, predictCandidate pv cur w index = .ok m := by
  have hc : pv.size % w < w := Nat.mod_lt _ (by omega)
  have hn : pv.size = (pv.size / w) * w + pv.size % w := by
    have := Nat.div_add_mod pv.size w
    rw [Nat.mul_comm] at this
    omega
  exact ⟨_, Thm.C12.candidate_spec pv cur w (pv.size / w) (pv.size % w) index hw hc hn hi⟩


/-- the motion-vector part of a coded macroblock never panics -/
theorem mvs_part_ok (hdr : PicHdr) (dims : Option (Nat × Nat)) (running w : Nat) (hw : 1 ≤ w) (pv : Array Mv4) (t : MbType)
    (mv : Option Mv) (addl : Option (Mv × Mv × Mv)) :
    OutSat (if t.isInter then do
      let mv1 := mv.getD zeroMv
      let p1 ← predictCandidate pv zeroMv4 w 0
      let m0 := mvDecode hdr dims running p1 mv1
      let cur : Mv4 := (m0, zeroMv, zeroMv, zeroMv)
      match addl with
      | some (mv2, mv3, mv4) =>
        let p2 ← predictCandidate pv cur w 1
        let cur := cur.set 1 (mvDecode hdr dims running p2 mv2)
        let p3 ← predictCandidate pv cur w 2
        let cur := cur.set 2 (mvDecode hdr dims running p3 mv3)
        let p4 ← predictCandidate pv cur w 3
        let cur := cur.set 3 (mvDecode hdr dims running p4 mv4)
        pure cur
      | none => pure (m0, m0, m0, m0)
    else pure zeroMv4 : Out Mv4) (fun _ => True) := by
  split
  · obtain ⟨p1, e1⟩ := predictCandidate_ok pv zeroMv4 w 0 hw (by omega)
    simp only [e1, Out.bind_ok]
    cases addl with
    | none => trivial
    | some a =>
      obtain ⟨mv2, mv3, mv4⟩ := a
      simp only
      obtain ⟨p2, e2⟩ := predictCandidate_ok pv (mvDecode hdr dims running p1 (mv.getD zeroMv), zeroMv, zeroMv, zeroMv) w 1 hw (by omega)
      simp only [e2, Out.bind_ok]
      obtain ⟨p3, e3⟩ := predictCandidate_ok pv (Mv4.set (mvDecode hdr dims running p1 (mv.getD zeroMv), zeroMv, zeroMv, zeroMv) 1 (mvDecode hdr dims running p2 mv2)) w 2 hw (by omega)
      simp only [e3, Out.bind_ok]
      obtain ⟨p4, e4⟩ := predictCandidate_ok pv (Mv4.set (Mv4.set (mvDecode hdr dims running p1 (mv.getD zeroMv), zeroMv, zeroMv, zeroMv) 1 (mvDecode hdr dims running p2 mv2)) 2 (mvDecode hdr dims running p3 mv3)) w 3 hw (by omega)
      simp only [e4, Out.bind_ok]
      trivial
  · trivial

theorem codedMb_ok (d : DecOpts) (hdr : PicHdr) (dims : Option (Nat × Nat)) (running w mbH : Nat) (hw : 1 ≤ w) (l : Loop)
    (hinv : LoopInv w mbH l) (hn : l.types.size < w * mbH) (t : MbType) (cbp : Cbp) (dq : Option Int) (mv : Option Mv)
    (addl : Option (Mv × Mv × Mv)) (hdq : DqOK dq) :
    OutSat (codedMb d hdr dims running w l t cbp dq mv addl)
      (fun l' => LoopInv w mbH l' ∧ l'.types.size = l.types.size + 1 ∧ l'.cur.bits.length ≤ l.cur.bits.length) := by
  unfold codedMb
  obtain ⟨q, eq, hq1, hq31⟩ := quant_update_total l.quant hinv.quant dq hdq
  rw [eq]
  simp only [Out.bind_ok]
  refine OutSat.bind (mvs_part_ok hdr dims running w hw l.mvs t mv addl) (fun mvs _ _ => ?_)
  -- positions
  have hs := level_sizes w mbH
  have hr : l.types.size % w < w := Nat.mod_lt _ (by omega)
  have hk : l.types.size / w < mbH := (Nat.div_lt_iff_lt_mul (by omega)).2 (by rw [Nat.mul_comm]; exact hn)
  generalize hrr : l.types.size % w = r at hr ⊢
  generalize hkk : l.types.size / w = k at hk ⊢
  have lumaIdx : ∀ dx dy, dx ≤ 8 → dy ≤ 8 → (r * 16 + dx) / 8 + ((k * 16 + dy) / 8) * (w * 2) < w * 16 * (mbH * 16) / 64 := by
    intro dx dy hx hy
    rw [hs.1]
    by_cases hx8 : dx = 8
    · by_cases hy8 : dy = 8
      · subst hx8; subst hy8
        exact idx_lt _ _ _ _ (by omega) (by omega)
      · exact idx_lt _ _ _ _ (by omega) (by omega)
    · exact idx_lt _ _ _ _ (by omega) (by omega)
  have chromaIdx : (r * 16 / 2) / 8 + ((k * 16 / 2) / 8) * w < w * 16 * (mbH * 16) / 4 / 64 := by
    rw [hs.2]
    exact idx_lt _ _ _ _ (by omega) (by omega)
  have rdS : ∀ (c : Cur) (present : Bool), OutSat (decodeBlock d hdr running t present c)
      (fun r => r.2.bits.length ≤ c.bits.length ∧ ∀ dc, r.1.intradc = some dc → dc < 256) :=
    fun c present => OutSat.of_sat (decodeBlock_sat d hdr running t present) c
  refine OutSat.bind (rdS _ _) (fun x0 _ h0 => ?_)
  obtain ⟨l0, e0, i0⟩ := inverseRle_ok x0.1 h0.2 _ l.lumaLv hinv.luma (r * 16, k * 16) (w * 2) q (by simpa using lumaIdx 0 0 (by omega) (by omega))
  rw [e0]; simp only [Out.bind_ok]
  refine OutSat.bind (rdS _ _) (fun x1 _ h1 => ?_)
  obtain ⟨l1, e1, i1⟩ := inverseRle_ok x1.1 h1.2 _ l0 i0 (r * 16 + 8, k * 16) (w * 2) q (by simpa using lumaIdx 8 0 (by omega) (by omega))
  rw [e1]; simp only [Out.bind_ok]
  refine OutSat.bind (rdS _ _) (fun x2 _ h2 => ?_)
  obtain ⟨l2, e2, i2⟩ := inverseRle_ok x2.1 h2.2 _ l1 i1 (r * 16, k * 16 + 8) (w * 2) q (by simpa using lumaIdx 0 8 (by omega) (by omega))
  rw [e2]; simp only [Out.bind_ok]
  refine OutSat.bind (rdS _ _) (fun x3 _ h3 => ?_)
  obtain ⟨l3, e3, i3⟩ := inverseRle_ok x3.1 h3.2 _ l2 i2 (r * 16 + 8, k * 16 + 8) (w * 2) q (by simpa using lumaIdx 8 8 (by omega) (by omega))
  rw [e3]; simp only [Out.bind_ok]
  refine OutSat.bind (rdS _ _) (fun x4 _ h4 => ?_)
  obtain ⟨l4, e4, i4⟩ := inverseRle_ok x4.1 h4.2 _ l.cbLv hinv.cb (r * 16 / 2, k * 16 / 2) w q chromaIdx
  rw [e4]; simp only [Out.bind_ok]
  refine OutSat.bind (rdS _ _) (fun x5 _ h5 => ?_)
  obtain ⟨l5, e5, i5⟩ := inverseRle_ok x5.1 h5.2 _ l.crLv hinv.cr (r * 16 / 2, k * 16 / 2) w q chromaIdx
  rw [e5]; simp only [Out.bind_ok]
  refine OutSat.pure ⟨⟨hq31, ?_, i3, i4, i5⟩, ?_, ?_⟩
  · simp [hinv.mvs]
  · simp
  · simp only at h0 h1 h2 h3 h4 h5 ⊢
    omega


/-! ### the macroblock loop -/

/-- what is left to do: unread bits plus macroblocks still missing -/
def measure (total : Nat) (l : Loop) : Nat := l.cur.bits.length + (total - l.types.size)

def StepPost (w mbH : Nat) (l : Loop) : Step → Prop
  | .continue l' => LoopInv w mbH l' ∧ measure (w * mbH) l' < measure (w * mbH) l
  | .stop l' => LoopInv w mbH l'

theorem mbStep_ok (d : DecOpts) (hdr : PicHdr) (dims : Option (Nat × Nat)) (running w mbH : Nat) (hw : 1 ≤ w) (l : Loop)
    (hinv : LoopInv w mbH l) : OutSat (mbStep d hdr dims running w (w * mbH) l) (StepPost w mbH l) := by
  unfold mbStep
  split
  · exact hinv
  · rename_i hlt
    have hn : l.types.size < w * mbH := by omega
    rw [if_neg (by omega)]
    have hmb := (decodeMacroblock_sat hdr running).run l.cur
    cases hm : decodeMacroblock hdr running l.cur with
    | ok r =>
      obtain ⟨m, c⟩ := r
      rw [hm] at hmb
      simp only at hmb
      cases m with
      | stuffing =>
        simp only
        have := decodeMacroblock_stuffing_strict hdr running l.cur c hm
        exact ⟨⟨hinv.quant, hinv.mvs, hinv.luma, hinv.cb, hinv.cr⟩, by unfold measure; simp only; omega⟩
      | uncoded =>
        simp only
        split
        · trivial
        · refine ⟨⟨hinv.quant, by simp [hinv.mvs], hinv.luma, hinv.cb, hinv.cr⟩, ?_⟩
          unfold measure; simp only [Array.size_push]; omega
      | coded t cbp dq mv addl =>
        simp only
        have hinv' : LoopInv w mbH { l with cur := c } := ⟨hinv.quant, hinv.mvs, hinv.luma, hinv.cb, hinv.cr⟩
        have := codedMb_ok d hdr dims running w mbH hw { l with cur := c } hinv' hn t cbp dq mv addl hmb.2
        show OutSat ((codedMb d hdr dims running w { l with cur := c } t cbp dq mv addl) >>= fun l' => Out.ok (Step.continue l')) _
        refine OutSat.bind this (fun l' _ hl' => ?_)
        refine ⟨hl'.1, ?_⟩
        unfold measure
        have h2 := hl'.2.1
        have h3 := hl'.2.2
        simp only at h2 h3
        omega
    | err e =>
      simp only
      split
      · have hg := (decodeGob_sat).run l.cur
        cases hgg : Header.decodeGob l.cur with
        | ok r => exact hinv
        | err e' =>
          simp only
          split
          · exact hinv
          · trivial
        | panic s => rw [hgg] at hg; exact hg
        | fuel => rw [hgg] at hg; exact hg
      · split
        · exact hinv
        · trivial
    | panic s => rw [hm] at hmb; exact hmb
    | fuel => rw [hm] at hmb; exact hmb

theorem mbLoop_ok (d : DecOpts) (hdr : PicHdr) (dims : Option (Nat × Nat)) (running w mbH : Nat) (hw : 1 ≤ w) :
    ∀ (fuel : Nat) (l : Loop), LoopInv w mbH l → measure (w * mbH) l < fuel →
      OutSat (mbLoop d hdr dims running w (w * mbH) fuel l) (LoopInv w mbH) := by
  intro fuel
  induction fuel with
  | zero => intro l _ h; omega
  | succ n ih =>
    intro l hinv hm
    unfold mbLoop
    have hs := mbStep_ok d hdr dims running w mbH hw l hinv
    cases hst : mbStep d hdr dims running w (w * mbH) l with
    | ok st =>
      rw [hst] at hs
      cases st with
      | «continue» l' => exact ih l' hs.1 (by have := hs.2; omega)
      | stop l' => exact hs
    | err e => trivial
    | panic s => rw [hst] at hs; exact hs
    | fuel => rw [hst] at hs; exact hs


/-! ### the batch reconstruction -/

theorem foldlM_sat {α β : Type} (I : α → Prop) (f : α → β → Out α) (l : List β)
    (h : ∀ a b, I a → b ∈ l → OutSat (f a b) I) : ∀ init, I init → OutSat (l.foldlM f init) I := by
  induction l with
  | nil => intro init hi; exact hi
  | cons b bs ih =>
    intro init hi
    rw [List.foldlM_cons]
    refine OutSat.bind (h init b hi (by simp)) (fun a _ ha => ?_)
    exact ih (fun a b ha hb => h a b ha (by simp [hb])) a ha

theorem pt_bound (a b spr rows size : Nat) (ha : a < spr) (hb : b < rows) (hs : rows * spr ≤ size) : a + b * spr < size := by
  have := idx_lt a b spr rows ha hb
  rw [Nat.mul_comm spr rows] at this
  omega

theorem row_bound (a b spr rows size : Nat) (ha : a + 8 ≤ spr) (hb : b < rows) (hs : rows * spr ≤ size) : a + b * spr + 8 ≤ size := by
  have h1 : (b + 1) * spr ≤ rows * spr := Nat.mul_le_mul_right spr (by omega)
  rw [Nat.add_mul, Nat.one_mul] at h1
  omega

theorem addBlock_ok (out : Array Nat) (n spl xb yb : Nat) (hsz : out.size = n) (res : Nat → Nat → Int) :
    OutSat (Idct.addBlock out spl xb yb (min 8 (spl - xb * 8)) (min 8 (n / spl - yb * 8)) res) (fun r => r.size = n) := by
  unfold Idct.addBlock
  refine foldlM_sat (fun o => o.size = n) _ _ ?_ out hsz
  intro o yo ho hyo
  refine foldlM_sat (fun o => o.size = n) _ _ ?_ o ho
  intro o2 xo ho2 hxo
  simp only
  rw [List.mem_range] at hyo hxo
  have hlt : (xb * 8 + xo) + (yb * 8 + yo) * spl < o2.size := by
    rw [ho2]
    exact pt_bound _ _ spl (n / spl) n (by omega) (by omega) (Nat.div_mul_le_self n spl)
  rw [Array.getElem?_eq_getElem hlt]
  simp only
  show (o2.set! _ _).size = n
  simp [ho2]

theorem idctChannel_ok (levels : Array Dct) (nl : Nat) (hl : Levels nl levels) (output : Array Nat) (bpl spl : Nat)
    (hb : 1 ≤ bpl) (hs : 1 ≤ spl) : OutSat (Idct.idctChannel levels output bpl spl) (fun r => r.size = output.size) := by
  unfold Idct.idctChannel
  rw [if_neg (by omega), if_neg (by omega)]
  simp only
  refine foldlM_sat (fun o => o.size = output.size) _ _ ?_ output rfl
  intro o yb ho _
  refine foldlM_sat (fun o => o.size = output.size) _ _ ?_ o ho
  intro o2 xb ho2 _
  cases hlv : levels[xb + yb * bpl]? with
  | none => exact ho2
  | some b =>
    simp only
    have hbnd : Dct.Bounded b := by
      obtain ⟨hlt, he⟩ := Array.getElem?_eq_some_iff.mp hlv
      rw [← he]; exact hl.2 _ hlt
    cases hr : Idct.blockResidual b with
    | none => exact ho2
    | some rb =>
      obtain ⟨res, bad⟩ := rb
      simp only
      have := blockResidual_no_gap b hbnd res bad hr
      subst this
      simp only [Bool.false_eq_true, ↓reduceIte]
      exact addBlock_ok o2 output.size spl xb yb ho2 res


theorem readSample_ok (px : Array Nat) (spr rows : Nat) (hs : 1 ≤ spr) (hr : 1 ≤ rows) (hsz : rows * spr ≤ px.size) (x y : Int) :
    ∃ v, readSample px spr rows x y = .ok v := by
  unfold readSample
  simp only
  generalize hcx : (if x < 0 then (0 : Int) else if x > ((spr - 1 : Nat) : Int) then ((spr - 1 : Nat) : Int) else x) = cx
  generalize hcy : (if y < 0 then (0 : Int) else if y > ((rows - 1 : Nat) : Int) then ((rows - 1 : Nat) : Int) else y) = cy
  have h1 : cx.toNat < spr := by rw [← hcx]; repeat' split; all_goals omega
  have h2 : cy.toNat < rows := by rw [← hcy]; repeat' split; all_goals omega
  have hlt := pt_bound _ _ spr rows px.size h1 h2 hsz
  rw [Array.getElem?_eq_getElem hlt]
  exact ⟨_, rfl⟩

theorem setChecked_ok (t : Array Nat) (i v n : Nat) (hs : t.size = n) (hi : i < n) :
    OutSat (setChecked t i v) (fun r => r.size = n) := by
  unfold setChecked
  rw [if_pos (by omega)]
  show (t.set! i v).size = n
  simp [hs]

/-- one 8x8 block of motion compensation never indexes outside the reference or the target plane, provided both planes have the same size -/
theorem gatherBlock_ok (px : Array Nat) (spr : Nat) (hs : 1 ≤ spr) (pos : Nat × Nat) (mv : Mv) (target : Array Nat)
    (hsz : target.size = px.size) : OutSat (gatherBlock px spr pos mv target) (fun r => r.size = px.size) := by
  unfold gatherBlock
  rw [if_neg (by omega)]
  simp only
  have hrows : px.size / spr * spr ≤ px.size := Nat.div_mul_le_self _ _
  generalize hrw : px.size / spr = rows at hrows ⊢
  -- the generic per-sample body writes inside the target
  have body_idx : ∀ i j, i < min 8 (spr - pos.1) → j < min 8 (rows - pos.2) → pos.1 + i + (pos.2 + j) * spr < px.size :=
    fun i j hi hj => pt_bound _ _ spr rows px.size (by omega) (by omega) hrows
  have rows_pos : ∀ j, j < min 8 (rows - pos.2) → 1 ≤ rows := fun j hj => by omega
  split
  · split
    · -- fast path
      rename_i hc
      obtain ⟨c8, r8, x0, x1, y0, y1⟩ := hc
      refine foldlM_sat (fun t => t.size = px.size) _ _ ?_ target hsz
      intro t j ht hj
      rw [List.mem_range] at hj
      have b1 : ((pos.1 : Int) + (lerpParams mv.1).1).toNat + (((pos.2 : Int) + (lerpParams mv.2).1).toNat + j) * spr + 8 ≤ px.size :=
        row_bound _ _ spr rows px.size (by omega) (by omega) hrows
      have b2 : pos.1 + (pos.2 + j) * spr + 8 ≤ t.size := by
        rw [ht]; exact row_bound _ _ spr rows px.size (by omega) (by omega) hrows
      rw [if_pos ⟨b1, b2⟩]
      show (List.foldl _ t (List.range 8)).size = px.size
      refine PlaneInv.foldl_inv (fun a => a.size = px.size) _ _ ?_ t ht
      intro a i ha
      simp [ha]
    · refine foldlM_sat (fun t => t.size = px.size) _ _ ?_ target hsz
      intro t j ht hj
      rw [List.mem_range] at hj
      refine foldlM_sat (fun t => t.size = px.size) _ _ ?_ t ht
      intro t2 i ht2 hi
      rw [List.mem_range] at hi
      obtain ⟨v, hv⟩ := readSample_ok px spr rows hs (rows_pos j hj) hrows ((pos.1 : Int) + (lerpParams mv.1).1 + (i : Nat)) ((pos.2 : Int) + (lerpParams mv.2).1 + (j : Nat))
      simp only [hv, Out.bind_ok]
      exact setChecked_ok t2 _ v px.size ht2 (body_idx i j hi hj)
  · refine foldlM_sat (fun t => t.size = px.size) _ _ ?_ target hsz
    intro t j ht hj
    rw [List.mem_range] at hj
    refine foldlM_sat (fun t => t.size = px.size) _ _ ?_ t ht
    intro t2 i ht2 hi
    rw [List.mem_range] at hi
    have rs := fun x y => readSample_ok px spr rows hs (rows_pos j hj) hrows x y
    obtain ⟨v00, h00⟩ := rs ((pos.1 : Int) + (lerpParams mv.1).1 + (i : Nat)) ((pos.2 : Int) + (lerpParams mv.2).1 + (j : Nat))
    obtain ⟨v10, h10⟩ := rs ((pos.1 : Int) + (lerpParams mv.1).1 + (i : Nat) + 1) ((pos.2 : Int) + (lerpParams mv.2).1 + (j : Nat))
    obtain ⟨v01, h01⟩ := rs ((pos.1 : Int) + (lerpParams mv.1).1 + (i : Nat)) ((pos.2 : Int) + (lerpParams mv.2).1 + (j : Nat) + 1)
    obtain ⟨v11, h11⟩ := rs ((pos.1 : Int) + (lerpParams mv.1).1 + (i : Nat) + 1) ((pos.2 : Int) + (lerpParams mv.2).1 + (j : Nat) + 1)
    simp only [h00, h10, h01, h11, Out.bind_ok]
    exact setChecked_ok t2 _ _ px.size ht2 (body_idx i j hi hj)


open H263V.Lemmas.PlaneInv in
/-- motion compensation of a whole picture never panics when every stored reference picture is well-shaped -/
theorem gather_ok (types : Array MbType) (ref : Option DecPic) (href : ∀ r, ref = some r → PicOK r) (mvs : Array Mv4)
    (mbPerLine : Nat) (hm : 1 ≤ mbPerLine) (pic : DecPic) (W H : Nat) (hd : pic.fmt.dims = some (W, H))
    (hl : pic.luma.size = W * H) (hb : pic.cb.size = ((W + 1) / 2) * ((H + 1) / 2)) (hr : pic.cr.size = ((W + 1) / 2) * ((H + 1) / 2)) :
    OutSat (gather types ref mvs mbPerLine pic) (fun _ => True) := by
  unfold gather
  refine (foldlM_sat (fun p => p.fmt = pic.fmt ∧ p.luma.size = W * H ∧ p.cb.size = ((W + 1) / 2) * ((H + 1) / 2) ∧
    p.cr.size = ((W + 1) / 2) * ((H + 1) / 2)) _ _ ?_ pic ⟨rfl, hl, hb, hr⟩).weaken (fun _ _ => trivial)
  intro p i hp _
  obtain ⟨pf, pl, pb, pr⟩ := hp
  simp only
  split
  · cases href' : ref with
    | none => trivial
    | some rp =>
      simp only
      obtain ⟨w', h', hw', hh', hd', ⟨l1, _⟩, ⟨b1, _⟩, ⟨r1, _⟩, hspr⟩ := href rp href'
      split
      · trivial
      · rename_i hne
        have hdeq : rp.fmt.dims = p.fmt.dims := by simpa using hne
        rw [pf, hd, hd'] at hdeq
        simp only [Option.some.injEq, Prod.mk.injEq] at hdeq
        obtain ⟨e1, e2⟩ := hdeq
        subst e1; subst e2
        rw [hd']
        simp only
        rw [if_neg (by omega)]
        have gl := fun pos mv (t : Array Nat) (ht : t.size = rp.luma.size) => gatherBlock_ok rp.luma w' hw' pos mv t ht
        have gb := fun pos mv (t : Array Nat) (ht : t.size = rp.cb.size) => gatherBlock_ok rp.cb rp.chromaSpr (by rw [hspr]; omega) pos mv t ht
        have gr := fun pos mv (t : Array Nat) (ht : t.size = rp.cr.size) => gatherBlock_ok rp.cr rp.chromaSpr (by rw [hspr]; omega) pos mv t ht
        refine OutSat.bind (gl _ _ p.luma (by rw [pl, l1])) (fun t1 _ h1 => ?_)
        refine OutSat.bind (gl _ _ t1 h1) (fun t2 _ h2 => ?_)
        refine OutSat.bind (gl _ _ t2 h2) (fun t3 _ h3 => ?_)
        refine OutSat.bind (gl _ _ t3 h3) (fun t4 _ h4 => ?_)
        refine OutSat.bind (gb _ _ p.cb (by rw [pb, b1])) (fun t5 _ h5 => ?_)
        refine OutSat.bind (gr _ _ p.cr (by rw [pr, r1])) (fun t6 _ h6 => ?_)
        exact ⟨pf, by rw [h4, l1], by rw [h5, b1], by rw [h6, r1]⟩
  · exact ⟨pf, pl, pb, pr⟩


open H263V.Lemmas.PlaneInv in
theorem reconstruct_ok (types : Array MbType) (ref : Option DecPic) (href : ∀ r, ref = some r → PicOK r) (mvs : Array Mv4)
    (mbPerLine : Nat) (hm : 1 ≤ mbPerLine) (W H : Nat) (hW : 1 ≤ W) (pic : DecPic) (fmt : SrcFmt) (hd : fmt.dims = some (W, H))
    (hp : Shape pic fmt (W * H) (((W + 1) / 2) * ((H + 1) / 2)) ((W + 1) / 2))
    (lv1 lv2 lv3 : Array Dct) (n1 n2 n3 : Nat) (h1 : Levels n1 lv1) (h2 : Levels n2 lv2) (h3 : Levels n3 lv3) :
    OutSat (reconstruct types ref mvs mbPerLine W pic lv1 lv2 lv3) (fun _ => True) := by
  unfold reconstruct
  obtain ⟨pf, pl, pb, pr, ps⟩ := hp
  have hg := gather_ok types ref href mvs mbPerLine hm pic W H (by rw [pf]; exact hd) pl.1 pb.1 pr.1
  refine OutSat.bind hg (fun p1 e1 _ => ?_)
  have hsh := gather_shape types ref href mvs mbPerLine pic p1 fmt _ _ _ ⟨pf, pl, pb, pr, ps⟩ e1
  refine OutSat.bind (idctChannel_ok lv1 n1 h1 p1.luma (mbPerLine * 2) W (by omega) hW) (fun _ _ _ => ?_)
  refine OutSat.bind (idctChannel_ok lv2 n2 h2 p1.cb mbPerLine p1.chromaSpr hm (by rw [hsh.2.2.2.2]; omega)) (fun _ _ _ => ?_)
  refine OutSat.bind (idctChannel_ok lv3 n3 h3 p1.cr mbPerLine p1.chromaSpr hm (by rw [hsh.2.2.2.2]; omega)) (fun _ _ _ => ?_)
  trivial

open H263V.Lemmas.PlaneInv in
/-- Everything `decode_next_picture` does before it commits — header, macroblock loop, motion compensation, inverse
transforms — returns a value or an error for every decoder state with well-shaped stored pictures and every bit string. -/
theorem decodeCore_ok (s : State) (hs : StoreOK s) (c : Cur) : OutSat (decodeCore s c) (fun _ => True) := by
  have href : ∀ r, s.getRef = some r → PicOK r := by
    intro r hr
    unfold State.getRef at hr
    cases hk : s.ref with
    | none => rw [hk] at hr; simp at hr
    | some k => rw [hk] at hr; simp only [Option.bind_some] at hr; exact hs k r hr
  unfold decodeCore
  have h1 := OutSat.of_sat (decodePicture_sat s.opts (s.getLast.map (·.hdr))) c
  refine OutSat.bind h1 ?_
  intro x _ hx
  obtain ⟨ohdr, c1⟩ := x
  simp only
  cases ohdr with
  | none => trivial
  | some hdr =>
    simp only
    have hq : hdr.quantizer < 32 := (hx.2 hdr rfl).1
    refine OutSat.bind (Q1 := fun _ => True) ?_ ?_
    · repeat' split
      all_goals trivial
    · intro fmt _ _
      cases hdims : fmt.dims with
      | none => trivial
      | some wh =>
        obtain ⟨w, h⟩ := wh
        simp only
        split
        · trivial
        · rename_i hz
          have hw : 1 ≤ w := by omega
          have hh : 1 ≤ h := by omega
          cases hnew : DecPic.new hdr fmt with
          | none => trivial
          | some pic =>
            simp only
            have hsh := new_shape hdr fmt w h hdims pic hnew
            have hmpl : 1 ≤ (w + 15) / 16 := by omega
            have hloop := mbLoop_ok s.opts hdr (some (w, h)) (nextRunning hdr s.running) ((w + 15) / 16) ((h + 15) / 16) hmpl
              (c1.bits.length + (w + 15) / 16 * ((h + 15) / 16) + 2)
              { cur := c1, quant := hdr.quantizer, mvs := #[], types := #[],
                lumaLv := Array.replicate ((w + 15) / 16 * 16 * ((h + 15) / 16 * 16) / 64) .zero,
                cbLv := Array.replicate ((w + 15) / 16 * 16 * ((h + 15) / 16 * 16) / 4 / 64) .zero,
                crLv := Array.replicate ((w + 15) / 16 * 16 * ((h + 15) / 16 * 16) / 4 / 64) .zero }
              ⟨by simp only; omega, rfl, levels_replicate _, levels_replicate _, levels_replicate _⟩
              (by unfold measure; simp only [Array.size_empty]; omega)
            refine OutSat.bind hloop ?_
            intro l _ hl
            have hrec := reconstruct_ok
              (if l.types.size < (w + 15) / 16 * ((h + 15) / 16) then l.types ++ Array.replicate ((w + 15) / 16 * ((h + 15) / 16) - l.types.size) MbType.inter else l.types)
              s.getRef href
              (if l.mvs.size < (w + 15) / 16 * ((h + 15) / 16) then l.mvs ++ Array.replicate ((w + 15) / 16 * ((h + 15) / 16) - l.mvs.size) zeroMv4 else l.mvs)
              ((w + 15) / 16) hmpl w h hw pic fmt hdims hsh _ _ _ _ _ _ hl.luma hl.cb hl.cr
            refine OutSat.bind hrec ?_
            intro _ _ _
            trivial

open H263V.Lemmas.PlaneInv in
/-- **`decode_next_picture` never panics and never hangs**: for every decoder state whose stored pictures are well-shaped
(an invariant of every history, see `decode_storeOK`) and every bit string, the call returns the new state or an error value. -/
theorem decodeNextPicture_returns (s : State) (hs : StoreOK s) (c : Cur) : (decodeNextPicture s c).returns = true := by
  unfold decodeNextPicture
  have := decodeCore_ok s hs c
  cases h : decodeCore s c with
  | ok r => rfl
  | err e => rfl
  | panic m => rw [h] at this; exact absurd this id
  | fuel => rw [h] at this; exact absurd this id


open H263V.Lemmas.PlaneInv in
/-- well-shapedness of the stored pictures is an invariant of every operation of the system model -/
theorem step_storeOK (i : System.Inst) (hi : StoreOK i.st) (op : System.Op) : StoreOK (System.step i op).1.st := by
  cases op with
  | feed bits => exact hi
  | cleanup =>
    simp only [System.step]
    intro k q hk
    exact hi k q (cleanup_lookup _ k q hk)
  | decode =>
    simp only [System.step]
    cases hd : State.decodeNextPicture i.st i.cur with
    | ok r => exact (decode_storeOK i.st hi i.cur r.1 r.2 (by rw [hd])).1
    | err e => exact hi
    | panic m => exact hi
    | fuel => exact hi

open H263V.Lemmas.PlaneInv in
theorem step_not_crashed (i : System.Inst) (hi : StoreOK i.st) (op : System.Op) : (System.step i op).2 ≠ .crashed := by
  cases op with
  | feed bits => simp [System.step]
  | cleanup => simp [System.step]
  | decode =>
    have := decodeNextPicture_returns i.st hi i.cur
    simp only [System.step]
    cases hd : State.decodeNextPicture i.st i.cur with
    | ok r => simp
    | err e => simp
    | panic m => rw [hd] at this; simp [Out.returns] at this
    | fuel => rw [hd] at this; simp [Out.returns] at this

open H263V.Lemmas.PlaneInv in
theorem run_not_crashed : ∀ (ops : List System.Op) (i : System.Inst), StoreOK i.st → ∀ r ∈ (System.run i ops).2, r ≠ .crashed := by
  intro ops
  induction ops with
  | nil => intro i _ r hr; simp [System.run] at hr
  | cons op rest ih =>
    intro i hi r hr
    simp only [System.run, List.mem_cons] at hr
    rcases hr with h | h
    · rw [h]; exact step_not_crashed i hi op
    · exact ih _ (step_storeOK i hi op) r h


/-- a decoded picture's header carries a temporal reference of at most ten bits -/
theorem decodeCore_tr (s : State) (c : Cur) (hdr : PicHdr) (pic : DecPic) (c' : Cur)
    (h : decodeCore s c = .ok (hdr, pic, c')) : hdr.tr < 1024 := by
  unfold decodeCore at h
  have h1 := OutSat.of_sat (decodePicture_sat s.opts (s.getLast.map (·.hdr))) c
  cases hp : Header.decodePicture s.opts (s.getLast.map (·.hdr)) c with
  | ok r =>
    obtain ⟨ohdr, c1⟩ := r
    rw [hp] at h h1
    simp only [Out.bind_ok] at h
    cases ohdr with
    | none => simp at h
    | some hd =>
      have hb := (h1.2 hd rfl).2
      simp only [bind, Out.bind] at h
      repeat' split at h
      all_goals (try (simp at h; done))
      all_goals
        simp only [pure, Out.ok.injEq, Prod.mk.injEq] at h
        rw [← h.1]; exact hb
  | err e => rw [hp] at h; simp at h
  | panic m => rw [hp] at h; simp at h
  | fuel => rw [hp] at h; simp at h

end H263V.Lemmas.DecodeTotal
