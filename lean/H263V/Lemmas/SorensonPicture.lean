/-
Sorenson Spark pictures: `decode_next_picture` on the bits of a valid picture description (with any number ≤ 7 of zero
stuffing bits in front that the start-code search admits, and anything behind) commits exactly the bit-free semantic result and
leaves the reader exactly behind the picture.
-/
import H263V.Lemmas.PictureRoundTrip
import H263V.Lemmas.SorensonRoundTrip
import H263V.Lemmas.PlaneInv
namespace H263V.Lemmas.SorensonPicture
open H263V H263V.State H263V.Mb H263V.Spec.Vlc H263V.Spec.Syntax H263V.Spec.HeaderSpec
open H263V.Lemmas.BitsLemmas H263V.Lemmas.ParseLemmas H263V.Lemmas.RoundTrip H263V.Lemmas.PictureRoundTrip

/-- a Sorenson picture description: header and the picture's macroblocks -/
structure SPic where
  hdr : SorensonHdr
  mbs : List MbD

def SPic.bits (p : SPic) : Bits := encodeSorensonHdr p.hdr ++ p.mbs.flatMap (encodeMb (p.hdr.picType == 0))

structure SPic.Valid (o : DecOpts) (p : SPic) (w h : Nat) : Prop where
  hdr : SorensonRoundTrip.Valid p.hdr
  ptype : p.hdr.picType ≤ 2
  dims : (sorensonFmt p.hdr).dims = some (w, h)
  count : p.mbs.length = (w + 15) / 16 * ((h + 15) / 16)
  mbs : ∀ m ∈ p.mbs, MbOK o (sorensonPicture p.hdr) (p.hdr.picType == 0) m

theorem sorenson_ctx (h : SorensonHdr) (hp : h.picType ≤ 2) : HdrCtx (sorensonPicture h) (nextRunning (sorensonPicture h) 0) (h.picType == 0) := by
  have hpt : h.picType = 0 ∨ h.picType = 1 ∨ h.picType = 2 := by omega
  refine ⟨?_, ?_, ?_⟩
  · rcases hpt with e | e | e <;> simp [sorensonPicture, e]
  · unfold nextRunning sorensonPicture flag
    simp only [Bool.false_and, Bool.false_eq_true, ↓reduceIte]
    cases h.deblock <;> decide
  · simp [sorensonPicture]

/-- **Sorenson picture round trip**, in any decoder state in Sorenson mode (the carried-over options are empty in every
reachable state): the call succeeds iff the bit-free semantics does, commits its picture, and consumes exactly the picture. -/
theorem decode_spic (s : State) (hs : s.opts.sorenson = true) (hr : s.running = 0) (p : SPic) (w h : Nat) (hv : p.Valid s.opts w h)
    (rest : Bits) (pos : Nat) :
    decodeNextPicture s ⟨p.bits ++ rest, pos⟩ =
      semCore s (sorensonPicture p.hdr) p.mbs >>= fun r => .ok (commitPic s r.1 r.2, ⟨rest, pos + p.bits.length⟩) := by
  unfold decodeNextPicture SPic.bits
  rw [List.append_assoc]
  have hopts : s.opts = { sorenson := true, scalability := s.opts.scalability } := by
    cases ho : s.opts; rw [ho] at hs; simp only at hs; rw [hs]
  have hctx : HdrCtx (sorensonPicture p.hdr) (nextRunning (sorensonPicture p.hdr) s.running) (p.hdr.picType == 0) := by
    rw [hr]; exact sorenson_ctx p.hdr hv.ptype
  rw [decodeCore_encode s (encodeSorensonHdr p.hdr) (sorensonPicture p.hdr) (p.hdr.picType == 0) p.mbs w h
    (fun r q => by rw [hopts]; exact SorensonRoundTrip.round_trip p.hdr hv.hdr _ _ r q)
    (by unfold dimsOf; simp only [sorensonPicture]; exact hv.dims) hv.count hctx hv.mbs rest pos]
  cases semCore s (sorensonPicture p.hdr) p.mbs with
  | ok r => simp [Nat.add_assoc]
  | err e => rfl
  | panic m => rfl
  | fuel => rfl

/-! ### zero stuffing in front of a start code -/

def zeros (k : Nat) : Bits := List.replicate k false

theorem peek_zeros_sc (k : Nat) (hk1 : 1 ≤ k) (hk : k ≤ 8) (x : Bits) (pos : Nat) :
    peekBits 32 17 ⟨zeros k ++ (startCode ++ x), pos⟩ = .ok 0 := by
  have h17 : (zeros k ++ (startCode ++ x)).take 17 = List.replicate 17 false := by
    have : k = 1 ∨ k = 2 ∨ k = 3 ∨ k = 4 ∨ k = 5 ∨ k = 6 ∨ k = 7 ∨ k = 8 := by omega
    rcases this with e | e | e | e | e | e | e | e <;> subst e <;> rfl
  unfold peekBits
  have hl : ¬ (zeros k ++ (startCode ++ x)).length < 17 := by simp [zeros, startCode, natBits_length]; omega
  simp only [hl, ↓reduceIte, h17]
  decide

theorem peek_sc (x : Bits) (pos : Nat) : peekBits 32 17 ⟨startCode ++ x, pos⟩ = .ok 1 := by
  unfold startCode
  exact peekBits_natBits 32 17 1 (by omega) (by omega) (by decide) x pos

/-- the start-code search skips `k` zero bits in front of a start code as long as the alignment window admits them -/
theorem rsc_zeros (maxSkip : Nat) (x : Bits) : ∀ (k fuel skip pos : Nat), k ≤ 8 → skip + k ≤ maxSkip + 1 → k < fuel →
    rscLoop false maxSkip fuel skip ⟨zeros k ++ (startCode ++ x), pos⟩ = .ok (some (skip + k)) := by
  intro k
  induction k with
  | zero =>
    intro fuel skip pos _ _ hf
    obtain ⟨f, rfl⟩ : ∃ f, fuel = f + 1 := ⟨fuel - 1, by omega⟩
    unfold rscLoop
    simp only [zeros, List.replicate, List.nil_append]
    rw [peek_sc]
    simp
  | succ k ih =>
    intro fuel skip pos hk hs hf
    obtain ⟨f, rfl⟩ : ∃ f, fuel = f + 1 := ⟨fuel - 1, by omega⟩
    unfold rscLoop
    rw [peek_zeros_sc (k + 1) (by omega) hk x pos]
    simp only [Nat.zero_ne_one, ↓reduceIte, Bool.not_false, Bool.true_and, decide_eq_true_eq]
    rw [if_neg (by omega)]
    have hz : zeros (k + 1) ++ (startCode ++ x) = false :: (zeros k ++ (startCode ++ x)) := by
      simp [zeros, List.replicate_succ]
    unfold skipBits
    rw [hz]
    simp only [List.length_cons, List.drop_succ_cons, List.drop_zero]
    rw [if_neg (by omega)]
    simp only
    rw [ih f (skip + 1) (pos + 1) (by omega) (by omega) (by omega)]
    congr 2
    omega

/-- the head of `decode_picture` (start-code search, skip) in front of any continuation `K`: `k` zero bits in front of the
start code, `k` within the alignment window, change nothing but the number of skipped bits -/
theorem tu_zeros (K : P (Option PicHdr)) (k : Nat) (x : Bits) (pos : Nat) (hk : k ≤ 7)
    (hwin : k ≤ realignmentBits ⟨zeros k ++ (startCode ++ x), pos⟩ + 1) (hdr : PicHdr) (c' : Cur)
    (h : transactionUnion (recognizeStartCode false >>= fun a => P.okOr a .middleOfBitstream >>= fun b => skipBits (17 + b) >>= fun _ => K)
      ⟨startCode ++ x, pos + k⟩ = .ok (some hdr, c')) :
    transactionUnion (recognizeStartCode false >>= fun a => P.okOr a .middleOfBitstream >>= fun b => skipBits (17 + b) >>= fun _ => K)
      ⟨zeros k ++ (startCode ++ x), pos⟩ = .ok (some hdr, c') := by
  have hr : recognizeStartCode false ⟨zeros k ++ (startCode ++ x), pos⟩ = .ok (some k, ⟨zeros k ++ (startCode ++ x), pos⟩) := by
    unfold recognizeStartCode
    rw [rsc_zeros _ x k _ 0 pos (by omega) (by omega) (by simp [zeros]; omega)]
    simp
  have hsk : skipBits (17 + k) ⟨zeros k ++ (startCode ++ x), pos⟩ = .ok ((), ⟨x, pos + k + 17⟩) := by
    have := skipBits_append (zeros k ++ startCode) x (17 + k) pos (by simp [zeros, startCode, natBits_length]; omega)
    rw [List.append_assoc] at this
    rw [this]
    congr 3
    omega
  have hsk0 : skipBits (17 + 0) ⟨startCode ++ x, pos + k⟩ = .ok ((), ⟨x, pos + k + 17⟩) :=
    skipBits_append startCode x 17 (pos + k) (by simp [startCode, natBits_length])
  unfold transactionUnion at h ⊢
  simp only [bind_apply, rsc_at_start, okOr_some, hsk0] at h
  simp only [bind_apply, hr, okOr_some, hsk]
  cases hK : K ⟨x, pos + k + 17⟩ with
  | ok r =>
    obtain ⟨oh, c2⟩ := r
    rw [hK] at h
    cases oh with
    | none => simp at h
    | some hh => simpa using h
  | err e => rw [hK] at h; simp at h
  | panic m => rw [hK] at h; simp at h
  | fuel => rw [hK] at h; simp at h

/-- picture header parsing with `k` zero bits in front of the start code, `k` within the alignment window -/
theorem decodePicture_zeros (o : DecOpts) (prev : Option PicHdr) (k : Nat) (x : Bits) (pos : Nat) (hk : k ≤ 7)
    (hwin : k ≤ realignmentBits ⟨zeros k ++ (startCode ++ x), pos⟩ + 1) (hdr : PicHdr) (c' : Cur)
    (h : Header.decodePicture o prev ⟨startCode ++ x, pos + k⟩ = .ok (some hdr, c')) :
    Header.decodePicture o prev ⟨zeros k ++ (startCode ++ x), pos⟩ = .ok (some hdr, c') :=
  tu_zeros _ k x pos hk hwin hdr c' h


def hdrTail (h : SorensonHdr) : Bits :=
  natBits 5 h.version ++ (natBits 8 h.tr ++ (natBits 3 h.sizeCode ++
    ((if h.sizeCode = 0 then natBits 8 h.customW ++ natBits 8 h.customH
      else if h.sizeCode = 1 then natBits 16 h.customW ++ natBits 16 h.customH else []) ++
    (natBits 2 h.picType ++ ([h.deblock] ++ (natBits 5 h.quant ++ encodePei h.extra))))))

theorem hdr_starts_with_sc (h : SorensonHdr) (y : Bits) : ∃ z, encodeSorensonHdr h ++ y = startCode ++ z :=
  ⟨hdrTail h ++ y, by simp [encodeSorensonHdr, hdrTail, List.append_assoc]⟩

/-- zero stuffing in front of a picture, within the alignment window, is skipped -/
theorem decode_spic_padded (s : State) (hs : s.opts.sorenson = true) (hr : s.running = 0) (p : SPic) (w h : Nat)
    (hv : p.Valid s.opts w h) (k : Nat) (rest : Bits) (pos : Nat) (hk : k ≤ 7)
    (hwin : k ≤ realignmentBits ⟨[], pos⟩ + 1) :
    decodeNextPicture s ⟨zeros k ++ (p.bits ++ rest), pos⟩ =
      semCore s (sorensonPicture p.hdr) p.mbs >>= fun r => .ok (commitPic s r.1 r.2, ⟨rest, pos + k + p.bits.length⟩) := by
  rw [← decode_spic s hs hr p w h hv rest (pos + k)]
  unfold decodeNextPicture decodeCore
  have hopts : s.opts = { sorenson := true, scalability := s.opts.scalability } := by
    cases ho : s.opts; rw [ho] at hs; simp only at hs; rw [hs]
  have hrt : Header.decodePicture s.opts (s.getLast.map (·.hdr)) ⟨p.bits ++ rest, pos + k⟩ =
      .ok (some (sorensonPicture p.hdr), ⟨p.mbs.flatMap (encodeMb (p.hdr.picType == 0)) ++ rest, pos + k + (encodeSorensonHdr p.hdr).length⟩) := by
    unfold SPic.bits
    rw [List.append_assoc, hopts]
    exact SorensonRoundTrip.round_trip p.hdr hv.hdr _ _ _ _
  obtain ⟨z, hz⟩ := hdr_starts_with_sc p.hdr (p.mbs.flatMap (encodeMb (p.hdr.picType == 0)) ++ rest)
  have hb : p.bits ++ rest = startCode ++ z := by unfold SPic.bits; rw [List.append_assoc]; exact hz
  have := decodePicture_zeros s.opts (s.getLast.map (·.hdr)) k z pos hk (by simpa [realignmentBits] using hwin)
    (sorensonPicture p.hdr) _ (by rw [← hb]; exact hrt)
  rw [hb, this, ← hb, hrt]

/-! ### streams of pictures -/

/-- decoding pictures one by one, each from its own reader -/
def decodeAlone (s : State) : List SPic → Out State
  | [] => .ok s
  | p :: ps => decodeNextPicture s ⟨p.bits, 0⟩ >>= fun r => decodeAlone r.1 ps

/-- `n` successive calls on one reader -/
def decodeCalls : Nat → State → Cur → Out (State × Cur)
  | 0, s, c => .ok (s, c)
  | n + 1, s, c => decodeNextPicture s c >>= fun r => decodeCalls n r.1 r.2

/-- the zero bits from `pos` to the next byte boundary -/
def padTo (pos : Nat) : Nat := (8 - pos % 8) % 8

/-- the pictures written one after the other, each preceded by the zero bits that bring it to a byte boundary -/
def stream : List SPic → Nat → Bits
  | [], _ => []
  | p :: ps, pos => zeros (padTo pos) ++ (p.bits ++ stream ps (pos + padTo pos + p.bits.length))

def streamEnd : List SPic → Nat → Nat
  | [], pos => pos
  | p :: ps, pos => streamEnd ps (pos + padTo pos + p.bits.length)

theorem commit_keeps (s : State) (hdr : PicHdr) (pic : Gather.DecPic) :
    (commitPic s hdr pic).opts = s.opts ∧ (commitPic s hdr pic).running = s.running := by
  unfold commitPic State.cleanup
  exact ⟨rfl, rfl⟩

/-- **One call consumes exactly one picture of a stream.**  `n` pictures in one reader (each brought to a byte boundary by zero
bits, starting at any bit position, with anything at all behind the last one) decode, call after call, to the same decoder
states as the same pictures decoded from one reader each; after the calls the reader stands exactly behind the last picture. -/
theorem calls_eq_alone (o : DecOpts) (ho : o.sorenson = true) :
    ∀ (ps : List SPic) (s : State) (pos : Nat) (tail : Bits), s.opts = o → s.running = 0 →
      (∀ p ∈ ps, ∃ w h, p.Valid o w h) →
      decodeCalls ps.length s ⟨stream ps pos ++ tail, pos⟩ = decodeAlone s ps >>= fun s' => .ok (s', ⟨tail, streamEnd ps pos⟩) := by
  intro ps
  induction ps with
  | nil => intro s pos tail _ _ _; simp [decodeCalls, decodeAlone, stream, streamEnd]
  | cons p ps ih =>
    intro s pos tail hso hr hv
    obtain ⟨w, h, hvp⟩ := hv p (by simp)
    have hs : s.opts.sorenson = true := by rw [hso]; exact ho
    simp only [List.length_cons, decodeCalls, decodeAlone, stream, streamEnd, List.append_assoc]
    rw [decode_spic_padded s hs hr p w h (by rw [hso]; exact hvp) (padTo pos) _ pos (by unfold padTo; omega)
      (by unfold padTo realignmentBits; simp only; omega)]
    have e0 := decode_spic s hs hr p w h (by rw [hso]; exact hvp) [] 0
    rw [List.append_nil] at e0
    rw [e0]
    cases hsem : PictureRoundTrip.semCore s (sorensonPicture p.hdr) p.mbs with
    | err e => rfl
    | panic m => rfl
    | fuel => rfl
    | ok r =>
      simp only [Out.bind_ok]
      obtain ⟨ko, kr⟩ := commit_keeps s r.1 r.2
      exact ih (commitPic s r.1 r.2) _ tail (by rw [ko, hso]) (by rw [kr, hr]) (fun x hx => hv x (by simp [hx]))


/-! ### what the committed picture reports -/

theorem gather_hdr (types : Array MbType) (ref : Option Gather.DecPic) (mvs : Array Mv.Mv4) (w : Nat) (pic r : Gather.DecPic)
    (h : Gather.gather types ref mvs w pic = .ok r) : r.hdr = pic.hdr ∧ r.fmt = pic.fmt := by
  unfold Gather.gather at h
  refine Lemmas.PlaneInv.foldlM_inv (fun p => p.hdr = pic.hdr ∧ p.fmt = pic.fmt) _ _ ?_ pic r ⟨rfl, rfl⟩ h
  intro p i p' hp hs
  simp only at hs
  split at hs
  · split at hs
    · simp at hs
    · split at hs
      · simp at hs
      · split at hs
        · simp at hs
        · split at hs
          · simp at hs
          · simp only [bind, Out.bind] at hs
            repeat' split at hs
            all_goals (try (simp at hs; done))
            all_goals
              simp only [pure, Out.ok.injEq] at hs
              rw [← hs]; exact hp
  · simp only [Out.ok.injEq] at hs; rw [← hs]; exact hp

theorem reconstruct_hdr (types : Array MbType) (ref : Option Gather.DecPic) (mvs : Array Mv.Mv4) (mpl w : Nat) (pic r : Gather.DecPic)
    (a b c : Array Rle.Dct) (h : reconstruct types ref mvs mpl w pic a b c = .ok r) : r.hdr = pic.hdr ∧ r.fmt = pic.fmt := by
  unfold reconstruct at h
  cases hg : Gather.gather types ref mvs mpl pic with
  | ok p1 =>
    rw [hg] at h
    simp only [Out.bind_ok] at h
    obtain ⟨g1, g2⟩ := gather_hdr _ _ _ _ _ _ hg
    simp only [bind, Out.bind] at h
    repeat' split at h
    all_goals (try (simp at h; done))
    all_goals
      simp only [pure, Out.ok.injEq] at h
      rw [← h]; exact ⟨g1, g2⟩
  | err e => rw [hg] at h; simp at h
  | panic m => rw [hg] at h; simp at h
  | fuel => rw [hg] at h; simp at h

/-- the picture produced by the bit-free semantics carries the header it was given and the format that header signals -/
theorem semCore_hdr (s : State) (hdr : PicHdr) (mbs : List MbD) (r : PicHdr × Gather.DecPic)
    (h : semCore s hdr mbs = .ok r) : r.1 = hdr ∧ r.2.hdr = hdr ∧ (∀ f, hdr.format = some f → r.2.fmt = f) := by
  unfold semCore at h
  cases hfm : fmtOf s hdr with
  | ok fmt =>
    rw [hfm] at h
    simp only [Out.bind_ok] at h
    cases hd : fmt.dims with
    | none => rw [hd] at h; simp at h
    | some wh =>
      rw [hd] at h
      simp only at h
      split at h
      · simp at h
      · cases hnew : Gather.DecPic.new hdr fmt with
        | none => rw [hnew] at h; simp at h
        | some pic0 =>
          rw [hnew] at h
          simp only at h
          have hn : pic0.hdr = hdr ∧ pic0.fmt = fmt := by
            unfold Gather.DecPic.new at hnew
            rw [hd] at hnew
            simp only [Option.some.injEq] at hnew; rw [← hnew]; exact ⟨rfl, rfl⟩
          cases hsem : semMbs hdr (some (wh.1, wh.2)) (nextRunning hdr s.running) ((wh.1 + 15) / 16) mbs
              { cur := ⟨[], 0⟩, quant := hdr.quantizer, mvs := #[], types := #[],
                lumaLv := Array.replicate ((wh.1 + 15) / 16 * 16 * ((wh.2 + 15) / 16 * 16) / 64) .zero,
                cbLv := Array.replicate ((wh.1 + 15) / 16 * 16 * ((wh.2 + 15) / 16 * 16) / 4 / 64) .zero,
                crLv := Array.replicate ((wh.1 + 15) / 16 * 16 * ((wh.2 + 15) / 16 * 16) / 4 / 64) .zero } with
          | ok l =>
            rw [hsem] at h
            simp only [Out.bind_ok] at h
            cases hrec : reconstruct
                (if l.types.size < (wh.1 + 15) / 16 * ((wh.2 + 15) / 16) then l.types ++ Array.replicate ((wh.1 + 15) / 16 * ((wh.2 + 15) / 16) - l.types.size) MbType.inter else l.types)
                s.getRef
                (if l.mvs.size < (wh.1 + 15) / 16 * ((wh.2 + 15) / 16) then l.mvs ++ Array.replicate ((wh.1 + 15) / 16 * ((wh.2 + 15) / 16) - l.mvs.size) Mv.zeroMv4 else l.mvs)
                ((wh.1 + 15) / 16) wh.1 pic0 l.lumaLv l.cbLv l.crLv with
            | ok pic =>
              rw [hrec] at h
              simp only [Out.bind_ok, Out.pure_eq, Out.ok.injEq] at h
              obtain ⟨r1, r2⟩ := reconstruct_hdr _ _ _ _ _ _ _ _ _ _ hrec
              rw [← h]
              refine ⟨rfl, by simp only; rw [r1, hn.1], ?_⟩
              intro f hf
              simp only
              rw [r2, hn.2]
              unfold fmtOf at hfm
              rw [hf] at hfm
              simp only [Out.ok.injEq] at hfm
              exact hfm.symm
            | err e => rw [hrec] at h; simp at h
            | panic m => rw [hrec] at h; simp at h
            | fuel => rw [hrec] at h; simp at h
          | err e => rw [hsem] at h; simp at h
          | panic m => rw [hsem] at h; simp at h
          | fuel => rw [hsem] at h; simp at h
  | err e => rw [hfm] at h; simp at h
  | panic m => rw [hfm] at h; simp at h
  | fuel => rw [hfm] at h; simp at h

end H263V.Lemmas.SorensonPicture
