/-
Operation scripts: the concrete reader model refines the specification machine (the remaining bits as a list) for
whole scripts — any length, any nesting of transactions, unions and look-aheads, `commit` between top-level operations.
-/
import H263V.Model.Script
import H263V.Lemmas.PeekLoop
import H263V.Lemmas.Total
import H263V.Lemmas.SorensonRoundTrip
namespace H263V.Lemmas.ScriptRefine
open H263V H263V.Script H263V.Lemmas.ReaderLemmas H263V.Lemmas.PeekLoop

mutual
  /-- operations covered by the script theorem, none of them a `commit` -/
  def Supp : Op → Bool
    | .pk _ => true
    | .rd _ => true
    | .sk _ => true
    | .ps _ => true
    | .rs _ => true
    | .sc _ => true
    | .vl _ => true
    | .tx body _ => SuppL body
    | .tu body _ => SuppL body
    | .la body => SuppL body
    | _ => false
  def SuppL : List Op → Bool
    | [] => true
    | op :: rest => Supp op && SuppL rest
end

/-- what one interpreted operation must satisfy -/
structure Ref (W : Nat) (r : Reader.Rd) (x : List String × Bool × Reader.Rd) (y : List String × Bool × Cur) : Prop where
  outs : x.1 = y.1
  failed : x.2.1 = y.2.1
  abs : absC x.2.2 = y.2.2
  step : Step r x.2.2

theorem step_refl (r : Reader.Rd) (h : r.WF) : Step r r := ⟨h, rfl, Nat.le_refl _⟩

theorem rollback_ref (r r1 : Reader.Rd) (h : r.WF) (hs : Step r r1) :
    (Reader.rollback r.bitsRead r1).1 = .ok () ∧ absC (Reader.rollback r.bitsRead r1).2 = absC r ∧ Step r (Reader.rollback r.bitsRead r1).2 := by
  obtain ⟨a, b, c, d⟩ := rollback_restores r r1 h hs.tot hs.grow
  refine ⟨a, ?_, ⟨c, d, ?_⟩⟩
  · unfold absC
    rw [b]
    congr 1
    unfold Reader.rollback
    split
    · rename_i hgt
      exfalso
      unfold Reader.rollback at a
      rw [if_pos hgt] at a
      simp at a
    · rfl
  · unfold Reader.rollback
    split
    · exact hs.grow
    · exact hs.grow

theorem pk_ref (W : Nat) (hW : 1 ≤ W) (n : Nat) (r : Reader.Rd) (h : r.WF) (hb : ByteSrc r) :
    Ref W r (runOpR W (.pk n) r) (runOpS W (.pk n) (absC r)) := by
  obtain ⟨p1, p2, p3⟩ := peek_refines W n hW r h hb
  unfold runOpR runOpS
  cases hp : Reader.peekBits W n r with
  | mk o r1 =>
    rw [hp] at p1 p2 p3
    simp only at p1 p2 p3 ⊢
    rw [← p1]
    cases o with
    | ok v => exact ⟨rfl, rfl, p2, p3⟩
    | err e => exact ⟨rfl, rfl, p2, p3⟩
    | panic s => exact ⟨rfl, rfl, p2, p3⟩
    | fuel =>
      exfalso
      have := p1
      unfold H263V.peekBits at this
      repeat' split at this
      all_goals simp at this

theorem rd_ref (W : Nat) (hW : 1 ≤ W) (n : Nat) (r : Reader.Rd) (h : r.WF) (hb : ByteSrc r) :
    Ref W r (runOpR W (.rd n) r) (runOpS W (.rd n) (absC r)) := by
  obtain ⟨p1, p2⟩ := read_refines W n hW r h hb
  unfold runOpR runOpS lift
  cases hp : Reader.readBits W n r with
  | mk o r1 =>
    rw [hp] at p1 p2
    simp only at p1 p2 ⊢
    cases hs : H263V.readBits W n (absC r) with
    | ok x =>
      obtain ⟨v, c'⟩ := x
      rw [hs] at p1
      simp only at p1 ⊢
      obtain ⟨e1, e2⟩ := p1
      subst e1
      exact ⟨rfl, rfl, e2, p2⟩
    | err e =>
      rw [hs] at p1
      simp only at p1 ⊢
      obtain ⟨e1, e2⟩ := p1
      subst e1
      exact ⟨rfl, rfl, e2, p2⟩
    | panic s => rw [hs] at p1; exact absurd p1 id
    | fuel => rw [hs] at p1; exact absurd p1 id

theorem sk_ref (W : Nat) (n : Nat) (r : Reader.Rd) (h : r.WF) :
    Ref W r (runOpR W (.sk n) r) (runOpS W (.sk n) (absC r)) := by
  obtain ⟨p1, p2⟩ := skip_refines n r h
  unfold runOpR runOpS lift
  cases hp : Reader.skipBits n r with
  | mk o r1 =>
    rw [hp] at p1 p2
    simp only at p1 p2 ⊢
    cases hs : H263V.skipBits n (absC r) with
    | ok x =>
      obtain ⟨v, c'⟩ := x
      rw [hs] at p1
      simp only at p1 ⊢
      obtain ⟨e1, e2⟩ := p1
      subst e1
      exact ⟨rfl, rfl, e2, p2⟩
    | err e =>
      rw [hs] at p1
      simp only at p1 ⊢
      obtain ⟨e1, e2⟩ := p1
      subst e1
      exact ⟨rfl, rfl, e2, p2⟩
    | panic s => rw [hs] at p1; exact absurd p1 id
    | fuel => rw [hs] at p1; exact absurd p1 id


/-! ### signed reads -/

theorem pow_split (n W : Nat) (h : n ≤ W) : 2 ^ W = 2 ^ (W - n) * 2 ^ n := by
  rw [← Nat.pow_add]; congr 1; omega

/-- the `W`-bit sign extension computed by `peek_signed_bits` (OR with the shifted all-ones mask, reinterpreted as signed) is
the two's complement value of the `n`-bit field -/
theorem signext_eq (W n v : Nat) (hn1 : 1 ≤ n) (hnW : n ≤ W) (hv : v < 2 ^ n) :
    (if v / 2 ^ (n - 1) ≠ 0 then
        (if (v ||| (if n < W then (2 ^ W - 1) - (2 ^ n - 1) else 0)) ≥ 2 ^ (W - 1)
          then (((v ||| (if n < W then (2 ^ W - 1) - (2 ^ n - 1) else 0)) : Nat) : Int) - (2 ^ W : Nat)
          else ((v ||| (if n < W then (2 ^ W - 1) - (2 ^ n - 1) else 0) : Nat) : Int))
      else (v : Int)) = signExtend n v := by
  unfold signExtend
  have hp : 0 < 2 ^ (n - 1) := Nat.two_pow_pos _
  have h2 : 2 ^ n = 2 * 2 ^ (n - 1) := by
    have : n = (n - 1) + 1 := by omega
    rw [this, Nat.pow_succ]; simp; omega
  by_cases hs : v ≥ 2 ^ (n - 1)
  · have hd : v / 2 ^ (n - 1) ≠ 0 := by
      have := Nat.div_pos hs hp
      omega
    rw [if_pos hd, if_pos hs]
    by_cases hlt : n < W
    · rw [if_pos hlt]
      have hW := pow_split n W (by omega)
      have hk : 1 ≤ 2 ^ (W - n) := Nat.two_pow_pos _
      have hext : (2 ^ W - 1) - (2 ^ n - 1) = (2 ^ (W - n) - 1) * 2 ^ n := by
        rw [Nat.sub_mul, Nat.one_mul, ← hW]
        have : 2 ^ n ≤ 2 ^ W := Nat.pow_le_pow_right (by omega) (by omega)
        have : 1 ≤ 2 ^ n := Nat.two_pow_pos _
        omega
      rw [hext, Nat.or_comm, lor_add _ n v hv, ← hext]
      have hW1 : 2 ^ W = 2 * 2 ^ (W - 1) := by
        have : W = (W - 1) + 1 := by omega
        rw [this, Nat.pow_succ]; simp; omega
      have hle : 2 ^ n ≤ 2 ^ (W - 1) := Nat.pow_le_pow_right (by omega) (by omega)
      have h1n : 1 ≤ 2 ^ n := Nat.two_pow_pos _
      rw [if_pos (by omega)]
      omega
    · have : n = W := by omega
      subst this
      simp only [Nat.lt_irrefl, ↓reduceIte, Nat.or_zero]
      rw [if_pos hs]
  · have hd : ¬ (v / 2 ^ (n - 1) ≠ 0) := by
      simp only [ne_eq, Decidable.not_not]
      exact Nat.div_eq_of_lt (by omega)
    rw [if_neg hd, if_neg hs]

theorem ps_ref (W : Nat) (hW : 1 ≤ W) (n : Nat) (r : Reader.Rd) (h : r.WF) (hb : ByteSrc r) :
    Ref W r (runOpR W (.ps n) r) (runOpS W (.ps n) (absC r)) := by
  obtain ⟨p1, p2, p3⟩ := peek_refines W n hW r h hb
  unfold runOpR runOpS Reader.peekSignedBits H263V.readSignedBits
  cases hp : Reader.peekBits W n r with
  | mk o r1 =>
    rw [hp] at p1 p2 p3
    simp only at p1 p2 p3 ⊢
    rw [← p1]
    cases o with
    | ok v =>
      simp only
      by_cases h0 : n = 0
      · simp only [h0, ↓reduceIte]
        exact ⟨rfl, rfl, p2, p3⟩
      · simp only [h0, ↓reduceIte]
        -- a successful peek of n ≥ 1 bits: n ≤ W, enough bits, v < 2^n
        have hpk : H263V.peekBits W n (absC r) = .ok v := p1.symm
        have hvlt := Lemmas.Total.peekBits_ok_lt W n (absC r) v hpk
        have hfacts : n ≤ W ∧ ¬ (absC r).bits.length < n := by
          unfold H263V.peekBits at hpk
          by_cases c1 : n > W
          · rw [if_pos c1] at hpk; simp at hpk
          · rw [if_neg c1, if_neg h0] at hpk
            by_cases c2 : (absC r).bits.length < n
            · rw [if_pos c2] at hpk; simp at hpk
            · exact ⟨by omega, c2⟩
        obtain ⟨hnW, hlen⟩ := hfacts
        unfold H263V.skipBits
        simp only [hlen, ↓reduceIte, Out.bind]
        have := signext_eq W n v (by omega) hnW hvlt
        by_cases hsb : v / 2 ^ (n - 1) ≠ 0
        · rw [if_pos hsb] at this
          simp only [if_pos hsb, wrapW, showOut, isFail]
          rw [this]
          exact ⟨rfl, rfl, p2, p3⟩
        · rw [if_neg hsb] at this
          simp only [if_neg hsb, wrapW, showOut, isFail]
          rw [← this]
          exact ⟨rfl, rfl, p2, p3⟩
    | err e => exact ⟨rfl, rfl, p2, p3⟩
    | panic s => exact ⟨rfl, rfl, p2, p3⟩
    | fuel =>
      exfalso
      have := p1
      unfold H263V.peekBits at this
      repeat' split at this
      all_goals simp at this

/-- value-level statement behind `ps_ref`: what the concrete signed peek returns -/
theorem peekSigned_val (W : Nat) (hW : 1 ≤ W) (n : Nat) (r : Reader.Rd) (h : r.WF) (hb : ByteSrc r) :
    absC (Reader.peekSignedBits W n r).2 = absC r ∧ Step r (Reader.peekSignedBits W n r).2 ∧
    (match H263V.peekBits W n (absC r) with
      | .ok v => if n = 0 then (∃ s, (Reader.peekSignedBits W n r).1 = .panic s)
                 else (Reader.peekSignedBits W n r).1 = .ok (signExtend n v) ∧ n ≤ (absC r).bits.length
      | .err e => (Reader.peekSignedBits W n r).1 = .err e
      | _ => False) := by
  obtain ⟨p1, p2, p3⟩ := peek_refines W n hW r h hb
  unfold Reader.peekSignedBits
  cases hp : Reader.peekBits W n r with
  | mk o r1 =>
    rw [hp] at p1 p2 p3
    simp only at p1 p2 p3 ⊢
    rw [← p1]
    cases o with
    | ok v =>
      simp only
      by_cases h0 : n = 0
      · simp only [h0, ↓reduceIte]
        exact ⟨p2, p3, _, rfl⟩
      · simp only [h0, ↓reduceIte]
        have hpk : H263V.peekBits W n (absC r) = .ok v := p1.symm
        have hvlt := Lemmas.Total.peekBits_ok_lt W n (absC r) v hpk
        have hfacts : n ≤ W ∧ ¬ (absC r).bits.length < n := by
          unfold H263V.peekBits at hpk
          by_cases c1 : n > W
          · rw [if_pos c1] at hpk; simp at hpk
          · rw [if_neg c1, if_neg h0] at hpk
            by_cases c2 : (absC r).bits.length < n
            · rw [if_pos c2] at hpk; simp at hpk
            · exact ⟨by omega, c2⟩
        obtain ⟨hnW, hlen⟩ := hfacts
        have := signext_eq W n v (by omega) hnW hvlt
        by_cases hsb : v / 2 ^ (n - 1) ≠ 0
        · rw [if_pos hsb] at this
          simp only [if_pos hsb]
          rw [this]
          exact ⟨p2, p3, rfl, by omega⟩
        · rw [if_neg hsb] at this
          simp only [if_neg hsb]
          rw [← this]
          exact ⟨p2, p3, rfl, by omega⟩
    | err e => exact ⟨p2, p3, rfl⟩
    | panic s =>
      exfalso
      have := p1
      unfold H263V.peekBits at this
      repeat' split at this
      all_goals simp at this
    | fuel =>
      exfalso
      have := p1
      unfold H263V.peekBits at this
      repeat' split at this
      all_goals simp at this

theorem rs_ref (W : Nat) (hW : 1 ≤ W) (n : Nat) (r : Reader.Rd) (h : r.WF) (hb : ByteSrc r) :
    Ref W r (runOpR W (.rs n) r) (runOpS W (.rs n) (absC r)) := by
  obtain ⟨q1, q2, q3⟩ := peekSigned_val W hW n r h hb
  unfold runOpR runOpS lift Reader.readSignedBits H263V.readSignedBits
  cases hps : Reader.peekSignedBits W n r with
  | mk o r1 =>
    rw [hps] at q1 q2 q3
    simp only at q1 q2 q3 ⊢
    cases hpk : H263V.peekBits W n (absC r) with
    | ok v =>
      rw [hpk] at q3
      simp only at q3 ⊢
      by_cases h0 : n = 0
      · rw [if_pos h0] at q3
        obtain ⟨s, hs⟩ := q3
        subst hs
        simp only [h0, ↓reduceIte]
        exact ⟨rfl, rfl, q1, q2⟩
      · rw [if_neg h0] at q3
        obtain ⟨hv, hl⟩ := q3
        subst hv
        simp only [h0, ↓reduceIte]
        obtain ⟨s1, s2⟩ := skip_refines n r1 q2.wf
        rw [q1] at s1
        unfold H263V.skipBits at s1 ⊢
        have hlen : ¬ (absC r).bits.length < n := by omega
        simp only [hlen, ↓reduceIte] at s1 ⊢
        cases hk : Reader.skipBits n r1 with
        | mk o2 r2 =>
          rw [hk] at s1 s2
          simp only at s1 s2
          obtain ⟨e1, e2⟩ := s1
          subst e1
          simp only [Out.bind]
          exact ⟨rfl, rfl, e2, q2.trans s2⟩
    | err e =>
      rw [hpk] at q3
      simp only at q3 ⊢
      subst q3
      exact ⟨rfl, rfl, q1, q2⟩
    | panic s => rw [hpk] at q3; exact absurd q3 id
    | fuel => rw [hpk] at q3; exact absurd q3 id

/-! ### start-code search -/

theorem absC_bits_len (r : Reader.Rd) : (absC r).bits.length = r.bits.length := rfl

/-- the search loop over the concrete reader and over the bit list agree step for step, whatever (sufficient) fuel each has -/
theorem rsc_loop_ref (inError : Bool) (maxSkip : Nat) : ∀ (k f1 f2 skip : Nat) (r : Reader.Rd), r.WF → ByteSrc r →
    r.bits.length ≤ k → k < f1 → k < f2 →
    (Reader.rscLoop inError maxSkip f1 skip r).1 = H263V.rscLoop inError maxSkip f2 skip (absC r) ∧
      Step r (Reader.rscLoop inError maxSkip f1 skip r).2 := by
  intro k
  induction k with
  | zero =>
    intro f1 f2 skip r h hb hk h1 h2
    obtain ⟨g1, rfl⟩ : ∃ g, f1 = g + 1 := ⟨f1 - 1, by omega⟩
    obtain ⟨g2, rfl⟩ : ∃ g, f2 = g + 1 := ⟨f2 - 1, by omega⟩
    obtain ⟨p1, p2, p3⟩ := peek_refines 32 17 (by omega) r h hb
    unfold Reader.rscLoop H263V.rscLoop
    cases hp : Reader.peekBits 32 17 r with
    | mk o r1 =>
      rw [hp] at p1 p2 p3
      simp only at p1 p2 p3 ⊢
      rw [← p1]
      -- no bits left: the peek fails
      have : o = .err .eof := by
        rw [p1]
        unfold H263V.peekBits
        have hl0 : (absC r).bits.length < 17 := by rw [absC_bits_len]; omega
        rw [if_neg (by omega), if_neg (by omega), if_pos hl0]
      subst this
      exact ⟨rfl, p3⟩
  | succ k ih =>
    intro f1 f2 skip r h hb hk h1 h2
    obtain ⟨g1, rfl⟩ : ∃ g, f1 = g + 1 := ⟨f1 - 1, by omega⟩
    obtain ⟨g2, rfl⟩ : ∃ g, f2 = g + 1 := ⟨f2 - 1, by omega⟩
    obtain ⟨p1, p2, p3⟩ := peek_refines 32 17 (by omega) r h hb
    unfold Reader.rscLoop H263V.rscLoop
    cases hp : Reader.peekBits 32 17 r with
    | mk o r1 =>
      rw [hp] at p1 p2 p3
      simp only at p1 p2 p3 ⊢
      rw [← p1]
      cases o with
      | ok code =>
        simp only
        split
        · exact ⟨rfl, p3⟩
        · split
          · exact ⟨rfl, p3⟩
          · obtain ⟨s1, s2⟩ := skip_refines 1 r1 p3.wf
            rw [p2] at s1
            cases hk2 : Reader.skipBits 1 r1 with
            | mk o2 r2 =>
              rw [hk2] at s1 s2
              simp only at s1 s2 ⊢
              cases hs : H263V.skipBits 1 (absC r) with
              | ok x =>
                obtain ⟨u, c'⟩ := x
                rw [hs] at s1
                simp only at s1 ⊢
                obtain ⟨e1, e2⟩ := s1
                subst e1
                simp only
                have hlen : r2.bits.length ≤ k := by
                  have : (absC r2).bits.length = c'.bits.length := by rw [e2]
                  unfold H263V.skipBits at hs
                  split at hs
                  · simp at hs
                  · simp only [Out.ok.injEq, Prod.mk.injEq, true_and] at hs
                    rw [← hs] at this
                    simp only [absC_bits_len, List.length_drop] at this
                    omega
                obtain ⟨i1, i2⟩ := ih g1 g2 (skip + 1) r2 s2.wf (byteSrc_step (byteSrc_step hb p3) s2) hlen (by omega) (by omega)
                rw [e2] at i1
                exact ⟨i1, (p3.trans s2).trans i2⟩
              | err e =>
                rw [hs] at s1
                simp only at s1 ⊢
                obtain ⟨e1, e2⟩ := s1
                subst e1
                exact ⟨rfl, p3.trans s2⟩
              | panic s => rw [hs] at s1; exact absurd s1 id
              | fuel => rw [hs] at s1; exact absurd s1 id
      | err e => exact ⟨rfl, p3⟩
      | panic s => exact ⟨rfl, p3⟩
      | fuel => exact ⟨rfl, p3⟩

theorem sc_ref (W : Nat) (e : Bool) (r : Reader.Rd) (h : r.WF) (hb : ByteSrc r) :
    Ref W r (runOpR W (.sc e) r) (runOpS W (.sc e) (absC r)) := by
  have hlen := bits_length r h
  obtain ⟨l1, l2⟩ := rsc_loop_ref e (Reader.realignmentBits r) r.bits.length ((r.buf.length + r.src.length) * 8 + 2)
    ((absC r).bits.length + 2) 0 r h hb (Nat.le_refl _) (by omega) (by simp only [absC_bits_len]; omega)
  unfold runOpR runOpS lift Reader.recognizeStartCode H263V.recognizeStartCode
  have hre : H263V.realignmentBits (absC r) = Reader.realignmentBits r := rfl
  rw [hre]
  cases hl : Reader.rscLoop e (Reader.realignmentBits r) ((r.buf.length + r.src.length) * 8 + 2) 0 r with
  | mk res r1 =>
    rw [hl] at l1 l2
    simp only at l1 l2 ⊢
    rw [← l1]
    obtain ⟨b1, b2, b3⟩ := rollback_ref r r1 h l2
    cases hrb : Reader.rollback r.bitsRead r1 with
    | mk ro r2 =>
      rw [hrb] at b1 b2 b3
      simp only at b1 b2 b3 ⊢
      subst b1
      cases res with
      | ok x => exact ⟨rfl, rfl, b2, b3⟩
      | err e => exact ⟨rfl, rfl, b2, b3⟩
      | panic s => exact ⟨rfl, rfl, b2, b3⟩
      | fuel => exact ⟨rfl, rfl, b2, b3⟩

/-! ### variable-length codes -/

/-- the tree walk over the concrete reader (one `read_bits(1)` per fork) and over the bit list agree; a failed bare walk keeps
the bits it consumed, on both sides -/
theorem vlc_loop_ref (t : Array (Entry Nat)) : ∀ (k f1 f2 idx used : Nat) (r : Reader.Rd), r.WF → ByteSrc r →
    r.bits.length ≤ k → k < f1 → k < f2 →
    (Reader.vlcLoop t f1 idx r).1 = (runOpS.walk t idx r.bits used f2).1 ∧
      (Reader.vlcLoop t f1 idx r).2.bits = (runOpS.walk t idx r.bits used f2).2.1 ∧
      (Reader.vlcLoop t f1 idx r).2.bitsRead + used = r.bitsRead + (runOpS.walk t idx r.bits used f2).2.2 ∧
      Step r (Reader.vlcLoop t f1 idx r).2 := by
  intro k
  induction k with
  | zero =>
    intro f1 f2 idx used r h hb hk h1 h2
    obtain ⟨g1, rfl⟩ : ∃ g, f1 = g + 1 := ⟨f1 - 1, by omega⟩
    obtain ⟨g2, rfl⟩ : ∃ g, f2 = g + 1 := ⟨f2 - 1, by omega⟩
    unfold Reader.vlcLoop runOpS.walk
    cases ht : t[idx]? with
    | none => exact ⟨rfl, rfl, rfl, step_refl r h⟩
    | some e =>
      cases e with
      | fin a => exact ⟨rfl, rfl, rfl, step_refl r h⟩
      | fork z o =>
        simp only
        have hnil : r.bits = [] := List.eq_nil_of_length_eq_zero (by omega)
        obtain ⟨q1, q2⟩ := read_refines 8 1 (by omega) r h hb
        have hrd : H263V.readBits 8 1 (absC r) = .err .eof := by
          unfold H263V.readBits H263V.peekBits
          have : (absC r).bits.length < 1 := by rw [absC_bits_len, hnil]; simp
          simp [this]
        rw [hrd] at q1
        simp only at q1
        cases hr : Reader.readBits 8 1 r with
        | mk o1 r1 =>
          rw [hr] at q1 q2
          simp only at q1 q2 ⊢
          obtain ⟨e1, e2⟩ := q1
          subst e1
          rw [hnil]
          simp only
          have hb1 : r1.bits = [] := by
            have := congrArg Cur.bits e2
            simpa [absC, hnil] using this
          have hp1 : r1.bitsRead = r.bitsRead := by
            have := congrArg Cur.pos e2
            simpa [absC] using this
          exact ⟨by first | rfl | trivial, hb1, by rw [hp1], q2⟩
  | succ k ih =>
    intro f1 f2 idx used r h hb hk h1 h2
    obtain ⟨g1, rfl⟩ : ∃ g, f1 = g + 1 := ⟨f1 - 1, by omega⟩
    obtain ⟨g2, rfl⟩ : ∃ g, f2 = g + 1 := ⟨f2 - 1, by omega⟩
    unfold Reader.vlcLoop runOpS.walk
    cases ht : t[idx]? with
    | none => exact ⟨rfl, rfl, rfl, step_refl r h⟩
    | some e =>
      cases e with
      | fin a => exact ⟨rfl, rfl, rfl, step_refl r h⟩
      | fork z o =>
        simp only
        obtain ⟨q1, q2⟩ := read_refines 8 1 (by omega) r h hb
        cases hbits : r.bits with
        | nil =>
          have hrd : H263V.readBits 8 1 (absC r) = .err .eof := by
            unfold H263V.readBits H263V.peekBits
            have : (absC r).bits.length < 1 := by rw [absC_bits_len, hbits]; simp
            simp [this]
          rw [hrd] at q1
          simp only at q1
          cases hr : Reader.readBits 8 1 r with
          | mk o1 r1 =>
            rw [hr] at q1 q2
            simp only at q1 q2 ⊢
            obtain ⟨e1, e2⟩ := q1
            subst e1
            have hb1 : r1.bits = [] := by
              have := congrArg Cur.bits e2
              simpa [absC, hbits] using this
            have hp1 : r1.bitsRead = r.bitsRead := by
              have := congrArg Cur.pos e2
              simpa [absC] using this
            exact ⟨by first | rfl | trivial, hb1, by rw [hp1], q2⟩
        | cons b bs =>
          have hrd : H263V.readBits 8 1 (absC r) = .ok ((if b then 1 else 0), ⟨bs, r.bitsRead + 1⟩) := by
            have := SorensonRoundTrip.readBits_one 8 (by omega) b bs r.bitsRead
            unfold absC
            rw [hbits]
            exact this
          rw [hrd] at q1
          simp only at q1
          cases hr : Reader.readBits 8 1 r with
          | mk o1 r1 =>
            rw [hr] at q1 q2
            simp only at q1 q2 ⊢
            obtain ⟨e1, e2⟩ := q1
            subst e1
            simp only
            have hb1 : r1.bits = bs := by
              have := congrArg Cur.bits e2
              simpa [absC] using this
            have hp1 : r1.bitsRead = r.bitsRead + 1 := by
              have := congrArg Cur.pos e2
              simpa [absC] using this
            have hlen : r1.bits.length ≤ k := by rw [hb1]; rw [hbits] at hk; simp at hk; omega
            obtain ⟨i1, i2, i3, i4⟩ := ih g1 g2 (if (if b then 1 else 0 : Nat) = 0 then z else o) (used + 1) r1 q2.wf (byteSrc_step hb q2) hlen (by omega) (by omega)
            have hidx : (if (if b then 1 else 0 : Nat) = 0 then z else o) = (if b = true then o else z) := by cases b <;> simp
            rw [hidx, hb1] at i1 i2 i3
            rw [hidx] at i4
            rw [hidx]
            exact ⟨i1, i2, by omega, q2.trans i4⟩

theorem vl_ref (W : Nat) (k : Nat) (r : Reader.Rd) (h : r.WF) (hb : ByteSrc r) :
    Ref W r (runOpR W (.vl k) r) (runOpS W (.vl k) (absC r)) := by
  have hlen := bits_length r h
  obtain ⟨v1, v2, v3, v4⟩ := vlc_loop_ref (table k) r.bits.length ((table k).size + (r.buf.length + r.src.length) * 8 + 2)
    (r.bits.length + (table k).size + 2) 0 0 r h hb (Nat.le_refl _) (by omega) (by omega)
  unfold runOpR runOpS Reader.readVlc
  cases hl : Reader.vlcLoop (table k) ((table k).size + (r.buf.length + r.src.length) * 8 + 2) 0 r with
  | mk o r1 =>
    rw [hl] at v1 v2 v3 v4
    simp only at v1 v2 v3 v4 ⊢
    have hab : (absC r).bits = r.bits := rfl
    rw [hab]
    cases hw : runOpS.walk (table k) 0 r.bits 0 (r.bits.length + (table k).size + 2) with
    | mk o2 x =>
      obtain ⟨bits', used'⟩ := x
      rw [hw] at v1 v2 v3
      simp only at v1 v2 v3 ⊢
      subst v1
      refine ⟨rfl, rfl, ?_, v4⟩
      unfold absC
      simp only [Cur.mk.injEq]
      exact ⟨v2, by omega⟩

theorem ref_step_wf {W : Nat} {r : Reader.Rd} {x : List String × Bool × Reader.Rd} {y : List String × Bool × Cur}
    (h : Ref W r x y) : x.2.2.WF := h.step.wf

mutual
  /-- one operation, nested bodies included -/
  theorem op_refines (W : Nat) (hW : 1 ≤ W) : ∀ (op : Op), Supp op = true → ∀ (r : Reader.Rd), r.WF → ByteSrc r →
      Ref W r (runOpR W op r) (runOpS W op (absC r))
    | .pk n, _, r, h, hb => pk_ref W hW n r h hb
    | .rd n, _, r, h, hb => rd_ref W hW n r h hb
    | .sk n, _, r, h, _ => sk_ref W n r h
    | .tx body fail, hs, r, h, hb => by
      have hb' : SuppL body = true := by simpa [Supp] using hs
      obtain ⟨o1, o2, o3, o4⟩ := body_refines W hW body hb' r h hb
      unfold runOpR runOpS
      cases hR : runBodyR W body r with
      | mk outs x =>
        obtain ⟨failed, r1⟩ := x
        cases hS : runBodyS W body (absC r) with
        | mk outs2 y =>
          obtain ⟨failed2, c1⟩ := y
          rw [hR, hS] at o1 o2 o3
          rw [hR] at o4
          simp only at o1 o2 o3 o4 ⊢
          subst o1; subst o2
          obtain ⟨b1, b2, b3⟩ := rollback_ref r r1 h o4
          by_cases hf : (failed || fail) = true
          · simp only [hf, ↓reduceIte]
            cases hrb : Reader.rollback r.bitsRead r1 with
            | mk ro r2 =>
              rw [hrb] at b1 b2 b3
              simp only at b1 b2 b3
              subst b1
              exact ⟨rfl, rfl, b2, b3⟩
          · simp only [hf, Bool.false_eq_true, ↓reduceIte]
            exact ⟨rfl, rfl, o3, o4⟩
    | .tu body mode, hs, r, h, hb => by
      have hb' : SuppL body = true := by simpa [Supp] using hs
      obtain ⟨o1, o2, o3, o4⟩ := body_refines W hW body hb' r h hb
      unfold runOpR runOpS
      cases hR : runBodyR W body r with
      | mk outs x =>
        obtain ⟨failed, r1⟩ := x
        cases hS : runBodyS W body (absC r) with
        | mk outs2 y =>
          obtain ⟨failed2, c1⟩ := y
          rw [hR, hS] at o1 o2 o3
          rw [hR] at o4
          simp only at o1 o2 o3 o4 ⊢
          subst o1; subst o2
          obtain ⟨b1, b2, b3⟩ := rollback_ref r r1 h o4
          by_cases hf : (failed || mode != 0) = true
          · simp only [hf, ↓reduceIte]
            cases hrb : Reader.rollback r.bitsRead r1 with
            | mk ro r2 =>
              rw [hrb] at b1 b2 b3
              simp only at b1 b2 b3
              subst b1
              exact ⟨rfl, rfl, b2, b3⟩
          · simp only [hf, Bool.false_eq_true, ↓reduceIte]
            exact ⟨rfl, rfl, o3, o4⟩
    | .la body, hs, r, h, hb => by
      have hb' : SuppL body = true := by simpa [Supp] using hs
      obtain ⟨o1, o2, o3, o4⟩ := body_refines W hW body hb' r h hb
      unfold runOpR runOpS
      cases hR : runBodyR W body r with
      | mk outs x =>
        obtain ⟨failed, r1⟩ := x
        cases hS : runBodyS W body (absC r) with
        | mk outs2 y =>
          obtain ⟨failed2, c1⟩ := y
          rw [hR, hS] at o1 o2 o3
          rw [hR] at o4
          simp only at o1 o2 o3 o4 ⊢
          subst o1; subst o2
          obtain ⟨b1, b2, b3⟩ := rollback_ref r r1 h o4
          cases hrb : Reader.rollback r.bitsRead r1 with
          | mk ro r2 =>
            rw [hrb] at b1 b2 b3
            simp only at b1 b2 b3
            subst b1
            exact ⟨rfl, rfl, b2, b3⟩
    | .ps n, _, r, h, hb => ps_ref W hW n r h hb
    | .rs n, _, r, h, hb => rs_ref W hW n r h hb
    | .sc e, _, r, h, hb => sc_ref W e r h hb
    | .cm, hs, _, _, _ => by simp [Supp] at hs
    | .vl k, _, r, h, hb => vl_ref W k r h hb

  /-- a closure body: operations in sequence, stopping at the first failure -/
  theorem body_refines (W : Nat) (hW : 1 ≤ W) : ∀ (ops : List Op), SuppL ops = true → ∀ (r : Reader.Rd), r.WF → ByteSrc r →
      Ref W r (runBodyR W ops r) (runBodyS W ops (absC r))
    | [], _, r, h, _ => by
      unfold runBodyR runBodyS
      exact ⟨rfl, rfl, rfl, step_refl r h⟩
    | op :: rest, hs, r, h, hb => by
      have hs' : Supp op = true ∧ SuppL rest = true := by simpa [SuppL] using hs
      obtain ⟨o1, o2, o3, o4⟩ := op_refines W hW op hs'.1 r h hb
      unfold runBodyR runBodyS
      cases hR : runOpR W op r with
      | mk outs x =>
        obtain ⟨failed, r1⟩ := x
        cases hS : runOpS W op (absC r) with
        | mk outs2 y =>
          obtain ⟨failed2, c1⟩ := y
          rw [hR, hS] at o1 o2 o3
          rw [hR] at o4
          simp only at o1 o2 o3 o4 ⊢
          subst o1; subst o2
          cases failed with
          | true => exact ⟨rfl, rfl, o3, o4⟩
          | false =>
            simp only [Bool.false_eq_true, ↓reduceIte]
            obtain ⟨q1, q2, q3, q4⟩ := body_refines W hW rest hs'.2 r1 o4.wf (byteSrc_step hb o4)
            rw [o3] at q1 q2 q3
            cases hR2 : runBodyR W rest r1 with
            | mk outsb xb =>
              obtain ⟨fb, r2⟩ := xb
              cases hS2 : runBodyS W rest c1 with
              | mk outsb2 yb =>
                obtain ⟨fb2, c2⟩ := yb
                rw [hR2, hS2] at q1 q2 q3
                rw [hR2] at q4
                simp only at q1 q2 q3 q4 ⊢
                subst q1; subst q2
                exact ⟨rfl, rfl, q3, o4.trans q4⟩
end


/-- a top-level operation: a covered operation (with any nesting inside) or a `commit` -/
def TopOK (op : Op) : Bool := match op with | .cm => true | o => Supp o

theorem byteSrc_commit (r : Reader.Rd) (hb : ByteSrc r) : ByteSrc (Reader.commit r) := by
  intro b hbm
  apply hb b
  unfold total Reader.commit at hbm
  unfold total
  simp only [List.mem_append] at hbm ⊢
  rcases hbm with h | h
  · exact Or.inl (List.mem_of_mem_drop h)
  · exact Or.inr h

theorem top_op_refines (W : Nat) (hW : 1 ≤ W) (op : Op) (hop : TopOK op = true) (r : Reader.Rd) (h : r.WF) (hb : ByteSrc r) :
    (runOpR W op r).1 = (runOpS W op (absC r)).1 ∧ absC (runOpR W op r).2.2 = (runOpS W op (absC r)).2.2 ∧
      (runOpR W op r).2.2.WF ∧ ByteSrc (runOpR W op r).2.2 := by
  by_cases hc : op = .cm
  · subst hc
    unfold runOpR runOpS
    obtain ⟨c1, c2, c3⟩ := commit_bits r h
    refine ⟨rfl, ?_, c2, byteSrc_commit r hb⟩
    simp only [absC, c1, Cur.mk.injEq, true_and]
    rfl
  · have hs : Supp op = true := by
      unfold TopOK at hop
      cases op <;> simp_all
    obtain ⟨o1, _, o3, o4⟩ := op_refines W hW op hs r h hb
    exact ⟨o1, o3, o4.wf, byteSrc_step hb o4⟩

/-- **Scripts.**  For every script — any number of operations, transactions / unions / look-aheads nested to any depth, commits
between top-level operations — every reader type width `W ≥ 1`, and every well-formed reader over a byte source: the concrete
reader (byte buffer, `bits_read`, per-byte accumulation, fetch-on-demand, rollback, commit) prints exactly what the
specification machine (a list of remaining bits) prints, and ends with exactly the specification machine's remaining bits. -/
theorem script_refines (W : Nat) (hW : 1 ≤ W) : ∀ (ops : List Op), (∀ op ∈ ops, TopOK op = true) →
    ∀ (r : Reader.Rd) (c : Cur) (acc : List String), r.WF → ByteSrc r → absC r = c →
      (ops.foldl (fun (a : List String × Reader.Rd) op => (a.1 ++ (runOpR W op a.2).1, (runOpR W op a.2).2.2)) (acc, r)).1 =
        (ops.foldl (fun (a : List String × Cur) op => (a.1 ++ (runOpS W op a.2).1, (runOpS W op a.2).2.2)) (acc, c)).1 ∧
      absC (ops.foldl (fun (a : List String × Reader.Rd) op => (a.1 ++ (runOpR W op a.2).1, (runOpR W op a.2).2.2)) (acc, r)).2 =
        (ops.foldl (fun (a : List String × Cur) op => (a.1 ++ (runOpS W op a.2).1, (runOpS W op a.2).2.2)) (acc, c)).2 := by
  intro ops
  induction ops with
  | nil => intro _ r c acc _ _ hc; exact ⟨rfl, hc⟩
  | cons op rest ih =>
    intro hall r c acc h hb hc
    subst hc
    obtain ⟨t1, t2, t3, t4⟩ := top_op_refines W hW op (hall op (by simp)) r h hb
    simp only [List.foldl_cons]
    rw [t1]
    exact ih (fun o ho => hall o (by simp [ho])) _ _ _ t3 t4 t2

theorem runTopR_eq (W : Nat) (ops : List Op) (r : Reader.Rd) :
    runTopR W ops r = ops.foldl (fun (a : List String × Reader.Rd) op => (a.1 ++ (runOpR W op a.2).1, (runOpR W op a.2).2.2)) ([], r) := by
  unfold runTopR
  congr 1

theorem runTopS_eq (W : Nat) (ops : List Op) (c : Cur) :
    runTopS W ops c = ops.foldl (fun (a : List String × Cur) op => (a.1 ++ (runOpS W op a.2).1, (runOpS W op a.2).2.2)) ([], c) := by
  unfold runTopS
  congr 1

end H263V.Lemmas.ScriptRefine
