/-
The soft-float model of binary32 is exact only in the normal range; `F.bad` records a result outside it.
This file proves that no intermediate of the IDCT ever leaves the normal range, for every block whose coefficients
are integers of magnitude at most 2048 (which dequantisation and INTRADC reconstruction guarantee): every value is
zero or has exponent ≥ −126 and magnitude < 2^128 by a wide margin, so `bad` is never set and the "model gap"
outcome of `idctChannel` is unreachable.  The bound on the table entries is checked on the regenerated table.
-/
import H263V.Model.Idct
namespace H263V.Lemmas.F32Range
open H263V H263V.F32 H263V.Idct H263V.Rle

theorem bitlen_le_iff (n k : Nat) : bitlen n ≤ k ↔ n < 2 ^ k := by
  unfold bitlen
  by_cases h : n = 0
  · subst h; simp [Nat.two_pow_pos]
  · simp only [h, ↓reduceIte]
    rw [← Nat.log2_lt h]; omega

theorem lt_pow_bitlen (n : Nat) : n < 2 ^ bitlen n := (bitlen_le_iff n _).1 (Nat.le_refl _)

theorem bitlen_pos (n : Nat) (h : n ≠ 0) : 1 ≤ bitlen n := by
  unfold bitlen; simp [h]

theorem pow_le_of_bitlen (n : Nat) (h : n ≠ 0) : 2 ^ (bitlen n - 1) ≤ n := by
  unfold bitlen
  simp only [h, ↓reduceIte, Nat.add_sub_cancel]
  exact Nat.log2_self_le h

/-- not flagged; zero, or exponent at least `lo` and magnitude below `2^hi` -/
def Bnd (lo hi : Int) (x : F) : Prop :=
  x.bad = false ∧ (x.m = 0 ∨ (lo ≤ x.e ∧ x.e + (bitlen x.m.natAbs : Int) ≤ hi))

theorem Bnd.mono {lo hi lo' hi' : Int} {x : F} (h : Bnd lo hi x) (h1 : lo' ≤ lo) (h2 : hi ≤ hi') : Bnd lo' hi' x := by
  obtain ⟨hb, hz | ⟨ha, hc⟩⟩ := h
  · exact ⟨hb, Or.inl hz⟩
  · exact ⟨hb, Or.inr ⟨by omega, by omega⟩⟩

/-- rounding an in-range exact value to 24 bits keeps it in range (the magnitude bound grows by at most one bit) -/
theorem rnd24_bnd (m e lo hi : Int) (hlo : -126 ≤ lo) (hhi : hi + 1 ≤ 128)
    (h : m = 0 ∨ (lo ≤ e ∧ e + (bitlen m.natAbs : Int) ≤ hi)) : Bnd lo (hi + 1) (rnd24 m e false) := by
  unfold rnd24
  by_cases hm : m = 0
  · subst hm
    simp [bitlen, Bnd]
  · have hpos : m.natAbs ≠ 0 := by omega
    obtain ⟨hle, hhe⟩ : lo ≤ e ∧ e + (bitlen m.natAbs : Int) ≤ hi := by
      rcases h with h | h
      · exact absurd h hm
      · exact h
    have hb1 := bitlen_pos m.natAbs hpos
    by_cases hbl : bitlen m.natAbs ≤ 24
    · simp only [hbl, ↓reduceIte]
      have hne : (m != 0) = true := by simp [hm]
      have hnb : ¬ ((e + (bitlen m.natAbs : Int) - 1 < -126) ∨ (e + (bitlen m.natAbs : Int) - 1 > 127)) := by omega
      simp only [hne, Bool.true_and]
      have : (decide (e + (bitlen m.natAbs : Int) - 1 < -126) || decide (e + (bitlen m.natAbs : Int) - 1 > 127)) = false := by
        simp only [Bool.or_eq_false_iff, decide_eq_false_iff_not]; omega
      simp only [this, Bool.false_eq_true, ↓reduceIte]
      exact ⟨rfl, Or.inr ⟨hle, by simp only; omega⟩⟩
    · simp only [hbl, ↓reduceIte]
      -- the rounded mantissa
      generalize hk : bitlen m.natAbs - 24 = k
      have hk1 : 1 ≤ k := by omega
      generalize hq : m.natAbs >>> k = q
      have hq24 : q < 2 ^ 24 := by
        rw [← hq, Nat.shiftRight_eq_div_pow]
        apply Nat.div_lt_of_lt_mul
        have := lt_pow_bitlen m.natAbs
        have e2 : bitlen m.natAbs = k + 24 := by omega
        rw [e2, Nat.pow_add] at this
        exact this
      generalize hq' : (if (decide (m.natAbs - q <<< k > 1 <<< (k - 1)) || (m.natAbs - q <<< k == 1 <<< (k - 1) && q % 2 == 1)) = true
          then q + 1 else q) = q'
      have hq'le : q' ≤ 2 ^ 24 := by rw [← hq']; split <;> omega
      have hq'bl : bitlen q' ≤ 25 := (bitlen_le_iff q' 25).2 (by omega)
      have hmabs : (if m < 0 then -(q' : Int) else (q' : Int)).natAbs = q' := by split <;> omega
      simp only [hmabs]
      by_cases hq0 : q' = 0
      · subst hq0
        simp [Bnd]
      · have hb2 := bitlen_pos q' hq0
        have hne : ((if m < 0 then -(q' : Int) else (q' : Int)) != 0) = true := by
          simp only [bne_iff_ne, ne_eq]; split <;> omega
        simp only [hne, Bool.true_and]
        have : (decide (e + (k : Int) + (bitlen q' : Int) - 1 < -126) || decide (e + (k : Int) + (bitlen q' : Int) - 1 > 127)) = false := by
          simp only [Bool.or_eq_false_iff, decide_eq_false_iff_not]; omega
        simp only [this, Bool.false_eq_true, ↓reduceIte]
        refine ⟨rfl, Or.inr ⟨by simp only; omega, ?_⟩⟩
        simp only [hmabs]; omega


theorem bitlen_mul_le (a b : Nat) : bitlen (a * b) ≤ bitlen a + bitlen b := by
  rw [bitlen_le_iff, Nat.pow_add]
  exact Nat.mul_lt_mul'' (lt_pow_bitlen a) (lt_pow_bitlen b)

theorem mul_bnd {la ha lb hb : Int} {a b : F} (h1 : Bnd la ha a) (h2 : Bnd lb hb b)
    (hlo : -126 ≤ la + lb) (hhi : ha + hb + 1 ≤ 128) : Bnd (la + lb) (ha + hb + 1) (mul a b) := by
  unfold mul
  obtain ⟨ba, ha'⟩ := h1
  obtain ⟨bb, hb'⟩ := h2
  simp only [ba, bb, Bool.or_self]
  apply rnd24_bnd _ _ _ _ hlo hhi
  rcases ha' with hz | ⟨l1, u1⟩
  · left; simp [hz]
  · rcases hb' with hz | ⟨l2, u2⟩
    · left; simp [hz]
    · right
      refine ⟨by omega, ?_⟩
      have := bitlen_mul_le a.m.natAbs b.m.natAbs
      rw [Int.natAbs_mul]
      omega

theorem natAbs_shift_lt (m e e0 h : Int) (he : e0 ≤ e) (hb : e + (bitlen m.natAbs : Int) ≤ h) :
    (m * (2 : Int) ^ (e - e0).toNat).natAbs < 2 ^ (h - e0).toNat := by
  rw [Int.natAbs_mul, Int.natAbs_pow]
  have h2 : (2 : Int).natAbs = 2 := rfl
  rw [h2]
  have hlt := lt_pow_bitlen m.natAbs
  have : bitlen m.natAbs + (e - e0).toNat ≤ (h - e0).toNat := by omega
  calc m.natAbs * 2 ^ (e - e0).toNat < 2 ^ bitlen m.natAbs * 2 ^ (e - e0).toNat :=
        Nat.mul_lt_mul_of_pos_right hlt (Nat.two_pow_pos _)
    _ = 2 ^ (bitlen m.natAbs + (e - e0).toNat) := (Nat.pow_add _ _ _).symm
    _ ≤ 2 ^ (h - e0).toNat := Nat.pow_le_pow_right (by omega) this

theorem add_bnd {lo hi : Int} {a b : F} (h1 : Bnd lo hi a) (h2 : Bnd lo hi b)
    (hlo : -126 ≤ lo) (hhi : hi + 2 ≤ 128) : Bnd lo (hi + 2) (add a b) := by
  unfold add
  obtain ⟨ba, ha'⟩ := h1
  obtain ⟨bb, hb'⟩ := h2
  by_cases hza : a.m = 0
  · simp only [hza, beq_self_eq_true, ↓reduceIte, ba, bb, Bool.or_self]
    refine ⟨rfl, ?_⟩
    rcases hb' with h | ⟨h, h'⟩
    · exact Or.inl h
    · exact Or.inr ⟨h, by simp only; omega⟩
  · have hza' : (a.m == 0) = false := by simpa using hza
    simp only [hza', Bool.false_eq_true, ↓reduceIte]
    by_cases hzb : b.m = 0
    · simp only [hzb, beq_self_eq_true, ↓reduceIte, ba, bb, Bool.or_self]
      refine ⟨rfl, ?_⟩
      rcases ha' with h | ⟨h, h'⟩
      · exact Or.inl h
      · exact Or.inr ⟨h, by simp only; omega⟩
    · have hzb' : (b.m == 0) = false := by simpa using hzb
      simp only [hzb', Bool.false_eq_true, ↓reduceIte, ba, bb, Bool.or_self]
      obtain ⟨la, ua⟩ : lo ≤ a.e ∧ a.e + (bitlen a.m.natAbs : Int) ≤ hi := by
        rcases ha' with h | h; exact absurd h hza; exact h
      obtain ⟨lb, ub⟩ : lo ≤ b.e ∧ b.e + (bitlen b.m.natAbs : Int) ≤ hi := by
        rcases hb' with h | h; exact absurd h hzb; exact h
      have := rnd24_bnd (a.m * (2 : Int) ^ (a.e - min a.e b.e).toNat + b.m * (2 : Int) ^ (b.e - min a.e b.e).toNat)
        (min a.e b.e) lo (hi + 1) hlo (by omega) (by
          right
          refine ⟨by omega, ?_⟩
          have s1 := natAbs_shift_lt a.m a.e (min a.e b.e) hi (by omega) ua
          have s2 := natAbs_shift_lt b.m b.e (min a.e b.e) hi (by omega) ub
          have s3 := Int.natAbs_add_le (a.m * (2 : Int) ^ (a.e - min a.e b.e).toNat) (b.m * (2 : Int) ^ (b.e - min a.e b.e).toNat)
          have : bitlen (a.m * (2 : Int) ^ (a.e - min a.e b.e).toNat + b.m * (2 : Int) ^ (b.e - min a.e b.e).toNat).natAbs ≤
              (hi - min a.e b.e).toNat + 1 := by
            rw [bitlen_le_iff, Nat.pow_succ]
            omega
          omega)
      simpa [Int.add_assoc] using this

/-- the bound on the table entries, checked on the table as regenerated from the source -/
def entryOK (p : Int × Int) : Bool := p.1 == 0 || (decide (-30 ≤ p.2) && decide (p.2 + (bitlen p.1.natAbs : Int) ≤ 0))

theorem table_entries_ok : Gen.BASIS.all (fun row => row.all entryOK) = true := by decide +kernel

theorem basis_bnd (f i : Nat) : Bnd (-30) 0 (basis f i) := by
  unfold basis
  have hrow : ∀ row, row ∈ Gen.BASIS.toList ∨ row = #[] → ∀ p, p ∈ row.toList ∨ p = ((0 : Int), (0 : Int)) → entryOK p = true := by
    intro row hr p hp
    rcases hp with hp | hp
    · rcases hr with hr | hr
      · have := table_entries_ok
        rw [Array.all_eq_true'] at this
        have h2 := this row (by simpa using hr)
        rw [Array.all_eq_true'] at h2
        exact h2 p (by simpa using hp)
      · subst hr; simp at hp
    · subst hp; rfl
  have hr : (Gen.BASIS.getD f #[]) ∈ Gen.BASIS.toList ∨ (Gen.BASIS.getD f #[]) = #[] := by
    by_cases h : f < Gen.BASIS.size
    · left; rw [Array.getD_eq_getD_getElem?, Array.getElem?_eq_getElem h]; simp
    · right; rw [Array.getD_eq_getD_getElem?, Array.getElem?_eq_none (by omega)]; rfl
  generalize Gen.BASIS.getD f #[] = row at hr ⊢
  have hp : (row.getD i (0, 0)) ∈ row.toList ∨ (row.getD i (0, 0)) = ((0 : Int), (0 : Int)) := by
    by_cases h : i < row.size
    · left; rw [Array.getD_eq_getD_getElem?, Array.getElem?_eq_getElem h]; simp
    · right; rw [Array.getD_eq_getD_getElem?, Array.getElem?_eq_none (by omega)]; rfl
  have := hrow _ hr _ hp
  generalize row.getD i (0, 0) = p at this ⊢
  obtain ⟨m, e⟩ := p
  unfold entryOK at this
  simp only [Bool.or_eq_true, beq_iff_eq, Bool.and_eq_true, decide_eq_true_eq] at this
  refine ⟨rfl, ?_⟩
  rcases this with h | h
  · exact Or.inl h
  · exact Or.inr h


theorem getD_ofFn {α} {n} (g : Fin n → α) (d : α) (i : Nat) :
    (Array.ofFn g).getD i d = if h : i < n then g ⟨i, h⟩ else d := by
  split
  · rename_i h
    rw [Array.getD_eq_getD_getElem?, Array.getElem?_eq_getElem (by simpa using h)]; simp
  · rename_i h
    rw [Array.getD_eq_getD_getElem?, Array.getElem?_eq_none (by simpa using h)]; rfl

theorem zero_bnd (lo hi : Int) : Bnd lo hi F32.zero := ⟨rfl, Or.inl rfl⟩

theorem ofInt_bnd (i : Int) (h : i.natAbs ≤ 2048) : Bnd 0 13 (ofInt i) := by
  unfold ofInt
  have := rnd24_bnd i 0 0 12 (by omega) (by omega) (by
    right
    refine ⟨by omega, ?_⟩
    have : bitlen i.natAbs ≤ 12 := (bitlen_le_iff _ _).2 (by omega)
    omega)
  simpa using this

theorem quarter_bnd {lo hi : Int} {a : F} (h : Bnd lo hi a) (hlo : -126 ≤ lo - 2) (hhi : hi ≤ 128) : Bnd (lo - 2) hi (quarter a) := by
  unfold quarter
  obtain ⟨hb, hz | ⟨h1, h2⟩⟩ := h
  · simp only [hz, beq_self_eq_true, ↓reduceIte]; exact ⟨hb, Or.inl hz⟩
  · by_cases hm : a.m = 0
    · simp only [hm, beq_self_eq_true, ↓reduceIte]; exact ⟨hb, Or.inl hm⟩
    · have hm' : (a.m == 0) = false := by simpa using hm
      simp only [hm', Bool.false_eq_true, ↓reduceIte, hb]
      have := rnd24_bnd a.m (a.e - 2) (lo - 2) (hi - 2) hlo (by omega) (Or.inr ⟨by omega, by omega⟩)
      exact this.mono (Int.le_refl _) (by omega)

theorem halfSignum_bnd {a : F} (h : a.bad = false) : Bnd (-1) 0 (halfSignum a) := by
  unfold halfSignum
  have b1 : bitlen 1 = 1 := by decide
  split
  · exact ⟨h, Or.inr ⟨by simp, by simp [b1]⟩⟩
  · exact ⟨h, Or.inr ⟨by simp, by simp [b1]⟩⟩

theorem fold_bnd (g : Nat → F) (lo hi : Int) (hg : ∀ f, Bnd lo hi (g f)) (hlo : -126 ≤ lo) :
    ∀ (l : List Nat) (acc : F) (k : Int), Bnd lo (hi + k) acc → 0 ≤ k → hi + k + 2 * (l.length : Int) ≤ 128 →
      Bnd lo (hi + k + 2 * (l.length : Int)) (l.foldl (fun acc f => F32.add acc (g f)) acc) := by
  intro l
  induction l with
  | nil => intro acc k h _ _; simpa using h
  | cons f fs ih =>
    intro acc k h hk hh
    simp only [List.foldl_cons, List.length_cons]
    simp only [List.length_cons] at hh
    have h1 := add_bnd h ((hg f).mono (Int.le_refl _) (by omega : hi ≤ hi + k)) hlo (by omega)
    have h2 := ih (F32.add acc (g f)) (k + 2) (by simpa [Int.add_assoc] using h1) (by omega) (by omega)
    have e : hi + (k + 2) + 2 * (fs.length : Int) = hi + k + 2 * ((fs.length : Int) + 1) := by omega
    rw [e] at h2
    simpa using h2

/-- one 1-D transform: inputs within (li, hi) give outputs within (li − 30, hi + 17) -/
theorem idct1d_bnd (inp : Array F) (li hi : Int) (hin : ∀ f, Bnd li hi (inp.getD f F32.zero))
    (hlo : -126 ≤ li - 30) (hhi : hi + 17 ≤ 128) (i : Nat) (h : i < (idct1d inp).size) :
    Bnd (li - 30) (hi + 17) ((idct1d inp)[i]) := by
  simp only [idct1d, Array.getElem_ofFn]
  have hg : ∀ f, Bnd (li - 30) (hi + 1) (F32.mul (inp.getD f F32.zero) (basis f i)) := by
    intro f
    have := mul_bnd (hin f) (basis_bnd f i) (by omega) (by omega)
    exact this.mono (by omega) (by omega)
  have := fold_bnd (fun f => F32.mul (inp.getD f F32.zero) (basis f i)) (li - 30) (hi + 1) hg hlo (List.range 8) F32.zero 0
    (zero_bnd _ _) (by omega) (by simp; omega)
  simp only [List.length_range] at this
  exact this.mono (Int.le_refl _) (by omega)

theorem idct1d_size (inp : Array F) : (idct1d inp).size = 8 := by simp [idct1d]

theorem idct1d_getD_bnd (inp : Array F) (li hi : Int) (hin : ∀ f, Bnd li hi (inp.getD f F32.zero))
    (hlo : -126 ≤ li - 30) (hhi : hi + 17 ≤ 128) (i : Nat) : Bnd (li - 30) (hi + 17) ((idct1d inp).getD i F32.zero) := by
  by_cases h : i < (idct1d inp).size
  · rw [Array.getD_eq_getD_getElem?, Array.getElem?_eq_getElem h]; exact idct1d_bnd inp li hi hin hlo hhi i h
  · rw [Array.getD_eq_getD_getElem?, Array.getElem?_eq_none (by omega)]; exact zero_bnd _ _

theorem finishFull_ok {lo hi : Int} {x : F} (h : Bnd lo hi x) (hlo : -126 ≤ lo - 2) (hl1 : lo - 2 ≤ -1) (hh0 : 0 ≤ hi) (hhi : hi + 2 ≤ 128) :
    (finishFull x).2 = false := by
  unfold finishFull
  have h1 := quarter_bnd h hlo (by omega)
  have h2 := (halfSignum_bnd h.1).mono hl1 hh0
  exact (add_bnd h1 h2 hlo hhi).1

theorem finishRow_ok {lo hi : Int} {x : F} (h : Bnd lo hi x) (hlo : -126 ≤ lo - 32) (hl1 : lo ≤ 31) (hh0 : 0 ≤ hi) (hhi : hi + 3 ≤ 128) :
    (finishRow x).2 = false := by
  unfold finishRow
  have h0 := mul_bnd h (basis_bnd 0 0) (by omega) (by omega)
  have h1 := quarter_bnd h0 (by omega) (by omega)
  have h2 : Bnd (lo + -30 - 2) (hi + 0 + 1) (halfSignum x) := (halfSignum_bnd h.1).mono (by omega) (by omega)
  exact (add_bnd h1 h2 (by omega) (by omega)).1

theorem finishDc_ok (dc : Int) (h : dc.natAbs ≤ 2048) : (finishDc dc).2 = false := by
  unfold finishDc
  have h0 := ofInt_bnd dc h
  have b1 : bitlen 1 = 1 := by decide
  have hhalf : Bnd (-1) 0 (⟨1, -1, false⟩ : F) := ⟨rfl, Or.inr ⟨by simp, by simp [b1]⟩⟩
  have h1 := mul_bnd h0 hhalf (by omega) (by omega)
  have h2 := quarter_bnd h1 (by omega) (by omega)
  have h3 : Bnd (0 + -1 - 2) (13 + 0 + 1) (halfSignum (ofInt dc)) := (halfSignum_bnd h0.1).mono (by omega) (by omega)
  exact (add_bnd h2 h3 (by omega) (by omega)).1

/-- every coefficient of the block is an integer of magnitude at most 2048 -/
def Dct.Bounded : Dct → Prop
  | .zero => True
  | .dc v => v.natAbs ≤ 2048
  | .horiz row => ∀ v ∈ row, v.natAbs ≤ 2048
  | .vert col => ∀ v ∈ col, v.natAbs ≤ 2048
  | .full d => ∀ v ∈ d, v.natAbs ≤ 2048

theorem map_ofInt_getD_bnd (l : List Int) (hl : ∀ v ∈ l, v.natAbs ≤ 2048) (f : Nat) :
    Bnd 0 13 ((l.toArray.map F32.ofInt).getD f F32.zero) := by
  by_cases h : f < l.length
  · rw [Array.getD_eq_getD_getElem?, Array.getElem?_eq_getElem (by simpa using h)]
    simp only [Array.getElem_map, List.getElem_toArray, Option.getD_some]
    exact ofInt_bnd _ (hl _ (List.getElem_mem h))
  · rw [Array.getD_eq_getD_getElem?, Array.getElem?_eq_none (by simpa using h)]; exact zero_bnd _ _

theorem rowcol_ok (l : List Int) (hl : ∀ v ∈ l, v.natAbs ≤ 2048) :
    ((idct1d (l.toArray.map F32.ofInt)).map finishRow).any (·.2) = false := by
  rw [Array.any_eq_false]
  intro i hi
  simp only [Array.getElem_map]
  have hb := idct1d_bnd (l.toArray.map F32.ofInt) 0 13 (map_ofInt_getD_bnd l hl) (by omega) (by omega) i (by simpa using hi)
  simp only [finishRow_ok hb (by omega) (by omega) (by omega) (by omega)]
  simp

/-- **No model gap.**  For every block whose coefficients are integers of magnitude at most 2048, no f32 intermediate of
the inverse transform leaves the normal range: the soft-float computation is exact IEEE-754 binary32 arithmetic. -/
theorem blockResidual_no_gap (b : Dct) (hb : Dct.Bounded b) (res : Nat → Nat → Int) (bad : Bool)
    (h : blockResidual b = some (res, bad)) : bad = false := by
  cases b with
  | zero => simp [blockResidual] at h
  | dc v =>
    simp only [blockResidual, Option.some.injEq, Prod.mk.injEq] at h
    rw [← h.2]; exact finishDc_ok v hb
  | horiz row =>
    simp only [blockResidual, Option.some.injEq, Prod.mk.injEq] at h
    rw [← h.2]; exact rowcol_ok row hb
  | vert col =>
    simp only [blockResidual, Option.some.injEq, Prod.mk.injEq] at h
    rw [← h.2]; exact rowcol_ok col hb
  | full d =>
    simp only [blockResidual, Option.some.injEq, Prod.mk.injEq] at h
    rw [← h.2]
    rw [Array.any_eq_false]
    intro x hx
    simp only [Array.getElem_map, Array.getElem_ofFn, Bool.not_eq_true]
    rw [Array.any_eq_false]
    intro y hy
    simp only [Array.getElem_map, Bool.not_eq_true]
    have hp1 : ∀ r i : Nat, Bnd (-30) 30
        (((Array.ofFn (n := 8) fun r => idct1d (Array.ofFn (n := 8) fun x => F32.ofInt (d.getD (8 * r.val + x.val) 0))).getD r #[]).getD i F32.zero) := by
      intro r i
      rw [getD_ofFn]
      split
      · have := idct1d_getD_bnd (Array.ofFn (n := 8) fun x => F32.ofInt (d.getD (8 * r + x.val) 0)) 0 13 (by
          intro f
          rw [getD_ofFn]
          split
          · show Bnd 0 13 (F32.ofInt (d.getD (8 * r + f) 0))
            apply ofInt_bnd
            by_cases hidx : 8 * r + f < d.length
            · rw [List.getD_eq_getElem?_getD, List.getElem?_eq_getElem hidx]; exact hb _ (List.getElem_mem hidx)
            · rw [List.getD_eq_getElem?_getD, List.getElem?_eq_none (by omega)]; decide
          · exact zero_bnd _ _) (by omega) (by omega) i
        exact this
      · rw [Array.getD_eq_getD_getElem?, Array.getElem?_eq_none (by simp)]; exact zero_bnd _ _
    have hb2 := idct1d_bnd (Array.ofFn (n := 8) fun r : Fin 8 =>
        ((Array.ofFn (n := 8) fun r => idct1d (Array.ofFn (n := 8) fun x => F32.ofInt (d.getD (8 * r.val + x.val) 0))).getD r.val #[]).getD x F32.zero)
      (-30) 30 (fun f => by
        rw [getD_ofFn]
        split
        · exact hp1 f x
        · exact zero_bnd _ _) (by omega) (by omega) y (by simpa using hy)
    exact finishFull_ok hb2 (by omega) (by omega) (by omega) (by omega)

end H263V.Lemmas.F32Range
