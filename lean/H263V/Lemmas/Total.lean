/-
Totality of the parsers: a small program logic over the cursor monad `P`.

`Sat p Q` — run at any cursor, `p` returns a value satisfying `Q` with a remaining-bits list that is not longer
than before, or returns an error value; it never panics and never runs out of fuel.
-/
import H263V.Model.State
import H263V.Lemmas.PeekLoop
namespace H263V.Lemmas.Total
open H263V

structure Sat {α : Type} (p : P α) (Q : α → Prop) : Prop where
  run : ∀ c, match p c with
    | .ok (a, c') => c'.bits.length ≤ c.bits.length ∧ Q a
    | .err _ => True
    | .panic _ => False
    | .fuel => False

/-- the same at one cursor, for fuel-bounded loops -/
def SatAt {α : Type} (p : P α) (Q : α → Prop) (c : Cur) : Prop :=
  match p c with
  | .ok (a, c') => c'.bits.length ≤ c.bits.length ∧ Q a
  | .err _ => True
  | .panic _ => False
  | .fuel => False

theorem Sat.of_at {α : Type} {p : P α} {Q : α → Prop} (h : ∀ c, SatAt p Q c) : Sat p Q := ⟨h⟩
theorem Sat.at {α : Type} {p : P α} {Q : α → Prop} (h : Sat p Q) (c : Cur) : SatAt p Q c := h.run c

theorem SatAt.bind {α β : Type} {p : P α} {f : α → P β} {Q1 : α → Prop} {Q : β → Prop} {c : Cur}
    (hp : SatAt p Q1 c) (hf : ∀ a c', p c = .ok (a, c') → c'.bits.length ≤ c.bits.length → Q1 a → SatAt (f a) Q c') : SatAt (p >>= f) Q c := by
  unfold SatAt at hp ⊢
  show match P.bind p f c with | .ok (a, c') => _ | .err _ => True | .panic _ => False | .fuel => False
  unfold P.bind
  cases h : p c with
  | ok r =>
    obtain ⟨a, c1⟩ := r
    rw [h] at hp
    simp only at hp ⊢
    have := hf a c1 h hp.1 hp.2
    unfold SatAt at this
    cases h2 : f a c1 with
    | ok r2 =>
      obtain ⟨b, c2⟩ := r2
      rw [h2] at this
      simp only at this ⊢
      exact ⟨by omega, this.2⟩
    | err e => trivial
    | panic s => rw [h2] at this; exact this
    | fuel => rw [h2] at this; exact this
  | err e => trivial
  | panic s => rw [h] at hp; exact hp
  | fuel => rw [h] at hp; exact hp

theorem Sat.bind {α β : Type} {p : P α} {f : α → P β} {Q1 : α → Prop} {Q : β → Prop}
    (hp : Sat p Q1) (hf : ∀ a, Q1 a → Sat (f a) Q) : Sat (p >>= f) Q :=
  ⟨fun c => SatAt.bind (hp.run c) (fun a c' _ _ hq => (hf a hq).run c')⟩

theorem Sat.pure {α : Type} (a : α) (Q : α → Prop) (h : Q a) : Sat (pure a : P α) Q :=
  ⟨fun c => by show (match P.pure a c with | .ok (a, c') => _ | .err _ => True | .panic _ => False | .fuel => False); simp [P.pure, h]⟩

theorem Sat.ppure {α : Type} (a : α) (Q : α → Prop) (h : Q a) : Sat (P.pure a) Q := Sat.pure a Q h

theorem Sat.fail {α : Type} (e : Err) (Q : α → Prop) : Sat (P.fail e : P α) Q :=
  ⟨fun c => by simp [P.fail]⟩

theorem Sat.weaken {α : Type} {p : P α} {Q Q' : α → Prop} (h : Sat p Q) (hq : ∀ a, Q a → Q' a) : Sat p Q' :=
  ⟨fun c => by
    have := h.run c
    cases hp : p c with
    | ok r => obtain ⟨a, c'⟩ := r; rw [hp] at this; simp only at this ⊢; exact ⟨this.1, hq a this.2⟩
    | err e => trivial
    | panic s => rw [hp] at this; exact this
    | fuel => rw [hp] at this; exact this⟩

theorem Sat.okOr {α : Type} (o : Option α) (e : Err) : Sat (P.okOr o e) (fun a => o = some a) := by
  cases o with
  | none => exact Sat.fail e _
  | some a => exact Sat.ppure a _ rfl

theorem peekBits_ok_lt (W n : Nat) (c : Cur) (v : Nat) (h : peekBits W n c = .ok v) : v < 2 ^ n := by
  unfold peekBits at h
  split at h
  · simp at h
  · split at h
    · simp only [Out.ok.injEq] at h; subst h; exact Nat.two_pow_pos n
    · split at h
      · simp at h
      · simp only [Out.ok.injEq] at h
        subst h
        have := Lemmas.PeekLoop.ofBits_lt (c.bits.take n)
        rw [List.length_take] at this
        have hm : min n c.bits.length = n := by omega
        rw [hm] at this
        exact this

theorem peekBits_returns (W n : Nat) (c : Cur) : (∃ v, peekBits W n c = .ok v) ∨ (∃ e, peekBits W n c = .err e) := by
  unfold peekBits
  repeat' split
  all_goals simp

theorem Sat.skipBits (n : Nat) : Sat (skipBits n) (fun _ => True) :=
  ⟨fun c => by
    unfold H263V.skipBits
    by_cases hl : c.bits.length < n
    · simp [hl]
    · simp only [hl, ↓reduceIte, List.length_drop]; exact ⟨by omega, trivial⟩⟩

/-- a read of `n` bits returns a value below `2^n` and consumes exactly `n` bits -/
theorem readBits_cases (W n : Nat) (c : Cur) :
    (∃ e, readBits W n c = .err e) ∨
    (∃ v, readBits W n c = .ok (v, ⟨c.bits.drop n, c.pos + n⟩) ∧ v < 2 ^ n ∧ n ≤ c.bits.length) := by
  unfold readBits
  rcases peekBits_returns W n c with ⟨v, hv⟩ | ⟨e, he⟩
  · rw [hv]
    simp only
    unfold H263V.skipBits
    by_cases hl : c.bits.length < n
    · left; simp [hl, Out.bind]
    · right; simp only [hl, ↓reduceIte, Out.bind]; exact ⟨v, rfl, peekBits_ok_lt W n c v hv, by omega⟩
  · rw [he]; left; exact ⟨e, rfl⟩

theorem Sat.readBits (W n : Nat) : Sat (readBits W n) (fun v => v < 2 ^ n) :=
  ⟨fun c => by
    rcases readBits_cases W n c with ⟨e, he⟩ | ⟨v, hv, hlt, _⟩
    · rw [he]; trivial
    · rw [hv]; simp only [List.length_drop]; exact ⟨by omega, hlt⟩⟩

theorem Sat.readU8 : Sat readU8 (fun v => v < 256) := Sat.readBits 8 8

theorem Sat.readSignedBits (W n : Nat) (hn : n ≠ 0) : Sat (readSignedBits W n) (fun _ => True) :=
  ⟨fun c => by
    unfold H263V.readSignedBits
    rcases peekBits_returns W n c with ⟨v, hv⟩ | ⟨e, he⟩
    · rw [hv]
      simp only [hn, ↓reduceIte]
      unfold H263V.skipBits
      by_cases hl : c.bits.length < n
      · simp [hl, Out.bind]
      · simp only [hl, ↓reduceIte, Out.bind, List.length_drop]; exact ⟨by omega, trivial⟩
    · rw [he]; trivial⟩

/-- the tree walk never panics; on success the bits left plus the bits used add up -/
theorem vlcWalk_spec {α : Type} (t : Array (Entry α)) : ∀ (bits : Bits) (idx used : Nat),
    match vlcWalk t idx bits used with
    | .ok (_, rest, used') => rest.length + used' = bits.length + used ∧ used ≤ used'
    | .err _ => True
    | .panic _ => False
    | .fuel => False := by
  intro bits
  induction bits with
  | nil =>
    intro idx used
    unfold vlcWalk
    cases t[idx]? with
    | none => simp
    | some e => cases e <;> simp
  | cons b bs ih =>
    intro idx used
    unfold vlcWalk
    cases t[idx]? with
    | none => simp
    | some e =>
      cases e with
      | fin a => simp
      | fork z o =>
        simp only
        have := ih (if b then o else z) (used + 1)
        cases h : vlcWalk t (if b = true then o else z) bs (used + 1) with
        | ok r =>
          obtain ⟨a, rest, u'⟩ := r
          rw [h] at this
          simp only [List.length_cons] at this ⊢
          omega
        | err e => trivial
        | panic s => rw [h] at this; exact this
        | fuel => rw [h] at this; exact this

theorem Sat.readVlc {α : Type} (t : Array (Entry α)) : Sat (readVlc t) (fun _ => True) :=
  ⟨fun c => by
    unfold H263V.readVlc
    have := vlcWalk_spec t c.bits 0 0
    cases h : vlcWalk t 0 c.bits 0 with
    | ok r =>
      obtain ⟨a, rest, u'⟩ := r
      rw [h] at this
      simp only at this ⊢
      exact ⟨by omega, trivial⟩
    | err e => trivial
    | panic s => rw [h] at this; exact this
    | fuel => rw [h] at this; exact this⟩

/-- a tree whose root is a fork consumes at least one bit on success -/
theorem readVlc_strict {α : Type} (t : Array (Entry α)) (z o : Nat) (hroot : t[0]? = some (.fork z o)) (c : Cur) (a : α) (c' : Cur)
    (h : readVlc t c = .ok (a, c')) : c'.bits.length < c.bits.length := by
  unfold H263V.readVlc at h
  cases hb : c.bits with
  | nil =>
    rw [hb] at h
    unfold vlcWalk at h
    simp [hroot] at h
  | cons b bs =>
    rw [hb] at h
    unfold vlcWalk at h
    simp only [hroot] at h
    have := vlcWalk_spec t bs (if b then o else z) (0 + 1)
    cases hw : vlcWalk t (if b = true then o else z) bs (0 + 1) with
    | ok r =>
      obtain ⟨a2, rest, u'⟩ := r
      rw [hw] at this h
      simp only [Out.ok.injEq, Prod.mk.injEq] at h
      simp only at this
      rw [← h.2]
      simp only [List.length_cons]
      omega
    | err e => rw [hw] at h; simp at h
    | panic s => rw [hw] at h; simp at h
    | fuel => rw [hw] at h; simp at h

/-- the start-code search: a look-ahead that cannot panic or spin (C01.rsc_total restated for `Sat`) -/
theorem rsc_total (inError : Bool) (maxSkip : Nat) :
    ∀ (fuel skip : Nat) (c : Cur), c.bits.length < fuel → (rscLoop inError maxSkip fuel skip c).returns = true := by
  intro fuel
  induction fuel with
  | zero => intro skip c h; omega
  | succ n ih =>
    intro skip c h
    unfold rscLoop
    rcases peekBits_returns 32 17 c with ⟨v, hv⟩ | ⟨e, he⟩
    · rw [hv]
      simp only
      split
      · rfl
      · split
        · rfl
        · unfold H263V.skipBits
          by_cases hl : c.bits.length < 1
          · simp [hl, Out.returns]
          · simp only [hl, ↓reduceIte]
            apply ih
            simp only [List.length_drop]
            omega
    · rw [he]; rfl

theorem Sat.rsc (inError : Bool) : Sat (recognizeStartCode inError) (fun _ => True) :=
  ⟨fun c => by
    unfold recognizeStartCode
    have hf := rsc_total inError (realignmentBits c) (c.bits.length + 2) 0 c (by omega)
    cases h : rscLoop inError (realignmentBits c) (c.bits.length + 2) 0 c with
    | ok r => simp
    | err e => trivial
    | fuel => rw [h] at hf; simp [Out.returns] at hf
    | panic s => rw [h] at hf; simp [Out.returns] at hf⟩

theorem Sat.transactionUnion {α : Type} {p : P (Option α)} {Q : Option α → Prop} (h : Sat p Q) : Sat (transactionUnion p) Q :=
  ⟨fun c => by
    unfold H263V.transactionUnion
    have := h.run c
    cases hp : p c with
    | ok r =>
      obtain ⟨a, c'⟩ := r
      rw [hp] at this
      cases a with
      | none => simp only at this ⊢; exact ⟨Nat.le_refl _, this.2⟩
      | some x => simpa using this
    | err e => trivial
    | panic s => rw [hp] at this; exact this
    | fuel => rw [hp] at this; exact this⟩


theorem Sat.ite {α : Type} {c : Prop} [Decidable c] {a b : P α} {Q : α → Prop} (ha : c → Sat a Q) (hb : ¬c → Sat b Q) :
    Sat (if c then a else b) Q := by
  split
  · exact ha ‹_›
  · exact hb ‹_›

theorem Sat.triv {α : Type} {p : P α} {Q : α → Prop} (h : Sat p Q) : Sat p (fun _ => True) := h.weaken (fun _ _ => trivial)

/-- discharge a side goal `Q a` at a leaf -/
macro "sat_leaf" : tactic => `(tactic| first | trivial | assumption | omega | (simp_all; done) | (intros; trivial))

/-- one structural step on a goal `Sat p Q` -/
macro "sat_step" : tactic => `(tactic| first
  | (refine Sat.pure _ _ ?_; sat_leaf)
  | (refine Sat.ppure _ _ ?_; sat_leaf)
  | exact Sat.fail _ _
  | (apply Sat.triv; assumption)
  | (refine (Sat.readBits _ _).weaken ?_; intros; sat_leaf)
  | (refine Sat.readU8.weaken ?_; intros; sat_leaf)
  | (refine (Sat.skipBits _).weaken ?_; intros; sat_leaf)
  | (refine (Sat.readVlc _).weaken ?_; intros; sat_leaf)
  | (refine (Sat.rsc _).weaken ?_; intros; sat_leaf)
  | (refine (Sat.okOr _ _).weaken ?_; intros; sat_leaf)
  | refine Sat.bind (Sat.readBits _ _) (fun _ _ => ?_)
  | refine Sat.bind Sat.readU8 (fun _ _ => ?_)
  | refine Sat.bind (Sat.skipBits _) (fun _ _ => ?_)
  | refine Sat.bind (Sat.readVlc _) (fun _ _ => ?_)
  | refine Sat.bind (Sat.rsc _) (fun _ _ => ?_)
  | refine Sat.bind (Sat.okOr _ _) (fun _ _ => ?_)
  | (apply Sat.bind; assumption)
  | intro _ _
  | refine Sat.bind (Q1 := fun _ => True) ?_ (fun _ _ => ?_)
  | refine Sat.ite (fun _ => ?_) (fun _ => ?_)
  | dsimp only
  | split)

macro "sat" : tactic => `(tactic| repeat' sat_step)

attribute [local irreducible] P.bind P.pure P.fail P.okOr H263V.readBits H263V.readU8 H263V.skipBits H263V.readVlc
  H263V.recognizeStartCode H263V.readSignedBits H263V.transactionUnion

open H263V.Header

theorem decodePtype_sat : Sat decodePtype (fun _ => True) := by
  unfold decodePtype; sat

theorem decodePlusptype_sat (d : DecOpts) (po : Nat) : Sat (decodePlusptype d po) (fun _ => True) := by
  unfold decodePlusptype; sat

theorem decodeSorensonPtype_sat : Sat decodeSorensonPtype (fun _ => True) := by
  unfold decodeSorensonPtype; sat

theorem decodeCpmPsbi_sat : Sat decodeCpmPsbi (fun _ => True) := by unfold decodeCpmPsbi; sat
theorem decodeCpfmt_sat : Sat decodeCpfmt (fun _ => True) := by unfold decodeCpfmt; sat
theorem decodeCpcfc_sat : Sat decodeCpcfc (fun _ => True) := by unfold decodeCpcfc; sat
theorem decodeUui_sat : Sat decodeUui (fun _ => True) := by unfold decodeUui; sat
theorem decodeSss_sat : Sat decodeSss (fun _ => True) := by unfold decodeSss; sat
theorem decodeElnumRlnum_sat (f : Followers) : Sat (decodeElnumRlnum f) (fun _ => True) := by unfold decodeElnumRlnum; sat
theorem decodeRpsmf_sat : Sat decodeRpsmf (fun _ => True) := by unfold decodeRpsmf; sat
theorem decodeTrpi_sat : Sat decodeTrpi (fun _ => True) := by unfold decodeTrpi; sat
theorem decodeBcm_sat : Sat decodeBcm (fun _ => True) := by unfold decodeBcm; sat
theorem decodeTrb_sat (b : Bool) : Sat (decodeTrb b) (fun _ => True) := by unfold decodeTrb; sat
theorem decodeDbquant_sat : Sat decodeDbquant (fun _ => True) := by unfold decodeDbquant; sat


attribute [local irreducible] decodePtype decodePlusptype decodeSorensonPtype decodeCpmPsbi decodeCpfmt decodeCpcfc decodeUui
  decodeSss decodeElnumRlnum decodeRpsmf decodeTrpi decodeBcm decodeTrb decodeDbquant

theorem readBits_ok_len (W n : Nat) (c : Cur) (v : Nat) (c' : Cur) (h : readBits W n c = .ok (v, c')) :
    c'.bits.length + n = c.bits.length := by
  rcases readBits_cases W n c with ⟨e, he⟩ | ⟨v2, hv2, _, hl⟩
  · rw [he] at h; simp at h
  · rw [hv2] at h
    simp only [Out.ok.injEq, Prod.mk.injEq] at h
    rw [← h.2]; simp only [List.length_drop]; omega

theorem peiLoop_sat : ∀ (fuel : Nat) (acc : List Nat) (c : Cur), c.bits.length < fuel → SatAt (peiLoop fuel acc) (fun _ => True) c := by
  intro fuel
  induction fuel with
  | zero => intro acc c h; omega
  | succ n ih =>
    intro acc c h
    unfold peiLoop
    refine SatAt.bind ((Sat.readBits 8 1).run c) ?_
    intro has c1 e1 hc1 _
    have l1 := readBits_ok_len 8 1 c has c1 e1
    split
    · refine SatAt.bind (Sat.readU8.run c1) ?_
      intro b c2 e2 hc2 _
      exact ih _ c2 (by omega)
    · exact (Sat.pure acc (fun _ => True) trivial).run c1

theorem decodePei_sat : Sat decodePei (fun _ => True) :=
  ⟨fun c => peiLoop_sat (c.bits.length + 1) [] c (by omega)⟩

attribute [local irreducible] decodePei

theorem tr_bound (hi lo : Nat) (h1 : hi < 2 ^ 2) (h2 : lo < 256) : (hi <<< 8) ||| lo < 1024 := by
  have : hi <<< 8 < 2 ^ 10 := by rw [Nat.shiftLeft_eq]; omega
  exact Nat.or_lt_two_pow this (by omega)

/-- the picture header parser: total; a returned header carries a quantizer below 32 and a temporal reference below 1024 -/
theorem decodePicture_sat (d : DecOpts) (prev : Option PicHdr) :
    Sat (decodePicture d prev) (fun r => ∀ h, r = some h → h.quantizer < 32 ∧ h.tr < 1024) := by
  have h1 := decodePei_sat
  have h2 := decodePtype_sat
  have h3 := decodePlusptype_sat d (Header.prevOptions prev)
  have h4 := decodeSorensonPtype_sat
  have h5 := decodeCpmPsbi_sat
  have h6 := decodeCpfmt_sat
  have h7 := decodeCpcfc_sat
  have h8 := decodeUui_sat
  have h9 := decodeSss_sat
  have h10 := decodeRpsmf_sat
  have h11 := decodeTrpi_sat
  have h12 := decodeBcm_sat
  have h13 := decodeDbquant_sat
  have h14 : ∀ f, Sat (decodeElnumRlnum f) (fun _ => True) := decodeElnumRlnum_sat
  have h15 : ∀ b, Sat (decodeTrb b) (fun _ => True) := decodeTrb_sat
  have htr : ∀ (lowTr : Nat), lowTr < 256 → ∀ b : Bool, Sat (if b = true then do
          let hi ← readBits 16 2
          pure ((hi <<< 8) ||| lowTr)
        else pure lowTr : P Nat) (fun tr => tr < 1024) := by
    intro lowTr hl b
    refine Sat.ite (fun _ => ?_) (fun _ => ?_)
    · refine Sat.bind (Sat.readBits 16 2) (fun hi hh => ?_)
      exact Sat.pure _ _ (tr_bound hi lowTr hh hl)
    · exact Sat.pure _ _ (by omega)
  unfold decodePicture
  apply Sat.transactionUnion
  repeat' (first
    | (refine Sat.pure _ _ ?_; intro h hh; cases hh; constructor <;> (try dsimp only) <;> first | assumption | omega)
    | (refine Sat.bind (htr _ (by assumption) _) ?_; intro _ _)
    | sat_step | exact h15 _ | exact h14 _)

theorem decodeGob_sat : Sat decodeGob (fun _ => True) := by
  refine ⟨fun c => ?_⟩
  unfold decodeGob
  have : Sat (do
      let skipped ← recognizeStartCode false
      let skipped ← P.okOr skipped .invalidGobHeader
      skipBits (17 + skipped)
      let gobId ← readBits 8 5
      if gobId == 0 || gobId == 15 then pure () else P.fail .unimplemented : P Unit) (fun _ => True) := by sat
  have := this.run c
  revert this
  generalize (do
      let skipped ← recognizeStartCode false
      let skipped ← P.okOr skipped .invalidGobHeader
      skipBits (17 + skipped)
      let gobId ← readBits 8 5
      if gobId == 0 || gobId == 15 then pure () else P.fail .unimplemented : P Unit) c = r
  intro this
  cases r with
  | ok x => simp
  | err e => trivial
  | panic s => exact this
  | fuel => exact this


/-! ### macroblock layer -/
open H263V.Mb

def DqOK (dq : Option Int) : Prop := dq = none ∨ dq = some (-2) ∨ dq = some (-1) ∨ dq = some 1 ∨ dq = some 2

theorem decodeDquant_sat : Sat decodeDquant (fun d => d = -2 ∨ d = -1 ∨ d = 1 ∨ d = 2) := by
  unfold decodeDquant; sat

attribute [local irreducible] decodeDquant

theorem umvLoop_sat : ∀ (fuel m b : Nat), Sat (umvLoop fuel m b) (fun _ => True) := by
  intro fuel
  induction fuel with
  | zero => intro m b; unfold umvLoop; sat
  | succ n ih =>
    intro m b
    unfold umvLoop
    repeat' (first | sat_step | exact ih _ _)

theorem readUmv_sat : Sat readUmv (fun _ => True) := by
  have := umvLoop_sat 13 0 1
  unfold readUmv; sat

attribute [local irreducible] readUmv

theorem decodeMotionVector_sat (hdr : PicHdr) (running : Nat) : Sat (decodeMotionVector hdr running) (fun _ => True) := by
  have := readUmv_sat
  unfold decodeMotionVector; sat

theorem decodeCbpb_sat : Sat decodeCbpb (fun _ => True) := by unfold decodeCbpb; sat

attribute [local irreducible] decodeMotionVector decodeCbpb

/-- `decode_macroblock` after the MCBPC codeword was read as a valid (type, chroma pattern) entry -/
def mbTail (hdr : PicHdr) (running : Nat) (t : MbType) (ccb ccr : Bool) : P Macroblock := do
    let (hasCbpb, hasMvdb) ← (if hdr.picType = .pbFrame then readVlc Gen.MODB else pure (false, false))
    let cbpy ← readVlc Gen.CBPY
    let (l0, l1, l2, l3) ← P.okOr cbpy .invalidMbCodedBits
    let luma := if t.isIntra then (l0, l1, l2, l3) else (!l0, !l1, !l2, !l3)
    if hasCbpb then decodeCbpb else pure ()
    if Opt.has running Opt.MODIFIED_QUANTIZATION then P.fail .unimplemented else
    let dq ← (if t.hasQuantizer then do
        let d ← decodeDquant
        pure (some d)
      else pure none)
    let mv ← (if t.isInter || hdr.picType.isAnyPb then do
        let m ← decodeMotionVector hdr running
        pure (some m)
      else pure none)
    let addl ← (if t.hasFourVec then do
        let m2 ← decodeMotionVector hdr running
        let m3 ← decodeMotionVector hdr running
        let m4 ← decodeMotionVector hdr running
        pure (some (m2, m3, m4))
      else pure none)
    if hasMvdb then do
      let _ ← decodeMotionVector hdr running
      let _ ← decodeMotionVector hdr running
      let _ ← decodeMotionVector hdr running
      let _ ← decodeMotionVector hdr running
      pure ()
    else pure ()
    pure (.coded t { luma := luma, cb := ccb, cr := ccr } dq mv addl)

def mbFirst (hdr : PicHdr) : P Nat := if hdr.picType = .iFrame then pure 0 else readBits 8 1
def mbMcbpc (hdr : PicHdr) : P BPE := match hdr.picType with
    | .iFrame => readVlc Gen.MCBPC_I
    | .pFrame => readVlc Gen.MCBPC_P
    | .disposableP => readVlc Gen.MCBPC_P
    | _ => P.fail .unimplemented

theorem decodeMacroblock_eq (hdr : PicHdr) (running : Nat) :
    decodeMacroblock hdr running = (mbFirst hdr >>= fun isCoded =>
      if isCoded != 0 then pure .uncoded else
      mbMcbpc hdr >>= fun mcbpc =>
      match mcbpc with
      | .stuffing => pure .stuffing
      | .invalid => P.fail .invalidMbHeader
      | .valid t ccb ccr => mbTail hdr running t ccb ccr) := rfl

/-- what the macroblock loop relies on: a coded macroblock's DQUANT is one of −2, −1, 1, 2 -/
def MbPost : Macroblock → Prop
  | .coded _ _ dq _ _ => DqOK dq
  | _ => True

theorem mbTail_sat (hdr : PicHdr) (running : Nat) (t : MbType) (ccb ccr : Bool) :
    Sat (mbTail hdr running t ccb ccr) (fun m => MbPost m ∧ m ≠ .stuffing) := by
  have h1 := decodeMotionVector_sat hdr running
  have h2 := decodeCbpb_sat
  unfold mbTail
  -- the DQUANT read carries its postcondition into the final `pure`
  have hdq : Sat (if t.hasQuantizer then do
        let d ← decodeDquant
        pure (some d)
      else pure none : P (Option Int)) DqOK := by
    split
    · refine Sat.bind decodeDquant_sat (fun d hd => ?_)
      refine Sat.pure _ _ ?_
      unfold DqOK; rcases hd with h | h | h | h <;> simp [h]
    · exact Sat.pure _ _ (Or.inl rfl)
  repeat' (first | (refine Sat.pure _ _ ⟨?_, by simp⟩; simpa [MbPost] using ‹DqOK _›) | sat_step)

theorem mbFirst_sat (hdr : PicHdr) : Sat (mbFirst hdr) (fun _ => True) := by unfold mbFirst; sat
theorem mbMcbpc_sat (hdr : PicHdr) : Sat (mbMcbpc hdr) (fun _ => True) := by unfold mbMcbpc; sat

attribute [local irreducible] mbTail mbFirst mbMcbpc

theorem decodeMacroblock_sat (hdr : PicHdr) (running : Nat) : Sat (decodeMacroblock hdr running) MbPost := by
  have h1 := mbFirst_sat hdr
  have h2 := mbMcbpc_sat hdr
  rw [decodeMacroblock_eq]
  repeat' (first | sat_step | exact (mbTail_sat hdr running _ _ _).weaken (fun _ h => h.1) | exact trivial)


theorem bind_ok_inv {α β : Type} (p : P α) (f : α → P β) (c : Cur) (b : β) (c' : Cur) (h : (p >>= f) c = .ok (b, c')) :
    ∃ a c1, p c = .ok (a, c1) ∧ f a c1 = .ok (b, c') := by
  change P.bind p f c = .ok (b, c') at h
  unfold P.bind at h
  cases hp : p c with
  | ok r => obtain ⟨a, c1⟩ := r; rw [hp] at h; exact ⟨a, c1, rfl, h⟩
  | err e => rw [hp] at h; simp at h
  | panic s => rw [hp] at h; simp at h
  | fuel => rw [hp] at h; simp at h

theorem Sat.ok_len {α : Type} {p : P α} {Q : α → Prop} (h : Sat p Q) (c : Cur) (a : α) (c' : Cur) (e : p c = .ok (a, c')) :
    c'.bits.length ≤ c.bits.length ∧ Q a := by
  have := h.run c
  rw [e] at this
  exact this

def rootFork {α : Type} (t : Array (Entry α)) : Bool :=
  match t[0]? with
  | some (Entry.fork _ _) => true
  | _ => false

theorem rootFork_spec {α : Type} (t : Array (Entry α)) (h : rootFork t = true) : ∃ z o, t[0]? = some (Entry.fork z o) := by
  unfold rootFork at h
  cases h0 : t[0]? with
  | none => rw [h0] at h; simp at h
  | some e =>
    cases e with
    | fin a => rw [h0] at h; simp at h
    | fork z o => exact ⟨z, o, rfl⟩

/-- checked on the regenerated tables: the root of each of these trees is a fork, so a codeword has at least one bit -/
theorem mcbpc_roots : (∃ z o, Gen.MCBPC_I[0]? = some (.fork z o)) ∧ (∃ z o, Gen.MCBPC_P[0]? = some (.fork z o)) ∧
    (∃ z o, Gen.TCOEF[0]? = some (.fork z o)) :=
  ⟨rootFork_spec _ (by decide +kernel), rootFork_spec _ (by decide +kernel), rootFork_spec _ (by decide +kernel)⟩

/-- a stuffing macroblock consumed at least one bit (its MCBPC codeword) -/
theorem decodeMacroblock_stuffing_strict (hdr : PicHdr) (running : Nat) (c c' : Cur)
    (h : decodeMacroblock hdr running c = .ok (.stuffing, c')) : c'.bits.length < c.bits.length := by
  rw [decodeMacroblock_eq] at h
  obtain ⟨isCoded, c1, e1, h⟩ := bind_ok_inv _ _ _ _ _ h
  have l1 := ((mbFirst_sat hdr).ok_len c isCoded c1 e1).1
  split at h
  · change P.pure Macroblock.uncoded c1 = _ at h
    simp [P.pure] at h
  · obtain ⟨mcbpc, c2, e2, h⟩ := bind_ok_inv _ _ _ _ _ h
    have l2 : c2.bits.length < c1.bits.length := by
      unfold mbMcbpc at e2
      obtain ⟨⟨z1, o1, r1⟩, ⟨z2, o2, r2⟩, _⟩ := mcbpc_roots
      cases hpt : hdr.picType <;> rw [hpt] at e2 <;> dsimp only at e2 <;>
        first
        | exact readVlc_strict _ _ _ r1 c1 mcbpc c2 e2
        | exact readVlc_strict _ _ _ r2 c1 mcbpc c2 e2
        | (simp [P.fail] at e2)
    split at h
    · change P.pure Macroblock.stuffing c2 = _ at h
      simp only [P.pure, Out.ok.injEq, Prod.mk.injEq] at h
      rw [← h.2]; omega
    · simp [P.fail] at h
    · have := ((mbTail_sat hdr running _ _ _).ok_len c2 _ c' h).2.2
      exact absurd rfl this

/-! ### block layer -/

theorem tcoefLoop_sat (d : DecOpts) (hdr : PicHdr) (running : Nat) :
    ∀ (fuel : Nat) (acc : List TCoef) (c : Cur), c.bits.length < fuel → SatAt (tcoefLoop d hdr running fuel acc) (fun _ => True) c := by
  intro fuel
  induction fuel with
  | zero => intro acc c h; omega
  | succ n ih =>
    intro acc c h
    unfold tcoefLoop
    refine SatAt.bind ((Sat.readVlc Gen.TCOEF).run c) ?_
    intro s c1 e1 _ _
    obtain ⟨_, _, ⟨z, o, r⟩⟩ := mcbpc_roots
    have l1 := readVlc_strict _ _ _ r c s c1 e1
    refine SatAt.bind ((Sat.okOr s .invalidShortCoef).run c1) ?_
    intro s' c2 _ l2 _
    -- from here on every continuation runs at a cursor strictly shorter than `c`
    have key : ∀ (acc' : List TCoef) (c3 : Cur), c3.bits.length ≤ c2.bits.length →
        SatAt (tcoefLoop d hdr running n acc') (fun _ => True) c3 := fun acc' c3 h3 => ih acc' c3 (by omega)
    cases s' with
    | esc =>
      simp only
      refine SatAt.bind (Q1 := fun w => w = 11 ∨ w = 7 ∨ w = 8) ?_ ?_
      · split
        · refine SatAt.bind ((Sat.readBits 8 1).run c2) ?_
          intro f c3 _ _ _
          refine (Sat.pure _ _ ?_).run c3
          split <;> simp
        · exact (Sat.pure _ _ (by simp)).run c2
      · intro width c3 _ l3 hw
        refine SatAt.bind ((Sat.readBits 8 1).run c3) ?_
        intro last c4 _ l4 _
        refine SatAt.bind ((Sat.readBits 8 6).run c4) ?_
        intro run c5 _ l5 _
        refine SatAt.bind ((Sat.readSignedBits 16 width (by omega)).run c5) ?_
        intro level c6 _ l6 _
        split
        · exact (Sat.fail _ _).run c6
        · split
          · split
            · exact (Sat.fail _ _).run c6
            · exact (Sat.fail _ _).run c6
          · split
            · exact (Sat.pure _ _ trivial).run c6
            · exact key _ c6 (by omega)
    | run last run level =>
      simp only
      refine SatAt.bind ((Sat.readBits 8 1).run c2) ?_
      intro sign c3 _ l3 _
      split
      · exact (Sat.pure _ _ trivial).run c3
      · exact key _ c3 (by omega)

/-- `decode_block`: total; an INTRADC code is a byte -/
theorem decodeBlock_sat (d : DecOpts) (hdr : PicHdr) (running : Nat) (t : MbType) (present : Bool) :
    Sat (decodeBlock d hdr running t present) (fun b => ∀ dc, b.intradc = some dc → dc < 256) := by
  unfold decodeBlock
  refine Sat.bind (Q1 := fun dc => ∀ v, dc = some v → v < 256) ?_ ?_
  · split
    · refine Sat.bind Sat.readU8 (fun v hv => ?_)
      refine Sat.bind (Sat.okOr _ _) (fun dc hdc => ?_)
      refine Sat.pure _ _ ?_
      intro v' hv'
      simp only [Option.some.injEq] at hv'
      subst hv'
      unfold intraDcOfByte at hdc
      split at hdc
      · simp at hdc
      · simp only [Option.some.injEq] at hdc; omega
    · exact Sat.pure _ _ (by simp)
  · intro dc hdc
    cases present
    · simp only [Bool.false_eq_true, ↓reduceIte]
      exact Sat.pure _ _ (fun v hv => hdc v hv)
    · simp only [↓reduceIte]
      refine ⟨fun c => ?_⟩
      refine SatAt.bind (tcoefLoop_sat d hdr running (c.bits.length + 1) [] c (by omega)) ?_
      intro tc c1 _ _ _
      exact (Sat.pure _ _ (fun v hv => hdc v hv)).run c1

end H263V.Lemmas.Total
