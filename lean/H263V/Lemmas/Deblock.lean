import H263V.Model.Deblock
import H263V.Spec.AnnexJ
namespace H263V.Lemmas.Deblock
open H263V H263V.Deblock

theorem filter_range (a b c d s : Int) (ha : 0 ≤ a ∧ a ≤ 255) (hb : 0 ≤ b ∧ b ≤ 255) (hc : 0 ≤ c ∧ c ≤ 255)
    (hd : 0 ≤ d ∧ d ≤ 255) (hs : 1 ≤ s ∧ s ≤ 12) :
    (0 ≤ (Spec.AnnexJ.filter s a b c d).1 ∧ (Spec.AnnexJ.filter s a b c d).1 ≤ 255) ∧
    (0 ≤ (Spec.AnnexJ.filter s a b c d).2.1 ∧ (Spec.AnnexJ.filter s a b c d).2.1 ≤ 255) ∧
    (0 ≤ (Spec.AnnexJ.filter s a b c d).2.2.1 ∧ (Spec.AnnexJ.filter s a b c d).2.2.1 ≤ 255) ∧
    (0 ≤ (Spec.AnnexJ.filter s a b c d).2.2.2 ∧ (Spec.AnnexJ.filter s a b c d).2.2.2 ≤ 255) := by
  obtain ⟨ha0, ha1⟩ := ha; obtain ⟨hb0, hb1⟩ := hb; obtain ⟨hc0, hc1⟩ := hc; obtain ⟨hd0, hd1⟩ := hd
  obtain ⟨hs0, hs1⟩ := hs
  simp only [Spec.AnnexJ.filter, Spec.AnnexJ.tdiv, Spec.AnnexJ.upDownRamp, Spec.AnnexJ.sign, Spec.AnnexJ.abs,
    Spec.AnnexJ.clip, Int.max_def]
  repeat' split
  all_goals omega

end H263V.Lemmas.Deblock

namespace H263V.Lemmas.Deblock
open H263V H263V.Deblock

theorem chk16_ok (site : String) (x : Int) (h0 : -32768 ≤ x) (h1 : x ≤ 32767) : chk16 site x = .ok x := by
  simp [chk16, inI16, h0, h1]

theorem td_eq (x k : Int) : td x k = Spec.AnnexJ.tdiv x k := rfl

theorem ramp_eq (x s : Int) : upDownRamp x s = Spec.AnnexJ.upDownRamp x s := by
  simp only [upDownRamp, Spec.AnnexJ.upDownRamp, signum, Spec.AnnexJ.sign, iabs, Spec.AnnexJ.abs, imax, Int.max_def]
  repeat' split
  all_goals omega

theorem ramp_bound (x s : Int) (hs : 1 ≤ s) :
    -(Spec.AnnexJ.abs x) ≤ Spec.AnnexJ.upDownRamp x s ∧ Spec.AnnexJ.upDownRamp x s ≤ Spec.AnnexJ.abs x := by
  simp only [Spec.AnnexJ.upDownRamp, Spec.AnnexJ.sign, Spec.AnnexJ.abs, Int.max_def]
  repeat' split
  all_goals omega

theorem clipd1_eq (x lim : Int) :
    clipd1 x lim = Spec.AnnexJ.clip x (-(Spec.AnnexJ.abs lim)) (Spec.AnnexJ.abs lim) := by
  simp only [clipd1, clampI, imin, imax, iabs, Spec.AnnexJ.clip, Spec.AnnexJ.abs]
  repeat' split
  all_goals omega

theorem clamp255_eq (x : Int) : clampI x 0 255 = Spec.AnnexJ.clip x 0 255 := by
  simp only [clampI, imin, imax, Spec.AnnexJ.clip]
  repeat' split
  all_goals omega

theorem asU8_id (x : Int) (h0 : 0 ≤ x) (h1 : x ≤ 255) : asU8 x = x := by
  unfold asU8; omega

theorem scalar_eq_spec (a b c d s : Int) (ha : 0 ≤ a ∧ a ≤ 255) (hb : 0 ≤ b ∧ b ≤ 255) (hc : 0 ≤ c ∧ c ≤ 255)
    (hd : 0 ≤ d ∧ d ≤ 255) (hs : 1 ≤ s ∧ s ≤ 12) :
    processScalar a b c d s = .ok (Spec.AnnexJ.filter s a b c d) := by
  have hr := filter_range a b c d s ha hb hc hd hs
  obtain ⟨ha0, ha1⟩ := ha; obtain ⟨hb0, hb1⟩ := hb; obtain ⟨hc0, hc1⟩ := hc; obtain ⟨hd0, hd1⟩ := hd
  obtain ⟨hs0, hs1⟩ := hs
  have hsb : (!(decide (1 ≤ s) && decide (s ≤ 12))) = false := by simp [hs0, hs1]
  have hdd : -320 ≤ Spec.AnnexJ.tdiv (a - 4 * b + 4 * c - d) 8 ∧ Spec.AnnexJ.tdiv (a - 4 * b + 4 * c - d) 8 ≤ 320 := by
    simp only [Spec.AnnexJ.tdiv]; split <;> omega
  have hrb := ramp_bound (Spec.AnnexJ.tdiv (a - 4 * b + 4 * c - d) 8) s hs0
  have habs : Spec.AnnexJ.abs (Spec.AnnexJ.tdiv (a - 4 * b + 4 * c - d) 8) ≤ 320 := by
    simp only [Spec.AnnexJ.abs]; split <;> omega
  unfold processScalar
  simp only [hsb, Bool.false_eq_true, ↓reduceIte]
  rw [chk16_ok _ _ (by omega) (by omega)]; simp only [Out.bind_ok]
  rw [chk16_ok _ _ (by omega) (by omega)]; simp only [Out.bind_ok]
  rw [chk16_ok _ _ (by omega) (by omega)]; simp only [Out.bind_ok]
  rw [chk16_ok _ _ (by omega) (by omega)]; simp only [Out.bind_ok]
  rw [chk16_ok _ _ (by omega) (by omega)]; simp only [Out.bind_ok]
  rw [td_eq, ramp_eq]
  rw [chk16_ok _ _ (by omega) (by omega)]; simp only [Out.bind_ok]
  rw [chk16_ok _ _ (by omega) (by omega)]; simp only [Out.bind_ok]
  rw [td_eq, td_eq, clipd1_eq]
  simp only [Spec.AnnexJ.filter] at hr ⊢
  obtain ⟨⟨h1, h2⟩, ⟨h3, h4⟩, ⟨h5, h6⟩, ⟨h7, h8⟩⟩ := hr
  rw [chk16_ok _ _ (by omega) (by omega)]; simp only [Out.bind_ok]
  have hb2 : -320 ≤ b + Spec.AnnexJ.upDownRamp (Spec.AnnexJ.tdiv (a - 4 * b + 4 * c - d) 8) s ∧
      b + Spec.AnnexJ.upDownRamp (Spec.AnnexJ.tdiv (a - 4 * b + 4 * c - d) 8) s ≤ 600 := by omega
  have hc2 : -320 ≤ c - Spec.AnnexJ.upDownRamp (Spec.AnnexJ.tdiv (a - 4 * b + 4 * c - d) 8) s ∧
      c - Spec.AnnexJ.upDownRamp (Spec.AnnexJ.tdiv (a - 4 * b + 4 * c - d) 8) s ≤ 600 := by omega
  rw [chk16_ok _ _ (by omega) (by omega)]; simp only [Out.bind_ok]
  rw [chk16_ok _ _ (by omega) (by omega)]; simp only [Out.bind_ok]
  rw [chk16_ok _ _ (by omega) (by omega)]; simp only [Out.bind_ok]
  rw [clamp255_eq, clamp255_eq, asU8_id _ h1 h2, asU8_id _ h3 h4, asU8_id _ h5 h6, asU8_id _ h7 h8]

end H263V.Lemmas.Deblock

namespace H263V.Lemmas.Deblock
open H263V H263V.Deblock

theorem wrap16_id (x : Int) (h0 : -32768 ≤ x) (h1 : x ≤ 32767) : wrap16 x = x := by
  unfold wrap16; omega

theorem divPow2_3 (x : Int) (h0 : -32000 ≤ x) (h1 : x ≤ 32000) : divPow2Lane x 3 = Spec.AnnexJ.tdiv x 8 := by
  have e : ((2 : Int) ^ 3) = 8 := by decide
  simp only [divPow2Lane, Spec.AnnexJ.tdiv, wrap16, e]
  repeat' split
  all_goals omega

theorem divPow2_2 (x : Int) (h0 : -32000 ≤ x) (h1 : x ≤ 32000) : divPow2Lane x 2 = Spec.AnnexJ.tdiv x 4 := by
  have e : ((2 : Int) ^ 2) = 4 := by decide
  simp only [divPow2Lane, Spec.AnnexJ.tdiv, wrap16, e]
  repeat' split
  all_goals omega

theorem divPow2_1 (x : Int) (h0 : -32000 ≤ x) (h1 : x ≤ 32000) : divPow2Lane x 1 = Spec.AnnexJ.tdiv x 2 := by
  have e : ((2 : Int) ^ 1) = 2 := by decide
  simp only [divPow2Lane, Spec.AnnexJ.tdiv, wrap16, e]
  repeat' split
  all_goals omega

theorem signumLane_eq (x : Int) : signumLane x = Spec.AnnexJ.sign x := by
  simp only [signumLane, Spec.AnnexJ.sign, wrap16]
  repeat' split
  all_goals omega

theorem absLane_eq (x : Int) (h0 : -32000 ≤ x) (h1 : x ≤ 32000) : absLane x = Spec.AnnexJ.abs x := by
  simp only [absLane, iabs, Spec.AnnexJ.abs, wrap16]
  repeat' split
  all_goals omega

theorem rampLane_eq (x s : Int) (h0 : -400 ≤ x) (h1 : x ≤ 400) (hs0 : 1 ≤ s) (hs1 : s ≤ 12) :
    upDownRampLane x s = Spec.AnnexJ.upDownRamp x s := by
  unfold upDownRampLane
  rw [signumLane_eq, absLane_eq x (by omega) (by omega)]
  simp only [Spec.AnnexJ.upDownRamp, Spec.AnnexJ.sign, Spec.AnnexJ.abs, imax, wrap16, Int.max_def]
  repeat' split
  all_goals omega

theorem clipd1Lane_eq (x lim : Int) (hl0 : -400 ≤ lim) (hl1 : lim ≤ 400) :
    clipd1Lane x lim = Spec.AnnexJ.clip x (-(Spec.AnnexJ.abs lim)) (Spec.AnnexJ.abs lim) := by
  unfold clipd1Lane
  simp only [absLane_eq lim (by omega) (by omega)]
  simp only [clampI, imin, imax, Spec.AnnexJ.clip, Spec.AnnexJ.abs, wrap16]
  repeat' split
  all_goals omega

theorem tdiv2_bound (y : Int) (h0 : -400 ≤ y) (h1 : y ≤ 400) :
    -400 ≤ Spec.AnnexJ.tdiv y 2 ∧ Spec.AnnexJ.tdiv y 2 ≤ 400 := by
  simp only [Spec.AnnexJ.tdiv]; split <;> omega

theorem simd_eq_spec (a b c d s : Int) (ha : 0 ≤ a ∧ a ≤ 255) (hb : 0 ≤ b ∧ b ≤ 255) (hc : 0 ≤ c ∧ c ≤ 255)
    (hd : 0 ≤ d ∧ d ≤ 255) (hs : 1 ≤ s ∧ s ≤ 12) :
    processSimd a b c d s = .ok (Spec.AnnexJ.filter s a b c d) := by
  have hr := filter_range a b c d s ha hb hc hd hs
  obtain ⟨ha0, ha1⟩ := ha; obtain ⟨hb0, hb1⟩ := hb; obtain ⟨hc0, hc1⟩ := hc; obtain ⟨hd0, hd1⟩ := hd
  obtain ⟨hs0, hs1⟩ := hs
  have hsb : (!(decide (1 ≤ s) && decide (s ≤ 12))) = false := by simp [hs0, hs1]
  have hdd : -320 ≤ Spec.AnnexJ.tdiv (a - 4 * b + 4 * c - d) 8 ∧ Spec.AnnexJ.tdiv (a - 4 * b + 4 * c - d) 8 ≤ 320 := by
    simp only [Spec.AnnexJ.tdiv]; split <;> omega
  have hrb := ramp_bound (Spec.AnnexJ.tdiv (a - 4 * b + 4 * c - d) 8) s hs0
  have habs : Spec.AnnexJ.abs (Spec.AnnexJ.tdiv (a - 4 * b + 4 * c - d) 8) ≤ 320 := by
    simp only [Spec.AnnexJ.abs]; split <;> omega
  unfold processSimd
  simp only [hsb, Bool.false_eq_true, ↓reduceIte]
  unfold processLane
  have e1 : wrap16 (4 * b) = 4 * b := wrap16_id _ (by omega) (by omega)
  have e2 : wrap16 (4 * c) = 4 * c := wrap16_id _ (by omega) (by omega)
  have e3 : wrap16 (a - 4 * b) = a - 4 * b := wrap16_id _ (by omega) (by omega)
  have e4 : wrap16 (a - 4 * b + 4 * c) = a - 4 * b + 4 * c := wrap16_id _ (by omega) (by omega)
  have e5 : wrap16 (a - 4 * b + 4 * c - d) = a - 4 * b + 4 * c - d := wrap16_id _ (by omega) (by omega)
  have e6 : wrap16 (a - d) = a - d := wrap16_id _ (by omega) (by omega)
  simp only [e1, e2, e3, e4, e5, e6]
  rw [divPow2_3 _ (by omega) (by omega), rampLane_eq _ s (by omega) (by omega) hs0 hs1,
    divPow2_2 _ (by omega) (by omega), divPow2_1 _ (by omega) (by omega)]
  have ht : -400 ≤ Spec.AnnexJ.tdiv (Spec.AnnexJ.upDownRamp (Spec.AnnexJ.tdiv (a - 4 * b + 4 * c - d) 8) s) 2 ∧
      Spec.AnnexJ.tdiv (Spec.AnnexJ.upDownRamp (Spec.AnnexJ.tdiv (a - 4 * b + 4 * c - d) 8) s) 2 ≤ 400 :=
    tdiv2_bound _ (by omega) (by omega)
  rw [clipd1Lane_eq _ _ ht.1 ht.2]
  simp only [Spec.AnnexJ.filter] at hr ⊢
  obtain ⟨⟨h1, h2⟩, ⟨h3, h4⟩, ⟨h5, h6⟩, ⟨h7, h8⟩⟩ := hr
  rw [wrap16_id _ (by omega) (by omega), wrap16_id (b + _) (by omega) (by omega),
    wrap16_id (c - _) (by omega) (by omega), wrap16_id (d + _) (by omega) (by omega)]
  rw [clamp255_eq, clamp255_eq, asU8_id _ h1 h2, asU8_id _ h3 h4, asU8_id _ h5 h6, asU8_id _ h7 h8]

end H263V.Lemmas.Deblock
