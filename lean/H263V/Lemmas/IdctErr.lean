/-
A peak-error bound for the full 8x8 inverse transform that holds for EVERY coefficient block with entries of magnitude at most 2048:
the decoder's (soft-float binary32) result differs from the Annex A reference transform (exact arithmetic, nearest integer) by at
most one at every sample.  Forward error analysis over the rationals.
-/
import H263V.Lemmas.F32Err
import H263V.Lemmas.AnnexADefs
import H263V.Lemmas.RlePlacement
import Mathlib.Tactic.FieldSimp
namespace H263V.Lemmas.IdctErr
open H263V H263V.F32 H263V.Idct H263V.Rle H263V.Lemmas.F32Range H263V.Lemmas.F32Err

/-- the table entry as a rational -/
def bq (f i : Nat) : ℚ := val (basis f i)

/-- coefficient (row r, column c) of the block -/
def coefQ (d : List Int) (r c : Nat) : ℚ := ((d.getD (8 * r + c) 0 : Int) : ℚ)

/-- exact first pass: row `r` transformed along its columns -/
def T1 (d : List Int) (r i : Nat) : ℚ := ((List.range 8).map fun c => coefQ d r c * bq c i).sum

/-- exact second pass -/
def T2 (d : List Int) (x y : Nat) : ℚ := ((List.range 8).map fun r => T1 d r x * bq r y).sum

theorem getD_bound (d : List Int) (hb : ∀ v ∈ d, v.natAbs ≤ 2048) (k : Nat) : (d.getD k 0).natAbs ≤ 2048 := by
  rw [List.getD_eq_getElem?_getD]
  cases h : d[k]? with
  | none => simp
  | some v => simpa using hb v (List.mem_of_getElem? h)

theorem ofInt_bounds (v : Int) (hv : v.natAbs ≤ 2048) :
    |val (ofInt v) - (v : ℚ)| ≤ 2048 * u ∧ |val (ofInt v)| ≤ 2049 := by
  have hu := u_pos
  have hu1 : u ≤ 1 / 2048 := by unfold u; norm_num
  have h := ofInt_err v
  have hv' : |(v : ℚ)| ≤ 2048 := by rw [abs_cast]; exact_mod_cast hv
  have h1 : |val (ofInt v) - (v : ℚ)| ≤ 2048 * u := le_trans h (mul_le_mul_of_nonneg_right hv' (le_of_lt hu))
  refine ⟨h1, ?_⟩
  have := abs_add_le (val (ofInt v) - (v : ℚ)) (v : ℚ)
  simp only [sub_add_cancel] at this
  nlinarith

/-- error and magnitude after the first pass -/
def E1 : ℚ := 8 * (2048 * u + 27 * 2049 * u)
def M1 : ℚ := 24 * 2049
/-- error and magnitude after the second pass -/
def E2 : ℚ := 8 * (E1 + 27 * M1 * u)
def M2 : ℚ := 24 * M1

theorem pass1_err (d : List Int) (hb : ∀ v ∈ d, v.natAbs ≤ 2048) (r i : Nat) (hi : i < 8) :
    |val ((idct1d (Array.ofFn (n := 8) fun c => F32.ofInt (d.getD (8 * r + c.val) 0))).getD i F32.zero) - T1 d r i| ≤ E1 ∧
    |val ((idct1d (Array.ofFn (n := 8) fun c => F32.ofInt (d.getD (8 * r + c.val) 0))).getD i F32.zero)| ≤ M1 := by
  have hu := u_pos
  have h := idct1d_err (Array.ofFn (n := 8) fun c => F32.ofInt (d.getD (8 * r + c.val) 0)) (fun c => coefQ d r c) 2049 (2048 * u)
    (by norm_num) (by positivity)
    (by
      intro f hf
      rw [getD_ofFn, dif_pos hf]
      exact ofInt_bounds _ (getD_bound d hb _))
    i hi
  exact h

theorem getD_map' {α β : Type} (a : Array α) (f : α → β) (i : Nat) (hi : i < a.size) (da : α) (db : β) :
    (a.map f).getD i db = f (a.getD i da) := by
  simp [Array.getD_eq_getD_getElem?, Array.getElem?_map, Array.getElem?_eq_getElem hi]

/-- **the value fed to the final rounding**, for every sample of a full block: within `E2` of the exact two-pass sum -/
theorem full_value (d : List Int) (hb : ∀ v ∈ d, v.natAbs ≤ 2048) (x y : Nat) (hx : x < 8) (hy : y < 8) :
    ∃ X : F, |val X - T2 d x y| ≤ E2 ∧ |val X| ≤ M2 ∧
      ∀ res bad, blockResidual (.full d) = some (res, bad) → res x y = (finishFull X).1 := by
  have hu := u_pos
  -- the second-pass input row for column x
  let pass1 : Array (Array F) := Array.ofFn (n := 8) fun r =>
    idct1d (Array.ofFn (n := 8) fun c => F32.ofInt (d.getD (8 * r.val + c.val) 0))
  let row : Array F := Array.ofFn (n := 8) fun r => (pass1.getD r.val #[]).getD x F32.zero
  have hrow : ∀ r, r < 8 → |val (row.getD r F32.zero) - T1 d r x| ≤ E1 ∧ |val (row.getD r F32.zero)| ≤ M1 := by
    intro r hr
    show |val ((Array.ofFn (n := 8) fun r : Fin 8 => (pass1.getD r.val #[]).getD x F32.zero).getD r F32.zero) - _| ≤ _ ∧ _
    rw [getD_ofFn, dif_pos hr]
    show |val (((Array.ofFn (n := 8) fun r : Fin 8 =>
      idct1d (Array.ofFn (n := 8) fun c : Fin 8 => F32.ofInt (d.getD (8 * r.val + c.val) 0))).getD r #[]).getD x F32.zero) - _| ≤ _ ∧ _
    rw [getD_ofFn, dif_pos hr]
    exact pass1_err d hb r x hx
  have h2 := idct1d_err row (fun r => T1 d r x) M1 E1 (by unfold M1; norm_num) (by unfold E1; positivity) hrow y hy
  refine ⟨(idct1d row).getD y F32.zero, ?_, ?_, ?_⟩
  · exact h2.1
  · exact h2.2
  · intro res bad hres
    unfold blockResidual at hres
    simp only [Option.some.injEq, Prod.mk.injEq] at hres
    obtain ⟨hres, _⟩ := hres
    rw [← hres]
    simp only
    have hsz : (idct1d row).size = 8 := idct1d_size row
    rw [getD_map' _ _ x (by simp; exact hx) #[] #[]]
    rw [getD_ofFn, dif_pos hx]
    rw [getD_map' _ _ y (by rw [idct1d_size]; exact hy) F32.zero (0, false)]

/-- **the final rounding** `(x / 4.0 + x.signum() * 0.5) as i16`: within `1/2 + δ` of `x / 4` -/
theorem finish_bound (X : F) (M : ℚ) (hM : |val X| ≤ M) :
    |((trunc (add (quarter X) (halfSignum X)) : Int) : ℚ) - val X / 4| ≤ 1 / 2 + (M * u + u) := by
  have hu := u_pos
  have hu1 : u ≤ 1 / 16 := by unfold u; norm_num
  have hM0 : 0 ≤ M := le_trans (abs_nonneg _) hM
  have hq := quarter_err X
  have hr := add_err (quarter X) (halfSignum X)
  have hs := halfSignum_val X
  obtain ⟨tb1, tb2⟩ := trunc_bounds (add (quarter X) (halfSignum X))
  generalize val (add (quarter X) (halfSignum X)) = R at *
  generalize ((trunc (add (quarter X) (halfSignum X)) : Int) : ℚ) = t at *
  generalize val (quarter X) = Q at *
  generalize hsv : val (halfSignum X) = s at *
  by_cases hm : X.m < 0
  · rw [if_pos hm] at hs
    have hX : val X ≤ 0 := by
      unfold val
      have : (X.m : ℚ) ≤ 0 := by exact_mod_cast (le_of_lt hm)
      exact mul_nonpos_of_nonpos_of_nonneg this (le_of_lt (two_zpow_pos _))
    generalize val X = x at *
    have hxM : -M ≤ x := by have := abs_le.1 hM; linarith
    rw [abs_of_nonpos (by linarith : x / 4 ≤ 0)] at hq
    obtain ⟨q1, q2⟩ := abs_le.1 hq
    have hQ : Q ≤ 0 := by nlinarith
    have hQs : Q + s < 0 := by rw [hs]; linarith
    rw [abs_of_neg hQs] at hr
    obtain ⟨r1, r2⟩ := abs_le.1 hr
    have hR : R ≤ 0 := by nlinarith
    obtain ⟨t1, t2⟩ := tb2 hR
    rw [abs_le]
    constructor <;> nlinarith
  · rw [if_neg hm] at hs
    have hX : 0 ≤ val X := by
      unfold val
      have : (0 : ℚ) ≤ X.m := by exact_mod_cast (not_lt.1 hm)
      exact mul_nonneg this (le_of_lt (two_zpow_pos _))
    generalize val X = x at *
    have hxM : x ≤ M := by have := abs_le.1 hM; linarith
    rw [abs_of_nonneg (by linarith : 0 ≤ x / 4)] at hq
    obtain ⟨q1, q2⟩ := abs_le.1 hq
    have hQ : 0 ≤ Q := by nlinarith
    have hQs : 0 < Q + s := by rw [hs]; linarith
    rw [abs_of_pos hQs] at hr
    obtain ⟨r1, r2⟩ := abs_le.1 hr
    have hR : 0 ≤ R := by nlinarith
    obtain ⟨t1, t2⟩ := tb1 hR
    rw [abs_le]
    constructor <;> nlinarith

/-! ### the reference transform as rational sums -/

open H263V.Spec.AnnexA

/-- the ideal basis entry `C(u)/2 · cos((2x+1)uπ/16)` (40 decimal places) -/
def dm (u x : Nat) : ℚ := (dmat u x : ℚ) / (S : ℚ)

def R1 (d : List Int) (v x : Nat) : ℚ := ((List.range 8).map fun c => coefQ d v c * dm c x).sum
def R2 (d : List Int) (x y : Nat) : ℚ := ((List.range 8).map fun r => R1 d r x * dm r y).sum

theorem foldl_add_sum (f : Nat → Int) (l : List Nat) (a : Int) : l.foldl (fun a u => a + f u) a = a + (l.map f).sum := by
  induction l generalizing a with
  | nil => simp
  | cons x xs ih => simp only [List.foldl_cons, List.map_cons, List.sum_cons]; rw [ih]; ring

theorem S_pos : (0 : ℚ) < (S : ℚ) := by unfold S; norm_num

theorem cast_sum (l : List Nat) (f : Nat → Int) : (((l.map f).sum : Int) : ℚ) = (l.map fun k => (f k : ℚ)).sum := by
  induction l with
  | nil => simp
  | cons x xs ih => simp only [List.map_cons, List.sum_cons]; push_cast; rw [ih]

theorem sum_map_div (l : List Nat) (f : Nat → ℚ) (c : ℚ) : (l.map f).sum / c = (l.map fun k => f k / c).sum := by
  induction l with
  | nil => simp
  | cons x xs ih => simp only [List.map_cons, List.sum_cons, add_div, ih]

theorem inner_value (coef : Blk) (v x : Nat) (hv : v < 8) (hx : x < 8) :
    (((Array.ofFn (n := 64) fun i : Fin 64 =>
        (List.range 8).foldl (fun a u => a + dmat u (i.val % 8) * coef.getD (8 * (i.val / 8) + u) 0) 0).getD (8 * v + x) 0 : Int) : ℚ) /
      (S : ℚ) = R1 coef.toList v x := by
  rw [getD_ofFn, dif_pos (by omega)]
  simp only
  have e3 : (8 * v + x) / 8 = v := by omega
  have e4 : (8 * v + x) % 8 = x := by omega
  rw [e3, e4, foldl_add_sum, zero_add, cast_sum, sum_map_div]
  unfold R1
  refine congrArg List.sum (List.map_congr_left fun c _ => ?_)
  unfold coefQ dm
  push_cast
  have : coef.toList.getD (8 * v + c) 0 = coef.getD (8 * v + c) 0 := by
    simp [Array.getD_eq_getD_getElem?, List.getD_eq_getElem?_getD]
  rw [this]
  ring

/-- sample (x, y) of the reference transform is the nearest integer to `R2`, clipped -/
theorem ref_value (coef : Blk) (x y : Nat) (hx : x < 8) (hy : y < 8) :
    ∃ s : Int, (refIdct coef).getD (8 * y + x) 0 = clip (-256) 255 (roundDiv s (S * S)) ∧
      (s : ℚ) / ((S : ℚ) * (S : ℚ)) = R2 coef.toList x y := by
  unfold refIdct
  simp only
  rw [getD_ofFn, dif_pos (by omega)]
  simp only
  have e1 : (8 * y + x) / 8 = y := by omega
  have e2 : (8 * y + x) % 8 = x := by omega
  rw [e1, e2]
  refine ⟨_, rfl, ?_⟩
  rw [foldl_add_sum, zero_add, cast_sum, sum_map_div]
  unfold R2
  refine congrArg List.sum (List.map_congr_left fun v hv => ?_)
  rw [List.mem_range] at hv
  rw [← inner_value coef v x hv hx]
  unfold dm
  push_cast
  rw [mul_comm, mul_div_mul_comm]

/-- nearest-integer division: within one half of the quotient -/
theorem roundDiv_err (n d : Int) (hd : 0 < d) : |((roundDiv n d : Int) : ℚ) - (n : ℚ) / (d : ℚ)| ≤ 1 / 2 := by
  have hdq : (0 : ℚ) < d := by exact_mod_cast hd
  have key : ∀ k : Int, 0 ≤ k → |(((2 * k + d) / (2 * d) : Int) : ℚ) - (k : ℚ) / (d : ℚ)| ≤ 1 / 2 := by
    intro k _
    have h1 := Int.mul_ediv_add_emod (2 * k + d) (2 * d)
    have h2 := Int.emod_nonneg (2 * k + d) (show (2 * d) ≠ 0 by omega)
    have h3 := Int.emod_lt_of_pos (2 * k + d) (show 0 < 2 * d by omega)
    generalize (2 * k + d) / (2 * d) = q at *
    generalize (2 * k + d) % (2 * d) = r at *
    have h1q : (2 : ℚ) * d * q + r = 2 * k + d := by exact_mod_cast h1
    have h2q : (0 : ℚ) ≤ r := by exact_mod_cast h2
    have h3q : (r : ℚ) < 2 * d := by exact_mod_cast h3
    have hk : (k : ℚ) = (k : ℚ) / d * d := (div_mul_cancel₀ _ (ne_of_gt hdq)).symm
    generalize (k : ℚ) / d = z at hk ⊢
    have e : (q : ℚ) - z = (d - r) / (2 * d) := by
      rw [eq_div_iff (by positivity)]
      rw [hk] at h1q
      linarith
    rw [e, abs_le]
    constructor
    · rw [le_div_iff₀ (by positivity)]; linarith
    · rw [div_le_iff₀ (by positivity)]; linarith
  unfold roundDiv
  split
  · rename_i hn
    exact key n hn
  · rename_i hn
    have := key (-n) (by omega)
    push_cast at this ⊢
    rw [abs_le] at this ⊢
    obtain ⟨a, b⟩ := this
    rw [neg_div] at a b
    constructor <;> linarith

/-! ### the table against the ideal basis -/

/-- entry (u, x) of the regenerated table, halved, is within `9 · 2^-24` of `C(u)/2 · cos((2x+1)uπ/16)`: as an integer inequality -/
def tabClose (u x : Nat) : Bool :=
  let p := (Gen.BASIS.getD u #[]).getD x (0, 0)
  decide (p.2 ≤ 0) &&
  decide (-(18 * S * 2 ^ (-p.2).toNat) ≤ (p.1 * S - 2 * dmat u x * 2 ^ (-p.2).toNat) * 16777216) &&
  decide ((p.1 * S - 2 * dmat u x * 2 ^ (-p.2).toNat) * 16777216 ≤ 18 * S * 2 ^ (-p.2).toNat)

theorem tab_all : ∀ u, u < 8 → ∀ x, x < 8 → tabClose u x = true := by decide +kernel

theorem basis_val (u x : Nat) : bq u x =
    (((Gen.BASIS.getD u #[]).getD x (0, 0)).1 : ℚ) * 2 ^ ((Gen.BASIS.getD u #[]).getD x (0, 0)).2 := by
  unfold bq val basis
  rfl

theorem tab_close (u x : Nat) (hu : u < 8) (hx : x < 8) : |bq u x / 2 - dm u x| ≤ 9 * F32Err.u := by
  have h := tab_all u hu x hx
  unfold tabClose at h
  simp only [Bool.and_eq_true, decide_eq_true_eq] at h
  obtain ⟨⟨he, h1⟩, h2⟩ := h
  rw [basis_val]
  generalize (Gen.BASIS.getD u #[]).getD x (0, 0) = p at *
  unfold dm
  have hS := S_pos
  have hk : (2 : ℚ) ^ p.2 = 1 / 2 ^ (-p.2).toNat := by
    rw [zpow_toNat _ (by omega), zpow_neg, one_div, inv_inv]
  rw [hk]
  have hP : (0 : ℚ) < 2 ^ (-p.2).toNat := by positivity
  have h1q : -(18 * (S : ℚ) * 2 ^ (-p.2).toNat) ≤ ((p.1 : ℚ) * S - 2 * (dmat u x : ℚ) * 2 ^ (-p.2).toNat) * 16777216 := by
    exact_mod_cast h1
  have h2q : ((p.1 : ℚ) * S - 2 * (dmat u x : ℚ) * 2 ^ (-p.2).toNat) * 16777216 ≤ 18 * (S : ℚ) * 2 ^ (-p.2).toNat := by
    exact_mod_cast h2
  generalize (2 : ℚ) ^ (-p.2).toNat = P at *
  generalize (S : ℚ) = Sq at *
  generalize (dmat u x : ℚ) = D at *
  generalize (p.1 : ℚ) = m at *
  have e : m * (1 / P) / 2 - D / Sq = (m * Sq - 2 * D * P) / (2 * P * Sq) := by
    rw [div_sub_div _ _ (by positivity) (ne_of_gt hS), div_eq_div_iff (by positivity) (by positivity)]
    field_simp
  rw [e, abs_le]
  unfold F32Err.u
  constructor
  · rw [le_div_iff₀ (by positivity)]; nlinarith
  · rw [div_le_iff₀ (by positivity)]; nlinarith

/-! ### exact table sums against exact ideal sums -/

theorem sum_close (p p' q q' : Nat → ℚ) (α β P Q : ℚ) (hα : 0 ≤ α) (hβ : 0 ≤ β) (hP : 0 ≤ P) (hQ : 0 ≤ Q) :
    ∀ (l : List Nat), (∀ f ∈ l, |p f - p' f| ≤ α ∧ |q f - q' f| ≤ β ∧ |p f| ≤ P ∧ |q' f| ≤ Q) →
      |(l.map fun f => p f * q f).sum - (l.map fun f => p' f * q' f).sum| ≤ (l.length : ℚ) * (P * β + α * Q) := by
  intro l
  induction l with
  | nil => intro _; simp
  | cons f fs ih =>
    intro h
    obtain ⟨h1, h2, h3, h4⟩ := h f (by simp)
    have ih' := ih (fun g hg => h g (by simp [hg]))
    simp only [List.map_cons, List.sum_cons, List.length_cons]
    have e : p f * q f + (fs.map fun f => p f * q f).sum - (p' f * q' f + (fs.map fun f => p' f * q' f).sum) =
        (p f * (q f - q' f) + (p f - p' f) * q' f) + ((fs.map fun f => p f * q f).sum - (fs.map fun f => p' f * q' f).sum) := by ring
    rw [e]
    have t1 : |p f * (q f - q' f)| ≤ P * β := by rw [abs_mul]; exact mul_le_mul h3 h2 (abs_nonneg _) hP
    have t2 : |(p f - p' f) * q' f| ≤ α * Q := by rw [abs_mul]; exact mul_le_mul h1 h4 (abs_nonneg _) hα
    have := abs_add_three (p f * (q f - q' f)) ((p f - p' f) * q' f)
      ((fs.map fun f => p f * q f).sum - (fs.map fun f => p' f * q' f).sum)
    rw [add_assoc] at this ⊢
    push_cast
    rw [← add_assoc] at this ⊢
    linarith

theorem sum_bound (p q : Nat → ℚ) (P Q : ℚ) (hP : 0 ≤ P) :
    ∀ (l : List Nat), (∀ f ∈ l, |p f| ≤ P ∧ |q f| ≤ Q) → |(l.map fun f => p f * q f).sum| ≤ (l.length : ℚ) * (P * Q) := by
  intro l
  induction l with
  | nil => intro _; simp
  | cons f fs ih =>
    intro h
    obtain ⟨h1, h2⟩ := h f (by simp)
    have ih' := ih (fun g hg => h g (by simp [hg]))
    simp only [List.map_cons, List.sum_cons, List.length_cons]
    have t1 : |p f * q f| ≤ P * Q := by rw [abs_mul]; exact mul_le_mul h1 h2 (abs_nonneg _) hP
    have := abs_add_le (p f * q f) (fs.map fun f => p f * q f).sum
    push_cast
    linarith

theorem coefQ_abs (d : List Int) (hb : ∀ v ∈ d, v.natAbs ≤ 2048) (r c : Nat) : |coefQ d r c| ≤ 2048 := by
  unfold coefQ
  rw [abs_cast]
  exact_mod_cast getD_bound d hb _

/-- the distance between the exact table-based value and the ideal value -/
def TAU : ℚ := 8 * ((8 * (2048 * (1 / 2))) * (9 * u) + (8 * (2048 * (9 * u))) * 1)

theorem table_vs_ideal (d : List Int) (hb : ∀ v ∈ d, v.natAbs ≤ 2048) (x y : Nat) (hx : x < 8) (hy : y < 8) :
    |T2 d x y / 4 - R2 d x y| ≤ TAU := by
  have hu := u_pos
  have hu1 : 9 * u ≤ 1 / 2 := by unfold u; norm_num
  have hbq : ∀ f i, |bq f i / 2| ≤ 1 / 2 := by
    intro f i
    rw [abs_div, abs_of_pos (by norm_num : (0 : ℚ) < 2)]
    have := basis_abs f i
    unfold bq
    linarith
  have hdm : ∀ f i, f < 8 → i < 8 → |dm f i| ≤ 1 := by
    intro f i hf hi
    have h1 := tab_close f i hf hi
    have h2 := hbq f i
    have := abs_sub_abs_le_abs_sub (dm f i) (bq f i / 2)
    rw [abs_sub_comm] at h1
    linarith
  -- first pass
  have hin : ∀ r, |T1 d r x / 2 - R1 d r x| ≤ 8 * (2048 * (9 * u)) ∧ |T1 d r x / 2| ≤ 8 * (2048 * (1 / 2)) := by
    intro r
    have e1 : T1 d r x / 2 = ((List.range 8).map fun c => coefQ d r c * (bq c x / 2)).sum := by
      unfold T1
      rw [sum_map_div]
      refine congrArg List.sum (List.map_congr_left fun c _ => ?_)
      ring
    rw [e1]
    constructor
    · have := sum_close (fun c => coefQ d r c) (fun c => coefQ d r c) (fun c => bq c x / 2) (fun c => dm c x) 0 (9 * u) 2048 1
        (le_refl _) (by positivity) (by norm_num) (by norm_num) (List.range 8)
        (by
          intro c hc
          rw [List.mem_range] at hc
          exact ⟨by simp, tab_close c x hc hx, coefQ_abs d hb r c, hdm c x hc hx⟩)
      simp only [List.length_range] at this
      unfold R1
      have e : ((8 : Nat) : ℚ) * (2048 * (9 * u) + 0 * 1) = 8 * (2048 * (9 * u)) := by push_cast; ring
      rw [e] at this
      exact this
    · have := sum_bound (fun c => coefQ d r c) (fun c => bq c x / 2) 2048 (1 / 2) (by norm_num) (List.range 8)
        (by intro c _; exact ⟨coefQ_abs d hb r c, hbq c x⟩)
      simp only [List.length_range] at this
      exact_mod_cast this
  have e2 : T2 d x y / 4 = ((List.range 8).map fun r => (T1 d r x / 2) * (bq r y / 2)).sum := by
    unfold T2
    rw [sum_map_div]
    refine congrArg List.sum (List.map_congr_left fun r _ => ?_)
    ring
  rw [e2]
  have := sum_close (fun r => T1 d r x / 2) (fun r => R1 d r x) (fun r => bq r y / 2) (fun r => dm r y)
    (8 * (2048 * (9 * u))) (9 * u) (8 * (2048 * (1 / 2))) 1 (by positivity) (by positivity) (by norm_num) (by norm_num) (List.range 8)
    (by
      intro r hr
      rw [List.mem_range] at hr
      exact ⟨(hin r).1, tab_close r y hr hy, (hin r).2, hdm r y hr hy⟩)
  simp only [List.length_range] at this
  unfold R2 TAU
  exact_mod_cast this

/-! ### assembly -/

open H263V.Lemmas.AnnexA in
/-- **Peak error of the full transform, for every block.**  For every 8x8 coefficient block with entries of magnitude at most 2048
the decoder's inverse transform (soft-float binary32 model of the `Full` path: two passes of `idct_1d`, `/ 4.0`, rounding by
`+ signum * 0.5` and truncation, clamp) differs from the Annex A reference transform (exact arithmetic with 40-digit cosines,
nearest integer, clipped to -256..255) by at most 1 at every sample. -/
theorem full_within_one (coef : Blk) (hb : ∀ v ∈ coef.toList, v.natAbs ≤ 2048) (i : Nat) (hi : i < 64) :
    ((modelIdct coef).getD i 0 - (refIdct coef).getD i 0).natAbs ≤ 1 := by
  have hx : i % 8 < 8 := Nat.mod_lt _ (by norm_num)
  have hy : i / 8 < 8 := by omega
  obtain ⟨X, hX1, hX2, hX3⟩ := full_value coef.toList hb (i % 8) (i / 8) hx hy
  obtain ⟨s, hs1, hs2⟩ := ref_value coef (i % 8) (i / 8) hx hy
  have hi8 : 8 * (i / 8) + i % 8 = i := by omega
  rw [hi8] at hs1
  -- the model's sample
  have hmodel : (modelIdct coef).getD i 0 = toI16Clamp (add (quarter X) (halfSignum X)) := by
    unfold modelIdct
    cases hres : blockResidual (.full coef.toList) with
    | none => unfold blockResidual at hres; simp at hres
    | some rb =>
      obtain ⟨res, bad⟩ := rb
      simp only
      rw [getD_ofFn, dif_pos hi]
      simp only
      rw [hX3 res bad hres]
      rfl
  rw [hmodel, hs1]
  -- the two integers before clamping
  have hfin := finish_bound X M2 hX2
  have hrd := roundDiv_err s (S * S) (by unfold S; norm_num)
  have htab := table_vs_ideal coef.toList hb (i % 8) (i / 8) hx hy
  have hSS : ((S * S : Int) : ℚ) = (S : ℚ) * (S : ℚ) := by push_cast; rfl
  rw [hSS, hs2] at hrd
  have hnum : 1 / 2 + (M2 * u + u) + E2 / 4 + TAU + 1 / 2 < 2 := by
    simp only [M2, M1, E2, E1, TAU, u]; norm_num
  have hclose : |((trunc (add (quarter X) (halfSignum X)) : Int) : ℚ) - ((roundDiv s (S * S) : Int) : ℚ)| < 2 := by
    have e : ((trunc (add (quarter X) (halfSignum X)) : Int) : ℚ) - ((roundDiv s (S * S) : Int) : ℚ) =
        (((trunc (add (quarter X) (halfSignum X)) : Int) : ℚ) - val X / 4) + (val X / 4 - T2 coef.toList (i % 8) (i / 8) / 4) +
        (T2 coef.toList (i % 8) (i / 8) / 4 - R2 coef.toList (i % 8) (i / 8)) +
        (R2 coef.toList (i % 8) (i / 8) - ((roundDiv s (S * S) : Int) : ℚ)) := by ring
    rw [e]
    have h4 : |val X / 4 - T2 coef.toList (i % 8) (i / 8) / 4| ≤ E2 / 4 := by
      rw [← sub_div, abs_div, abs_of_pos (by norm_num : (0 : ℚ) < 4)]
      exact div_le_div_of_nonneg_right hX1 (by norm_num)
    rw [abs_sub_comm] at hrd
    have a1 := abs_add_le ((((trunc (add (quarter X) (halfSignum X)) : Int) : ℚ) - val X / 4) +
      (val X / 4 - T2 coef.toList (i % 8) (i / 8) / 4) + (T2 coef.toList (i % 8) (i / 8) / 4 - R2 coef.toList (i % 8) (i / 8)))
      (R2 coef.toList (i % 8) (i / 8) - ((roundDiv s (S * S) : Int) : ℚ))
    have a2 := abs_add_three (((trunc (add (quarter X) (halfSignum X)) : Int) : ℚ) - val X / 4)
      (val X / 4 - T2 coef.toList (i % 8) (i / 8) / 4) (T2 coef.toList (i % 8) (i / 8) / 4 - R2 coef.toList (i % 8) (i / 8))
    linarith
  have hint : (trunc (add (quarter X) (halfSignum X)) - roundDiv s (S * S)).natAbs ≤ 1 := by
    have : |(((trunc (add (quarter X) (halfSignum X)) - roundDiv s (S * S) : Int)) : ℚ)| < 2 := by
      push_cast; exact hclose
    rw [← Int.cast_abs] at this
    have h2 : |trunc (add (quarter X) (halfSignum X)) - roundDiv s (S * S)| < 2 := by exact_mod_cast this
    rw [abs_lt] at h2
    omega
  unfold toI16Clamp clip
  simp only
  generalize trunc (add (quarter X) (halfSignum X)) = t at hint ⊢
  generalize roundDiv s (S * S) = n at hint ⊢
  split <;> split <;> (try split) <;> (try split) <;> omega

/-! ### the first-row and first-column shortcuts -/

/-- `finish_bound` when the sign is taken from another value of the same sign (the shortcuts round `x * B00 / 4` with `x.signum()`) -/
theorem finish_bound' (Y X : F) (M : ℚ) (hM : |val Y| ≤ M) (hneg : X.m < 0 → val Y ≤ 0) (hpos : ¬ X.m < 0 → 0 ≤ val Y) :
    |((trunc (add (quarter Y) (halfSignum X)) : Int) : ℚ) - val Y / 4| ≤ 1 / 2 + (M * u + u) := by
  have hu := u_pos
  have hu1 : u ≤ 1 / 16 := by unfold u; norm_num
  have hM0 : 0 ≤ M := le_trans (abs_nonneg _) hM
  have hq := quarter_err Y
  have hr := add_err (quarter Y) (halfSignum X)
  have hs := halfSignum_val X
  obtain ⟨tb1, tb2⟩ := trunc_bounds (add (quarter Y) (halfSignum X))
  generalize val (add (quarter Y) (halfSignum X)) = R at *
  generalize ((trunc (add (quarter Y) (halfSignum X)) : Int) : ℚ) = t at *
  generalize val (quarter Y) = Q at *
  generalize hsv : val (halfSignum X) = s at *
  by_cases hm : X.m < 0
  · rw [if_pos hm] at hs
    have hX := hneg hm
    generalize val Y = x at *
    have hxM : -M ≤ x := by have := abs_le.1 hM; linarith
    rw [abs_of_nonpos (by linarith : x / 4 ≤ 0)] at hq
    obtain ⟨q1, q2⟩ := abs_le.1 hq
    have hQ : Q ≤ 0 := by nlinarith
    have hQs : Q + s < 0 := by rw [hs]; linarith
    rw [abs_of_neg hQs] at hr
    obtain ⟨r1, r2⟩ := abs_le.1 hr
    have hR : R ≤ 0 := by nlinarith
    obtain ⟨t1, t2⟩ := tb2 hR
    rw [abs_le]
    constructor <;> nlinarith
  · rw [if_neg hm] at hs
    have hX := hpos hm
    generalize val Y = x at *
    have hxM : x ≤ M := by have := abs_le.1 hM; linarith
    rw [abs_of_nonneg (by linarith : 0 ≤ x / 4)] at hq
    obtain ⟨q1, q2⟩ := abs_le.1 hq
    have hQ : 0 ≤ Q := by nlinarith
    have hQs : 0 < Q + s := by rw [hs]; linarith
    rw [abs_of_pos hQs] at hr
    obtain ⟨r1, r2⟩ := abs_le.1 hr
    have hR : 0 ≤ R := by nlinarith
    obtain ⟨t1, t2⟩ := tb1 hR
    rw [abs_le]
    constructor <;> nlinarith

theorem getD_map_ofInt (l : List Int) (f : Nat) : (l.toArray.map F32.ofInt).getD f F32.zero = F32.ofInt (l.getD f 0) := by
  by_cases hf : f < l.length
  · simp [Array.getD_eq_getD_getElem?, List.getD_eq_getElem?_getD, hf]
  · have h1 : (l.toArray.map F32.ofInt).getD f F32.zero = F32.zero := by
      simp [Array.getD_eq_getD_getElem?, hf]
    have h2 : l.getD f 0 = 0 := by simp [List.getD_eq_getElem?_getD, hf]
    rw [h1, h2]; rfl

theorem bq00_pos : 0 < bq 0 0 := by
  rw [basis_val]
  have : (Gen.BASIS.getD 0 #[]).getD 0 (0, 0) = (11863283, -24) ∨ 0 < ((Gen.BASIS.getD 0 #[]).getD 0 (0, 0)).1 := by
    right; decide +kernel
  rcases this with h | h
  · rw [h]; positivity
  · have : (0 : ℚ) < (((Gen.BASIS.getD 0 #[]).getD 0 (0, 0)).1 : ℚ) := by exact_mod_cast h
    exact mul_pos this (two_zpow_pos _)

theorem bq0_const (y : Nat) (hy : y < 8) : bq 0 y = bq 0 0 := by
  rw [basis_val, basis_val]
  have : ∀ y, y < 8 → (Gen.BASIS.getD 0 #[]).getD y (0, 0) = (Gen.BASIS.getD 0 #[]).getD 0 (0, 0) := by decide +kernel
  rw [this y hy]

/-- the value the shortcuts round: `idct_1d` of the eight coefficients at position `p`, times `B00` -/
theorem line_value (l : List Int) (hb : ∀ v ∈ l, v.natAbs ≤ 2048) (p : Nat) (hp : p < 8) :
    ∃ X Y : F, Y = mul X (basis 0 0) ∧ |val Y - T1 l 0 p * bq 0 0| ≤ M1 * u + E1 ∧ |val Y| ≤ 2 * M1 ∧
      (X.m < 0 → val Y ≤ 0) ∧ (¬ X.m < 0 → 0 ≤ val Y) ∧
      ((idct1d (l.toArray.map F32.ofInt)).map finishRow).getD p (0, false) =
        (toI16Clamp (add (quarter Y) (halfSignum X)), (add (quarter Y) (halfSignum X)).bad) := by
  have hu := u_pos
  have hu1 : u ≤ 1 := by unfold u; norm_num
  have h := idct1d_err (l.toArray.map F32.ofInt) (fun c => coefQ l 0 c) 2049 (2048 * u) (by norm_num) (by positivity)
    (by
      intro f _
      rw [getD_map_ofInt]
      have : coefQ l 0 f = ((l.getD f 0 : Int) : ℚ) := by unfold coefQ; simp
      rw [this]
      exact ofInt_bounds _ (getD_bound l hb _))
    p hp
  obtain ⟨h1, h2⟩ := h
  refine ⟨(idct1d (l.toArray.map F32.ofInt)).getD p F32.zero, mul ((idct1d (l.toArray.map F32.ofInt)).getD p F32.zero) (basis 0 0),
    rfl, ?_, ?_, ?_, ?_, ?_⟩
  all_goals generalize hX : (idct1d (l.toArray.map F32.ofInt)).getD p F32.zero = X at *
  · have hm := mul_err X (basis 0 0)
    have hb0 := basis_abs 0 0
    have hprod : |val X * val (basis 0 0)| ≤ M1 := by
      rw [abs_mul]
      calc |val X| * |val (basis 0 0)| ≤ M1 * 1 := mul_le_mul h2 hb0 (abs_nonneg _) (by unfold M1; norm_num)
        _ = M1 := mul_one _
    have hm' : |val (mul X (basis 0 0)) - val X * val (basis 0 0)| ≤ M1 * u :=
      le_trans hm (mul_le_mul_of_nonneg_right hprod (le_of_lt hu))
    have hd : |val X * val (basis 0 0) - T1 l 0 p * bq 0 0| ≤ E1 := by
      unfold bq
      rw [← sub_mul, abs_mul]
      calc |val X - T1 l 0 p| * |val (basis 0 0)| ≤ E1 * 1 := mul_le_mul h1 hb0 (abs_nonneg _) (by unfold E1; positivity)
        _ = E1 := mul_one _
    have t : val (mul X (basis 0 0)) - T1 l 0 p * bq 0 0 =
        (val (mul X (basis 0 0)) - val X * val (basis 0 0)) + (val X * val (basis 0 0) - T1 l 0 p * bq 0 0) := by ring
    rw [t]
    have := abs_add_le (val (mul X (basis 0 0)) - val X * val (basis 0 0)) (val X * val (basis 0 0) - T1 l 0 p * bq 0 0)
    linarith
  · have hm := mul_err X (basis 0 0)
    have hb0 := basis_abs 0 0
    have hprod : |val X * val (basis 0 0)| ≤ M1 := by
      rw [abs_mul]
      calc |val X| * |val (basis 0 0)| ≤ M1 * 1 := mul_le_mul h2 hb0 (abs_nonneg _) (by unfold M1; norm_num)
        _ = M1 := mul_one _
    have := abs_add_le (val (mul X (basis 0 0)) - val X * val (basis 0 0)) (val X * val (basis 0 0))
    simp only [sub_add_cancel] at this
    have hM1 : 0 ≤ M1 := by unfold M1; norm_num
    nlinarith
  · intro hneg
    have hm := mul_err X (basis 0 0)
    have hb0 := bq00_pos
    unfold bq at hb0
    have hx : val X ≤ 0 := by
      unfold val
      have : (X.m : ℚ) ≤ 0 := by exact_mod_cast (le_of_lt hneg)
      exact mul_nonpos_of_nonpos_of_nonneg this (le_of_lt (two_zpow_pos _))
    have hp0 : val X * val (basis 0 0) ≤ 0 := mul_nonpos_of_nonpos_of_nonneg hx (le_of_lt hb0)
    rw [abs_of_nonpos hp0] at hm
    obtain ⟨_, m2⟩ := abs_le.1 hm
    nlinarith
  · intro hpos
    have hm := mul_err X (basis 0 0)
    have hb0 := bq00_pos
    unfold bq at hb0
    have hx : 0 ≤ val X := by
      unfold val
      have : (0 : ℚ) ≤ X.m := by exact_mod_cast (not_lt.1 hpos)
      exact mul_nonneg this (le_of_lt (two_zpow_pos _))
    have hp0 : 0 ≤ val X * val (basis 0 0) := mul_nonneg hx (le_of_lt hb0)
    rw [abs_of_nonneg hp0] at hm
    obtain ⟨m1, _⟩ := abs_le.1 hm
    nlinarith
  · rw [getD_map' _ _ p (by rw [idct1d_size]; exact hp) F32.zero (0, false), hX]
    rfl

/-- one exact table-based line against the ideal line -/
theorem line_close (d : List Int) (hb : ∀ v ∈ d, v.natAbs ≤ 2048) (r x : Nat) (hx : x < 8) :
    |T1 d r x / 2 - R1 d r x| ≤ 8 * (2048 * (9 * u)) ∧ |T1 d r x / 2| ≤ 8 * (2048 * (1 / 2)) := by
  have hu := u_pos
  have hu1 : 9 * u ≤ 1 / 2 := by unfold u; norm_num
  have hbq : ∀ f i, |bq f i / 2| ≤ 1 / 2 := by
    intro f i
    rw [abs_div, abs_of_pos (by norm_num : (0 : ℚ) < 2)]
    have := basis_abs f i
    unfold bq
    linarith
  have hdm : ∀ f i, f < 8 → i < 8 → |dm f i| ≤ 1 := by
    intro f i hf hi
    have h1 := tab_close f i hf hi
    have h2 := hbq f i
    have := abs_sub_abs_le_abs_sub (dm f i) (bq f i / 2)
    rw [abs_sub_comm] at h1
    linarith
  have e1 : T1 d r x / 2 = ((List.range 8).map fun c => coefQ d r c * (bq c x / 2)).sum := by
    unfold T1
    rw [sum_map_div]
    refine congrArg List.sum (List.map_congr_left fun c _ => ?_)
    ring
  rw [e1]
  constructor
  · have := sum_close (fun c => coefQ d r c) (fun c => coefQ d r c) (fun c => bq c x / 2) (fun c => dm c x) 0 (9 * u) 2048 1
      (le_refl _) (by positivity) (by norm_num) (by norm_num) (List.range 8)
      (by
        intro c hc
        rw [List.mem_range] at hc
        exact ⟨by simp, tab_close c x hc hx, coefQ_abs d hb r c, hdm c x hc hx⟩)
    simp only [List.length_range] at this
    unfold R1
    have e : ((8 : Nat) : ℚ) * (2048 * (9 * u) + 0 * 1) = 8 * (2048 * (9 * u)) := by push_cast; ring
    rw [e] at this
    exact this
  · have := sum_bound (fun c => coefQ d r c) (fun c => bq c x / 2) 2048 (1 / 2) (by norm_num) (List.range 8)
      (by intro c _; exact ⟨coefQ_abs d hb r c, hbq c x⟩)
    simp only [List.length_range] at this
    exact_mod_cast this

/-- the shortcut value at line position `p`, against a reference sample whose ideal value is `R1 l 0 p * dm 0 q` -/
theorem line_core (l : List Int) (hb : ∀ v ∈ l, v.natAbs ≤ 2048) (p q : Nat) (hp : p < 8) (hq : q < 8) (s : Int)
    (hs : (s : ℚ) / ((S : ℚ) * (S : ℚ)) = R1 l 0 p * dm 0 q) :
    ((((idct1d (l.toArray.map F32.ofInt)).map finishRow).getD p (0, false)).1 - clip (-256) 255 (roundDiv s (S * S))).natAbs ≤ 1 := by
  have hu := u_pos
  obtain ⟨X, Y, _, hY1, hY2, hneg, hpos, hval⟩ := line_value l hb p hp
  rw [hval]
  simp only
  have hfin := finish_bound' Y X (2 * M1) hY2 hneg hpos
  have hrd := roundDiv_err s (S * S) (by unfold S; norm_num)
  have hSS : ((S * S : Int) : ℚ) = (S : ℚ) * (S : ℚ) := by push_cast; rfl
  rw [hSS, hs] at hrd
  obtain ⟨lc1, lc2⟩ := line_close l hb 0 p hp
  have htc := tab_close 0 q (by norm_num) hq
  rw [bq0_const q hq] at htc
  have hdmq : |dm 0 q| ≤ 1 := by
    have h2 : |bq 0 0 / 2| ≤ 1 / 2 := by
      rw [abs_div, abs_of_pos (by norm_num : (0 : ℚ) < 2)]
      have := basis_abs 0 0
      unfold bq
      linarith
    have := abs_sub_abs_le_abs_sub (dm 0 q) (bq 0 0 / 2)
    rw [abs_sub_comm] at htc
    have hu1 : 9 * u ≤ 1 / 2 := by unfold u; norm_num
    linarith
  -- exact table value against the ideal value
  have htab : |T1 l 0 p * bq 0 0 / 4 - R1 l 0 p * dm 0 q| ≤ 8 * (2048 * (1 / 2)) * (9 * u) + 8 * (2048 * (9 * u)) * 1 := by
    have e : T1 l 0 p * bq 0 0 / 4 - R1 l 0 p * dm 0 q =
        (T1 l 0 p / 2) * (bq 0 0 / 2 - dm 0 q) + (T1 l 0 p / 2 - R1 l 0 p) * dm 0 q := by ring
    rw [e]
    have t1 : |(T1 l 0 p / 2) * (bq 0 0 / 2 - dm 0 q)| ≤ 8 * (2048 * (1 / 2)) * (9 * u) := by
      rw [abs_mul]; exact mul_le_mul lc2 htc (abs_nonneg _) (by norm_num)
    have t2 : |(T1 l 0 p / 2 - R1 l 0 p) * dm 0 q| ≤ 8 * (2048 * (9 * u)) * 1 := by
      rw [abs_mul]; exact mul_le_mul lc1 hdmq (abs_nonneg _) (by positivity)
    have := abs_add_le ((T1 l 0 p / 2) * (bq 0 0 / 2 - dm 0 q)) ((T1 l 0 p / 2 - R1 l 0 p) * dm 0 q)
    linarith
  have hnum : 1 / 2 + (2 * M1 * u + u) + (M1 * u + E1) / 4 + (8 * (2048 * (1 / 2)) * (9 * u) + 8 * (2048 * (9 * u)) * 1) + 1 / 2 < 2 := by
    simp only [M1, E1, u]; norm_num
  have hclose : |((trunc (add (quarter Y) (halfSignum X)) : Int) : ℚ) - ((roundDiv s (S * S) : Int) : ℚ)| < 2 := by
    have e : ((trunc (add (quarter Y) (halfSignum X)) : Int) : ℚ) - ((roundDiv s (S * S) : Int) : ℚ) =
        (((trunc (add (quarter Y) (halfSignum X)) : Int) : ℚ) - val Y / 4) + (val Y / 4 - T1 l 0 p * bq 0 0 / 4) +
        (T1 l 0 p * bq 0 0 / 4 - R1 l 0 p * dm 0 q) + (R1 l 0 p * dm 0 q - ((roundDiv s (S * S) : Int) : ℚ)) := by ring
    rw [e]
    have h4 : |val Y / 4 - T1 l 0 p * bq 0 0 / 4| ≤ (M1 * u + E1) / 4 := by
      rw [← sub_div, abs_div, abs_of_pos (by norm_num : (0 : ℚ) < 4)]
      exact div_le_div_of_nonneg_right hY1 (by norm_num)
    rw [abs_sub_comm] at hrd
    have a1 := abs_add_le ((((trunc (add (quarter Y) (halfSignum X)) : Int) : ℚ) - val Y / 4) +
      (val Y / 4 - T1 l 0 p * bq 0 0 / 4) + (T1 l 0 p * bq 0 0 / 4 - R1 l 0 p * dm 0 q))
      (R1 l 0 p * dm 0 q - ((roundDiv s (S * S) : Int) : ℚ))
    have a2 := abs_add_three (((trunc (add (quarter Y) (halfSignum X)) : Int) : ℚ) - val Y / 4)
      (val Y / 4 - T1 l 0 p * bq 0 0 / 4) (T1 l 0 p * bq 0 0 / 4 - R1 l 0 p * dm 0 q)
    linarith
  have hint : (trunc (add (quarter Y) (halfSignum X)) - roundDiv s (S * S)).natAbs ≤ 1 := by
    have : |(((trunc (add (quarter Y) (halfSignum X)) - roundDiv s (S * S) : Int)) : ℚ)| < 2 := by
      push_cast; exact hclose
    rw [← Int.cast_abs] at this
    have h2 : |trunc (add (quarter Y) (halfSignum X)) - roundDiv s (S * S)| < 2 := by exact_mod_cast this
    rw [abs_lt] at h2
    omega
  unfold toI16Clamp clip
  simp only
  generalize trunc (add (quarter Y) (halfSignum X)) = t at hint ⊢
  generalize roundDiv s (S * S) = n at hint ⊢
  split <;> split <;> (try split) <;> (try split) <;> omega

/-- the 8x8 block whose first row is `l` (index 8*row + column) -/
def rowBlock (l : List Int) : Blk := Array.ofFn (n := 64) fun i => if i.val / 8 = 0 then l.getD (i.val % 8) 0 else 0
/-- the 8x8 block whose first column is `l` -/
def colBlock (l : List Int) : Blk := Array.ofFn (n := 64) fun i => if i.val % 8 = 0 then l.getD (i.val / 8) 0 else 0

theorem sum_range8 (f : Nat → ℚ) : ((List.range 8).map f).sum = f 0 + f 1 + f 2 + f 3 + f 4 + f 5 + f 6 + f 7 := by
  have : List.range 8 = [0, 1, 2, 3, 4, 5, 6, 7] := by decide
  rw [this]
  simp only [List.map_cons, List.map_nil, List.sum_cons, List.sum_nil]
  ring

theorem coefQ_toList (b : Blk) (r c : Nat) : coefQ b.toList r c = ((b.getD (8 * r + c) 0 : Int) : ℚ) := by
  unfold coefQ
  simp [Array.getD_eq_getD_getElem?, List.getD_eq_getElem?_getD]

theorem rowBlock_coef (l : List Int) (r c : Nat) (hr : r < 8) (hc : c < 8) :
    coefQ (rowBlock l).toList r c = if r = 0 then coefQ l 0 c else 0 := by
  rw [coefQ_toList]
  unfold rowBlock
  rw [getD_ofFn, dif_pos (by omega)]
  simp only
  have e1 : (8 * r + c) / 8 = r := by omega
  have e2 : (8 * r + c) % 8 = c := by omega
  rw [e1, e2]
  unfold coefQ
  split <;> simp

theorem colBlock_coef (l : List Int) (r c : Nat) (hr : r < 8) (hc : c < 8) :
    coefQ (colBlock l).toList r c = if c = 0 then coefQ l 0 r else 0 := by
  rw [coefQ_toList]
  unfold colBlock
  rw [getD_ofFn, dif_pos (by omega)]
  simp only
  have e1 : (8 * r + c) / 8 = r := by omega
  have e2 : (8 * r + c) % 8 = c := by omega
  rw [e1, e2]
  unfold coefQ
  split <;> simp

theorem R2_rowBlock (l : List Int) (x y : Nat) : R2 (rowBlock l).toList x y = R1 l 0 x * dm 0 y := by
  have h0 : R1 (rowBlock l).toList 0 x = R1 l 0 x := by
    unfold R1
    refine congrArg List.sum (List.map_congr_left fun c hc => ?_)
    rw [List.mem_range] at hc
    rw [rowBlock_coef l 0 c (by norm_num) hc]; simp
  have hz : ∀ r, 1 ≤ r → r < 8 → R1 (rowBlock l).toList r x = 0 := by
    intro r h1 h8
    unfold R1
    have : ((List.range 8).map fun c => coefQ (rowBlock l).toList r c * dm c x) = (List.range 8).map fun _ => (0 : ℚ) := by
      refine List.map_congr_left fun c hc => ?_
      rw [List.mem_range] at hc
      rw [rowBlock_coef l r c h8 hc, if_neg (by omega)]; simp
    rw [this]; simp
  unfold R2
  rw [sum_range8, h0, hz 1 (by norm_num) (by norm_num), hz 2 (by norm_num) (by norm_num), hz 3 (by norm_num) (by norm_num),
    hz 4 (by norm_num) (by norm_num), hz 5 (by norm_num) (by norm_num), hz 6 (by norm_num) (by norm_num), hz 7 (by norm_num) (by norm_num)]
  ring

theorem R2_colBlock (l : List Int) (x y : Nat) : R2 (colBlock l).toList x y = R1 l 0 y * dm 0 x := by
  have h1 : ∀ r, r < 8 → R1 (colBlock l).toList r x = coefQ l 0 r * dm 0 x := by
    intro r hr
    unfold R1
    rw [sum_range8]
    rw [colBlock_coef l r 0 hr (by norm_num), colBlock_coef l r 1 hr (by norm_num), colBlock_coef l r 2 hr (by norm_num),
      colBlock_coef l r 3 hr (by norm_num), colBlock_coef l r 4 hr (by norm_num), colBlock_coef l r 5 hr (by norm_num),
      colBlock_coef l r 6 hr (by norm_num), colBlock_coef l r 7 hr (by norm_num)]
    simp
  unfold R2
  have : ((List.range 8).map fun r => R1 (colBlock l).toList r x * dm r y) =
      (List.range 8).map fun r => (coefQ l 0 r * dm r y) * dm 0 x := by
    refine List.map_congr_left fun r hr => ?_
    rw [List.mem_range] at hr
    rw [h1 r hr]; ring
  rw [this]
  unfold R1
  rw [sum_range8, sum_range8]
  ring

open H263V.Lemmas.AnnexA in
/-- **first-row shortcut, every block of its shape** -/
theorem horiz_within_one (l : List Int) (hb : ∀ v ∈ l, v.natAbs ≤ 2048) (i : Nat) (hi : i < 64) :
    ((shapeIdct (.horiz l)).getD i 0 - (refIdct (rowBlock l)).getD i 0).natAbs ≤ 1 := by
  have hx : i % 8 < 8 := Nat.mod_lt _ (by norm_num)
  have hy : i / 8 < 8 := by omega
  obtain ⟨s, hs1, hs2⟩ := ref_value (rowBlock l) (i % 8) (i / 8) hx hy
  have hi8 : 8 * (i / 8) + i % 8 = i := by omega
  rw [hi8] at hs1
  rw [R2_rowBlock] at hs2
  rw [hs1]
  have hm : (shapeIdct (.horiz l)).getD i 0 = (((idct1d (l.toArray.map F32.ofInt)).map finishRow).getD (i % 8) (0, false)).1 := by
    unfold shapeIdct blockResidual
    simp only
    rw [getD_ofFn, dif_pos hi]
  rw [hm]
  exact line_core l hb (i % 8) (i / 8) hx hy s hs2

open H263V.Lemmas.AnnexA in
/-- **first-column shortcut, every block of its shape** -/
theorem vert_within_one (l : List Int) (hb : ∀ v ∈ l, v.natAbs ≤ 2048) (i : Nat) (hi : i < 64) :
    ((shapeIdct (.vert l)).getD i 0 - (refIdct (colBlock l)).getD i 0).natAbs ≤ 1 := by
  have hx : i % 8 < 8 := Nat.mod_lt _ (by norm_num)
  have hy : i / 8 < 8 := by omega
  obtain ⟨s, hs1, hs2⟩ := ref_value (colBlock l) (i % 8) (i / 8) hx hy
  have hi8 : 8 * (i / 8) + i % 8 = i := by omega
  rw [hi8] at hs1
  rw [R2_colBlock] at hs2
  rw [hs1]
  have hm : (shapeIdct (.vert l)).getD i 0 = (((idct1d (l.toArray.map F32.ofInt)).map finishRow).getD (i / 8) (0, false)).1 := by
    unfold shapeIdct blockResidual
    simp only
    rw [getD_ofFn, dif_pos hi]
  rw [hm]
  exact line_core l hb (i / 8) (i % 8) hy hx s hs2

/-! ### the DC shortcut -/

theorem bq00_val : bq 0 0 = 11863283 / 16777216 := by
  rw [basis_val]
  have : (Gen.BASIS.getD 0 #[]).getD 0 (0, 0) = (11863283, -24) := by decide +kernel
  rw [this]
  norm_num

/-- the 8x8 block with only the DC coefficient -/
def dcBlock (v : Int) : Blk := (Array.replicate 64 (0 : Int)).set! 0 v

theorem dcBlock_coef (v : Int) (r c : Nat) : coefQ (dcBlock v).toList r c = if 8 * r + c = 0 then (v : ℚ) else 0 := by
  rw [coefQ_toList]
  unfold dcBlock
  by_cases h : 8 * r + c = 0
  · rw [if_pos h, h]; simp [Array.getD_eq_getD_getElem?, Array.set!_eq_setIfInBounds]
  · rw [if_neg h]
    simp only [Array.getD_eq_getD_getElem?, Array.set!_eq_setIfInBounds, Array.getElem?_setIfInBounds]
    rw [if_neg (by omega)]
    by_cases hk : 8 * r + c < 64
    · simp [hk]
    · simp [hk]

theorem R2_dcBlock (v : Int) (x y : Nat) : R2 (dcBlock v).toList x y = (v : ℚ) * dm 0 x * dm 0 y := by
  have h0 : R1 (dcBlock v).toList 0 x = (v : ℚ) * dm 0 x := by
    unfold R1
    rw [sum_range8]
    simp only [dcBlock_coef]
    norm_num
  have hz : ∀ r, 1 ≤ r → R1 (dcBlock v).toList r x = 0 := by
    intro r h1
    unfold R1
    rw [sum_range8]
    simp only [dcBlock_coef]
    rw [if_neg (by omega), if_neg (by omega), if_neg (by omega), if_neg (by omega), if_neg (by omega), if_neg (by omega),
      if_neg (by omega), if_neg (by omega)]
    ring
  unfold R2
  rw [sum_range8, h0, hz 1 (by norm_num), hz 2 (by norm_num), hz 3 (by norm_num), hz 4 (by norm_num), hz 5 (by norm_num),
    hz 6 (by norm_num), hz 7 (by norm_num)]
  ring

theorem prod_near (a b : ℚ) (ha : |11863283 / 16777216 / 2 - a| ≤ 9 * u) (hb : |11863283 / 16777216 / 2 - b| ≤ 9 * u) :
    |1 / 8 - a * b| ≤ 14 * u := by
  have hu := u_pos
  have hc : |(11863283 / 16777216 / 2 : ℚ)| ≤ 9 / 25 := by rw [abs_of_pos (by norm_num)]; norm_num
  have hu9 : 9 * u ≤ 1 / 100 := by unfold u; norm_num
  have haa : |a| ≤ 37 / 100 := by
    have := abs_sub_abs_le_abs_sub a (11863283 / 16777216 / 2)
    rw [abs_sub_comm] at ha
    linarith
  have e : 1 / 8 - a * b = (1 / 8 - (11863283 / 16777216 / 2) * (11863283 / 16777216 / 2)) +
      (a * (11863283 / 16777216 / 2 - b) + (11863283 / 16777216 / 2) * (11863283 / 16777216 / 2 - a)) := by ring
  rw [e]
  have t0 : |(1 / 8 - (11863283 / 16777216 / 2) * (11863283 / 16777216 / 2) : ℚ)| ≤ u := by
    unfold u; rw [abs_le]; constructor <;> norm_num
  have t1 : |a * (11863283 / 16777216 / 2 - b)| ≤ 37 / 100 * (9 * u) := by
    rw [abs_mul]; exact mul_le_mul haa hb (abs_nonneg _) (by norm_num)
  have t2 : |(11863283 / 16777216 / 2 : ℚ) * (11863283 / 16777216 / 2 - a)| ≤ 9 / 25 * (9 * u) := by
    rw [abs_mul]; exact mul_le_mul hc ha (abs_nonneg _) (by norm_num)
  have := abs_add_three (1 / 8 - (11863283 / 16777216 / 2) * (11863283 / 16777216 / 2) : ℚ)
    (a * (11863283 / 16777216 / 2 - b)) ((11863283 / 16777216 / 2) * (11863283 / 16777216 / 2 - a))
  rw [add_assoc] at this
  linarith

/-- the DC shortcut against a reference sample whose ideal value is `v * dm 0 p * dm 0 q` -/
theorem dc_core (v : Int) (hv : v.natAbs ≤ 2048) (p q : Nat) (hx : p < 8) (hy : q < 8) (s : Int)
    (hs2 : (s : ℚ) / ((S : ℚ) * (S : ℚ)) = (v : ℚ) * dm 0 p * dm 0 q) :
    ((finishDc v).1 - clip (-256) 255 (roundDiv s (S * S))).natAbs ≤ 1 := by
  have hu := u_pos
  have hu1 : u ≤ 1 / 16 := by unfold u; norm_num
  unfold finishDc
  simp only
  -- the value before rounding
  obtain ⟨o1, o2⟩ := ofInt_bounds v hv
  have hvq : |(v : ℚ)| ≤ 2048 := by rw [abs_cast]; exact_mod_cast hv
  have hhalf : val (⟨1, -1, false⟩ : F) = 1 / 2 := by simp [val]
  have hm1 := mul_err (F32.ofInt v) ⟨1, -1, false⟩
  rw [hhalf] at hm1
  generalize hX : F32.ofInt v = X at *
  generalize hY : mul X ⟨1, -1, false⟩ = Y at *
  have hYb : |val Y - (v : ℚ) / 2| ≤ 2049 * u := by
    have e : val Y - (v : ℚ) / 2 = (val Y - val X * (1 / 2)) + (val X - (v : ℚ)) * (1 / 2) := by ring
    rw [e]
    have t1 : |val X * (1 / 2)| ≤ 2049 / 2 := by rw [abs_mul, abs_of_pos (by norm_num : (0 : ℚ) < 1 / 2)]; linarith
    have t2 : |(val X - (v : ℚ)) * (1 / 2)| ≤ 2048 * u / 2 := by rw [abs_mul, abs_of_pos (by norm_num : (0 : ℚ) < 1 / 2)]; linarith
    have hm1' : |val Y - val X * (1 / 2)| ≤ 2049 / 2 * u := le_trans hm1 (mul_le_mul_of_nonneg_right t1 (le_of_lt hu))
    have := abs_add_le (val Y - val X * (1 / 2)) ((val X - (v : ℚ)) * (1 / 2))
    linarith
  have hYm : |val Y| ≤ 1026 := by
    have := abs_add_le (val Y - (v : ℚ) / 2) ((v : ℚ) / 2)
    simp only [sub_add_cancel] at this
    have h1024 : |(v : ℚ) / 2| ≤ 1024 := by rw [abs_div, abs_of_pos (by norm_num : (0 : ℚ) < 2)]; linarith
    have : 2049 * u ≤ 1 := by unfold u; norm_num
    linarith
  have hsx : (X.m < 0 → val Y ≤ 0) ∧ (¬ X.m < 0 → 0 ≤ val Y) := by
    constructor
    · intro hneg
      have hx0 : val X ≤ 0 := by
        unfold val
        have : (X.m : ℚ) ≤ 0 := by exact_mod_cast (le_of_lt hneg)
        exact mul_nonpos_of_nonpos_of_nonneg this (le_of_lt (two_zpow_pos _))
      rw [abs_of_nonpos (by linarith : val X * (1 / 2) ≤ 0)] at hm1
      obtain ⟨_, m2⟩ := abs_le.1 hm1
      have h3 : -(val X * (1 / 2)) * u ≤ -(val X * (1 / 2)) * 1 :=
        mul_le_mul_of_nonneg_left (by linarith) (by linarith)
      linarith
    · intro hpos
      have hx0 : 0 ≤ val X := by
        unfold val
        have : (0 : ℚ) ≤ X.m := by exact_mod_cast (not_lt.1 hpos)
        exact mul_nonneg this (le_of_lt (two_zpow_pos _))
      rw [abs_of_nonneg (by linarith : 0 ≤ val X * (1 / 2))] at hm1
      obtain ⟨m1, _⟩ := abs_le.1 hm1
      have h3 : val X * (1 / 2) * u ≤ val X * (1 / 2) * 1 :=
        mul_le_mul_of_nonneg_left (by linarith) (by linarith)
      linarith
  have hfin := finish_bound' Y X 1026 hYm hsx.1 hsx.2
  have hrd := roundDiv_err s (S * S) (by unfold S; norm_num)
  have hSS : ((S * S : Int) : ℚ) = (S : ℚ) * (S : ℚ) := by push_cast; rfl
  rw [hSS, hs2] at hrd
  have hc1 := tab_close 0 p (by norm_num) hx
  have hc2 := tab_close 0 q (by norm_num) hy
  rw [bq0_const _ hx, bq00_val] at hc1
  rw [bq0_const _ hy, bq00_val] at hc2
  have hideal : |(v : ℚ) / 8 - (v : ℚ) * dm 0 p * dm 0 q| ≤ 2048 * (14 * u) := by
    generalize dm 0 p = a at *
    generalize dm 0 q = b at *
    have hab : |1 / 8 - a * b| ≤ 14 * u := prod_near a b hc1 hc2
    have e : (v : ℚ) / 8 - (v : ℚ) * a * b = (v : ℚ) * (1 / 8 - a * b) := by ring
    rw [e, abs_mul]
    exact mul_le_mul hvq hab (abs_nonneg _) (by norm_num)
  have hnum : 1 / 2 + (1026 * u + u) + 2049 * u / 4 + 2048 * (14 * u) + 1 / 2 < 2 := by unfold u; norm_num
  have hclose : |((trunc (add (quarter Y) (halfSignum X)) : Int) : ℚ) - ((roundDiv s (S * S) : Int) : ℚ)| < 2 := by
    have e : ((trunc (add (quarter Y) (halfSignum X)) : Int) : ℚ) - ((roundDiv s (S * S) : Int) : ℚ) =
        (((trunc (add (quarter Y) (halfSignum X)) : Int) : ℚ) - val Y / 4) + (val Y / 4 - (v : ℚ) / 8) +
        ((v : ℚ) / 8 - (v : ℚ) * dm 0 p * dm 0 q) +
        ((v : ℚ) * dm 0 p * dm 0 q - ((roundDiv s (S * S) : Int) : ℚ)) := by ring
    rw [e]
    have h4 : |val Y / 4 - (v : ℚ) / 8| ≤ 2049 * u / 4 := by
      have e2 : val Y / 4 - (v : ℚ) / 8 = (val Y - (v : ℚ) / 2) / 4 := by ring
      rw [e2, abs_div, abs_of_pos (by norm_num : (0 : ℚ) < 4)]
      exact div_le_div_of_nonneg_right hYb (by norm_num)
    rw [abs_sub_comm] at hrd
    have a1 := abs_add_le ((((trunc (add (quarter Y) (halfSignum X)) : Int) : ℚ) - val Y / 4) + (val Y / 4 - (v : ℚ) / 8) +
      ((v : ℚ) / 8 - (v : ℚ) * dm 0 p * dm 0 q))
      ((v : ℚ) * dm 0 p * dm 0 q - ((roundDiv s (S * S) : Int) : ℚ))
    have a2 := abs_add_three (((trunc (add (quarter Y) (halfSignum X)) : Int) : ℚ) - val Y / 4) (val Y / 4 - (v : ℚ) / 8)
      ((v : ℚ) / 8 - (v : ℚ) * dm 0 p * dm 0 q)
    linarith
  have hint : (trunc (add (quarter Y) (halfSignum X)) - roundDiv s (S * S)).natAbs ≤ 1 := by
    have : |(((trunc (add (quarter Y) (halfSignum X)) - roundDiv s (S * S) : Int)) : ℚ)| < 2 := by
      push_cast; exact hclose
    rw [← Int.cast_abs] at this
    have h2 : |trunc (add (quarter Y) (halfSignum X)) - roundDiv s (S * S)| < 2 := by exact_mod_cast this
    rw [abs_lt] at h2
    omega
  unfold toI16Clamp clip
  simp only
  generalize trunc (add (quarter Y) (halfSignum X)) = t at hint ⊢
  generalize roundDiv s (S * S) = n at hint ⊢
  split <;> split <;> (try split) <;> (try split) <;> omega

open H263V.Lemmas.AnnexA in
/-- **DC shortcut, every DC value** (by error analysis; the same statement is also evaluated over all 4095 values by `dc_only_peak`) -/
theorem dc_within_one (v : Int) (hv : v.natAbs ≤ 2048) (i : Nat) (hi : i < 64) :
    ((shapeIdct (.dc v)).getD i 0 - (refIdct (dcBlock v)).getD i 0).natAbs ≤ 1 := by
  have hx : i % 8 < 8 := Nat.mod_lt _ (by norm_num)
  have hy : i / 8 < 8 := by omega
  obtain ⟨s, hs1, hs2⟩ := ref_value (dcBlock v) (i % 8) (i / 8) hx hy
  have hi8 : 8 * (i / 8) + i % 8 = i := by omega
  rw [hi8] at hs1
  rw [R2_dcBlock] at hs2
  rw [hs1]
  have hm : (shapeIdct (.dc v)).getD i 0 = (finishDc v).1 := by
    unfold shapeIdct blockResidual
    simp only
    rw [getD_ofFn, dif_pos hi]
  rw [hm]
  exact dc_core v hv (i % 8) (i / 8) hx hy s hs2

/-! ### every block shape at once -/

theorem R2_row_gen (d l : List Int) (hc : ∀ r c, r < 8 → c < 8 → coefQ d r c = if r = 0 then coefQ l 0 c else 0) (x y : Nat) :
    R2 d x y = R1 l 0 x * dm 0 y := by
  have h0 : R1 d 0 x = R1 l 0 x := by
    unfold R1
    refine congrArg List.sum (List.map_congr_left fun c hcc => ?_)
    rw [List.mem_range] at hcc
    rw [hc 0 c (by norm_num) hcc]; simp
  have hz : ∀ r, 1 ≤ r → r < 8 → R1 d r x = 0 := by
    intro r h1 h8
    unfold R1
    have : ((List.range 8).map fun c => coefQ d r c * dm c x) = (List.range 8).map fun _ => (0 : ℚ) := by
      refine List.map_congr_left fun c hcc => ?_
      rw [List.mem_range] at hcc
      rw [hc r c h8 hcc, if_neg (by omega)]; simp
    rw [this]; simp
  unfold R2
  rw [sum_range8, h0, hz 1 (by norm_num) (by norm_num), hz 2 (by norm_num) (by norm_num), hz 3 (by norm_num) (by norm_num),
    hz 4 (by norm_num) (by norm_num), hz 5 (by norm_num) (by norm_num), hz 6 (by norm_num) (by norm_num), hz 7 (by norm_num) (by norm_num)]
  ring

theorem R2_col_gen (d l : List Int) (hc : ∀ r c, r < 8 → c < 8 → coefQ d r c = if c = 0 then coefQ l 0 r else 0) (x y : Nat) :
    R2 d x y = R1 l 0 y * dm 0 x := by
  have h1 : ∀ r, r < 8 → R1 d r x = coefQ l 0 r * dm 0 x := by
    intro r hr
    unfold R1
    rw [sum_range8]
    rw [hc r 0 hr (by norm_num), hc r 1 hr (by norm_num), hc r 2 hr (by norm_num), hc r 3 hr (by norm_num),
      hc r 4 hr (by norm_num), hc r 5 hr (by norm_num), hc r 6 hr (by norm_num), hc r 7 hr (by norm_num)]
    simp
  unfold R2
  have : ((List.range 8).map fun r => R1 d r x * dm r y) = (List.range 8).map fun r => (coefQ l 0 r * dm r y) * dm 0 x := by
    refine List.map_congr_left fun r hr => ?_
    rw [List.mem_range] at hr
    rw [h1 r hr]; ring
  rw [this]
  unfold R1
  rw [sum_range8, sum_range8]
  ring

open H263V.Lemmas.RlePlacement in
theorem expand_getD_horiz (row : List Int) (k : Nat) (hk : k < 64) :
    (expand (.horiz row)).getD k 0 = if k < 8 then row.getD k 0 else 0 := by
  unfold expand
  simp [List.getD_eq_getElem?_getD, List.getElem?_map, List.getElem?_range, hk]

open H263V.Lemmas.RlePlacement in
theorem expand_getD_vert (col : List Int) (k : Nat) (hk : k < 64) :
    (expand (.vert col)).getD k 0 = if k % 8 = 0 then col.getD (k / 8) 0 else 0 := by
  unfold expand
  simp [List.getD_eq_getElem?_getD, List.getElem?_map, List.getElem?_range, hk]

open H263V.Lemmas.RlePlacement in
theorem expand_getD_dc (v : Int) (k : Nat) (hk : k < 64) : (expand (.dc v)).getD k 0 = if k = 0 then v else 0 := by
  unfold expand
  rw [List.getD_eq_getElem?_getD]
  by_cases h0 : k = 0
  · subst h0; rfl
  · rw [if_neg h0, List.getElem?_set_ne (by omega), List.getElem?_replicate, if_pos hk]; rfl

open H263V.Lemmas.AnnexA H263V.Lemmas.RlePlacement in
/-- **Every block shape.**  Whatever shape `inverse_rle` stored (C11: it stands for the 64 levels `expand b`), with entries of
magnitude at most 2048: every sample of the residual the decoder adds is within 1 of the reference inverse transform of those 64
levels. -/
theorem residual_within_one (b : Dct) (hb : Dct.Bounded b) (res : Nat → Nat → Int) (bad : Bool)
    (h : blockResidual b = some (res, bad)) (x y : Nat) (hx : x < 8) (hy : y < 8) :
    (res x y - (refIdct (expand b).toArray).getD (8 * y + x) 0).natAbs ≤ 1 := by
  obtain ⟨s, hs1, hs2⟩ := ref_value (expand b).toArray x y hx hy
  rw [hs1]
  have htl : (expand b).toArray.toList = expand b := by simp
  rw [htl] at hs2
  cases b with
  | zero => simp [blockResidual] at h
  | dc v =>
    have hv : v.natAbs ≤ 2048 := hb
    have hR : R2 (expand (.dc v)) x y = (v : ℚ) * dm 0 x * dm 0 y := by
      have := R2_row_gen (expand (.dc v)) [v] (by
        intro r c hr hc
        unfold coefQ
        rw [expand_getD_dc v _ (by omega)]
        by_cases hr0 : r = 0
        · subst hr0
          by_cases hc0 : c = 0
          · subst hc0; simp
          · rw [if_neg (by omega), if_pos rfl]
            obtain ⟨j, rfl⟩ : ∃ j, c = j + 1 := ⟨c - 1, by omega⟩
            simp
        · rw [if_neg (by omega), if_neg hr0]; simp) x y
      rw [this]
      unfold R1
      rw [sum_range8]
      unfold coefQ
      simp
    rw [hR] at hs2
    have := dc_core v hv x y hx hy s hs2
    unfold blockResidual at h
    simp only [Option.some.injEq, Prod.mk.injEq] at h
    rw [← h.1]
    exact this
  | horiz row =>
    have hrb : ∀ v ∈ row, v.natAbs ≤ 2048 := hb
    have hR : R2 (expand (.horiz row)) x y = R1 row 0 x * dm 0 y :=
      R2_row_gen _ row (by
        intro r c hr hc
        unfold coefQ
        rw [expand_getD_horiz row _ (by omega)]
        by_cases hr0 : r = 0
        · subst hr0; simp [hc]
        · rw [if_neg (by omega), if_neg hr0]; simp) x y
    rw [hR] at hs2
    have := line_core row hrb x y hx hy s hs2
    unfold blockResidual at h
    simp only [Option.some.injEq, Prod.mk.injEq] at h
    rw [← h.1]
    exact this
  | vert col =>
    have hcb : ∀ v ∈ col, v.natAbs ≤ 2048 := hb
    have hR : R2 (expand (.vert col)) x y = R1 col 0 y * dm 0 x :=
      R2_col_gen _ col (by
        intro r c hr hc
        unfold coefQ
        rw [expand_getD_vert col _ (by omega)]
        have e1 : (8 * r + c) / 8 = r := by omega
        have e2 : (8 * r + c) % 8 = c := by omega
        rw [e1, e2]
        by_cases hc0 : c = 0
        · simp [hc0]
        · simp [hc0]) x y
    rw [hR] at hs2
    have := line_core col hcb y x hy hx s hs2
    unfold blockResidual at h
    simp only [Option.some.injEq, Prod.mk.injEq] at h
    rw [← h.1]
    exact this
  | full d =>
    have hdb : ∀ v ∈ d, v.natAbs ≤ 2048 := hb
    have := full_within_one d.toArray (by simpa using hdb) (8 * y + x) (by omega)
    have e1 : (8 * y + x) / 8 = y := by omega
    have e2 : (8 * y + x) % 8 = x := by omega
    have hm : (modelIdct d.toArray).getD (8 * y + x) 0 = res x y := by
      unfold modelIdct
      have : d.toArray.toList = d := by simp
      rw [this, h]
      simp only
      rw [getD_ofFn, dif_pos (by omega)]
      simp only [e1, e2]
    rw [hm] at this
    have he : expand (.full d) = d := rfl
    rw [he] at hs1
    rw [← hs1]
    exact this

end H263V.Lemmas.IdctErr
