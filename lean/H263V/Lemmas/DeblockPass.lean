/-
The two in-place passes of `deblock` equal the pointwise Annex J specification, for every image size.
Invariant: after the edges / columns (rows / chunks) processed so far, every sample is either its original value or the
filtered value computed from the *original* four samples — the four samples of one application are touched by no other.
-/
import H263V.Lemmas.DeblockImg
import H263V.Spec.AnnexJ
namespace H263V.Lemmas.DeblockPass
open H263V H263V.Deblock H263V.Lemmas.DeblockImg H263V.Spec.AnnexJ

theorem getD_set (img : Img) (i v j : Nat) : (img.setIfInBounds i v).getD j 0 = if i = j ∧ j < img.size then v else img.getD j 0 := by
  simp only [Array.getD_eq_getD_getElem?, Array.getElem?_setIfInBounds]
  by_cases h : i = j
  · subst h
    by_cases hj : i < img.size
    · simp [hj]
    · simp [hj]
  · simp [h]

theorem getD_lt (img : Img) (hb : Bytes img) (j : Nat) : img.getD j 0 < 256 := by
  by_cases hj : j < img.size
  · rw [Array.getD_eq_getD_getElem?, Array.getElem?_eq_getElem hj]; exact hb j hj
  · rw [Array.getD_eq_getD_getElem?, Array.getElem?_eq_none (by omega)]; decide

/-- one application of a kernel, scalar or vector lane: the four samples become the Annex J filter of their old values,
every other sample is unchanged -/
theorem applyAt_spec (useSimd : Bool) (img : Img) (hbytes : Bytes img) (ia ib ic id s : Nat)
    (ha : ia < img.size) (hb : ib < img.size) (hc : ic < img.size) (hd : id < img.size)
    (hab : ia < ib) (hbc : ib < ic) (hcd : ic < id) (hs : 1 ≤ s ∧ s ≤ 12) :
    ∃ img', applyAt useSimd img ia ib ic id s = .ok img' ∧ img'.size = img.size ∧ Bytes img' ∧
      ∀ j, img'.getD j 0 =
        let F := filter s (img.getD ia 0 : Nat) (img.getD ib 0 : Nat) (img.getD ic 0 : Nat) (img.getD id 0 : Nat)
        if j = ia then F.1.toNat else if j = ib then F.2.1.toNat else if j = ic then F.2.2.1.toNat
        else if j = id then F.2.2.2.toNat else img.getD j 0 := by
  unfold applyAt
  simp only [Array.getElem?_eq_getElem ha, Array.getElem?_eq_getElem hb, Array.getElem?_eq_getElem hc,
    Array.getElem?_eq_getElem hd]
  have ha' : (0 : Int) ≤ (img[ia] : Nat) ∧ ((img[ia] : Nat) : Int) ≤ 255 := by have := hbytes ia ha; omega
  have hb' : (0 : Int) ≤ (img[ib] : Nat) ∧ ((img[ib] : Nat) : Int) ≤ 255 := by have := hbytes ib hb; omega
  have hc' : (0 : Int) ≤ (img[ic] : Nat) ∧ ((img[ic] : Nat) : Int) ≤ 255 := by have := hbytes ic hc; omega
  have hd' : (0 : Int) ≤ (img[id] : Nat) ∧ ((img[id] : Nat) : Int) ≤ 255 := by have := hbytes id hd; omega
  have hs' : (1 : Int) ≤ s ∧ (s : Int) ≤ 12 := by omega
  have hk : (if useSimd then processSimd img[ia] img[ib] img[ic] img[id] s else processScalar img[ia] img[ib] img[ic] img[id] s) =
      .ok (filter s img[ia] img[ib] img[ic] img[id]) := by
    cases useSimd
    · simpa using Lemmas.Deblock.scalar_eq_spec _ _ _ _ s ha' hb' hc' hd' hs'
    · simpa using Lemmas.Deblock.simd_eq_spec _ _ _ _ s ha' hb' hc' hd' hs'
  have hr := Lemmas.Deblock.filter_range _ _ _ _ s ha' hb' hc' hd' hs'
  rw [hk]
  simp only [Out.bind_ok]
  have ga : img.getD ia 0 = img[ia] := by rw [Array.getD_eq_getD_getElem?, Array.getElem?_eq_getElem ha]; rfl
  have gb : img.getD ib 0 = img[ib] := by rw [Array.getD_eq_getD_getElem?, Array.getElem?_eq_getElem hb]; rfl
  have gc : img.getD ic 0 = img[ic] := by rw [Array.getD_eq_getD_getElem?, Array.getElem?_eq_getElem hc]; rfl
  have gd : img.getD id 0 = img[id] := by rw [Array.getD_eq_getD_getElem?, Array.getElem?_eq_getElem hd]; rfl
  simp only [ga, gb, gc, gd]
  generalize filter s img[ia] img[ib] img[ic] img[id] = F at hr ⊢
  obtain ⟨f1, f2, f3, f4⟩ := F
  simp only at hr ⊢
  refine ⟨_, rfl, by simp, ?_, ?_⟩
  · exact bytes_set _ (bytes_set _ (bytes_set _ (bytes_set _ hbytes _ _ (by omega)) _ _ (by omega)) _ _ (by omega)) _ _ (by omega)
  · intro j
    simp only [getD_set, Array.size_setIfInBounds]
    by_cases h1 : j = id
    · subst h1
      have : ¬ (j = ia) := by omega
      have : ¬ (j = ib) := by omega
      have : ¬ (j = ic) := by omega
      simp [*]
    · by_cases h2 : j = ic
      · subst h2
        have : ¬ (j = ia) := by omega
        have : ¬ (j = ib) := by omega
        have : ¬ (id = j) := by omega
        simp [*]
      · by_cases h3 : j = ib
        · subst h3
          have : ¬ (j = ia) := by omega
          have : ¬ (ic = j) := by omega
          have : ¬ (id = j) := by omega
          simp [*]
        · by_cases h4 : j = ia
          · subst h4
            have : ¬ (ib = j) := by omega
            have : ¬ (ic = j) := by omega
            have : ¬ (id = j) := by omega
            simp [*]
          · have : ¬ (ia = j) := fun h => h4 h.symm
            have : ¬ (ib = j) := fun h => h3 h.symm
            have : ¬ (ic = j) := fun h => h2 h.symm
            have : ¬ (id = j) := fun h => h1 h.symm
            simp [*]


/-! ### facts about `edgeOf` and raster indices -/

theorem edgeOf_some (y n e : Nat) (h : edgeOf y n = some e) : e % 8 = 0 ∧ 8 ≤ e ∧ e ≤ y + 2 ∧ y ≤ e + 1 ∧ e + 2 ≤ n := by
  unfold edgeOf at h
  simp only at h
  split at h
  · simp only [Option.some.injEq] at h; omega
  · simp at h

theorem edgeOf_at (e n k : Nat) (he : e % 8 = 0) (h8 : 8 ≤ e) (hn : e + 2 ≤ n) (hk : k ≤ 3) : edgeOf (e - 2 + k) n = some e := by
  unfold edgeOf
  simp only
  have : (e - 2 + k + 2) / 8 * 8 = e := by omega
  rw [this, if_pos (by omega)]

theorem idx_div (a w x : Nat) (hx : x < w) : (a * w + x) / w = a ∧ (a * w + x) % w = x := by
  have hw : 0 < w := by omega
  constructor
  · rw [Nat.mul_comm, Nat.mul_add_div hw, Nat.div_eq_of_lt hx]; omega
  · rw [Nat.mul_comm, Nat.mul_add_mod, Nat.mod_eq_of_lt hx]

theorem idx_lt_size (a w x h n : Nat) (hx : x < w) (ha : a < h) (hn : h * w ≤ n) : a * w + x < n := by
  have h1 : (a + 1) * w ≤ h * w := Nat.mul_le_mul_right w (by omega)
  rw [Nat.add_mul, Nat.one_mul] at h1
  omega

/-! ### horizontal edges -/

/-- the filtered value of sample `i` at the horizontal edge `e` -/
def hval (orig : Img) (w s e i : Nat) : Nat :=
  (pick (filter s (px orig w (i % w) (e - 2)) (px orig w (i % w) (e - 1)) (px orig w (i % w) e) (px orig w (i % w) (e + 1)))
    (i / w - (e - 2))).toNat

/-- sample `i` once every edge below `E` and the columns below `X` of edge `E` have been filtered -/
def hpix (orig : Img) (w s E X i : Nat) : Nat :=
  match edgeOf (i / w) (orig.size / w) with
  | some e => if e < E ∨ (e = E ∧ i % w < X) then hval orig w s e i else orig.getD i 0
  | none => orig.getD i 0

def HState (orig : Img) (w s E X : Nat) (img : Img) : Prop :=
  img.size = orig.size ∧ Bytes img ∧ ∀ i, img.getD i 0 = hpix orig w s E X i

theorem pick_cases (r : Int × Int × Int × Int) : pick r 0 = r.1 ∧ pick r 1 = r.2.1 ∧ pick r 2 = r.2.2.1 ∧ pick r 3 = r.2.2.2 :=
  ⟨rfl, rfl, rfl, rfl⟩

theorem horiz_step (orig : Img) (w s E X : Nat) (hs : 1 ≤ s ∧ s ≤ 12) (hE : E % 8 = 0) (h8 : 8 ≤ E)
    (hh : E + 2 ≤ orig.size / w) (hX : X < w) (img : Img) (hst : HState orig w s E X img) :
    ∃ img', applyAt (decide (X < (w / 8) * 8)) img ((E - 2) * w + X) ((E - 1) * w + X) (E * w + X) ((E + 1) * w + X) s = .ok img' ∧
      HState orig w s E (X + 1) img' := by
  obtain ⟨hsz, hby, hpx⟩ := hst
  have hw : 0 < w := by omega
  have hsize : orig.size / w * w ≤ orig.size := Nat.div_mul_le_self _ _
  -- the four indices, written as (E - 2 + k) * w + X
  obtain ⟨m, hm⟩ : ∃ m, E = m + 2 := ⟨E - 2, by omega⟩
  have e0 : (E - 2) * w + X = (E - 2 + 0) * w + X := by simp
  have e1 : (E - 1) * w + X = (E - 2 + 1) * w + X := by rw [hm]; simp
  have e2 : E * w + X = (E - 2 + 2) * w + X := by rw [hm]; simp
  have e3 : (E + 1) * w + X = (E - 2 + 3) * w + X := by rw [hm]; simp
  have inr : ∀ k, k ≤ 3 → (E - 2 + k) * w + X < img.size := fun k hk => by
    rw [hsz]; exact idx_lt_size _ w X (orig.size / w) _ hX (by omega) hsize
  have lt01 : (E - 2 + 0) * w + X < (E - 2 + 1) * w + X := by rw [Nat.add_mul (E - 2 + 0) 1 w] ; omega
  have lt12 : (E - 2 + 1) * w + X < (E - 2 + 2) * w + X := by
    have : (E - 2 + 2) * w = (E - 2 + 1) * w + w := by rw [show E - 2 + 2 = (E - 2 + 1) + 1 by omega, Nat.add_mul, Nat.one_mul]
    omega
  have lt23 : (E - 2 + 2) * w + X < (E - 2 + 3) * w + X := by
    have : (E - 2 + 3) * w = (E - 2 + 2) * w + w := by rw [show E - 2 + 3 = (E - 2 + 2) + 1 by omega, Nat.add_mul, Nat.one_mul]
    omega
  rw [e0, e1, e2, e3]
  obtain ⟨img', hap, hsz', hby', hget⟩ := applyAt_spec (decide (X < (w / 8) * 8)) img hby _ _ _ _ s
    (inr 0 (by omega)) (inr 1 (by omega)) (inr 2 (by omega)) (inr 3 (by omega)) lt01 lt12 lt23 hs
  refine ⟨img', hap, by rw [hsz', hsz], hby', ?_⟩
  -- the old values at the four indices are the original ones
  have old : ∀ k, k ≤ 3 → img.getD ((E - 2 + k) * w + X) 0 = orig.getD ((E - 2 + k) * w + X) 0 := by
    intro k hk
    rw [hpx]
    unfold hpix
    obtain ⟨d1, d2⟩ := idx_div (E - 2 + k) w X hX
    rw [d1, d2, edgeOf_at E _ k hE h8 hh hk]
    simp only
    rw [if_neg (by omega)]
  have pxe : ∀ k, k ≤ 3 → ((orig.getD ((E - 2 + k) * w + X) 0 : Nat) : Int) = px orig w X (E - 2 + k) := fun k _ => rfl
  intro j
  rw [hget j]
  simp only [old 0 (by omega), old 1 (by omega), old 2 (by omega), old 3 (by omega)]
  unfold hpix
  by_cases hj : ∃ k, k ≤ 3 ∧ j = (E - 2 + k) * w + X
  · obtain ⟨k, hk, hjk⟩ := hj
    obtain ⟨d1, d2⟩ := idx_div (E - 2 + k) w X hX
    rw [hjk, d1, d2, edgeOf_at E _ k hE h8 hh hk]
    simp only
    rw [if_pos (show E < E ∨ True ∧ X < X + 1 from Or.inr ⟨trivial, by omega⟩)]
    unfold hval
    rw [d1, d2]
    have ek : E - 2 + k - (E - 2) = k := by omega
    rw [ek]
    have p0 : E - 2 = E - 2 + 0 := by omega
    have p1 : E - 1 = E - 2 + 1 := by omega
    have p2 : E = E - 2 + 2 := by omega
    have p3 : E + 1 = E - 2 + 3 := by omega
    have hpxs : filter s (px orig w X (E - 2)) (px orig w X (E - 1)) (px orig w X E) (px orig w X (E + 1)) =
        filter s (orig.getD ((E - 2 + 0) * w + X) 0 : Nat) (orig.getD ((E - 2 + 1) * w + X) 0 : Nat)
          (orig.getD ((E - 2 + 2) * w + X) 0 : Nat) (orig.getD ((E - 2 + 3) * w + X) 0 : Nat) := by
      rw [pxe 0 (by omega), pxe 1 (by omega), pxe 2 (by omega), pxe 3 (by omega), ← p0, ← p1, ← p2, ← p3]
    rw [hpxs]
    have hk4 : k = 0 ∨ k = 1 ∨ k = 2 ∨ k = 3 := by omega
    rcases hk4 with h | h | h | h <;> subst h
    · rw [if_pos rfl]; rfl
    · have : ¬ ((E - 2 + 1) * w + X = (E - 2 + 0) * w + X) := by omega
      rw [if_neg this, if_pos rfl]; rfl
    · have n0 : ¬ ((E - 2 + 2) * w + X = (E - 2 + 0) * w + X) := by omega
      have n1 : ¬ ((E - 2 + 2) * w + X = (E - 2 + 1) * w + X) := by omega
      rw [if_neg n0, if_neg n1, if_pos rfl]; rfl
    · have n0 : ¬ ((E - 2 + 3) * w + X = (E - 2 + 0) * w + X) := by omega
      have n1 : ¬ ((E - 2 + 3) * w + X = (E - 2 + 1) * w + X) := by omega
      have n2 : ¬ ((E - 2 + 3) * w + X = (E - 2 + 2) * w + X) := by omega
      rw [if_neg n0, if_neg n1, if_neg n2, if_pos rfl]; rfl
  · have n0 : ¬ (j = (E - 2 + 0) * w + X) := fun h => hj ⟨0, by omega, h⟩
    have n1 : ¬ (j = (E - 2 + 1) * w + X) := fun h => hj ⟨1, by omega, h⟩
    have n2 : ¬ (j = (E - 2 + 2) * w + X) := fun h => hj ⟨2, by omega, h⟩
    have n3 : ¬ (j = (E - 2 + 3) * w + X) := fun h => hj ⟨3, by omega, h⟩
    simp only [n0, n1, n2, n3, ↓reduceIte]
    rw [hpx j]
    unfold hpix
    cases hed : edgeOf (j / w) (orig.size / w) with
    | none => rfl
    | some e =>
      simp only
      obtain ⟨q1, q2, q3, q4, q5⟩ := edgeOf_some _ _ _ hed
      have hcond : (e < E ∨ (e = E ∧ j % w < X)) ↔ (e < E ∨ (e = E ∧ j % w < X + 1)) := by
        constructor
        · rintro (h | ⟨h1, h2⟩)
          · exact Or.inl h
          · exact Or.inr ⟨h1, by omega⟩
        · rintro (h | ⟨h1, h2⟩)
          · exact Or.inl h
          · by_cases hx : j % w = X
            · exfalso
              apply hj
              refine ⟨j / w - (E - 2), by omega, ?_⟩
              have := Nat.div_add_mod j w
              rw [hx] at this
              have e5 : E - 2 + (j / w - (E - 2)) = j / w := by omega
              rw [e5, Nat.mul_comm]; omega
            · exact Or.inr ⟨h1, by omega⟩
      by_cases hc : e < E ∨ (e = E ∧ j % w < X)
      · rw [if_pos hc, if_pos (hcond.mp hc)]
      · rw [if_neg hc, if_neg (fun h => hc (hcond.mpr h))]


theorem horiz_cols (orig : Img) (w s E : Nat) (hs : 1 ≤ s ∧ s ≤ 12) (hE : E % 8 = 0) (h8 : 8 ≤ E)
    (hh : E + 2 ≤ orig.size / w) :
    ∀ (n X : Nat) (img : Img), X + n = w → HState orig w s E X img →
      ∃ img', horizEdgeCols w s E n X img = .ok img' ∧ HState orig w s E w img' := by
  intro n
  induction n with
  | zero => intro X img hX hst; have : X = w := by omega
            subst this; exact ⟨img, rfl, hst⟩
  | succ n ih =>
    intro X img hX hst
    unfold horizEdgeCols
    obtain ⟨img1, h1, hst1⟩ := horiz_step orig w s E X hs hE h8 hh (by omega) img hst
    rw [h1]
    simp only [Out.bind_ok]
    exact ih (X + 1) img1 (by omega) hst1

/-- a finished edge is the start of the next one -/
theorem hpix_next (orig : Img) (w s E i : Nat) (hE : E % 8 = 0) (hw : 0 < w) : hpix orig w s E w i = hpix orig w s (E + 8) 0 i := by
  unfold hpix
  cases hed : edgeOf (i / w) (orig.size / w) with
  | none => rfl
  | some e =>
    simp only
    obtain ⟨q1, _, _, _, _⟩ := edgeOf_some _ _ _ hed
    have hm : i % w < w := Nat.mod_lt _ hw
    by_cases hc : e < E ∨ (e = E ∧ i % w < w)
    · rw [if_pos hc, if_pos (by omega)]
    · rw [if_neg hc, if_neg (by omega)]

theorem horizPass_getD (orig : Img) (w s i : Nat) (hi : i < orig.size) :
    (horizPass orig w s).getD i 0 = match edgeOf (i / w) (orig.size / w) with
      | some e => hval orig w s e i
      | none => orig.getD i 0 := by
  have hsz : i < (horizPass orig w s).size := by simpa [horizPass] using hi
  rw [Array.getD_eq_getD_getElem?, Array.getElem?_eq_getElem hsz]
  simp only [horizPass, Array.getElem_ofFn, Option.getD_some]
  rfl

/-- once the next candidate edge no longer fits, every edge has been filtered: the state is the specification's pass -/
theorem hpix_final (orig : Img) (w s E i : Nat) (hE : E % 8 = 0) (hlast : orig.size / w < E + 2) (hi : i < orig.size) :
    hpix orig w s E 0 i = (horizPass orig w s).getD i 0 := by
  rw [horizPass_getD orig w s i hi]
  unfold hpix
  cases hed : edgeOf (i / w) (orig.size / w) with
  | none => rfl
  | some e =>
    simp only
    obtain ⟨q1, _, _, _, q5⟩ := edgeOf_some _ _ _ hed
    rw [if_pos (by omega)]

theorem horiz_loop (orig : Img) (w s : Nat) (hw : 0 < w) (hs : 1 ≤ s ∧ s ≤ 12) :
    ∀ (n E : Nat) (img : Img), E % 8 = 0 → 8 ≤ E → orig.size / w < E + 8 * n → HState orig w s E 0 img →
      ∃ img' E', horizLoop w (orig.size / w) s n E img = .ok img' ∧ E' % 8 = 0 ∧ orig.size / w < E' + 2 ∧ HState orig w s E' 0 img' := by
  intro n
  induction n with
  | zero => intro E img hE _ hl hst; exact ⟨img, E, rfl, hE, by omega, hst⟩
  | succ n ih =>
    intro E img hE h8 hl hst
    unfold horizLoop
    split
    · rename_i hfit
      obtain ⟨img1, h1, hst1⟩ := horiz_cols orig w s E hs hE h8 hfit w 0 img (by omega) hst
      rw [h1]
      simp only [Out.bind_ok]
      have hst2 : HState orig w s (E + 8) 0 img1 := ⟨hst1.1, hst1.2.1, fun i => by rw [hst1.2.2 i, hpix_next orig w s E i hE hw]⟩
      exact ih (E + 8) img1 (by omega) (by omega) (by omega) hst2
    · exact ⟨img, E, rfl, hE, by omega, hst⟩

theorem hstate_init (orig : Img) (hb : Bytes orig) (w s : Nat) : HState orig w s 8 0 orig := by
  refine ⟨rfl, hb, fun i => ?_⟩
  unfold hpix
  cases hed : edgeOf (i / w) (orig.size / w) with
  | none => rfl
  | some e =>
    simp only
    obtain ⟨_, q2, _, _, _⟩ := edgeOf_some _ _ _ hed
    rw [if_neg (by omega)]

/-- **Horizontal pass.**  For every width ≥ 1, every byte image and every strength 1..12, `deblock_horiz` (vector lanes for the
first ⌊w/8⌋·8 columns, scalar kernel for the rest, in place, edge after edge) produces exactly the pointwise specification. -/
theorem deblockHoriz_eq_spec (img : Img) (w s : Nat) (hw : 1 ≤ w) (hb : Bytes img) (hs : 1 ≤ s ∧ s ≤ 12) :
    deblockHoriz img w s = .ok (horizPass img w s) ∧ Bytes (horizPass img w s) := by
  unfold deblockHoriz
  rw [if_neg (by omega)]
  simp only
  obtain ⟨img', E', h1, hE', hlast, hsz, hby, hpx⟩ := horiz_loop img w s (by omega) hs (img.size / w / 8 + 1) 8 img (by omega) (by omega)
    (by omega) (hstate_init img hb w s)
  have heq : img' = horizPass img w s := by
    apply Array.ext
    · rw [hsz]; simp [horizPass]
    · intro i h1 h2
      have hi : i < img.size := by omega
      have a1 : img'.getD i 0 = img'[i] := by rw [Array.getD_eq_getD_getElem?, Array.getElem?_eq_getElem h1]; rfl
      have a2 : (horizPass img w s).getD i 0 = (horizPass img w s)[i] := by
        rw [Array.getD_eq_getD_getElem?, Array.getElem?_eq_getElem h2]; rfl
      rw [← a1, ← a2, hpx i, hpix_final img w s E' i hE' hlast hi]
  rw [h1, heq]
  exact ⟨rfl, by rw [← heq]; exact hby⟩


/-! ### vertical edges -/

/-- the filtered value of sample `i` at the vertical edge `e` -/
def vval (orig : Img) (w s e i : Nat) : Nat :=
  (pick (filter s (px orig w (e - 2) (i / w)) (px orig w (e - 1) (i / w)) (px orig w e (i / w)) (px orig w (e + 1) (i / w)))
    (i % w - (e - 2))).toNat

/-- sample `i` once every row above `R` and the chunks below `K` of row `R` have been filtered -/
def vpix (orig : Img) (w s R K i : Nat) : Nat :=
  match edgeOf (i % w) w with
  | some e => if i / w < R ∨ (i / w = R ∧ e < 8 * K + 8) then vval orig w s e i else orig.getD i 0
  | none => orig.getD i 0

def VState (orig : Img) (w s R K : Nat) (img : Img) : Prop :=
  img.size = orig.size ∧ Bytes img ∧ ∀ i, img.getD i 0 = vpix orig w s R K i

theorem vert_step (orig : Img) (w s R K : Nat) (useSimd : Bool) (hs : 1 ≤ s ∧ s ≤ 12) (hK : 8 * K + 10 ≤ w)
    (hR : R < orig.size / w) (img : Img) (hst : VState orig w s R K img) :
    ∃ img', applyAt useSimd img (R * w + 8 * K + 6) (R * w + 8 * K + 7) (R * w + 8 * K + 8) (R * w + 8 * K + 9) s = .ok img' ∧
      VState orig w s R (K + 1) img' := by
  obtain ⟨hsz, hby, hpx⟩ := hst
  have hw : 0 < w := by omega
  have hsize : orig.size / w * w ≤ orig.size := Nat.div_mul_le_self _ _
  have e0 : R * w + 8 * K + 6 = R * w + (8 * K + 6 + 0) := by omega
  have e1 : R * w + 8 * K + 7 = R * w + (8 * K + 6 + 1) := by omega
  have e2 : R * w + 8 * K + 8 = R * w + (8 * K + 6 + 2) := by omega
  have e3 : R * w + 8 * K + 9 = R * w + (8 * K + 6 + 3) := by omega
  have inr : ∀ k, k ≤ 3 → R * w + (8 * K + 6 + k) < img.size := fun k hk => by
    rw [hsz]; exact idx_lt_size R w _ (orig.size / w) _ (by omega) hR hsize
  rw [e0, e1, e2, e3]
  obtain ⟨img', hap, hsz', hby', hget⟩ := applyAt_spec useSimd img hby _ _ _ _ s
    (inr 0 (by omega)) (inr 1 (by omega)) (inr 2 (by omega)) (inr 3 (by omega)) (by omega) (by omega) (by omega) hs
  refine ⟨img', hap, by rw [hsz', hsz], hby', ?_⟩
  have hedge : ∀ k, k ≤ 3 → edgeOf (8 * K + 6 + k) w = some (8 * K + 8) := by
    intro k hk
    unfold edgeOf
    simp only
    have : (8 * K + 6 + k + 2) / 8 * 8 = 8 * K + 8 := by omega
    rw [this, if_pos (by omega)]
  have old : ∀ k, k ≤ 3 → img.getD (R * w + (8 * K + 6 + k)) 0 = orig.getD (R * w + (8 * K + 6 + k)) 0 := by
    intro k hk
    rw [hpx]
    unfold vpix
    obtain ⟨d1, d2⟩ := idx_div R w (8 * K + 6 + k) (by omega)
    rw [d1, d2, hedge k hk]
    simp only
    rw [if_neg (by omega)]
  intro j
  rw [hget j]
  simp only [old 0 (by omega), old 1 (by omega), old 2 (by omega), old 3 (by omega)]
  unfold vpix
  by_cases hj : ∃ k, k ≤ 3 ∧ j = R * w + (8 * K + 6 + k)
  · obtain ⟨k, hk, hjk⟩ := hj
    obtain ⟨d1, d2⟩ := idx_div R w (8 * K + 6 + k) (by omega)
    rw [hjk, d1, d2, hedge k hk]
    simp only
    rw [if_pos (show R < R ∨ True ∧ 8 * K + 8 < 8 * (K + 1) + 8 from Or.inr ⟨trivial, by omega⟩)]
    unfold vval
    rw [d1, d2]
    have ek : 8 * K + 6 + k - (8 * K + 8 - 2) = k := by omega
    rw [ek]
    have hpxs : filter s (px orig w (8 * K + 8 - 2) R) (px orig w (8 * K + 8 - 1) R) (px orig w (8 * K + 8) R) (px orig w (8 * K + 8 + 1) R) =
        filter s (orig.getD (R * w + (8 * K + 6 + 0)) 0 : Nat) (orig.getD (R * w + (8 * K + 6 + 1)) 0 : Nat)
          (orig.getD (R * w + (8 * K + 6 + 2)) 0 : Nat) (orig.getD (R * w + (8 * K + 6 + 3)) 0 : Nat) := by
      have p0 : 8 * K + 8 - 2 = 8 * K + 6 + 0 := by omega
      have p1 : 8 * K + 8 - 1 = 8 * K + 6 + 1 := by omega
      have p2 : 8 * K + 8 = 8 * K + 6 + 2 := by omega
      have p3 : 8 * K + 8 + 1 = 8 * K + 6 + 3 := by omega
      rw [p1, p3, p0]
      conv => lhs; arg 4; rw [p2]
      rfl
    rw [hpxs]
    have hk4 : k = 0 ∨ k = 1 ∨ k = 2 ∨ k = 3 := by omega
    rcases hk4 with h | h | h | h <;> subst h
    · rw [if_pos rfl]; rfl
    · have : ¬ (R * w + (8 * K + 6 + 1) = R * w + (8 * K + 6 + 0)) := by omega
      rw [if_neg this, if_pos rfl]; rfl
    · have n0 : ¬ (R * w + (8 * K + 6 + 2) = R * w + (8 * K + 6 + 0)) := by omega
      have n1 : ¬ (R * w + (8 * K + 6 + 2) = R * w + (8 * K + 6 + 1)) := by omega
      rw [if_neg n0, if_neg n1, if_pos rfl]; rfl
    · have n0 : ¬ (R * w + (8 * K + 6 + 3) = R * w + (8 * K + 6 + 0)) := by omega
      have n1 : ¬ (R * w + (8 * K + 6 + 3) = R * w + (8 * K + 6 + 1)) := by omega
      have n2 : ¬ (R * w + (8 * K + 6 + 3) = R * w + (8 * K + 6 + 2)) := by omega
      rw [if_neg n0, if_neg n1, if_neg n2, if_pos rfl]; rfl
  · have n0 : ¬ (j = R * w + (8 * K + 6 + 0)) := fun h => hj ⟨0, by omega, h⟩
    have n1 : ¬ (j = R * w + (8 * K + 6 + 1)) := fun h => hj ⟨1, by omega, h⟩
    have n2 : ¬ (j = R * w + (8 * K + 6 + 2)) := fun h => hj ⟨2, by omega, h⟩
    have n3 : ¬ (j = R * w + (8 * K + 6 + 3)) := fun h => hj ⟨3, by omega, h⟩
    simp only [n0, n1, n2, n3, ↓reduceIte]
    rw [hpx j]
    unfold vpix
    cases hed : edgeOf (j % w) w with
    | none => rfl
    | some e =>
      simp only
      obtain ⟨q1, q2, q3, q4, q5⟩ := edgeOf_some _ _ _ hed
      have hcond : (j / w < R ∨ (j / w = R ∧ e < 8 * K + 8)) ↔ (j / w < R ∨ (j / w = R ∧ e < 8 * (K + 1) + 8)) := by
        constructor
        · rintro (h | ⟨h1, h2⟩)
          · exact Or.inl h
          · exact Or.inr ⟨h1, by omega⟩
        · rintro (h | ⟨h1, h2⟩)
          · exact Or.inl h
          · by_cases he : e = 8 * K + 8
            · exfalso
              apply hj
              refine ⟨j % w - (8 * K + 6), by omega, ?_⟩
              have := Nat.div_add_mod j w
              rw [h1, Nat.mul_comm] at this
              omega
            · exact Or.inr ⟨h1, by omega⟩
      by_cases hc : j / w < R ∨ (j / w = R ∧ e < 8 * K + 8)
      · rw [if_pos hc, if_pos (hcond.mp hc)]
      · rw [if_neg hc, if_neg (fun h => hc (hcond.mpr h))]


theorem vert_chunks (orig : Img) (w s R : Nat) (useSimd : Bool) (hs : 1 ≤ s ∧ s ≤ 12) (hw : 10 ≤ w) (hR : R < orig.size / w) :
    ∀ (n K : Nat) (img : Img), K + n = (w - 2) / 8 → VState orig w s R K img →
      ∃ img', vertRowChunks w s R useSimd n K img = .ok img' ∧ VState orig w s R ((w - 2) / 8) img' := by
  intro n
  induction n with
  | zero => intro K img hK hst; have : K = (w - 2) / 8 := by omega
            subst this; exact ⟨img, rfl, hst⟩
  | succ n ih =>
    intro K img hK hst
    unfold vertRowChunks
    obtain ⟨img1, h1, hst1⟩ := vert_step orig w s R K useSimd hs (by omega) hR img hst
    rw [h1]
    simp only [Out.bind_ok]
    exact ih (K + 1) img1 (by omega) hst1

theorem vpix_next (orig : Img) (w s R i : Nat) : vpix orig w s R ((w - 2) / 8) i = vpix orig w s (R + 1) 0 i := by
  unfold vpix
  cases hed : edgeOf (i % w) w with
  | none => rfl
  | some e =>
    simp only
    obtain ⟨q1, q2, _, _, q5⟩ := edgeOf_some _ _ _ hed
    by_cases hc : i / w < R ∨ (i / w = R ∧ e < 8 * ((w - 2) / 8) + 8)
    · rw [if_pos hc, if_pos (by omega)]
    · rw [if_neg hc, if_neg (by omega)]

theorem vert_rows (orig : Img) (w s : Nat) (hw : 10 ≤ w) (hs : 1 ≤ s ∧ s ≤ 12) :
    ∀ (n R : Nat) (img : Img), R + n = orig.size / w → VState orig w s R 0 img →
      ∃ img', vertRows w (orig.size / w) s n R img = .ok img' ∧ VState orig w s (orig.size / w) 0 img' := by
  intro n
  induction n with
  | zero => intro R img hR hst; have : R = orig.size / w := by omega
            subst this; exact ⟨img, rfl, hst⟩
  | succ n ih =>
    intro R img hR hst
    unfold vertRows
    obtain ⟨img1, h1, hst1⟩ := vert_chunks orig w s R (decide (R < (orig.size / w / 8) * 8)) hs hw (by omega) ((w - 2) / 8) 0 img (by omega) hst
    rw [h1]
    simp only [Out.bind_ok]
    have hst2 : VState orig w s (R + 1) 0 img1 := ⟨hst1.1, hst1.2.1, fun i => by rw [hst1.2.2 i, vpix_next]⟩
    exact ih (R + 1) img1 (by omega) hst2

theorem vertPass_getD (orig : Img) (w s i : Nat) (hi : i < orig.size) :
    (vertPass orig w s).getD i 0 = match edgeOf (i % w) w with
      | some e => vval orig w s e i
      | none => orig.getD i 0 := by
  have hsz : i < (vertPass orig w s).size := by simpa [vertPass] using hi
  rw [Array.getD_eq_getD_getElem?, Array.getElem?_eq_getElem hsz]
  simp only [vertPass, Array.getElem_ofFn, Option.getD_some]
  rfl

theorem vstate_init (orig : Img) (hb : Bytes orig) (w s : Nat) : VState orig w s 0 0 orig := by
  refine ⟨rfl, hb, fun i => ?_⟩
  unfold vpix
  cases hed : edgeOf (i % w) w with
  | none => rfl
  | some e =>
    simp only
    obtain ⟨_, q2, _, _, _⟩ := edgeOf_some _ _ _ hed
    rw [if_neg (by rintro (h | ⟨_, h⟩); exact Nat.not_lt_zero _ h; omega)]

/-- **Vertical pass.**  For every width ≥ 1, every byte image whose length is a multiple of the width and every strength,
`deblock_vert` (eight rows per vector kernel call, remaining rows scalar, chunk after chunk along each row, in place; nothing
at all for widths below ten) produces exactly the pointwise specification. -/
theorem deblockVert_eq_spec (img : Img) (w s : Nat) (hw : 1 ≤ w) (hl : img.size % w = 0) (hb : Bytes img) (hs : 1 ≤ s ∧ s ≤ 12) :
    deblockVert img w s = .ok (vertPass img w s) := by
  unfold deblockVert
  have hrow : ∀ i, i < img.size → i / w < img.size / w := by
    intro i hi
    apply (Nat.div_lt_iff_lt_mul (by omega)).2
    have := Nat.div_add_mod img.size w
    rw [hl, Nat.mul_comm] at this
    omega
  split
  · rename_i h10
    simp only
    obtain ⟨img', h1, hsz, _, hpx⟩ := vert_rows img w s h10 hs (img.size / w) 0 img (by omega) (vstate_init img hb w s)
    rw [h1]
    congr 1
    apply Array.ext
    · rw [hsz]; simp [vertPass]
    · intro i h1 h2
      have hi : i < img.size := by omega
      have a1 : img'.getD i 0 = img'[i] := by rw [Array.getD_eq_getD_getElem?, Array.getElem?_eq_getElem h1]; rfl
      have a2 : (vertPass img w s).getD i 0 = (vertPass img w s)[i] := by
        rw [Array.getD_eq_getD_getElem?, Array.getElem?_eq_getElem h2]; rfl
      rw [← a1, ← a2, hpx i, vertPass_getD img w s i hi]
      unfold vpix
      cases hed : edgeOf (i % w) w with
      | none => rfl
      | some e =>
        simp only
        rw [if_pos (Or.inl (hrow i hi))]
  · rename_i h10
    congr 1
    apply Array.ext
    · simp [vertPass]
    · intro i h1 h2
      have a1 : img.getD i 0 = img[i] := by rw [Array.getD_eq_getD_getElem?, Array.getElem?_eq_getElem h1]; rfl
      have a2 : (vertPass img w s).getD i 0 = (vertPass img w s)[i] := by
        rw [Array.getD_eq_getD_getElem?, Array.getElem?_eq_getElem h2]; rfl
      rw [← a1, ← a2, vertPass_getD img w s i h1]
      cases hed : edgeOf (i % w) w with
      | none => rfl
      | some e =>
        obtain ⟨_, q2, _, _, q5⟩ := edgeOf_some _ _ _ hed
        omega

/-- **The whole filter.**  `deblock` = vertical pass ∘ horizontal pass of the pointwise Annex J specification, for every
width ≥ 1, every height (0 and 1 rows included), every content and every strength 1..12. -/
theorem deblock_eq_spec (img : Img) (w s : Nat) (hw : 1 ≤ w) (hl : img.size % w = 0) (hb : Bytes img) (hs : 1 ≤ s ∧ s ≤ 12) :
    Deblock.deblock img w s = .ok (Spec.AnnexJ.deblock img w s) := by
  unfold Deblock.deblock Spec.AnnexJ.deblock
  rw [if_neg (by omega), if_neg (by simp [hl])]
  obtain ⟨h1, hb1⟩ := deblockHoriz_eq_spec img w s hw hb hs
  rw [h1]
  simp only [Out.bind_ok]
  exact deblockVert_eq_spec _ w s hw (by simpa [horizPass] using hl) hb1 hs

end H263V.Lemmas.DeblockPass
