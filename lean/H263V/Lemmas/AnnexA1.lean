import H263V.Lemmas.AnnexADefs
namespace H263V.Lemmas.AnnexA
theorem range1_ok : rangeOk 1 256 255 false 10000 = true := by native_decide
end H263V.Lemmas.AnnexA
