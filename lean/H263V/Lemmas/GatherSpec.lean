/-
Motion compensation of one 8x8 block equals the pointwise half-sample interpolation formula with edge clamping,
on every path (whole-sample fast path with slice copies, whole-sample generic path, interpolating path).
-/
import H263V.Lemmas.DecodeTotal
namespace H263V.Lemmas.GatherSpec
open H263V H263V.Gather H263V.Mv H263V.Mb H263V.Lemmas.DecodeTotal

/-- the reference sample at integer coordinates, the coordinates clamped into the plane -/
def refAt (px : Array Nat) (spr rows : Nat) (x y : Int) : Nat :=
  let cx : Int := if x < 0 then 0 else if x > ((spr - 1 : Nat) : Int) then ((spr - 1 : Nat) : Int) else x
  let cy : Int := if y < 0 then 0 else if y > ((rows - 1 : Nat) : Int) then ((rows - 1 : Nat) : Int) else y
  px.getD (cx.toNat + cy.toNat * spr) 0

/-- the predicted sample for a vector with whole part `(xd, yd)` and half-sample flags `(xi, yi)`:
whole-sample: copy; one half: `(a + b + 1) / 2`; both halves: `(a + b + c + d + 2) / 4` -/
def predAt (px : Array Nat) (spr rows : Nat) (x y : Int) (xi yi : Bool) : Nat :=
  if !xi && !yi then refAt px spr rows x y
  else if xi && yi then
    (refAt px spr rows x y + refAt px spr rows (x + 1) y + refAt px spr rows x (y + 1) + refAt px spr rows (x + 1) (y + 1) + 2) / 4
  else lerp (lerp (refAt px spr rows x y) (refAt px spr rows (x + 1) y) xi)
            (lerp (refAt px spr rows x (y + 1)) (refAt px spr rows (x + 1) (y + 1)) xi) yi

theorem readSample_eq (px : Array Nat) (spr rows : Nat) (hs : 1 ≤ spr) (hr : 1 ≤ rows) (hsz : rows * spr ≤ px.size) (x y : Int) :
    readSample px spr rows x y = .ok (refAt px spr rows x y) := by
  obtain ⟨v, hv⟩ := readSample_ok px spr rows hs hr hsz x y
  rw [hv]
  unfold readSample at hv
  unfold refAt
  simp only at hv ⊢
  split at hv
  · rename_i v' hget
    simp only [Out.ok.injEq] at hv
    rw [Array.getD_eq_getD_getElem?, hget]
    simp [hv]
  · simp at hv

/-- what a finished block looks like: inside the (cropped) 8x8 block the predicted samples, elsewhere the old target -/
def blockResult (px : Array Nat) (spr : Nat) (pos : Nat × Nat) (mv : Mv) (target : Array Nat) (J I : Nat) (k : Nat) : Nat :=
  let rows := px.size / spr
  let x := k % spr
  let y := k / spr
  if pos.1 ≤ x ∧ x < pos.1 + min 8 (spr - pos.1) ∧ pos.2 ≤ y ∧ (y < pos.2 + J ∨ (y = pos.2 + J ∧ x < pos.1 + I)) ∧ y < pos.2 + min 8 (rows - pos.2) then
    predAt px spr rows ((x : Int) + (lerpParams mv.1).1) ((y : Int) + (lerpParams mv.2).1) (lerpParams mv.1).2 (lerpParams mv.2).2
  else target.getD k 0


instance : LawfulMonad Out := LawfulMonad.mk'
  (id_map := fun x => by cases x <;> rfl)
  (pure_bind := fun _ _ => rfl)
  (bind_assoc := fun x _ _ => by cases x <;> rfl)

/-! ### filling a rectangle of a plane, row by row -/

theorem getD_set! (t : Array Nat) (i v k : Nat) : (t.set! i v).getD k 0 = if i = k ∧ k < t.size then v else t.getD k 0 := by
  simp only [Array.set!_eq_setIfInBounds, Array.getD_eq_getD_getElem?, Array.getElem?_setIfInBounds]
  by_cases h : i = k
  · subst h
    by_cases hk : i < t.size
    · simp [hk]
    · simp [hk]
  · simp [h]

theorem foldlM_congr {α β : Type} (f g : α → β → Out α) (l : List β) (h : ∀ a b, b ∈ l → f a b = g a b) (init : α) :
    l.foldlM f init = l.foldlM g init := by
  induction l generalizing init with
  | nil => rfl
  | cons b bs ih =>
    rw [List.foldlM_cons, List.foldlM_cons, h init b (by simp)]
    cases g init b with
    | ok a => exact ih (fun a b hb => h a b (by simp [hb])) a
    | err e => rfl
    | panic s => rfl
    | fuel => rfl

/-- one row: samples `x0 .. x0+C-1` of row `y` are written with `val i`, nothing else changes -/
theorem fill_row (spr x0 y n : Nat) (val : Nat → Nat) :
    ∀ (C : Nat) (t : Array Nat), t.size = n → x0 + C ≤ spr → (y + 1) * spr ≤ n →
      ∃ t', (List.range C).foldlM (fun t i => setChecked t (x0 + i + y * spr) (val i)) t = .ok t' ∧ t'.size = n ∧
        ∀ k, t'.getD k 0 = if k / spr = y ∧ x0 ≤ k % spr ∧ k % spr < x0 + C then val (k % spr - x0) else t.getD k 0 := by
  intro C
  induction C with
  | zero =>
    intro t ht _ _
    refine ⟨t, rfl, ht, fun k => ?_⟩
    rw [if_neg (by omega)]
  | succ C ih =>
    intro t ht hC hy
    obtain ⟨t1, e1, s1, g1⟩ := ih t ht (by omega) hy
    rw [List.range_succ, List.foldlM_append, e1]
    simp only [Out.bind_ok, List.foldlM_cons, List.foldlM_nil]
    have hidx : x0 + C + y * spr < n := by
      have : (y + 1) * spr = y * spr + spr := by rw [Nat.add_mul, Nat.one_mul]
      omega
    unfold setChecked
    rw [if_pos (by omega)]
    refine ⟨_, rfl, by simp [s1], fun k => ?_⟩
    have hs : 0 < spr := by omega
    rw [getD_set!, g1 k]
    by_cases hk : x0 + C + y * spr = k
    · subst hk
      have d1 : (x0 + C + y * spr) / spr = y := by
        rw [Nat.add_mul_div_right _ _ hs, Nat.div_eq_of_lt (by omega)]; omega
      have d2 : (x0 + C + y * spr) % spr = x0 + C := by
        rw [Nat.add_mul_mod_self_right, Nat.mod_eq_of_lt (by omega)]
      rw [if_pos ⟨rfl, by omega⟩, d1, d2, if_pos ⟨rfl, by omega, by omega⟩]
      congr 1
      omega
    · rw [if_neg (fun h => hk h.1)]
      by_cases hin : k / spr = y ∧ x0 ≤ k % spr ∧ k % spr < x0 + C
      · rw [if_pos hin, if_pos ⟨hin.1, hin.2.1, by omega⟩]
      · rw [if_neg hin]
        by_cases hin2 : k / spr = y ∧ x0 ≤ k % spr ∧ k % spr < x0 + (C + 1)
        · exfalso
          apply hk
          have := Nat.div_add_mod k spr
          have hm : k % spr = x0 + C := by omega
          rw [hin2.1, hm, Nat.mul_comm] at this
          omega
        · rw [if_neg hin2]

/-- rows `y0 .. y0+R-1`, each filled from `x0` to `x0+C-1` -/
theorem fill_rect (spr x0 y0 C n : Nat) (hC : x0 + C ≤ spr) (val : Nat → Nat → Nat) :
    ∀ (R : Nat) (t : Array Nat), t.size = n → (y0 + R) * spr ≤ n →
      ∃ t', (List.range R).foldlM (fun t j => (List.range C).foldlM (fun t i => setChecked t (x0 + i + (y0 + j) * spr) (val i j)) t) t = .ok t' ∧
        t'.size = n ∧
        ∀ k, t'.getD k 0 = if y0 ≤ k / spr ∧ k / spr < y0 + R ∧ x0 ≤ k % spr ∧ k % spr < x0 + C then val (k % spr - x0) (k / spr - y0)
          else t.getD k 0 := by
  intro R
  induction R with
  | zero =>
    intro t ht _
    refine ⟨t, rfl, ht, fun k => ?_⟩
    rw [if_neg (by omega)]
  | succ R ih =>
    intro t ht hR
    have hle : (y0 + R) * spr ≤ (y0 + (R + 1)) * spr := Nat.mul_le_mul_right _ (by omega)
    obtain ⟨t1, e1, s1, g1⟩ := ih t ht (by omega)
    rw [List.range_succ, List.foldlM_append, e1]
    simp only [Out.bind_ok, List.foldlM_cons, List.foldlM_nil]
    obtain ⟨t2, e2, s2, g2⟩ := fill_row spr x0 (y0 + R) n (fun i => val i R) C t1 s1 hC (by
      have : y0 + R + 1 = y0 + (R + 1) := by omega
      rw [this]; exact hR)
    rw [e2]
    refine ⟨t2, rfl, s2, fun k => ?_⟩
    rw [g2 k, g1 k]
    by_cases hrow : k / spr = y0 + R ∧ x0 ≤ k % spr ∧ k % spr < x0 + C
    · rw [if_pos hrow, if_pos ⟨by omega, by omega, hrow.2.1, hrow.2.2⟩]
      congr 1
      omega
    · rw [if_neg hrow]
      by_cases hin : y0 ≤ k / spr ∧ k / spr < y0 + R ∧ x0 ≤ k % spr ∧ k % spr < x0 + C
      · rw [if_pos hin, if_pos ⟨hin.1, by omega, hin.2.2.1, hin.2.2.2⟩]
      · rw [if_neg hin, if_neg (by
          intro h2
          apply hin
          refine ⟨h2.1, ?_, h2.2.2.1, h2.2.2.2⟩
          by_cases he : k / spr = y0 + R
          · exact absurd ⟨he, h2.2.2.1, h2.2.2.2⟩ hrow
          · omega)]


theorem foldlM_congr_inv {α β : Type} (I : α → Prop) (f g : α → β → Out α) (l : List β)
    (h : ∀ a b, I a → b ∈ l → f a b = g a b) (hI : ∀ a b a', I a → b ∈ l → g a b = .ok a' → I a') (init : α) (h0 : I init) :
    l.foldlM f init = l.foldlM g init := by
  induction l generalizing init with
  | nil => rfl
  | cons b bs ih =>
    rw [List.foldlM_cons, List.foldlM_cons, h init b h0 (by simp)]
    cases hg : g init b with
    | ok a =>
      exact ih (fun a b ha hb => h a b ha (by simp [hb])) (fun a b a' ha hb => hI a b a' ha (by simp [hb])) a
        (hI init b a h0 (by simp) hg)
    | err e => rfl
    | panic s => rfl
    | fuel => rfl

theorem foldl_set_eq_foldlM (idx v : Nat → Nat) : ∀ (l : List Nat) (t : Array Nat), (∀ i ∈ l, idx i < t.size) →
    l.foldlM (fun t i => setChecked t (idx i) (v i)) t = .ok (l.foldl (fun t i => t.set! (idx i) (v i)) t) := by
  intro l
  induction l with
  | nil => intro t _; rfl
  | cons a as ih =>
    intro t h
    rw [List.foldlM_cons, List.foldl_cons]
    unfold setChecked
    rw [if_pos (h a (by simp))]
    simp only [Out.bind_ok]
    exact ih _ (fun i hi => by simpa using h i (by simp [hi]))

/-- an in-range reference coordinate is not clamped -/
theorem refAt_inrange (px : Array Nat) (spr rows : Nat) (x y : Nat) (hx : x < spr) (hy : y < rows) :
    refAt px spr rows (x : Int) (y : Int) = px.getD (x + y * spr) 0 := by
  unfold refAt
  simp only
  rw [if_neg (by omega), if_neg (by omega), if_neg (by omega), if_neg (by omega)]
  simp

/-- **One block of motion compensation.**  For every reference plane, row length ≥ 1, block position, vector and target plane of
the same size: `gather_block` succeeds, and inside the 8x8 block (cropped at the right and bottom borders) every target sample is
the prediction — the reference sample at the displaced position when the vector component is whole, the upward-rounded mean of two
neighbours when one component is half, of four when both are, coordinates outside the reference clamped to its nearest edge —
while every other target sample is unchanged.  The slice-copy fast path, the whole-sample path and the interpolating path all
satisfy the same statement. -/
theorem gatherBlock_spec (px : Array Nat) (spr : Nat) (hs : 1 ≤ spr) (pos : Nat × Nat) (mv : Mv) (target : Array Nat)
    (hsz : target.size = px.size) :
    ∃ t', gatherBlock px spr pos mv target = .ok t' ∧ t'.size = px.size ∧
      ∀ k, t'.getD k 0 =
        if pos.2 ≤ k / spr ∧ k / spr < pos.2 + min 8 (px.size / spr - pos.2) ∧ pos.1 ≤ k % spr ∧ k % spr < pos.1 + min 8 (spr - pos.1) then
          predAt px spr (px.size / spr) ((k % spr : Nat) + (lerpParams mv.1).1) ((k / spr : Nat) + (lerpParams mv.2).1)
            (lerpParams mv.1).2 (lerpParams mv.2).2
        else target.getD k 0 := by
  have hrows : px.size / spr * spr ≤ px.size := Nat.div_mul_le_self _ _
  generalize hrw : px.size / spr = rows at hrows ⊢
  generalize hC : min 8 (spr - pos.1) = C
  generalize hR : min 8 (rows - pos.2) = R
  -- degenerate blocks: nothing is written
  by_cases hdeg : C = 0 ∨ R = 0
  · refine ⟨target, ?_, hsz, fun k => ?_⟩
    · unfold gatherBlock
      rw [if_neg (by omega)]
      simp only [hrw, hC, hR]
      rcases hdeg with h0 | h0
      · subst h0
        have hno : ¬ ((0 : Nat) = 8 ∧ R = 8 ∧ 0 ≤ (pos.1 : Int) + (lerpParams mv.1).1 ∧ (pos.1 : Int) + (lerpParams mv.1).1 ≤ (spr : Int) - 8 ∧
            0 ≤ (pos.2 : Int) + (lerpParams mv.2).1 ∧ (pos.2 : Int) + (lerpParams mv.2).1 ≤ (rows : Int) - 8) := by omega
        simp only [hno, ↓reduceIte, List.range_zero, List.foldlM_nil]
        have hid : ∀ (l : List Nat) (t : Array Nat), l.foldlM (fun t _ => (Out.ok t : Out (Array Nat))) t = .ok t := by
          intro l; induction l with
          | nil => intro t; rfl
          | cons a as ih => intro t; rw [List.foldlM_cons]; exact ih t
        split <;> exact hid _ _
      · subst h0
        have hno : ¬ (C = 8 ∧ (0 : Nat) = 8 ∧ 0 ≤ (pos.1 : Int) + (lerpParams mv.1).1 ∧ (pos.1 : Int) + (lerpParams mv.1).1 ≤ (spr : Int) - 8 ∧
            0 ≤ (pos.2 : Int) + (lerpParams mv.2).1 ∧ (pos.2 : Int) + (lerpParams mv.2).1 ≤ (rows : Int) - 8) := by omega
        simp only [hno, ↓reduceIte, List.range_zero, List.foldlM_nil]
        split <;> rfl
    · rw [if_neg (by omega)]
  · have hC0 : 0 < C := by omega
    have hR0 : 0 < R := by omega
    have hCle : pos.1 + C ≤ spr := by omega
    have hRle : pos.2 + R ≤ rows := by omega
    have hrows1 : 1 ≤ rows := by omega
    have hfit : (pos.2 + R) * spr ≤ px.size := Nat.le_trans (Nat.mul_le_mul_right spr hRle) hrows
    -- the value written at offset (i, j)
    obtain ⟨t', e', s', g'⟩ := fill_rect spr pos.1 pos.2 C px.size hCle
      (fun i j => predAt px spr rows ((pos.1 + i : Nat) + (lerpParams mv.1).1) ((pos.2 + j : Nat) + (lerpParams mv.2).1)
        (lerpParams mv.1).2 (lerpParams mv.2).2) R target hsz hfit
    refine ⟨t', ?_, s', fun k => ?_⟩
    · rw [← e']
      unfold gatherBlock
      rw [if_neg (by omega)]
      simp only [hrw, hC, hR]
      have rs := fun x y => readSample_eq px spr rows hs hrows1 hrows x y
      by_cases hw : (!(lerpParams mv.1).2 && !(lerpParams mv.2).2) = true
      · have hx : (lerpParams mv.1).2 = false := by revert hw; cases (lerpParams mv.1).2 <;> simp
        have hy : (lerpParams mv.2).2 = false := by revert hw; cases (lerpParams mv.2).2 <;> simp
        rw [if_pos hw]
        split
        · -- fast path: every row is a slice copy of in-range samples
          rename_i hfast
          obtain ⟨c8, r8, x0, x1, y0, y1⟩ := hfast
          subst c8; subst r8
          obtain ⟨sx, hsx⟩ : ∃ sx : Nat, (pos.1 : Int) + (lerpParams mv.1).1 = sx := ⟨((pos.1 : Int) + (lerpParams mv.1).1).toNat, by omega⟩
          obtain ⟨sy, hsy⟩ : ∃ sy : Nat, (pos.2 : Int) + (lerpParams mv.2).1 = sy := ⟨((pos.2 : Int) + (lerpParams mv.2).1).toNat, by omega⟩
          refine foldlM_congr_inv (fun t => t.size = px.size) _ _ _ ?_ ?_ target hsz
          · intro t j ht hj
            rw [List.mem_range] at hj
            simp only [hsx, hsy, Int.toNat_natCast]
            have b1 : sx + (sy + j) * spr + 8 ≤ px.size := row_bound _ _ spr rows px.size (by omega) (by omega) hrows
            have b2 : pos.1 + (pos.2 + j) * spr + 8 ≤ t.size := by
              rw [ht]; exact row_bound _ _ spr rows px.size (by omega) (by omega) hrows
            rw [if_pos ⟨b1, b2⟩]
            rw [← foldl_set_eq_foldlM (fun i => pos.1 + (pos.2 + j) * spr + i) (fun i => px.getD (sx + (sy + j) * spr + i) 0) (List.range 8) t
              (by intro i hi; rw [List.mem_range] at hi; omega)]
            apply foldlM_congr
            intro t2 i hi
            rw [List.mem_range] at hi
            have ev : px.getD (sx + (sy + j) * spr + i) 0 =
                predAt px spr rows ((pos.1 + i : Nat) + (lerpParams mv.1).1) ((pos.2 + j : Nat) + (lerpParams mv.2).1)
                  (lerpParams mv.1).2 (lerpParams mv.2).2 := by
              simp only [predAt, hx, hy, Bool.not_false, Bool.and_self, ↓reduceIte]
              have ex : ((pos.1 + i : Nat) : Int) + (lerpParams mv.1).1 = ((sx + i : Nat) : Int) := by push_cast; omega
              have ey : ((pos.2 + j : Nat) : Int) + (lerpParams mv.2).1 = ((sy + j : Nat) : Int) := by push_cast; omega
              rw [ex, ey, refAt_inrange px spr rows (sx + i) (sy + j) (by omega) (by omega)]
              congr 1
              omega
            rw [ev]
            congr 1
            omega
          · intro t j t' ht hj hok
            obtain ⟨t2, e2, s2, _⟩ := fill_row spr pos.1 (pos.2 + j) px.size
              (fun i => predAt px spr rows ((pos.1 + i : Nat) + (lerpParams mv.1).1) ((pos.2 + j : Nat) + (lerpParams mv.2).1)
                (lerpParams mv.1).2 (lerpParams mv.2).2) 8 t ht hCle (by
                rw [List.mem_range] at hj
                have : (pos.2 + j + 1) * spr ≤ rows * spr := Nat.mul_le_mul_right spr (by omega)
                omega)
            rw [e2] at hok
            simp only [Out.ok.injEq] at hok
            rw [← hok]; exact s2
        · apply foldlM_congr
          intro t j hj
          apply foldlM_congr
          intro t2 i hi
          rw [rs]
          simp only [Out.bind_ok, predAt, hx, hy, Bool.not_false, Bool.and_self, ↓reduceIte]
          congr 2 <;> push_cast <;> omega
      · rw [if_neg hw]
        apply foldlM_congr
        intro t j hj
        apply foldlM_congr
        intro t2 i hi
        simp only [rs, Out.bind_ok, predAt, hw, Bool.false_eq_true, ↓reduceIte]
        have ex : (pos.1 : Int) + (lerpParams mv.1).1 + (i : Nat) = ((pos.1 + i : Nat) : Int) + (lerpParams mv.1).1 := by push_cast; omega
        have ey : (pos.2 : Int) + (lerpParams mv.2).1 + (j : Nat) = ((pos.2 + j : Nat) : Int) + (lerpParams mv.2).1 := by push_cast; omega
        rw [ex, ey]
    · rw [g' k]
      by_cases hin : pos.2 ≤ k / spr ∧ k / spr < pos.2 + R ∧ pos.1 ≤ k % spr ∧ k % spr < pos.1 + C
      · rw [if_pos hin, if_pos hin]
        have e1 : pos.1 + (k % spr - pos.1) = k % spr := by omega
        have e2 : pos.2 + (k / spr - pos.2) = k / spr := by omega
        simp only [e1, e2]
      · rw [if_neg hin, if_neg hin]

end H263V.Lemmas.GatherSpec
