import H263V.Lemmas.AnnexADefs
namespace H263V.Lemmas.AnnexA
theorem range3_ok : rangeOk 1 300 300 false 10000 = true := by native_decide
end H263V.Lemmas.AnnexA
