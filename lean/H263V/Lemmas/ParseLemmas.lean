import H263V.Lemmas.BitsLemmas
import H263V.Model.Header
import H263V.Spec.Syntax
namespace H263V.Lemmas.ParseLemmas
open H263V H263V.Spec.Vlc H263V.Spec.Syntax H263V.Lemmas.BitsLemmas

/-! simp set for symbolic evaluation of parsers in the `P` monad -/

@[simp] theorem bind_apply {α β : Type} (p : P α) (f : α → P β) (c : Cur) :
    (p >>= f) c = match p c with
      | .ok (a, c') => f a c'
      | .err e => .err e
      | .panic s => .panic s
      | .fuel => .fuel := rfl

@[simp] theorem pure_apply {α : Type} (a : α) (c : Cur) : (pure a : P α) c = .ok (a, c) := rfl
@[simp] theorem ppure_apply {α : Type} (a : α) (c : Cur) : (P.pure a : P α) c = .ok (a, c) := rfl
@[simp] theorem fail_apply {α : Type} (e : Err) (c : Cur) : (P.fail e : P α) c = .err e := rfl
@[simp] theorem okOr_some {α : Type} (a : α) (e : Err) (c : Cur) : P.okOr (some a) e c = .ok (a, c) := rfl
@[simp] theorem okOr_none {α : Type} (e : Err) (c : Cur) : (P.okOr (none : Option α) e) c = .err e := rfl

theorem peekBits_natBits (W n v : Nat) (hn : n ≤ W) (h0 : 0 < n) (hv : v < 2 ^ n) (rest : Bits) (pos : Nat) :
    peekBits W n ⟨natBits n v ++ rest, pos⟩ = .ok v := by
  unfold peekBits
  have h1 : ¬ n > W := by omega
  have h2 : ¬ n = 0 := by omega
  have hl : ¬ (natBits n v ++ rest).length < n := by simp [natBits_length]
  simp only [h1, h2, ↓reduceIte, hl]
  have ht : (natBits n v ++ rest).take n = natBits n v := by
    rw [List.take_append_of_le_length (by simp [natBits_length])]
    rw [List.take_of_length_le (by simp [natBits_length])]
  rw [ht, ofBits_natBits n v hv]

theorem skipBits_append (a rest : Bits) (n pos : Nat) (h : a.length = n) :
    skipBits n ⟨a ++ rest, pos⟩ = .ok ((), ⟨rest, pos + n⟩) := by
  unfold skipBits
  have hl : ¬ (a ++ rest).length < n := by simp [h]
  simp only [hl, ↓reduceIte]
  rw [List.drop_append_of_le_length (by omega), List.drop_of_length_le (by omega)]
  simp

/-- a start code at the current position is recognised with zero skipped bits, whatever the alignment -/
theorem rsc_at_start (rest : Bits) (pos : Nat) :
    recognizeStartCode false ⟨startCode ++ rest, pos⟩ = .ok (some 0, ⟨startCode ++ rest, pos⟩) := by
  unfold recognizeStartCode
  have : (startCode ++ rest).length + 2 = ((startCode ++ rest).length + 1) + 1 := rfl
  rw [this]
  unfold rscLoop
  unfold startCode
  rw [peekBits_natBits 32 17 1 (by omega) (by omega) (by decide)]
  simp

end H263V.Lemmas.ParseLemmas
