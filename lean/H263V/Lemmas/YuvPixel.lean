import H263V.Lemmas.YuvImg
namespace H263V.Lemmas.YuvPixel
open H263V H263V.Yuv H263V.Spec.Bt601 H263V.Lemmas.Yuv H263V.Lemmas.YuvImg

theorem divmod (a n r : Nat) (h : r < n) : (a * n + r) / n = a ∧ (a * n + r) % n = r := by
  constructor
  · rw [Nat.add_comm, Nat.add_mul_div_right _ _ (by omega), Nat.div_eq_of_lt h]; omega
  · rw [Nat.add_comm, Nat.add_mul_mod_self_right]; exact Nat.mod_eq_of_lt h

theorem map_range_getD (f : Nat → Nat) (n j : Nat) (hj : j < n) : ((List.range n).map f).getD j 0 = f j := by
  simp [List.getD, hj]

theorem map_range_bytes (f : Nat → Nat) (n : Nat) (hf : ∀ j, f j < 256) : ∀ v ∈ (List.range n).map f, v < 256 := by
  intro v hv; simp only [List.mem_map] at hv; obtain ⟨j, _, rfl⟩ := hv; exact hf j

/-- bytes of a whole 4-pixel group -/
theorem group_byte (y cb cr : Array Nat) (hy : Bytes y) (hb : Bytes cb) (hr : Bytes cr) (base cbase g l k : Nat)
    (hl : l < 4) (hk : k < 4) :
    kernelByte ((List.range 4).map fun j => y.getD (base + 4 * g + j) 0)
        ((List.range 2).map fun j => cb.getD (cbase + 2 * g + j) 0)
        ((List.range 2).map fun j => cr.getD (cbase + 2 * g + j) 0) (4 * l + k) =
      some (chan (pixel (y.getD (base + 4 * g + l) 0) (cb.getD (cbase + 2 * g + l / 2) 0) (cr.getD (cbase + 2 * g + l / 2) 0)) k).toNat := by
  rw [kernelByte_spec _ _ _ (by simp) (by simp) (by simp)
    (map_range_bytes _ _ fun j => getD_byte y hy _) (map_range_bytes _ _ fun j => getD_byte cb hb _)
    (map_range_bytes _ _ fun j => getD_byte cr hr _) l k hl hk]
  rw [map_range_getD _ 4 l hl, map_range_getD _ 2 (l / 2) (by omega), map_range_getD _ 2 (l / 2) (by omega)]

/-- the remainder loop for 1, 2 or 3 trailing pixels starting at a column `a` that is a multiple of 4 -/
theorem remLoop_eval (yrow cbrow crrow : Nat → Nat) (a rem : Nat) (ha : a % 4 = 0) (hrem : 1 ≤ rem ∧ rem ≤ 3) :
    remLoop yrow cbrow crrow (List.range' a rem) ([0, 0, 0, 0], [0, 0], [0, 0]) =
      ([yrow a, if 2 ≤ rem then yrow (a + 1) else 0, if 3 ≤ rem then yrow (a + 2) else 0, 0],
       [cbrow ((a + (if 2 ≤ rem then 1 else 0)) / 2), if 3 ≤ rem then cbrow ((a + 2) / 2) else 0],
       [crrow ((a + (if 2 ≤ rem then 1 else 0)) / 2), if 3 ≤ rem then crrow ((a + 2) / 2) else 0]) := by
  have h0 : a % 4 = 0 := ha
  have h1 : (a + 1) % 4 = 1 := by omega
  have h2 : (a + 2) % 4 = 2 := by omega
  have h3 : (a + 1 + 1) / 2 = a / 2 + 1 := by omega
  rcases (show rem = 1 ∨ rem = 2 ∨ rem = 3 by omega) with h | h | h <;> subst h <;>
    simp [List.range', remLoop, h0, h1, h2, h3]

end H263V.Lemmas.YuvPixel

namespace H263V.Lemmas.YuvPixel
open H263V H263V.Yuv H263V.Spec.Bt601 H263V.Lemmas.Yuv H263V.Lemmas.YuvImg

theorem mem4 (a b c d : Nat) (ha : a < 256) (hb : b < 256) (hc : c < 256) (hd : d < 256) : ∀ v ∈ [a, b, c, d], v < 256 := by
  intro v hv; simp at hv; rcases hv with h | h | h | h <;> subst h <;> assumption
theorem mem2 (a b : Nat) (ha : a < 256) (hb : b < 256) : ∀ v ∈ [a, b], v < 256 := by
  intro v hv; simp at hv; rcases hv with h | h <;> subst h <;> assumption
theorem ite_byte (c : Prop) [Decidable c] (a : Nat) (ha : a < 256) : (if c then a else 0) < 256 := by split <;> omega

theorem outByte_pixel (y cb cr : Array Nat) (w : Nat) (hw : 1 ≤ w) (hy : Bytes y) (hb : Bytes cb) (hr : Bytes cr)
    (x yy k : Nat) (hx : x < w) (hk : k < 4) :
    outByte y cb cr w (4 * (yy * w + x) + k) =
      some (chan (pixel (y.getD (yy * w + x) 0) (cb.getD (yy / 2 * ((w + 1) / 2) + x / 2) 0)
        (cr.getD (yy / 2 * ((w + 1) / 2) + x / 2) 0)) k).toNat := by
  have e : 4 * (yy * w + x) + k = yy * (w * 4) + (4 * x + k) := by
    rw [← Nat.mul_assoc yy w 4]; omega
  obtain ⟨hrow, hib⟩ := divmod yy (w * 4) (4 * x + k) (by omega)
  unfold outByte
  simp only
  rw [e, hrow, hib]
  by_cases hg : x < w - w % 4
  · have hc : 4 * x + k < w * 4 - w % 4 * 4 := by omega
    simp only [hc, ↓reduceIte]
    have e1 : (4 * x + k) / 16 = x / 4 := by omega
    have e2 : (4 * x + k) % 16 = 4 * (x % 4) + k := by omega
    rw [e1, e2, group_byte y cb cr hy hb hr (yy * w) (yy / 2 * ((w + 1) / 2)) (x / 4) (x % 4) k (by omega) hk]
    have i1 : yy * w + 4 * (x / 4) + x % 4 = yy * w + x := by omega
    have i2 : yy / 2 * ((w + 1) / 2) + 2 * (x / 4) + x % 4 / 2 = yy / 2 * ((w + 1) / 2) + x / 2 := by omega
    rw [i1, i2]
  · have hc : ¬ 4 * x + k < w * 4 - w % 4 * 4 := by omega
    simp only [hc, ↓reduceIte]
    have ha : (w - w % 4) % 4 = 0 := by omega
    have hrem : 1 ≤ w % 4 ∧ w % 4 ≤ 3 := by omega
    rw [remLoop_eval _ _ _ (w - w % 4) (w % 4) ha hrem]
    simp only
    obtain ⟨j, hj⟩ : ∃ j, x = (w - w % 4) + j := ⟨x - (w - w % 4), by omega⟩
    have hjl : j < w % 4 := by omega
    have e2 : (4 * x + k) % 16 = 4 * j + k := by omega
    rw [e2]
    have hyb : ∀ i, y.getD i 0 < 256 := fun i => getD_byte y hy i
    have hbb : ∀ i, cb.getD i 0 < 256 := fun i => getD_byte cb hb i
    have hrb : ∀ i, cr.getD i 0 < 256 := fun i => getD_byte cr hr i
    rw [kernelByte_spec _ _ _ (by simp) (by simp) (by simp)
      (mem4 _ _ _ _ (hyb _) (ite_byte _ _ (hyb _)) (ite_byte _ _ (hyb _)) (by omega))
      (mem2 _ _ (hbb _) (ite_byte _ _ (hbb _)))
      (mem2 _ _ (hrb _) (ite_byte _ _ (hrb _)))
      j k (by omega) hk]
    have hax : (w - w % 4) % 2 = 0 := by omega
    rcases (show j = 0 ∨ j = 1 ∨ j = 2 by omega) with h | h | h <;> subst h
    · have c1 : (w - w % 4 + if 2 ≤ w % 4 then 1 else 0) / 2 = (w - w % 4) / 2 := by split <;> omega
      simp [hj, c1]
    · have h2 : 2 ≤ w % 4 := by omega
      have c1 : (w - w % 4 + 1) / 2 = (w - w % 4) / 2 := by omega
      simp [hj, h2, c1]
    · have h2 : 3 ≤ w % 4 := by omega
      have h2' : 2 ≤ w % 4 := by omega
      simp [hj, h2, h2']

end H263V.Lemmas.YuvPixel

namespace H263V.Lemmas.YuvPixel
open H263V H263V.Yuv H263V.Spec.Bt601 H263V.Lemmas.Yuv H263V.Lemmas.YuvImg

theorem pixel_at (y cb cr : Array Nat) (w h : Nat) (hw : 1 ≤ w) (hh : 1 ≤ h) (hys : y.size = w * h)
    (hbs : cb.size = ((w + 1) / 2) * ((h + 1) / 2)) (hrs : cr.size = ((w + 1) / 2) * ((h + 1) / 2))
    (hy : Bytes y) (hb : Bytes cb) (hr : Bytes cr) :
    ∃ out, yuv420ToRgba y cb cr w = .ok out ∧ out.size = 4 * (w * h) ∧
      ∀ x yy k, x < w → yy < h → k < 4 →
        yy * w + x < y.size ∧ yy / 2 * ((w + 1) / 2) + x / 2 < cb.size ∧ yy / 2 * ((w + 1) / 2) + x / 2 < cr.size ∧
        out[4 * (yy * w + x) + k]? =
          some (chan (pixel (y.getD (yy * w + x) 0) (cb.getD (yy / 2 * ((w + 1) / 2) + x / 2) 0)
            (cr.getD (yy / 2 * ((w + 1) / 2) + x / 2) 0)) k).toNat := by
  unfold yuv420ToRgba
  have hy0 : ¬ y.size = 0 := by
    rw [hys]; exact Nat.ne_of_gt (Nat.mul_pos (by omega) (by omega))
  have hw0 : ¬ w = 0 := by omega
  have hbrw : 0 < (w + 1) / 2 := by omega
  have hpre : precond y cb cr w = true := by
    unfold precond
    simp only [hys, hbs, hrs, Nat.mul_mod_right, Nat.mul_mod_right, beq_self_eq_true, Bool.and_true, Bool.true_and,
      Bool.and_self]
    rw [Nat.mul_div_cancel_left _ (by omega : 0 < w), Nat.mul_div_cancel_left _ hbrw]
    simp
  simp only [hy0, hw0, ↓reduceIte, hpre, Bool.not_true, Bool.false_eq_true]
  obtain ⟨bs, h1, h2, h3⟩ := mapM_range_some (outByte y cb cr w) (y.size * 4) (fun i _ => outByte_isSome y cb cr w hy hb hr i)
  rw [h1]
  refine ⟨bs.toArray, rfl, by simp [h2, hys]; omega, ?_⟩
  intro x yy k hx hyy hk
  have hidx : yy * w + x < w * h := by
    have : (yy + 1) * w ≤ h * w := Nat.mul_le_mul_right w (by omega)
    rw [Nat.add_mul, Nat.one_mul] at this
    rw [Nat.mul_comm w h]; omega
  have hcidx : yy / 2 * ((w + 1) / 2) + x / 2 < (w + 1) / 2 * ((h + 1) / 2) := by
    have : (yy / 2 + 1) * ((w + 1) / 2) ≤ ((h + 1) / 2) * ((w + 1) / 2) := Nat.mul_le_mul_right _ (by omega)
    rw [Nat.add_mul, Nat.one_mul] at this
    rw [Nat.mul_comm ((w + 1) / 2) ((h + 1) / 2)]
    have : x / 2 < (w + 1) / 2 := by omega
    omega
  refine ⟨by rw [hys]; exact hidx, by rw [hbs]; exact hcidx, by rw [hrs]; exact hcidx, ?_⟩
  have hi : 4 * (yy * w + x) + k < y.size * 4 := by rw [hys]; omega
  have hbl : 4 * (yy * w + x) + k < bs.length := by omega
  have := h3 _ hi hbl
  rw [outByte_pixel y cb cr w hw hy hb hr x yy k hx hk] at this
  simp only [List.getElem?_toArray, List.getElem?_eq_getElem hbl]
  exact this.symm ▸ rfl

end H263V.Lemmas.YuvPixel
