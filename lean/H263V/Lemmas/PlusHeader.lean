/-
The whole H.263 picture header with PLUSPTYPE: composition of the section round trips.
-/
import H263V.Lemmas.PlusRoundTrip
namespace H263V.Lemmas.PlusHeader
set_option linter.unusedSimpArgs false
open H263V H263V.Spec.Vlc H263V.Spec.Syntax H263V.Spec.HeaderSpec H263V.Lemmas.BitsLemmas H263V.Lemmas.ParseLemmas
open H263V.Lemmas.SorensonRoundTrip (readBits_one pei_round_trip encodePei_length)
open H263V.Lemmas.BaseRoundTrip (cpmBits cpm_round_trip dbquant_round_trip)
open H263V.Lemmas.PlusRoundTrip

/-- UFEP = 000: the header carries no OPPTYPE; the OPPTYPE-class modes are inherited -/
theorem round_trip_inherit (scal : Bool) (prev : Option PicHdr) (h : PlusHdr) (hv : Valid scal prev h) (hu : h.ufep = false)
    (rest : Bits) (pos : Nat) :
    Header.decodePicture { sorenson := false, scalability := scal } prev
        ⟨encodePlusHdr scal (Opt.has (oppInForce prev h) Opt.REFERENCE_PICTURE_SELECTION) h ++ rest, pos⟩ =
      .ok (some (plusPicture scal (prevOpts prev) h),
           ⟨rest, pos + (encodePlusHdr scal (Opt.has (oppInForce prev h) Opt.REFERENCE_PICTURE_SELECTION) h).length⟩) := by
  obtain ⟨mk1, mk2, mk3, mk4, mk5, mk6⟩ := hv.markers
  generalize hrin : Opt.has (oppInForce prev h) Opt.REFERENCE_PICTURE_SELECTION = rin
  have e : ∀ rest, encodePlusHdr scal rin h ++ rest =
      startCode ++ (natBits 5 0 ++ (natBits 8 h.tr ++ (natBits 8 (ptypeHigh7 h) ++ (plusptypeBits h ++ (cpmBits h.cpm ++
        ((if scal = true then natBits 4 h.elnum else []) ++
        ((if rin = true then trpBits h.trp ++ [false, true] else []) ++
        (natBits 5 h.quant ++ ((if h.picType = 2 then natBits 3 h.trb ++ natBits 2 h.dbquant else []) ++
        (encodePei h.extra ++ rest)))))))))) := by
    intro rest
    unfold encodePlusHdr plusptypeBits mppBits cpmBits trpBits
    rw [← ptypeHigh7_bits h]
    simp only [mk1, mk3, mk6, hu, Bool.false_eq_true, false_and, ↓reduceIte, List.append_assoc, List.nil_append, List.append_nil]
    cases scal <;> cases rin <;> simp <;> rfl
  rw [e]
  unfold Header.decodePicture transactionUnion
  simp only [bind_apply]
  rw [rsc_at_start]
  simp only [okOr_some]
  rw [skipBits_append startCode _ 17 pos (by simp [startCode, natBits_length])]
  simp only
  rw [readBits_natBits 8 5 0 (by omega) (by omega)]
  simp only [Bool.false_eq_true, ↓reduceIte, readU8, bind_apply, bne_self_eq_false]
  rw [readBits_natBits 8 8 h.tr (by omega) (by have := hv.tr; omega)]
  simp only
  have hpt := decodePtype_plus h
  rw [hpt]
  simp only
  rw [bind_apply, plusptype_round_trip _ _ h hv.sf hv.pt]
  simp only
  rw [bind_apply, cpm_round_trip h.cpm hv.cpm]
  simp only [pure_apply, hu, Bool.false_eq_true, ↓reduceIte, plusFol, Option.isSome_none]
  -- facts about the option set
  obtain ⟨a8, alt⟩ := and_opp_mod8 (Header.prevOptions prev)
  obtain ⟨_, o3lt⟩ := o3_eq h.split h.docCamera h.freezeRelease
  have hrpr := hv.norpr
  have hex : plusExtra (Header.prevOptions prev) h = (Header.prevOptions prev &&& Opt.OPPTYPE_OPTIONS) +
      (flag h.rru Opt.REDUCED_RESOLUTION_UPDATE + flag h.rtype Opt.ROUNDING_TYPE_ONE) := by
    unfold plusExtra; simp [hu, hrpr, flag, Nat.add_assoc]
  have hm : (flag h.rru Opt.REDUCED_RESOLUTION_UPDATE + flag h.rtype Opt.ROUNDING_TYPE_ONE) % 0x4000 = 0 := by
    cases h.rru <;> cases h.rtype <;> rfl
  have hor : o3 h ||| plusExtra (Header.prevOptions prev) h = o3 h + plusExtra (Header.prevOptions prev) h := by
    apply or_low8 _ _ o3lt
    rw [hex]; omega
  have hrps : Opt.has (o3 h + plusExtra (Header.prevOptions prev) h) Opt.REFERENCE_PICTURE_SELECTION = rin := by
    rw [hex, has_rps_total (o3 h) _ _ o3lt a8 alt (by omega), ← hrin]
    unfold oppInForce; simp [hu]
  have hnr : Opt.has (o3 h + plusExtra (Header.prevOptions prev) h) Opt.REFERENCE_PICTURE_RESAMPLING = false := by
    rw [hex]; exact has_rpr_total (o3 h) _ _ o3lt a8 alt hm
  have hfc : Header.formatChanged prev none = false := by
    have := hv.prevfmt
    unfold plusPicture at this
    simpa [hu] using this
  rw [hor]
  simp only [hrps, hnr, hfc, Bool.or_self, Bool.false_eq_true, ↓reduceIte]
  have hpb : (plusType h.picType).isAnyPb = decide (h.picType = 2) := by
    have := hv.pt
    rcases (show h.picType = 0 ∨ h.picType = 1 ∨ h.picType = 2 ∨ h.picType = 3 ∨ h.picType = 4 ∨ h.picType = 5 ∨ h.picType = 6 ∨ h.picType = 7 by omega) with e | e | e | e | e | e | e | e <;> rw [e] <;> rfl
  have hpei := fun (r : Bits) (p : Nat) => pei_round_trip h.extra hv.extra r ((encodePei h.extra ++ r).length + 1) [] p
    (by simp [encodePei_length]; omega)
  have htrb : h.trb < 8 := by have := hv.trb; simpa [hu] using this
  have htrb3 := trb_round_trip false h.trb (by simpa using htrb)
  simp only [Bool.false_eq_true, ↓reduceIte] at htrb3
  have hlenE := congrArg List.length (e [])
  simp only [List.append_nil, List.length_append, natBits_length, startCode] at hlenE
  have hel := elnum_round_trip ({} : Header.Followers) h.elnum h.rlnum hv.layers.1 hv.layers.2
  simp only [Bool.false_eq_true, ↓reduceIte, List.nil_append, Nat.add_zero] at hel
  have hin : Opt.has (Header.prevOptions prev &&& Opt.OPPTYPE_OPTIONS) Opt.REFERENCE_PICTURE_SELECTION = rin := by
    rw [← hrin]; unfold oppInForce; simp [hu]
  rw [hpb]
  cases scal <;> cases rin <;> by_cases hp2 : h.picType = 2 <;>
    simp only [hp2, Bool.false_eq_true, ↓reduceIte, decide_true, decide_false, pure_apply, bind_apply, List.nil_append, List.append_assoc,
      Header.decodePei, List.length_append, natBits_length, List.length_cons, List.length_nil] at hlenE ⊢
  all_goals (
    try rw [hel]
    try simp only [pure_apply, bind_apply]
    try rw [trpi_round_trip h.trp hv.trp]
    try simp only [pure_apply, bind_apply]
    try rw [bcm_round_trip]
    try simp only [pure_apply, bind_apply]
    rw [readBits_natBits 8 5 h.quant (by omega) (by have := hv.q; omega)]
    simp only [pure_apply, bind_apply]
    try rw [htrb3]
    try simp only [pure_apply, bind_apply, Bool.false_eq_true, ↓reduceIte]
    try rw [dbquant_round_trip h.dbquant hv.dbq]
    try simp only [pure_apply, bind_apply]
    rw [hpei]
    simp only [List.nil_append]
    refine congrArg Out.ok (Prod.ext ?_ ?_)
    · simp [plusPicture, hu, hp2, hrpr, hin, o3, plusExtra, plusType, flag, Nat.add_assoc, prevOpts]
      try (first | rfl | (intro hh; rfl))
    · simp only [hlenE]
      refine congrArg (Cur.mk rest) ?_
      omega)



theorem isSome_ite {α : Type} (b : Bool) (v : α) : (if b = true then some v else none).isSome = b := by cases b <;> rfl

theorem tr_section (b : Bool) (etr lo : Nat) (he : etr < 4) (hlo : lo < 256) (rest : Bits) (pos : Nat) :
    (if b = true then (readBits 16 2 >>= fun hi => pure ((hi <<< 8) ||| lo)) else pure lo : P Nat)
        ⟨(if b = true then natBits 2 etr else []) ++ rest, pos⟩ =
      .ok ((if b = true then etr * 256 + lo else lo), ⟨rest, pos + (if b = true then natBits 2 etr else []).length⟩) := by
  cases b
  · simp
  · simp only [↓reduceIte, bind_apply]
    rw [readBits_natBits 16 2 etr (by omega) (by omega)]
    simp [etr_combine etr lo hlo, natBits_length]

/-- UFEP = 001: the header carries OPPTYPE and the optional fields it announces -/
theorem round_trip_full (scal : Bool) (prev : Option PicHdr) (h : PlusHdr) (hv : Valid scal prev h) (hu : h.ufep = true)
    (rest : Bits) (pos : Nat) :
    Header.decodePicture { sorenson := false, scalability := scal } prev
        ⟨encodePlusHdr scal (Opt.has (oppInForce prev h) Opt.REFERENCE_PICTURE_SELECTION) h ++ rest, pos⟩ =
      .ok (some (plusPicture scal (prevOpts prev) h),
           ⟨rest, pos + (encodePlusHdr scal (Opt.has (oppInForce prev h) Opt.REFERENCE_PICTURE_SELECTION) h).length⟩) := by
  obtain ⟨mk1, mk2, mk3, mk4, mk5, mk6⟩ := hv.markers
  obtain ⟨op8, oplt, oprps⟩ := oppOptions_facts h
  have hrin : Opt.has (oppInForce prev h) Opt.REFERENCE_PICTURE_SELECTION = h.rps := by
    unfold oppInForce; rw [if_pos hu]; exact oprps
  rw [hrin]
  have e : ∀ rest, encodePlusHdr scal h.rps h ++ rest =
      startCode ++ (natBits 5 0 ++ (natBits 8 h.tr ++ (natBits 8 (ptypeHigh7 h) ++ (plusptypeBits h ++ (cpmBits h.cpm ++
        ((if (h.srcFmt == 6) = true then cpfmtBits h else []) ++
        ((if h.customPcf = true then natBits 8 h.cpcfc else []) ++
        ((if h.customPcf = true then natBits 2 h.etr else []) ++
        ((if h.umv = true then uuiBits h.uuiUnlimited else []) ++
        ((if h.ss = true then [h.sssRect, h.sssArb] else []) ++
        ((if scal = true then natBits 4 h.elnum ++ natBits 4 h.rlnum else []) ++
        ((if h.rps = true then natBits 3 h.rpsmf else []) ++
        ((if h.rps = true then trpBits h.trp ++ [false, true] else []) ++
        (natBits 5 h.quant ++ ((if h.picType = 2 then natBits (if h.customPcf = true then 5 else 3) h.trb ++ natBits 2 h.dbquant else []) ++
        (encodePei h.extra ++ rest)))))))))))))))) := by
    intro rest
    unfold encodePlusHdr plusptypeBits mppBits oppBits cpmBits trpBits cpfmtBits uuiBits
    rw [← ptypeHigh7_bits h]
    simp only [mk1, mk2, mk3, mk4, mk5, mk6, hu, true_and, ↓reduceIte, List.append_assoc, List.nil_append, List.append_nil, beq_iff_eq,
      Bool.false_eq_true]
    cases scal <;> cases h.customPcf <;> cases h.umv <;> cases h.ss <;> cases h.rps <;> simp <;> rfl
  rw [e]
  unfold Header.decodePicture transactionUnion
  simp only [bind_apply]
  rw [rsc_at_start]
  simp only [okOr_some]
  rw [skipBits_append startCode _ 17 pos (by simp [startCode, natBits_length])]
  simp only
  rw [readBits_natBits 8 5 0 (by omega) (by omega)]
  simp only [Bool.false_eq_true, ↓reduceIte, readU8, bind_apply, bne_self_eq_false]
  rw [readBits_natBits 8 8 h.tr (by omega) (by have := hv.tr; omega)]
  simp only
  have hpt := decodePtype_plus h
  rw [hpt]
  simp only
  rw [bind_apply, plusptype_round_trip _ _ h hv.sf hv.pt]
  simp only
  rw [bind_apply, cpm_round_trip h.cpm hv.cpm]
  simp only [pure_apply, hu, ↓reduceIte, plusFol]
  -- the optional sections that only produce a value
  rw [opt_section Header.decodeCpfmt (cpfmtBits h) (.extended (parOf h) ((h.pwi + 1) * 4) (h.phi * 4)) (h.srcFmt == 6)
    (fun hb r q => cpfmt_round_trip h (hv.cpfmt hu (by simpa using hb)) r q)]
  simp only
  rw [opt_section Header.decodeCpcfc (natBits 8 h.cpcfc) (Header.bit h.cpcfc 0x80, h.cpcfc &&& 0x7F) h.customPcf
    (fun _ r q => by rw [cpcfc_round_trip h.cpcfc hv.clock.1 r q]; simp [natBits_length])]
  simp only [isSome_ite]
  rw [tr_section h.customPcf h.etr h.tr hv.clock.2 hv.tr]
  simp only
  rw [opt_section Header.decodeUui (uuiBits h.uuiUnlimited) (if h.uuiUnlimited then MvRange.unlimited else .extended) h.umv
    (fun _ r q => uui_round_trip h.uuiUnlimited r q)]
  simp only
  rw [opt_section Header.decodeSss [h.sssRect, h.sssArb] (flag h.sssRect 1 + flag h.sssArb 2) h.ss
    (fun _ r q => by rw [sss_round_trip h.sssRect h.sssArb r q]; rfl)]
  simp only
  -- facts about the option set
  obtain ⟨_, o3lt⟩ := o3_eq h.split h.docCamera h.freezeRelease
  have hrpr := hv.norpr
  have hex : plusExtra (Header.prevOptions prev) h = oppOptions h +
      (flag h.rru Opt.REDUCED_RESOLUTION_UPDATE + flag h.rtype Opt.ROUNDING_TYPE_ONE) := by
    unfold plusExtra; simp [hu, hrpr, flag, Nat.add_assoc]
  have hm : (flag h.rru Opt.REDUCED_RESOLUTION_UPDATE + flag h.rtype Opt.ROUNDING_TYPE_ONE) % 0x4000 = 0 := by
    cases h.rru <;> cases h.rtype <;> rfl
  have hor : o3 h ||| plusExtra (Header.prevOptions prev) h = o3 h + plusExtra (Header.prevOptions prev) h := by
    apply or_low8 _ _ o3lt
    rw [hex]; omega
  have hrps : Opt.has (o3 h + plusExtra (Header.prevOptions prev) h) Opt.REFERENCE_PICTURE_SELECTION = h.rps := by
    rw [hex, has_rps_total (o3 h) _ _ o3lt op8 oplt (by omega), oprps]
  have hnr : Opt.has (o3 h + plusExtra (Header.prevOptions prev) h) Opt.REFERENCE_PICTURE_RESAMPLING = false := by
    rw [hex]; exact has_rpr_total (o3 h) _ _ o3lt op8 oplt hm
  have hfmtEq : (if (h.srcFmt == 6) = true then some (SrcFmt.extended (parOf h) ((h.pwi + 1) * 4) (h.phi * 4)) else plusFmt h.srcFmt) =
      (plusPicture scal (prevOpts prev) h).format := by
    have := hv.sf
    unfold plusPicture plusFmt
    simp only [hu, ↓reduceIte]
    rcases (show h.srcFmt = 0 ∨ h.srcFmt = 1 ∨ h.srcFmt = 2 ∨ h.srcFmt = 3 ∨ h.srcFmt = 4 ∨ h.srcFmt = 5 ∨ h.srcFmt = 6 ∨ h.srcFmt = 7 by omega) with e | e | e | e | e | e | e | e <;> simp [e, stdFmt]
  have hfc := hv.prevfmt
  rw [hor, hfmtEq]
  simp only [hrps, hnr, hfc, Bool.or_self, Bool.false_eq_true, ↓reduceIte]
  have hpb : (plusType h.picType).isAnyPb = decide (h.picType = 2) := by
    have := hv.pt
    rcases (show h.picType = 0 ∨ h.picType = 1 ∨ h.picType = 2 ∨ h.picType = 3 ∨ h.picType = 4 ∨ h.picType = 5 ∨ h.picType = 6 ∨ h.picType = 7 by omega) with e | e | e | e | e | e | e | e <;> rw [e] <;> rfl
  have hpei := fun (r : Bits) (p : Nat) => pei_round_trip h.extra hv.extra r ((encodePei h.extra ++ r).length + 1) [] p
    (by simp [encodePei_length]; omega)
  have htrbv : h.trb < (if h.customPcf = true then 32 else 8) := by have := hv.trb; simpa [hu] using this
  have htrb := trb_round_trip h.customPcf h.trb htrbv
  have hlenE := congrArg List.length (e [])
  simp only [List.append_nil, List.length_append, natBits_length, startCode] at hlenE
  have hel : ∀ (fol : Header.Followers) (r : Bits) (q : Nat), fol.refLayer = true →
      Header.decodeElnumRlnum fol ⟨natBits 4 h.elnum ++ natBits 4 h.rlnum ++ r, q⟩ = .ok ((h.elnum, some h.rlnum), ⟨r, q + 4 + 4⟩) := by
    intro fol r q hf
    have := elnum_round_trip fol h.elnum h.rlnum hv.layers.1 hv.layers.2 r q
    simpa [hf, List.append_assoc] using this
  rw [hpb]
  cases scal
  all_goals simp only [Bool.false_eq_true, ↓reduceIte, pure_apply, bind_apply, List.nil_append]
  case' true => (rw [hel _ _ _ rfl]; simp only)
  all_goals (
    rw [opt_section Header.decodeRpsmf (natBits 3 h.rpsmf)
      (flag (h.rpsmf / 4 % 2 = 0) 1 + flag (h.rpsmf / 2 % 2 = 1) 2 + flag (h.rpsmf % 2 = 1) 4) h.rps
      (fun _ r q => by rw [rpsmf_round_trip h.rpsmf hv.rpsmf r q]; simp [natBits_length])]
    simp only
    cases hrp : h.rps <;> by_cases hp2 : h.picType = 2 <;>
      simp only [hrp, hp2, Bool.false_eq_true, ↓reduceIte, decide_true, decide_false, pure_apply, bind_apply, List.nil_append,
        List.append_assoc, Header.decodePei, List.length_append, natBits_length, List.length_cons, List.length_nil] at hlenE ⊢)
  all_goals (
    try rw [trpi_round_trip h.trp hv.trp]
    try simp only [pure_apply, bind_apply]
    try rw [bcm_round_trip]
    try simp only [pure_apply, bind_apply]
    rw [readBits_natBits 8 5 h.quant (by omega) (by have := hv.q; omega)]
    simp only [pure_apply, bind_apply]
    try rw [htrb]
    try simp only [pure_apply, bind_apply]
    try rw [dbquant_round_trip h.dbquant hv.dbq]
    try simp only [pure_apply, bind_apply]
    rw [hpei]
    simp only [List.nil_append]
    refine congrArg Out.ok (Prod.ext ?_ ?_)
    · simp [plusPicture, hu, hp2, hrp, hrpr, oprps, o3, plusExtra, plusType, flag, Nat.add_assoc, prevOpts]
      all_goals rfl
    · simp only [hlenE]
      refine congrArg (Cur.mk rest) ?_
      omega)

/-- the H.263 picture header with PLUSPTYPE, both UFEP codes -/
theorem plus_round_trip (scal : Bool) (prev : Option PicHdr) (h : PlusHdr) (hv : Valid scal prev h)
    (rest : Bits) (pos : Nat) :
    Header.decodePicture { sorenson := false, scalability := scal } prev
        ⟨encodePlusHdr scal (Opt.has (oppInForce prev h) Opt.REFERENCE_PICTURE_SELECTION) h ++ rest, pos⟩ =
      .ok (some (plusPicture scal (prevOpts prev) h),
           ⟨rest, pos + (encodePlusHdr scal (Opt.has (oppInForce prev h) Opt.REFERENCE_PICTURE_SELECTION) h).length⟩) := by
  cases hu : h.ufep
  · exact round_trip_inherit scal prev h hv hu rest pos
  · exact round_trip_full scal prev h hv hu rest pos

end H263V.Lemmas.PlusHeader
