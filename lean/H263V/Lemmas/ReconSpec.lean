/-
The reconstruction step of `decode_next_picture` pointwise: every sample of the finished picture is
`clamp 0..255 (motion-compensated prediction + residual of the covering block)`.
-/
import H263V.Lemmas.GatherPic
import H263V.Model.State
namespace H263V.Lemmas.ReconSpec
open H263V H263V.State H263V.Gather H263V.Mv H263V.Mb H263V.Rle H263V.Idct
open H263V.Lemmas.GatherSpec H263V.Lemmas.IdctSpec H263V.Lemmas.GatherPic

/-- `idctAt` as a function of the sample's previous value -/
def idctVal (levels : Array Dct) (bpl spl size : Nat) (k : Nat) (old : Nat) : Nat :=
  if k / spl < size / spl ∧ k % spl / 8 < bpl ∧ k / spl / 8 < levels.size / bpl then
    blockAt levels[k % spl / 8 + k / spl / 8 * bpl]? (k % spl % 8) (k / spl % 8) old
  else old

theorem idctAt_eq (levels : Array Dct) (bpl spl : Nat) (orig : Array Nat) (k : Nat) :
    idctAt levels bpl spl orig k = idctVal levels bpl spl orig.size k (orig.getD k 0) := rfl

/-- **Predicted pictures, sample by sample.**  With a reference picture `r` of the picture's dimensions, whenever `reconstruct`
returns, each plane keeps its size and sample `k` of it is the residual of its covering block added, with clamping to 0..255, to
the motion-compensated prediction (`lumaAt` / `chromaAt`: interpolated reference for INTER macroblocks, the plane's initial
value - zero in a fresh picture - for INTRA ones). -/
theorem reconstruct_pointwise (types : Array MbType) (r : DecPic) (mvs : Array Mv4) (m w hh : Nat) (pic out : DecPic)
    (lumaLv cbLv crLv : Array Dct)
    (hdims : r.fmt.dims = some (w, hh)) (hw : 1 ≤ w) (hc : 1 ≤ r.chromaSpr) (hcs : pic.chromaSpr = r.chromaSpr) (hm : m ≠ 0)
    (hl : pic.luma.size = r.luma.size) (hb : pic.cb.size = r.cb.size) (hr : pic.cr.size = r.cr.size)
    (h : reconstruct types (some r) mvs m w pic lumaLv cbLv crLv = .ok out) :
    (out.luma.size = r.luma.size ∧ ∀ k, out.luma.getD k 0 =
      idctVal lumaLv (m * 2) w r.luma.size k (lumaAt types r mvs m w pic.luma k)) ∧
    (out.cb.size = r.cb.size ∧ ∀ k, out.cb.getD k 0 =
      idctVal cbLv m r.chromaSpr r.cb.size k (chromaAt types r.cb r.chromaSpr mvs m pic.cb k)) ∧
    (out.cr.size = r.cr.size ∧ ∀ k, out.cr.getD k 0 =
      idctVal crLv m r.chromaSpr r.cr.size k (chromaAt types r.cr r.chromaSpr mvs m pic.cr k)) := by
  unfold reconstruct at h
  obtain ⟨g, eg, h⟩ := out_bind_ok _ _ _ h
  obtain ⟨l, el, h⟩ := out_bind_ok _ _ _ h
  obtain ⟨b, eb, h⟩ := out_bind_ok _ _ _ h
  obtain ⟨c, ec, h⟩ := out_bind_ok _ _ _ h
  cases h
  obtain ⟨⟨sl, gl⟩, ⟨sb, gb⟩, ⟨sr, gr⟩, hk⟩ := gather_pointwise types r mvs m pic g w hh hdims hw hc hm hl hb hr eg
  have hgc : g.chromaSpr = r.chromaSpr := by rw [hk, hcs]
  rw [hgc] at eb ec
  obtain ⟨s1, v1⟩ := idctChannel_spec lumaLv g.luma (m * 2) w (by omega) hw l el
  obtain ⟨s2, v2⟩ := idctChannel_spec cbLv g.cb m r.chromaSpr (by omega) hc b eb
  obtain ⟨s3, v3⟩ := idctChannel_spec crLv g.cr m r.chromaSpr (by omega) hc c ec
  refine ⟨⟨by simp [s1, sl], fun k => ?_⟩, ⟨by simp [s2, sb], fun k => ?_⟩, ⟨by simp [s3, sr], fun k => ?_⟩⟩
  · show l.getD k 0 = _
    rw [v1 k, idctAt_eq, sl, gl k]
  · show b.getD k 0 = _
    rw [v2 k, idctAt_eq, sb, gb k]
  · show c.getD k 0 = _
    rw [v3 k, idctAt_eq, sr, gr k]

/-- a zero vector predicts the co-located reference sample: not-coded macroblocks are exact copies -/
theorem predSample_zero (px : Array Nat) (spr : Nat) (hs : 1 ≤ spr) (k : Nat) (hk : k / spr < px.size / spr) :
    predSample px spr (0, 0) k = px.getD k 0 := by
  unfold predSample
  have e : lerpParams 0 = (0, false) := by decide
  simp only [e]
  unfold predAt
  simp only [Bool.not_false, Bool.and_self, ↓reduceIte, Int.add_zero]
  rw [refAt_inrange px spr (px.size / spr) (k % spr) (k / spr) (Nat.mod_lt _ (by omega)) hk, idx_of_div_mod]

/-- **Not-coded macroblocks (COD = 1, and the ones a picture that ends early leaves out) are exact copies**: an INTER macroblock
with zero vectors whose luma slot holds no coefficients reproduces the co-located reference sample. -/
theorem not_coded_copies (types : Array MbType) (r : DecPic) (mvs : Array Mv4) (m w : Nat) (hw : 1 ≤ w) (orig : Array Nat)
    (lumaLv : Array Dct) (k : Nat) (h1 : k / w < r.luma.size / w) (h2 : k % w / 16 < m)
    (hi : k % w / 16 + k / w / 16 * m < min types.size mvs.size)
    (ht : (types.getD (k % w / 16 + k / w / 16 * m) .inter).isInter = true)
    (hmv : mvs.getD (k % w / 16 + k / w / 16 * m) zeroMv4 = zeroMv4)
    (hlv : ∀ d, lumaLv[k % w / 8 + k / w / 8 * (m * 2)]? = some d → d = .zero) :
    idctVal lumaLv (m * 2) w r.luma.size k (lumaAt types r mvs m w orig k) = r.luma.getD k 0 := by
  have hl : lumaAt types r mvs m w orig k = r.luma.getD k 0 := by
    unfold lumaAt
    rw [if_pos ⟨h1, h2, hi, ht⟩, hmv]
    have : mvSel zeroMv4 (k % w % 16 / 8) (k / w % 16 / 8) = (0, 0) := by
      unfold mvSel zeroMv4
      split <;> split <;> rfl
    rw [this]
    exact predSample_zero r.luma w hw k h1
  rw [hl]
  unfold idctVal
  split
  · unfold blockAt
    cases hd : lumaLv[k % w / 8 + k / w / 8 * (m * 2)]? with
    | none => rfl
    | some d =>
      rw [hlv d hd]
      simp [blockResidual]
  · rfl

theorem gather_no_inter (types : Array MbType) (ref : Option DecPic) (mvs : Array Mv4) (m : Nat) (pic : DecPic)
    (hall : ∀ i, i < types.size → (types.getD i .inter).isInter = false) : gather types ref mvs m pic = .ok pic := by
  unfold gather
  have : ∀ (l : List Nat), (∀ i ∈ l, i < types.size) → ∀ a : DecPic, l.foldlM (fun pic i =>
      if (types.getD i .inter).isInter then
        match ref with
        | none => .err .uncodedIFrame
        | some r =>
          if r.fmt.dims != pic.fmt.dims then .err .formatInvalid else
          match r.fmt.dims with
          | none => .panic "unwrap on None: luma_samples_per_row"
          | some (w, _) =>
            if m = 0 then .panic "remainder by zero" else do
            let mv := mvs.getD i zeroMv4
            let px := (i % m) * 16
            let py := (i / m) * 16
            let l ← gatherBlock r.luma w (px, py) mv.1 pic.luma
            let l ← gatherBlock r.luma w (px + 8, py) mv.2.1 l
            let l ← gatherBlock r.luma w (px, py + 8) mv.2.2.1 l
            let l ← gatherBlock r.luma w (px + 8, py + 8) mv.2.2.2 l
            let mvc := mvAdd (mvAdd (mvAdd mv.1 mv.2.1) mv.2.2.1) mv.2.2.2
            let mvc : Mv := (averageSum mvc.1, averageSum mvc.2)
            let cx := (i % m) * 8
            let cy := (i / m) * 8
            let b ← gatherBlock r.cb r.chromaSpr (cx, cy) mvc pic.cb
            let c ← gatherBlock r.cr r.chromaSpr (cx, cy) mvc pic.cr
            pure { pic with luma := l, cb := b, cr := c }
      else (.ok pic : Out DecPic)) a = .ok a := by
    intro l
    induction l with
    | nil => intro _ a; rfl
    | cons i is ih =>
      intro hl a
      rw [List.foldlM_cons, hall i (hl i (by simp))]
      simp only [Bool.false_eq_true, ↓reduceIte, Out.bind_ok]
      exact ih (fun j hj => hl j (by simp [hj])) a
  exact this _ (fun i hi => by rw [List.mem_range] at hi; omega) pic

/-- **Intra pictures, sample by sample.**  When no macroblock is INTER (every I picture), whatever the reference: each sample is
the residual of its covering block added to the plane's initial value (zero in a fresh picture), clamped to 0..255. -/
theorem reconstruct_intra (types : Array MbType) (ref : Option DecPic) (mvs : Array Mv4) (m w : Nat) (pic out : DecPic)
    (lumaLv cbLv crLv : Array Dct) (hw : 1 ≤ w) (hc : 1 ≤ pic.chromaSpr) (hm : m ≠ 0)
    (hall : ∀ i, i < types.size → (types.getD i .inter).isInter = false)
    (h : reconstruct types ref mvs m w pic lumaLv cbLv crLv = .ok out) :
    (out.luma.size = pic.luma.size ∧ ∀ k, out.luma.getD k 0 = idctVal lumaLv (m * 2) w pic.luma.size k (pic.luma.getD k 0)) ∧
    (out.cb.size = pic.cb.size ∧ ∀ k, out.cb.getD k 0 = idctVal cbLv m pic.chromaSpr pic.cb.size k (pic.cb.getD k 0)) ∧
    (out.cr.size = pic.cr.size ∧ ∀ k, out.cr.getD k 0 = idctVal crLv m pic.chromaSpr pic.cr.size k (pic.cr.getD k 0)) := by
  unfold reconstruct at h
  rw [gather_no_inter types ref mvs m pic hall] at h
  simp only [Out.bind_ok] at h
  obtain ⟨l, el, h⟩ := out_bind_ok _ _ _ h
  obtain ⟨b, eb, h⟩ := out_bind_ok _ _ _ h
  obtain ⟨c, ec, h⟩ := out_bind_ok _ _ _ h
  cases h
  obtain ⟨s1, v1⟩ := idctChannel_spec lumaLv pic.luma (m * 2) w (by omega) hw l el
  obtain ⟨s2, v2⟩ := idctChannel_spec cbLv pic.cb m pic.chromaSpr (by omega) hc b eb
  obtain ⟨s3, v3⟩ := idctChannel_spec crLv pic.cr m pic.chromaSpr (by omega) hc c ec
  exact ⟨⟨s1, fun k => by show l.getD k 0 = _; rw [v1 k, idctAt_eq]⟩, ⟨s2, fun k => by show b.getD k 0 = _; rw [v2 k, idctAt_eq]⟩,
    ⟨s3, fun k => by show c.getD k 0 = _; rw [v3 k, idctAt_eq]⟩⟩

end H263V.Lemmas.ReconSpec
