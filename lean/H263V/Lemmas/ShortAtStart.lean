/-
A short picture that ends at the NEXT picture's start code (standard H.263 mode): the macroblock parse fails on the start code,
`decode_gob` finds a picture start code (group number 0) and the loop stops — the picture is completed with not-coded macroblocks
and the reader stays in front of the stuffing, exactly as at an early end of the data.
-/
import H263V.Lemmas.TruncatedAny
namespace H263V.Lemmas.ShortAtStart
open H263V H263V.State H263V.Mb H263V.Mv H263V.Spec.Vlc H263V.Spec.Syntax
open H263V.Lemmas.RoundTrip H263V.Lemmas.PictureRoundTrip H263V.Lemmas.SorensonPicture H263V.Lemmas.BitsLemmas
open H263V.Lemmas.ParseLemmas H263V.Lemmas.Truncated H263V.Lemmas.TruncatedAny H263V.Lemmas.StreamAny
open H263V.Lemmas.BasePicture H263V.Lemmas.PlusPicture H263V.Spec.HeaderSpec

/-- a macroblock cannot start with (up to seven zero bits and) a start code: the MCBPC code of nine or more zeros is invalid -/
theorem mb_at_startcode (hdr : PicHdr) (running : Nat) (ip : Bool) (ctx : HdrCtx hdr running ip) (k : Nat) (hk : k ≤ 7) (x : Bits)
    (p : Nat) : decodeMacroblock hdr running ⟨zeros k ++ (startCode ++ x), p⟩ = .err .invalidMbHeader := by
  have hp := ctx.ptype
  unfold decodeMacroblock
  have : k = 0 ∨ k = 1 ∨ k = 2 ∨ k = 3 ∨ k = 4 ∨ k = 5 ∨ k = 6 ∨ k = 7 := by omega
  cases ip with
  | true =>
    simp only [↓reduceIte] at hp
    simp only [hp, ↓reduceIte]
    rcases this with h | h | h | h | h | h | h | h <;> subst h <;> rfl
  | false =>
    simp only [Bool.false_eq_true, ↓reduceIte] at hp
    rcases hp with hp | hp <;> simp only [hp] <;>
      rcases this with h | h | h | h | h | h | h | h <;> subst h <;> rfl

/-- `decode_gob` in front of a PICTURE start code (group number 0) within the alignment window: recognised, nothing consumed -/
theorem gob_at_picture_start (k : Nat) (hk : k ≤ 7) (y : Bits) (p : Nat)
    (hwin : k ≤ realignmentBits ⟨zeros k ++ (startCode ++ (natBits 5 0 ++ y)), p⟩ + 1) :
    Header.decodeGob ⟨zeros k ++ (startCode ++ (natBits 5 0 ++ y)), p⟩ = .ok ((), ⟨zeros k ++ (startCode ++ (natBits 5 0 ++ y)), p⟩) := by
  have hr : recognizeStartCode false ⟨zeros k ++ (startCode ++ (natBits 5 0 ++ y)), p⟩ =
      .ok (some k, ⟨zeros k ++ (startCode ++ (natBits 5 0 ++ y)), p⟩) := by
    unfold recognizeStartCode
    rw [rsc_zeros _ _ k _ 0 p (by omega) (by omega) (by simp [zeros]; omega)]
    simp
  have hsk : skipBits (17 + k) ⟨zeros k ++ (startCode ++ (natBits 5 0 ++ y)), p⟩ = .ok ((), ⟨natBits 5 0 ++ y, p + k + 17⟩) := by
    have := skipBits_append (zeros k ++ startCode) (natBits 5 0 ++ y) (17 + k) p (by simp [zeros, startCode, natBits_length]; omega)
    rw [List.append_assoc] at this
    rw [this]
    congr 3
    omega
  unfold Header.decodeGob
  simp only [bind_apply, hr, okOr_some, hsk]
  have hrd := readBits_natBits 8 5 0 (by omega) (by decide) y (p + k + 17)
  simp only [hrd]
  rfl

/-- the stop condition of `decodeCore_encode_stop` at the next picture's start code, standard mode -/
theorem stop_at_picture_start (d : DecOpts) (hd : d.sorenson = false) (hdr : PicHdr) (dims : Option (Nat × Nat)) (running w total : Nat)
    (hw : w ≠ 0) (ip : Bool) (ctx : HdrCtx hdr running ip) (k : Nat) (hk : k ≤ 7) (y : Bits) (E : Nat)
    (hwin : k ≤ realignmentBits ⟨zeros k ++ (startCode ++ (natBits 5 0 ++ y)), E⟩ + 1) (l : Loop) (hl : l.types.size < total) :
    mbStep d hdr dims running w total { l with cur := ⟨zeros k ++ (startCode ++ (natBits 5 0 ++ y)), E⟩ } =
      .ok (.stop { l with cur := ⟨zeros k ++ (startCode ++ (natBits 5 0 ++ y)), E⟩ }) := by
  unfold mbStep
  simp only
  rw [if_neg (by omega), if_neg hw, mb_at_startcode hdr running ip ctx k hk _ E]
  simp only [hd, Bool.not_false, and_true, true_or, ↓reduceIte]
  rw [gob_at_picture_start k hk y E hwin]

/-- **A short picture that ends at the next picture's start code** (standard mode, baseline or PLUSPTYPE header): the described
macroblocks, fewer than eight zero bits inside the alignment window, then a picture start code (group number 0) and anything.
The call behaves as at an early end of the data — the bit-free semantics of the macroblocks that are there, completed with
not-coded macroblocks — and the reader stays in front of the stuffing: the next call finds the next picture. -/
theorem decode_pic_short_at_start (s : State) (hr : s.running = 0) (hstd : s.opts.sorenson = false) (p : Pic) (w h : Nat)
    (hv : p.Valid s w h) (n k : Nat) (hk : k ≤ 7) (y : Bits) (pos : Nat)
    (hwin : k ≤ realignmentBits ⟨[], pos + ((cut n p).bits s).length⟩ + 1) :
    decodeNextPicture s ⟨(cut n p).bits s ++ (zeros k ++ (startCode ++ (natBits 5 0 ++ y))), pos⟩ =
      semCore s (p.picture s) (p.mbs.take n) >>= fun r =>
        .ok (commitPic s r.1 r.2, ⟨zeros k ++ (startCode ++ (natBits 5 0 ++ y)), pos + ((cut n p).bits s).length⟩) := by
  cases p with
  | sor p => obtain ⟨hs, _⟩ := hv; rw [hstd] at hs; cases hs
  | base p =>
    obtain ⟨hs, hv, hprev⟩ := hv
    unfold decodeNextPicture cut Pic.bits BPic.bits Pic.picture Pic.mbs at *
    simp only at *
    rw [List.append_assoc]
    have hctx : HdrCtx (basePicture p.hdr) (nextRunning (basePicture p.hdr) s.running) (!p.hdr.inter) := by
      rw [hr]; exact base_ctx p.hdr hv.nopb
    rw [decodeCore_encode_stop s (encodeBaseHdr p.hdr) (basePicture p.hdr) (!p.hdr.inter) (p.mbs.take n) w h
      (fun r q => by
        rw [hs]
        exact BaseRoundTrip.round_trip p.hdr hv.hdr _ (by
          intro ph hph
          cases hl : s.getLast with
          | none => rw [hl] at hph; simp at hph
          | some q0 =>
            rw [hl] at hph
            simp only [Option.map_some, Option.some.injEq] at hph
            rw [← hph]; exact hprev q0 hl) r q)
      (by unfold dimsOf; simp only [basePicture]; exact hv.dims)
      (by simp only [List.length_take]; have := hv.count; omega) hctx
      (fun m hm => hv.mbs m (List.mem_of_mem_take hm)) _ pos
      (fun l hl => stop_at_picture_start s.opts hstd _ _ _ _ _ (by intro h0; rw [h0] at hl; simp at hl) _ hctx k hk y _ (by
        simp only [List.length_append] at hwin
        unfold realignmentBits at hwin ⊢
        simp only [Nat.add_assoc] at hwin ⊢
        exact hwin) l hl)]
    cases semCore s (basePicture p.hdr) (p.mbs.take n) with
    | ok r => simp [Nat.add_assoc]
    | err e => rfl
    | panic m => rfl
    | fuel => rfl
  | plus p =>
    obtain ⟨hs, hv⟩ := hv
    unfold decodeNextPicture cut Pic.bits PPic.bits Pic.picture Pic.mbs at *
    simp only at *
    rw [List.append_assoc]
    have hopts : s.opts = { sorenson := false, scalability := s.opts.scalability } := by
      cases ho : s.opts; rw [ho] at hs; simp only at hs; rw [hs]
    have hctx := plus_ctx s p w h hv
    have e1 : PPic.rin s { hdr := p.hdr, mbs := p.mbs.take n } = PPic.rin s p := rfl
    rw [e1] at hwin ⊢
    rw [decodeCore_encode_stop s (encodePlusHdr s.opts.scalability (p.rin s) p.hdr) (p.picture s) (p.hdr.picType == 0) (p.mbs.take n) w h
      (fun r q => by rw [hopts]; exact PlusHeader.plus_round_trip _ _ p.hdr hv.hdr r q)
      hv.dims (by simp only [List.length_take]; have := hv.count; omega) hctx
      (fun m hm => hv.mbs m (List.mem_of_mem_take hm)) _ pos
      (fun l hl => stop_at_picture_start s.opts hstd _ _ _ _ _ (by intro h0; rw [h0] at hl; simp at hl) _ hctx k hk y _ (by
        simp only [List.length_append] at hwin
        unfold realignmentBits at hwin ⊢
        simp only [Nat.add_assoc] at hwin ⊢
        exact hwin) l hl)]
    cases semCore s (p.picture s) (p.mbs.take n) with
    | ok r => simp [Nat.add_assoc]
    | err e => rfl
    | panic m => rfl
    | fuel => rfl

/-- a standard-mode picture (PTYPE or PLUSPTYPE header) begins with the 22-bit picture start code: start code, group number 0 -/
theorem std_bits_start (s' : State) (q : Pic) (hq : ∀ x, q ≠ .sor x) (rest : Bits) :
    ∃ y, q.bits s' ++ rest = startCode ++ (natBits 5 0 ++ y) := by
  cases q with
  | sor x => exact absurd rfl (hq x)
  | base x => unfold Pic.bits BPic.bits encodeBaseHdr; simp only [List.append_assoc]; exact ⟨_, rfl⟩
  | plus x => unfold Pic.bits PPic.bits encodePlusHdr; simp only [List.append_assoc]; exact ⟨_, rfl⟩

/-- **A short picture followed by the next picture of the stream**: as `decode_pic_short_at_start`, with the tail being fewer than
eight zero bits and the next standard-mode picture `q` (written for any decoder state `s'`) and anything behind it. -/
theorem decode_pic_short_then_next (s : State) (hr : s.running = 0) (hstd : s.opts.sorenson = false) (p : Pic) (w h : Nat)
    (hv : p.Valid s w h) (n k : Nat) (hk : k ≤ 7) (s' : State) (q : Pic) (hq : ∀ x, q ≠ .sor x) (rest : Bits) (pos : Nat)
    (hwin : k ≤ realignmentBits ⟨[], pos + ((cut n p).bits s).length⟩ + 1) :
    decodeNextPicture s ⟨(cut n p).bits s ++ (zeros k ++ (q.bits s' ++ rest)), pos⟩ =
      semCore s (p.picture s) (p.mbs.take n) >>= fun r =>
        .ok (commitPic s r.1 r.2, ⟨zeros k ++ (q.bits s' ++ rest), pos + ((cut n p).bits s).length⟩) := by
  obtain ⟨y, hy⟩ := std_bits_start s' q hq rest
  rw [hy]
  exact decode_pic_short_at_start s hr hstd p w h hv n k hk y pos hwin

end H263V.Lemmas.ShortAtStart
