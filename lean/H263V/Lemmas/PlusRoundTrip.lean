/-
H.263 picture header with PLUSPTYPE (UFEP, OPPTYPE, MPPTYPE and the optional fields they announce): the parser inverts
the specification encoder.
-/
import H263V.Lemmas.BaseRoundTrip
import H263V.Lemmas.PeekLoop
namespace H263V.Lemmas.PlusRoundTrip
set_option linter.unusedSimpArgs false
open H263V H263V.Spec.Vlc H263V.Spec.Syntax H263V.Spec.HeaderSpec H263V.Lemmas.BitsLemmas H263V.Lemmas.ParseLemmas
open H263V.Lemmas.SorensonRoundTrip (readBits_one pei_round_trip encodePei_length)

/-! ### reading a field written as an arbitrary bit list; bit tests on its value -/

theorem readBits_list (W n : Nat) (l : Bits) (hl : l.length = n) (hn : n ≤ W) (rest : Bits) (pos : Nat) :
    readBits W n ⟨l ++ rest, pos⟩ = .ok (ofBits l, ⟨rest, pos + n⟩) := by
  unfold readBits peekBits skipBits
  have h1 : ¬ n > W := by omega
  simp only [h1, ↓reduceIte]
  by_cases h0 : n = 0
  · subst h0
    have : l = [] := List.eq_nil_of_length_eq_zero hl
    subst this
    simp [ofBits, Out.bind]
  · have hlen : ¬ (l ++ rest).length < n := by simp [hl]
    simp only [h0, ↓reduceIte, hlen]
    have ht : (l ++ rest).take n = l := by
      rw [List.take_append_of_le_length (by omega), List.take_of_length_le (by omega)]
    have hd : (l ++ rest).drop n = rest := by
      rw [List.drop_append_of_le_length (by omega), List.drop_of_length_le (by omega)]; simp
    simp only [ht, hd, Out.bind]

/-- testing one bit of a value: `v & 2^k != 0` iff the `k`-th binary digit is one -/
theorem bit_pow (v k : Nat) : Header.bit v (2 ^ k) = decide (v / 2 ^ k % 2 = 1) := by
  unfold Header.bit
  rw [← Nat.testBit_eq_decide_div_mod_eq]
  have : v &&& 2 ^ k = if v.testBit k then 2 ^ k else 0 := by
    apply Nat.eq_of_testBit_eq
    intro j
    rw [Nat.testBit_and, Nat.testBit_two_pow]
    by_cases hj : k = j
    · subst hj
      cases hv : v.testBit k <;> simp [hv, Nat.testBit_two_pow_self]
    · cases hv : v.testBit k <;> simp [hj, Nat.testBit_two_pow_of_ne hj]
  rw [this]
  cases v.testBit k
  · simp
  · simp

/-- extracting an `m`-bit field at bit `k` with a mask and a shift -/
theorem and_shift (v k m : Nat) : (v &&& ((2 ^ m - 1) * 2 ^ k)) >>> k = v / 2 ^ k % 2 ^ m := by
  apply Nat.eq_of_testBit_eq
  intro j
  rw [Nat.testBit_shiftRight, Nat.testBit_and, Nat.testBit_mul_two_pow, Nat.testBit_two_pow_sub_one, Nat.testBit_mod_two_pow,
    Nat.testBit_div_two_pow]
  have : (k + j) - k = j := by omega
  simp only [Nat.le_add_right, decide_true, Bool.true_and, this]
  cases decide (j < m) <;> simp [Nat.add_comm]


/-- weight of a flag bit -/
def w (b : Bool) (k : Nat) : Nat := if b then k else 0

theorem w_cases (b : Bool) (k : Nat) : (b = false ∧ w b k = 0) ∨ (b = true ∧ w b k = k) := by
  cases b <;> simp [w]

theorem w_le (b : Bool) (k : Nat) : w b k ≤ k := by cases b <;> simp [w]

/-- a flag weight is a multiple of its weight: `w b k = k * (0 or 1)` -/
theorem w_mul (b : Bool) (k : Nat) : ∃ e, e ≤ 1 ∧ w b k = k * e := by
  cases b
  · exact ⟨0, by omega, by simp [w]⟩
  · exact ⟨1, by omega, by simp [w]⟩

theorem ofBits_cons' (b : Bool) (bs : Bits) : ofBits (b :: bs) = w b (2 ^ bs.length) + ofBits bs := by
  rw [ofBits_cons]; cases b <;> simp [w]

theorem and_low (v m : Nat) : v &&& (2 ^ m - 1) = v % 2 ^ m := Nat.and_two_pow_sub_one_eq_mod v m

/-- the value of the 18 OPPTYPE bits -/
def oppVal (sf : Nat) (cp umv sac ap aic df ss rps isd aiv mq : Bool) (tail : Nat) : Nat :=
  sf * 32768 + w cp 16384 + w umv 8192 + w sac 4096 + w ap 2048 + w aic 1024 + w df 512 + w ss 256 + w rps 128 + w isd 64 +
    w aiv 32 + w mq 16 + tail

theorem opp_bits (sf : Nat) (hsf : sf < 8) (cp umv sac ap aic df ss rps isd aiv mq : Bool) (tail : Nat) (ht : tail < 16) :
    ofBits (natBits 3 sf ++ ([cp, umv, sac, ap, aic, df, ss, rps, isd, aiv, mq] ++ natBits 4 tail)) =
      oppVal sf cp umv sac ap aic df ss rps isd aiv mq tail := by
  rw [PeekLoop.ofBits_append, ofBits_natBits 3 sf (by omega)]
  simp only [List.cons_append, List.nil_append, ofBits_cons', List.length_cons, natBits_length, ofBits_natBits 4 tail (by omega)]
  unfold oppVal
  simp only [Nat.reduceAdd, Nat.reducePow]
  omega

theorem opp_facts (sf : Nat) (hsf : sf < 8) (cp umv sac ap aic df ss rps isd aiv mq : Bool) (tail : Nat) (ht : tail < 16) :
    let V := oppVal sf cp umv sac ap aic df ss rps isd aiv mq tail
    V < 2 ^ 18 ∧ V &&& 0xF = tail ∧ (V &&& 0x38000) >>> 15 = sf ∧ Header.bit V 0x04000 = cp ∧ Header.bit V 0x02000 = umv ∧
    Header.bit V 0x01000 = sac ∧ Header.bit V 0x00800 = ap ∧ Header.bit V 0x00400 = aic ∧ Header.bit V 0x00200 = df ∧
    Header.bit V 0x00100 = ss ∧ Header.bit V 0x00080 = rps ∧ Header.bit V 0x00040 = isd ∧ Header.bit V 0x00020 = aiv ∧
    Header.bit V 0x00010 = mq := by
  intro V
  have e4 : (0xF : Nat) = 2 ^ 4 - 1 := rfl
  have e15 : (0x38000 : Nat) = (2 ^ 3 - 1) * 2 ^ 15 := rfl
  have p14 : (0x04000 : Nat) = 2 ^ 14 := rfl
  have p13 : (0x02000 : Nat) = 2 ^ 13 := rfl
  have p12 : (0x01000 : Nat) = 2 ^ 12 := rfl
  have p11 : (0x00800 : Nat) = 2 ^ 11 := rfl
  have p10 : (0x00400 : Nat) = 2 ^ 10 := rfl
  have p9 : (0x00200 : Nat) = 2 ^ 9 := rfl
  have p8 : (0x00100 : Nat) = 2 ^ 8 := rfl
  have p7 : (0x00080 : Nat) = 2 ^ 7 := rfl
  have p6 : (0x00040 : Nat) = 2 ^ 6 := rfl
  have p5 : (0x00020 : Nat) = 2 ^ 5 := rfl
  have p4 : (0x00010 : Nat) = 2 ^ 4 := rfl
  rw [e4, e15, p14, p13, p12, p11, p10, p9, p8, p7, p6, p5, p4, and_low, and_shift]
  simp only [bit_pow]
  have hV : V = oppVal sf cp umv sac ap aic df ss rps isd aiv mq tail := rfl
  unfold oppVal at hV
  have b1 := w_le cp 16384; have b2 := w_le umv 8192; have b3 := w_le sac 4096; have b4 := w_le ap 2048
  have b5 := w_le aic 1024; have b6 := w_le df 512; have b7 := w_le ss 256; have b8 := w_le rps 128
  have b9 := w_le isd 64; have b10 := w_le aiv 32; have b11 := w_le mq 16
  have m1 := w_mul cp 16384; have m2 := w_mul umv 8192; have m3 := w_mul sac 4096; have m4 := w_mul ap 2048
  have m5 := w_mul aic 1024; have m6 := w_mul df 512; have m7 := w_mul ss 256; have m8 := w_mul rps 128
  have m9 := w_mul isd 64; have m10 := w_mul aiv 32; have m11 := w_mul mq 16
  refine ⟨by omega, by omega, by omega, ?_, ?_, ?_, ?_, ?_, ?_, ?_, ?_, ?_, ?_, ?_⟩
  · rcases w_cases cp 16384 with ⟨c, d⟩ | ⟨c, d⟩ <;> (rw [c]; simp only [decide_eq_true_eq, decide_eq_false_iff_not]; omega)
  · rcases w_cases umv 8192 with ⟨c, d⟩ | ⟨c, d⟩ <;> (rw [c]; simp only [decide_eq_true_eq, decide_eq_false_iff_not]; omega)
  · rcases w_cases sac 4096 with ⟨c, d⟩ | ⟨c, d⟩ <;> (rw [c]; simp only [decide_eq_true_eq, decide_eq_false_iff_not]; omega)
  · rcases w_cases ap 2048 with ⟨c, d⟩ | ⟨c, d⟩ <;> (rw [c]; simp only [decide_eq_true_eq, decide_eq_false_iff_not]; omega)
  · rcases w_cases aic 1024 with ⟨c, d⟩ | ⟨c, d⟩ <;> (rw [c]; simp only [decide_eq_true_eq, decide_eq_false_iff_not]; omega)
  · rcases w_cases df 512 with ⟨c, d⟩ | ⟨c, d⟩ <;> (rw [c]; simp only [decide_eq_true_eq, decide_eq_false_iff_not]; omega)
  · rcases w_cases ss 256 with ⟨c, d⟩ | ⟨c, d⟩ <;> (rw [c]; simp only [decide_eq_true_eq, decide_eq_false_iff_not]; omega)
  · rcases w_cases rps 128 with ⟨c, d⟩ | ⟨c, d⟩ <;> (rw [c]; simp only [decide_eq_true_eq, decide_eq_false_iff_not]; omega)
  · rcases w_cases isd 64 with ⟨c, d⟩ | ⟨c, d⟩ <;> (rw [c]; simp only [decide_eq_true_eq, decide_eq_false_iff_not]; omega)
  · rcases w_cases aiv 32 with ⟨c, d⟩ | ⟨c, d⟩ <;> (rw [c]; simp only [decide_eq_true_eq, decide_eq_false_iff_not]; omega)
  · rcases w_cases mq 16 with ⟨c, d⟩ | ⟨c, d⟩ <;> (rw [c]; simp only [decide_eq_true_eq, decide_eq_false_iff_not]; omega)

end H263V.Lemmas.PlusRoundTrip
