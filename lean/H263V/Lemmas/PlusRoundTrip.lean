/-
H.263 picture header with PLUSPTYPE (UFEP, OPPTYPE, MPPTYPE and the optional fields they announce): the parser inverts
the specification encoder.
-/
import H263V.Lemmas.BaseRoundTrip
import H263V.Lemmas.PeekLoop
namespace H263V.Lemmas.PlusRoundTrip
set_option linter.unusedSimpArgs false
open H263V H263V.Spec.Vlc H263V.Spec.Syntax H263V.Spec.HeaderSpec H263V.Lemmas.BitsLemmas H263V.Lemmas.ParseLemmas
open H263V.Lemmas.SorensonRoundTrip (readBits_one pei_round_trip encodePei_length)

/-! ### reading a field written as an arbitrary bit list; bit tests on its value -/

theorem readBits_list (W n : Nat) (l : Bits) (hl : l.length = n) (hn : n ≤ W) (rest : Bits) (pos : Nat) :
    readBits W n ⟨l ++ rest, pos⟩ = .ok (ofBits l, ⟨rest, pos + n⟩) := by
  unfold readBits peekBits skipBits
  have h1 : ¬ n > W := by omega
  simp only [h1, ↓reduceIte]
  by_cases h0 : n = 0
  · subst h0
    have : l = [] := List.eq_nil_of_length_eq_zero hl
    subst this
    simp [ofBits, Out.bind]
  · have hlen : ¬ (l ++ rest).length < n := by simp [hl]
    simp only [h0, ↓reduceIte, hlen]
    have ht : (l ++ rest).take n = l := by
      rw [List.take_append_of_le_length (by omega), List.take_of_length_le (by omega)]
    have hd : (l ++ rest).drop n = rest := by
      rw [List.drop_append_of_le_length (by omega), List.drop_of_length_le (by omega)]; simp
    simp only [ht, hd, Out.bind]

/-- testing one bit of a value: `v & 2^k != 0` iff the `k`-th binary digit is one -/
theorem bit_pow (v k : Nat) : Header.bit v (2 ^ k) = decide (v / 2 ^ k % 2 = 1) := by
  unfold Header.bit
  rw [← Nat.testBit_eq_decide_div_mod_eq]
  have : v &&& 2 ^ k = if v.testBit k then 2 ^ k else 0 := by
    apply Nat.eq_of_testBit_eq
    intro j
    rw [Nat.testBit_and, Nat.testBit_two_pow]
    by_cases hj : k = j
    · subst hj
      cases hv : v.testBit k <;> simp [hv, Nat.testBit_two_pow_self]
    · cases hv : v.testBit k <;> simp [hj, Nat.testBit_two_pow_of_ne hj]
  rw [this]
  cases v.testBit k
  · simp
  · simp

/-- extracting an `m`-bit field at bit `k` with a mask and a shift -/
theorem and_shift (v k m : Nat) : (v &&& ((2 ^ m - 1) * 2 ^ k)) >>> k = v / 2 ^ k % 2 ^ m := by
  apply Nat.eq_of_testBit_eq
  intro j
  rw [Nat.testBit_shiftRight, Nat.testBit_and, Nat.testBit_mul_two_pow, Nat.testBit_two_pow_sub_one, Nat.testBit_mod_two_pow,
    Nat.testBit_div_two_pow]
  have : (k + j) - k = j := by omega
  simp only [Nat.le_add_right, decide_true, Bool.true_and, this]
  cases decide (j < m) <;> simp [Nat.add_comm]


/-- weight of a flag bit -/
def w (b : Bool) (k : Nat) : Nat := if b then k else 0

theorem w_cases (b : Bool) (k : Nat) : (b = false ∧ w b k = 0) ∨ (b = true ∧ w b k = k) := by
  cases b <;> simp [w]

theorem w_le (b : Bool) (k : Nat) : w b k ≤ k := by cases b <;> simp [w]

/-- a flag weight is a multiple of its weight: `w b k = k * (0 or 1)` -/
theorem w_mul (b : Bool) (k : Nat) : ∃ e, e ≤ 1 ∧ w b k = k * e := by
  cases b
  · exact ⟨0, by omega, by simp [w]⟩
  · exact ⟨1, by omega, by simp [w]⟩

theorem ofBits_cons' (b : Bool) (bs : Bits) : ofBits (b :: bs) = w b (2 ^ bs.length) + ofBits bs := by
  rw [ofBits_cons]; cases b <;> simp [w]

theorem and_low (v m : Nat) : v &&& (2 ^ m - 1) = v % 2 ^ m := Nat.and_two_pow_sub_one_eq_mod v m

/-- the value of the 18 OPPTYPE bits -/
def oppVal (sf : Nat) (cp umv sac ap aic df ss rps isd aiv mq : Bool) (tail : Nat) : Nat :=
  sf * 32768 + w cp 16384 + w umv 8192 + w sac 4096 + w ap 2048 + w aic 1024 + w df 512 + w ss 256 + w rps 128 + w isd 64 +
    w aiv 32 + w mq 16 + tail

theorem opp_bits (sf : Nat) (hsf : sf < 8) (cp umv sac ap aic df ss rps isd aiv mq : Bool) (tail : Nat) (ht : tail < 16) :
    ofBits (natBits 3 sf ++ ([cp, umv, sac, ap, aic, df, ss, rps, isd, aiv, mq] ++ natBits 4 tail)) =
      oppVal sf cp umv sac ap aic df ss rps isd aiv mq tail := by
  rw [PeekLoop.ofBits_append, ofBits_natBits 3 sf (by omega)]
  simp only [List.cons_append, List.nil_append, ofBits_cons', List.length_cons, natBits_length, ofBits_natBits 4 tail (by omega)]
  unfold oppVal
  simp only [Nat.reduceAdd, Nat.reducePow]
  omega

theorem opp_facts (sf : Nat) (hsf : sf < 8) (cp umv sac ap aic df ss rps isd aiv mq : Bool) (tail : Nat) (ht : tail < 16) :
    let V := oppVal sf cp umv sac ap aic df ss rps isd aiv mq tail
    V < 2 ^ 18 ∧ V &&& 0xF = tail ∧ (V &&& 0x38000) >>> 15 = sf ∧ Header.bit V 0x04000 = cp ∧ Header.bit V 0x02000 = umv ∧
    Header.bit V 0x01000 = sac ∧ Header.bit V 0x00800 = ap ∧ Header.bit V 0x00400 = aic ∧ Header.bit V 0x00200 = df ∧
    Header.bit V 0x00100 = ss ∧ Header.bit V 0x00080 = rps ∧ Header.bit V 0x00040 = isd ∧ Header.bit V 0x00020 = aiv ∧
    Header.bit V 0x00010 = mq := by
  intro V
  have e4 : (0xF : Nat) = 2 ^ 4 - 1 := rfl
  have e15 : (0x38000 : Nat) = (2 ^ 3 - 1) * 2 ^ 15 := rfl
  have p14 : (0x04000 : Nat) = 2 ^ 14 := rfl
  have p13 : (0x02000 : Nat) = 2 ^ 13 := rfl
  have p12 : (0x01000 : Nat) = 2 ^ 12 := rfl
  have p11 : (0x00800 : Nat) = 2 ^ 11 := rfl
  have p10 : (0x00400 : Nat) = 2 ^ 10 := rfl
  have p9 : (0x00200 : Nat) = 2 ^ 9 := rfl
  have p8 : (0x00100 : Nat) = 2 ^ 8 := rfl
  have p7 : (0x00080 : Nat) = 2 ^ 7 := rfl
  have p6 : (0x00040 : Nat) = 2 ^ 6 := rfl
  have p5 : (0x00020 : Nat) = 2 ^ 5 := rfl
  have p4 : (0x00010 : Nat) = 2 ^ 4 := rfl
  rw [e4, e15, p14, p13, p12, p11, p10, p9, p8, p7, p6, p5, p4, and_low, and_shift]
  simp only [bit_pow]
  have hV : V = oppVal sf cp umv sac ap aic df ss rps isd aiv mq tail := rfl
  unfold oppVal at hV
  have b1 := w_le cp 16384; have b2 := w_le umv 8192; have b3 := w_le sac 4096; have b4 := w_le ap 2048
  have b5 := w_le aic 1024; have b6 := w_le df 512; have b7 := w_le ss 256; have b8 := w_le rps 128
  have b9 := w_le isd 64; have b10 := w_le aiv 32; have b11 := w_le mq 16
  have m1 := w_mul cp 16384; have m2 := w_mul umv 8192; have m3 := w_mul sac 4096; have m4 := w_mul ap 2048
  have m5 := w_mul aic 1024; have m6 := w_mul df 512; have m7 := w_mul ss 256; have m8 := w_mul rps 128
  have m9 := w_mul isd 64; have m10 := w_mul aiv 32; have m11 := w_mul mq 16
  refine ⟨by omega, by omega, by omega, ?_, ?_, ?_, ?_, ?_, ?_, ?_, ?_, ?_, ?_, ?_⟩
  · rcases w_cases cp 16384 with ⟨c, d⟩ | ⟨c, d⟩ <;> (rw [c]; simp only [decide_eq_true_eq, decide_eq_false_iff_not]; omega)
  · rcases w_cases umv 8192 with ⟨c, d⟩ | ⟨c, d⟩ <;> (rw [c]; simp only [decide_eq_true_eq, decide_eq_false_iff_not]; omega)
  · rcases w_cases sac 4096 with ⟨c, d⟩ | ⟨c, d⟩ <;> (rw [c]; simp only [decide_eq_true_eq, decide_eq_false_iff_not]; omega)
  · rcases w_cases ap 2048 with ⟨c, d⟩ | ⟨c, d⟩ <;> (rw [c]; simp only [decide_eq_true_eq, decide_eq_false_iff_not]; omega)
  · rcases w_cases aic 1024 with ⟨c, d⟩ | ⟨c, d⟩ <;> (rw [c]; simp only [decide_eq_true_eq, decide_eq_false_iff_not]; omega)
  · rcases w_cases df 512 with ⟨c, d⟩ | ⟨c, d⟩ <;> (rw [c]; simp only [decide_eq_true_eq, decide_eq_false_iff_not]; omega)
  · rcases w_cases ss 256 with ⟨c, d⟩ | ⟨c, d⟩ <;> (rw [c]; simp only [decide_eq_true_eq, decide_eq_false_iff_not]; omega)
  · rcases w_cases rps 128 with ⟨c, d⟩ | ⟨c, d⟩ <;> (rw [c]; simp only [decide_eq_true_eq, decide_eq_false_iff_not]; omega)
  · rcases w_cases isd 64 with ⟨c, d⟩ | ⟨c, d⟩ <;> (rw [c]; simp only [decide_eq_true_eq, decide_eq_false_iff_not]; omega)
  · rcases w_cases aiv 32 with ⟨c, d⟩ | ⟨c, d⟩ <;> (rw [c]; simp only [decide_eq_true_eq, decide_eq_false_iff_not]; omega)
  · rcases w_cases mq 16 with ⟨c, d⟩ | ⟨c, d⟩ <;> (rw [c]; simp only [decide_eq_true_eq, decide_eq_false_iff_not]; omega)


/-- the value of the 9 MPPTYPE bits -/
def mppVal (pt : Nat) (rpr rru rtype : Bool) (tail : Nat) : Nat := pt * 64 + w rpr 32 + w rru 16 + w rtype 8 + tail

theorem mpp_bits (pt : Nat) (hpt : pt < 8) (rpr rru rtype : Bool) (tail : Nat) (ht : tail < 8) :
    ofBits (natBits 3 pt ++ ([rpr, rru, rtype] ++ natBits 3 tail)) = mppVal pt rpr rru rtype tail := by
  rw [PeekLoop.ofBits_append, ofBits_natBits 3 pt (by omega)]
  simp only [List.cons_append, List.nil_append, ofBits_cons', List.length_cons, natBits_length, ofBits_natBits 3 tail (by omega)]
  unfold mppVal
  simp only [Nat.reduceAdd, Nat.reducePow]
  omega

theorem mpp_facts (pt : Nat) (hpt : pt < 8) (rpr rru rtype : Bool) (tail : Nat) (ht : tail < 8) :
    let V := mppVal pt rpr rru rtype tail
    V < 2 ^ 9 ∧ V &&& 0x007 = tail ∧ (V &&& 0x1C0) >>> 6 = pt ∧ Header.bit V 0x020 = rpr ∧ Header.bit V 0x010 = rru ∧
      Header.bit V 0x008 = rtype := by
  intro V
  have e3 : (0x007 : Nat) = 2 ^ 3 - 1 := rfl
  have e6 : (0x1C0 : Nat) = (2 ^ 3 - 1) * 2 ^ 6 := rfl
  have p5 : (0x020 : Nat) = 2 ^ 5 := rfl
  have p4 : (0x010 : Nat) = 2 ^ 4 := rfl
  have p3 : (0x008 : Nat) = 2 ^ 3 := rfl
  rw [e3, e6, p5, p4, p3, and_low, and_shift]
  simp only [bit_pow]
  have hV : V = mppVal pt rpr rru rtype tail := rfl
  unfold mppVal at hV
  have b1 := w_le rpr 32; have b2 := w_le rru 16; have b3 := w_le rtype 8
  refine ⟨by omega, ?_, ?_, ?_, ?_, ?_⟩
  · rcases w_cases rpr 32 with ⟨c1, d1⟩ | ⟨c1, d1⟩ <;> rcases w_cases rru 16 with ⟨c2, d2⟩ | ⟨c2, d2⟩ <;>
      rcases w_cases rtype 8 with ⟨c3, d3⟩ | ⟨c3, d3⟩ <;> omega
  · rcases w_cases rpr 32 with ⟨c1, d1⟩ | ⟨c1, d1⟩ <;> rcases w_cases rru 16 with ⟨c2, d2⟩ | ⟨c2, d2⟩ <;>
      rcases w_cases rtype 8 with ⟨c3, d3⟩ | ⟨c3, d3⟩ <;> omega
  · rcases w_cases rpr 32 with ⟨c1, d1⟩ | ⟨c1, d1⟩ <;> rcases w_cases rru 16 with ⟨c2, d2⟩ | ⟨c2, d2⟩ <;>
      rcases w_cases rtype 8 with ⟨c3, d3⟩ | ⟨c3, d3⟩ <;>
      (rw [c1]; simp only [decide_eq_true_eq, decide_eq_false_iff_not]; omega)
  · rcases w_cases rpr 32 with ⟨c1, d1⟩ | ⟨c1, d1⟩ <;> rcases w_cases rru 16 with ⟨c2, d2⟩ | ⟨c2, d2⟩ <;>
      rcases w_cases rtype 8 with ⟨c3, d3⟩ | ⟨c3, d3⟩ <;>
      (rw [c2]; simp only [decide_eq_true_eq, decide_eq_false_iff_not]; omega)
  · rcases w_cases rpr 32 with ⟨c1, d1⟩ | ⟨c1, d1⟩ <;> rcases w_cases rru 16 with ⟨c2, d2⟩ | ⟨c2, d2⟩ <;>
      rcases w_cases rtype 8 with ⟨c3, d3⟩ | ⟨c3, d3⟩ <;>
      (rw [c3]; simp only [decide_eq_true_eq, decide_eq_false_iff_not]; omega)

theorem or_pow (o k : Nat) (h : o < 2 ^ k) : o ||| 2 ^ k = o + 2 ^ k := by
  have := Nat.two_pow_add_eq_or_of_lt h 1
  rw [Nat.mul_one] at this
  rw [Nat.or_comm, ← this, Nat.add_comm]

theorem setIf_add (b : Bool) (k o : Nat) (h : o < 2 ^ k) : Header.setIf b (2 ^ k) o = o + flag b (2 ^ k) := by
  unfold Header.setIf flag
  cases b
  · simp
  · simp only [↓reduceIte]; exact or_pow o k h

theorem flag_le (b : Bool) (k : Nat) : flag b k ≤ k := by cases b <;> simp [flag]

/-- OPPTYPE mode flags: the parser's chain of OR-ed flags is the specification's sum of flags -/
theorem opp_options_eq (umv sac ap aic df ss rps isd aiv mq : Bool) :
    Header.setIf mq Opt.MODIFIED_QUANTIZATION (Header.setIf aiv Opt.ALTERNATIVE_INTER_VLC (Header.setIf isd Opt.INDEPENDENT_SEGMENT_DECODING
      (Header.setIf rps Opt.REFERENCE_PICTURE_SELECTION (Header.setIf ss Opt.SLICE_STRUCTURED (Header.setIf df Opt.DEBLOCKING_FILTER
      (Header.setIf aic Opt.ADVANCED_INTRA_CODING (Header.setIf ap Opt.ADVANCED_PREDICTION (Header.setIf sac Opt.SYNTAX_BASED_ARITHMETIC_CODING
      (Header.setIf umv Opt.UNRESTRICTED_MOTION_VECTORS 0))))))))) =
    flag umv Opt.UNRESTRICTED_MOTION_VECTORS + flag sac Opt.SYNTAX_BASED_ARITHMETIC_CODING + flag ap Opt.ADVANCED_PREDICTION +
      flag aic Opt.ADVANCED_INTRA_CODING + flag df Opt.DEBLOCKING_FILTER + flag ss Opt.SLICE_STRUCTURED +
      flag rps Opt.REFERENCE_PICTURE_SELECTION + flag isd Opt.INDEPENDENT_SEGMENT_DECODING + flag aiv Opt.ALTERNATIVE_INTER_VLC +
      flag mq Opt.MODIFIED_QUANTIZATION ∧
    flag umv Opt.UNRESTRICTED_MOTION_VECTORS + flag sac Opt.SYNTAX_BASED_ARITHMETIC_CODING + flag ap Opt.ADVANCED_PREDICTION +
      flag aic Opt.ADVANCED_INTRA_CODING + flag df Opt.DEBLOCKING_FILTER + flag ss Opt.SLICE_STRUCTURED +
      flag rps Opt.REFERENCE_PICTURE_SELECTION + flag isd Opt.INDEPENDENT_SEGMENT_DECODING + flag aiv Opt.ALTERNATIVE_INTER_VLC +
      flag mq Opt.MODIFIED_QUANTIZATION < 0x2000 := by
  have e3 : Opt.UNRESTRICTED_MOTION_VECTORS = 2 ^ 3 := rfl
  have e4 : Opt.SYNTAX_BASED_ARITHMETIC_CODING = 2 ^ 4 := rfl
  have e5 : Opt.ADVANCED_PREDICTION = 2 ^ 5 := rfl
  have e6 : Opt.ADVANCED_INTRA_CODING = 2 ^ 6 := rfl
  have e7 : Opt.DEBLOCKING_FILTER = 2 ^ 7 := rfl
  have e8 : Opt.SLICE_STRUCTURED = 2 ^ 8 := rfl
  have e9 : Opt.REFERENCE_PICTURE_SELECTION = 2 ^ 9 := rfl
  have e10 : Opt.INDEPENDENT_SEGMENT_DECODING = 2 ^ 10 := rfl
  have e11 : Opt.ALTERNATIVE_INTER_VLC = 2 ^ 11 := rfl
  have e12 : Opt.MODIFIED_QUANTIZATION = 2 ^ 12 := rfl
  rw [e3, e4, e5, e6, e7, e8, e9, e10, e11, e12]
  have f3 := flag_le umv (2 ^ 3); have f4 := flag_le sac (2 ^ 4); have f5 := flag_le ap (2 ^ 5); have f6 := flag_le aic (2 ^ 6)
  have f7 := flag_le df (2 ^ 7); have f8 := flag_le ss (2 ^ 8); have f9 := flag_le rps (2 ^ 9); have f10 := flag_le isd (2 ^ 10)
  have f11 := flag_le aiv (2 ^ 11); have f12 := flag_le mq (2 ^ 12)
  rw [setIf_add umv 3 0 (by omega), setIf_add sac 4 _ (by omega), setIf_add ap 5 _ (by omega), setIf_add aic 6 _ (by omega),
    setIf_add df 7 _ (by omega), setIf_add ss 8 _ (by omega), setIf_add rps 9 _ (by omega), setIf_add isd 10 _ (by omega),
    setIf_add aiv 11 _ (by omega), setIf_add mq 12 _ (by omega)]
  exact ⟨by omega, by omega⟩

/-- MPPTYPE mode flags on top of any OPPTYPE-class option set -/
theorem mpp_options_eq (o : Nat) (ho : o < 0x2000) (rpr rru rtype : Bool) :
    Header.setIf rtype Opt.ROUNDING_TYPE_ONE (Header.setIf rru Opt.REDUCED_RESOLUTION_UPDATE (Header.setIf rpr Opt.REFERENCE_PICTURE_RESAMPLING o)) =
      o + flag rpr Opt.REFERENCE_PICTURE_RESAMPLING + flag rru Opt.REDUCED_RESOLUTION_UPDATE + flag rtype Opt.ROUNDING_TYPE_ONE := by
  have e13 : Opt.REFERENCE_PICTURE_RESAMPLING = 2 ^ 13 := by simp [Opt.REFERENCE_PICTURE_RESAMPLING]
  have e14 : Opt.REDUCED_RESOLUTION_UPDATE = 2 ^ 14 := by simp [Opt.REDUCED_RESOLUTION_UPDATE]
  have e15 : Opt.ROUNDING_TYPE_ONE = 2 ^ 15 := by simp [Opt.ROUNDING_TYPE_ONE]
  rw [e13, e14, e15]
  have f13 := flag_le rpr (2 ^ 13); have f14 := flag_le rru (2 ^ 14)
  rw [setIf_add rpr 13 o (by omega), setIf_add rru 14 _ (by omega), setIf_add rtype 15 _ (by omega)]


/-! ### PLUSPTYPE -/

def oppBits (h : PlusHdr) : Bits :=
  natBits 3 h.srcFmt ++ ([h.customPcf, h.umv, h.sac, h.ap, h.aic, h.df, h.ss, h.rps, h.isd, h.aiv, h.mq] ++ natBits 4 8)

def mppBits (h : PlusHdr) : Bits := natBits 3 h.picType ++ ([h.rpr, h.rru, h.rtype] ++ natBits 3 1)

def plusFmt (sf : Nat) : Option SrcFmt :=
  match sf with
  | 0 => some .reserved | 1 => some .subQcif | 2 => some .quarterCif | 3 => some .fullCif | 4 => some .fourCif
  | 5 => some .sixteenCif | 6 => none | _ => some .reserved

def plusType (pt : Nat) : PicType :=
  match pt with
  | 0 => .iFrame | 1 => .pFrame | 2 => .improvedPb | 3 => .bFrame | 4 => .eiFrame | 5 => .epFrame | r => .reserved r

def plusFol (d : DecOpts) (h : PlusHdr) : Header.Followers :=
  if h.ufep then { customFormat := h.srcFmt == 6, customClock := h.customPcf, mvRange := h.umv, sliceSubmode := h.ss,
                   rpsMode := h.rps, refLayer := d.scalability } else {}

def plusExtra (prevOptions : Nat) (h : PlusHdr) : Nat :=
  (if h.ufep then oppOptions h else prevOptions &&& Opt.OPPTYPE_OPTIONS) + flag h.rpr Opt.REFERENCE_PICTURE_RESAMPLING +
    flag h.rru Opt.REDUCED_RESOLUTION_UPDATE + flag h.rtype Opt.ROUNDING_TYPE_ONE

def plusptypeBits (h : PlusHdr) : Bits := (if h.ufep then natBits 3 1 ++ oppBits h else natBits 3 0) ++ mppBits h

theorem oppBits_length (h : PlusHdr) : (oppBits h).length = 18 := by simp [oppBits, natBits_length]
theorem mppBits_length (h : PlusHdr) : (mppBits h).length = 9 := by simp [mppBits, natBits_length]

/-- `decode_plusptype`: UFEP, the 18 OPPTYPE bits when present (source format, the ten mode flags, custom PCF, the fixed
tail 1000), the 9 MPPTYPE bits (picture type, RPR / RRU / RTYPE, the fixed tail 001); with UFEP = 000 the OPPTYPE-class modes are
those of the previous header -/
theorem plusptype_round_trip (d : DecOpts) (prevOptions : Nat) (h : PlusHdr) (hsf : h.srcFmt < 8) (hpt : h.picType < 8)
    (rest : Bits) (pos : Nat) :
    Header.decodePlusptype d prevOptions ⟨plusptypeBits h ++ rest, pos⟩ =
      .ok ((plusExtra prevOptions h, (if h.ufep then plusFmt h.srcFmt else none), plusType h.picType, plusFol d h, h.ufep),
           ⟨rest, pos + (plusptypeBits h).length⟩) := by
  obtain ⟨m0, m1, m2, m3, m4, m5⟩ := mpp_facts h.picType hpt h.rpr h.rru h.rtype 1 (by omega)
  have hmpp := fun (r : Bits) (p : Nat) => readBits_list 16 9 (mppBits h) (mppBits_length h) (by omega) r p
  have hmv : ofBits (mppBits h) = mppVal h.picType h.rpr h.rru h.rtype 1 := mpp_bits h.picType hpt h.rpr h.rru h.rtype 1 (by omega)
  unfold Header.decodePlusptype plusptypeBits plusExtra plusFol
  cases hu : h.ufep with
  | false =>
    simp only [Bool.false_eq_true, ↓reduceIte, List.append_assoc, bind_apply]
    rw [readBits_natBits 8 3 0 (by omega) (by omega)]
    have hge : ¬ ((0 : Nat) ≥ 2) := by omega
    have h01 : ((0 : Nat) == 1) = false := rfl
    simp only [hge, ↓reduceIte, h01, Bool.false_eq_true, pure_apply, bind_apply]
    rw [hmpp, hmv]
    simp only [m1, bne_self_eq_false, Bool.false_eq_true, ↓reduceIte, pure_apply, m2, m3, m4, m5]
    have hlt : prevOptions &&& Opt.OPPTYPE_OPTIONS < 0x2000 := by
      have := Nat.and_le_right (n := prevOptions) (m := Opt.OPPTYPE_OPTIONS)
      have e : Opt.OPPTYPE_OPTIONS = 0x1FF8 := by decide
      omega
    rw [mpp_options_eq _ hlt]
    simp [plusType, natBits_length, mppBits_length, Nat.add_assoc]
    rcases (show h.picType = 0 ∨ h.picType = 1 ∨ h.picType = 2 ∨ h.picType = 3 ∨ h.picType = 4 ∨ h.picType = 5 ∨ h.picType = 6 ∨ h.picType = 7 by omega) with e | e | e | e | e | e | e | e <;> simp [e]
  | true =>
    obtain ⟨o0, o1, o2, o3, o4, o5, o6, o7, o8, o9, o10, o11, o12, o13⟩ :=
      opp_facts h.srcFmt hsf h.customPcf h.umv h.sac h.ap h.aic h.df h.ss h.rps h.isd h.aiv h.mq 8 (by omega)
    have hopp := fun (r : Bits) (p : Nat) => readBits_list 32 18 (oppBits h) (oppBits_length h) (by omega) r p
    have hov : ofBits (oppBits h) = oppVal h.srcFmt h.customPcf h.umv h.sac h.ap h.aic h.df h.ss h.rps h.isd h.aiv h.mq 8 :=
      opp_bits h.srcFmt hsf _ _ _ _ _ _ _ _ _ _ _ 8 (by omega)
    simp only [↓reduceIte, List.append_assoc, bind_apply]
    rw [readBits_natBits 8 3 1 (by omega) (by omega)]
    have hge : ¬ ((1 : Nat) ≥ 2) := by omega
    have h11 : ((1 : Nat) == 1) = true := rfl
    simp only [hge, ↓reduceIte, h11, bind_apply]
    rw [hopp, hov]
    simp only [o1, bne_self_eq_false, Bool.false_eq_true, ↓reduceIte, pure_apply, o2, o3, o4, o5, o6, o7, o8, o9, o10, o11, o12, o13]
    rw [hmpp, hmv]
    simp only [m1, bne_self_eq_false, Bool.false_eq_true, ↓reduceIte, pure_apply, m2, m3, m4, m5]
    obtain ⟨q1, q2⟩ := opp_options_eq h.umv h.sac h.ap h.aic h.df h.ss h.rps h.isd h.aiv h.mq
    rw [q1, mpp_options_eq _ q2]
    simp [plusType, plusFmt, oppOptions, natBits_length, mppBits_length, oppBits_length, Nat.add_assoc]
    refine ⟨?_, ?_⟩
    · rcases (show h.srcFmt = 0 ∨ h.srcFmt = 1 ∨ h.srcFmt = 2 ∨ h.srcFmt = 3 ∨ h.srcFmt = 4 ∨ h.srcFmt = 5 ∨ h.srcFmt = 6 ∨ h.srcFmt = 7 by omega) with e | e | e | e | e | e | e | e <;> simp [e]
    · rcases (show h.picType = 0 ∨ h.picType = 1 ∨ h.picType = 2 ∨ h.picType = 3 ∨ h.picType = 4 ∨ h.picType = 5 ∨ h.picType = 6 ∨ h.picType = 7 by omega) with e | e | e | e | e | e | e | e <;> simp [e]


/-! ### the optional fields -/

/-- a section that is present iff `b`: parsed value `some v`, or the default when absent -/
theorem opt_section {α : Type} (p : P α) (bits : Bits) (v : α)
    (b : Bool) (hp : b = true → ∀ r q, p ⟨bits ++ r, q⟩ = .ok (v, ⟨r, q + bits.length⟩)) (dflt : Option α) (rest : Bits) (pos : Nat) :
    (if b = true then (p >>= fun x => pure (some x)) else pure dflt : P (Option α)) ⟨(if b = true then bits else []) ++ rest, pos⟩ =
      .ok ((if b = true then some v else dflt), ⟨rest, pos + (if b = true then bits else []).length⟩) := by
  cases b
  · simp
  · simp only [↓reduceIte, bind_apply, hp rfl, pure_apply]

/-- CPFMT: pixel aspect ratio code (4), picture width indication (9), marker 1, picture height indication (9), EPAR (8 + 8) -/
def cpfmtBits (h : PlusHdr) : Bits :=
  natBits 4 h.par ++ (natBits 9 h.pwi ++ ([true] ++ natBits 9 h.phi)) ++ (if h.par = 15 then natBits 8 h.eparW ++ natBits 8 h.eparH else [])

structure CpfmtValid (h : PlusHdr) : Prop where
  par : 1 ≤ h.par ∧ h.par < 16
  pwi : h.pwi < 512
  phi : h.phi < 512
  epar : h.par = 15 → (1 ≤ h.eparW ∧ h.eparW < 256 ∧ 1 ≤ h.eparH ∧ h.eparH < 256)

theorem cpfmt_round_trip (h : PlusHdr) (hv : CpfmtValid h) (rest : Bits) (pos : Nat) :
    Header.decodeCpfmt ⟨cpfmtBits h ++ rest, pos⟩ =
      .ok (.extended (parOf h) ((h.pwi + 1) * 4) (h.phi * 4), ⟨rest, pos + (cpfmtBits h).length⟩) := by
  obtain ⟨⟨p1, p2⟩, hw, hh, he⟩ := hv
  unfold Header.decodeCpfmt cpfmtBits
  have hlen : (natBits 4 h.par ++ (natBits 9 h.pwi ++ ([true] ++ natBits 9 h.phi))).length = 23 := by simp [natBits_length]
  have hval : ofBits (natBits 4 h.par ++ (natBits 9 h.pwi ++ ([true] ++ natBits 9 h.phi))) = h.par * 2 ^ 19 + h.pwi * 2 ^ 10 + 2 ^ 9 + h.phi := by
    rw [PeekLoop.ofBits_append, PeekLoop.ofBits_append, ofBits_natBits 4 _ (by omega), ofBits_natBits 9 _ (by omega)]
    simp only [List.cons_append, List.nil_append, ofBits_cons', List.length_cons, natBits_length, List.length_append,
      ofBits_natBits 9 h.phi (by omega), w, ↓reduceIte, Nat.reduceAdd, Nat.reducePow]
    omega
  simp only [List.append_assoc, bind_apply]
  have hrd := readBits_list 32 23 _ hlen (by omega)
    ((if h.par = 15 then natBits 8 h.eparW ++ natBits 8 h.eparH else []) ++ rest) pos
  simp only [List.append_assoc] at hrd
  rw [hrd, hval]
  generalize hV : h.par * 2 ^ 19 + h.pwi * 2 ^ 10 + 2 ^ 9 + h.phi = V
  have hne : (V &&& 0x000200 == 0) = false := by
    have hb : Header.bit V (2 ^ 9) = true := by rw [bit_pow]; simp only [decide_eq_true_eq]; omega
    unfold Header.bit at hb
    have e : (0x000200 : Nat) = 2 ^ 9 := rfl
    rw [e]
    simpa [bne] using hb
  have mpar : (V &&& 0x780000) >>> 19 = h.par := by
    have e : (0x780000 : Nat) = (2 ^ 4 - 1) * 2 ^ 19 := rfl
    rw [e, and_shift]; omega
  have mw : (V &&& 0x07FC00) >>> 10 = h.pwi := by
    have e : (0x07FC00 : Nat) = (2 ^ 9 - 1) * 2 ^ 10 := rfl
    rw [e, and_shift]; omega
  have mh : V &&& 0x0001FF = h.phi := by
    have e : (0x0001FF : Nat) = 2 ^ 9 - 1 := rfl
    rw [e, and_low]; omega
  simp only [hne, Bool.false_eq_true, ↓reduceIte, mpar, mw, mh, bind_apply]
  have hpar : h.par = 1 ∨ h.par = 2 ∨ h.par = 3 ∨ h.par = 4 ∨ h.par = 5 ∨ h.par = 15 ∨ (6 ≤ h.par ∧ h.par ≤ 14) := by omega
  rcases hpar with e | e | e | e | e | e | e
  · simp [e, parOf, natBits_length]
  · simp [e, parOf, natBits_length]
  · simp [e, parOf, natBits_length]
  · simp [e, parOf, natBits_length]
  · simp [e, parOf, natBits_length]
  · obtain ⟨a1, a2, a3, a4⟩ := he e
    simp only [e, ↓reduceIte, List.append_assoc, bind_apply, readU8]
    rw [readBits_natBits 8 8 h.eparW (by omega) (by omega)]
    simp only
    rw [readBits_natBits 8 8 h.eparH (by omega) (by omega)]
    have z1 : (h.eparW == 0) = false := by simp; omega
    have z2 : (h.eparH == 0) = false := by simp; omega
    simp [z1, z2, parOf, e, natBits_length, Nat.add_assoc]
  · have : ∃ r, h.par = r + 6 ∧ r ≤ 8 := ⟨h.par - 6, by omega, by omega⟩
    obtain ⟨r, hr, hr8⟩ := this
    have hr' : r = 0 ∨ r = 1 ∨ r = 2 ∨ r = 3 ∨ r = 4 ∨ r = 5 ∨ r = 6 ∨ r = 7 ∨ r = 8 := by omega
    rcases hr' with q | q | q | q | q | q | q | q | q <;> subst q <;> simp [hr, parOf, natBits_length]


theorem cpcfc_round_trip (v : Nat) (hv : v < 256) (rest : Bits) (pos : Nat) :
    Header.decodeCpcfc ⟨natBits 8 v ++ rest, pos⟩ = .ok ((Header.bit v 0x80, v &&& 0x7F), ⟨rest, pos + 8⟩) := by
  unfold Header.decodeCpcfc
  simp only [bind_apply, readU8]
  rw [readBits_natBits 8 8 v (by omega) (by omega)]
  rfl

def uuiBits (unlimited : Bool) : Bits := if unlimited then [false, true] else [true]

theorem uui_round_trip (u : Bool) (rest : Bits) (pos : Nat) :
    Header.decodeUui ⟨uuiBits u ++ rest, pos⟩ = .ok ((if u then MvRange.unlimited else .extended), ⟨rest, pos + (uuiBits u).length⟩) := by
  unfold Header.decodeUui uuiBits
  cases u
  · simp only [Bool.false_eq_true, ↓reduceIte, List.cons_append, List.nil_append, bind_apply]
    rw [readBits_one 8 (by omega)]
    simp
  · simp only [↓reduceIte, List.cons_append, List.nil_append, bind_apply]
    rw [readBits_one 8 (by omega)]
    simp only [Bool.false_eq_true, ↓reduceIte, bind_apply]
    have h01 : ((0 : Nat) == 1) = false := rfl
    simp only [h01, Bool.false_eq_true, ↓reduceIte, bind_apply]
    rw [readBits_one 8 (by omega)]
    simp

theorem sss_round_trip (r a : Bool) (rest : Bits) (pos : Nat) :
    Header.decodeSss ⟨[r, a] ++ rest, pos⟩ = .ok (flag r 1 + flag a 2, ⟨rest, pos + 2⟩) := by
  unfold Header.decodeSss
  simp only [bind_apply]
  have := readBits_list 8 2 [r, a] rfl (by omega) rest pos
  rw [this]
  cases r <;> cases a <;> rfl

theorem elnum_round_trip (fol : Header.Followers) (e r : Nat) (he : e < 16) (hr : r < 16) (rest : Bits) (pos : Nat) :
    Header.decodeElnumRlnum fol ⟨natBits 4 e ++ ((if fol.refLayer = true then natBits 4 r else []) ++ rest), pos⟩ =
      .ok ((e, if fol.refLayer = true then some r else none), ⟨rest, pos + 4 + (if fol.refLayer = true then 4 else 0)⟩) := by
  unfold Header.decodeElnumRlnum
  simp only [bind_apply]
  rw [readBits_natBits 8 4 e (by omega) (by omega)]
  cases fol.refLayer
  · simp
  · simp only [↓reduceIte, bind_apply]
    rw [readBits_natBits 8 4 r (by omega) (by omega)]
    simp

theorem rpsmf_round_trip (v : Nat) (hv : v < 8) (rest : Bits) (pos : Nat) :
    Header.decodeRpsmf ⟨natBits 3 v ++ rest, pos⟩ =
      .ok (flag (v / 4 % 2 = 0) 1 + flag (v / 2 % 2 = 1) 2 + flag (v % 2 = 1) 4, ⟨rest, pos + 3⟩) := by
  unfold Header.decodeRpsmf
  simp only [bind_apply]
  rw [readBits_natBits 8 3 v (by omega) (by omega)]
  have : v = 0 ∨ v = 1 ∨ v = 2 ∨ v = 3 ∨ v = 4 ∨ v = 5 ∨ v = 6 ∨ v = 7 := by omega
  rcases this with e | e | e | e | e | e | e | e <;> subst e <;> rfl

def trpBits (t : Option Nat) : Bits := match t with | some v => [true] ++ natBits 10 v | none => [false]

theorem trpi_round_trip (t : Option Nat) (ht : ∀ v, t = some v → v < 1024) (rest : Bits) (pos : Nat) :
    Header.decodeTrpi ⟨trpBits t ++ rest, pos⟩ = .ok (t, ⟨rest, pos + (trpBits t).length⟩) := by
  unfold Header.decodeTrpi trpBits
  cases t with
  | none =>
    simp only [List.cons_append, List.nil_append, bind_apply]
    rw [readBits_one 8 (by omega)]
    simp
  | some v =>
    simp only [List.cons_append, List.nil_append, bind_apply]
    rw [readBits_one 8 (by omega)]
    have h11 : ((1 : Nat) == 1) = true := rfl
    simp only [↓reduceIte, h11, bind_apply]
    rw [readBits_natBits 16 10 v (by omega) (by have := ht v rfl; omega)]
    simp [natBits_length, Nat.add_assoc]

theorem bcm_round_trip (rest : Bits) (pos : Nat) : Header.decodeBcm ⟨[false, true] ++ rest, pos⟩ = .ok ((), ⟨rest, pos + 2⟩) := by
  unfold Header.decodeBcm
  simp only [List.cons_append, List.nil_append, bind_apply]
  rw [readBits_one 8 (by omega)]
  have h01 : ((0 : Nat) == 1) = false := rfl
  simp only [Bool.false_eq_true, ↓reduceIte, h01, bind_apply]
  rw [readBits_one 8 (by omega)]
  simp

theorem trb_round_trip (cc : Bool) (v : Nat) (hv : v < (if cc then 32 else 8)) (rest : Bits) (pos : Nat) :
    Header.decodeTrb cc ⟨natBits (if cc then 5 else 3) v ++ rest, pos⟩ = .ok (v, ⟨rest, pos + (if cc then 5 else 3)⟩) := by
  unfold Header.decodeTrb
  cases cc
  · simp only [Bool.false_eq_true, ↓reduceIte] at hv ⊢
    exact readBits_natBits 8 3 v (by omega) (by omega) rest pos
  · simp only [↓reduceIte] at hv ⊢
    exact readBits_natBits 8 5 v (by omega) (by omega) rest pos

theorem etr_combine (hi lo : Nat) (hlo : lo < 256) : (hi <<< 8) ||| lo = hi * 256 + lo := by
  rw [Nat.shiftLeft_eq]
  exact PeekLoop.lor_add hi 8 lo (by omega)


/-! ### option-set arithmetic -/

theorem and_pow (v k : Nat) : v &&& 2 ^ k = if v.testBit k then 2 ^ k else 0 := by
  apply Nat.eq_of_testBit_eq
  intro j
  rw [Nat.testBit_and, Nat.testBit_two_pow]
  by_cases hj : k = j
  · subst hj
    cases hv : v.testBit k <;> simp [hv, Nat.testBit_two_pow_self]
  · cases hv : v.testBit k <;> simp [hj, Nat.testBit_two_pow_of_ne hj]

theorem has_pow (x k : Nat) : Opt.has x (2 ^ k) = decide (x / 2 ^ k % 2 = 1) := by
  unfold Opt.has
  rw [and_pow, ← Nat.testBit_eq_decide_div_mod_eq]
  cases x.testBit k
  · simp; exact Nat.ne_of_lt (Nat.two_pow_pos k)
  · simp

theorem flag_mul (b : Bool) (F k : Nat) (hF : F = 1024 * k) : ∃ e, flag b F = 1024 * e := by
  cases b
  · exact ⟨0, by simp [flag]⟩
  · exact ⟨k, by simp [flag, hF]⟩

theorem flag_mod8 (b : Bool) (F : Nat) (hF : F % 8 = 0) : flag b F % 8 = 0 := by cases b <;> simp [flag, hF]

theorem oppOptions_facts (h : PlusHdr) : oppOptions h % 8 = 0 ∧ oppOptions h < 0x2000 ∧
    (Opt.has (oppOptions h) Opt.REFERENCE_PICTURE_SELECTION = h.rps) := by
  obtain ⟨_, q2⟩ := opp_options_eq h.umv h.sac h.ap h.aic h.df h.ss h.rps h.isd h.aiv h.mq
  have e9 : Opt.REFERENCE_PICTURE_SELECTION = 2 ^ 9 := rfl
  refine ⟨?_, q2, ?_⟩
  · unfold oppOptions
    have m1 := flag_mod8 h.umv Opt.UNRESTRICTED_MOTION_VECTORS rfl
    have m2 := flag_mod8 h.sac Opt.SYNTAX_BASED_ARITHMETIC_CODING rfl
    have m3 := flag_mod8 h.ap Opt.ADVANCED_PREDICTION rfl
    have m4 := flag_mod8 h.aic Opt.ADVANCED_INTRA_CODING rfl
    have m5 := flag_mod8 h.df Opt.DEBLOCKING_FILTER rfl
    have m6 := flag_mod8 h.ss Opt.SLICE_STRUCTURED rfl
    have m7 := flag_mod8 h.rps Opt.REFERENCE_PICTURE_SELECTION rfl
    have m8 := flag_mod8 h.isd Opt.INDEPENDENT_SEGMENT_DECODING rfl
    have m9 := flag_mod8 h.aiv Opt.ALTERNATIVE_INTER_VLC rfl
    have m10 := flag_mod8 h.mq Opt.MODIFIED_QUANTIZATION rfl
    omega
  · rw [e9, has_pow]
    unfold oppOptions
    have f1 := flag_le h.umv Opt.UNRESTRICTED_MOTION_VECTORS
    have f2 := flag_le h.sac Opt.SYNTAX_BASED_ARITHMETIC_CODING
    have f3 := flag_le h.ap Opt.ADVANCED_PREDICTION
    have f4 := flag_le h.aic Opt.ADVANCED_INTRA_CODING
    have f5 := flag_le h.df Opt.DEBLOCKING_FILTER
    have f6 := flag_le h.ss Opt.SLICE_STRUCTURED
    have g8 := flag_mul h.isd Opt.INDEPENDENT_SEGMENT_DECODING 1 rfl
    have g9 := flag_mul h.aiv Opt.ALTERNATIVE_INTER_VLC 2 rfl
    have g10 := flag_mul h.mq Opt.MODIFIED_QUANTIZATION 4 rfl
    obtain ⟨e8, h8⟩ := g8; obtain ⟨e9', h9⟩ := g9; obtain ⟨e10, h10⟩ := g10
    rw [h8, h9, h10]
    have n1 : Opt.UNRESTRICTED_MOTION_VECTORS = 8 := rfl
    have n2 : Opt.SYNTAX_BASED_ARITHMETIC_CODING = 16 := rfl
    have n3 : Opt.ADVANCED_PREDICTION = 32 := rfl
    have n4 : Opt.ADVANCED_INTRA_CODING = 64 := rfl
    have n5 : Opt.DEBLOCKING_FILTER = 128 := rfl
    have n6 : Opt.SLICE_STRUCTURED = 256 := rfl
    have n7 : Opt.REFERENCE_PICTURE_SELECTION = 512 := rfl
    have hrps : flag h.rps Opt.REFERENCE_PICTURE_SELECTION = if h.rps then 512 else 0 := by cases h.rps <;> rfl
    rw [hrps]
    cases hr : h.rps <;> simp only [Bool.false_eq_true, ↓reduceIte, decide_eq_true_eq, decide_eq_false_iff_not] <;> omega


/-! ### the whole PLUSPTYPE header -/

theorem high_facts7 : ∀ a b c : Bool,
    let v := 128 + (if a then 32 else 0) + (if b then 16 else 0) + (if c then 8 else 0) + 7
    v < 256 ∧ (v &&& 0xC0 != 0x80) = false ∧ Header.bit v 0x20 = a ∧ Header.bit v 0x10 = b ∧ Header.bit v 0x08 = c ∧ v &&& 0x07 = 7 := by
  decide

def ptypeHigh7 (h : PlusHdr) : Nat :=
  128 + (if h.split then 32 else 0) + (if h.docCamera then 16 else 0) + (if h.freezeRelease then 8 else 0) + 7

theorem ptypeHigh7_bits (h : PlusHdr) :
    [true, false, h.split, h.docCamera, h.freezeRelease] ++ natBits 3 7 = natBits 8 (ptypeHigh7 h) := by
  unfold ptypeHigh7
  cases h.split <;> cases h.docCamera <;> cases h.freezeRelease <;> rfl

def o3 (h : PlusHdr) : Nat :=
  flag h.split Opt.USE_SPLIT_SCREEN + flag h.docCamera Opt.USE_DOCUMENT_CAMERA + flag h.freezeRelease Opt.RELEASE_FULL_PICTURE_FREEZE

theorem o3_eq : ∀ a b c : Bool,
    Header.setIf c Opt.RELEASE_FULL_PICTURE_FREEZE (Header.setIf b Opt.USE_DOCUMENT_CAMERA (Header.setIf a Opt.USE_SPLIT_SCREEN 0)) =
      flag a Opt.USE_SPLIT_SCREEN + flag b Opt.USE_DOCUMENT_CAMERA + flag c Opt.RELEASE_FULL_PICTURE_FREEZE ∧
    flag a Opt.USE_SPLIT_SCREEN + flag b Opt.USE_DOCUMENT_CAMERA + flag c Opt.RELEASE_FULL_PICTURE_FREEZE < 8 := by decide

/-- `decode_ptype` when the source format field says "extended PTYPE" (111): only the three flag bits are reported -/
theorem decodePtype_plus (h : PlusHdr) (rest : Bits) (pos : Nat) :
    Header.decodePtype ⟨natBits 8 (ptypeHigh7 h) ++ rest, pos⟩ = .ok ((o3 h, none), ⟨rest, pos + 8⟩) := by
  obtain ⟨hlt, hmark, b1, b2, b3, hfm⟩ := high_facts7 h.split h.docCamera h.freezeRelease
  unfold Header.decodePtype
  simp only [bind_apply, readU8]
  rw [readBits_natBits 8 8 (ptypeHigh7 h) (by omega) (by unfold ptypeHigh7; exact hlt)]
  simp only
  unfold ptypeHigh7
  rw [hmark]
  simp only [Bool.false_eq_true, ↓reduceIte, b1, b2, b3, hfm, pure_apply]
  rw [(o3_eq h.split h.docCamera h.freezeRelease).1]
  rfl

/-- a low part below 8 OR-ed with a multiple of 8 is their sum -/
theorem or_low8 (a b : Nat) (ha : a < 8) (hb : b % 8 = 0) : a ||| b = a + b := by
  have : b = (b / 8) * 2 ^ 3 := by omega
  rw [this, Nat.or_comm, PeekLoop.lor_add _ 3 a (by omega)]
  omega

theorem and_opp_mod8 (x : Nat) : (x &&& Opt.OPPTYPE_OPTIONS) % 8 = 0 ∧ x &&& Opt.OPPTYPE_OPTIONS < 0x2000 := by
  constructor
  · have e : (8 : Nat) = 2 ^ 3 := rfl
    rw [e, ← Nat.and_two_pow_sub_one_eq_mod, Nat.and_assoc]
    have : Opt.OPPTYPE_OPTIONS &&& (2 ^ 3 - 1) = 0 := by decide
    rw [this, Nat.and_zero]
  · have := Nat.and_le_right (n := x) (m := Opt.OPPTYPE_OPTIONS)
    have e : Opt.OPPTYPE_OPTIONS = 0x1FF8 := by decide
    omega


abbrev prevOpts (prev : Option PicHdr) : Nat := Header.prevOptions prev

/-- the OPPTYPE-class option set in force for this header: its own, or the previous header's when UFEP = 000 -/
def oppInForce (prev : Option PicHdr) (h : PlusHdr) : Nat :=
  if h.ufep then oppOptions h else prevOpts prev &&& Opt.OPPTYPE_OPTIONS

structure Valid (scal : Bool) (prev : Option PicHdr) (h : PlusHdr) : Prop where
  tr : h.tr < 256
  sf : h.srcFmt < 8
  pt : h.picType < 8
  markers : h.ufepCode = none ∧ h.oppTail = 8 ∧ h.mppTail = 1 ∧ h.cpfmtMarker = true ∧ h.uuiBad = false ∧ h.bciBad = false
  norpr : h.rpr = false
  cpm : ∀ p, h.cpm = some p → p < 4
  cpfmt : h.ufep = true → h.srcFmt = 6 → CpfmtValid h
  clock : h.cpcfc < 256 ∧ h.etr < 4
  layers : h.elnum < 16 ∧ h.rlnum < 16
  rpsmf : h.rpsmf < 8
  trp : ∀ v, h.trp = some v → v < 1024
  q : h.quant < 32
  trb : h.trb < (if h.ufep && h.customPcf then 32 else 8)
  dbq : h.dbquant < 4
  extra : ∀ b ∈ h.extra, b < 256
  prevfmt : Header.formatChanged prev (plusPicture scal (prevOpts prev) h).format = false

theorem has_rps_total (h3 opp m : Nat) (h3lt : h3 < 8) (hopp8 : opp % 8 = 0) (hopplt : opp < 0x2000) (hm : m % 0x2000 = 0) :
    Opt.has (h3 + (opp + m)) Opt.REFERENCE_PICTURE_SELECTION = Opt.has opp Opt.REFERENCE_PICTURE_SELECTION := by
  have e9 : Opt.REFERENCE_PICTURE_SELECTION = 2 ^ 9 := rfl
  rw [e9, has_pow, has_pow]
  congr 1
  apply propext
  constructor <;> intro hh <;> omega

theorem has_rpr_total (h3 opp m : Nat) (h3lt : h3 < 8) (hopp8 : opp % 8 = 0) (hopplt : opp < 0x2000) (hm : m % 0x4000 = 0) :
    Opt.has (h3 + (opp + m)) Opt.REFERENCE_PICTURE_RESAMPLING = false := by
  have e13 : Opt.REFERENCE_PICTURE_RESAMPLING = 2 ^ 13 := by simp [Opt.REFERENCE_PICTURE_RESAMPLING]
  rw [e13, has_pow]
  simp only [decide_eq_false_iff_not]
  omega

end H263V.Lemmas.PlusRoundTrip
