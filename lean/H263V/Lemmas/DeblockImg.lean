import H263V.Lemmas.Deblock
namespace H263V.Lemmas.DeblockImg
open H263V H263V.Deblock

/-- every sample is a byte -/
def Bytes (img : Img) : Prop := ∀ i (h : i < img.size), img[i] < 256

theorem bytes_set (img : Img) (hb : Bytes img) (i v : Nat) (hv : v < 256) : Bytes (img.setIfInBounds i v) := by
  intro j hj
  rw [Array.getElem_setIfInBounds]
  split
  · exact hv
  · exact hb j (by simpa using hj)

theorem kernel_ok (useSimd : Bool) (a b c d s : Nat) (ha : a < 256) (hb : b < 256) (hc : c < 256) (hd : d < 256)
    (hs : 1 ≤ s ∧ s ≤ 12) :
    ∃ r : Int × Int × Int × Int,
      (if useSimd then processSimd a b c d s else processScalar a b c d s) = .ok r ∧
      r.1.toNat < 256 ∧ r.2.1.toNat < 256 ∧ r.2.2.1.toNat < 256 ∧ r.2.2.2.toNat < 256 := by
  have ha' : (0 : Int) ≤ a ∧ (a : Int) ≤ 255 := by omega
  have hb' : (0 : Int) ≤ b ∧ (b : Int) ≤ 255 := by omega
  have hc' : (0 : Int) ≤ c ∧ (c : Int) ≤ 255 := by omega
  have hd' : (0 : Int) ≤ d ∧ (d : Int) ≤ 255 := by omega
  have hs' : (1 : Int) ≤ s ∧ (s : Int) ≤ 12 := by omega
  have hr := Lemmas.Deblock.filter_range a b c d s ha' hb' hc' hd' hs'
  refine ⟨Spec.AnnexJ.filter s a b c d, ?_, ?_, ?_, ?_, ?_⟩
  · cases useSimd
    · simpa using Lemmas.Deblock.scalar_eq_spec a b c d s ha' hb' hc' hd' hs'
    · simpa using Lemmas.Deblock.simd_eq_spec a b c d s ha' hb' hc' hd' hs'
  all_goals omega

theorem applyAt_ok (useSimd : Bool) (img : Img) (hbytes : Bytes img) (ia ib ic id s : Nat)
    (ha : ia < img.size) (hb : ib < img.size) (hc : ic < img.size) (hd : id < img.size) (hs : 1 ≤ s ∧ s ≤ 12) :
    ∃ img', applyAt useSimd img ia ib ic id s = .ok img' ∧ img'.size = img.size ∧ Bytes img' := by
  unfold applyAt
  simp only [Array.getElem?_eq_getElem ha, Array.getElem?_eq_getElem hb, Array.getElem?_eq_getElem hc,
    Array.getElem?_eq_getElem hd]
  obtain ⟨r, hr, h1, h2, h3, h4⟩ := kernel_ok useSimd img[ia] img[ib] img[ic] img[id] s
    (hbytes ia ha) (hbytes ib hb) (hbytes ic hc) (hbytes id hd) hs
  rw [hr]
  refine ⟨_, rfl, by simp, ?_⟩
  exact bytes_set _ (bytes_set _ (bytes_set _ (bytes_set _ hbytes _ _ h1) _ _ h2) _ _ h3) _ _ h4

theorem horizEdgeCols_ok (w s edgeY : Nat) (hs : 1 ≤ s ∧ s ≤ 12) (he : 2 ≤ edgeY) :
    ∀ (n x : Nat) (img : Img), Bytes img → x + n ≤ w → (edgeY + 2) * w ≤ img.size →
      ∃ img', horizEdgeCols w s edgeY n x img = .ok img' ∧ img'.size = img.size ∧ Bytes img' := by
  intro n
  induction n with
  | zero => intro x img hb _ _; exact ⟨img, rfl, rfl, hb⟩
  | succ n ih =>
    intro x img hb hx hsz
    unfold horizEdgeCols
    have hxw : x < w := by omega
    obtain ⟨k, hk⟩ : ∃ k, edgeY = k + 2 := ⟨edgeY - 2, by omega⟩
    have e0 : (edgeY - 2) * w = k * w := by rw [hk]; simp
    have e1 : (edgeY + 2) * w = k * w + 4 * w := by rw [hk, show k + 2 + 2 = k + 4 by omega, Nat.add_mul]
    have e2 : (edgeY - 1) * w = k * w + w := by
      rw [hk, show k + 2 - 1 = k + 1 by omega, Nat.add_mul, Nat.one_mul]
    have e3 : edgeY * w = k * w + 2 * w := by rw [hk, Nat.add_mul]
    have e4 : (edgeY + 1) * w = k * w + 3 * w := by rw [hk, show k + 2 + 1 = k + 3 by omega, Nat.add_mul]
    obtain ⟨img1, h1, hs1, hb1⟩ := applyAt_ok (decide (x < (w / 8) * 8)) img hb
      ((edgeY - 2) * w + x) ((edgeY - 1) * w + x) (edgeY * w + x) ((edgeY + 1) * w + x) s
      (by omega) (by omega) (by omega) (by omega) hs
    rw [h1]
    obtain ⟨img2, h2, hs2, hb2⟩ := ih (x + 1) img1 hb1 (by omega) (by omega)
    exact ⟨img2, by simpa using h2, by omega, hb2⟩

theorem horizLoop_ok (w h s : Nat) (hs : 1 ≤ s ∧ s ≤ 12) :
    ∀ (n edgeY : Nat) (img : Img), Bytes img → 2 ≤ edgeY → h * w ≤ img.size →
      ∃ img', horizLoop w h s n edgeY img = .ok img' ∧ img'.size = img.size ∧ Bytes img' := by
  intro n
  induction n with
  | zero => intro e img hb _ _; exact ⟨img, rfl, rfl, hb⟩
  | succ n ih =>
    intro e img hb he hsz
    unfold horizLoop
    split
    · rename_i hle
      have : (e + 2) * w ≤ img.size := Nat.le_trans (Nat.mul_le_mul_right w hle) hsz
      obtain ⟨img1, h1, hs1, hb1⟩ := horizEdgeCols_ok w s e hs he w 0 img hb (by omega) this
      rw [h1]
      obtain ⟨img2, h2, hs2, hb2⟩ := ih (e + 8) img1 hb1 (by omega) (by omega)
      exact ⟨img2, by simpa using h2, by omega, hb2⟩
    · exact ⟨img, rfl, rfl, hb⟩

theorem deblockHoriz_ok (img : Img) (w s : Nat) (hw : 1 ≤ w) (hb : Bytes img) (hs : 1 ≤ s ∧ s ≤ 12) :
    ∃ img', deblockHoriz img w s = .ok img' ∧ img'.size = img.size ∧ Bytes img' := by
  unfold deblockHoriz
  have : ¬ (w = 0) := by omega
  simp only [this, ↓reduceIte]
  exact horizLoop_ok w (img.size / w) s hs _ 8 img hb (by omega) (Nat.div_mul_le_self _ _)

theorem vertRowChunks_ok (w s row : Nat) (useSimd : Bool) (hs : 1 ≤ s ∧ s ≤ 12) :
    ∀ (n k : Nat) (img : Img), Bytes img → 8 * (k + n) + 2 ≤ w → (row + 1) * w ≤ img.size →
      ∃ img', vertRowChunks w s row useSimd n k img = .ok img' ∧ img'.size = img.size ∧ Bytes img' := by
  intro n
  induction n with
  | zero => intro k img hb _ _; exact ⟨img, rfl, rfl, hb⟩
  | succ n ih =>
    intro k img hb hk hsz
    unfold vertRowChunks
    have e1 : (row + 1) * w = row * w + w := by rw [Nat.add_mul, Nat.one_mul]
    obtain ⟨img1, h1, hs1, hb1⟩ := applyAt_ok useSimd img hb
      (row * w + 8 * k + 6) (row * w + 8 * k + 7) (row * w + 8 * k + 8) (row * w + 8 * k + 9) s
      (by omega) (by omega) (by omega) (by omega) hs
    rw [h1]
    obtain ⟨img2, h2, hs2, hb2⟩ := ih (k + 1) img1 hb1 (by omega) (by omega)
    exact ⟨img2, by simpa using h2, by omega, hb2⟩

theorem vertRows_ok (w h s : Nat) (hw : 10 ≤ w) (hs : 1 ≤ s ∧ s ≤ 12) :
    ∀ (n row : Nat) (img : Img), Bytes img → (row + n) * w ≤ img.size →
      ∃ img', vertRows w h s n row img = .ok img' ∧ img'.size = img.size ∧ Bytes img' := by
  intro n
  induction n with
  | zero => intro r img hb _; exact ⟨img, rfl, rfl, hb⟩
  | succ n ih =>
    intro r img hb hsz
    unfold vertRows
    have hk : 8 * (0 + (w - 2) / 8) + 2 ≤ w := by
      have := Nat.div_mul_le_self (w - 2) 8
      omega
    have hr1 : (r + 1) * w ≤ img.size := by
      refine Nat.le_trans (Nat.mul_le_mul_right w ?_) hsz
      omega
    obtain ⟨img1, h1, hs1, hb1⟩ := vertRowChunks_ok w s r (decide (r < (h / 8) * 8)) hs ((w - 2) / 8) 0 img hb hk hr1
    rw [h1]
    have : (r + 1 + n) * w ≤ img1.size := by
      rw [hs1]
      have : r + 1 + n = r + (n + 1) := by omega
      rw [this]; exact hsz
    obtain ⟨img2, h2, hs2, hb2⟩ := ih (r + 1) img1 hb1 this
    exact ⟨img2, by simpa using h2, by omega, hb2⟩

theorem deblockVert_ok (img : Img) (w s : Nat) (hb : Bytes img) (hs : 1 ≤ s ∧ s ≤ 12) :
    ∃ img', deblockVert img w s = .ok img' ∧ img'.size = img.size ∧ Bytes img' := by
  unfold deblockVert
  split
  · rename_i hw
    exact vertRows_ok w (img.size / w) s hw hs (img.size / w) 0 img hb (by simpa using Nat.div_mul_le_self _ _)
  · exact ⟨img, rfl, rfl, hb⟩

theorem deblock_ok (img : Img) (w s : Nat) (hw : 1 ≤ w) (hl : img.size % w = 0) (hb : Bytes img)
    (hs : 1 ≤ s ∧ s ≤ 12) :
    ∃ img', deblock img w s = .ok img' ∧ img'.size = img.size ∧ Bytes img' := by
  unfold deblock
  have h0 : ¬ (w = 0) := by omega
  simp only [h0, ↓reduceIte, hl, ne_eq, not_true_eq_false]
  obtain ⟨img1, h1, hs1, hb1⟩ := deblockHoriz_ok img w s hw hb hs
  rw [h1]
  obtain ⟨img2, h2, hs2, hb2⟩ := deblockVert_ok img1 w s hb1 hs
  exact ⟨img2, by simpa using h2, by omega, hb2⟩

end H263V.Lemmas.DeblockImg
