/-
Syntax round trip: the parsers invert the specification encoder (Spec/Syntax.lean), layer by layer —
fields and VLC codewords, TCOEF events, blocks, macroblocks.  Each statement has the form
`parse ⟨encode x ++ rest, pos⟩ = ok (x, ⟨rest, pos + |encode x|⟩)`: exactly the encoded bits are consumed, whatever follows.
-/
import H263V.Model.State
import H263V.Spec.Syntax
import H263V.Lemmas.BitsLemmas
import H263V.Lemmas.ParseLemmas
import H263V.Lemmas.VlcTables
import H263V.Thm.C11
import H263V.Lemmas.Total
set_option linter.unusedSimpArgs false
namespace H263V.Lemmas.RoundTrip
open H263V H263V.Mb H263V.Spec.Vlc H263V.Spec.Syntax H263V.Lemmas.BitsLemmas H263V.Lemmas.ParseLemmas H263V.Lemmas.VlcTables

/-! ### primitives -/

theorem readVlc_of_walk {α : Type} (t : Array (Entry α)) (code rest : Bits) (a : α) (pos : Nat)
    (h : vlcWalk t 0 code 0 = .ok (a, [], code.length)) :
    readVlc t ⟨code ++ rest, pos⟩ = .ok (a, ⟨rest, pos + code.length⟩) := by
  unfold readVlc
  simp only
  rw [walk_append t code 0 0 a code.length rest h]

theorem agrees_mem {α σ : Type} [DecidableEq α] (t : Array (Entry α)) (spec : List (σ × Bits)) (f : σ → α)
    (h : agrees t spec f = true) (p : σ × Bits) (hp : p ∈ spec) : vlcWalk t 0 p.2 0 = .ok (f p.1, [], p.2.length) := by
  unfold agrees at h
  rw [List.all_eq_true] at h
  have := h p hp
  simpa using this

theorem find_map_some {σ : Type} [BEq σ] [LawfulBEq σ] (tbl : List (σ × Bits)) (key : σ) (code : Bits)
    (h : (tbl.find? fun e => e.1 == key).map (·.2) = some code) : (key, code) ∈ tbl := by
  cases hf : tbl.find? (fun e => e.1 == key) with
  | none => rw [hf] at h; simp at h
  | some e =>
    rw [hf] at h
    simp only [Option.map_some, Option.some.injEq] at h
    have hm := List.mem_of_find?_eq_some hf
    have hp := List.find?_some hf
    have : e.1 = key := by simpa using hp
    rw [← this, ← h]
    exact hm

theorem readSignedBits_intBits (n : Nat) (hn : n = 7 ∨ n = 8 ∨ n = 11) (l : Int)
    (hl : -(2 ^ (n - 1) : Nat) ≤ l ∧ l < (2 ^ (n - 1) : Nat)) (rest : Bits) (pos : Nat) :
    readSignedBits 16 n ⟨intBits n l ++ rest, pos⟩ = .ok (l, ⟨rest, pos + n⟩) := by
  unfold readSignedBits intBits
  have hv : (if l < 0 then (l + (2 ^ n : Nat)).toNat else l.toNat) < 2 ^ n := by
    rcases hn with h | h | h <;> subst h <;> simp at hl ⊢ <;> split <;> omega
  have hn16 : n ≤ 16 := by omega
  have hn0 : 0 < n := by omega
  rw [peekBits_natBits 16 n _ hn16 hn0 hv]
  simp only
  rw [if_neg (by omega)]
  rw [skipBits_append _ rest n pos (natBits_length _ _)]
  simp only [Out.bind]
  rw [Thm.C11.escape_level_roundtrip n hn l hl]

/-! ### TCOEF events -/

def toTCoef (e : Event) : TCoef := { isShort := e.form == .short, run := e.run, level := e.level }

/-- the flavour of the stream decides which escape forms exist -/
def v1 (d : DecOpts) (hdr : PicHdr) : Bool := d.sorenson && hdr.version == some 1

def EventOK (d : DecOpts) (hdr : PicHdr) (last : Bool) (e : Event) : Prop :=
  match e.form with
  | .short => (tcoefCode last e.run e.level.natAbs).isSome
  | .esc8 => v1 d hdr = false ∧ e.run < 64 ∧ e.level ≠ 0 ∧ -128 ≤ e.level ∧ e.level < 128
  | .esc7 => v1 d hdr = true ∧ e.run < 64 ∧ e.level ≠ 0 ∧ -64 ≤ e.level ∧ e.level < 64
  | .esc11 => v1 d hdr = true ∧ e.run < 64 ∧ e.level ≠ 0 ∧ -1024 ≤ e.level ∧ e.level < 1024

def EventsOK (d : DecOpts) (hdr : PicHdr) : List Event → Prop
  | [] => True
  | [e] => EventOK d hdr true e
  | e :: e2 :: es => EventOK d hdr false e ∧ EventsOK d hdr (e2 :: es)

theorem tcoef_short_walk (last : Bool) (run level : Nat) (code : Bits) (h : tcoefCode last run level = some code) :
    vlcWalk Gen.TCOEF 0 code 0 = .ok (some (TShort.run last run level), [], code.length) := by
  unfold tcoefCode at h
  have hm := find_map_some tcoefTable (last, run, level) code h
  exact agrees_mem Gen.TCOEF tcoefTable (fun s => some (TShort.run s.1 s.2.1 s.2.2)) tcoef_agrees.1 ((last, run, level), code) hm

theorem i16MaxShl_vals : i16MaxShl 8 = -256 ∧ i16MaxShl 7 = -128 ∧ i16MaxShl 11 = -2048 := by
  refine ⟨?_, ?_, ?_⟩ <;> simp [i16MaxShl]

theorem tcoefLoop_succ (d : DecOpts) (hdr : PicHdr) (running fuel : Nat) (acc : List TCoef) :
    tcoefLoop d hdr running (fuel + 1) acc = (do
    let s ← readVlc Gen.TCOEF
    let s ← P.okOr s .invalidShortCoef
    match s with
    | .esc =>
      let width ← (if d.sorenson && hdr.version == some 1 then do
          let f ← readBits 8 1
          pure (if f == 1 then 11 else 7)
        else pure 8)
      let last ← readBits 8 1
      let run ← readBits 8 6
      let level ← readSignedBits 16 width
      if level == 0 then P.fail .invalidLongCoef else
      if level == i16MaxShl width then
        (if Opt.has running Opt.MODIFIED_QUANTIZATION then P.fail .unimplemented else P.fail .invalidLongCoef)
      else
      let acc := acc ++ [{ isShort := false, run := run, level := level }]
      if last == 1 then pure acc else tcoefLoop d hdr running fuel acc
    | .run last run level =>
      let sign ← readBits 8 1
      let acc := acc ++ [{ isShort := true, run := run, level := if sign == 0 then (level : Int) else -(level : Int) }]
      if last then pure acc else tcoefLoop d hdr running fuel acc) := by
  rw [tcoefLoop]
  rfl

/-- one event: what a single iteration of the TCOEF loop reads -/
theorem tcoef_iter (d : DecOpts) (hdr : PicHdr) (running : Nat) (last : Bool) (e : Event) (he : EventOK d hdr last e)
    (fuel : Nat) (acc : List TCoef) (rest : Bits) (pos : Nat) :
    tcoefLoop d hdr running (fuel + 1) acc ⟨encodeEvent last e ++ rest, pos⟩ =
      if last then .ok (acc ++ [toTCoef e], ⟨rest, pos + (encodeEvent last e).length⟩)
      else tcoefLoop d hdr running fuel (acc ++ [toTCoef e]) ⟨rest, pos + (encodeEvent last e).length⟩ := by
  rw [tcoefLoop_succ]
  unfold EventOK at he
  unfold encodeEvent toTCoef
  cases hf : e.form with
  | short =>
    rw [hf] at he
    simp only at he ⊢
    obtain ⟨code, hc⟩ := Option.isSome_iff_exists.mp he
    rw [hc]
    simp only [Option.getD_some, List.append_assoc, bind_apply]
    rw [readVlc_of_walk _ code _ _ pos (tcoef_short_walk last e.run e.level.natAbs code hc)]
    simp only [okOr_some]
    have hsign : readBits 8 1 ⟨[decide (e.level < 0)] ++ rest, pos + code.length⟩ =
        .ok ((if e.level < 0 then 1 else 0), ⟨rest, pos + code.length + 1⟩) := by
      have := readBits_natBits 8 1 (if e.level < 0 then 1 else 0) (by omega) (by split <;> omega) rest (pos + code.length)
      have hb : natBits 1 (if e.level < 0 then 1 else 0) = [decide (e.level < 0)] := by
        by_cases hl : e.level < 0 <;> simp [hl, natBits]
      rw [hb] at this
      exact this
    rw [bind_apply, hsign]
    simp only
    have hlev : (if ((if e.level < 0 then 1 else 0 : Nat) == 0) = true then ((e.level.natAbs : Nat) : Int) else -((e.level.natAbs : Nat) : Int)) = e.level := by
      by_cases hl : e.level < 0
      · simp [hl]; omega
      · simp [hl]; omega
    rw [hlev]
    have hlen : pos + code.length + 1 = pos + (code ++ [decide (e.level < 0)]).length := by simp; omega
    rw [hlen]
    have hfs : ∀ f : Form, f ≠ .short → (f == Form.short) = false := by intro f hf; cases f <;> simp at hf ⊢
    cases last <;> simp [hfs]
  | esc8 =>
    rw [hf] at he
    simp only at he ⊢
    obtain ⟨hv, hr, hl0, hl1, hl2⟩ := he
    unfold v1 at hv
    simp only [List.append_assoc, bind_apply]
    rw [readVlc_of_walk _ tcoefEscape _ _ pos tcoef_agrees.2]
    have hb : natBits 1 (if last then 1 else 0) = [last] := by cases last <;> simp [natBits]
    have hlast : readBits 8 1 ⟨[last] ++ (natBits 6 e.run ++ (intBits 8 e.level ++ rest)), pos + tcoefEscape.length⟩ =
        .ok ((if last then 1 else 0), ⟨natBits 6 e.run ++ (intBits 8 e.level ++ rest), pos + tcoefEscape.length + 1⟩) := by
      have := readBits_natBits 8 1 (if last then 1 else 0) (by omega) (by split <;> omega) (natBits 6 e.run ++ (intBits 8 e.level ++ rest)) (pos + tcoefEscape.length)
      rw [hb] at this
      exact this
    have hrun := readBits_natBits 8 6 e.run (by omega) (by omega) (intBits 8 e.level ++ rest) (pos + tcoefEscape.length + 1)
    have hlev := readSignedBits_intBits 8 (by omega) e.level (by simp; omega) rest (pos + tcoefEscape.length + 1 + 6)
    have hz : (e.level == 0) = false := by simpa using hl0
    have hm : (e.level == i16MaxShl 8) = false := by
      have := i16MaxShl_vals
      simp only [beq_eq_false_iff_ne, ne_eq]
      omega
    have h01 : ((0 : Nat) == 1) = false := rfl
    have h11 : ((1 : Nat) == 1) = true := rfl
    simp only [okOr_some, hv, Bool.false_eq_true, ↓reduceIte, pure_apply, bind_apply, h01, h11, hlast, hrun, hlev, hz, hm, fail_apply]
    have hlen : pos + tcoefEscape.length + 1 + 6 + 8 = pos + (tcoefEscape ++ ([last] ++ (natBits 6 e.run ++ intBits 8 e.level))).length := by
      simp [natBits_length, intBits]; omega
    rw [hlen]
    have hfs : ∀ f : Form, f ≠ .short → (f == Form.short) = false := by intro f hf; cases f <;> simp at hf ⊢
    cases last <;> simp [hfs]
  | esc7 =>
    rw [hf] at he
    simp only at he ⊢
    obtain ⟨hv, hr, hl0, hl1, hl2⟩ := he
    unfold v1 at hv
    simp only [List.append_assoc, bind_apply]
    rw [readVlc_of_walk _ tcoefEscape _ _ pos tcoef_agrees.2]
    have hb : natBits 1 (if last then 1 else 0) = [last] := by cases last <;> simp [natBits]
    have hflag : readBits 8 1 ⟨[false] ++ ([last] ++ (natBits 6 e.run ++ (intBits 7 e.level ++ rest))), pos + tcoefEscape.length⟩ =
        .ok (0, ⟨[last] ++ (natBits 6 e.run ++ (intBits 7 e.level ++ rest)), pos + tcoefEscape.length + 1⟩) :=
      readBits_natBits 8 1 0 (by omega) (by omega) _ _
    have hlast : readBits 8 1 ⟨[last] ++ (natBits 6 e.run ++ (intBits 7 e.level ++ rest)), pos + tcoefEscape.length + 1⟩ =
        .ok ((if last then 1 else 0), ⟨natBits 6 e.run ++ (intBits 7 e.level ++ rest), pos + tcoefEscape.length + 1 + 1⟩) := by
      have := readBits_natBits 8 1 (if last then 1 else 0) (by omega) (by split <;> omega) (natBits 6 e.run ++ (intBits 7 e.level ++ rest)) (pos + tcoefEscape.length + 1)
      rw [hb] at this
      exact this
    have hrun := readBits_natBits 8 6 e.run (by omega) (by omega) (intBits 7 e.level ++ rest) (pos + tcoefEscape.length + 1 + 1)
    have hlev := readSignedBits_intBits 7 (by omega) e.level (by simp; omega) rest (pos + tcoefEscape.length + 1 + 1 + 6)
    have hz : (e.level == 0) = false := by simpa using hl0
    have hm : (e.level == i16MaxShl 7) = false := by
      have := i16MaxShl_vals
      simp only [beq_eq_false_iff_ne, ne_eq]
      omega
    have h01 : ((0 : Nat) == 1) = false := rfl
    have h11 : ((1 : Nat) == 1) = true := rfl
    simp only [okOr_some, hv, Bool.false_eq_true, ↓reduceIte, pure_apply, bind_apply, hflag, h01, h11, hlast, hrun, hlev, hz, hm, fail_apply]
    have hlen : pos + tcoefEscape.length + 1 + 1 + 6 + 7 = pos + (tcoefEscape ++ ([false] ++ ([last] ++ (natBits 6 e.run ++ intBits 7 e.level)))).length := by
      simp [natBits_length, intBits]; omega
    rw [hlen]
    have hfs : ∀ f : Form, f ≠ .short → (f == Form.short) = false := by intro f hf; cases f <;> simp at hf ⊢
    cases last <;> simp [hfs]
  | esc11 =>
    rw [hf] at he
    simp only at he ⊢
    obtain ⟨hv, hr, hl0, hl1, hl2⟩ := he
    unfold v1 at hv
    simp only [List.append_assoc, bind_apply]
    rw [readVlc_of_walk _ tcoefEscape _ _ pos tcoef_agrees.2]
    have hb : natBits 1 (if last then 1 else 0) = [last] := by cases last <;> simp [natBits]
    have hflag : readBits 8 1 ⟨[true] ++ ([last] ++ (natBits 6 e.run ++ (intBits 11 e.level ++ rest))), pos + tcoefEscape.length⟩ =
        .ok (1, ⟨[last] ++ (natBits 6 e.run ++ (intBits 11 e.level ++ rest)), pos + tcoefEscape.length + 1⟩) :=
      readBits_natBits 8 1 1 (by omega) (by omega) _ _
    have hlast : readBits 8 1 ⟨[last] ++ (natBits 6 e.run ++ (intBits 11 e.level ++ rest)), pos + tcoefEscape.length + 1⟩ =
        .ok ((if last then 1 else 0), ⟨natBits 6 e.run ++ (intBits 11 e.level ++ rest), pos + tcoefEscape.length + 1 + 1⟩) := by
      have := readBits_natBits 8 1 (if last then 1 else 0) (by omega) (by split <;> omega) (natBits 6 e.run ++ (intBits 11 e.level ++ rest)) (pos + tcoefEscape.length + 1)
      rw [hb] at this
      exact this
    have hrun := readBits_natBits 8 6 e.run (by omega) (by omega) (intBits 11 e.level ++ rest) (pos + tcoefEscape.length + 1 + 1)
    have hlev := readSignedBits_intBits 11 (by omega) e.level (by simp; omega) rest (pos + tcoefEscape.length + 1 + 1 + 6)
    have hz : (e.level == 0) = false := by simpa using hl0
    have hm : (e.level == i16MaxShl 11) = false := by
      have := i16MaxShl_vals
      simp only [beq_eq_false_iff_ne, ne_eq]
      omega
    have h01 : ((0 : Nat) == 1) = false := rfl
    have h11 : ((1 : Nat) == 1) = true := rfl
    simp only [okOr_some, hv, Bool.false_eq_true, ↓reduceIte, pure_apply, bind_apply, hflag, h01, h11, hlast, hrun, hlev, hz, hm, fail_apply]
    have hlen : pos + tcoefEscape.length + 1 + 1 + 6 + 11 = pos + (tcoefEscape ++ ([true] ++ ([last] ++ (natBits 6 e.run ++ intBits 11 e.level)))).length := by
      simp [natBits_length, intBits]; omega
    rw [hlen]
    have hfs : ∀ f : Form, f ≠ .short → (f == Form.short) = false := by intro f hf; cases f <;> simp at hf ⊢
    cases last <;> simp [hfs]


theorem encodeEvent_length_pos (last : Bool) (e : Event) : 1 ≤ (encodeEvent last e).length := by
  unfold encodeEvent
  cases e.form <;> simp <;> omega

theorem encodeEvents_length (evs : List Event) : evs.length ≤ (encodeEvents evs).length := by
  induction evs with
  | nil => simp [encodeEvents]
  | cons e es ih =>
    cases es with
    | nil => simp only [encodeEvents, List.length_cons, List.length_nil]; exact encodeEvent_length_pos true e
    | cons e2 es2 =>
      simp only [encodeEvents, List.length_cons, List.length_append] at ih ⊢
      have := encodeEvent_length_pos false e
      omega

/-- the whole event list of a block: the loop returns exactly the events, in order, and stops after the one marked LAST -/
theorem tcoefLoop_events (d : DecOpts) (hdr : PicHdr) (running : Nat) :
    ∀ (evs : List Event), evs ≠ [] → EventsOK d hdr evs → ∀ (fuel : Nat), evs.length ≤ fuel → ∀ (acc : List TCoef) (rest : Bits) (pos : Nat),
      tcoefLoop d hdr running fuel acc ⟨encodeEvents evs ++ rest, pos⟩ =
        .ok (acc ++ evs.map toTCoef, ⟨rest, pos + (encodeEvents evs).length⟩) := by
  intro evs
  induction evs with
  | nil => intro h; exact absurd rfl h
  | cons e es ih =>
    intro _ hok fuel hf acc rest pos
    obtain ⟨f, hfe⟩ : ∃ f, fuel = f + 1 := ⟨fuel - 1, by simp at hf; omega⟩
    subst hfe
    cases es with
    | nil =>
      simp only [encodeEvents]
      rw [tcoef_iter d hdr running true e hok f acc rest pos]
      simp
    | cons e2 es2 =>
      obtain ⟨h1, h2⟩ := hok
      simp only [encodeEvents, List.append_assoc]
      rw [tcoef_iter d hdr running false e h1 f acc _ pos]
      simp only [Bool.false_eq_true, ↓reduceIte]
      rw [ih (by simp) h2 f (by simp at hf ⊢; omega) _ rest _]
      simp [Nat.add_assoc]

/-! ### blocks -/

def toBlock (b : BlockD) : Block := { intradc := b.dc, tcoef := b.events.map toTCoef }

def BlockOK (d : DecOpts) (hdr : PicHdr) (t : MbType) (b : BlockD) : Prop :=
  (if t.isIntra then ∃ c, b.dc = some c ∧ c < 256 ∧ c ≠ 0 ∧ c ≠ 128 else b.dc = none) ∧ EventsOK d hdr b.events

/-- `decode_block` on an encoded block returns the block (INTRADC code, events) and consumes exactly its bits -/
theorem decodeBlock_encode (d : DecOpts) (hdr : PicHdr) (running : Nat) (t : MbType) (b : BlockD) (hb : BlockOK d hdr t b)
    (rest : Bits) (pos : Nat) :
    decodeBlock d hdr running t (codedFlag b) ⟨encodeBlock b ++ rest, pos⟩ =
      .ok (toBlock b, ⟨rest, pos + (encodeBlock b).length⟩) := by
  unfold decodeBlock encodeBlock toBlock codedFlag
  obtain ⟨hdc, hev⟩ := hb
  -- the coefficient part, at any cursor position
  have tail : ∀ (dc : Option Nat) (p : Nat),
      (if (!b.events.isEmpty) = true then fun c => (tcoefLoop d hdr running (c.bits.length + 1) [] >>= fun tc => pure { intradc := dc, tcoef := tc }) c
        else pure { intradc := dc, tcoef := [] } : P Block) ⟨encodeEvents b.events ++ rest, p⟩ =
      .ok ({ intradc := dc, tcoef := b.events.map toTCoef }, ⟨rest, p + (encodeEvents b.events).length⟩) := by
    intro dc p
    cases hevs : b.events with
    | nil => simp [encodeEvents]
    | cons e es =>
      simp only [List.isEmpty_cons, Bool.not_false, ↓reduceIte, bind_apply]
      rw [← hevs]
      have hlen := encodeEvents_length b.events
      rw [tcoefLoop_events d hdr running b.events (by rw [hevs]; simp) hev _ (by simp; omega) [] rest p]
      simp
  simp only [bind_apply, pure_apply] at tail
  by_cases hi : t.isIntra = true
  · simp only [hi, ↓reduceIte] at hdc ⊢
    obtain ⟨c, hc, h256, h0, h128⟩ := hdc
    rw [hc]
    simp only [List.append_assoc, bind_apply]
    unfold readU8
    rw [readBits_natBits 8 8 c (by omega) (by omega)]
    simp only
    have hic : intraDcOfByte c = some c := by unfold intraDcOfByte; simp [h0, h128]
    rw [hic]
    simp only [okOr_some, pure_apply]
    rw [tail (some c) (pos + 8)]
    simp [natBits_length, Nat.add_assoc]
  · have hi' : t.isIntra = false := by simpa using hi
    simp only [hi', Bool.false_eq_true, ↓reduceIte] at hdc ⊢
    rw [hdc]
    simp only [List.nil_append, bind_apply, pure_apply]
    rw [tail none pos]


/-! ### macroblock header -/

theorem cbpy_walk : ∀ a b c d : Bool, ∃ code, (cbpyTable.find? fun e => e.1 == (a, b, c, d)).map (·.2) = some code ∧
    vlcWalk Gen.CBPY 0 code 0 = .ok (some (a, b, c, d), [], code.length) := by
  intro a b c d
  have hall : ((cbpyTable.find? fun e => e.1 == (a, b, c, d)).map (·.2)).isSome = true := by
    cases a <;> cases b <;> cases c <;> cases d <;> rfl
  obtain ⟨code, hc⟩ := Option.isSome_iff_exists.mp hall
  exact ⟨code, hc, agrees_mem Gen.CBPY cbpyTable (fun s => some s) cbpy_agrees ((a, b, c, d), code) (find_map_some _ _ _ hc)⟩

theorem readVlc_cbpy (intra : Bool) (p : Bool × Bool × Bool × Bool) (rest : Bits) (pos : Nat) :
    readVlc Gen.CBPY ⟨cbpyCode intra p ++ rest, pos⟩ =
      .ok (some (if intra then p else (!p.1, !p.2.1, !p.2.2.1, !p.2.2.2)), ⟨rest, pos + (cbpyCode intra p).length⟩) := by
  unfold cbpyCode
  simp only
  generalize (if intra = true then p else (!p.1, !p.2.1, !p.2.2.1, !p.2.2.2)) = q
  obtain ⟨a, b, c, d⟩ := q
  obtain ⟨code, hc, hw⟩ := cbpy_walk a b c d
  rw [hc]
  simp only [Option.getD_some]
  exact readVlc_of_walk _ code rest _ pos hw

theorem mcbpc_walk (intraPic : Bool) (t : MbType) (cb cr : Bool) (code : Bits) (h : mcbpcCode intraPic t cb cr = some code) :
    vlcWalk (if intraPic then Gen.MCBPC_I else Gen.MCBPC_P) 0 code 0 = .ok (BPE.valid t cb cr, [], code.length) := by
  unfold mcbpcCode at h
  cases intraPic with
  | true =>
    simp only [↓reduceIte] at h ⊢
    exact agrees_mem Gen.MCBPC_I mcbpcITable (fun s => BPE.valid s.1 s.2.1 s.2.2) mcbpcI_agrees.1 ((t, cb, cr), code) (find_map_some _ _ _ h)
  | false =>
    simp only [Bool.false_eq_true, ↓reduceIte] at h ⊢
    exact agrees_mem Gen.MCBPC_P mcbpcPTable (fun s => BPE.valid s.1 s.2.1 s.2.2) mcbpcP_agrees.1 ((t, cb, cr), code) (find_map_some _ _ _ h)

def DqVal (d : Int) : Prop := d = -2 ∨ d = -1 ∨ d = 1 ∨ d = 2

theorem decodeDquant_encode (d : Int) (hd : DqVal d) (rest : Bits) (pos : Nat) :
    decodeDquant ⟨dquantCode d ++ rest, pos⟩ = .ok (d, ⟨rest, pos + (dquantCode d).length⟩) := by
  have key : ∀ (k : Nat) (hk : k < 4), decodeDquant ⟨natBits 2 k ++ rest, pos⟩ =
      .ok ((match k with | 0 => -1 | 1 => -2 | 2 => 1 | _ => 2), ⟨rest, pos + 2⟩) := by
    intro k hk
    unfold decodeDquant
    simp only [bind_apply]
    rw [readBits_natBits 8 2 k (by omega) (by omega)]
    simp only
    have : k = 0 ∨ k = 1 ∨ k = 2 ∨ k = 3 := by omega
    rcases this with h | h | h | h <;> subst h <;> rfl
  unfold dquantCode
  rcases hd with h | h | h | h <;> subst h
  · rw [if_neg (by decide), if_pos rfl, key 1 (by omega)]; simp [natBits_length]
  · rw [if_pos rfl, key 0 (by omega)]; simp [natBits_length]
  · rw [if_neg (by decide), if_neg (by decide), if_pos rfl, key 2 (by omega)]; simp [natBits_length]
  · rw [if_neg (by decide), if_neg (by decide), if_neg (by decide), key 3 (by omega)]; simp [natBits_length]

def MvdVal (m : Mvd) : Prop := (-32 ≤ m.1 ∧ m.1 < 32) ∧ (-32 ≤ m.2 ∧ m.2 < 32)

theorem mvd_walk (v : Int) (hv : -32 ≤ v ∧ v < 32) :
    ∃ lit, vlcWalk Gen.MVD 0 (mvdCode v) 0 = .ok (some lit, [], (mvdCode v).length) ∧ halfPelOfLit lit = v := by
  have h := mvd_agrees
  unfold MvdTableOk at h
  rw [List.all_eq_true] at h
  have := h (v + 32).toNat (by rw [List.mem_range]; omega)
  simp only at this
  have hk : (((v + 32).toNat : Nat) : Int) - 32 = v := by omega
  rw [hk] at this
  cases hw : vlcWalk Gen.MVD 0 (mvdCode v) 0 with
  | ok r =>
    obtain ⟨o, bs, n⟩ := r
    rw [hw] at this
    cases o with
    | none => simp at this
    | some lit =>
      cases bs with
      | nil =>
        simp only [decide_eq_true_eq] at this
        exact ⟨lit, by rw [this.2], this.1⟩
      | cons b bs => simp at this
  | err e => rw [hw] at this; simp at this
  | panic s => rw [hw] at this; simp at this
  | fuel => rw [hw] at this; simp at this

/-- the standard (non-UMV-plus) motion vector data syntax -/
theorem decodeMotionVector_encode (hdr : PicHdr) (running : Nat)
    (hstd : (Opt.has running Opt.UNRESTRICTED_MOTION_VECTORS && hdr.hasPlusptype) = false)
    (m : Mvd) (hm : MvdVal m) (rest : Bits) (pos : Nat) :
    decodeMotionVector hdr running ⟨encodeMvd m ++ rest, pos⟩ = .ok (m, ⟨rest, pos + (encodeMvd m).length⟩) := by
  unfold decodeMotionVector encodeMvd
  simp only [hstd, Bool.false_eq_true, ↓reduceIte, List.append_assoc, bind_apply]
  obtain ⟨l1, w1, e1⟩ := mvd_walk m.1 hm.1
  obtain ⟨l2, w2, e2⟩ := mvd_walk m.2 hm.2
  rw [readVlc_of_walk _ _ _ _ pos w1]
  simp only [okOr_some]
  rw [readVlc_of_walk _ _ _ _ _ w2]
  simp only [okOr_some, pure_apply, e1, e2, List.length_append, Nat.add_assoc]


/-- what the macroblock layer needs to know about the picture it is in -/
structure HdrCtx (hdr : PicHdr) (running : Nat) (intraPic : Bool) : Prop where
  ptype : if intraPic then hdr.picType = .iFrame else (hdr.picType = .pFrame ∨ hdr.picType = .disposableP)
  nomq : Opt.has running Opt.MODIFIED_QUANTIZATION = false
  stdmv : (Opt.has running Opt.UNRESTRICTED_MOTION_VECTORS && hdr.hasPlusptype) = false

/-- the header part of a coded macroblock: [COD] MCBPC CBPY [DQUANT] [MVD] [MVD2-4] -/
def encodeMbHeader (intraPic : Bool) (t : MbType) (f : Bool × Bool × Bool × Bool) (ccb ccr : Bool) (dq : Int) (mvd : Mvd)
    (mvd234 : Mvd × Mvd × Mvd) : Bits :=
  (if intraPic then [] else [false]) ++ ((mcbpcCode intraPic t ccb ccr).getD [] ++ (cbpyCode t.isIntra f ++
    ((if t.hasQuantizer then dquantCode dq else []) ++ ((if t.isInter then encodeMvd mvd else []) ++
    (if t.hasFourVec then encodeMvd mvd234.1 ++ (encodeMvd mvd234.2.1 ++ encodeMvd mvd234.2.2) else [])))))

open H263V.Lemmas.Total in
theorem mbFirst_intra (hdr : PicHdr) (h : hdr.picType = .iFrame) (c : Cur) : mbFirst hdr c = .ok (0, c) := by
  unfold mbFirst; rw [if_pos h]; rfl

open H263V.Lemmas.Total in
theorem mbFirst_inter (hdr : PicHdr) (h : hdr.picType ≠ .iFrame) (b : Bool) (rest : Bits) (pos : Nat) :
    mbFirst hdr ⟨[b] ++ rest, pos⟩ = .ok ((if b then 1 else 0), ⟨rest, pos + 1⟩) := by
  unfold mbFirst; rw [if_neg h]
  have := readBits_natBits 8 1 (if b then 1 else 0) (by omega) (by split <;> omega) rest pos
  have hb : natBits 1 (if b then 1 else 0) = [b] := by cases b <;> simp [natBits]
  rw [hb] at this
  exact this

open H263V.Lemmas.Total in
theorem mbMcbpc_eq (hdr : PicHdr) (running : Nat) (intraPic : Bool) (ctx : HdrCtx hdr running intraPic) :
    mbMcbpc hdr = readVlc (if intraPic then Gen.MCBPC_I else Gen.MCBPC_P) := by
  unfold mbMcbpc
  have := ctx.ptype
  cases intraPic with
  | true => simp only [↓reduceIte] at this ⊢; rw [this]
  | false =>
    simp only [Bool.false_eq_true, ↓reduceIte] at this ⊢
    rcases this with h | h <;> rw [h]

/-- a not-coded macroblock (COD = 1) of a P picture -/
theorem decodeMacroblock_notCoded (hdr : PicHdr) (running : Nat) (ctx : HdrCtx hdr running false) (rest : Bits) (pos : Nat) :
    decodeMacroblock hdr running ⟨[true] ++ rest, pos⟩ = .ok (.uncoded, ⟨rest, pos + 1⟩) := by
  rw [Lemmas.Total.decodeMacroblock_eq]
  have hp : hdr.picType ≠ .iFrame := by
    have := ctx.ptype
    simp only [Bool.false_eq_true, ↓reduceIte] at this
    rcases this with h | h <;> rw [h] <;> simp
  simp only [bind_apply]
  rw [mbFirst_inter hdr hp true rest pos]
  simp

/-- one MCBPC stuffing codeword (with its COD bit in P pictures) -/
theorem decodeMacroblock_stuffing (hdr : PicHdr) (running : Nat) (intraPic : Bool) (ctx : HdrCtx hdr running intraPic) (rest : Bits) (pos : Nat) :
    decodeMacroblock hdr running ⟨(if intraPic then [] else [false]) ++ (mcbpcStuffing ++ rest), pos⟩ =
      .ok (.stuffing, ⟨rest, pos + ((if intraPic then [] else [false]) ++ mcbpcStuffing).length⟩) := by
  rw [Lemmas.Total.decodeMacroblock_eq]
  simp only [bind_apply]
  rw [mbMcbpc_eq hdr running intraPic ctx]
  have hp := ctx.ptype
  cases intraPic with
  | true =>
    simp only [↓reduceIte] at hp ⊢
    rw [List.nil_append, mbFirst_intra hdr hp]
    simp only [bne_self_eq_false, Bool.false_eq_true, ↓reduceIte, bind_apply]
    rw [readVlc_of_walk _ mcbpcStuffing rest _ pos mcbpcI_agrees.2]
    simp
  | false =>
    simp only [Bool.false_eq_true, ↓reduceIte] at hp ⊢
    have hne : hdr.picType ≠ .iFrame := by rcases hp with h | h <;> rw [h] <;> simp
    rw [mbFirst_inter hdr hne false _ pos]
    simp only [Bool.false_eq_true, ↓reduceIte, bne_self_eq_false, bind_apply]
    rw [readVlc_of_walk _ mcbpcStuffing rest _ _ mcbpcP_agrees.2]
    simp only [List.length_append, List.length_cons, List.length_nil]
    congr 2


theorem not_anyPb (hdr : PicHdr) (running : Nat) (ip : Bool) (ctx : HdrCtx hdr running ip) :
    hdr.picType.isAnyPb = false ∧ hdr.picType ≠ .pbFrame := by
  have := ctx.ptype
  cases ip with
  | true => simp only [↓reduceIte] at this; rw [this]; exact ⟨rfl, by simp⟩
  | false =>
    simp only [Bool.false_eq_true, ↓reduceIte] at this
    rcases this with h | h <;> rw [h] <;> exact ⟨rfl, by simp⟩

open H263V.Lemmas.Total in
/-- the rest of a coded macroblock's header after MCBPC: CBPY [DQUANT] [MVD] [MVD2-4] -/
theorem mbTail_encode (hdr : PicHdr) (running : Nat) (ip : Bool) (ctx : HdrCtx hdr running ip) (t : MbType)
    (f : Bool × Bool × Bool × Bool) (ccb ccr : Bool) (dq : Int) (mvd : Mvd) (mvd234 : Mvd × Mvd × Mvd)
    (hdq : t.hasQuantizer = true → DqVal dq) (hmv : t.isInter = true → MvdVal mvd)
    (h4 : t.hasFourVec = true → MvdVal mvd234.1 ∧ MvdVal mvd234.2.1 ∧ MvdVal mvd234.2.2) (rest : Bits) (pos : Nat) :
    mbTail hdr running t ccb ccr ⟨cbpyCode t.isIntra f ++
        ((if t.hasQuantizer then dquantCode dq else []) ++ ((if t.isInter then encodeMvd mvd else []) ++
        ((if t.hasFourVec then encodeMvd mvd234.1 ++ (encodeMvd mvd234.2.1 ++ encodeMvd mvd234.2.2) else []) ++ rest))), pos⟩ =
      .ok (.coded t { luma := f, cb := ccb, cr := ccr } (if t.hasQuantizer then some dq else none)
            (if t.isInter then some mvd else none) (if t.hasFourVec then some mvd234 else none),
           ⟨rest, pos + (cbpyCode t.isIntra f ++
        ((if t.hasQuantizer then dquantCode dq else []) ++ ((if t.isInter then encodeMvd mvd else []) ++
        (if t.hasFourVec then encodeMvd mvd234.1 ++ (encodeMvd mvd234.2.1 ++ encodeMvd mvd234.2.2) else [])))).length⟩) := by
  obtain ⟨hpb, hnpb⟩ := not_anyPb hdr running ip ctx
  unfold mbTail
  simp only [bind_apply, if_neg hnpb, pure_apply]
  rw [readVlc_cbpy]
  simp only [okOr_some, Bool.false_eq_true, ↓reduceIte, pure_apply, ctx.nomq, hpb, Bool.or_false]
  have hluma : (if t.isIntra = true then (if t.isIntra = true then f else (!f.1, !f.2.1, !f.2.2.1, !f.2.2.2))
      else (!(if t.isIntra = true then f else (!f.1, !f.2.1, !f.2.2.1, !f.2.2.2)).1,
            !(if t.isIntra = true then f else (!f.1, !f.2.1, !f.2.2.1, !f.2.2.2)).2.1,
            !(if t.isIntra = true then f else (!f.1, !f.2.1, !f.2.2.1, !f.2.2.2)).2.2.1,
            !(if t.isIntra = true then f else (!f.1, !f.2.1, !f.2.2.1, !f.2.2.2)).2.2.2)) = f := by
    cases t.isIntra <;> simp
  have mvE := fun m hm r p => decodeMotionVector_encode hdr running ctx.stdmv m hm r p
  cases hq : t.hasQuantizer <;> cases hi : t.isInter <;> cases hf : t.hasFourVec <;>
    simp only [hq, hi, hf, Bool.false_eq_true, ↓reduceIte, List.nil_append, List.append_assoc, pure_apply, bind_apply] at hdq hmv h4 ⊢
  all_goals (
    try rw [decodeDquant_encode dq (hdq trivial)]
    try simp only [pure_apply]
    try rw [mvE mvd (hmv trivial)]
    try simp only [pure_apply]
    try rw [mvE mvd234.1 (h4 trivial).1]
    try simp only [pure_apply]
    try rw [mvE mvd234.2.1 (h4 trivial).2.1]
    try simp only [pure_apply]
    try rw [mvE mvd234.2.2 (h4 trivial).2.2]
    try simp only [pure_apply]
    simp only [hluma, List.length_append, List.length_nil, Nat.add_assoc, Nat.add_zero])


/-- the value `decode_macroblock` returns for a coded macroblock description -/
def toMacroblock (t : MbType) (f : Bool × Bool × Bool × Bool) (ccb ccr : Bool) (dq : Int) (mvd : Mvd) (mvd234 : Mvd × Mvd × Mvd) : Macroblock :=
  .coded t { luma := f, cb := ccb, cr := ccr } (if t.hasQuantizer then some dq else none)
    (if t.isInter then some mvd else none) (if t.hasFourVec then some mvd234 else none)

/-- **Macroblock header round trip**: [COD] MCBPC CBPY [DQUANT] [MVD] [MVD2-4] as written by the specification encoder is parsed
back to exactly the type, coded-block pattern, DQUANT and vector differentials, consuming exactly those bits. -/
theorem decodeMacroblock_coded (hdr : PicHdr) (running : Nat) (ip : Bool) (ctx : HdrCtx hdr running ip) (t : MbType)
    (f : Bool × Bool × Bool × Bool) (ccb ccr : Bool) (dq : Int) (mvd : Mvd) (mvd234 : Mvd × Mvd × Mvd)
    (hmc : (mcbpcCode ip t ccb ccr).isSome = true)
    (hdq : t.hasQuantizer = true → DqVal dq) (hmv : t.isInter = true → MvdVal mvd)
    (h4 : t.hasFourVec = true → MvdVal mvd234.1 ∧ MvdVal mvd234.2.1 ∧ MvdVal mvd234.2.2) (rest : Bits) (pos : Nat) :
    decodeMacroblock hdr running ⟨encodeMbHeader ip t f ccb ccr dq mvd mvd234 ++ rest, pos⟩ =
      .ok (toMacroblock t f ccb ccr dq mvd mvd234, ⟨rest, pos + (encodeMbHeader ip t f ccb ccr dq mvd mvd234).length⟩) := by
  rw [Lemmas.Total.decodeMacroblock_eq]
  unfold encodeMbHeader toMacroblock
  obtain ⟨code, hc⟩ := Option.isSome_iff_exists.mp hmc
  rw [hc]
  simp only [Option.getD_some, List.append_assoc, bind_apply]
  rw [mbMcbpc_eq hdr running ip ctx]
  have hw := mcbpc_walk ip t ccb ccr code hc
  have hp := ctx.ptype
  have tl := fun r p => mbTail_encode hdr running ip ctx t f ccb ccr dq mvd mvd234 hdq hmv h4 r p
  cases ip with
  | true =>
    simp only [↓reduceIte] at hp hw ⊢
    rw [List.nil_append, mbFirst_intra hdr hp]
    simp only [bne_self_eq_false, Bool.false_eq_true, ↓reduceIte, bind_apply]
    rw [readVlc_of_walk _ code _ _ pos hw]
    simp only
    rw [tl]
    simp only [List.length_append, List.length_nil, Nat.add_assoc, Nat.zero_add]
  | false =>
    simp only [Bool.false_eq_true, ↓reduceIte] at hp hw ⊢
    have hne : hdr.picType ≠ .iFrame := by rcases hp with h | h <;> rw [h] <;> simp
    rw [mbFirst_inter hdr hne false _ pos]
    simp only [Bool.false_eq_true, ↓reduceIte, bne_self_eq_false, bind_apply]
    rw [readVlc_of_walk _ code _ _ _ hw]
    simp only
    rw [tl]
    simp only [List.length_append, List.length_cons, List.length_nil, Nat.add_assoc, Nat.zero_add]

end H263V.Lemmas.RoundTrip
