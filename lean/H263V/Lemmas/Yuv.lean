import H263V.Model.Yuv
import H263V.Spec.Bt601
namespace H263V.Lemmas.Yuv
open H263V H263V.Yuv

theorem consts :
    Gen.YUV_Y_OFF = 16 ∧ Gen.YUV_CB_OFF = 128 ∧ Gen.YUV_CR_OFF = 128 ∧
    Gen.YUV_C_GRAY = Spec.Bt601.cY ∧ Gen.YUV_C_CR2R = Spec.Bt601.cRV ∧ Gen.YUV_C_CR2G = Spec.Bt601.cGV ∧
    Gen.YUV_C_CB2G = Spec.Bt601.cGU ∧ Gen.YUV_C_CB2B = Spec.Bt601.cBU ∧
    Gen.YUV_HALF = 32768 ∧ Gen.YUV_SHIFT_R = 16 ∧ Gen.YUV_SHIFT_G = 16 ∧ Gen.YUV_SHIFT_B = 16 ∧
    Gen.YUV_MAXV = 255 ∧ Gen.YUV_ALPHA = 255 ∧ Gen.YUV_PACK_SHIFTS = [0, 8, 16, 24] ∧
    Gen.YUV_Y_LANES = [0, 1, 2, 3] ∧ Gen.YUV_CB_LANES = [0, 0, 1, 1] ∧ Gen.YUV_CR_LANES = [0, 0, 1, 1] := by
  decide

theorem specvals : Spec.Bt601.cY = 76309 ∧ Spec.Bt601.cRV = 104597 ∧ Spec.Bt601.cGV = -53279 ∧
    Spec.Bt601.cGU = -25675 ∧ Spec.Bt601.cBU = 132201 := by decide

theorem lane_eq_spec (y cb cr : Int) (hy : 0 ≤ y ∧ y ≤ 255) (hb : 0 ≤ cb ∧ cb ≤ 255) (hr : 0 ≤ cr ∧ cr ≤ 255) :
    lane y cb cr = Spec.Bt601.pixel y cb cr := by
  obtain ⟨c1, c2, c3, c4, c5, c6, c7, c8, c9, c10, c11, c12, c13, c14, -, -, -, -⟩ := consts
  obtain ⟨s1, s2, s3, s4, s5⟩ := specvals
  have e16 : ((2 : Int) ^ 16) = 65536 := by decide
  obtain ⟨hy0, hy1⟩ := hy; obtain ⟨hb0, hb1⟩ := hb; obtain ⟨hr0, hr1⟩ := hr
  unfold lane Spec.Bt601.pixel Spec.Bt601.rawR Spec.Bt601.rawG Spec.Bt601.rawB
  rw [c1, c2, c3, c4, c5, c6, c7, c8, c9, c10, c11, c12, c13, c14, s1, s2, s3, s4, s5]
  simp only [sar, e16]
  have w1 : wrap32 (y - 16) = y - 16 := by unfold wrap32; omega
  have w2 : wrap32 (cb - 128) = cb - 128 := by unfold wrap32; omega
  have w3 : wrap32 (cr - 128) = cr - 128 := by unfold wrap32; omega
  rw [w1, w2, w3]
  have w4 : wrap32 ((y - 16) * 76309) = 76309 * (y - 16) := by unfold wrap32; omega
  have w5 : wrap32 ((cr - 128) * 104597) = 104597 * (cr - 128) := by unfold wrap32; omega
  have w6 : wrap32 ((cr - 128) * -53279) = -53279 * (cr - 128) := by unfold wrap32; omega
  have w7 : wrap32 ((cb - 128) * -25675) = -25675 * (cb - 128) := by unfold wrap32; omega
  have w8 : wrap32 ((cb - 128) * 132201) = 132201 * (cb - 128) := by unfold wrap32; omega
  rw [w4, w5, w6, w7, w8]
  have w9 : wrap32 (76309 * (y - 16) + 104597 * (cr - 128)) = 76309 * (y - 16) + 104597 * (cr - 128) := by
    unfold wrap32; omega
  have w10 : wrap32 (76309 * (y - 16) + 104597 * (cr - 128) + 32768) = 76309 * (y - 16) + 104597 * (cr - 128) + 32768 := by
    unfold wrap32; omega
  have w11 : wrap32 (76309 * (y - 16) + -53279 * (cr - 128)) = 76309 * (y - 16) + -53279 * (cr - 128) := by
    unfold wrap32; omega
  have w12 : wrap32 (76309 * (y - 16) + -53279 * (cr - 128) + -25675 * (cb - 128)) =
      76309 * (y - 16) + -53279 * (cr - 128) + -25675 * (cb - 128) := by unfold wrap32; omega
  have w13 : wrap32 (76309 * (y - 16) + -53279 * (cr - 128) + -25675 * (cb - 128) + 32768) =
      76309 * (y - 16) + -53279 * (cr - 128) + -25675 * (cb - 128) + 32768 := by unfold wrap32; omega
  have w14 : wrap32 (76309 * (y - 16) + 132201 * (cb - 128)) = 76309 * (y - 16) + 132201 * (cb - 128) := by
    unfold wrap32; omega
  have w15 : wrap32 (76309 * (y - 16) + 132201 * (cb - 128) + 32768) = 76309 * (y - 16) + 132201 * (cb - 128) + 32768 := by
    unfold wrap32; omega
  rw [w9, w10, w11, w12, w13, w14, w15]
  simp only [imin, imax, Spec.Bt601.clamp255]
  refine Prod.ext ?_ (Prod.ext ?_ (Prod.ext ?_ rfl))
  all_goals (simp only; repeat' split) <;> omega

end H263V.Lemmas.Yuv

namespace H263V.Lemmas.Yuv
open H263V H263V.Yuv H263V.Spec.Bt601

theorem within_one (y cb cr : Int) (hy : 0 ≤ y ∧ y ≤ 255) (hb : 0 ≤ cb ∧ cb ≤ 255) (hr : 0 ≤ cr ∧ cr ≤ 255) :
    (rawR y cr * denRB - realRNum y cr).natAbs < denRB ∧
    (rawG y cb cr * denG - realGNum y cb cr).natAbs < denG ∧
    (rawB y cb * denRB - realBNum y cb).natAbs < denRB := by
  obtain ⟨s1, s2, s3, s4, s5⟩ := specvals
  obtain ⟨hy0, hy1⟩ := hy; obtain ⟨hb0, hb1⟩ := hb; obtain ⟨hr0, hr1⟩ := hr
  simp only [rawR, rawG, rawB, denRB, denG, realRNum, realGNum, realBNum, s1, s2, s3, s4, s5]
  refine ⟨?_, ?_, ?_⟩ <;> omega

theorem clamp_lipschitz (raw num den : Int) (hd : 0 < den) (h : (raw * den - num).natAbs < den) :
    (clamp255 raw * den - (if num < 0 then 0 else if 255 * den < num then 255 * den else num)).natAbs < den := by
  by_cases h0 : raw < 0
  · have h1 : raw * den ≤ -1 * den := Int.mul_le_mul_of_nonneg_right (by omega) (by omega)
    simp only [clamp255, h0, ↓reduceIte]
    repeat' split
    all_goals omega
  · by_cases h2 : 255 < raw
    · have h1 : 256 * den ≤ raw * den := Int.mul_le_mul_of_nonneg_right (by omega) (by omega)
      simp only [clamp255, h0, h2, ↓reduceIte]
      repeat' split
      all_goals omega
    · have h1 : 0 * den ≤ raw * den := Int.mul_le_mul_of_nonneg_right (by omega) (by omega)
      have h3 : raw * den ≤ 255 * den := Int.mul_le_mul_of_nonneg_right (by omega) (by omega)
      simp only [clamp255, h0, h2, ↓reduceIte]
      repeat' split
      all_goals omega

theorem mono_R_y (y y' cr : Int) (h : y ≤ y') : clamp255 (rawR y cr) ≤ clamp255 (rawR y' cr) := by
  obtain ⟨s1, s2, s3, s4, s5⟩ := specvals
  simp only [rawR, clamp255, s1, s2]; repeat' split
  all_goals omega
theorem mono_R_cr (y cr cr' : Int) (h : cr ≤ cr') : clamp255 (rawR y cr) ≤ clamp255 (rawR y cr') := by
  obtain ⟨s1, s2, s3, s4, s5⟩ := specvals
  simp only [rawR, clamp255, s1, s2]; repeat' split
  all_goals omega
theorem mono_B_y (y y' cb : Int) (h : y ≤ y') : clamp255 (rawB y cb) ≤ clamp255 (rawB y' cb) := by
  obtain ⟨s1, s2, s3, s4, s5⟩ := specvals
  simp only [rawB, clamp255, s1, s5]; repeat' split
  all_goals omega
theorem mono_B_cb (y cb cb' : Int) (h : cb ≤ cb') : clamp255 (rawB y cb) ≤ clamp255 (rawB y cb') := by
  obtain ⟨s1, s2, s3, s4, s5⟩ := specvals
  simp only [rawB, clamp255, s1, s5]; repeat' split
  all_goals omega
theorem mono_G_y (y y' cb cr : Int) (h : y ≤ y') : clamp255 (rawG y cb cr) ≤ clamp255 (rawG y' cb cr) := by
  obtain ⟨s1, s2, s3, s4, s5⟩ := specvals
  simp only [rawG, clamp255, s1, s3, s4]; repeat' split
  all_goals omega
theorem antitone_G_cb (y cb cb' cr : Int) (h : cb ≤ cb') : clamp255 (rawG y cb' cr) ≤ clamp255 (rawG y cb cr) := by
  obtain ⟨s1, s2, s3, s4, s5⟩ := specvals
  simp only [rawG, clamp255, s1, s3, s4]; repeat' split
  all_goals omega
theorem antitone_G_cr (y cb cr cr' : Int) (h : cr ≤ cr') : clamp255 (rawG y cb cr') ≤ clamp255 (rawG y cb cr) := by
  obtain ⟨s1, s2, s3, s4, s5⟩ := specvals
  simp only [rawG, clamp255, s1, s3, s4]; repeat' split
  all_goals omega

/-- channel `k` of a pixel: 0 = R, 1 = G, 2 = B, 3 = A -/
def chan (p : Int × Int × Int × Int) (k : Nat) : Int :=
  match k with
  | 0 => p.1
  | 1 => p.2.1
  | 2 => p.2.2.1
  | _ => p.2.2.2

theorem pixel_range (y cb cr : Int) :
    (0 ≤ (pixel y cb cr).1 ∧ (pixel y cb cr).1 ≤ 255) ∧ (0 ≤ (pixel y cb cr).2.1 ∧ (pixel y cb cr).2.1 ≤ 255) ∧
    (0 ≤ (pixel y cb cr).2.2.1 ∧ (pixel y cb cr).2.2.1 ≤ 255) ∧ (pixel y cb cr).2.2.2 = 255 := by
  simp only [pixel, clamp255]
  refine ⟨?_, ?_, ?_, trivial⟩ <;> (repeat' split) <;> omega

theorem packByte_spec (y cb cr : Int) (k : Nat) (hk : k < 4) :
    packByte (pixel y cb cr) k = some (chan (pixel y cb cr) k).toNat := by
  obtain ⟨⟨a1, a2⟩, ⟨b1, b2⟩, ⟨c1, c2⟩, d⟩ := pixel_range y cb cr
  have hs : Gen.YUV_PACK_SHIFTS = [0, 8, 16, 24] := consts.2.2.2.2.2.2.2.2.2.2.2.2.2.2.1
  unfold packByte
  simp only [hs, true_and, a1, a2, b1, b2, c1, c2, d, decide_true, Bool.and_self, and_self, ↓reduceIte]
  have : (255 : Int) ≤ 255 := by omega
  simp only [show ((0 : Int) ≤ 255) from by omega, this, decide_true, Bool.and_self, and_self, ↓reduceIte]
  match k, hk with
  | 0, _ => rfl
  | 1, _ => rfl
  | 2, _ => rfl
  | 3, _ => simp [chan, d]

theorem getD_lt_of_all (l : List Nat) (h : ∀ v ∈ l, v < 256) (i : Nat) : l.getD i 0 < 256 := by
  by_cases hi : i < l.length
  · have : l.getD i 0 = l[i] := by simp [List.getD, hi]
    rw [this]; exact h _ (List.getElem_mem hi)
  · have : l.getD i 0 = 0 := by simp [List.getD, hi]
    rw [this]; omega

theorem kernelByte_spec (y4 cb2 cr2 : List Nat) (hy : y4.length = 4) (hb : cb2.length = 2) (hr : cr2.length = 2)
    (hy8 : ∀ v ∈ y4, v < 256) (hb8 : ∀ v ∈ cb2, v < 256) (hr8 : ∀ v ∈ cr2, v < 256)
    (i k : Nat) (hi : i < 4) (hk : k < 4) :
    kernelByte y4 cb2 cr2 (4 * i + k) =
      some (chan (pixel (y4.getD i 0) (cb2.getD (i / 2) 0) (cr2.getD (i / 2) 0)) k).toNat := by
  obtain ⟨-, -, -, -, -, -, -, -, -, -, -, -, -, -, -, l1, l2, l3⟩ := consts
  unfold kernelByte
  have e1 : (4 * i + k) / 4 = i := by omega
  have e2 : (4 * i + k) % 4 = k := by omega
  simp only [e1, e2, l1, l2, l3]
  have g1 : [0, 1, 2, 3].getD i 0 = i := by
    match i, hi with
    | 0, _ => rfl
    | 1, _ => rfl
    | 2, _ => rfl
    | 3, _ => rfl
  have g2 : [0, 0, 1, 1].getD i 0 = i / 2 := by
    match i, hi with
    | 0, _ => rfl
    | 1, _ => rfl
    | 2, _ => rfl
    | 3, _ => rfl
  rw [g1, g2]
  have hyv := getD_lt_of_all y4 hy8 i
  have hbv := getD_lt_of_all cb2 hb8 (i / 2)
  have hrv := getD_lt_of_all cr2 hr8 (i / 2)
  rw [lane_eq_spec _ _ _ (by omega) (by omega) (by omega)]
  exact packByte_spec _ _ _ k hk

end H263V.Lemmas.Yuv
