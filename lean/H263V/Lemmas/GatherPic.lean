/-
`gather` pointwise: after motion compensation every sample of a predicted (INTER) macroblock is the half-sample interpolation of the
edge-extended reference at the sample's position displaced by the vector of the 8x8 block that contains it; every other sample
keeps its value.  Luma (four vectors per macroblock) and both chroma planes (the derived vector).
-/
import H263V.Lemmas.IdctSpec
namespace H263V.Lemmas.GatherPic
open H263V H263V.Gather H263V.Mv H263V.Mb H263V.Lemmas.GatherSpec H263V.Lemmas.IdctSpec

theorem foldlM_proj {α β γ : Type} (proj : α → γ) (f : α → β → Out α) (g : γ → β → Out γ) (l : List β)
    (h : ∀ a b a', b ∈ l → f a b = .ok a' → g (proj a) b = .ok (proj a')) :
    ∀ a a', l.foldlM f a = .ok a' → l.foldlM g (proj a) = .ok (proj a') := by
  induction l with
  | nil => intro a a' e; simp only [List.foldlM_nil] at e ⊢; cases e; rfl
  | cons b bs ih =>
    intro a a' e
    rw [List.foldlM_cons] at e ⊢
    obtain ⟨a1, e1, e2⟩ := out_bind_ok _ _ _ e
    rw [h a b a1 (by simp) e1]
    exact ih (fun a b a' hb => h a b a' (by simp [hb])) a1 a' e2

theorem foldlM_keeps {α β γ : Type} (proj : α → γ) (f : α → β → Out α) (l : List β)
    (h : ∀ a b a', b ∈ l → f a b = .ok a' → proj a' = proj a) : ∀ a a', l.foldlM f a = .ok a' → proj a' = proj a := by
  induction l with
  | nil => intro a a' e; simp only [List.foldlM_nil] at e; cases e; rfl
  | cons b bs ih =>
    intro a a' e
    rw [List.foldlM_cons] at e
    obtain ⟨a1, e1, e2⟩ := out_bind_ok _ _ _ e
    rw [ih (fun a b a' hb => h a b a' (by simp [hb])) a1 a' e2, h a b a1 (by simp) e1]

/-- the vector of the 8x8 luma block at (sx, sy) ∈ {0,1}² inside a macroblock -/
def mvSel (mv : Mv4) (sx sy : Nat) : Mv :=
  if sy = 0 then (if sx = 0 then mv.1 else mv.2.1) else (if sx = 0 then mv.2.2.1 else mv.2.2.2)

/-- the chroma vector of a macroblock: the four luma vectors summed, each component rounded to the nearest half sample by the
sixteenth-position table (C12) -/
def mvChroma (mv : Mv4) : Mv :=
  let s := mvAdd (mvAdd (mvAdd mv.1 mv.2.1) mv.2.2.1) mv.2.2.2
  (averageSum s.1, averageSum s.2)

/-- the prediction of sample `k` of a plane with `spr` samples per row for vector `mv` -/
def predSample (px : Array Nat) (spr : Nat) (mv : Mv) (k : Nat) : Nat :=
  predAt px spr (px.size / spr) ((k % spr : Nat) + (lerpParams mv.1).1) ((k / spr : Nat) + (lerpParams mv.2).1)
    (lerpParams mv.1).2 (lerpParams mv.2).2

/-- the luma part of one step of `gather` -/
def lumaStep (types : Array MbType) (r : DecPic) (mvs : Array Mv4) (m w : Nat) (i : Nat) (l : Array Nat) : Out (Array Nat) :=
  if (types.getD i .inter).isInter then do
    let mv := mvs.getD i zeroMv4
    let l ← gatherBlock r.luma w ((i % m) * 16, (i / m) * 16) mv.1 l
    let l ← gatherBlock r.luma w ((i % m) * 16 + 8, (i / m) * 16) mv.2.1 l
    let l ← gatherBlock r.luma w ((i % m) * 16, (i / m) * 16 + 8) mv.2.2.1 l
    gatherBlock r.luma w ((i % m) * 16 + 8, (i / m) * 16 + 8) mv.2.2.2 l
  else .ok l

/-- one macroblock's luma: its 16x16 area (cropped to the plane) is predicted, block by block, with the block's own vector -/
theorem lumaStep_spec (types : Array MbType) (r : DecPic) (mvs : Array Mv4) (m w : Nat) (hw : 1 ≤ w) (i : Nat) (l : Array Nat)
    (hl : l.size = r.luma.size) :
    ∃ l', lumaStep types r mvs m w i l = .ok l' ∧ l'.size = r.luma.size ∧ ∀ k, l'.getD k 0 =
      if (types.getD i .inter).isInter = true ∧ k / w < r.luma.size / w ∧ k / w / 16 = i / m ∧ k % w / 16 = i % m then
        predSample r.luma w (mvSel (mvs.getD i zeroMv4) (k % w % 16 / 8) (k / w % 16 / 8)) k
      else l.getD k 0 := by
  unfold lumaStep
  cases hin : (types.getD i .inter).isInter with
  | false => exact ⟨l, rfl, hl, fun k => by simp⟩
  | true =>
    simp only [↓reduceIte]
    obtain ⟨l1, e1, s1, g1⟩ := gatherBlock_spec r.luma w hw ((i % m) * 16, (i / m) * 16) (mvs.getD i zeroMv4).1 l hl
    obtain ⟨l2, e2, s2, g2⟩ := gatherBlock_spec r.luma w hw ((i % m) * 16 + 8, (i / m) * 16) (mvs.getD i zeroMv4).2.1 l1 s1
    obtain ⟨l3, e3, s3, g3⟩ := gatherBlock_spec r.luma w hw ((i % m) * 16, (i / m) * 16 + 8) (mvs.getD i zeroMv4).2.2.1 l2 s2
    obtain ⟨l4, e4, s4, g4⟩ := gatherBlock_spec r.luma w hw ((i % m) * 16 + 8, (i / m) * 16 + 8) (mvs.getD i zeroMv4).2.2.2 l3 s3
    refine ⟨l4, ?_, s4, fun k => ?_⟩
    · show (gatherBlock _ _ _ _ l >>= fun l => gatherBlock _ _ _ _ l >>= fun l => gatherBlock _ _ _ _ l >>= fun l => gatherBlock _ _ _ _ l) = _
      rw [e1]; simp only [Out.bind_ok]
      rw [e2]; simp only [Out.bind_ok]
      rw [e3]; simp only [Out.bind_ok]
      exact e4
    · rw [g4 k, g3 k, g2 k, g1 k]
      have hm := Nat.mod_lt k (show 0 < w by omega)
      simp only [true_and]
      unfold predSample mvSel
      generalize hmv : mvs.getD i zeroMv4 = mv
      generalize hx : i % m = X
      generalize hy : i / m = Y
      generalize hrows : r.luma.size / w = rows
      generalize hkc : k % w = c at hm ⊢
      generalize hkr : k / w = ρ
      by_cases hR : ρ < rows ∧ ρ / 16 = Y ∧ c / 16 = X
      · rw [if_pos hR]
        obtain ⟨h1, h2, h3⟩ := hR
        by_cases hsy : ρ % 16 / 8 = 0 <;> by_cases hsx : c % 16 / 8 = 0
        · rw [if_neg (by omega), if_neg (by omega), if_neg (by omega), if_pos (by omega), if_pos hsy, if_pos hsx]
        · rw [if_neg (by omega), if_neg (by omega), if_pos (by omega), if_pos hsy, if_neg hsx]
        · rw [if_neg (by omega), if_pos (by omega), if_neg hsy, if_pos hsx]
        · rw [if_pos (by omega), if_neg hsy, if_neg hsx]
      · rw [if_neg hR, if_neg (by omega), if_neg (by omega), if_neg (by omega), if_neg (by omega)]

/-- the chroma part (one plane) of one step of `gather` -/
def chromaStep (types : Array MbType) (rp : Array Nat) (cspr : Nat) (mvs : Array Mv4) (m : Nat) (i : Nat) (c : Array Nat) :
    Out (Array Nat) :=
  if (types.getD i .inter).isInter then
    gatherBlock rp cspr ((i % m) * 8, (i / m) * 8) (mvChroma (mvs.getD i zeroMv4)) c
  else .ok c

theorem chromaStep_spec (types : Array MbType) (rp : Array Nat) (cspr : Nat) (mvs : Array Mv4) (m : Nat) (hc : 1 ≤ cspr) (i : Nat)
    (c : Array Nat) (hl : c.size = rp.size) :
    ∃ c', chromaStep types rp cspr mvs m i c = .ok c' ∧ c'.size = rp.size ∧ ∀ k, c'.getD k 0 =
      if (types.getD i .inter).isInter = true ∧ k / cspr < rp.size / cspr ∧ k / cspr / 8 = i / m ∧ k % cspr / 8 = i % m then
        predSample rp cspr (mvChroma (mvs.getD i zeroMv4)) k
      else c.getD k 0 := by
  unfold chromaStep
  cases hin : (types.getD i .inter).isInter with
  | false => exact ⟨c, rfl, hl, fun k => by simp⟩
  | true =>
    simp only [↓reduceIte]
    obtain ⟨c1, e1, s1, g1⟩ := gatherBlock_spec rp cspr hc ((i % m) * 8, (i / m) * 8) (mvChroma (mvs.getD i zeroMv4)) c hl
    refine ⟨c1, e1, s1, fun k => ?_⟩
    rw [g1 k]
    have hm := Nat.mod_lt k (show 0 < cspr by omega)
    simp only [true_and]
    unfold predSample
    by_cases hR : k / cspr < rp.size / cspr ∧ k / cspr / 8 = i / m ∧ k % cspr / 8 = i % m
    · rw [if_pos hR, if_pos (by omega)]
    · rw [if_neg hR, if_neg (by omega)]

theorem mb_unique (m a b : Nat) (h1 : a / m = b / m) (h2 : a % m = b % m) : a = b := by
  rw [← Nat.div_add_mod a m, ← Nat.div_add_mod b m, h1, h2]

/-- a plane after a fold of per-macroblock steps with the macroblock-grid regions (`g` = 16 for luma, 8 for chroma) -/
theorem plane_fold (size spr m g n : Nat) (hm : m ≠ 0) (inter : Nat → Bool) (V : Nat → Nat → Nat) (step : Nat → Array Nat → Out (Array Nat))
    (hstep : ∀ i (t : Array Nat), t.size = size → ∃ t', step i t = .ok t' ∧ t'.size = size ∧ ∀ k, t'.getD k 0 =
      if inter i = true ∧ k / spr < size / spr ∧ k / spr / g = i / m ∧ k % spr / g = i % m then V i k else t.getD k 0)
    (t t' : Array Nat) (ht : t.size = size) (h : (List.range n).foldlM (fun t i => step i t) t = .ok t') :
    t'.size = size ∧ ∀ k, t'.getD k 0 =
      if k / spr < size / spr ∧ k % spr / g < m ∧ k % spr / g + k / spr / g * m < n ∧ inter (k % spr / g + k / spr / g * m) = true then
        V (k % spr / g + k / spr / g * m) k
      else t.getD k 0 := by
  have hT := tiles size step
    (fun i k => inter i = true ∧ k / spr < size / spr ∧ k / spr / g = i / m ∧ k % spr / g = i % m)
    (fun i k _ => V i k) (List.range n)
    (by
      intro i _ a a' ha e
      obtain ⟨a1, e1, s1, g1⟩ := hstep i a ha
      rw [e1] at e
      cases e
      refine ⟨s1, fun k hk => ?_, fun k hk => ?_⟩
      · rw [g1 k, if_neg hk]
      · rw [g1 k, if_pos hk])
    (range_disjoint n _ (by
      intro a b k hab ⟨h1, h2⟩
      have := mb_unique m a b (by omega) (by omega)
      omega))
    t t' ht h
  obtain ⟨s, u, v⟩ := hT
  refine ⟨s, fun k => ?_⟩
  have hmpos : 0 < m := Nat.pos_of_ne_zero hm
  by_cases hin : k / spr < size / spr ∧ k % spr / g < m ∧ k % spr / g + k / spr / g * m < n ∧ inter (k % spr / g + k / spr / g * m) = true
  · rw [if_pos hin]
    obtain ⟨d1, d2⟩ := idx_div_mod m (k % spr / g) (k / spr / g) hin.2.1
    exact v k _ (by rw [List.mem_range]; exact hin.2.2.1) ⟨hin.2.2.2, hin.1, d1.symm, d2.symm⟩
  · rw [if_neg hin]
    apply u
    intro i hi hR
    rw [List.mem_range] at hi
    apply hin
    have hi' : k % spr / g + k / spr / g * m = i := by
      rw [hR.2.2.1, hR.2.2.2]
      have := Nat.div_add_mod i m
      rw [Nat.mul_comm] at this
      omega
    refine ⟨hR.2.1, ?_, by omega, by rw [hi']; exact hR.1⟩
    rw [hR.2.2.2]
    exact Nat.mod_lt _ hmpos

/-- **luma after `gather`** -/
def lumaAt (types : Array MbType) (r : DecPic) (mvs : Array Mv4) (m w : Nat) (orig : Array Nat) (k : Nat) : Nat :=
  if k / w < r.luma.size / w ∧ k % w / 16 < m ∧ k % w / 16 + k / w / 16 * m < min types.size mvs.size ∧
      (types.getD (k % w / 16 + k / w / 16 * m) .inter).isInter = true then
    predSample r.luma w (mvSel (mvs.getD (k % w / 16 + k / w / 16 * m) zeroMv4) (k % w % 16 / 8) (k / w % 16 / 8)) k
  else orig.getD k 0

/-- **chroma after `gather`** (`rp` is the reference's plane) -/
def chromaAt (types : Array MbType) (rp : Array Nat) (cspr : Nat) (mvs : Array Mv4) (m : Nat) (orig : Array Nat) (k : Nat) : Nat :=
  if k / cspr < rp.size / cspr ∧ k % cspr / 8 < m ∧ k % cspr / 8 + k / cspr / 8 * m < min types.size mvs.size ∧
      (types.getD (k % cspr / 8 + k / cspr / 8 * m) .inter).isInter = true then
    predSample rp cspr (mvChroma (mvs.getD (k % cspr / 8 + k / cspr / 8 * m) zeroMv4)) k
  else orig.getD k 0

/-- **`gather` pointwise.**  With a reference picture of the same dimensions and planes of the reference's sizes, a successful
`gather` leaves every plane at its size and writes exactly the motion-compensated prediction into the INTER macroblocks. -/
theorem gather_pointwise (types : Array MbType) (r : DecPic) (mvs : Array Mv4) (m : Nat) (pic pic' : DecPic) (w hh : Nat)
    (hdims : r.fmt.dims = some (w, hh)) (hw : 1 ≤ w) (hc : 1 ≤ r.chromaSpr) (hm : m ≠ 0)
    (hl : pic.luma.size = r.luma.size) (hb : pic.cb.size = r.cb.size) (hr : pic.cr.size = r.cr.size)
    (h : gather types (some r) mvs m pic = .ok pic') :
    (pic'.luma.size = r.luma.size ∧ ∀ k, pic'.luma.getD k 0 = lumaAt types r mvs m w pic.luma k) ∧
    (pic'.cb.size = r.cb.size ∧ ∀ k, pic'.cb.getD k 0 = chromaAt types r.cb r.chromaSpr mvs m pic.cb k) ∧
    (pic'.cr.size = r.cr.size ∧ ∀ k, pic'.cr.getD k 0 = chromaAt types r.cr r.chromaSpr mvs m pic.cr k) ∧
    pic'.chromaSpr = pic.chromaSpr := by
  unfold gather at h
  -- what one step does to each plane
  have hstep : ∀ (a : DecPic) (i : Nat) (a' : DecPic),
      (if (types.getD i .inter).isInter then
        match (some r : Option DecPic) with
        | none => .err .uncodedIFrame
        | some r =>
          if r.fmt.dims != a.fmt.dims then .err .formatInvalid else
          match r.fmt.dims with
          | none => .panic "unwrap on None: luma_samples_per_row"
          | some (w, _) =>
            if m = 0 then .panic "remainder by zero" else do
            let mv := mvs.getD i zeroMv4
            let px := (i % m) * 16
            let py := (i / m) * 16
            let l ← gatherBlock r.luma w (px, py) mv.1 a.luma
            let l ← gatherBlock r.luma w (px + 8, py) mv.2.1 l
            let l ← gatherBlock r.luma w (px, py + 8) mv.2.2.1 l
            let l ← gatherBlock r.luma w (px + 8, py + 8) mv.2.2.2 l
            let mvc := mvAdd (mvAdd (mvAdd mv.1 mv.2.1) mv.2.2.1) mv.2.2.2
            let mvc : Mv := (averageSum mvc.1, averageSum mvc.2)
            let cx := (i % m) * 8
            let cy := (i / m) * 8
            let b ← gatherBlock r.cb r.chromaSpr (cx, cy) mvc a.cb
            let c ← gatherBlock r.cr r.chromaSpr (cx, cy) mvc a.cr
            pure { a with luma := l, cb := b, cr := c }
      else .ok a : Out DecPic) = .ok a' →
      lumaStep types r mvs m w i a.luma = .ok a'.luma ∧ chromaStep types r.cb r.chromaSpr mvs m i a.cb = .ok a'.cb ∧
        chromaStep types r.cr r.chromaSpr mvs m i a.cr = .ok a'.cr ∧ a'.chromaSpr = a.chromaSpr := by
    intro a i a' e
    unfold lumaStep chromaStep
    cases hin : (types.getD i .inter).isInter with
    | false =>
      rw [hin] at e
      simp only [Bool.false_eq_true, ↓reduceIte, Out.ok.injEq] at e
      subst e
      exact ⟨rfl, rfl, rfl, rfl⟩
    | true =>
      rw [hin] at e
      simp only [↓reduceIte] at e ⊢
      split at e
      · cases e
      · rw [hdims] at e
        simp only at e
        try rw [if_neg hm] at e
        obtain ⟨l1, e1, e⟩ := out_bind_ok _ _ _ e
        obtain ⟨l2, e2, e⟩ := out_bind_ok _ _ _ e
        obtain ⟨l3, e3, e⟩ := out_bind_ok _ _ _ e
        obtain ⟨l4, e4, e⟩ := out_bind_ok _ _ _ e
        obtain ⟨b1, e5, e⟩ := out_bind_ok _ _ _ e
        obtain ⟨c1, e6, e⟩ := out_bind_ok _ _ _ e
        cases e
        refine ⟨?_, e5, e6, rfl⟩
        show (gatherBlock _ _ _ _ a.luma >>= fun l => gatherBlock _ _ _ _ l >>= fun l => gatherBlock _ _ _ _ l >>= fun l => gatherBlock _ _ _ _ l) = _
        rw [e1]; simp only [Out.bind_ok]
        rw [e2]; simp only [Out.bind_ok]
        rw [e3]; simp only [Out.bind_ok]
        exact e4
  have hL := foldlM_proj (·.luma) _ (fun t i => lumaStep types r mvs m w i t) _ (fun a b a' _ e => (hstep a b a' e).1) pic pic' h
  have hB := foldlM_proj (·.cb) _ (fun t i => chromaStep types r.cb r.chromaSpr mvs m i t) _ (fun a b a' _ e => (hstep a b a' e).2.1) pic pic' h
  have hR := foldlM_proj (·.cr) _ (fun t i => chromaStep types r.cr r.chromaSpr mvs m i t) _ (fun a b a' _ e => (hstep a b a' e).2.2.1) pic pic' h
  have hK := foldlM_keeps (·.chromaSpr) _ _ (fun a b a' _ e => (hstep a b a' e).2.2.2) pic pic' h
  refine ⟨?_, ?_, ?_, hK⟩
  · exact plane_fold r.luma.size w m 16 _ hm (fun i => (types.getD i .inter).isInter)
      (fun i k => predSample r.luma w (mvSel (mvs.getD i zeroMv4) (k % w % 16 / 8) (k / w % 16 / 8)) k)
      (fun i t => lumaStep types r mvs m w i t) (fun i t ht => lumaStep_spec types r mvs m w hw i t ht) pic.luma pic'.luma hl hL
  · exact plane_fold r.cb.size r.chromaSpr m 8 _ hm (fun i => (types.getD i .inter).isInter)
      (fun i k => predSample r.cb r.chromaSpr (mvChroma (mvs.getD i zeroMv4)) k)
      (fun i t => chromaStep types r.cb r.chromaSpr mvs m i t) (fun i t ht => chromaStep_spec types r.cb r.chromaSpr mvs m hc i t ht)
      pic.cb pic'.cb hb hB
  · exact plane_fold r.cr.size r.chromaSpr m 8 _ hm (fun i => (types.getD i .inter).isInter)
      (fun i k => predSample r.cr r.chromaSpr (mvChroma (mvs.getD i zeroMv4)) k)
      (fun i t => chromaStep types r.cr r.chromaSpr mvs m i t) (fun i t ht => chromaStep_spec types r.cr r.chromaSpr mvs m hc i t ht)
      pic.cr pic'.cr hr hR

end H263V.Lemmas.GatherPic
