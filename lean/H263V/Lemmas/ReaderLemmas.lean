import H263V.Model.Reader
namespace H263V.Lemmas.ReaderLemmas
open H263V

/-- all bytes, fetched or not: no operation except `Reader.commit` changes it -/
def total (r : Reader.Rd) : List Nat := r.buf ++ r.src

theorem bufferBytes_total (n : Nat) : ∀ r : Reader.Rd, total (Reader.bufferBytes n r).2 = total r ∧ (Reader.bufferBytes n r).2.bitsRead = r.bitsRead ∧
    r.buf.length ≤ (Reader.bufferBytes n r).2.buf.length := by
  induction n with
  | zero => intro r; simp [Reader.bufferBytes]
  | succ n ih =>
    intro r
    unfold Reader.bufferBytes
    cases hs : r.src with
    | nil => simp
    | cons b rest =>
      simp only
      obtain ⟨h1, h2, h3⟩ := ih { r with src := rest, buf := r.buf ++ [b] }
      refine ⟨?_, ?_, ?_⟩
      · rw [h1]; simp [total, hs]
      · rw [h2]
      · simp at h3; omega

/-- after a successful `buffer_bytes(n)` the buffer has grown by exactly `n` bytes -/
theorem bufferBytes_ok (n : Nat) : ∀ r : Reader.Rd, (Reader.bufferBytes n r).1 = .ok () → (Reader.bufferBytes n r).2.buf.length = r.buf.length + n := by
  induction n with
  | zero => intro r _; simp [Reader.bufferBytes]
  | succ n ih =>
    intro r h
    unfold Reader.bufferBytes at h ⊢
    cases hs : r.src with
    | nil => simp [hs] at h
    | cons b rest =>
      simp only [hs] at h ⊢
      rw [ih _ h]; simp; omega

theorem bufferBytes_result (n : Nat) : ∀ r : Reader.Rd, (Reader.bufferBytes n r).1 = .ok () ∨ (Reader.bufferBytes n r).1 = .err .eof := by
  induction n with
  | zero => intro r; simp [Reader.bufferBytes]
  | succ n ih =>
    intro r
    unfold Reader.bufferBytes
    cases hs : r.src with
    | nil => simp
    | cons b rest => exact ih _

theorem bits_eq (r : Reader.Rd) : r.bits = (bytesToBits (total r)).drop r.bitsRead := rfl

theorem ensureBits_bits (n : Nat) (r : Reader.Rd) : (Reader.ensureBits n r).2.bits = r.bits ∧ (Reader.ensureBits n r).2.bitsRead = r.bitsRead ∧
    total (Reader.ensureBits n r).2 = total r := by
  unfold Reader.ensureBits
  obtain ⟨h1, h2, _⟩ := bufferBytes_total (Reader.neededBytes r n) r
  refine ⟨?_, h2, h1⟩
  rw [bits_eq, bits_eq, h1, h2]

theorem ensureBits_wf (n : Nat) (r : Reader.Rd) (h : r.WF) : (Reader.ensureBits n r).2.WF := by
  unfold Reader.ensureBits Reader.Rd.WF at *
  obtain ⟨_, h2, h3⟩ := bufferBytes_total (Reader.neededBytes r n) r
  rw [h2]; omega

/-- after a successful `ensure_bits(n)` at least `n` more bits are buffered -/
theorem ensureBits_ok (n : Nat) (r : Reader.Rd) (h : r.WF) (hok : (Reader.ensureBits n r).1 = .ok ()) :
    (Reader.ensureBits n r).2.bitsRead + n ≤ 8 * (Reader.ensureBits n r).2.buf.length := by
  unfold Reader.ensureBits at *
  have h1 := bufferBytes_ok _ r hok
  obtain ⟨_, h2, _⟩ := bufferBytes_total (Reader.neededBytes r n) r
  rw [h1, h2]
  unfold Reader.neededBytes
  unfold Reader.Rd.WF at h
  simp only
  split <;> omega

/-- `skip_bits`: on success exactly `n` bits are consumed; on failure none; well-formedness is kept -/
theorem skipBits_spec (n : Nat) (r : Reader.Rd) (h : r.WF) :
    ((Reader.skipBits n r).1 = .ok () ∧ (Reader.skipBits n r).2.bits = r.bits.drop n ∧ (Reader.skipBits n r).2.WF ∧ total (Reader.skipBits n r).2 = total r) ∨
    ((Reader.skipBits n r).1 = .err .eof ∧ (Reader.skipBits n r).2.bits = r.bits ∧ (Reader.skipBits n r).2.WF ∧ total (Reader.skipBits n r).2 = total r ∧
      (Reader.skipBits n r).2.bitsRead = r.bitsRead) := by
  unfold Reader.skipBits
  obtain ⟨hb, hr, ht⟩ := ensureBits_bits n r
  have hw := ensureBits_wf n r h
  rcases (show (Reader.ensureBits n r).1 = .ok () ∨ (Reader.ensureBits n r).1 = .err .eof from bufferBytes_result _ r) with hok | herr
  · left
    have hen := ensureBits_ok n r h hok
    cases he : Reader.ensureBits n r with
    | mk o r' =>
      rw [he] at hok hb hr ht hw hen
      simp only at hok hb hr ht hw hen
      subst hok
      simp only
      refine ⟨trivial, ?_, ?_, ?_⟩
      · rw [bits_eq, bits_eq]
        show List.drop (r'.bitsRead + n) (bytesToBits (total { r' with bitsRead := r'.bitsRead + n })) = _
        have : total { r' with bitsRead := r'.bitsRead + n } = total r' := rfl
        rw [this, ht, hr, List.drop_drop]
      · unfold Reader.Rd.WF; simp only; omega
      · exact ht
  · right
    cases he : Reader.ensureBits n r with
    | mk o r' =>
      rw [he] at herr hb hr ht hw
      simp only at herr hb hr ht hw
      subst herr
      exact ⟨rfl, hb, hw, ht, hr⟩

/-- `Reader.rollback` to a checkpoint taken earlier restores exactly the bits of that moment, provided no `Reader.commit` happened in
between (the byte sequence `total` is unchanged) -/
theorem rollback_restores (r0 r : Reader.Rd) (h0 : r0.WF) (ht : total r = total r0) (hl : r0.buf.length ≤ r.buf.length) :
    (Reader.rollback r0.bitsRead r).1 = .ok () ∧ (Reader.rollback r0.bitsRead r).2.bits = r0.bits ∧ (Reader.rollback r0.bitsRead r).2.WF ∧
      total (Reader.rollback r0.bitsRead r).2 = total r0 := by
  unfold Reader.rollback
  unfold Reader.Rd.WF at h0
  have : ¬ r0.bitsRead > r.buf.length * 8 := by omega
  simp only [this, ↓reduceIte]
  refine ⟨trivial, ?_, ?_, ?_⟩
  · rw [bits_eq, bits_eq]
    show List.drop r0.bitsRead (bytesToBits (total { r with bitsRead := r0.bitsRead })) = _
    have : total { r with bitsRead := r0.bitsRead } = total r := rfl
    rw [this, ht]
  · unfold Reader.Rd.WF; simp only; omega
  · exact ht

theorem bytesToBits_length (bs : List Nat) : (bytesToBits bs).length = 8 * bs.length := by
  induction bs with
  | nil => rfl
  | cons b bs ih => simp [bytesToBits, List.flatMap_cons] at ih ⊢; omega

theorem bytesToBits_drop (k : Nat) : ∀ bs : List Nat, (bytesToBits bs).drop (8 * k) = bytesToBits (bs.drop k) := by
  induction k with
  | zero => intro bs; simp
  | succ k ih =>
    intro bs
    cases bs with
    | nil => simp [bytesToBits]
    | cons b rest =>
      have e : bytesToBits (b :: rest) = (List.range 8).map (fun k => (b / 2 ^ (7 - k)) % 2 == 1) ++ bytesToBits rest := by
        simp [bytesToBits, List.flatMap_cons]
      rw [e, show 8 * (k + 1) = 8 + 8 * k by omega, ← List.drop_drop]
      have h8 : (List.map (fun k => (b / 2 ^ (7 - k)) % 2 == 1) (List.range 8)).length = 8 := by simp
      rw [List.drop_append_of_le_length (by omega), List.drop_of_length_le (l := List.map _ _) (by omega)]
      simpa using ih rest

/-- `Reader.commit` drops whole bytes already read: the deliverable bits and well-formedness are unchanged -/
theorem commit_bits (r : Reader.Rd) (h : r.WF) : (Reader.commit r).bits = r.bits ∧ (Reader.commit r).WF ∧ (Reader.commit r).bitsRead % 8 = r.bitsRead % 8 := by
  unfold Reader.commit
  unfold Reader.Rd.WF at h ⊢
  refine ⟨?_, ?_, ?_⟩
  · rw [bits_eq, bits_eq]
    show List.drop (r.bitsRead % 8) (bytesToBits (r.buf.drop (r.bitsRead / 8) ++ r.src)) = List.drop r.bitsRead (bytesToBits (r.buf ++ r.src))
    have hk : r.bitsRead / 8 ≤ r.buf.length := by omega
    have : r.buf.drop (r.bitsRead / 8) ++ r.src = (r.buf ++ r.src).drop (r.bitsRead / 8) := by
      rw [List.drop_append_of_le_length hk]
    rw [this, ← bytesToBits_drop, List.drop_drop]
    congr 1
    omega
  · simp only [List.length_drop]; omega
  · simp

end H263V.Lemmas.ReaderLemmas
