/-
Baseline H.263 pictures (PTYPE headers, no PLUSPTYPE, no PB frames): `decode_next_picture` on the bits of a valid picture
description commits exactly the bit-free semantic result and leaves the reader exactly behind the picture.
-/
import H263V.Lemmas.SorensonPicture
import H263V.Lemmas.BaseRoundTrip
namespace H263V.Lemmas.BasePicture
open H263V H263V.State H263V.Mb H263V.Spec.Vlc H263V.Spec.Syntax H263V.Spec.HeaderSpec
open H263V.Lemmas.RoundTrip H263V.Lemmas.PictureRoundTrip H263V.Lemmas.SorensonPicture

structure BPic where
  hdr : BaseHdr
  mbs : List MbD

def BPic.bits (p : BPic) : Bits := encodeBaseHdr p.hdr ++ p.mbs.flatMap (encodeMb (!p.hdr.inter))

structure BPic.Valid (o : DecOpts) (p : BPic) (w h : Nat) : Prop where
  hdr : BaseRoundTrip.Valid p.hdr
  nopb : p.hdr.pb = false
  dims : (stdFmt p.hdr.srcFmt).dims = some (w, h)
  count : p.mbs.length = (w + 15) / 16 * ((h + 15) / 16)
  mbs : ∀ m ∈ p.mbs, MbOK o (basePicture p.hdr) (!p.hdr.inter) m

theorem base_nomq : ∀ a b c u s p : Bool,
    Opt.has (((flag a Opt.USE_SPLIT_SCREEN + flag b Opt.USE_DOCUMENT_CAMERA + flag c Opt.RELEASE_FULL_PICTURE_FREEZE +
      flag u Opt.UNRESTRICTED_MOTION_VECTORS + flag s Opt.SYNTAX_BASED_ARITHMETIC_CODING + flag p Opt.ADVANCED_PREDICTION) &&&
      Opt.compl Opt.OPPTYPE_OPTIONS &&& Opt.compl Opt.MPPTYPE_OPTIONS) ||| (0 &&& (Opt.OPPTYPE_OPTIONS ||| Opt.MPPTYPE_OPTIONS)))
      Opt.MODIFIED_QUANTIZATION = false := by decide

theorem base_ctx (h : BaseHdr) (hp : h.pb = false) : HdrCtx (basePicture h) (nextRunning (basePicture h) 0) (!h.inter) := by
  refine ⟨?_, ?_, ?_⟩
  · cases hi : h.inter <;> simp [basePicture, hp, hi]
  · have := base_nomq h.split h.docCamera h.freezeRelease h.umv h.sac h.ap
    unfold nextRunning basePicture
    simp only [Bool.false_and, Bool.false_eq_true, ↓reduceIte]
    exact this
  · simp [basePicture]

/-- **Baseline picture round trip**: standard H.263 mode without the scalability option; the previous picture, if any, has
the same source format (otherwise the parser demands reference picture resampling parameters). -/
theorem decode_bpic (s : State) (hs : s.opts = { sorenson := false, scalability := false }) (hr : s.running = 0) (p : BPic)
    (w h : Nat) (hv : p.Valid s.opts w h)
    (hprev : ∀ q, s.getLast = some q → q.hdr.format = some (stdFmt p.hdr.srcFmt)) (rest : Bits) (pos : Nat) :
    decodeNextPicture s ⟨p.bits ++ rest, pos⟩ =
      semCore s (basePicture p.hdr) p.mbs >>= fun r => .ok (commitPic s r.1 r.2, ⟨rest, pos + p.bits.length⟩) := by
  unfold decodeNextPicture BPic.bits
  rw [List.append_assoc]
  have hctx : HdrCtx (basePicture p.hdr) (nextRunning (basePicture p.hdr) s.running) (!p.hdr.inter) := by
    rw [hr]; exact base_ctx p.hdr hv.nopb
  rw [decodeCore_encode s (encodeBaseHdr p.hdr) (basePicture p.hdr) (!p.hdr.inter) p.mbs w h
    (fun r q => by
      rw [hs]
      exact BaseRoundTrip.round_trip p.hdr hv.hdr _ (by
        intro ph hph
        cases hl : s.getLast with
        | none => rw [hl] at hph; simp at hph
        | some q0 =>
          rw [hl] at hph
          simp only [Option.map_some, Option.some.injEq] at hph
          rw [← hph]; exact hprev q0 hl) r q)
    (by unfold dimsOf; simp only [basePicture]; exact hv.dims) hv.count hctx hv.mbs rest pos]
  cases semCore s (basePicture p.hdr) p.mbs with
  | ok r => simp [Nat.add_assoc]
  | err e => rfl
  | panic m => rfl
  | fuel => rfl

end H263V.Lemmas.BasePicture
