/-
Baseline H.263 picture header (PTYPE without PLUSPTYPE): the parser inverts the specification encoder.
-/
import H263V.Lemmas.SorensonRoundTrip
set_option linter.unusedSimpArgs false
namespace H263V.Lemmas.BaseRoundTrip
open H263V H263V.Spec.Vlc H263V.Spec.Syntax H263V.Spec.HeaderSpec H263V.Lemmas.BitsLemmas H263V.Lemmas.ParseLemmas
open H263V.Lemmas.SorensonRoundTrip (readBits_one pei_round_trip encodePei_length)

structure Valid (h : BaseHdr) : Prop where
  tr : h.tr < 256
  fmt : 1 ≤ h.srcFmt ∧ h.srcFmt ≤ 6
  q : h.quant < 32
  cpm : ∀ p, h.cpm = some p → p < 4
  trb : h.trb < 8
  dbq : h.dbquant < 4
  extra : ∀ b ∈ h.extra, b < 256

/-- the first PTYPE byte: "10", split screen, document camera, freeze release, source format -/
def ptypeHigh (h : BaseHdr) : Nat :=
  128 + (if h.split then 32 else 0) + (if h.docCamera then 16 else 0) + (if h.freezeRelease then 8 else 0) + h.srcFmt

theorem ptypeHigh_bits (h : BaseHdr) (hv : Valid h) :
    [true, false, h.split, h.docCamera, h.freezeRelease] ++ natBits 3 h.srcFmt = natBits 8 (ptypeHigh h) := by
  obtain ⟨f1, f2⟩ := hv.fmt
  have : h.srcFmt = 1 ∨ h.srcFmt = 2 ∨ h.srcFmt = 3 ∨ h.srcFmt = 4 ∨ h.srcFmt = 5 ∨ h.srcFmt = 6 := by omega
  unfold ptypeHigh
  rcases this with e | e | e | e | e | e <;> rw [e] <;> cases h.split <;> cases h.docCamera <;> cases h.freezeRelease <;> rfl

def ptypeLow (h : BaseHdr) : Nat :=
  (if h.inter then 16 else 0) + (if h.umv then 8 else 0) + (if h.sac then 4 else 0) + (if h.ap then 2 else 0) + (if h.pb then 1 else 0)

theorem ptypeLow_bits (h : BaseHdr) : [h.inter, h.umv, h.sac, h.ap, h.pb] = natBits 5 (ptypeLow h) := by
  unfold ptypeLow
  cases h.inter <;> cases h.umv <;> cases h.sac <;> cases h.ap <;> cases h.pb <;> rfl

theorem high_facts : ∀ a b c : Bool, ∀ f : Fin 7,
    let v := 128 + (if a then 32 else 0) + (if b then 16 else 0) + (if c then 8 else 0) + f.val
    v < 256 ∧ (v &&& 0xC0 != 0x80) = false ∧ Header.bit v 0x20 = a ∧ Header.bit v 0x10 = b ∧ Header.bit v 0x08 = c ∧ v &&& 0x07 = f.val := by
  decide

theorem low_facts : ∀ i u s p b : Bool,
    let v := (if i then 16 else 0) + (if u then 8 else 0) + (if s then 4 else 0) + (if p then 2 else 0) + (if b then 1 else 0)
    v < 32 ∧ Header.bit v 0x10 = i ∧ Header.bit v 0x08 = u ∧ Header.bit v 0x04 = s ∧ Header.bit v 0x02 = p ∧ Header.bit v 0x01 = b := by
  decide

theorem options_eq : ∀ a b c u s p : Bool,
    Header.setIf p Opt.ADVANCED_PREDICTION (Header.setIf s Opt.SYNTAX_BASED_ARITHMETIC_CODING (Header.setIf u Opt.UNRESTRICTED_MOTION_VECTORS
      (Header.setIf c Opt.RELEASE_FULL_PICTURE_FREEZE (Header.setIf b Opt.USE_DOCUMENT_CAMERA (Header.setIf a Opt.USE_SPLIT_SCREEN 0))))) =
    flag a Opt.USE_SPLIT_SCREEN + flag b Opt.USE_DOCUMENT_CAMERA + flag c Opt.RELEASE_FULL_PICTURE_FREEZE +
      flag u Opt.UNRESTRICTED_MOTION_VECTORS + flag s Opt.SYNTAX_BASED_ARITHMETIC_CODING + flag p Opt.ADVANCED_PREDICTION := by
  decide

/-- `decode_ptype` on the 13 PTYPE bits of a baseline header -/
theorem decodePtype_base (h : BaseHdr) (hv : Valid h) (rest : Bits) (pos : Nat) :
    Header.decodePtype ⟨natBits 8 (ptypeHigh h) ++ (natBits 5 (ptypeLow h) ++ rest), pos⟩ =
      .ok (((basePicture h).options, some (stdFmt h.srcFmt, (basePicture h).picType)), ⟨rest, pos + 13⟩) := by
  obtain ⟨f1, f2⟩ := hv.fmt
  obtain ⟨hlt, hmark, b1, b2, b3, hfm⟩ := high_facts h.split h.docCamera h.freezeRelease ⟨h.srcFmt, by omega⟩
  obtain ⟨llt, l1, l2, l3, l4, l5⟩ := low_facts h.inter h.umv h.sac h.ap h.pb
  simp only at hlt hmark b1 b2 b3 hfm llt l1 l2 l3 l4 l5
  have hf : h.srcFmt = 1 ∨ h.srcFmt = 2 ∨ h.srcFmt = 3 ∨ h.srcFmt = 4 ∨ h.srcFmt = 5 ∨ h.srcFmt = 6 := by omega
  unfold Header.decodePtype
  simp only [bind_apply, readU8]
  rw [readBits_natBits 8 8 (ptypeHigh h) (by omega) (by unfold ptypeHigh; exact hlt)]
  simp only
  unfold ptypeHigh ptypeLow
  rw [hmark]
  simp only [Bool.false_eq_true, ↓reduceIte, b1, b2, b3, hfm]
  have hopt := options_eq h.split h.docCamera h.freezeRelease h.umv h.sac h.ap
  rcases hf with e | e | e | e | e | e <;> simp only [e, bind_apply] <;>
    rw [readBits_natBits 8 5 _ (by omega) (by exact llt)] <;>
    simp only [pure_apply, l1, l2, l3, l4, l5, hopt, basePicture, stdFmt] <;>
    cases h.pb <;> cases h.inter <;> simp

theorem base_no_plus_flags : ∀ a b c u s p : Bool,
    let o := flag a Opt.USE_SPLIT_SCREEN + flag b Opt.USE_DOCUMENT_CAMERA + flag c Opt.RELEASE_FULL_PICTURE_FREEZE +
      flag u Opt.UNRESTRICTED_MOTION_VECTORS + flag s Opt.SYNTAX_BASED_ARITHMETIC_CODING + flag p Opt.ADVANCED_PREDICTION
    Opt.has o Opt.REFERENCE_PICTURE_SELECTION = false ∧ Opt.has o Opt.REFERENCE_PICTURE_RESAMPLING = false ∧
      Opt.has o Opt.MODIFIED_QUANTIZATION = false := by
  decide

def cpmBits (cpm : Option Nat) : Bits := match cpm with | some p => [true] ++ natBits 2 p | none => [false]

theorem cpm_round_trip (cpm : Option Nat) (hc : ∀ p, cpm = some p → p < 4) (rest : Bits) (pos : Nat) :
    Header.decodeCpmPsbi ⟨cpmBits cpm ++ rest, pos⟩ = .ok (cpm, ⟨rest, pos + (cpmBits cpm).length⟩) := by
  unfold Header.decodeCpmPsbi cpmBits
  cases cpm with
  | none =>
    simp only [List.cons_append, List.nil_append, bind_apply]
    rw [readBits_one 8 (by omega)]
    simp
  | some p =>
    simp only [List.cons_append, List.nil_append, List.append_assoc, bind_apply]
    rw [readBits_one 8 (by omega)]
    simp only [↓reduceIte, bind_apply]
    have : p < 2 ^ 2 := by have := hc p rfl; omega
    have h1 : ((1 : Nat) != 0) = true := rfl
    simp only [h1, ↓reduceIte, bind_apply]
    rw [readBits_natBits 8 2 p (by omega) this]
    simp [natBits_length, Nat.add_assoc]

theorem dbquant_round_trip (v : Nat) (hv : v < 4) (rest : Bits) (pos : Nat) :
    Header.decodeDbquant ⟨natBits 2 v ++ rest, pos⟩ = .ok (bquant v, ⟨rest, pos + 2⟩) := by
  unfold Header.decodeDbquant
  simp only [bind_apply]
  rw [readBits_natBits 8 2 v (by omega) (by omega)]
  have : v = 0 ∨ v = 1 ∨ v = 2 ∨ v = 3 := by omega
  rcases this with e | e | e | e <;> subst e <;> rfl

/-- **Baseline H.263 header round trip**: for every combination of temporal reference, the three PTYPE flag bits, source format
1..6, picture coding type, UMV / SAC / AP / PB bits, quantizer, CPM / PSBI, TRB / DBQUANT and extra-information bytes, parsing the
encoded header (without the scalability option; the previous header absent or of the same format) yields exactly the specified
header record and consumes exactly the header's bits, whatever follows. -/
theorem round_trip (h : BaseHdr) (hv : Valid h) (prev : Option PicHdr)
    (hprev : ∀ p, prev = some p → p.format = some (stdFmt h.srcFmt)) (rest : Bits) (pos : Nat) :
    Header.decodePicture { sorenson := false, scalability := false } prev ⟨encodeBaseHdr h ++ rest, pos⟩ =
      .ok (some (basePicture h), ⟨rest, pos + (encodeBaseHdr h).length⟩) := by
  have hp := decodePtype_base h hv
  obtain ⟨f1, f2, f3⟩ := base_no_plus_flags h.split h.docCamera h.freezeRelease h.umv h.sac h.ap
  have hopts : (basePicture h).options = flag h.split Opt.USE_SPLIT_SCREEN + flag h.docCamera Opt.USE_DOCUMENT_CAMERA +
      flag h.freezeRelease Opt.RELEASE_FULL_PICTURE_FREEZE + flag h.umv Opt.UNRESTRICTED_MOTION_VECTORS +
      flag h.sac Opt.SYNTAX_BASED_ARITHMETIC_CODING + flag h.ap Opt.ADVANCED_PREDICTION := rfl
  rw [← hopts] at f1 f2 f3
  unfold Header.decodePicture transactionUnion
  have e : ∀ rest, encodeBaseHdr h ++ rest =
      startCode ++ (natBits 5 0 ++ (natBits 8 h.tr ++ (natBits 8 (ptypeHigh h) ++ (natBits 5 (ptypeLow h) ++
        (natBits 5 h.quant ++ (cpmBits h.cpm ++
        ((if h.pb then natBits 3 h.trb ++ natBits 2 h.dbquant else []) ++ (encodePei h.extra ++ rest)))))))) := by
    intro rest
    unfold encodeBaseHdr
    rw [← ptypeHigh_bits h hv, ← ptypeLow_bits h]
    simp only [List.append_assoc]
    rfl
  have hlen : (encodeBaseHdr h).length = 17 + 5 + 8 + 8 + 5 + 5 + (cpmBits h.cpm).length + (if h.pb then 5 else 0) + (encodePei h.extra).length := by
    have := congrArg List.length (e [])
    simp only [List.append_nil, List.length_append, natBits_length, startCode] at this
    rw [this]
    split <;> simp [natBits_length] <;> omega
  rw [e]
  simp only [bind_apply]
  rw [rsc_at_start]
  simp only [okOr_some]
  rw [skipBits_append startCode _ 17 pos (by simp [startCode, natBits_length])]
  simp only
  rw [readBits_natBits 8 5 0 (by omega) (by omega)]
  simp only [Bool.false_eq_true, ↓reduceIte, readU8, bind_apply, bne_self_eq_false]
  rw [readBits_natBits 8 8 h.tr (by omega) (by have := hv.tr; omega)]
  simp only
  rw [hp]
  simp only [pure_apply, Bool.false_eq_true, ↓reduceIte, Option.isSome_none, f1, f2, Bool.false_or]
  have hfmt : Header.formatChanged prev (some (stdFmt h.srcFmt)) = false := by
    unfold Header.formatChanged
    cases hprv : prev with
    | none => rfl
    | some p => simp [hprev p hprv]
  simp only [hfmt, Bool.false_eq_true, ↓reduceIte, pure_apply, bind_apply]
  all_goals (
    rw [readBits_natBits 8 5 h.quant (by omega) (by have := hv.q; omega)]
    simp only
    rw [cpm_round_trip h.cpm hv.cpm]
    simp only
    have hpei := fun (r : Bits) (p : Nat) => pei_round_trip h.extra hv.extra r ((encodePei h.extra).length + r.length + 1) [] p
      (by simp [encodePei_length]; omega)
    cases hpb : h.pb with
    | false =>
      have hany : (basePicture h).picType.isAnyPb = false := by
        unfold basePicture; simp only [hpb, Bool.false_eq_true, ↓reduceIte]; cases h.inter <;> rfl
      simp only [hany, Bool.false_eq_true, ↓reduceIte, pure_apply, List.nil_append, Header.decodePei, List.length_append]
      rw [hpei]
      simp only [List.nil_append]
      refine congrArg Out.ok (Prod.ext ?_ ?_)
      · simp [basePicture, hpb]
      · simp only [hlen, hpb]; simp; omega
    | true =>
      have hany : (basePicture h).picType.isAnyPb = true := by
        unfold basePicture; simp only [hpb, ↓reduceIte]; rfl
      simp only [hany, ↓reduceIte, bind_apply, Header.decodeTrb, Option.isSome_none, Bool.false_eq_true, List.append_assoc]
      rw [readBits_natBits 8 3 h.trb (by omega) (by have := hv.trb; omega)]
      simp only
      rw [dbquant_round_trip h.dbquant hv.dbq]
      simp only [pure_apply, Header.decodePei, List.length_append]
      rw [hpei]
      simp only [List.nil_append]
      refine congrArg Out.ok (Prod.ext ?_ ?_)
      · simp [basePicture, hpb]
      · simp only [hlen, hpb]; simp; omega)

end H263V.Lemmas.BaseRoundTrip
