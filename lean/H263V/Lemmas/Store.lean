import H263V.Model.State
namespace H263V.Lemmas.Store
open H263V H263V.State H263V.Gather

theorem lookup_nil (k : Nat) : lookup [] k = none := rfl

theorem lookup_cons (a : Nat × DecPic) (st : List (Nat × DecPic)) (k : Nat) :
    lookup (a :: st) k = if a.1 = k then some a.2 else lookup st k := by
  unfold lookup
  simp only [List.find?_cons]
  by_cases h : a.1 = k
  · simp [h]
  · have hb : (a.1 == k) = false := by simp [h]
    simp [h, hb]

theorem lookup_filter (st : List (Nat × DecPic)) (k k' : Nat) :
    lookup (st.filter (·.1 != k)) k' = if k' = k then none else lookup st k' := by
  induction st with
  | nil => simp [lookup]
  | cons a st ih =>
    by_cases ha : a.1 = k
    · have : (a.1 != k) = false := by simp [ha]
      rw [List.filter_cons_of_neg (by simp [this]), ih, lookup_cons]
      by_cases hk : k' = k
      · simp [hk]
      · have : ¬ a.1 = k' := by rw [ha]; exact fun e => hk e.symm
        simp [hk, this]
    · have : (a.1 != k) = true := by simp [ha]
      rw [List.filter_cons_of_pos (by simp [this]), lookup_cons, lookup_cons, ih]
      by_cases hk : k' = k
      · subst hk
        simp [ha]
      · simp [hk]

theorem lookup_insert (st : List (Nat × DecPic)) (k k' : Nat) (p : DecPic) :
    lookup (State.insert st k p) k' = if k' = k then some p else lookup st k' := by
  unfold State.insert
  rw [lookup_cons, lookup_filter]
  by_cases h : k' = k
  · simp [h]
  · have : ¬ k = k' := fun e => h e.symm
    simp [h, this]

/-- `cleanup_buffers` changes neither the last nor the reference picture. -/
theorem cleanup_getLast (s : State) : s.cleanup.getLast = s.getLast := by
  unfold State.cleanup State.getLast
  cases hl : s.last with
  | none => simp
  | some kl =>
    simp only [Option.bind_some]
    cases hp : lookup s.store kl with
    | none =>
      simp only [Option.map_none]
      cases hr : s.ref with
      | none => simp [lookup_nil]
      | some kr =>
        simp only [Option.bind_some, lookup_filter]
        by_cases hk : kr = kl
        · simp [hk, lookup_nil]
        · simp only [hk, ↓reduceIte]
          cases hq : lookup s.store kr with
          | none => simp [lookup_nil]
          | some pr =>
            simp only [Option.map_some, lookup_insert, lookup_nil]
            have : ¬ kl = kr := fun e => hk e.symm
            simp [this]
    | some pl =>
      simp only [Option.map_some]
      cases hr : s.ref with
      | none => simp [lookup_insert]
      | some kr =>
        simp only [Option.bind_some, lookup_filter]
        by_cases hk : kr = kl
        · simp [hk, lookup_insert]
        · simp only [hk, ↓reduceIte]
          have hne : ¬ kl = kr := fun e => hk e.symm
          cases hq : lookup s.store kr with
          | none => simp [lookup_insert]
          | some pr => simp [lookup_insert, hne]

theorem cleanup_getRef (s : State) : s.cleanup.getRef = s.getRef := by
  unfold State.cleanup State.getRef
  cases hr : s.ref with
  | none => simp
  | some kr =>
    simp only [Option.bind_some]
    cases hl : s.last with
    | none =>
      simp only [Option.bind_none]
      cases hq : lookup s.store kr with
      | none => simp [lookup_nil]
      | some pr => simp [lookup_insert]
    | some kl =>
      simp only [Option.bind_some, lookup_filter]
      by_cases hk : kr = kl
      · subst hk
        simp only [↓reduceIte, Option.map_none]
        cases hp : lookup s.store kr with
        | none => simp [lookup_nil]
        | some pl => simp [lookup_insert]
      · simp only [hk, ↓reduceIte]
        cases hp : lookup s.store kl with
        | none =>
          cases hq : lookup s.store kr with
          | none => simp [lookup_nil]
          | some pr => simp [lookup_insert]
        | some pl =>
          cases hq : lookup s.store kr with
          | none => simp [lookup_insert, lookup_nil, hk]
          | some pr => simp [lookup_insert]

theorem cleanup_last (s : State) : s.cleanup.last = s.last := rfl
theorem cleanup_ref (s : State) : s.cleanup.ref = s.ref := rfl

end H263V.Lemmas.Store
