import H263V.Model.Bits
import H263V.Spec.Vlc
namespace H263V.Lemmas.BitsLemmas
open H263V H263V.Spec.Vlc

theorem natBits_length (n v : Nat) : (natBits n v).length = n := by
  induction n with
  | zero => rfl
  | succ n ih => simp [natBits, ih]

theorem ofBits_foldl (bs : Bits) (a : Nat) :
    bs.foldl (fun a b => 2 * a + (if b then 1 else 0)) a = a * 2 ^ bs.length + ofBits bs := by
  unfold ofBits
  induction bs generalizing a with
  | nil => simp
  | cons b bs ih =>
    simp only [List.foldl_cons, List.length_cons]
    rw [ih, ih (2 * 0 + if b = true then 1 else 0)]
    rw [Nat.pow_succ]
    have : (2 * a + if b = true then 1 else 0) * 2 ^ bs.length = a * (2 ^ bs.length * 2) + (2 * 0 + if b = true then 1 else 0) * 2 ^ bs.length := by
      simp only [Nat.mul_zero, Nat.zero_add, Nat.add_mul]
      rw [Nat.mul_comm 2 a, Nat.mul_assoc, Nat.mul_comm 2]
    omega

theorem ofBits_cons (b : Bool) (bs : Bits) : ofBits (b :: bs) = (if b then 1 else 0) * 2 ^ bs.length + ofBits bs := by
  have := ofBits_foldl bs (2 * 0 + if b = true then 1 else 0)
  unfold ofBits at this ⊢
  simp only [List.foldl_cons]
  rw [this]
  simp

theorem ofBits_natBits_mod (n v : Nat) : ofBits (natBits n v) = v % 2 ^ n := by
  induction n with
  | zero => simp [natBits, ofBits, Nat.mod_one]
  | succ n ih =>
    show ofBits (((v / 2 ^ n) % 2 == 1) :: natBits n v) = _
    rw [ofBits_cons, natBits_length, ih, Nat.mod_pow_succ]
    have h01 : v / 2 ^ n % 2 = 0 ∨ v / 2 ^ n % 2 = 1 := by omega
    rcases h01 with h | h <;> simp [h] <;> omega

/-- the value of an `n`-bit field written MSB first is read back (for values that fit) -/
theorem ofBits_natBits (n v : Nat) (h : v < 2 ^ n) : ofBits (natBits n v) = v := by
  rw [ofBits_natBits_mod, Nat.mod_eq_of_lt h]

/-- reading an `n`-bit field that was written by `natBits` returns the value and consumes exactly the field -/
theorem readBits_natBits (W n v : Nat) (hn : n ≤ W) (hv : v < 2 ^ n) (rest : Bits) (pos : Nat) :
    readBits W n ⟨natBits n v ++ rest, pos⟩ = .ok (v, ⟨rest, pos + n⟩) := by
  unfold readBits peekBits skipBits
  have h1 : ¬ n > W := by omega
  simp only [h1, ↓reduceIte]
  by_cases h0 : n = 0
  · subst h0
    have : v = 0 := by simpa using hv
    subst this
    simp [natBits, Out.bind]
  · have hl : ¬ (natBits n v ++ rest).length < n := by simp [natBits_length]
    simp only [h0, ↓reduceIte, hl]
    have ht : (natBits n v ++ rest).take n = natBits n v := by
      rw [List.take_append_of_le_length (by simp [natBits_length])]
      rw [List.take_of_length_le (by simp [natBits_length])]
    have hd : (natBits n v ++ rest).drop n = rest := by
      rw [List.drop_append_of_le_length (by simp [natBits_length])]
      rw [List.drop_of_length_le (by simp [natBits_length])]
      simp
    simp only [ht, hd, ofBits_natBits n v hv, Out.bind]

end H263V.Lemmas.BitsLemmas
