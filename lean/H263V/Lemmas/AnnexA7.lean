import H263V.Lemmas.AnnexADefs
namespace H263V.Lemmas.AnnexA
theorem dc_all_ok : dcAllOk = true := by native_decide
theorem row_sample_ok : sparseOk true 1 20000 = true := by native_decide
theorem col_sample_ok : sparseOk false 1 20000 = true := by native_decide
end H263V.Lemmas.AnnexA
