import H263V.Lemmas.ParseLemmas
import H263V.Spec.HeaderSpec
namespace H263V.Lemmas.SorensonRoundTrip
open H263V H263V.Spec.Vlc H263V.Spec.Syntax H263V.Spec.HeaderSpec H263V.Lemmas.BitsLemmas H263V.Lemmas.ParseLemmas

structure Valid (h : SorensonHdr) : Prop where
  version : h.version < 32
  tr : h.tr < 256
  code : h.sizeCode < 8
  w : h.customW < (if h.sizeCode = 0 then 256 else 65536)
  hgt : h.customH < (if h.sizeCode = 0 then 256 else 65536)
  pt : h.picType < 4
  q : h.quant < 32
  extra : ∀ b ∈ h.extra, b < 256

theorem readBits_one (W : Nat) (hW : 1 ≤ W) (b : Bool) (rest : Bits) (pos : Nat) :
    readBits W 1 ⟨b :: rest, pos⟩ = .ok (if b then 1 else 0, ⟨rest, pos + 1⟩) := by
  have := readBits_natBits W 1 (if b then 1 else 0) hW (by cases b <;> decide) rest pos
  cases b <;> simpa [natBits] using this

theorem encodePei_length (extra : List Nat) : (encodePei extra).length = 9 * extra.length + 1 := by
  induction extra with
  | nil => simp [encodePei]
  | cons b bs ih =>
    have : encodePei (b :: bs) = true :: (natBits 8 b ++ encodePei bs) := by
      simp [encodePei, List.flatMap_cons, List.append_assoc]
    rw [this]; simp [natBits_length, ih]; omega

theorem pei_round_trip (extra : List Nat) (hx : ∀ b ∈ extra, b < 256) (rest : Bits) :
    ∀ (fuel : Nat) (acc : List Nat) (pos : Nat), extra.length < fuel →
      Header.peiLoop fuel acc ⟨encodePei extra ++ rest, pos⟩ = .ok (acc ++ extra, ⟨rest, pos + (encodePei extra).length⟩) := by
  induction extra with
  | nil =>
    intro fuel acc pos hf
    obtain ⟨f, rfl⟩ : ∃ f, fuel = f + 1 := ⟨fuel - 1, by omega⟩
    unfold Header.peiLoop
    simp only [encodePei, List.flatMap_nil, List.nil_append, List.cons_append, bind_apply]
    rw [readBits_one 8 (by omega)]
    simp
  | cons b bs ih =>
    intro fuel acc pos hf
    obtain ⟨f, rfl⟩ : ∃ f, fuel = f + 1 := ⟨fuel - 1, by omega⟩
    unfold Header.peiLoop
    have hb : b < 2 ^ 8 := by have := hx b (by simp); omega
    have e : encodePei (b :: bs) ++ rest = true :: (natBits 8 b ++ (encodePei bs ++ rest)) := by
      simp [encodePei, List.flatMap_cons, List.append_assoc]
    rw [e]
    simp only [bind_apply]
    rw [readBits_one 8 (by omega)]
    simp only [↓reduceIte, beq_self_eq_true, readU8, bind_apply]
    rw [readBits_natBits 8 8 b (by omega) hb]
    simp only
    rw [ih (fun x hxm => hx x (by simp [hxm])) f (acc ++ [b]) (pos + 1 + 8) (by simpa using hf)]
    simp [encodePei, List.flatMap_cons, natBits_length]
    omega

theorem sorenson_ptype (h : SorensonHdr) (hv : Valid h) (rest : Bits) (pos : Nat) :
    Header.decodeSorensonPtype
      ⟨natBits 3 h.sizeCode ++ ((if h.sizeCode = 0 then natBits 8 h.customW ++ natBits 8 h.customH
          else if h.sizeCode = 1 then natBits 16 h.customW ++ natBits 16 h.customH else []) ++
        (natBits 2 h.picType ++ (h.deblock :: rest))), pos⟩ =
      .ok ((sorensonFmt h, (match h.picType with | 0 => PicType.iFrame | 1 => .pFrame | 2 => .disposableP | r => .reserved r),
            flag h.deblock Opt.USE_DEBLOCKER),
           ⟨rest, pos + 3 + (if h.sizeCode = 0 then 16 else if h.sizeCode = 1 then 32 else 0) + 2 + 1⟩) := by
  obtain ⟨_, _, hc, hw, hh, hp, _, _⟩ := hv
  unfold Header.decodeSorensonPtype
  simp only [bind_apply]
  rw [readBits_natBits 8 3 h.sizeCode (by omega) (by omega)]
  simp only
  have hcases : h.sizeCode = 0 ∨ h.sizeCode = 1 ∨ h.sizeCode = 2 ∨ h.sizeCode = 3 ∨ h.sizeCode = 4 ∨ h.sizeCode = 5 ∨
      h.sizeCode = 6 ∨ h.sizeCode = 7 := by omega
  have hpt : h.picType = 0 ∨ h.picType = 1 ∨ h.picType = 2 ∨ h.picType = 3 := by omega
  rcases hcases with hc | hc | hc | hc | hc | hc | hc | hc <;> rw [hc] at hw hh ⊢ <;>
    simp (config := { decide := true }) only [↓reduceIte, List.append_assoc, List.nil_append, bind_apply, pure_apply] <;>
    (try rw [readBits_natBits 16 8 h.customW (by omega) (by simpa using hw)]) <;>
    (try rw [readBits_natBits 16 16 h.customW (by omega) (by simpa using hw)]) <;>
    (try simp only) <;>
    (try rw [readBits_natBits 16 8 h.customH (by omega) (by simpa using hh)]) <;>
    (try rw [readBits_natBits 16 16 h.customH (by omega) (by simpa using hh)]) <;>
    (try simp only) <;>
    rw [readBits_natBits 8 2 h.picType (by omega) (by omega)] <;> simp only <;>
    rw [readBits_one 8 (by omega)] <;>
    rcases hpt with hp | hp | hp | hp <;> rw [hp] <;> cases h.deblock <;>
    simp [sorensonFmt, hc, flag, Nat.add_assoc]

theorem round_trip (h : SorensonHdr) (hv : Valid h) (scal : Bool) (prev : Option PicHdr) (rest : Bits) (pos : Nat) :
    Header.decodePicture { sorenson := true, scalability := scal } prev ⟨encodeSorensonHdr h ++ rest, pos⟩ =
      .ok (some (sorensonPicture h), ⟨rest, pos + (encodeSorensonHdr h).length⟩) := by
  have hp := sorenson_ptype h hv
  obtain ⟨hver, htr, hc, hw, hh, hpt, hq, hx⟩ := hv
  unfold Header.decodePicture transactionUnion
  have e : encodeSorensonHdr h ++ rest =
      startCode ++ (natBits 5 h.version ++ (natBits 8 h.tr ++ (natBits 3 h.sizeCode ++
        ((if h.sizeCode = 0 then natBits 8 h.customW ++ natBits 8 h.customH
          else if h.sizeCode = 1 then natBits 16 h.customW ++ natBits 16 h.customH else []) ++
        (natBits 2 h.picType ++ (h.deblock :: (natBits 5 h.quant ++ (encodePei h.extra ++ rest)))))))) := by
    simp [encodeSorensonHdr, List.append_assoc]
  rw [e]
  simp only [bind_apply]
  rw [rsc_at_start]
  simp only [okOr_some]
  rw [skipBits_append startCode _ 17 pos (by simp [startCode, natBits_length])]
  simp only
  rw [readBits_natBits 8 5 h.version (by omega) (by omega)]
  simp only [↓reduceIte, readU8, bind_apply]
  rw [readBits_natBits 8 8 h.tr (by omega) (by omega)]
  simp only
  rw [hp]
  simp only
  rw [readBits_natBits 8 5 h.quant (by omega) (by omega)]
  simp only [Header.decodePei]
  rw [pei_round_trip h.extra hx rest _ [] _ (by simp [encodePei_length]; omega)]
  simp only [pure_apply, List.nil_append]
  simp [sorensonPicture, encodeSorensonHdr, natBits_length, startCode]
  refine ⟨?_, ?_⟩
  · rcases (show h.picType = 0 ∨ h.picType = 1 ∨ h.picType = 2 ∨ h.picType = 3 by omega) with hp | hp | hp | hp <;> simp [hp]
  · by_cases h0 : h.sizeCode = 0
    · simp [h0, natBits_length]; omega
    · by_cases h1 : h.sizeCode = 1
      · simp [h1, natBits_length]; omega
      · simp [h0, h1]; omega

end H263V.Lemmas.SorensonRoundTrip
