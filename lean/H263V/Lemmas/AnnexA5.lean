import H263V.Lemmas.AnnexADefs
namespace H263V.Lemmas.AnnexA
theorem range5_ok : rangeOk 1 5 5 true 10000 = true := by native_decide
end H263V.Lemmas.AnnexA
