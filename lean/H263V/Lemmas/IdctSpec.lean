/-
`idct_channel` pointwise: every sample of the plane is the clamped sum of the prediction already there and the residual of the
8x8 block that covers it, at the sample's offset inside the block; samples outside the covered area keep their value.
-/
import H263V.Model.Idct
import H263V.Lemmas.GatherSpec
namespace H263V.Lemmas.IdctSpec
open H263V H263V.Idct H263V.Rle H263V.Lemmas.GatherSpec

theorem out_bind_ok {α β : Type} (x : Out α) (f : α → Out β) (b : β) (h : x >>= f = .ok b) : ∃ a, x = .ok a ∧ f a = .ok b := by
  cases x with
  | ok a => exact ⟨a, rfl, h⟩
  | err e => cases h
  | panic s => cases h
  | fuel => cases h

/-- **Tiles.**  A fold of steps, each of which rewrites a region `R b` of the array pointwise as a function `V b` of the value already
there and leaves the rest alone, with pairwise disjoint regions: every cell in some region has been rewritten once, by its
region's step, from its ORIGINAL value; every other cell is unchanged. -/
theorem tiles {β : Type} (n : Nat) (step : β → Array Nat → Out (Array Nat)) (R : β → Nat → Prop) (V : β → Nat → Nat → Nat) :
    ∀ (l : List β),
    (∀ b ∈ l, ∀ t t', t.size = n → step b t = .ok t' →
      t'.size = n ∧ (∀ k, ¬ R b k → t'.getD k 0 = t.getD k 0) ∧ (∀ k, R b k → t'.getD k 0 = V b k (t.getD k 0))) →
    l.Pairwise (fun a b => ∀ k, ¬ (R a k ∧ R b k)) → ∀ t t', t.size = n → l.foldlM (fun t b => step b t) t = .ok t' →
      t'.size = n ∧ (∀ k, (∀ b ∈ l, ¬ R b k) → t'.getD k 0 = t.getD k 0) ∧
        (∀ k, ∀ b ∈ l, R b k → t'.getD k 0 = V b k (t.getD k 0)) := by
  intro l
  induction l with
  | nil =>
    intro _ _ t t' ht h
    simp only [List.foldlM_nil] at h
    cases h
    exact ⟨ht, fun _ _ => rfl, fun k b hb => by simp at hb⟩
  | cons b bs ih =>
    intro hstep hp t t' ht h
    rw [List.foldlM_cons] at h
    obtain ⟨t1, e1, e2⟩ := out_bind_ok _ _ _ h
    obtain ⟨s1, u1, v1⟩ := hstep b (by simp) t t1 ht e1
    rw [List.pairwise_cons] at hp
    obtain ⟨s2, u2, v2⟩ := ih (fun c hc => hstep c (by simp [hc])) hp.2 t1 t' s1 e2
    refine ⟨s2, fun k hk => ?_, fun k c hc hR => ?_⟩
    · rw [u2 k (fun c hc => hk c (by simp [hc])), u1 k (hk b (by simp))]
    · rw [List.mem_cons] at hc
      rcases hc with rfl | hc
      · rw [u2 k (fun c' hc' hR' => hp.1 c' hc' k ⟨hR, hR'⟩), v1 k hR]
      · rw [v2 k c hc hR, u1 k (fun hb => hp.1 c hc k ⟨hb, hR⟩)]

theorem range_disjoint (n : Nat) (R : Nat → Nat → Prop) (h : ∀ a b k, a < b → ¬ (R a k ∧ R b k)) :
    (List.range n).Pairwise (fun a b => ∀ k, ¬ (R a k ∧ R b k)) :=
  List.Pairwise.imp (fun {a b} hab k => h a b k hab) (List.pairwise_lt_range (n := n))

/-- the sample offsets: `k` is column `k % spl` of row `k / spl` -/
theorem idx_div_mod (spl a b : Nat) (ha : a < spl) : (a + b * spl) / spl = b ∧ (a + b * spl) % spl = a := by
  have hs : 0 < spl := by omega
  exact ⟨by rw [Nat.add_mul_div_right _ _ hs, Nat.div_eq_of_lt ha]; omega, by rw [Nat.add_mul_mod_self_right, Nat.mod_eq_of_lt ha]⟩

theorem idx_of_div_mod (spl k : Nat) : k % spl + k / spl * spl = k := by
  have := Nat.div_add_mod k spl
  rw [Nat.mul_comm] at this
  omega

/-- `add_block`: the `xs × ys` samples of block (xb, yb) get the clamped residual added; nothing else changes -/
theorem addBlock_spec (n spl xb yb xs ys : Nat) (hxs : xs = 0 ∨ xb * 8 + xs ≤ spl) (res : Nat → Nat → Int) (o o' : Array Nat)
    (ho : o.size = n) (h : addBlock o spl xb yb xs ys res = .ok o') :
    o'.size = n ∧ ∀ k, o'.getD k 0 =
      if yb * 8 ≤ k / spl ∧ k / spl < yb * 8 + ys ∧ xb * 8 ≤ k % spl ∧ k % spl < xb * 8 + xs
      then clampU8 (res (k % spl - xb * 8) (k / spl - yb * 8) + (o.getD k 0 : Int)) else o.getD k 0 := by
  unfold addBlock at h
  -- rows
  have hrows := tiles n
    (fun yo o => (List.range xs).foldlM (init := o) fun o xo =>
      match o[(xb * 8 + xo) + (yb * 8 + yo) * spl]? with
      | some p => .ok (o.set! ((xb * 8 + xo) + (yb * 8 + yo) * spl) (clampU8 (res xo yo + (p : Int))))
      | none => .panic "index out of bounds: output[x + y * samples_per_line]")
    (fun yo k => k / spl = yb * 8 + yo ∧ xb * 8 ≤ k % spl ∧ k % spl < xb * 8 + xs)
    (fun yo k old => clampU8 (res (k % spl - xb * 8) yo + (old : Int)))
    (List.range ys)
    (by
      intro yo _ t t' ht hrow
      -- cells of one row
      have hcells := tiles n
        (fun xo o => match o[(xb * 8 + xo) + (yb * 8 + yo) * spl]? with
          | some p => .ok (o.set! ((xb * 8 + xo) + (yb * 8 + yo) * spl) (clampU8 (res xo yo + (p : Int))))
          | none => .panic "index out of bounds: output[x + y * samples_per_line]")
        (fun xo k => k = (xb * 8 + xo) + (yb * 8 + yo) * spl)
        (fun xo _ old => clampU8 (res xo yo + (old : Int)))
        (List.range xs)
        (by
          intro xo _ a a' ha hcell
          cases hg : a[(xb * 8 + xo) + (yb * 8 + yo) * spl]? with
          | none => rw [hg] at hcell; cases hcell
          | some p =>
            rw [hg] at hcell
            simp only [Out.ok.injEq] at hcell
            subst hcell
            have hlt : (xb * 8 + xo) + (yb * 8 + yo) * spl < a.size := by
              rcases Nat.lt_or_ge ((xb * 8 + xo) + (yb * 8 + yo) * spl) a.size with h | h
              · exact h
              · rw [Array.getElem?_eq_none h] at hg; cases hg
            have hp : a.getD ((xb * 8 + xo) + (yb * 8 + yo) * spl) 0 = p := by
              rw [Array.getD_eq_getD_getElem?, hg]; rfl
            refine ⟨by simp [ha], fun k hk => ?_, fun k hk => ?_⟩
            · rw [getD_set!, if_neg (fun h => hk h.1.symm)]
            · subst hk
              rw [getD_set!, if_pos ⟨rfl, hlt⟩, hp])
        (range_disjoint xs _ (by intro a b k hab ⟨h1, h2⟩; omega))
        t t' ht hrow
      obtain ⟨s, u, v⟩ := hcells
      refine ⟨s, fun k hk => u k (fun xo hxo hko => ?_), fun k hk => ?_⟩
      · rw [List.mem_range] at hxo
        obtain ⟨d1, d2⟩ := idx_div_mod spl (xb * 8 + xo) (yb * 8 + yo) (by omega)
        apply hk
        rw [hko, d1, d2]
        exact ⟨rfl, by omega, by omega⟩
      · obtain ⟨h1, h2, h3⟩ := hk
        have hk' : k = (xb * 8 + (k % spl - xb * 8)) + (yb * 8 + yo) * spl := by
          have := idx_of_div_mod spl k
          rw [h1] at this
          omega
        exact v k (k % spl - xb * 8) (by rw [List.mem_range]; omega) hk')
    (range_disjoint ys _ (by intro a b k hab ⟨h1, h2⟩; omega))
    o o' ho h
  obtain ⟨s, u, v⟩ := hrows
  refine ⟨s, fun k => ?_⟩
  by_cases hin : yb * 8 ≤ k / spl ∧ k / spl < yb * 8 + ys ∧ xb * 8 ≤ k % spl ∧ k % spl < xb * 8 + xs
  · rw [if_pos hin]
    have := v k (k / spl - yb * 8) (by rw [List.mem_range]; omega) ⟨by omega, hin.2.2.1, hin.2.2.2⟩
    exact this
  · rw [if_neg hin]
    apply u
    intro yo hyo hR
    rw [List.mem_range] at hyo
    apply hin
    exact ⟨by omega, by omega, hR.2.1, hR.2.2⟩

/-- what one block contributes to a sample with prediction `old` at offset (x, y) inside it -/
def blockAt (b : Option Dct) (x y : Nat) (old : Nat) : Nat :=
  match b with
  | some b => (match blockResidual b with
    | some (res, _) => clampU8 (res x y + (old : Int))
    | none => old)
  | none => old

/-- **the pointwise specification of `idct_channel`**: sample `k` (column `k % spl`, row `k / spl`) is covered by block
(column / 8, row / 8) when that block exists in the level array; it then holds the clamped sum of the residual of that block at
offset (column % 8, row % 8) and the prediction; otherwise it keeps its value -/
def idctAt (levels : Array Dct) (bpl spl : Nat) (orig : Array Nat) (k : Nat) : Nat :=
  if k / spl < orig.size / spl ∧ k % spl / 8 < bpl ∧ k / spl / 8 < levels.size / bpl then
    blockAt levels[k % spl / 8 + k / spl / 8 * bpl]? (k % spl % 8) (k / spl % 8) (orig.getD k 0)
  else orig.getD k 0

theorem idctChannel_spec (levels : Array Dct) (output : Array Nat) (bpl spl : Nat) (hb : 1 ≤ bpl) (hs : 1 ≤ spl) (r : Array Nat)
    (h : idctChannel levels output bpl spl = .ok r) :
    r.size = output.size ∧ ∀ k, r.getD k 0 = idctAt levels bpl spl output k := by
  unfold idctChannel at h
  rw [if_neg (by omega), if_neg (by omega)] at h
  simp only at h
  have hD := tiles output.size
    (fun yb o => (List.range bpl).foldlM (init := o) fun o xb =>
      match levels[xb + yb * bpl]? with
      | none => .ok o
      | some b =>
        match blockResidual b with
        | none => .ok o
        | some (res, bad) =>
          if bad then .panic "model gap: f32 value outside the normal range" else
          addBlock o spl xb yb (min 8 (spl - xb * 8)) (min 8 (output.size / spl - yb * 8)) res)
    (fun yb k => k / spl < output.size / spl ∧ k / spl / 8 = yb ∧ k % spl / 8 < bpl)
    (fun yb k old => blockAt levels[k % spl / 8 + yb * bpl]? (k % spl % 8) (k / spl % 8) old)
    (List.range (levels.size / bpl))
    (by
      intro yb _ t t' ht hrow
      have hC := tiles output.size
        (fun xb o => match levels[xb + yb * bpl]? with
          | none => .ok o
          | some b =>
            match blockResidual b with
            | none => .ok o
            | some (res, bad) =>
              if bad then .panic "model gap: f32 value outside the normal range" else
              addBlock o spl xb yb (min 8 (spl - xb * 8)) (min 8 (output.size / spl - yb * 8)) res)
        (fun xb k => k / spl < output.size / spl ∧ k / spl / 8 = yb ∧ k % spl / 8 = xb)
        (fun xb k old => blockAt levels[xb + yb * bpl]? (k % spl % 8) (k / spl % 8) old)
        (List.range bpl)
        (by
          intro xb _ a a' ha hblk
          cases hl : levels[xb + yb * bpl]? with
          | none =>
            rw [hl] at hblk
            simp only [Out.ok.injEq] at hblk
            subst hblk
            exact ⟨ha, fun _ _ => rfl, fun k _ => by simp [blockAt]⟩
          | some b =>
            rw [hl] at hblk
            simp only at hblk
            cases hres : blockResidual b with
            | none =>
              rw [hres] at hblk
              simp only [Out.ok.injEq] at hblk
              subst hblk
              exact ⟨ha, fun _ _ => rfl, fun k _ => by simp [blockAt, hres]⟩
            | some rb =>
              obtain ⟨res, bad⟩ := rb
              rw [hres] at hblk
              simp only at hblk
              cases bad with
              | true => simp at hblk
              | false =>
                simp only [Bool.false_eq_true, ↓reduceIte] at hblk
                obtain ⟨s, g⟩ := addBlock_spec output.size spl xb yb _ _ (by omega) res a a' ha hblk
                refine ⟨s, fun k hk => ?_, fun k hk => ?_⟩
                · rw [g k, if_neg]
                  intro hin
                  apply hk
                  have := Nat.mod_lt k (show 0 < spl by omega)
                  omega
                · have := Nat.mod_lt k (show 0 < spl by omega)
                  rw [g k, if_pos (by omega)]
                  simp only [blockAt, hres]
                  have e1 : k % spl - xb * 8 = k % spl % 8 := by omega
                  have e2 : k / spl - yb * 8 = k / spl % 8 := by omega
                  rw [e1, e2])
        (range_disjoint bpl _ (by intro a b k hab ⟨h1, h2⟩; omega))
        t t' ht hrow
      obtain ⟨s, u, v⟩ := hC
      refine ⟨s, fun k hk => u k (fun xb hxb hR => ?_), fun k hk => ?_⟩
      · rw [List.mem_range] at hxb
        exact hk ⟨hR.1, hR.2.1, by omega⟩
      · have := v k (k % spl / 8) (by rw [List.mem_range]; exact hk.2.2) ⟨hk.1, hk.2.1, rfl⟩
        exact this)
    (range_disjoint _ _ (by intro a b k hab ⟨h1, h2⟩; omega))
    output r rfl h
  obtain ⟨s, u, v⟩ := hD
  refine ⟨s, fun k => ?_⟩
  unfold idctAt
  by_cases hin : k / spl < output.size / spl ∧ k % spl / 8 < bpl ∧ k / spl / 8 < levels.size / bpl
  · rw [if_pos hin]
    exact v k (k / spl / 8) (by rw [List.mem_range]; exact hin.2.2) ⟨hin.1, rfl, hin.2.1⟩
  · rw [if_neg hin]
    apply u
    intro yb hyb hR
    rw [List.mem_range] at hyb
    exact hin ⟨hR.1, hR.2.2, by omega⟩

end H263V.Lemmas.IdctSpec
