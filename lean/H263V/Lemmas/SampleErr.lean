/-
The literal statement of C02 for one plane: every sample of an intra picture is within one of the H.263 reconstruction — the
reference inverse transform (exact arithmetic, nearest integer, clipped to -256..255) of the 64 dequantised levels of the block
covering the sample, clipped to 0..255.
-/
import H263V.Lemmas.IdctErr
import H263V.Lemmas.ReconSpec
import H263V.Lemmas.DecodeTotal
namespace H263V.Lemmas.SampleErr
open H263V H263V.Idct H263V.Rle H263V.Spec.AnnexA H263V.Lemmas.F32Range H263V.Lemmas.IdctSpec H263V.Lemmas.ReconSpec
open H263V.Lemmas.RlePlacement

/-- the H.263 reconstruction of sample (x, y) of a block over prediction `old`: reference transform of the block's 64 levels -/
def idealAt (b : Option Dct) (x y : Nat) (old : Nat) : Nat :=
  match b with
  | some .zero => old      -- all levels zero: the reference transform is zero and nothing is added
  | some b => clampU8 ((refIdct (expand b).toArray).getD (8 * y + x) 0 + (old : Int))
  | none => old

theorem clampU8_close (a b : Int) (h : (a - b).natAbs ≤ 1) (old : Nat) :
    ((clampU8 (a + (old : Int)) : Int) - (clampU8 (b + (old : Int)) : Int)).natAbs ≤ 1 := by
  unfold clampU8
  split <;> split <;> (try split) <;> (try split) <;> omega

/-- one sample: what `idct_channel` writes is within one of the ideal reconstruction over the same prediction -/
theorem blockAt_close (b : Option Dct) (hb : ∀ d, b = some d → Dct.Bounded d) (x y : Nat) (hx : x < 8) (hy : y < 8) (old : Nat) :
    ((blockAt b x y old : Int) - (idealAt b x y old : Int)).natAbs ≤ 1 := by
  unfold blockAt
  cases b with
  | none => simp [idealAt]
  | some d =>
    simp only
    cases d with
    | zero => simp [idealAt, blockResidual]
    | dc v =>
      cases hres : blockResidual (.dc v) with
      | none => simp [blockResidual] at hres
      | some rb =>
        obtain ⟨res, bad⟩ := rb
        simp only [idealAt]
        exact clampU8_close _ _ (IdctErr.residual_within_one _ (hb _ rfl) res bad hres x y hx hy) old
    | horiz r =>
      cases hres : blockResidual (.horiz r) with
      | none => simp [blockResidual] at hres
      | some rb =>
        obtain ⟨res, bad⟩ := rb
        simp only [idealAt]
        exact clampU8_close _ _ (IdctErr.residual_within_one _ (hb _ rfl) res bad hres x y hx hy) old
    | vert c =>
      cases hres : blockResidual (.vert c) with
      | none => simp [blockResidual] at hres
      | some rb =>
        obtain ⟨res, bad⟩ := rb
        simp only [idealAt]
        exact clampU8_close _ _ (IdctErr.residual_within_one _ (hb _ rfl) res bad hres x y hx hy) old
    | full f =>
      cases hres : blockResidual (.full f) with
      | none => simp [blockResidual] at hres
      | some rb =>
        obtain ⟨res, bad⟩ := rb
        simp only [idealAt]
        exact clampU8_close _ _ (IdctErr.residual_within_one _ (hb _ rfl) res bad hres x y hx hy) old

/-- the H.263 reconstruction of sample `k` of a plane: `idctVal` with the reference transform in place of the decoder's -/
def idealVal (levels : Array Dct) (bpl spl size : Nat) (k : Nat) (old : Nat) : Nat :=
  if k / spl < size / spl ∧ k % spl / 8 < bpl ∧ k / spl / 8 < levels.size / bpl then
    idealAt levels[k % spl / 8 + k / spl / 8 * bpl]? (k % spl % 8) (k / spl % 8) old
  else old

/-- every stored block has entries of magnitude at most 2048 (what dequantisation and INTRADC reconstruction produce: C11) -/
def AllBounded (levels : Array Dct) : Prop := ∀ (i : Nat) (d : Dct), levels[i]? = some d → Dct.Bounded d

/-- the invariant the totality proof (C01) maintains for the level arrays of the macroblock loop implies `AllBounded` -/
theorem allBounded_of_levels (n : Nat) (a : Array Dct) (h : DecodeTotal.Levels n a) : AllBounded a := by
  intro i d hd
  have hi : i < a.size := by
    rcases Nat.lt_or_ge i a.size with h1 | h1
    · exact h1
    · rw [Array.getElem?_eq_none h1] at hd; cases hd
  rw [Array.getElem?_eq_getElem hi] at hd
  cases hd
  exact h.2 i hi

/-- **one sample of one plane**: decoder's value within one of the ideal reconstruction over the same prediction -/
theorem idctVal_close (levels : Array Dct) (hb : AllBounded levels) (bpl spl size k old : Nat) :
    ((idctVal levels bpl spl size k old : Int) - (idealVal levels bpl spl size k old : Int)).natAbs ≤ 1 := by
  unfold idctVal idealVal
  split
  · exact blockAt_close _ (fun d hd => hb _ d hd) _ _ (Nat.mod_lt _ (by norm_num)) (Nat.mod_lt _ (by norm_num)) old
  · simp

open H263V.State H263V.Gather in
/-- **Every sample of an intra picture is within one of the H.263 reconstruction.**  For a picture without INTER macroblocks
whose level arrays hold bounded blocks, each sample of each plane of the reconstructed picture differs by at most one from
`clip 0..255 (initial value + reference inverse transform of the dequantised levels of the covering block)`. -/
theorem intra_close (types : Array MbType) (ref : Option DecPic) (mvs : Array Mv.Mv4) (m w : Nat) (pic out : DecPic)
    (lumaLv cbLv crLv : Array Dct) (hw : 1 ≤ w) (hc : 1 ≤ pic.chromaSpr) (hm : m ≠ 0)
    (hall : ∀ i, i < types.size → (types.getD i .inter).isInter = false)
    (hl : AllBounded lumaLv) (hb : AllBounded cbLv) (hr : AllBounded crLv)
    (h : reconstruct types ref mvs m w pic lumaLv cbLv crLv = .ok out) :
    (∀ k, ((out.luma.getD k 0 : Int) - (idealVal lumaLv (m * 2) w pic.luma.size k (pic.luma.getD k 0) : Int)).natAbs ≤ 1) ∧
    (∀ k, ((out.cb.getD k 0 : Int) - (idealVal cbLv m pic.chromaSpr pic.cb.size k (pic.cb.getD k 0) : Int)).natAbs ≤ 1) ∧
    (∀ k, ((out.cr.getD k 0 : Int) - (idealVal crLv m pic.chromaSpr pic.cr.size k (pic.cr.getD k 0) : Int)).natAbs ≤ 1) := by
  obtain ⟨⟨_, g1⟩, ⟨_, g2⟩, ⟨_, g3⟩⟩ := reconstruct_intra types ref mvs m w pic out lumaLv cbLv crLv hw hc hm hall h
  refine ⟨fun k => ?_, fun k => ?_, fun k => ?_⟩
  · rw [g1 k]; exact idctVal_close lumaLv hl _ _ _ _ _
  · rw [g2 k]; exact idctVal_close cbLv hb _ _ _ _ _
  · rw [g3 k]; exact idctVal_close crLv hr _ _ _ _ _

open H263V.State H263V.Gather H263V.Lemmas.GatherPic in
/-- **Every sample of a predicted picture is within one of `clip (prediction + ideal residual)`.** -/
theorem predicted_close (types : Array MbType) (r : DecPic) (mvs : Array Mv.Mv4) (m w hh : Nat) (pic out : DecPic)
    (lumaLv cbLv crLv : Array Dct)
    (hdims : r.fmt.dims = some (w, hh)) (hw : 1 ≤ w) (hc : 1 ≤ r.chromaSpr) (hcs : pic.chromaSpr = r.chromaSpr) (hm : m ≠ 0)
    (hls : pic.luma.size = r.luma.size) (hbs : pic.cb.size = r.cb.size) (hrs : pic.cr.size = r.cr.size)
    (hl : AllBounded lumaLv) (hb : AllBounded cbLv) (hr : AllBounded crLv)
    (h : reconstruct types (some r) mvs m w pic lumaLv cbLv crLv = .ok out) :
    (∀ k, ((out.luma.getD k 0 : Int) -
      (idealVal lumaLv (m * 2) w r.luma.size k (lumaAt types r mvs m w pic.luma k) : Int)).natAbs ≤ 1) ∧
    (∀ k, ((out.cb.getD k 0 : Int) -
      (idealVal cbLv m r.chromaSpr r.cb.size k (chromaAt types r.cb r.chromaSpr mvs m pic.cb k) : Int)).natAbs ≤ 1) ∧
    (∀ k, ((out.cr.getD k 0 : Int) -
      (idealVal crLv m r.chromaSpr r.cr.size k (chromaAt types r.cr r.chromaSpr mvs m pic.cr k) : Int)).natAbs ≤ 1) := by
  obtain ⟨⟨_, g1⟩, ⟨_, g2⟩, ⟨_, g3⟩⟩ :=
    reconstruct_pointwise types r mvs m w hh pic out lumaLv cbLv crLv hdims hw hc hcs hm hls hbs hrs h
  refine ⟨fun k => ?_, fun k => ?_, fun k => ?_⟩
  · rw [g1 k]; exact idctVal_close lumaLv hl _ _ _ _ _
  · rw [g2 k]; exact idctVal_close cbLv hb _ _ _ _ _
  · rw [g3 k]; exact idctVal_close crLv hr _ _ _ _ _

end H263V.Lemmas.SampleErr
