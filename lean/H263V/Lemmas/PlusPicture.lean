/-
H.263v2 pictures (PLUSPTYPE headers, I and P pictures in the plain macroblock syntax): `decode_next_picture` on the bits of a
valid picture description commits exactly the bit-free semantic result and leaves the reader exactly behind the picture.
-/
import H263V.Lemmas.SorensonPicture
import H263V.Lemmas.PlusHeader
namespace H263V.Lemmas.PlusPicture
open H263V H263V.State H263V.Mb H263V.Spec.Vlc H263V.Spec.Syntax H263V.Spec.HeaderSpec
open H263V.Lemmas.RoundTrip H263V.Lemmas.PictureRoundTrip H263V.Lemmas.SorensonPicture H263V.Lemmas.PlusRoundTrip

structure PPic where
  hdr : PlusHdr
  mbs : List MbD

/-- the header record a decoder in state `s` must produce for `p` -/
def PPic.picture (s : State) (p : PPic) : PicHdr :=
  plusPicture s.opts.scalability (Header.prevOptions (s.getLast.map (·.hdr))) p.hdr

/-- TRPI / TRP / BCI are present iff reference picture selection is in force (signalled now or inherited) -/
def PPic.rin (s : State) (p : PPic) : Bool :=
  Opt.has (oppInForce (s.getLast.map (·.hdr)) p.hdr) Opt.REFERENCE_PICTURE_SELECTION

def PPic.bits (s : State) (p : PPic) : Bits :=
  encodePlusHdr s.opts.scalability (p.rin s) p.hdr ++ p.mbs.flatMap (encodeMb (p.hdr.picType == 0))

structure PPic.Valid (s : State) (p : PPic) (w h : Nat) : Prop where
  hdr : PlusRoundTrip.Valid s.opts.scalability (s.getLast.map (·.hdr)) p.hdr
  ptype : p.hdr.picType ≤ 1
  /-- the options in force for this picture keep the macroblock layer in the plain syntax: no modified quantization
  (the decoder rejects it) and no PLUSPTYPE unrestricted-motion-vector coding of MVDs -/
  nomq : Opt.has (nextRunning (p.picture s) s.running) Opt.MODIFIED_QUANTIZATION = false
  noumv : Opt.has (nextRunning (p.picture s) s.running) Opt.UNRESTRICTED_MOTION_VECTORS = false
  dims : dimsOf s (p.picture s) = some (w, h)
  count : p.mbs.length = (w + 15) / 16 * ((h + 15) / 16)
  mbs : ∀ m ∈ p.mbs, MbOK s.opts (p.picture s) (p.hdr.picType == 0) m

theorem flag_toNat (b : Bool) (F : Nat) : flag b F = F * b.toNat := by cases b <;> simp [flag]

/-- with UFEP = 001 the two conditions on the options in force are conditions on the header's own OPPTYPE bits -/
theorem plain_of_ufep (s : State) (p : PPic) (hu : p.hdr.ufep = true) :
    Opt.has (nextRunning (p.picture s) s.running) Opt.MODIFIED_QUANTIZATION = p.hdr.mq ∧
    Opt.has (nextRunning (p.picture s) s.running) Opt.UNRESTRICTED_MOTION_VECTORS = p.hdr.umv := by
  have hn : nextRunning (p.picture s) s.running = (p.picture s).options := by
    unfold nextRunning PPic.picture plusPicture; simp [hu]
  rw [hn]
  unfold PPic.picture
  generalize p.hdr = h at hu ⊢
  obtain ⟨_, o3lt⟩ := o3_eq h.split h.docCamera h.freezeRelease
  have e12 : Opt.MODIFIED_QUANTIZATION = 2 ^ 12 := rfl
  have e3 : Opt.UNRESTRICTED_MOTION_VECTORS = 2 ^ 3 := rfl
  have hopt : (plusPicture s.opts.scalability (Header.prevOptions (s.getLast.map (·.hdr))) h).options =
      o3 h + oppOptions h + flag h.rpr Opt.REFERENCE_PICTURE_RESAMPLING + flag h.rru Opt.REDUCED_RESOLUTION_UPDATE +
        flag h.rtype Opt.ROUNDING_TYPE_ONE := by
    unfold plusPicture o3; simp [hu]
  rw [hopt, e12, e3, has_pow, has_pow]
  unfold oppOptions o3 at *
  simp only [flag_toNat, Opt.USE_SPLIT_SCREEN, Opt.USE_DOCUMENT_CAMERA, Opt.RELEASE_FULL_PICTURE_FREEZE,
    Opt.UNRESTRICTED_MOTION_VECTORS, Opt.SYNTAX_BASED_ARITHMETIC_CODING, Opt.ADVANCED_PREDICTION, Opt.ADVANCED_INTRA_CODING,
    Opt.DEBLOCKING_FILTER, Opt.SLICE_STRUCTURED, Opt.REFERENCE_PICTURE_SELECTION, Opt.INDEPENDENT_SEGMENT_DECODING,
    Opt.ALTERNATIVE_INTER_VLC, Opt.MODIFIED_QUANTIZATION, Opt.REFERENCE_PICTURE_RESAMPLING, Opt.REDUCED_RESOLUTION_UPDATE,
    Opt.ROUNDING_TYPE_ONE] at *
  have b1 := Bool.toNat_le h.split; have b2 := Bool.toNat_le h.docCamera; have b3 := Bool.toNat_le h.freezeRelease
  have b4 := Bool.toNat_le h.umv; have b5 := Bool.toNat_le h.sac; have b6 := Bool.toNat_le h.ap
  have b7 := Bool.toNat_le h.aic; have b8 := Bool.toNat_le h.df; have b9 := Bool.toNat_le h.ss
  have b10 := Bool.toNat_le h.rps; have b11 := Bool.toNat_le h.isd; have b12 := Bool.toNat_le h.aiv
  have b13 := Bool.toNat_le h.rpr; have b14 := Bool.toNat_le h.rru; have b15 := Bool.toNat_le h.rtype
  cases h.mq <;> cases h.umv <;>
    simp only [Bool.toNat_false, Bool.toNat_true, decide_eq_true_eq, decide_eq_false_iff_not] <;> omega

theorem plus_ctx (s : State) (p : PPic) (w h : Nat) (hv : p.Valid s w h) :
    HdrCtx (p.picture s) (nextRunning (p.picture s) s.running) (p.hdr.picType == 0) := by
  have hpt : p.hdr.picType = 0 ∨ p.hdr.picType = 1 := by have := hv.ptype; omega
  refine ⟨?_, hv.nomq, ?_⟩
  · rcases hpt with e | e <;> simp [PPic.picture, plusPicture, e]
  · rw [hv.noumv]; rfl

/-- **PLUSPTYPE picture round trip**, in any decoder state in standard mode. -/
theorem decode_ppic (s : State) (hs : s.opts.sorenson = false) (p : PPic) (w h : Nat) (hv : p.Valid s w h)
    (rest : Bits) (pos : Nat) :
    decodeNextPicture s ⟨p.bits s ++ rest, pos⟩ =
      semCore s (p.picture s) p.mbs >>= fun r => .ok (commitPic s r.1 r.2, ⟨rest, pos + (p.bits s).length⟩) := by
  unfold decodeNextPicture PPic.bits
  rw [List.append_assoc]
  have hopts : s.opts = { sorenson := false, scalability := s.opts.scalability } := by
    cases ho : s.opts; rw [ho] at hs; simp only at hs; rw [hs]
  rw [decodeCore_encode s (encodePlusHdr s.opts.scalability (p.rin s) p.hdr) (p.picture s) (p.hdr.picType == 0) p.mbs w h
    (fun r q => by rw [hopts]; exact PlusHeader.plus_round_trip _ _ p.hdr hv.hdr r q)
    hv.dims hv.count (plus_ctx s p w h hv) hv.mbs rest pos]
  cases semCore s (p.picture s) p.mbs with
  | ok r => simp [Nat.add_assoc]
  | err e => rfl
  | panic m => rfl
  | fuel => rfl

end H263V.Lemmas.PlusPicture
