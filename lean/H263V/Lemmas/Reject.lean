/-
Rejections: every header section that carries a fixed marker (or a reserved code) fails on every value that violates it.  An error in
a section is the error of the whole header parse (the parser is a chain of binds and an error carries no cursor), and the reader is
rolled back by the enclosing transaction (C14 / C05).
-/
import H263V.Lemmas.PlusRoundTrip
namespace H263V.Lemmas.Reject
open H263V H263V.Spec.Vlc H263V.Spec.Syntax H263V.Lemmas.BitsLemmas H263V.Lemmas.ParseLemmas

/-- PTYPE bits 1-2 must be "10": any other pair is rejected, whatever the other six bits -/
theorem ptype_markers (v : Nat) (hv : v < 256) (hm : v &&& 0xC0 ≠ 0x80) (rest : Bits) (pos : Nat) :
    Header.decodePtype ⟨natBits 8 v ++ rest, pos⟩ = .err .invalidPType := by
  unfold Header.decodePtype readU8
  simp only [bind_apply]
  rw [readBits_natBits 8 8 v (by omega) (by omega)]
  simp only
  have : (v &&& 0xC0 != 0x80) = true := by simpa using hm
  rw [if_pos this]
  rfl

/-- the forbidden source format 000 in PTYPE is rejected -/
theorem ptype_format_zero (v : Nat) (hv : v < 256) (hm : v &&& 0xC0 = 0x80) (hf : v &&& 0x07 = 0) (rest : Bits) (pos : Nat) :
    Header.decodePtype ⟨natBits 8 v ++ rest, pos⟩ = .err .invalidPType := by
  unfold Header.decodePtype readU8
  simp only [bind_apply]
  rw [readBits_natBits 8 8 v (by omega) (by omega)]
  simp only
  have : (v &&& 0xC0 != 0x80) = false := by simp [hm]
  rw [this, hf]
  rfl

/-- UFEP codes other than 000 and 001 are rejected -/
theorem ufep_reserved (d : DecOpts) (po c : Nat) (h2 : 2 ≤ c) (h8 : c < 8) (rest : Bits) (pos : Nat) :
    Header.decodePlusptype d po ⟨natBits 3 c ++ rest, pos⟩ = .err .invalidPlusPType := by
  unfold Header.decodePlusptype
  simp only [bind_apply]
  rw [readBits_natBits 8 3 c (by omega) (by omega)]
  simp only
  rw [if_pos h2]
  rfl

/-- OPPTYPE bits 15-18 must be "1000" -/
theorem opptype_tail (d : DecOpts) (po opp : Nat) (ho : opp < 2 ^ 18) (hm : opp &&& 0xF ≠ 0x8) (rest : Bits) (pos : Nat) :
    Header.decodePlusptype d po ⟨natBits 3 1 ++ (natBits 18 opp ++ rest), pos⟩ = .err .invalidPlusPType := by
  unfold Header.decodePlusptype
  simp only [bind_apply]
  rw [readBits_natBits 8 3 1 (by omega) (by omega)]
  simp only [show ¬ (1 ≥ 2) by omega, ↓reduceIte, beq_self_eq_true, bind_apply]
  rw [readBits_natBits 32 18 opp (by omega) ho]
  simp only
  have : (opp &&& 0xF != 0x8) = true := by simpa using hm
  rw [if_pos this]
  rfl

/-- MPPTYPE bits 7-9 must be "001" (shown for UFEP = 000, where MPPTYPE follows directly) -/
theorem mpptype_tail (d : DecOpts) (po mpp : Nat) (hm9 : mpp < 2 ^ 9) (hm : mpp &&& 0x7 ≠ 0x1) (rest : Bits) (pos : Nat) :
    Header.decodePlusptype d po ⟨natBits 3 0 ++ (natBits 9 mpp ++ rest), pos⟩ = .err .invalidPlusPType := by
  unfold Header.decodePlusptype
  simp only [bind_apply]
  rw [readBits_natBits 8 3 0 (by omega) (by omega)]
  simp only [show ¬ (0 ≥ 2) by omega, ↓reduceIte, bind_apply, pure_apply, show (0 == 1) = false from rfl, Bool.false_eq_true]
  rw [readBits_natBits 16 9 mpp (by omega) hm9]
  simp only
  have : (mpp &&& 0x007 != 0x1) = true := by simpa using hm
  rw [if_pos this]
  rfl

/-- CPFMT: the marker bit between the width and height indications must be 1 -/
theorem cpfmt_marker (v : Nat) (hv : v < 2 ^ 23) (hm : v &&& 0x200 = 0) (rest : Bits) (pos : Nat) :
    Header.decodeCpfmt ⟨natBits 23 v ++ rest, pos⟩ = .err .formatInvalid := by
  unfold Header.decodeCpfmt
  simp only [bind_apply]
  rw [readBits_natBits 32 23 v (by omega) hv]
  simp only
  have : (v &&& 0x000200 == 0) = true := by simp [hm]
  rw [if_pos this]
  rfl

/-- CPFMT: the forbidden pixel aspect ratio code 0000 -/
theorem cpfmt_par_zero (v : Nat) (hv : v < 2 ^ 23) (hm : v &&& 0x200 ≠ 0) (hp : (v &&& 0x780000) >>> 19 = 0) (rest : Bits) (pos : Nat) :
    Header.decodeCpfmt ⟨natBits 23 v ++ rest, pos⟩ = .err .formatInvalid := by
  unfold Header.decodeCpfmt
  simp only [bind_apply]
  rw [readBits_natBits 32 23 v (by omega) hv]
  simp only
  have : (v &&& 0x000200 == 0) = false := by simp [hm]
  rw [this, hp]
  rfl

/-- UUI "00" is not a code -/
theorem uui_zero_zero (rest : Bits) (pos : Nat) : Header.decodeUui ⟨false :: false :: rest, pos⟩ = .err .invalidBitstream := by
  have := readBits_natBits 8 1 0 (by omega) (by omega) (false :: rest) pos
  have e : natBits 1 0 = [false] := by decide
  rw [e] at this
  have := readBits_natBits 8 1 0 (by omega) (by omega) rest (pos + 1)
  unfold Header.decodeUui
  simp only [bind_apply]
  rename_i h1
  rw [show (false :: false :: rest) = [false] ++ (false :: rest) from rfl, h1]
  simp only [show (0 == 1) = false from rfl, Bool.false_eq_true, ↓reduceIte, bind_apply]
  rw [e] at this
  rw [show (false :: rest) = [false] ++ rest from rfl, this]
  rfl

/-- BCI = "1": a back-channel message follows — not implemented, reported as such -/
theorem bci_one (rest : Bits) (pos : Nat) : Header.decodeBcm ⟨true :: rest, pos⟩ = .err .unimplemented := by
  have h1 := readBits_natBits 8 1 1 (by omega) (by omega) rest pos
  have e : natBits 1 1 = [true] := by decide
  rw [e] at h1
  unfold Header.decodeBcm
  simp only [bind_apply]
  rw [show (true :: rest) = [true] ++ rest from rfl, h1]
  rfl

/-- BCI "00" is not a code -/
theorem bci_zero_zero (rest : Bits) (pos : Nat) : Header.decodeBcm ⟨false :: false :: rest, pos⟩ = .err .invalidBitstream := by
  have h1 := readBits_natBits 8 1 0 (by omega) (by omega) (false :: rest) pos
  have h2 := readBits_natBits 8 1 0 (by omega) (by omega) rest (pos + 1)
  have e : natBits 1 0 = [false] := by decide
  rw [e] at h1 h2
  unfold Header.decodeBcm
  simp only [bind_apply]
  rw [show (false :: false :: rest) = [false] ++ (false :: rest) from rfl, h1]
  simp only [show (0 == 1) = false from rfl, Bool.false_eq_true, ↓reduceIte, bind_apply]
  rw [show (false :: rest) = [false] ++ rest from rfl, h2]
  rfl

/-- an error in a section is the error of whatever continues from it -/
theorem bind_err {α β : Type} (p : P α) (f : α → P β) (c : Cur) (e : Err) (h : p c = .err e) : (p >>= f) c = .err e := by
  change P.bind p f c = _
  unfold P.bind
  rw [h]

end H263V.Lemmas.Reject
