import H263V.Model.Reader
import H263V.Lemmas.BitsLemmas
import H263V.Lemmas.ReaderLemmas
namespace H263V.Lemmas.PeekLoop
open H263V H263V.Lemmas.BitsLemmas

def byteBits (b : Nat) : Bits := (List.range 8).map fun k => (b / 2 ^ (7 - k)) % 2 == 1

theorem bytesToBits_cons (b : Nat) (rest : List Nat) : bytesToBits (b :: rest) = byteBits b ++ bytesToBits rest := by
  simp [bytesToBits, byteBits, List.flatMap_cons]

theorem byteBits_length (b : Nat) : (byteBits b).length = 8 := by simp [byteBits]

/-- the byte-level identity behind `peek_bits`: shifting a byte left by `off` (in a u8) and right by `8 - t` extracts bits
`off .. off + t` of the byte, MSB first — for all bytes, offsets and chunk widths (kernel-checked over the 256 x 8 x 9 cases) -/
theorem chunk_identity : ∀ b : Fin 256, ∀ off : Fin 8, ∀ t : Fin 9, off.val + t.val ≤ 8 → 1 ≤ t.val →
    ((b.val * 2 ^ off.val) % 256) / 2 ^ (8 - t.val) = ofBits ((byteBits b.val).drop off.val |>.take t.val) := by
  decide +kernel

theorem ofBits_append (l1 l2 : Bits) : ofBits (l1 ++ l2) = ofBits l1 * 2 ^ l2.length + ofBits l2 := by
  unfold ofBits
  rw [List.foldl_append, ofBits_foldl]
  rfl

theorem ofBits_lt (l : Bits) : ofBits l < 2 ^ l.length := by
  induction l with
  | nil => simp [ofBits]
  | cons b bs ih =>
    rw [ofBits_cons, List.length_cons, Nat.pow_succ]
    cases b <;> simp <;> omega

end H263V.Lemmas.PeekLoop

namespace H263V.Lemmas.PeekLoop
open H263V H263V.Lemmas.BitsLemmas H263V.Lemmas.ReaderLemmas

theorem lor_add (a t c : Nat) (hc : c < 2 ^ t) : (a * 2 ^ t) ||| c = a * 2 ^ t + c := by
  have := Nat.shiftLeft_add_eq_or_of_lt hc a
  rw [Nat.shiftLeft_eq] at this
  exact this.symm

theorem accumLoop_spec (W : Nat) :
    ∀ (bytes : List Nat) (accum off needed k : Nat),
      (∀ b ∈ bytes, b < 256) → off < 8 → off + needed ≤ 8 * bytes.length → accum < 2 ^ k → k + needed ≤ W →
      Reader.accumLoop W bytes accum off needed =
        (accum * 2 ^ needed + ofBits (((bytesToBits bytes).drop off).take needed), 0) := by
  intro bytes
  induction bytes with
  | nil =>
    intro accum off needed k _ _ hlen _ _
    have : needed = 0 := by simp at hlen; omega
    subst this
    simp [Reader.accumLoop, bytesToBits, ofBits]
  | cons b rest ih =>
    intro accum off needed k hb hoff hlen hacc hk
    unfold Reader.accumLoop
    by_cases h0 : needed = 0
    · subst h0; simp [ofBits]
    · simp only [h0, ↓reduceIte]
      have hb256 : b < 256 := hb b (by simp)
      have ht1 : 1 ≤ min (8 - off) needed := by omega
      have ht8 : ¬ (8 - min (8 - off) needed ≥ 8) := by omega
      simp only [ht8, ↓reduceIte]
      have hchunk := chunk_identity ⟨b, hb256⟩ ⟨off, hoff⟩ ⟨min (8 - off) needed, by omega⟩ (by simp; omega) (by simpa using ht1)
      simp only at hchunk
      rw [hchunk]
      -- abbreviations
      generalize ht : min (8 - off) needed = t at *
      have hA : ((byteBits b).drop off).length = 8 - off := by simp [byteBits_length]
      have hclt : ofBits (((byteBits b).drop off).take t) < 2 ^ t := by
        have := ofBits_lt (((byteBits b).drop off).take t)
        have hl : (((byteBits b).drop off).take t).length = t := by simp [hA]; omega
        rwa [hl] at this
      -- the new accumulator
      have hacc' : (if t < W then (accum * 2 ^ t) % 2 ^ W ||| ofBits (((byteBits b).drop off).take t)
                    else ofBits (((byteBits b).drop off).take t)) = accum * 2 ^ t + ofBits (((byteBits b).drop off).take t) := by
        by_cases htw : t < W
        · simp only [htw, ↓reduceIte]
          have hlt : accum * 2 ^ t < 2 ^ W := by
            have h1 : accum * 2 ^ t < 2 ^ k * 2 ^ t := Nat.mul_lt_mul_of_pos_right hacc (Nat.pow_pos (by omega))
            have h2 : 2 ^ k * 2 ^ t = 2 ^ (k + t) := by rw [Nat.pow_add]
            have h3 : 2 ^ (k + t) ≤ 2 ^ W := Nat.pow_le_pow_right (by omega) (by omega)
            omega
          rw [Nat.mod_eq_of_lt hlt, lor_add _ _ _ hclt]
        · simp only [htw, ↓reduceIte]
          have : k = 0 := by omega
          subst this
          have : accum = 0 := by simpa using hacc
          subst this
          simp
      rw [hacc']
      have hacc2 : accum * 2 ^ t + ofBits (((byteBits b).drop off).take t) < 2 ^ (k + t) := by
        have h1 : accum + 1 ≤ 2 ^ k := hacc
        have h2 : (accum + 1) * 2 ^ t ≤ 2 ^ k * 2 ^ t := Nat.mul_le_mul_right _ h1
        rw [Nat.add_mul, Nat.one_mul, ← Nat.pow_add] at h2
        omega
      rw [ih _ 0 (needed - t) (k + t) (fun x hx => hb x (by simp [hx])) (by omega) (by simp at hlen ⊢; omega) hacc2 (by omega)]
      congr 1
      -- the bits
      rw [bytesToBits_cons, List.drop_append_of_le_length (by simp [byteBits_length]; omega), List.take_append, hA]
      have e1 : ((byteBits b).drop off).take needed = ((byteBits b).drop off).take t := by
        rw [← ht]
        by_cases hle : needed ≤ 8 - off
        · rw [Nat.min_eq_right hle]
        · rw [Nat.min_eq_left (by omega), List.take_of_length_le (by omega), List.take_of_length_le (by omega)]
      have e2 : (bytesToBits rest).take (needed - (8 - off)) = ((bytesToBits rest).drop 0).take (needed - t) := by
        rw [List.drop_zero, ← ht]
        by_cases hle : needed ≤ 8 - off
        · rw [Nat.min_eq_right hle]; simp [show needed - (8 - off) = 0 by omega]
        · rw [Nat.min_eq_left (by omega)]
      rw [e1, e2, ofBits_append]
      have hl2 : (((bytesToBits rest).drop 0).take (needed - t)).length = needed - t := by
        simp [bytesToBits_length]; simp at hlen; omega
      rw [hl2]
      have hp : 2 ^ needed = 2 ^ t * 2 ^ (needed - t) := by rw [← Nat.pow_add]; congr 1; omega
      rw [hp, Nat.add_mul, Nat.mul_assoc, Nat.add_assoc]

end H263V.Lemmas.PeekLoop

namespace H263V.Lemmas.PeekLoop
open H263V H263V.Lemmas.BitsLemmas H263V.Lemmas.ReaderLemmas

theorem bufferBytes_ok_iff (n : Nat) : ∀ r : Reader.Rd, ((Reader.bufferBytes n r).1 = .ok () ↔ n ≤ r.src.length) := by
  induction n with
  | zero => intro r; simp [Reader.bufferBytes]
  | succ n ih =>
    intro r
    unfold Reader.bufferBytes
    cases hs : r.src with
    | nil => simp
    | cons b rest => simp only [List.length_cons]; rw [ih]; simp

theorem bits_length (r : Reader.Rd) (h : r.WF) : r.bits.length = 8 * (r.buf.length + r.src.length) - r.bitsRead := by
  rw [bits_eq]; simp [bytesToBits_length, total]

theorem ensureBits_ok_iff (n : Nat) (r : Reader.Rd) (h : r.WF) : ((Reader.ensureBits n r).1 = .ok () ↔ n ≤ r.bits.length) := by
  unfold Reader.ensureBits
  rw [bufferBytes_ok_iff, bits_length r h]
  unfold Reader.neededBytes
  unfold Reader.Rd.WF at h
  simp only
  split <;> omega

/-- `peek_bits::<T>(n)` for a `W`-bit `T`: for `1 ≤ n ≤ W` it returns the MSB-first value of the next `n` bits when that many
remain, and end-of-data otherwise; in both cases nothing is consumed and no byte is lost. -/
theorem peekBits_spec (W n : Nat) (r : Reader.Rd) (h : r.WF) (hb : ∀ b ∈ total r, b < 256) (hn : 1 ≤ n) (hW : n ≤ W) :
    (n ≤ r.bits.length → (Reader.peekBits W n r).1 = .ok (ofBits (r.bits.take n))) ∧
    (r.bits.length < n → (Reader.peekBits W n r).1 = .err .eof) ∧
    (Reader.peekBits W n r).2.bits = r.bits ∧ (Reader.peekBits W n r).2.WF ∧ total (Reader.peekBits W n r).2 = total r ∧
    (Reader.peekBits W n r).2.bitsRead = r.bitsRead ∧ r.buf.length ≤ (Reader.peekBits W n r).2.buf.length := by
  unfold Reader.peekBits
  have h1 : ¬ (n - 1 ≥ W) := by omega
  have h2 : ¬ (n = 0) := by omega
  simp only [h1, h2, ↓reduceIte]
  obtain ⟨hbits, hbr, htot⟩ := ensureBits_bits n r
  have hwf := ensureBits_wf n r h
  have hiff := ensureBits_ok_iff n r h
  have hgrow : r.buf.length ≤ (Reader.ensureBits n r).2.buf.length := (bufferBytes_total _ r).2.2
  rcases (show (Reader.ensureBits n r).1 = .ok () ∨ (Reader.ensureBits n r).1 = .err .eof from bufferBytes_result _ r) with hok | herr
  · have hen := ensureBits_ok n r h hok
    have hle := hiff.mp hok
    cases he : Reader.ensureBits n r with
    | mk o r' =>
      rw [he] at hok hbits hbr htot hwf hen hgrow
      simp only at hok hbits hbr htot hwf hen hgrow
      subst hok
      simp only
      have hb' : ∀ b ∈ r'.buf.drop (r'.bitsRead / 8), b < 256 := by
        intro b hm
        apply hb; rw [← htot]; unfold total
        exact List.mem_append_left _ (List.mem_of_mem_drop hm)
      have hspec := accumLoop_spec W (r'.buf.drop (r'.bitsRead / 8)) 0 (r'.bitsRead % 8) n 0 hb' (by omega)
        (by simp only [List.length_drop]; omega) (by simp) (by omega)
      rw [hspec]
      simp only [↓reduceIte, Nat.zero_mul, Nat.zero_add]
      refine ⟨fun _ => ?_, fun hlt => by omega, hbits, hwf, htot, hbr, hgrow⟩
      congr 1
      -- the bits peeked are the next n bits of the reader
      rw [← hbits, bits_eq]
      unfold total
      have e1 : (bytesToBits (r'.buf.drop (r'.bitsRead / 8))).drop (r'.bitsRead % 8) = (bytesToBits r'.buf).drop r'.bitsRead := by
        rw [← bytesToBits_drop, List.drop_drop]; congr 1; omega
      rw [e1]
      have e2 : bytesToBits (r'.buf ++ r'.src) = bytesToBits r'.buf ++ bytesToBits r'.src := by
        simp [bytesToBits]
      rw [e2, List.drop_append_of_le_length (by rw [bytesToBits_length]; omega), List.take_append]
      have : n - ((bytesToBits r'.buf).drop r'.bitsRead).length = 0 := by
        simp only [List.length_drop, bytesToBits_length]; omega
      rw [this]; simp
  · have hnot : ¬ n ≤ r.bits.length := by
      intro hle; have := hiff.mpr hle; rw [this] at herr; simp at herr
    cases he : Reader.ensureBits n r with
    | mk o r' =>
      rw [he] at herr hbits hbr htot hwf hgrow
      simp only at herr hbits hbr htot hwf hgrow
      subst herr
      simp only
      exact ⟨fun hle => absurd hle hnot, fun _ => trivial, hbits, hwf, htot, hbr, hgrow⟩

end H263V.Lemmas.PeekLoop

namespace H263V.Lemmas.PeekLoop
open H263V H263V.Lemmas.BitsLemmas H263V.Lemmas.ReaderLemmas

/-- the specification-machine view of a reader -/
def absC (r : Reader.Rd) : Cur := ⟨r.bits, r.bitsRead⟩

/-- all source bytes are bytes -/
def ByteSrc (r : Reader.Rd) : Prop := ∀ b ∈ total r, b < 256

/-- relation kept by every operation that does not commit: well-formed, bytes, same byte sequence, buffer only grows -/
structure Step (r r' : Reader.Rd) : Prop where
  wf : r'.WF
  tot : total r' = total r
  grow : r.buf.length ≤ r'.buf.length

theorem peek_refines (W n : Nat) (hW1 : 1 ≤ W) (r : Reader.Rd) (h : r.WF) (hb : ByteSrc r) :
    (Reader.peekBits W n r).1 = H263V.peekBits W n (absC r) ∧ absC (Reader.peekBits W n r).2 = absC r ∧
      Step r (Reader.peekBits W n r).2 := by
  by_cases hW : n > W
  · have h1 : n - 1 ≥ W := by omega
    simp [Reader.peekBits, H263V.peekBits, h1, hW, absC]
    exact ⟨h, rfl, Nat.le_refl _⟩
  · by_cases h0 : n = 0
    · subst h0
      have : ¬ (0 - 1 ≥ W) := by omega
      simp [Reader.peekBits, H263V.peekBits, absC, this]
      exact ⟨h, rfl, Nat.le_refl _⟩
    · obtain ⟨s1, s2, s3, s4, s5, s6, s7⟩ := peekBits_spec W n r h hb (by omega) (by omega)
      refine ⟨?_, ?_, ⟨s4, s5, s7⟩⟩
      · unfold H263V.peekBits
        simp only [hW, h0, ↓reduceIte, absC]
        by_cases hl : r.bits.length < n
        · simp only [hl, ↓reduceIte]; exact s2 hl
        · simp only [hl, ↓reduceIte]; exact s1 (by omega)
      · simp [absC, s3, s6]

theorem skip_refines (n : Nat) (r : Reader.Rd) (h : r.WF) :
    (match H263V.skipBits n (absC r) with
      | .ok (_, c') => (Reader.skipBits n r).1 = .ok () ∧ absC (Reader.skipBits n r).2 = c'
      | .err e => (Reader.skipBits n r).1 = .err e ∧ absC (Reader.skipBits n r).2 = absC r
      | _ => False) ∧ Step r (Reader.skipBits n r).2 := by
  have hgrow : r.buf.length ≤ (Reader.skipBits n r).2.buf.length := by
    unfold Reader.skipBits
    have := (bufferBytes_total (Reader.neededBytes r n) r).2.2
    cases he : Reader.ensureBits n r with
    | mk o r' =>
      unfold Reader.ensureBits at he
      rw [he] at this
      cases o <;> simpa using this
  rcases skipBits_spec n r h with ⟨h1, h2, h3, h4⟩ | ⟨h1, h2, h3, h4, h5⟩
  · have hlen : ¬ r.bits.length < n := by
      intro hlt
      -- success means n bits were available
      have := (ensureBits_ok_iff n r h).mp (by
        unfold Reader.skipBits at h1
        cases he : Reader.ensureBits n r with
        | mk o r' => rw [he] at h1; cases o <;> simp_all)
      omega
    refine ⟨?_, ⟨h3, h4, hgrow⟩⟩
    unfold H263V.skipBits
    simp only [absC, hlen, ↓reduceIte]
    refine ⟨h1, ?_⟩
    simp only [Cur.mk.injEq]
    refine ⟨h2, ?_⟩
    unfold Reader.skipBits
    have hbr := (ensureBits_bits n r).2.1
    cases he : Reader.ensureBits n r with
    | mk o r' =>
      rw [he] at hbr
      unfold Reader.skipBits at h1
      rw [he] at h1
      cases o <;> simp_all
  · have hlen : r.bits.length < n := by
      by_cases hl : n ≤ r.bits.length
      · have := (ensureBits_ok_iff n r h).mpr hl
        unfold Reader.skipBits at h1
        cases he : Reader.ensureBits n r with
        | mk o r' => rw [he] at h1 this; simp at this; subst this; simp at h1
      · omega
    refine ⟨?_, ⟨h3, h4, hgrow⟩⟩
    unfold H263V.skipBits
    simp only [absC, hlen, ↓reduceIte]
    exact ⟨h1, by simp [h2, h5]⟩

end H263V.Lemmas.PeekLoop

namespace H263V.Lemmas.PeekLoop
open H263V H263V.Lemmas.BitsLemmas H263V.Lemmas.ReaderLemmas

theorem Step.trans {a b c : Reader.Rd} (h1 : Step a b) (h2 : Step b c) : Step a c :=
  ⟨h2.wf, by rw [h2.tot, h1.tot], Nat.le_trans h1.grow h2.grow⟩

theorem byteSrc_step {r r' : Reader.Rd} (hb : ByteSrc r) (hs : Step r r') : ByteSrc r' := by
  unfold ByteSrc; rw [hs.tot]; exact hb

/-- `read_bits` refines the specification machine's read: same value and the bits advance by exactly `n`, or the same error
and nothing consumed. -/
theorem read_refines (W n : Nat) (hW1 : 1 ≤ W) (r : Reader.Rd) (h : r.WF) (hb : ByteSrc r) :
    (match H263V.readBits W n (absC r) with
      | .ok (v, c') => (Reader.readBits W n r).1 = .ok v ∧ absC (Reader.readBits W n r).2 = c'
      | .err e => (Reader.readBits W n r).1 = .err e ∧ absC (Reader.readBits W n r).2 = absC r
      | _ => False) ∧ Step r (Reader.readBits W n r).2 := by
  obtain ⟨p1, p2, p3⟩ := peek_refines W n hW1 r h hb
  unfold Reader.readBits H263V.readBits
  cases hp : Reader.peekBits W n r with
  | mk o r1 =>
    rw [hp] at p1 p2 p3
    simp only at p1 p2 p3
    rw [← p1]
    cases o with
    | ok v =>
      simp only
      obtain ⟨s1, s2⟩ := skip_refines n r1 p3.wf
      rw [p2] at s1
      cases hs : H263V.skipBits n (absC r) with
      | ok x =>
        obtain ⟨u, c'⟩ := x
        rw [hs] at s1
        simp only [Out.bind] at s1 ⊢
        cases hk : Reader.skipBits n r1 with
        | mk o2 r2 =>
          rw [hk] at s1 s2
          simp only at s1 s2
          obtain ⟨e1, e2⟩ := s1
          subst e1
          exact ⟨⟨rfl, e2⟩, p3.trans s2⟩
      | err e =>
        rw [hs] at s1
        simp only [Out.bind] at s1 ⊢
        cases hk : Reader.skipBits n r1 with
        | mk o2 r2 =>
          rw [hk] at s1 s2
          simp only at s1 s2
          obtain ⟨e1, e2⟩ := s1
          subst e1
          exact ⟨⟨rfl, e2⟩, p3.trans s2⟩
      | panic s => rw [hs] at s1; exact absurd s1 (by simp)
      | fuel => rw [hs] at s1; exact absurd s1 (by simp)
    | err e => simp only; exact ⟨⟨trivial, p2⟩, p3⟩
    | panic s =>
      exfalso
      have := p1
      unfold H263V.peekBits at this
      repeat' split at this
      all_goals simp at this
    | fuel =>
      exfalso
      have := p1
      unfold H263V.peekBits at this
      repeat' split at this
      all_goals simp at this

end H263V.Lemmas.PeekLoop
