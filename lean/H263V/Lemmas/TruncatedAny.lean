/-
A valid picture of any header flavour cut after any macroblock, followed by at most seven zero padding bits and the end of the data.
-/
import H263V.Lemmas.StreamAny
import H263V.Lemmas.Truncated
namespace H263V.Lemmas.TruncatedAny
open H263V H263V.State H263V.Mb H263V.Spec.Vlc H263V.Spec.Syntax H263V.Spec.HeaderSpec
open H263V.Lemmas.RoundTrip H263V.Lemmas.PictureRoundTrip H263V.Lemmas.SorensonPicture H263V.Lemmas.BasePicture
open H263V.Lemmas.PlusPicture H263V.Lemmas.StreamAny H263V.Lemmas.Truncated

/-- the picture description cut after its first `n` macroblocks -/
def cut (n : Nat) : Pic → Pic
  | .sor p => .sor { p with mbs := p.mbs.take n }
  | .base p => .base { p with mbs := p.mbs.take n }
  | .plus p => .plus { p with mbs := p.mbs.take n }

theorem cut_picture (s : State) (n : Nat) (p : Pic) : (cut n p).picture s = p.picture s := by cases p <;> rfl
theorem cut_mbs (n : Nat) (p : Pic) : (cut n p).mbs = p.mbs.take n := by cases p <;> rfl

/-- **Early end of data, every flavour.**  A valid picture cut after any number of macroblocks, followed by at most seven zero
padding bits and the end of the data: the call behaves as the bit-free semantics of the macroblocks that are there, which completes
the picture with not-coded macroblocks. -/
theorem decode_pic_truncated (s : State) (hr : s.running = 0) (p : Pic) (w h : Nat) (hv : p.Valid s w h) (n k : Nat) (hk : k ≤ 7)
    (pos : Nat) :
    decodeNextPicture s ⟨(cut n p).bits s ++ zeros k, pos⟩ =
      semCore s (p.picture s) (p.mbs.take n) >>= fun r =>
        .ok (commitPic s r.1 r.2, ⟨zeros k, pos + ((cut n p).bits s).length⟩) := by
  cases p with
  | sor p =>
    obtain ⟨hs, hv⟩ := hv
    have := decode_spic_truncated s hs hr { p with mbs := p.mbs.take n } w h hv.hdr hv.ptype hv.dims
      (by simp only [List.length_take]; have := hv.count; omega)
      (fun m hm => hv.mbs m (List.mem_of_mem_take hm)) k hk pos
    exact this
  | base p =>
    obtain ⟨hs, hv, hprev⟩ := hv
    unfold decodeNextPicture cut Pic.bits BPic.bits Pic.picture Pic.mbs
    simp only
    rw [List.append_assoc]
    have hctx : HdrCtx (basePicture p.hdr) (nextRunning (basePicture p.hdr) s.running) (!p.hdr.inter) := by
      rw [hr]; exact base_ctx p.hdr hv.nopb
    rw [decodeCore_encode_le s (encodeBaseHdr p.hdr) (basePicture p.hdr) (!p.hdr.inter) (p.mbs.take n) w h
      (fun r q => by
        rw [hs]
        exact BaseRoundTrip.round_trip p.hdr hv.hdr _ (by
          intro ph hph
          cases hl : s.getLast with
          | none => rw [hl] at hph; simp at hph
          | some q0 =>
            rw [hl] at hph
            simp only [Option.map_some, Option.some.injEq] at hph
            rw [← hph]; exact hprev q0 hl) r q)
      (by unfold dimsOf; simp only [basePicture]; exact hv.dims)
      (by simp only [List.length_take]; have := hv.count; omega) hctx
      (fun m hm => hv.mbs m (List.mem_of_mem_take hm)) (zeros k) (fun q => eof_tail _ _ _ hctx k hk q) pos]
    cases semCore s (basePicture p.hdr) (p.mbs.take n) with
    | ok r => simp [Nat.add_assoc]
    | err e => rfl
    | panic m => rfl
    | fuel => rfl
  | plus p =>
    obtain ⟨hs, hv⟩ := hv
    unfold decodeNextPicture cut Pic.bits PPic.bits Pic.picture Pic.mbs
    simp only
    rw [List.append_assoc]
    have hopts : s.opts = { sorenson := false, scalability := s.opts.scalability } := by
      cases ho : s.opts; rw [ho] at hs; simp only at hs; rw [hs]
    have hctx := plus_ctx s p w h hv
    have e1 : PPic.rin s { hdr := p.hdr, mbs := p.mbs.take n } = PPic.rin s p := rfl
    have e2 : PPic.picture s { hdr := p.hdr, mbs := p.mbs.take n } = PPic.picture s p := rfl
    rw [e1]
    rw [decodeCore_encode_le s (encodePlusHdr s.opts.scalability (p.rin s) p.hdr) (p.picture s) (p.hdr.picType == 0) (p.mbs.take n) w h
      (fun r q => by rw [hopts]; exact PlusHeader.plus_round_trip _ _ p.hdr hv.hdr r q)
      hv.dims (by simp only [List.length_take]; have := hv.count; omega) hctx
      (fun m hm => hv.mbs m (List.mem_of_mem_take hm)) (zeros k) (fun q => eof_tail _ _ _ hctx k hk q) pos]
    cases semCore s (p.picture s) (p.mbs.take n) with
    | ok r => simp [Nat.add_assoc]
    | err e => rfl
    | panic m => rfl
    | fuel => rfl

end H263V.Lemmas.TruncatedAny
