/-
End to end for predicted pictures: with a reference picture of the picture's dimensions, a valid predicted picture of any flavour
DECODES SUCCESSFULLY, to planes of the signalled sizes whose samples are within one of
clip(motion-compensated prediction + reference inverse transform of the covering block's levels).
-/
import H263V.Lemmas.IntraEnd
namespace H263V.Lemmas.InterEnd
open H263V H263V.State H263V.Mb H263V.Mv H263V.Rle H263V.Gather H263V.Spec.Vlc H263V.Spec.Syntax
open H263V.Lemmas.RoundTrip H263V.Lemmas.PictureRoundTrip H263V.Lemmas.DecodeTotal H263V.Lemmas.LevelArrays
open H263V.Lemmas.StreamAny H263V.Lemmas.SampleErr H263V.Lemmas.ReconSpec H263V.Lemmas.F32Range H263V.Lemmas.IntraEnd
open H263V.Lemmas.GatherPic H263V.Lemmas.PlaneInv

/-! ### more computations that never return an error value -/

theorem NoErr.foldlM_inv {α β : Type} (I : α → Prop) (f : α → β → Out α)
    (hf : ∀ a b, I a → NoErr (f a b) ∧ ∀ a', f a b = .ok a' → I a') :
    ∀ (l : List β) (a : α), I a → NoErr (l.foldlM f a) := by
  intro l
  induction l with
  | nil => intro a _; exact NoErr.ok a
  | cons b bs ih =>
    intro a ha
    rw [List.foldlM_cons]
    exact NoErr.bind (hf a b ha).1 (fun a' h => ih a' ((hf a b ha).2 a' h))

theorem predictCandidate_noErr (pv : Array Mv4) (cur : Mv4) (m index : Nat) : NoErr (predictCandidate pv cur m index) := by
  unfold predictCandidate
  split
  · intro e h; cases h
  · simp only
    refine NoErr.bind (x := (if index = 0 ∨ index = 2 then
        (if pv.size % m = 0 then Out.ok zeroMv else match pv[pv.size - 1]? with
          | some mm => Out.ok (mm.get (index + 1))
          | none => Out.panic "index out of bounds")
        else Out.ok (cur.get (index - 1)))) ?_ (fun _ _ => NoErr.ok _)
    split
    · split
      · exact NoErr.ok _
      · split
        · exact NoErr.ok _
        · intro e h; cases h
    · exact NoErr.ok _

theorem readSample_noErr (px : Array Nat) (spr rows : Nat) (x y : Int) : NoErr (readSample px spr rows x y) := by
  unfold readSample
  simp only
  split
  · exact NoErr.ok _
  · intro e h; cases h

theorem setChecked_noErr (t : Array Nat) (i v : Nat) : NoErr (setChecked t i v) := by
  unfold setChecked
  split
  · exact NoErr.ok _
  · intro e h; cases h

theorem gatherBlock_noErr (px : Array Nat) (spr : Nat) (pos : Nat × Nat) (mv : Mv) (target : Array Nat) :
    NoErr (gatherBlock px spr pos mv target) := by
  unfold gatherBlock
  split
  · intro e h; cases h
  · simp only
    split
    · split
      · refine IntraEnd.NoErr.foldlM _ (fun t j => ?_) _ _
        split
        · exact NoErr.ok _
        · intro e h; cases h
      · refine IntraEnd.NoErr.foldlM _ (fun t j => ?_) _ _
        refine IntraEnd.NoErr.foldlM _ (fun t i => ?_) _ _
        exact NoErr.bind (readSample_noErr _ _ _ _ _) (fun _ _ => setChecked_noErr _ _ _)
    · refine IntraEnd.NoErr.foldlM _ (fun t j => ?_) _ _
      refine IntraEnd.NoErr.foldlM _ (fun t i => ?_) _ _
      refine NoErr.bind (readSample_noErr _ _ _ _ _) (fun _ _ => ?_)
      refine NoErr.bind (readSample_noErr _ _ _ _ _) (fun _ _ => ?_)
      refine NoErr.bind (readSample_noErr _ _ _ _ _) (fun _ _ => ?_)
      refine NoErr.bind (readSample_noErr _ _ _ _ _) (fun _ _ => ?_)
      exact setChecked_noErr _ _ _

/-! ### the macroblock layer of a predicted picture -/

theorem codedMbSem_noErr (hdr : PicHdr) (dims : Option (Nat × Nat)) (running m : Nat) (l : Loop) (t : MbType)
    (dq : Option Int) (mv : Option Mv) (addl : Option (Mv × Mv × Mv)) (b : Nat → Block) :
    NoErr (codedMbSem hdr dims running m l t dq mv addl b) := by
  unfold codedMbSem
  refine NoErr.bind (updateQuant_noErr _ _) (fun q _ => ?_)
  refine NoErr.bind ?_ (fun mvs _ => ?_)
  · split
    · refine NoErr.bind (predictCandidate_noErr _ _ _ _) (fun p1 _ => ?_)
      cases addl with
      | none => exact NoErr.ok _
      | some a =>
        obtain ⟨mv2, mv3, mv4⟩ := a
        simp only
        refine NoErr.bind (predictCandidate_noErr _ _ _ _) (fun p2 _ => ?_)
        refine NoErr.bind (predictCandidate_noErr _ _ _ _) (fun p3 _ => ?_)
        refine NoErr.bind (predictCandidate_noErr _ _ _ _) (fun p4 _ => ?_)
        exact NoErr.ok _
    · exact NoErr.ok _
  refine NoErr.bind (inverseRle_noErr _ _ _ _ _) (fun l0 _ => ?_)
  refine NoErr.bind (inverseRle_noErr _ _ _ _ _) (fun l1 _ => ?_)
  refine NoErr.bind (inverseRle_noErr _ _ _ _ _) (fun l2 _ => ?_)
  refine NoErr.bind (inverseRle_noErr _ _ _ _ _) (fun l3 _ => ?_)
  refine NoErr.bind (inverseRle_noErr _ _ _ _ _) (fun l4 _ => ?_)
  refine NoErr.bind (inverseRle_noErr _ _ _ _ _) (fun l5 _ => ?_)
  exact NoErr.ok _

theorem semMb_noErr (hdr : PicHdr) (hp : hdr.picType ≠ .iFrame) (dims : Option (Nat × Nat)) (running m : Nat) (l : Loop) (mb : MbD) :
    NoErr (semMb hdr dims running m l mb) := by
  unfold semMb
  cases hk : mb.kind with
  | notCoded => simp only [hp, ↓reduceIte]; exact NoErr.ok _
  | coded t dq mvd mvd234 blocks => exact codedMbSem_noErr hdr dims running m l t _ _ _ _

theorem semMbs_noErr (hdr : PicHdr) (hp : hdr.picType ≠ .iFrame) (dims : Option (Nat × Nat)) (running m : Nat) :
    ∀ (mbs : List MbD) (l : Loop), NoErr (semMbs hdr dims running m mbs l) := by
  intro mbs
  induction mbs with
  | nil => intro l; exact NoErr.ok l
  | cons mb ms ih =>
    intro l
    unfold semMbs
    exact NoErr.bind (semMb_noErr hdr hp dims running m l mb) (fun l' _ => ih l')

/-! ### motion compensation against a reference of the picture's dimensions -/

theorem gather_noErr (types : Array MbType) (r : DecPic) (mvs : Array Mv4) (m : Nat) (pic : DecPic)
    (hd : r.fmt.dims = pic.fmt.dims) : NoErr (gather types (some r) mvs m pic) := by
  unfold gather
  refine NoErr.foldlM_inv (fun a => a.fmt = pic.fmt) _ (fun a i ha => ?_) _ pic rfl
  split
  · simp only
    have hne : (r.fmt.dims != a.fmt.dims) = false := by rw [ha, hd]; simp
    rw [hne]
    simp only [Bool.false_eq_true, ↓reduceIte]
    split
    · exact And.intro (fun e h => by cases h) (fun a' h => by cases h)
    · split
      · exact And.intro (fun e h => by cases h) (fun a' h => by cases h)
      · constructor
        · refine NoErr.bind (gatherBlock_noErr _ _ _ _ _) (fun _ _ => ?_)
          refine NoErr.bind (gatherBlock_noErr _ _ _ _ _) (fun _ _ => ?_)
          refine NoErr.bind (gatherBlock_noErr _ _ _ _ _) (fun _ _ => ?_)
          refine NoErr.bind (gatherBlock_noErr _ _ _ _ _) (fun _ _ => ?_)
          refine NoErr.bind (gatherBlock_noErr _ _ _ _ _) (fun _ _ => ?_)
          refine NoErr.bind (gatherBlock_noErr _ _ _ _ _) (fun _ _ => ?_)
          exact NoErr.ok _
        · intro a' h
          obtain ⟨l1, _, h⟩ := IdctSpec.out_bind_ok _ _ _ h
          obtain ⟨l2, _, h⟩ := IdctSpec.out_bind_ok _ _ _ h
          obtain ⟨l3, _, h⟩ := IdctSpec.out_bind_ok _ _ _ h
          obtain ⟨l4, _, h⟩ := IdctSpec.out_bind_ok _ _ _ h
          obtain ⟨b, _, h⟩ := IdctSpec.out_bind_ok _ _ _ h
          obtain ⟨c, _, h⟩ := IdctSpec.out_bind_ok _ _ _ h
          cases h
          exact ha
  · exact And.intro (NoErr.ok _) (fun a' h => by cases h; exact ha)

theorem reconstruct_noErr (types : Array MbType) (r : DecPic) (mvs : Array Mv4) (m w : Nat) (pic : DecPic)
    (hd : r.fmt.dims = pic.fmt.dims) (lumaLv cbLv crLv : Array Dct) :
    NoErr (reconstruct types (some r) mvs m w pic lumaLv cbLv crLv) := by
  unfold reconstruct
  refine NoErr.bind (gather_noErr types r mvs m pic hd) (fun _ _ => ?_)
  refine NoErr.bind (idctChannel_noErr _ _ _ _) (fun _ _ => ?_)
  refine NoErr.bind (idctChannel_noErr _ _ _ _) (fun _ _ => ?_)
  refine NoErr.bind (idctChannel_noErr _ _ _ _) (fun _ _ => ?_)
  exact NoErr.ok _

/-! ### the whole picture -/

theorem fmtOf_of_dims (s : State) (hdr : PicHdr) (w h : Nat) (hd : dimsOf s hdr = some (w, h)) :
    ∃ f, fmtOf s hdr = .ok f ∧ f.dims = some (w, h) := by
  unfold dimsOf at hd
  unfold fmtOf
  cases hf : hdr.format with
  | some f => rw [hf] at hd; exact ⟨f, rfl, hd⟩
  | none =>
    rw [hf] at hd
    simp only at hd ⊢
    split at hd
    · cases hd
    · rename_i hni
      rw [if_neg hni]
      cases hl : s.getLast with
      | none => rw [hl] at hd; cases hd
      | some p => rw [hl] at hd; exact ⟨p.fmt, rfl, hd⟩

/-- the picture `DecodedPicture::new` allocates: all planes zero -/
def freshPic (hdr : PicHdr) (f : SrcFmt) (w h : Nat) : DecPic :=
  { hdr := hdr, fmt := f, luma := Array.replicate (w * h) 0, cb := Array.replicate ((w + 1) / 2 * ((h + 1) / 2)) 0, cr := Array.replicate ((w + 1) / 2 * ((h + 1) / 2)) 0, chromaSpr := (w + 1) / 2 }

/-- `semCore` unfolded, for any header whose format resolves to `w x h` -/
theorem semCore_eq (s : State) (hdr : PicHdr) (mbs : List MbD) (w h : Nat) (f : SrcFmt) (hf : fmtOf s hdr = .ok f)
    (hd : f.dims = some (w, h)) (hw : 1 ≤ w) (hh : 1 ≤ h) :
    semCore s hdr mbs =
      semMbs hdr (some (w, h)) (nextRunning hdr s.running) ((w + 15) / 16) mbs (loop0 hdr ((w + 15) / 16) ((h + 15) / 16)) >>= fun l =>
        let total := (w + 15) / 16 * ((h + 15) / 16)
        let mvs := if l.mvs.size < total then l.mvs ++ Array.replicate (total - l.mvs.size) zeroMv4 else l.mvs
        let types := if l.types.size < total then l.types ++ Array.replicate (total - l.types.size) MbType.inter else l.types
        reconstruct types s.getRef mvs ((w + 15) / 16) w (freshPic hdr f w h) l.lumaLv l.cbLv l.crLv >>=
          fun pic => .ok (hdr, pic) := by
  have hp : DecPic.new hdr f = some (freshPic hdr f w h) := by
    unfold DecPic.new freshPic; rw [hd]
  unfold semCore
  rw [hf]
  simp only [Out.bind_ok]
  rw [hd]
  simp only
  rw [if_neg (by omega), hp]
  rfl

theorem mvChain_length (hdr : PicHdr) (dims : Option (Nat × Nat)) (running m : Nat) :
    ∀ (mbs : List MbD) (prev : Array Mv4) (vs : List Mv4), MvChain hdr dims running m prev mbs vs → vs.length = mbs.length := by
  intro mbs
  induction mbs with
  | nil => intro prev vs h; cases vs with
    | nil => rfl
    | cons v vs => exact absurd h id
  | cons mb ms ih =>
    intro prev vs h
    cases vs with
    | nil => exact absurd h id
    | cons v vs => simp only [List.length_cons]; rw [ih _ _ h.2]

/-- **A valid predicted picture decodes successfully** against a reference of its dimensions. -/
theorem semCore_inter_ok (s : State) (hdr : PicHdr) (mbs : List MbD) (w h : Nat) (hdims : dimsOf s hdr = some (w, h))
    (hw : 1 ≤ w) (hh : 1 ≤ h) (hp : hdr.picType ≠ .iFrame) (hcount : mbs.length = (w + 15) / 16 * ((h + 15) / 16))
    (hok : ∀ mb ∈ mbs, MbOK s.opts hdr false mb) (r : DecPic) (href : s.getRef = some r) (hr : PicOK r)
    (hrd : r.fmt.dims = some (w, h)) (hsat : OutSat (semCore s hdr mbs) (fun _ => True)) :
    ∃ (pic : DecPic) (lumaLv cbLv crLv : Array Dct) (qs : List Nat) (vs : List Mv4),
      semCore s hdr mbs = .ok (hdr, pic) ∧ QChain hdr.quantizer mbs qs ∧
      MvChain hdr (some (w, h)) (nextRunning hdr s.running) ((w + 15) / 16) #[] mbs vs ∧
      (∀ id, lumaLv.getD id .zero = lumaLvAt ((w + 15) / 16) 0 mbs qs .zero id) ∧
      (∀ id, cbLv.getD id .zero = chromaLvAt 0 mbs qs 4 .zero id) ∧
      (∀ id, crLv.getD id .zero = chromaLvAt 0 mbs qs 5 .zero id) ∧
      pic.luma.size = w * h ∧ pic.cb.size = (w + 1) / 2 * ((h + 1) / 2) ∧ pic.cr.size = (w + 1) / 2 * ((h + 1) / 2) ∧
      (∀ k, ((pic.luma.getD k 0 : Int) - (idealVal lumaLv ((w + 15) / 16 * 2) w (w * h) k
        (lumaAt (mbs.map typeOf).toArray r vs.toArray ((w + 15) / 16) w (Array.replicate (w * h) 0) k) : Int)).natAbs ≤ 1) ∧
      (∀ k, ((pic.cb.getD k 0 : Int) - (idealVal cbLv ((w + 15) / 16) ((w + 1) / 2) ((w + 1) / 2 * ((h + 1) / 2)) k
        (chromaAt (mbs.map typeOf).toArray r.cb ((w + 1) / 2) vs.toArray ((w + 15) / 16)
          (Array.replicate ((w + 1) / 2 * ((h + 1) / 2)) 0) k) : Int)).natAbs ≤ 1) ∧
      (∀ k, ((pic.cr.getD k 0 : Int) - (idealVal crLv ((w + 15) / 16) ((w + 1) / 2) ((w + 1) / 2 * ((h + 1) / 2)) k
        (chromaAt (mbs.map typeOf).toArray r.cr ((w + 1) / 2) vs.toArray ((w + 15) / 16)
          (Array.replicate ((w + 1) / 2 * ((h + 1) / 2)) 0) k) : Int)).natAbs ≤ 1) := by
  obtain ⟨f, hfm, hfd⟩ := fmtOf_of_dims s hdr w h hdims
  have heq := semCore_eq s hdr mbs w h f hfm hfd hw hh
  -- the reference's shape
  obtain ⟨w', h', _, _, hrd', hrl, hrb, hrr, hrs⟩ := hr
  rw [hrd] at hrd'
  simp only [Option.some.injEq, Prod.mk.injEq] at hrd'
  obtain ⟨ew, eh⟩ := hrd'
  subst ew; subst eh
  have hm1 : 1 ≤ (w + 15) / 16 := by omega
  rw [heq] at hsat ⊢
  cases hsm : semMbs hdr (some (w, h)) (nextRunning hdr s.running) ((w + 15) / 16) mbs (loop0 hdr ((w + 15) / 16) ((h + 15) / 16)) with
  | err e => exact absurd hsm (semMbs_noErr hdr hp _ _ _ mbs _ e)
  | panic x => rw [hsm] at hsat; exact absurd hsat id
  | fuel => rw [hsm] at hsat; exact absurd hsat id
  | ok l =>
    rw [hsm] at hsat
    simp only [Out.bind_ok] at hsat ⊢
    obtain ⟨qs, hq, htypes, ⟨_, hluma⟩, ⟨_, hcb⟩, ⟨_, hcr⟩⟩ := semMbs_levels hdr (some (w, h)) _ ((w + 15) / 16) hm1 mbs _ l hsm
    obtain ⟨vs, hvc, hvs⟩ := semMbs_vectors hdr (some (w, h)) _ ((w + 15) / 16) mbs _ l hsm
    have ht0 : (loop0 hdr ((w + 15) / 16) ((h + 15) / 16)).types = #[] := rfl
    have hm0 : (loop0 hdr ((w + 15) / 16) ((h + 15) / 16)).mvs = #[] := rfl
    have hts : l.types = (mbs.map typeOf).toArray := by rw [htypes, ht0]; simp
    have hmvs : l.mvs = vs.toArray := by rw [hvs, hm0]; simp
    rw [hm0] at hvc
    have hvl := mvChain_length hdr _ _ _ mbs _ vs hvc
    have hsize : l.types.size = (w + 15) / 16 * ((h + 15) / 16) := by rw [hts]; simpa using hcount
    have hmsize : l.mvs.size = (w + 15) / 16 * ((h + 15) / 16) := by rw [hmvs]; simp [hvl, hcount]
    rw [if_neg (by omega : ¬ l.types.size < (w + 15) / 16 * ((h + 15) / 16)),
      if_neg (by omega : ¬ l.mvs.size < (w + 15) / 16 * ((h + 15) / 16)), href] at hsat ⊢
    have hl0 : ∀ id, (loop0 hdr ((w + 15) / 16) ((h + 15) / 16)).lumaLv.getD id .zero = .zero := fun id => replicate_getD_dct _ id
    have hb0 : ∀ id, (loop0 hdr ((w + 15) / 16) ((h + 15) / 16)).cbLv.getD id .zero = .zero := fun id => replicate_getD_dct _ id
    have hr0 : ∀ id, (loop0 hdr ((w + 15) / 16) ((h + 15) / 16)).crLv.getD id .zero = .zero := fun id => replicate_getD_dct _ id
    have hluma' : ∀ id, l.lumaLv.getD id .zero = lumaLvAt ((w + 15) / 16) 0 mbs qs .zero id := by
      intro id; rw [hluma id, hl0 id, ht0]; rfl
    have hcb' : ∀ id, l.cbLv.getD id .zero = chromaLvAt 0 mbs qs 4 .zero id := by
      intro id; rw [hcb id, hb0 id, ht0]; rfl
    have hcr' : ∀ id, l.crLv.getD id .zero = chromaLvAt 0 mbs qs 5 .zero id := by
      intro id; rw [hcr id, hr0 id, ht0]; rfl
    cases hrec : reconstruct l.types (some r) l.mvs ((w + 15) / 16) w (freshPic hdr f w h) l.lumaLv l.cbLv l.crLv with
    | panic x => rw [hrec] at hsat; exact absurd hsat id
    | fuel => rw [hrec] at hsat; exact absurd hsat id
    | err e =>
      exact absurd hrec (reconstruct_noErr l.types r l.mvs _ w (freshPic hdr f w h) (by rw [hrd]; exact hfd.symm) _ _ _ e)
    | ok pic =>
      have hcs : 1 ≤ r.chromaSpr := by rw [hrs]; omega
      have hsl : (freshPic hdr f w h).luma.size = r.luma.size := by rw [hrl.1]; simp [freshPic]
      have hsb : (freshPic hdr f w h).cb.size = r.cb.size := by rw [hrb.1]; simp [freshPic]
      have hsr : (freshPic hdr f w h).cr.size = r.cr.size := by rw [hrr.1]; simp [freshPic]
      have hsc : (freshPic hdr f w h).chromaSpr = r.chromaSpr := by rw [hrs]; rfl
      obtain ⟨⟨s1, _⟩, ⟨s2, _⟩, ⟨s3, _⟩⟩ := reconstruct_pointwise l.types r l.mvs _ w h (freshPic hdr f w h) pic l.lumaLv l.cbLv
        l.crLv hrd hw hcs hsc (by omega) hsl hsb hsr hrec
      obtain ⟨c1, c2, c3⟩ := predicted_close l.types r l.mvs _ w h (freshPic hdr f w h) pic l.lumaLv l.cbLv l.crLv hrd hw hcs hsc
        (by omega) hsl hsb hsr
        (luma_allBounded s.opts hdr false _ mbs qs hok _ hluma') (chroma_allBounded s.opts hdr false mbs qs 4 (by omega) hok _ hcb')
        (chroma_allBounded s.opts hdr false mbs qs 5 (by omega) hok _ hcr') hrec
      have hq' : QChain hdr.quantizer mbs qs := hq
      refine ⟨pic, l.lumaLv, l.cbLv, l.crLv, qs, vs, rfl, hq', hvc, hluma', hcb', hcr', ?_, ?_, ?_, ?_, ?_, ?_⟩
      · rw [s1, hrl.1]
      · rw [s2, hrb.1]
      · rw [s3, hrr.1]
      · intro k; have := c1 k; rw [hts, hmvs, hrl.1] at this; exact this
      · intro k; have := c2 k; rw [hts, hmvs, hrb.1, hrs] at this; exact this
      · intro k; have := c3 k; rw [hts, hmvs, hrr.1, hrs] at this; exact this

/-! ### from a picture description of any flavour -/

theorem ref_ok (s : State) (hs : StoreOK s) (r : DecPic) (href : s.getRef = some r) : PicOK r := by
  unfold State.getRef at href
  cases hk : s.ref with
  | none => rw [hk] at href; simp at href
  | some k => rw [hk] at href; simp only [Option.bind_some] at href; exact hs k r href

open H263V.Lemmas.SorensonPicture in
/-- **C03, end to end.**  In every decoder state a history can reach, with a reference picture of the picture's dimensions, a valid
predicted picture (P or disposable) of any header flavour, followed by anything, decodes SUCCESSFULLY; the reader is left exactly
behind the picture; the decoded picture reports the header, its planes have exactly the signalled sizes, and every sample is within
one of clip 0..255 (motion-compensated prediction + reference inverse transform of the covering block's levels), where the type,
vector and level arrays are exactly those of the description (`typeOf`, `MvChain`, `QChain` / `lumaLvAt` / `chromaLvAt`). -/
theorem predicted_picture_decodes (s : State) (hs : StoreOK s) (hr : s.running = 0) (p : Pic) (w h : Nat) (hv : p.Valid s w h)
    (hw : 1 ≤ w) (hh : 1 ≤ h) (hi : (p.picture s).picType ≠ .iFrame) (r : DecPic) (href : s.getRef = some r)
    (hrd : r.fmt.dims = some (w, h)) (rest : Bits) (pos : Nat) :
    ∃ (pic : DecPic) (lumaLv cbLv crLv : Array Dct) (qs : List Nat) (vs : List Mv4),
      decodeNextPicture s ⟨p.bits s ++ rest, pos⟩ =
        .ok (commitPic s (p.picture s) pic, ⟨rest, pos + (p.bits s).length⟩) ∧
      pic.hdr = p.picture s ∧ QChain (p.picture s).quantizer p.mbs qs ∧
      MvChain (p.picture s) (some (w, h)) (nextRunning (p.picture s) s.running) ((w + 15) / 16) #[] p.mbs vs ∧
      (∀ id, lumaLv.getD id .zero = lumaLvAt ((w + 15) / 16) 0 p.mbs qs .zero id) ∧
      (∀ id, cbLv.getD id .zero = chromaLvAt 0 p.mbs qs 4 .zero id) ∧
      (∀ id, crLv.getD id .zero = chromaLvAt 0 p.mbs qs 5 .zero id) ∧
      pic.luma.size = w * h ∧ pic.cb.size = (w + 1) / 2 * ((h + 1) / 2) ∧ pic.cr.size = (w + 1) / 2 * ((h + 1) / 2) ∧
      (∀ k, ((pic.luma.getD k 0 : Int) - (idealVal lumaLv ((w + 15) / 16 * 2) w (w * h) k
        (lumaAt (p.mbs.map typeOf).toArray r vs.toArray ((w + 15) / 16) w (Array.replicate (w * h) 0) k) : Int)).natAbs ≤ 1) ∧
      (∀ k, ((pic.cb.getD k 0 : Int) - (idealVal cbLv ((w + 15) / 16) ((w + 1) / 2) ((w + 1) / 2 * ((h + 1) / 2)) k
        (chromaAt (p.mbs.map typeOf).toArray r.cb ((w + 1) / 2) vs.toArray ((w + 15) / 16)
          (Array.replicate ((w + 1) / 2 * ((h + 1) / 2)) 0) k) : Int)).natAbs ≤ 1) ∧
      (∀ k, ((pic.cr.getD k 0 : Int) - (idealVal crLv ((w + 15) / 16) ((w + 1) / 2) ((w + 1) / 2 * ((h + 1) / 2)) k
        (chromaAt (p.mbs.map typeOf).toArray r.cr ((w + 1) / 2) vs.toArray ((w + 15) / 16)
          (Array.replicate ((w + 1) / 2 * ((h + 1) / 2)) 0) k) : Int)).natAbs ≤ 1) := by
  obtain ⟨hdims, hcount, ip, hctx, hmbs⟩ := pic_facts s hr p w h hv
  have hip : ip = false := by
    cases ip with
    | false => rfl
    | true =>
      have := hctx.ptype
      simp only [↓reduceIte] at this
      exact absurd this hi
  subst hip
  have hdp := decode_pic s hr p w h hv rest pos
  have hret := decodeNextPicture_returns s hs ⟨p.bits s ++ rest, pos⟩
  rw [hdp] at hret
  have hsat : OutSat (semCore s (p.picture s) p.mbs) (fun _ => True) := by
    cases hsc : semCore s (p.picture s) p.mbs with
    | ok r => trivial
    | err e => trivial
    | panic x => rw [hsc] at hret; cases hret
    | fuel => rw [hsc] at hret; cases hret
  obtain ⟨pic, lumaLv, cbLv, crLv, qs, vs, hsc, hq, hvc, h1, h2, h3, z1, z2, z3, c1, c2, c3⟩ :=
    semCore_inter_ok s (p.picture s) p.mbs w h hdims hw hh hi hcount hmbs r href (ref_ok s hs r href) hrd hsat
  refine ⟨pic, lumaLv, cbLv, crLv, qs, vs, ?_, (semCore_hdr s _ _ _ hsc).2.1, hq, hvc, h1, h2, h3, z1, z2, z3, c1, c2, c3⟩
  rw [hdp, hsc]
  rfl

/-! ### without a reference -/

/-- without a reference picture, `gather` returns the error as soon as ANY macroblock of the picture needs prediction -/
theorem gather_none_err (types : Array MbType) (mvs : Array Mv4) (m : Nat) (pic : DecPic) (i : Nat)
    (hi : i < min types.size mvs.size) (hinter : (types.getD i .inter).isInter = true) :
    gather types none mvs m pic = .err .uncodedIFrame := by
  unfold gather
  have key : ∀ (l : List Nat) (a : DecPic), i ∈ l →
      l.foldlM (fun (pic : DecPic) j =>
        if (types.getD j .inter).isInter then
          (match (none : Option DecPic) with
          | none => Out.err Err.uncodedIFrame
          | some r =>
            if r.fmt.dims != pic.fmt.dims then .err .formatInvalid else
            match r.fmt.dims with
            | none => .panic "unwrap on None: luma_samples_per_row"
            | some (w, _) =>
              if m = 0 then .panic "remainder by zero" else do
              let mv := mvs.getD j zeroMv4
              let px := (j % m) * 16
              let py := (j / m) * 16
              let l ← gatherBlock r.luma w (px, py) mv.1 pic.luma
              let l ← gatherBlock r.luma w (px + 8, py) mv.2.1 l
              let l ← gatherBlock r.luma w (px, py + 8) mv.2.2.1 l
              let l ← gatherBlock r.luma w (px + 8, py + 8) mv.2.2.2 l
              let mvc := mvAdd (mvAdd (mvAdd mv.1 mv.2.1) mv.2.2.1) mv.2.2.2
              let mvc : Mv := (averageSum mvc.1, averageSum mvc.2)
              let cx := (j % m) * 8
              let cy := (j / m) * 8
              let b ← gatherBlock r.cb r.chromaSpr (cx, cy) mvc pic.cb
              let c ← gatherBlock r.cr r.chromaSpr (cx, cy) mvc pic.cr
              pure { pic with luma := l, cb := b, cr := c })
        else .ok pic) a = .err .uncodedIFrame := by
    intro l
    induction l with
    | nil => intro a h; cases h
    | cons j js ih =>
      intro a h
      rw [List.foldlM_cons]
      by_cases hj : (types.getD j .inter).isInter = true
      · simp only [hj, ↓reduceIte]; rfl
      · have hne : i ≠ j := by intro e; rw [e] at hinter; exact hj hinter
        have hmem : i ∈ js := by
          rcases List.mem_cons.mp h with e | e
          · exact absurd e hne
          · exact e
        simp only [hj, Bool.false_eq_true, ↓reduceIte]
        exact ih a hmem
  exact key _ pic (List.mem_range.mpr hi)

open H263V.Lemmas.SorensonPicture in
/-- **A picture needing prediction when no reference exists is rejected with an error** — end to end: a valid predicted picture of
any flavour with at least one macroblock that needs prediction (INTER of any kind, or not coded), in a reachable state without a
reference picture. -/
theorem predicted_without_reference_rejected (s : State) (hs : StoreOK s) (hr : s.running = 0) (p : Pic) (w h : Nat)
    (hv : p.Valid s w h) (hw : 1 ≤ w) (hh : 1 ≤ h) (hi : (p.picture s).picType ≠ .iFrame) (href : s.getRef = none)
    (i : Nat) (hil : i < p.mbs.length) (hinter : (typeOf (p.mbs.getD i default)).isInter = true) (rest : Bits) (pos : Nat) :
    decodeNextPicture s ⟨p.bits s ++ rest, pos⟩ = .err .uncodedIFrame := by
  obtain ⟨hdims, hcount, ip, hctx, hmbs⟩ := pic_facts s hr p w h hv
  have hdp := decode_pic s hr p w h hv rest pos
  have hret := decodeNextPicture_returns s hs ⟨p.bits s ++ rest, pos⟩
  rw [hdp] at hret ⊢
  obtain ⟨f, hfm, hfd⟩ := fmtOf_of_dims s _ w h hdims
  rw [semCore_eq s _ p.mbs w h f hfm hfd hw hh] at hret ⊢
  have hm1 : 1 ≤ (w + 15) / 16 := by omega
  cases hsm : semMbs (p.picture s) (some (w, h)) (nextRunning (p.picture s) s.running) ((w + 15) / 16) p.mbs
      (loop0 (p.picture s) ((w + 15) / 16) ((h + 15) / 16)) with
  | err e => exact absurd hsm (semMbs_noErr _ hi _ _ _ p.mbs _ e)
  | panic x => rw [hsm] at hret; cases hret
  | fuel => rw [hsm] at hret; cases hret
  | ok l =>
    simp only [Out.bind_ok]
    obtain ⟨qs, _, htypes, _, _, _⟩ := semMbs_levels _ (some (w, h)) _ ((w + 15) / 16) hm1 p.mbs _ l hsm
    obtain ⟨vs, hvc, hvs⟩ := semMbs_vectors _ (some (w, h)) _ ((w + 15) / 16) p.mbs _ l hsm
    have ht0 : (loop0 (p.picture s) ((w + 15) / 16) ((h + 15) / 16)).types = #[] := rfl
    have hm0 : (loop0 (p.picture s) ((w + 15) / 16) ((h + 15) / 16)).mvs = #[] := rfl
    have hts : l.types = (p.mbs.map typeOf).toArray := by rw [htypes, ht0]; simp
    have hmvs : l.mvs = vs.toArray := by rw [hvs, hm0]; simp
    rw [hm0] at hvc
    have hvl := mvChain_length _ _ _ _ p.mbs _ vs hvc
    have hsize : l.types.size = (w + 15) / 16 * ((h + 15) / 16) := by rw [hts]; simpa using hcount
    have hmsize : l.mvs.size = (w + 15) / 16 * ((h + 15) / 16) := by rw [hmvs]; simp [hvl, hcount]
    rw [if_neg (by omega : ¬ l.types.size < (w + 15) / 16 * ((h + 15) / 16)),
      if_neg (by omega : ¬ l.mvs.size < (w + 15) / 16 * ((h + 15) / 16)), href]
    unfold reconstruct
    rw [gather_none_err l.types l.mvs _ _ i (by rw [hsize, hmsize, ← hcount]; simpa using hil) (by
      rw [hts, Array.getD_eq_getD_getElem?, Array.getElem?_eq_getElem (by simpa using hil)]
      simp only [List.getElem_toArray, List.getElem_map, Option.getD_some]
      rw [List.getD_eq_getElem?_getD, List.getElem?_eq_getElem hil] at hinter
      exact hinter)]
    rfl

end H263V.Lemmas.InterEnd
