/-
Run-length expansion (`inverse_rle`): where each coded coefficient lands, and that the sparse block shapes
(`Zero` / `Dc` / `Horiz` / `Vert` / `Full`) lose nothing.
-/
import H263V.Model.Rle
namespace H263V.Lemmas.RlePlacement
open H263V H263V.Mb H263V.Rle

/-- raster index (8·row + column) of zig-zag position `zz`, from the regenerated table -/
def rasterOf (zz : Nat) : Nat := 8 * (Gen.DEZIGZAG.getD zz (0, 0)).2 + (Gen.DEZIGZAG.getD zz (0, 0)).1

theorem table_ok : ∀ i : Fin 64, (Gen.DEZIGZAG.getD i.val (0, 0)).1 < 8 ∧ (Gen.DEZIGZAG.getD i.val (0, 0)).2 < 8 := by decide +kernel

theorem raster_inj_fin : ∀ i j : Fin 64, rasterOf i.val = rasterOf j.val → i = j := by decide +kernel

theorem raster_inj (i j : Nat) (hi : i < 64) (hj : j < 64) (h : rasterOf i = rasterOf j) : i = j := by
  have := raster_inj_fin ⟨i, hi⟩ ⟨j, hj⟩ h
  exact Fin.mk.inj_iff.mp this

theorem raster_lt (i : Nat) (hi : i < 64) : rasterOf i < 64 := by
  have := table_ok ⟨i, hi⟩
  unfold rasterOf
  simp only at this
  omega

/-- the level of the event that lands on zig-zag position `i`, when the first event's run is counted from position `start` -/
def lookupPos (start : Nat) : List TCoef → Nat → Option Int
  | [], _ => none
  | t :: ts, i =>
    match lookupPos (start + t.run + 1) ts i with
    | some l => some l
    | none => if i = start + t.run then some t.level else none

/-- zig-zag position of the `k`-th event: the runs and the coefficients before it, counted from `start` -/
def posOf (start : Nat) : List TCoef → Nat → Nat
  | [], _ => start
  | t :: _, 0 => start + t.run
  | t :: ts, k + 1 => posOf (start + t.run + 1) ts k

theorem lookup_ge (start : Nat) (ts : List TCoef) (i : Nat) (l : Int) (h : lookupPos start ts i = some l) : start ≤ i := by
  induction ts generalizing start l with
  | nil => simp [lookupPos] at h
  | cons t ts ih =>
    unfold lookupPos at h
    cases hl : lookupPos (start + t.run + 1) ts i with
    | some l2 => have := ih _ _ hl; omega
    | none =>
      rw [hl] at h
      simp only at h
      split at h
      · omega
      · simp at h

/-- the `k`-th event is the one found at its position (positions are strictly increasing, so no later event lands there) -/
theorem lookup_posOf (start : Nat) (ts : List TCoef) (k : Nat) (hk : k < ts.length) :
    lookupPos start ts (posOf start ts k) = some (ts[k]).level := by
  induction ts generalizing start k with
  | nil => simp at hk
  | cons t ts ih =>
    cases k with
    | zero =>
      simp only [posOf, lookupPos, List.getElem_cons_zero]
      cases hl : lookupPos (start + t.run + 1) ts (start + t.run) with
      | some l => have := lookup_ge _ _ _ _ hl; omega
      | none => simp
    | succ k =>
      simp only [posOf, lookupPos, List.getElem_cons_succ]
      rw [ih (start + t.run + 1) k (by simpa using hk)]

theorem getD_set (l : List Int) (i j : Nat) (v : Int) : (l.set i v).getD j 0 = if i = j ∧ j < l.length then v else l.getD j 0 := by
  simp only [List.getD_eq_getElem?_getD, List.getElem?_set]
  by_cases h : i = j
  · subst h
    by_cases hl : i < l.length
    · simp [hl]
    · simp [hl]
  · simp [h]

/-- **Placement.**  If the loop accepts the events (no run leaves the block), then the block keeps its 64 entries, every
zig-zag position that an event lands on holds that event's dequantised level, and every other position keeps its old value. -/
theorem rleLoop_data (q : Nat) : ∀ (ts : List TCoef) (s s' : RleState), s.data.length = 64 → rleLoop q ts s = some s' →
    s'.data.length = 64 ∧ ∀ i, i < 64 → s'.data.getD (rasterOf i) 0 =
      match lookupPos s.zz ts i with
      | some lv => dequant q lv
      | none => s.data.getD (rasterOf i) 0 := by
  intro ts
  induction ts with
  | nil =>
    intro s s' hl h
    simp only [rleLoop, Option.some.injEq] at h
    subst h
    exact ⟨hl, fun i _ => rfl⟩
  | cons t ts ih =>
    intro s s' hl h
    unfold rleLoop at h
    simp only at h
    split at h
    · simp at h
    · rename_i hzz
      have hp : s.zz + t.run < 64 := by omega
      obtain ⟨h1, h2⟩ := ih _ s' (by simp [hl]) h
      refine ⟨h1, ?_⟩
      intro i hi
      rw [h2 i hi]
      simp only [lookupPos]
      cases hlk : lookupPos (s.zz + t.run + 1) ts i with
      | some l => rfl
      | none =>
        simp only
        have hr : (8 * (Gen.DEZIGZAG.getD (s.zz + t.run) (0, 0)).2 + (Gen.DEZIGZAG.getD (s.zz + t.run) (0, 0)).1) = rasterOf (s.zz + t.run) := rfl
        rw [hr, getD_set]
        by_cases he : i = s.zz + t.run
        · subst he
          simp [hl, raster_lt _ hp]
        · have : ¬ (rasterOf (s.zz + t.run) = rasterOf i) := fun hh => he (raster_inj _ _ hi hp hh.symm)
          simp [this, he]

/-- the loop rejects the block exactly when an event's position leaves the 64 coefficients -/
theorem rleLoop_none_iff (q : Nat) : ∀ (ts : List TCoef) (s : RleState),
    rleLoop q ts s = none ↔ ∃ k, k < ts.length ∧ 64 ≤ posOf s.zz ts k := by
  intro ts
  induction ts with
  | nil => intro s; simp [rleLoop]
  | cons t ts ih =>
    intro s
    unfold rleLoop
    simp only
    split
    · rename_i h
      simp only [true_iff]
      exact ⟨0, by simp, by simpa [posOf] using h⟩
    · rename_i h
      rw [ih]
      constructor
      · rintro ⟨k, hk, hp⟩
        exact ⟨k + 1, by simpa using hk, by simpa [posOf] using hp⟩
      · rintro ⟨k, hk, hp⟩
        cases k with
        | zero => simp only [posOf] at hp; omega
        | succ k => exact ⟨k, by simpa using hk, by simpa [posOf] using hp⟩


/-! ### the sparse shapes lose nothing -/

/-- the 64 coefficients (raster order) a block shape stands for -/
def expand : Dct → List Int
  | .zero => List.replicate 64 0
  | .dc v => (List.replicate 64 0).set 0 v
  | .horiz row => (List.range 64).map fun i => if i < 8 then row.getD i 0 else 0
  | .vert col => (List.range 64).map fun i => if i % 8 = 0 then col.getD (i / 8) 0 else 0
  | .full d => d

/-- the 64 reconstruction levels of a block in raster order (`none`: a run leaves the block and the block is dropped) -/
def blockData (b : Block) (q : Nat) : Option (List Int) := (rleLoop q b.tcoef (initState b)).map (·.data)

structure Flags (s : RleState) : Prop where
  len : s.data.length = 64
  horiz : s.isHoriz = true → ∀ i, 8 ≤ i → s.data.getD i 0 = 0
  vert : s.isVert = true → ∀ i, i % 8 ≠ 0 → s.data.getD i 0 = 0

theorem replicate_getD (i : Nat) : (List.replicate 64 (0 : Int)).getD i 0 = 0 := by
  rw [List.getD_eq_getElem?_getD, List.getElem?_replicate]
  split <;> rfl

theorem flags_init (b : Block) : Flags (initState b) := by
  unfold initState
  split
  · refine ⟨by simp, fun _ i hi => ?_, fun _ i hi => ?_⟩
    · simp only; rw [getD_set, if_neg (by omega)]; exact replicate_getD i
    · simp only; rw [getD_set, if_neg (by omega)]; exact replicate_getD i
  · exact ⟨by simp, fun _ i _ => replicate_getD i, fun _ i _ => replicate_getD i⟩

theorem rleLoop_cons (q : Nat) (t : TCoef) (ts : List TCoef) (s : RleState) :
    rleLoop q (t :: ts) s = if s.zz + t.run ≥ 64 then none else
      rleLoop q ts { data := s.data.set (8 * (Gen.DEZIGZAG.getD (s.zz + t.run) (0, 0)).2 + (Gen.DEZIGZAG.getD (s.zz + t.run) (0, 0)).1) (dequant q t.level),
                     isHoriz := if dequant q t.level != 0 && decide ((Gen.DEZIGZAG.getD (s.zz + t.run) (0, 0)).2 > 0) then false else s.isHoriz,
                     isVert := if dequant q t.level != 0 && decide ((Gen.DEZIGZAG.getD (s.zz + t.run) (0, 0)).1 > 0) then false else s.isVert,
                     zz := s.zz + t.run + 1 } := rfl

theorem flags_loop (q : Nat) : ∀ (ts : List TCoef) (s s' : RleState), Flags s → rleLoop q ts s = some s' → Flags s' := by
  intro ts
  induction ts with
  | nil => intro s s' hf h; simp only [rleLoop, Option.some.injEq] at h; rw [← h]; exact hf
  | cons t ts ih =>
    intro s s' hf h
    rw [rleLoop_cons] at h
    split at h
    · simp at h
    · rename_i hzz
      have hp : s.zz + t.run < 64 := by omega
      have htab := table_ok ⟨s.zz + t.run, hp⟩
      generalize Gen.DEZIGZAG.getD (s.zz + t.run) (0, 0) = xy at h htab
      obtain ⟨zx, zy⟩ := xy
      simp only at h htab
      generalize dequant q t.level = v at h
      refine ih _ s' ⟨by simp [hf.len], ?_, ?_⟩ h
      · intro hh i hi
        show (s.data.set (8 * zy + zx) v).getD i 0 = 0
        have hh' : (if (v != 0 && decide (zy > 0)) = true then false else s.isHoriz) = true := hh
        rw [getD_set]
        by_cases hc : (v != 0 && decide (zy > 0)) = true
        · rw [if_pos hc] at hh'; simp at hh'
        · rw [if_neg hc] at hh'
          split
          · rename_i he
            have hy : zy > 0 := by omega
            have : ¬ (v != 0) = true := fun h1 => hc (by simp [h1, hy])
            simpa using this
          · exact hf.horiz hh' i hi
      · intro hv i hi
        show (s.data.set (8 * zy + zx) v).getD i 0 = 0
        have hv' : (if (v != 0 && decide (zx > 0)) = true then false else s.isVert) = true := hv
        rw [getD_set]
        by_cases hc : (v != 0 && decide (zx > 0)) = true
        · rw [if_pos hc] at hv'; simp at hv'
        · rw [if_neg hc] at hv'
          split
          · rename_i he
            have hx : zx > 0 := by omega
            have : ¬ (v != 0) = true := fun h1 => hc (by simp [h1, hx])
            simpa using this
          · exact hf.vert hv' i hi

theorem ext64 (a b : List Int) (ha : a.length = 64) (hb : b.length = 64) (h : ∀ i, i < 64 → a.getD i 0 = b.getD i 0) : a = b := by
  apply List.ext_getElem (by omega)
  intro i h1 h2
  have := h i (by omega)
  rw [List.getD_eq_getElem?_getD, List.getD_eq_getElem?_getD, List.getElem?_eq_getElem h1, List.getElem?_eq_getElem h2] at this
  simpa using this

/-- **The block shapes are lossless.**  Whatever `inverse_rle` stores for a block — `Zero`, `Dc`, `Horiz`, `Vert` or `Full` —
stands for exactly the 64 reconstruction levels of the block; the block is dropped exactly when a run leaves it. -/
theorem inverseRleBlock_lossless (b : Block) (q : Nat) : (inverseRleBlock b q).map expand = blockData b q := by
  unfold inverseRleBlock blockData
  by_cases he : b.tcoef.isEmpty = true
  · have hnil : b.tcoef = [] := by simpa using he
    rw [if_pos he, hnil]
    simp only [rleLoop, Option.map_some]
    unfold initState
    cases b.intradc with
    | none => rfl
    | some dc =>
      simp only
      split
      · rename_i h0
        simp only [Option.map_some, expand, h0]
        congr 1
      · rfl
  · rw [if_neg he]
    cases hl : rleLoop q b.tcoef (initState b) with
    | none => rfl
    | some s =>
      have hf := flags_loop q _ _ s (flags_init b) hl
      simp only [Option.map_some]
      cases hh : s.isHoriz <;> cases hv : s.isVert <;> simp only [Option.map_some, expand, Option.some.injEq]
      · -- vert
        apply ext64 _ _ (by simp) hf.len
        intro i hi
        rw [List.getD_eq_getElem?_getD, List.getElem?_map, List.getElem?_range hi]
        simp only [Option.map_some, Option.getD_some]
        split
        · rename_i h8
          rw [List.getD_eq_getElem?_getD, List.getElem?_map, List.getElem?_range (by omega)]
          simp only [Option.map_some, Option.getD_some]
          congr 1
          omega
        · rename_i h8; exact (hf.vert hv i h8).symm
      · -- horiz
        apply ext64 _ _ (by simp) hf.len
        intro i hi
        rw [List.getD_eq_getElem?_getD, List.getElem?_map, List.getElem?_range hi]
        simp only [Option.map_some, Option.getD_some]
        split
        · rename_i h8
          rw [List.getD_eq_getElem?_getD, List.getD_eq_getElem?_getD, List.getElem?_take_of_lt h8]
        · rename_i h8; exact (hf.horiz hh i (by omega)).symm
      · -- both: only the first entry can be non-zero
        have hz : ∀ i, i < 64 → i ≠ 0 → s.data.getD i 0 = 0 := by
          intro i hi h0
          by_cases h8 : 8 ≤ i
          · exact hf.horiz hh i h8
          · exact hf.vert hv i (by omega)
        split
        · rename_i h00
          simp only [Option.map_some, expand, Option.some.injEq]
          apply ext64 _ _ (by simp) hf.len
          intro i hi
          rw [replicate_getD]
          by_cases h0 : i = 0
          · subst h0; exact h00.symm
          · exact (hz i hi h0).symm
        · simp only [Option.map_some, expand, Option.some.injEq]
          apply ext64 _ _ (by simp) hf.len
          intro i hi
          rw [getD_set]
          by_cases h0 : i = 0
          · subst h0; simp
          · rw [if_neg (by omega), replicate_getD]; exact (hz i hi h0).symm

end H263V.Lemmas.RlePlacement
