import H263V.Model.Bits
import H263V.Model.Macroblock
import H263V.Spec.Vlc
namespace H263V.Lemmas.VlcTables
open H263V H263V.Spec.Vlc

/-- If walking `code` from `idx` ends exactly at the end of `code`, then walking `code ++ rest` consumes exactly `code`. -/
theorem walk_append {α : Type} (t : Array (Entry α)) (code : Bits) :
    ∀ (idx used : Nat) (a : α) (n : Nat) (rest : Bits),
      vlcWalk t idx code used = .ok (a, [], n) → vlcWalk t idx (code ++ rest) used = .ok (a, rest, n) := by
  induction code with
  | nil =>
    intro idx used a n rest h
    unfold vlcWalk at h ⊢
    cases ht : t[idx]? with
    | none => simp [ht] at h
    | some e =>
      cases e with
      | fin b => simp [ht] at h ⊢; obtain ⟨rfl, rfl⟩ := h; exact ⟨rfl, rfl⟩
      | fork z o => simp [ht] at h
  | cons b bs ih =>
    intro idx used a n rest h
    unfold vlcWalk at h ⊢
    cases ht : t[idx]? with
    | none => simp [ht] at h
    | some e =>
      cases e with
      | fin c => simp [ht] at h
      | fork z o =>
        simp only [ht, List.cons_append] at h ⊢
        exact ih _ _ a n rest h

/-- every (symbol, codeword) pair of a specification table is decoded by the tree to `f symbol`, consuming exactly the codeword -/
def agrees {α σ : Type} [DecidableEq α] (t : Array (Entry α)) (spec : List (σ × Bits)) (f : σ → α) : Bool :=
  spec.all fun (s, code) => decide (vlcWalk t 0 code 0 = .ok (f s, [], code.length))

/-- Table 16 (all 102 run/level/last symbols) and ESCAPE against the TCOEF tree -/
theorem tcoef_agrees :
    agrees Gen.TCOEF tcoefTable (fun s => some (TShort.run s.1 s.2.1 s.2.2)) = true ∧
    vlcWalk Gen.TCOEF 0 tcoefEscape 0 = .ok (some TShort.esc, [], 7) := by
  constructor <;> decide +kernel

/-- Table 7 and the stuffing codeword against the MCBPC tree for I pictures -/
theorem mcbpcI_agrees :
    agrees Gen.MCBPC_I mcbpcITable (fun s => BPE.valid s.1 s.2.1 s.2.2) = true ∧
    vlcWalk Gen.MCBPC_I 0 mcbpcStuffing 0 = .ok (BPE.stuffing, [], 9) := by
  constructor <;> decide +kernel

/-- Table 8 and the stuffing codeword against the MCBPC tree for P pictures -/
theorem mcbpcP_agrees :
    agrees Gen.MCBPC_P mcbpcPTable (fun s => BPE.valid s.1 s.2.1 s.2.2) = true ∧
    vlcWalk Gen.MCBPC_P 0 mcbpcStuffing 0 = .ok (BPE.stuffing, [], 9) := by
  constructor <;> decide +kernel

/-- Table 13 against the CBPY tree -/
theorem cbpy_agrees : agrees Gen.CBPY cbpyTable (fun s => some s) = true := by decide +kernel

/-- Table 14: each of the 64 differentials −16..15.5 (half-sample units −32..31): the MVD tree decodes its codeword to
the literal `v/2`, whose conversion to half-sample units is `v`, consuming exactly the codeword. -/
def MvdTableOk : Prop :=
  (List.range 64).all (fun k =>
      let v : Int := (k : Int) - 32
      match vlcWalk Gen.MVD 0 (mvdCode v) 0 with
      | .ok (some lit, [], n) => decide (Mb.halfPelOfLit lit = v ∧ n = (mvdCode v).length)
      | _ => false) = true

theorem mvd_agrees : MvdTableOk := by unfold MvdTableOk; decide +kernel

end H263V.Lemmas.VlcTables
