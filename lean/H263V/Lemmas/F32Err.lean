/-
Forward error analysis of the soft-float operations: the rational number a value stands for (`val`), and for each operation the
distance between the computed and the exact result.  Proof file (imports Mathlib tactics); the model files stay import-free.
-/
import Mathlib.Tactic.Linarith
import Mathlib.Tactic.NormNum
import Mathlib.Tactic.Positivity
import Mathlib.Tactic.Ring
import Mathlib.Algebra.Order.Field.Power
import Mathlib.Data.Rat.Cast.Order
import H263V.Lemmas.F32Range
namespace H263V.Lemmas.F32Err
open H263V H263V.F32 H263V.Lemmas.F32Range

/-- the rational number a soft float stands for -/
def val (x : F) : ℚ := (x.m : ℚ) * (2 : ℚ) ^ x.e

/-- unit roundoff of binary32 -/
def u : ℚ := 1 / 16777216

theorem two_zpow_pos (e : ℤ) : (0 : ℚ) < 2 ^ e := zpow_pos (by norm_num) e

theorem round_core (a q r H : Nat) (ha : a = q * (2 * H) + r) (b : Bool) (hb1 : b = true → H ≤ r ∧ r < 2 * H)
    (hb0 : b = false → r ≤ H) :
    (((if b then q + 1 else q) * (2 * H) : Nat) : Int) - a ≤ H ∧ (a : Int) - (((if b then q + 1 else q) * (2 * H) : Nat) : Int) ≤ H := by
  subst ha
  cases b with
  | true =>
    obtain ⟨h1, h2⟩ := hb1 rfl
    simp only [↓reduceIte]
    have e1 : (q + 1) * (2 * H) = q * (2 * H) + 2 * H := by ring
    rw [e1]
    generalize q * (2 * H) = X
    constructor <;> push_cast <;> omega
  | false =>
    have h1 := hb0 rfl
    simp only [Bool.false_eq_true, ↓reduceIte]
    generalize q * (2 * H) = X
    constructor <;> push_cast <;> omega

/-- rounding a natural number to a multiple of `2^k`, ties to even: off by at most half a step -/
theorem round_nat (a k : Nat) (hk : 1 ≤ k) :
    ((((if a - ((a >>> k) <<< k) > (1 : Nat) <<< (k - 1) || (a - ((a >>> k) <<< k) == (1 : Nat) <<< (k - 1) && (a >>> k) % 2 == 1)
        then a >>> k + 1 else a >>> k) * 2 ^ k : Nat) : Int) - a ≤ ((2 ^ (k - 1) : Nat) : Int)) ∧
    ((a : Int) - (((if a - ((a >>> k) <<< k) > (1 : Nat) <<< (k - 1) || (a - ((a >>> k) <<< k) == (1 : Nat) <<< (k - 1) && (a >>> k) % 2 == 1)
        then a >>> k + 1 else a >>> k) * 2 ^ k : Nat) : Int) ≤ ((2 ^ (k - 1) : Nat) : Int)) := by
  have hq : a >>> k = a / 2 ^ k := Nat.shiftRight_eq_div_pow a k
  have hql : (a >>> k) <<< k = (a >>> k) * 2 ^ k := Nat.shiftLeft_eq _ k
  have hhalf : (1 : Nat) <<< (k - 1) = 2 ^ (k - 1) := by simp [Nat.one_shiftLeft]
  have h2 : 2 ^ k = 2 * 2 ^ (k - 1) := by
    obtain ⟨j, rfl⟩ : ∃ j, k = j + 1 := ⟨k - 1, by omega⟩
    simp [Nat.pow_succ, Nat.mul_comm]
  have hdm := Nat.div_add_mod a (2 ^ k)
  have hmod := Nat.mod_lt a (Nat.two_pow_pos k)
  rw [hql, hhalf, hq]
  have hr : a - a / 2 ^ k * 2 ^ k = a % 2 ^ k := by
    have : a / 2 ^ k * 2 ^ k = 2 ^ k * (a / 2 ^ k) := Nat.mul_comm _ _
    omega
  rw [hr, h2]
  have ha : a = a / (2 * 2 ^ (k - 1)) * (2 * 2 ^ (k - 1)) + a % (2 * 2 ^ (k - 1)) := by
    rw [← h2]; have := Nat.mul_comm (2 ^ k) (a / 2 ^ k); omega
  have := round_core a (a / (2 * 2 ^ (k - 1))) (a % (2 * 2 ^ (k - 1))) (2 ^ (k - 1)) ha
    (decide (a % (2 * 2 ^ (k - 1)) > 2 ^ (k - 1)) || (a % (2 * 2 ^ (k - 1)) == 2 ^ (k - 1) && a / (2 * 2 ^ (k - 1)) % 2 == 1))
    (by
      intro hc
      rw [← h2] at hc ⊢
      simp only [Bool.or_eq_true, decide_eq_true_eq, Bool.and_eq_true, beq_iff_eq] at hc
      rcases hc with h | ⟨h, _⟩ <;> omega)
    (by
      intro hc
      simp only [Bool.or_eq_false_iff, decide_eq_false_iff_not, Bool.and_eq_false_imp, beq_iff_eq] at hc
      omega)
  exact this

/-- `rnd24` in two stages: the rounded mantissa / exponent, then the range flag -/
def core (m e : Int) (b : Bool) : F :=
  if bitlen m.natAbs ≤ 24 then ⟨m, e, b⟩ else
    let k := bitlen m.natAbs - 24
    let q := m.natAbs >>> k
    let r := m.natAbs - (q <<< k)
    let half := (1 : Nat) <<< (k - 1)
    let q' := if r > half || (r == half && q % 2 == 1) then q + 1 else q
    ⟨if m < 0 then -(q' : Int) else (q' : Int), e + k, b⟩

def flag (r : F) : F :=
  let top : Int := r.e + (bitlen r.m.natAbs : Int) - 1
  if r.m != 0 && (top < -126 || top > 127) then { r with bad := true } else r

theorem val_bad (r : F) (b : Bool) : val { r with bad := b } = val r := rfl

theorem rnd24_eq (m e : Int) (b : Bool) : rnd24 m e b = flag (core m e b) := rfl

theorem val_flag (r : F) : val (flag r) = val r := by
  unfold flag
  simp only
  split <;> rfl

theorem abs_cast (m : Int) : |(m : ℚ)| = (m.natAbs : ℚ) := by
  rw [← Int.cast_abs, Int.abs_eq_natAbs, Int.cast_natCast]

theorem cast_neg_natAbs (m : Int) (h : m < 0) : (m : ℚ) = -(m.natAbs : ℚ) := by
  have : m = -(m.natAbs : Int) := by omega
  conv_lhs => rw [this]
  push_cast
  rw [abs_cast]

theorem cast_pos_natAbs (m : Int) (h : ¬ m < 0) : (m : ℚ) = (m.natAbs : ℚ) := by
  have : m = (m.natAbs : Int) := by omega
  conv_lhs => rw [this]
  push_cast
  rw [abs_cast]

/-- the arithmetic core: a mantissa `q'` within half a step `2^(k-1)` of `a ≥ 2^(k-1+24)` is within `a·u` of it -/
theorem key_bound (a q' k : Nat) (r1 : ((q' * 2 ^ k : Nat) : Int) - a ≤ ((2 ^ (k - 1) : Nat) : Int))
    (r2 : (a : Int) - ((q' * 2 ^ k : Nat) : Int) ≤ ((2 ^ (k - 1) : Nat) : Int)) (hlow : 2 ^ (k - 1 + 24) ≤ a) :
    |(q' : ℚ) * 2 ^ k - (a : ℚ)| ≤ (a : ℚ) * u := by
  have r1q : ((q' : ℚ) * 2 ^ k - (a : ℚ)) ≤ 2 ^ (k - 1) := by exact_mod_cast r1
  have r2q : ((a : ℚ) - (q' : ℚ) * 2 ^ k) ≤ 2 ^ (k - 1) := by exact_mod_cast r2
  have hlowq : (2 : ℚ) ^ (k - 1) * 16777216 ≤ (a : ℚ) := by
    have e24 : 2 ^ (k - 1 + 24) = 2 ^ (k - 1) * 16777216 := by rw [Nat.pow_add]
    have : 2 ^ (k - 1) * 16777216 ≤ a := by omega
    exact_mod_cast this
  unfold u
  rw [abs_le]
  constructor <;> linarith

/-- **rounding to 24 significant bits**: relative error at most the unit roundoff -/
theorem rnd24_err (m e : Int) (b : Bool) : |val (rnd24 m e b) - (m : ℚ) * 2 ^ e| ≤ |(m : ℚ)| * 2 ^ e * u := by
  have hpos := two_zpow_pos e
  have hrhs : 0 ≤ |(m : ℚ)| * 2 ^ e * u := by unfold u; positivity
  rw [rnd24_eq, val_flag]
  unfold core
  split
  · simp only [val, sub_self, abs_zero]; exact hrhs
  · rename_i hbl
    have hbl : 24 < bitlen m.natAbs := by omega
    simp only
    generalize hk : bitlen m.natAbs - 24 = k at *
    have hk1 : 1 ≤ k := by omega
    have ha0 : m.natAbs ≠ 0 := by
      intro h0; rw [h0] at hbl; simp [bitlen] at hbl
    have hlow := pow_le_of_bitlen m.natAbs ha0
    have hbl' : bitlen m.natAbs - 1 = (k - 1) + 24 := by omega
    rw [hbl'] at hlow
    obtain ⟨r1, r2⟩ := round_nat m.natAbs k hk1
    generalize (if m.natAbs - ((m.natAbs >>> k) <<< k) > (1 : Nat) <<< (k - 1) ||
        (m.natAbs - ((m.natAbs >>> k) <<< k) == (1 : Nat) <<< (k - 1) && (m.natAbs >>> k) % 2 == 1)
        then m.natAbs >>> k + 1 else m.natAbs >>> k) = q' at r1 r2 ⊢
    have hkey := key_bound m.natAbs q' k r1 r2 hlow
    unfold val
    simp only
    rw [zpow_add₀ (by norm_num : (2 : ℚ) ≠ 0), zpow_natCast, abs_cast]
    by_cases hm : m < 0
    · rw [if_pos hm, cast_neg_natAbs m hm]
      have : ((-(q' : Int) : Int) : ℚ) * (2 ^ e * 2 ^ k) - -(m.natAbs : ℚ) * 2 ^ e = -(((q' : ℚ) * 2 ^ k - (m.natAbs : ℚ)) * 2 ^ e) := by
        push_cast; ring
      rw [this, abs_neg, abs_mul, abs_of_pos hpos]
      calc |(q' : ℚ) * 2 ^ k - (m.natAbs : ℚ)| * 2 ^ e ≤ ((m.natAbs : ℚ) * u) * 2 ^ e :=
            mul_le_mul_of_nonneg_right hkey (le_of_lt hpos)
        _ = (m.natAbs : ℚ) * 2 ^ e * u := by ring
    · rw [if_neg hm, cast_pos_natAbs m hm]
      have : (((q' : Int) : Int) : ℚ) * (2 ^ e * 2 ^ k) - (m.natAbs : ℚ) * 2 ^ e = ((q' : ℚ) * 2 ^ k - (m.natAbs : ℚ)) * 2 ^ e := by
        push_cast; ring
      rw [this, abs_mul, abs_of_pos hpos]
      calc |(q' : ℚ) * 2 ^ k - (m.natAbs : ℚ)| * 2 ^ e ≤ ((m.natAbs : ℚ) * u) * 2 ^ e :=
            mul_le_mul_of_nonneg_right hkey (le_of_lt hpos)
        _ = (m.natAbs : ℚ) * 2 ^ e * u := by ring

theorem u_pos : 0 < u := by unfold u; norm_num

theorem mul_err (a b : F) : |val (mul a b) - val a * val b| ≤ |val a * val b| * u := by
  unfold mul
  have h := rnd24_err (a.m * b.m) (a.e + b.e) (a.bad || b.bad)
  have e1 : ((a.m * b.m : Int) : ℚ) * 2 ^ (a.e + b.e) = val a * val b := by
    unfold val
    rw [zpow_add₀ (by norm_num : (2 : ℚ) ≠ 0)]
    push_cast; ring
  have e2 : |((a.m * b.m : Int) : ℚ)| * 2 ^ (a.e + b.e) = |val a * val b| := by
    rw [← e1, abs_mul, abs_of_pos (two_zpow_pos _)]
  rw [e1, e2] at h
  exact h

theorem zpow_toNat (d : Int) (hd : 0 ≤ d) : (2 : ℚ) ^ d.toNat = 2 ^ d := by
  rw [← zpow_natCast]
  congr 1
  omega

theorem add_err (a b : F) : |val (add a b) - (val a + val b)| ≤ |val a + val b| * u := by
  have hu := u_pos
  unfold add
  by_cases ha : a.m = 0
  · simp only [ha, beq_self_eq_true, ↓reduceIte]
    have : val a = 0 := by simp [val, ha]
    rw [this, val_bad, zero_add, sub_self, abs_zero]
    positivity
  · by_cases hb : b.m = 0
    · have h1 : (a.m == 0) = false := by simp [ha]
      simp only [h1, hb, beq_self_eq_true, Bool.false_eq_true, ↓reduceIte]
      have : val b = 0 := by simp [val, hb]
      rw [this, val_bad, add_zero, sub_self, abs_zero]
      positivity
    · have h1 : (a.m == 0) = false := by simp [ha]
      have h2 : (b.m == 0) = false := by simp [hb]
      simp only [h1, h2, Bool.false_eq_true, ↓reduceIte]
      have h := rnd24_err (a.m * (2 : Int) ^ (a.e - min a.e b.e).toNat + b.m * (2 : Int) ^ (b.e - min a.e b.e).toNat) (min a.e b.e)
        (a.bad || b.bad)
      have e1 : ((a.m * (2 : Int) ^ (a.e - min a.e b.e).toNat + b.m * (2 : Int) ^ (b.e - min a.e b.e).toNat : Int) : ℚ) *
          2 ^ (min a.e b.e) = val a + val b := by
        unfold val
        push_cast
        rw [zpow_toNat _ (by omega), zpow_toNat _ (by omega), add_mul, mul_assoc, mul_assoc,
          ← zpow_add₀ (by norm_num : (2 : ℚ) ≠ 0), ← zpow_add₀ (by norm_num : (2 : ℚ) ≠ 0)]
        congr 2 <;> congr 1 <;> omega
      have e2 : |((a.m * (2 : Int) ^ (a.e - min a.e b.e).toNat + b.m * (2 : Int) ^ (b.e - min a.e b.e).toNat : Int) : ℚ)| *
          2 ^ (min a.e b.e) = |val a + val b| := by
        rw [← e1, abs_mul, abs_of_pos (two_zpow_pos _)]
      rw [e1, e2] at h
      exact h

theorem quarter_err (a : F) : |val (quarter a) - val a / 4| ≤ |val a / 4| * u := by
  have hu := u_pos
  unfold quarter
  by_cases ha : a.m = 0
  · simp only [ha, beq_self_eq_true, ↓reduceIte]
    have : val a = 0 := by simp [val, ha]
    rw [this]; simp
  · have h1 : (a.m == 0) = false := by simp [ha]
    simp only [h1, Bool.false_eq_true, ↓reduceIte]
    have h := rnd24_err a.m (a.e - 2) a.bad
    have e1 : (a.m : ℚ) * 2 ^ (a.e - 2) = val a / 4 := by
      unfold val
      rw [zpow_sub₀ (by norm_num : (2 : ℚ) ≠ 0)]
      norm_num
      ring
    have e2 : |(a.m : ℚ)| * 2 ^ (a.e - 2) = |val a / 4| := by
      rw [← e1, abs_mul, abs_of_pos (two_zpow_pos _)]
    rw [e1, e2] at h
    exact h

theorem halfSignum_val (a : F) : val (halfSignum a) = if a.m < 0 then -(1 / 2) else 1 / 2 := by
  unfold halfSignum
  split <;> simp [val]

theorem ofInt_err (i : Int) : |val (ofInt i) - (i : ℚ)| ≤ |(i : ℚ)| * u := by
  have h := rnd24_err i 0 false
  simpa [ofInt] using h

theorem val_zero : val F32.zero = 0 := by simp [val, F32.zero]

/-- bounds on a computed sum from the bound on the exact one -/
theorem add_bounds (a b : F) (M : ℚ) (hM : |val a + val b| ≤ M) :
    |val (add a b) - (val a + val b)| ≤ M * u ∧ |val (add a b)| ≤ M * (1 + u) := by
  have h := add_err a b
  have hu := u_pos
  have h1 : |val (add a b) - (val a + val b)| ≤ M * u := le_trans h (mul_le_mul_of_nonneg_right hM (le_of_lt hu))
  refine ⟨h1, ?_⟩
  have : |val (add a b)| ≤ |val (add a b) - (val a + val b)| + |val a + val b| := by
    have := abs_add_le (val (add a b) - (val a + val b)) (val a + val b)
    simpa using this
  linarith

/-- **a running sum of up to eight terms**, each term known to within `ep` and bounded by `2A`: after `n` terms the sum is known
to within `n (ep + 26 A u)` and bounded by `3 A n` -/
theorem fold_err (g : Nat → F) (w : Nat → ℚ) (A ep : ℚ) (hA : 0 ≤ A) :
    ∀ (l : List Nat), (∀ f ∈ l, |val (g f) - w f| ≤ ep ∧ |val (g f)| ≤ 2 * A) →
      ∀ (acc : F) (S : ℚ) (n : Nat), n + l.length ≤ 8 → |val acc - S| ≤ n * (ep + 26 * A * u) → |val acc| ≤ 3 * A * n →
      |val (l.foldl (fun acc f => add acc (g f)) acc) - (S + (l.map w).sum)| ≤ ((n + l.length : Nat) : ℚ) * (ep + 26 * A * u) ∧
      |val (l.foldl (fun acc f => add acc (g f)) acc)| ≤ 3 * A * ((n + l.length : Nat) : ℚ) := by
  have hu := u_pos
  intro l
  induction l with
  | nil => intro _ acc S n _ h1 h2; simpa using ⟨h1, h2⟩
  | cons f fs ih =>
    intro hg acc S n hn h1 h2
    simp only [List.length_cons] at hn
    simp only [List.foldl_cons, List.map_cons, List.sum_cons]
    obtain ⟨g1, g2⟩ := hg f (by simp)
    have hnq : (n : ℚ) ≤ 7 := by exact_mod_cast (show n ≤ 7 by omega)
    have hn0 : (0 : ℚ) ≤ n := by positivity
    have hAu : 0 ≤ A * u := by positivity
    have hM : |val acc + val (g f)| ≤ 3 * A * n + 2 * A := le_trans (abs_add_le _ _) (by linarith)
    obtain ⟨b1, b2⟩ := add_bounds acc (g f) _ hM
    have hnAu : (n : ℚ) * (A * u) ≤ 7 * (A * u) := mul_le_mul_of_nonneg_right hnq hAu
    have hnA : 0 ≤ (n : ℚ) * A := by positivity
    have e1 : |val (add acc (g f)) - (S + w f)| ≤ ((n + 1 : Nat) : ℚ) * (ep + 26 * A * u) := by
      have t : val (add acc (g f)) - (S + w f) =
          (val (add acc (g f)) - (val acc + val (g f))) + (val acc - S) + (val (g f) - w f) := by ring
      rw [t]
      have := abs_add_three (val (add acc (g f)) - (val acc + val (g f))) (val acc - S) (val (g f) - w f)
      push_cast
      nlinarith
    have e2 : |val (add acc (g f))| ≤ 3 * A * ((n + 1 : Nat) : ℚ) := by
      push_cast
      have hu1 : u ≤ 1 / 23 := by unfold u; norm_num
      nlinarith
    have := ih (fun f' hf' => hg f' (by simp [hf'])) (add acc (g f)) (S + w f) (n + 1) (by omega) e1 e2
    have e3 : S + w f + (fs.map w).sum = S + (w f + (fs.map w).sum) := by ring
    have e4 : n + 1 + fs.length = n + (fs.length + 1) := by omega
    rw [e3, e4] at this
    exact this

open H263V.Idct in
/-- the table entries are below one in magnitude -/
theorem basis_abs (f i : Nat) : |val (basis f i)| ≤ 1 := by
  obtain ⟨_, hz | ⟨_, hc⟩⟩ := basis_bnd f i
  · simp [val, hz]
  · unfold val
    rw [abs_mul, abs_of_pos (two_zpow_pos _), abs_cast]
    have h1 : ((basis f i).m.natAbs : ℚ) < 2 ^ (bitlen (basis f i).m.natAbs) := by exact_mod_cast lt_pow_bitlen _
    have h2 : (2 : ℚ) ^ (basis f i).e ≤ 2 ^ (-(bitlen (basis f i).m.natAbs : ℤ)) :=
      zpow_le_zpow_right₀ (by norm_num) (by omega)
    have h3 : (2 : ℚ) ^ (bitlen (basis f i).m.natAbs) * 2 ^ (-(bitlen (basis f i).m.natAbs : ℤ)) = 1 := by
      rw [← zpow_natCast, ← zpow_add₀ (by norm_num : (2 : ℚ) ≠ 0)]; simp
    have hp := two_zpow_pos (basis f i).e
    have hn : (0 : ℚ) ≤ (basis f i).m.natAbs := by positivity
    calc ((basis f i).m.natAbs : ℚ) * 2 ^ (basis f i).e
        ≤ 2 ^ (bitlen (basis f i).m.natAbs) * 2 ^ (basis f i).e := mul_le_mul_of_nonneg_right (le_of_lt h1) (le_of_lt hp)
      _ ≤ 2 ^ (bitlen (basis f i).m.natAbs) * 2 ^ (-(bitlen (basis f i).m.natAbs : ℤ)) :=
          mul_le_mul_of_nonneg_left h2 (by positivity)
      _ = 1 := h3

open H263V.Idct in
/-- **one 1-D transform**: inputs known to within `ε` and bounded by `A` give outputs known to within `8 (ε + 27 A u)` of the exact
dot product with the table, bounded by `24 A` -/
theorem idct1d_err (inp : Array F) (v : Nat → ℚ) (A ε : ℚ) (hA : 0 ≤ A) (hε : 0 ≤ ε)
    (hin : ∀ f, f < 8 → |val (inp.getD f F32.zero) - v f| ≤ ε ∧ |val (inp.getD f F32.zero)| ≤ A) (i : Nat) (hi : i < 8) :
    |val ((idct1d inp).getD i F32.zero) - ((List.range 8).map fun f => v f * val (basis f i)).sum| ≤ 8 * (ε + 27 * A * u) ∧
    |val ((idct1d inp).getD i F32.zero)| ≤ 24 * A := by
  have hu := u_pos
  have hu1 : u ≤ 1 := by unfold u; norm_num
  unfold idct1d
  rw [getD_ofFn, dif_pos hi]
  simp only
  have hg : ∀ f ∈ List.range 8, |val (mul (inp.getD f F32.zero) (basis f i)) - v f * val (basis f i)| ≤ (ε + A * u) ∧
      |val (mul (inp.getD f F32.zero) (basis f i))| ≤ 2 * A := by
    intro f hf
    rw [List.mem_range] at hf
    obtain ⟨h1, h2⟩ := hin f hf
    have hb := basis_abs f i
    have hm := mul_err (inp.getD f F32.zero) (basis f i)
    have hprod : |val (inp.getD f F32.zero) * val (basis f i)| ≤ A := by
      rw [abs_mul]
      calc |val (inp.getD f F32.zero)| * |val (basis f i)| ≤ A * 1 := mul_le_mul h2 hb (abs_nonneg _) hA
        _ = A := mul_one A
    have hm' : |val (mul (inp.getD f F32.zero) (basis f i)) - val (inp.getD f F32.zero) * val (basis f i)| ≤ A * u :=
      le_trans hm (mul_le_mul_of_nonneg_right hprod (le_of_lt hu))
    have hd : |val (inp.getD f F32.zero) * val (basis f i) - v f * val (basis f i)| ≤ ε := by
      rw [← sub_mul, abs_mul]
      calc |val (inp.getD f F32.zero) - v f| * |val (basis f i)| ≤ ε * 1 := mul_le_mul h1 hb (abs_nonneg _) hε
        _ = ε := mul_one ε
    constructor
    · have t : val (mul (inp.getD f F32.zero) (basis f i)) - v f * val (basis f i) =
          (val (mul (inp.getD f F32.zero) (basis f i)) - val (inp.getD f F32.zero) * val (basis f i)) +
          (val (inp.getD f F32.zero) * val (basis f i) - v f * val (basis f i)) := by ring
      rw [t]
      have := abs_add_le (val (mul (inp.getD f F32.zero) (basis f i)) - val (inp.getD f F32.zero) * val (basis f i))
        (val (inp.getD f F32.zero) * val (basis f i) - v f * val (basis f i))
      linarith
    · have : |val (mul (inp.getD f F32.zero) (basis f i))| ≤
          |val (mul (inp.getD f F32.zero) (basis f i)) - val (inp.getD f F32.zero) * val (basis f i)| +
          |val (inp.getD f F32.zero) * val (basis f i)| := by
        have := abs_add_le (val (mul (inp.getD f F32.zero) (basis f i)) - val (inp.getD f F32.zero) * val (basis f i))
          (val (inp.getD f F32.zero) * val (basis f i))
        simpa using this
      nlinarith
  have := fold_err (fun f => mul (inp.getD f F32.zero) (basis f i)) (fun f => v f * val (basis f i)) A (ε + A * u) hA
    (List.range 8) hg F32.zero 0 0 (by simp) (by simp [val_zero]) (by simp [val_zero])
  simp only [zero_add, List.length_range] at this
  obtain ⟨t1, t2⟩ := this
  constructor
  · have e : ((8 : Nat) : ℚ) * (ε + A * u + 26 * A * u) = 8 * (ε + 27 * A * u) := by push_cast; ring
    rw [e] at t1; exact t1
  · have e : 3 * A * ((8 : Nat) : ℚ) = 24 * A := by push_cast; ring
    rw [e] at t2; exact t2

theorem tdiv_bounds (m D : Int) (hD : 0 < D) :
    (0 ≤ m → (m : ℚ) / D - 1 < (m.tdiv D : ℚ) ∧ (m.tdiv D : ℚ) ≤ (m : ℚ) / D) ∧
    (m ≤ 0 → (m : ℚ) / D ≤ (m.tdiv D : ℚ) ∧ (m.tdiv D : ℚ) < (m : ℚ) / D + 1) := by
  have hdm := Int.mul_tdiv_add_tmod m D
  have hDq : (0 : ℚ) < D := by exact_mod_cast hD
  have hq : (m : ℚ) / D = (m.tdiv D : ℚ) + (m.tmod D : ℚ) / D := by
    have : (m : ℚ) = (D : ℚ) * (m.tdiv D : ℚ) + (m.tmod D : ℚ) := by exact_mod_cast hdm.symm
    rw [this, add_div, mul_div_cancel_left₀ _ (ne_of_gt hDq)]
  constructor
  · intro hm
    have h1 : (0 : ℚ) ≤ (m.tmod D : ℚ) := by exact_mod_cast Int.tmod_nonneg D hm
    have h2 : ((m.tmod D : Int) : ℚ) < D := by exact_mod_cast Int.tmod_lt_of_pos m hD
    have h3 : 0 ≤ (m.tmod D : ℚ) / D := by positivity
    have h4 : (m.tmod D : ℚ) / D < 1 := by rw [div_lt_one hDq]; exact h2
    constructor <;> linarith
  · intro hm
    have h1 : ((m.tmod D : Int) : ℚ) ≤ 0 := by
      have e1 := Int.neg_tmod (-m) D
      rw [Int.neg_neg] at e1
      have e2 := Int.tmod_nonneg D (show 0 ≤ -m by omega)
      have : m.tmod D ≤ 0 := by omega
      exact_mod_cast this
    have h2 : -(D : ℚ) < ((m.tmod D : Int) : ℚ) := by exact_mod_cast Int.lt_tmod_of_pos m hD
    have h3 : (m.tmod D : ℚ) / D ≤ 0 := div_nonpos_of_nonpos_of_nonneg h1 (le_of_lt hDq)
    have h4 : -1 < (m.tmod D : ℚ) / D := by
      rw [lt_div_iff₀ hDq]; linarith
    constructor <;> linarith

/-- truncation toward zero moves a value by less than one, toward zero -/
theorem trunc_bounds (a : F) :
    (0 ≤ val a → val a - 1 < (trunc a : ℚ) ∧ (trunc a : ℚ) ≤ val a) ∧
    (val a ≤ 0 → val a ≤ (trunc a : ℚ) ∧ (trunc a : ℚ) < val a + 1) := by
  unfold trunc
  by_cases he : a.e ≥ 0
  · rw [if_pos he]
    have : ((a.m * (2 : Int) ^ a.e.toNat : Int) : ℚ) = val a := by
      unfold val; push_cast; rw [zpow_toNat _ he]
    rw [this]
    constructor <;> intro _ <;> constructor <;> linarith
  · rw [if_neg he]
    have hd : (0 : Int) < (2 : Int) ^ (-a.e).toNat := by positivity
    have hval : val a = (a.m : ℚ) / (((2 : Int) ^ (-a.e).toNat : Int) : ℚ) := by
      unfold val
      push_cast
      rw [zpow_toNat _ (by omega), zpow_neg, div_eq_mul_inv, inv_inv]
    have hsign : (0 ≤ val a ↔ 0 ≤ a.m) ∧ (val a ≤ 0 ↔ a.m ≤ 0) := by
      unfold val
      have hp := two_zpow_pos a.e
      constructor
      · constructor
        · intro h
          have : (0 : ℚ) ≤ a.m := by
            by_contra hc
            have hc := lt_of_not_ge hc
            have := mul_neg_of_neg_of_pos hc hp
            linarith
          exact_mod_cast this
        · intro h
          have : (0 : ℚ) ≤ a.m := by exact_mod_cast h
          positivity
      · constructor
        · intro h
          have : (a.m : ℚ) ≤ 0 := by
            by_contra hc
            have hc := lt_of_not_ge hc
            have := mul_pos hc hp
            linarith
          exact_mod_cast this
        · intro h
          have : (a.m : ℚ) ≤ 0 := by exact_mod_cast h
          exact mul_nonpos_of_nonpos_of_nonneg this (le_of_lt hp)
    obtain ⟨t1, t2⟩ := tdiv_bounds a.m _ hd
    rw [hval]
    rw [hval] at hsign
    exact ⟨fun h => t1 (hsign.1.1 h), fun h => t2 (hsign.2.1 h)⟩

end H263V.Lemmas.F32Err
