import H263V.Model.State
import H263V.Lemmas.Store
namespace H263V.Lemmas.PlaneInv
open H263V H263V.Gather H263V.State H263V.Idct

def Bytes (a : Array Nat) : Prop := ∀ i (h : i < a.size), a[i] < 256

/-- a plane of a fixed size holding bytes -/
def Plane (n : Nat) (a : Array Nat) : Prop := a.size = n ∧ Bytes a

theorem foldlM_inv {α β : Type} (P : α → Prop) (f : α → β → Out α) (l : List β)
    (hstep : ∀ a b a', P a → f a b = .ok a' → P a') :
    ∀ (init r : α), P init → l.foldlM f init = .ok r → P r := by
  induction l with
  | nil => intro init r hp h; simp [List.foldlM] at h; rw [← h]; exact hp
  | cons b bs ih =>
    intro init r hp h
    rw [List.foldlM_cons] at h
    cases hf : f init b with
    | ok a' =>
      rw [hf] at h
      simp only [Out.bind_ok] at h
      exact ih a' r (hstep init b a' hp hf) h
    | err e => rw [hf] at h; simp at h
    | panic s => rw [hf] at h; simp at h
    | fuel => rw [hf] at h; simp at h

theorem plane_set (n : Nat) (a : Array Nat) (h : Plane n a) (i v : Nat) (hv : v < 256) : Plane n (a.set! i v) := by
  obtain ⟨hs, hb⟩ := h
  refine ⟨by simp [hs], ?_⟩
  intro j hj
  have hj' : j < a.size := by simpa using hj
  have : (a.set! i v)[j] = if i = j then v else a[j] := by
    simp [Array.set!_eq_setIfInBounds, Array.getElem_setIfInBounds, hj']
  rw [this]
  split
  · exact hv
  · exact hb j hj'

theorem clampU8_lt (v : Int) : clampU8 v < 256 := by
  unfold clampU8; split
  · omega
  · split <;> omega

theorem addBlock_plane (n : Nat) (out : Array Nat) (spl xb yb xs ys : Nat) (res : Nat → Nat → Int) (r : Array Nat)
    (hp : Plane n out) (h : addBlock out spl xb yb xs ys res = .ok r) : Plane n r := by
  unfold addBlock at h
  refine foldlM_inv (Plane n) _ (List.range ys) ?_ out r hp h
  intro a yo a' ha hstep
  refine foldlM_inv (Plane n) _ (List.range xs) ?_ a a' ha hstep
  intro o xo o' ho hs
  simp only at hs
  split at hs
  · simp only [Out.ok.injEq] at hs; rw [← hs]; exact plane_set n o ho _ _ (clampU8_lt _)
  · simp at hs

theorem idctChannel_plane (n : Nat) (levels : Array Rle.Dct) (out : Array Nat) (bpl spl : Nat) (r : Array Nat)
    (hp : Plane n out) (h : idctChannel levels out bpl spl = .ok r) : Plane n r := by
  unfold idctChannel at h
  split at h
  · simp at h
  · split at h
    · simp at h
    · refine foldlM_inv (Plane n) _ _ ?_ out r hp h
      intro a yb a' ha hstep
      refine foldlM_inv (Plane n) _ _ ?_ a a' ha hstep
      intro o xb o' ho hs
      simp only at hs
      split at hs
      · simp only [Out.ok.injEq] at hs; rw [← hs]; exact ho
      · split at hs
        · simp only [Out.ok.injEq] at hs; rw [← hs]; exact ho
        · split at hs
          · simp at hs
          · exact addBlock_plane n o _ _ _ _ _ _ o' ho hs

end H263V.Lemmas.PlaneInv

namespace H263V.Lemmas.PlaneInv
open H263V H263V.Gather H263V.State H263V.Idct H263V.Mv

theorem foldl_inv {α β : Type} (P : α → Prop) (f : α → β → α) (l : List β) (hstep : ∀ a b, P a → P (f a b)) :
    ∀ init, P init → P (l.foldl f init) := by
  induction l with
  | nil => intro init h; exact h
  | cons b bs ih => intro init h; exact ih _ (hstep _ _ h)

theorem bytes_getD (a : Array Nat) (h : Bytes a) (i : Nat) : a.getD i 0 < 256 := by
  by_cases hi : i < a.size
  · simp [Array.getD, hi]; exact h i hi
  · simp [Array.getD, hi]

theorem readSample_byte (px : Array Nat) (hpx : Bytes px) (spr rows : Nat) (x y : Int) (v : Nat)
    (h : readSample px spr rows x y = .ok v) : v < 256 := by
  unfold readSample at h
  simp only at h
  split at h
  · rename_i v' hv
    simp only [Out.ok.injEq] at h
    subst h
    have := Array.getElem?_eq_some_iff.mp hv
    obtain ⟨hlt, he⟩ := this
    rw [← he]; exact hpx _ hlt
  · simp at h

theorem setChecked_plane (n : Nat) (t : Array Nat) (i v : Nat) (r : Array Nat) (hp : Plane n t) (hv : v < 256)
    (h : setChecked t i v = .ok r) : Plane n r := by
  unfold setChecked at h
  split at h
  · simp only [Out.ok.injEq] at h; rw [← h]; exact plane_set n t hp i v hv
  · simp at h

theorem lerp_byte (a b : Nat) (m : Bool) (ha : a < 256) (hb : b < 256) : lerp a b m < 256 := by
  unfold lerp; split <;> omega

theorem gatherBlock_plane (n : Nat) (px : Array Nat) (hpx : Bytes px) (spr : Nat) (pos : Nat × Nat) (mv : Mb.Mv)
    (target r : Array Nat) (hp : Plane n target) (h : gatherBlock px spr pos mv target = .ok r) : Plane n r := by
  unfold gatherBlock at h
  split at h
  · simp at h
  · simp only at h
    split at h
    · split at h
      · -- fast path
        refine foldlM_inv (Plane n) _ _ ?_ target r hp h
        intro t j t' ht hs
        try simp only at hs
        split at hs
        · simp only [Out.ok.injEq] at hs
          rw [← hs]
          exact foldl_inv (Plane n) _ _ (fun a i ha => plane_set n a ha _ _ (bytes_getD px hpx _)) t ht
        · simp at hs
      · refine foldlM_inv (Plane n) _ _ ?_ target r hp h
        intro t j t' ht hs
        refine foldlM_inv (Plane n) _ _ ?_ t t' ht hs
        intro o i o' ho hs2
        try simp only at hs2
        cases hr : readSample px spr (px.size / spr) ((pos.1 : Int) + (lerpParams mv.1).1 + (i : Nat)) ((pos.2 : Int) + (lerpParams mv.2).1 + (j : Nat)) with
        | ok v =>
          rw [hr] at hs2
          simp only [Out.bind_ok] at hs2
          exact setChecked_plane n o _ v o' ho (readSample_byte px hpx _ _ _ _ v hr) hs2
        | err e => rw [hr] at hs2; simp at hs2
        | panic s => rw [hr] at hs2; simp at hs2
        | fuel => rw [hr] at hs2; simp at hs2
    · refine foldlM_inv (Plane n) _ _ ?_ target r hp h
      intro t j t' ht hs
      refine foldlM_inv (Plane n) _ _ ?_ t t' ht hs
      intro o i o' ho hs2
      try simp only at hs2
      -- four samples, each a byte
      generalize hu : ((pos.1 : Int) + (lerpParams mv.1).1 + (i : Nat)) = u at hs2
      generalize hv : ((pos.2 : Int) + (lerpParams mv.2).1 + (j : Nat)) = vv at hs2
      cases h00 : readSample px spr (px.size / spr) u vv with
      | ok s00 =>
        rw [h00] at hs2; simp only [Out.bind_ok] at hs2
        cases h10 : readSample px spr (px.size / spr) (u + 1) vv with
        | ok s10 =>
          rw [h10] at hs2; simp only [Out.bind_ok] at hs2
          cases h01 : readSample px spr (px.size / spr) u (vv + 1) with
          | ok s01 =>
            rw [h01] at hs2; simp only [Out.bind_ok] at hs2
            cases h11 : readSample px spr (px.size / spr) (u + 1) (vv + 1) with
            | ok s11 =>
              rw [h11] at hs2; simp only [Out.bind_ok] at hs2
              have b00 := readSample_byte px hpx _ _ _ _ _ h00
              have b10 := readSample_byte px hpx _ _ _ _ _ h10
              have b01 := readSample_byte px hpx _ _ _ _ _ h01
              have b11 := readSample_byte px hpx _ _ _ _ _ h11
              refine setChecked_plane n o _ _ o' ho ?_ hs2
              split
              · omega
              · exact lerp_byte _ _ _ (lerp_byte _ _ _ b00 b10) (lerp_byte _ _ _ b01 b11)
            | err e => rw [h11] at hs2; simp at hs2
            | panic s => rw [h11] at hs2; simp at hs2
            | fuel => rw [h11] at hs2; simp at hs2
          | err e => rw [h01] at hs2; simp at hs2
          | panic s => rw [h01] at hs2; simp at hs2
          | fuel => rw [h01] at hs2; simp at hs2
        | err e => rw [h10] at hs2; simp at hs2
        | panic s => rw [h10] at hs2; simp at hs2
        | fuel => rw [h10] at hs2; simp at hs2
      | err e => rw [h00] at hs2; simp at hs2
      | panic s => rw [h00] at hs2; simp at hs2
      | fuel => rw [h00] at hs2; simp at hs2

end H263V.Lemmas.PlaneInv

namespace H263V.Lemmas.PlaneInv
open H263V H263V.Gather H263V.State H263V.Idct H263V.Mv

/-- a decoded picture whose planes have the sizes that go with its format and hold bytes -/
def PicOK (p : DecPic) : Prop :=
  ∃ w h, 1 ≤ w ∧ 1 ≤ h ∧ p.fmt.dims = some (w, h) ∧ Plane (w * h) p.luma ∧
    Plane (((w + 1) / 2) * ((h + 1) / 2)) p.cb ∧ Plane (((w + 1) / 2) * ((h + 1) / 2)) p.cr ∧ p.chromaSpr = (w + 1) / 2

/-- sizes only (what the motion compensation step preserves when it is given a reference with byte planes) -/
def Shape (p : DecPic) (fmt : SrcFmt) (nl nc spr : Nat) : Prop :=
  p.fmt = fmt ∧ Plane nl p.luma ∧ Plane nc p.cb ∧ Plane nc p.cr ∧ p.chromaSpr = spr

theorem gather_shape (types : Array MbType) (ref : Option DecPic) (href : ∀ r, ref = some r → PicOK r) (mvs : Array Mv4)
    (mbPerLine : Nat) (pic r : DecPic) (fmt : SrcFmt) (nl nc spr : Nat) (hp : Shape pic fmt nl nc spr)
    (h : gather types ref mvs mbPerLine pic = .ok r) : Shape r fmt nl nc spr := by
  unfold gather at h
  refine foldlM_inv (fun p => Shape p fmt nl nc spr) _ _ ?_ pic r hp h
  intro p i p' hps hs
  simp only at hs
  split at hs
  · cases href' : ref with
    | none => rw [href'] at hs; simp at hs
    | some rp =>
      rw [href'] at hs
      simp only at hs
      obtain ⟨w, hh, _, _, hd, hl, hcb, hcr, _⟩ := href rp href'
      split at hs
      · simp at hs
      · rw [hd] at hs
        simp only at hs
        split at hs
        · simp at hs
        · obtain ⟨pf, pl, pb, pr, ps⟩ := hps
          -- six gatherBlock calls
          simp only [bind, Out.bind] at hs
          repeat' split at hs
          all_goals (try (simp at hs; done))
          rename_i x1 l1 e1 x2 l2 e2 x3 l3 e3 x4 l4 e4 x5 b5 e5 x6 c6 e6
          simp only [pure, Out.ok.injEq] at hs
          rw [← hs]
          have q1 := gatherBlock_plane nl rp.luma hl.2 _ _ _ _ _ pl e1
          have q2 := gatherBlock_plane nl rp.luma hl.2 _ _ _ _ _ q1 e2
          have q3 := gatherBlock_plane nl rp.luma hl.2 _ _ _ _ _ q2 e3
          have q4 := gatherBlock_plane nl rp.luma hl.2 _ _ _ _ _ q3 e4
          have q5 := gatherBlock_plane nc rp.cb hcb.2 _ _ _ _ _ pb e5
          have q6 := gatherBlock_plane nc rp.cr hcr.2 _ _ _ _ _ pr e6
          exact ⟨pf, q4, q5, q6, ps⟩
  · simp only [Out.ok.injEq] at hs; rw [← hs]; exact hps

theorem reconstruct_shape (types : Array MbType) (ref : Option DecPic) (href : ∀ r, ref = some r → PicOK r) (mvs : Array Mv4)
    (mbPerLine w : Nat) (pic r : DecPic) (lv1 lv2 lv3 : Array Rle.Dct) (fmt : SrcFmt) (nl nc spr : Nat)
    (hp : Shape pic fmt nl nc spr) (h : reconstruct types ref mvs mbPerLine w pic lv1 lv2 lv3 = .ok r) :
    Shape r fmt nl nc spr := by
  unfold reconstruct at h
  simp only [bind, Out.bind] at h
  repeat' split at h
  all_goals (try (simp at h; done))
  rename_i x1 p1 e1 x2 l e2 x3 b e3 x4 c e4
  simp only [pure, Out.ok.injEq] at h
  rw [← h]
  obtain ⟨pf, pl, pb, pr, ps⟩ := gather_shape types ref href mvs mbPerLine pic p1 fmt nl nc spr hp e1
  exact ⟨pf, idctChannel_plane nl _ _ _ _ _ pl e2, idctChannel_plane nc _ _ _ _ _ pb e3, idctChannel_plane nc _ _ _ _ _ pr e4, ps⟩

end H263V.Lemmas.PlaneInv

namespace H263V.Lemmas.PlaneInv
open H263V H263V.Gather H263V.State H263V.Idct H263V.Mv

/-- every stored picture is well-shaped -/
def StoreOK (s : State) : Prop := ∀ k p, lookup s.store k = some p → PicOK p

theorem new_shape (hdr : PicHdr) (fmt : SrcFmt) (w h : Nat) (hd : fmt.dims = some (w, h)) (p : DecPic)
    (hn : DecPic.new hdr fmt = some p) :
    Shape p fmt (w * h) (((w + 1) / 2) * ((h + 1) / 2)) ((w + 1) / 2) := by
  unfold DecPic.new at hn
  simp only [hd, Option.some.injEq] at hn
  rw [← hn]
  refine ⟨rfl, ⟨by simp, ?_⟩, ⟨by simp, ?_⟩, ⟨by simp, ?_⟩, rfl⟩ <;> (intro i hi; simp)

theorem decodeCore_picOK (s : State) (hs : StoreOK s) (c : Cur) (hdr : PicHdr) (pic : DecPic) (c' : Cur)
    (h : decodeCore s c = .ok (hdr, pic, c')) : PicOK pic := by
  have href : ∀ r, s.getRef = some r → PicOK r := by
    intro r hr
    unfold State.getRef at hr
    cases hk : s.ref with
    | none => rw [hk] at hr; simp at hr
    | some k => rw [hk] at hr; simp only [Option.bind_some] at hr; exact hs k r hr
  unfold decodeCore at h
  simp only [bind, Out.bind] at h
  repeat' split at h
  all_goals (try (simp at h; done))
  all_goals
    rename_i hdims hzero _ pic0 hnew _ _ _ _ _ hrec
    simp only [pure, Out.ok.injEq, Prod.mk.injEq] at h
    obtain ⟨_, hp, _⟩ := h
    rw [← hp]
    rename_i w hh _ _ _ _ _ _ _
    have hsh := new_shape _ _ _ _ hdims pic0 hnew
    obtain ⟨pf, pl, pb, pr, ps⟩ := reconstruct_shape _ _ href _ _ _ _ _ _ _ _ _ _ _ _ hsh hrec
    exact ⟨_, _, by omega, by omega, by rw [pf]; exact hdims, pl, pb, pr, ps⟩

end H263V.Lemmas.PlaneInv

namespace H263V.Lemmas.PlaneInv
open H263V H263V.Gather H263V.State H263V.Idct H263V.Mv H263V.Lemmas.Store

theorem cleanup_lookup (s : State) (k : Nat) (p : DecPic) (h : lookup s.cleanup.store k = some p) : lookup s.store k = some p := by
  unfold State.cleanup at h
  simp only at h
  cases hl : s.last with
  | none =>
    rw [hl] at h
    simp only [Option.bind_none] at h
    cases hr : s.ref with
    | none => rw [hr] at h; simp [lookup_nil] at h
    | some kr =>
      rw [hr] at h
      simp only [Option.bind_some] at h
      cases hq : lookup s.store kr with
      | none => rw [hq] at h; simp [lookup_nil] at h
      | some pr =>
        rw [hq] at h
        simp only [Option.map_some, lookup_insert, lookup_nil] at h
        split at h
        · rename_i hk; subst hk; rw [hq]; exact h
        · simp at h
  | some kl =>
    rw [hl] at h
    simp only [Option.bind_some] at h
    cases hp : lookup s.store kl with
    | none =>
      rw [hp] at h
      simp only [Option.map_none] at h
      cases hr : s.ref with
      | none => rw [hr] at h; simp [lookup_nil] at h
      | some kr =>
        rw [hr] at h
        simp only [Option.bind_some, lookup_filter] at h
        by_cases hkk : kr = kl
        · simp [hkk, lookup_nil] at h
        · simp only [hkk, ↓reduceIte] at h
          cases hq : lookup s.store kr with
          | none => rw [hq] at h; simp [lookup_nil] at h
          | some pr =>
            rw [hq] at h
            simp only [Option.map_some, lookup_insert, lookup_nil] at h
            split at h
            · rename_i hk; subst hk; rw [hq]; exact h
            · simp at h
    | some pl =>
      rw [hp] at h
      simp only [Option.map_some] at h
      cases hr : s.ref with
      | none =>
        rw [hr] at h
        simp only [Option.bind_none, lookup_insert, lookup_nil] at h
        split at h
        · rename_i hk; subst hk; rw [hp]; exact h
        · simp at h
      | some kr =>
        rw [hr] at h
        simp only [Option.bind_some, lookup_filter] at h
        by_cases hkk : kr = kl
        · simp only [hkk, ↓reduceIte, Option.map_none, lookup_insert, lookup_nil] at h
          split at h
          · rename_i hk; subst hk; rw [hp]; exact h
          · simp at h
        · simp only [hkk, ↓reduceIte] at h
          cases hq : lookup s.store kr with
          | none =>
            rw [hq] at h
            simp only [Option.map_none, lookup_insert, lookup_nil] at h
            split at h
            · rename_i hk; subst hk; rw [hp]; exact h
            · simp at h
          | some pr =>
            rw [hq] at h
            simp only [Option.map_some, lookup_insert, lookup_nil] at h
            split at h
            · rename_i hk; subst hk; rw [hq]; exact h
            · split at h
              · rename_i hk; subst hk; rw [hp]; exact h
              · simp at h

theorem commit_storeOK (s : State) (hs : StoreOK s) (hdr : PicHdr) (pic : DecPic) (hp : PicOK pic) :
    StoreOK (commitPic s hdr pic) ∧ (commitPic s hdr pic).getLast = some pic := by
  constructor
  · intro k p hk
    unfold commitPic at hk
    have := cleanup_lookup _ k p hk
    simp only [lookup_insert] at this
    by_cases hkk : k = (hdr.tr ||| if hdr.picType.isDisposable = true then 32768 else 0)
    · simp only [hkk, ↓reduceIte, Option.some.injEq] at this; rw [← this]; exact hp
    · simp only [hkk, ↓reduceIte] at this; exact hs k p this
  · unfold commitPic
    simp only [cleanup_getLast]
    simp [State.getLast, lookup_insert]

/-- Every successful decode keeps all stored pictures well-shaped and makes the decoded picture — with planes of exactly the
signalled sizes holding bytes, and both dimensions at least one — the last picture. -/
theorem decode_storeOK (s : State) (hs : StoreOK s) (c : Cur) (s' : State) (c' : Cur)
    (h : decodeNextPicture s c = .ok (s', c')) : StoreOK s' ∧ ∃ p, s'.getLast = some p ∧ PicOK p := by
  unfold decodeNextPicture at h
  cases hc : decodeCore s c with
  | ok r =>
    obtain ⟨hdr, pic, c2⟩ := r
    rw [hc] at h
    simp only [Out.bind_ok, Out.pure_eq, Out.ok.injEq, Prod.mk.injEq] at h
    have hp := decodeCore_picOK s hs c hdr pic c2 hc
    obtain ⟨h1, h2⟩ := commit_storeOK s hs hdr pic hp
    rw [← h.1]
    exact ⟨h1, pic, h2, hp⟩
  | err e => rw [hc] at h; simp at h
  | panic m => rw [hc] at h; simp at h
  | fuel => rw [hc] at h; simp at h

theorem new_storeOK (o : DecOpts) : StoreOK (State.new o) := by
  intro k p h; simp [State.new, lookup] at h

end H263V.Lemmas.PlaneInv
