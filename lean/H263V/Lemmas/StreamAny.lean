/-
Streams of pictures of any flavour (Sorenson Spark, baseline H.263, H.263v2 with PLUSPTYPE): one call consumes exactly one picture,
and `n` calls on one reader decode the same pictures as one reader each.
-/
import H263V.Lemmas.BasePicture
import H263V.Lemmas.PlusPicture
namespace H263V.Lemmas.StreamAny
open H263V H263V.State H263V.Mb H263V.Spec.Vlc H263V.Spec.Syntax H263V.Spec.HeaderSpec
open H263V.Lemmas.RoundTrip H263V.Lemmas.PictureRoundTrip H263V.Lemmas.SorensonPicture H263V.Lemmas.BasePicture
open H263V.Lemmas.PlusPicture

/-- a picture description of any of the three header flavours -/
inductive Pic where
  | sor (p : SPic)
  | base (p : BPic)
  | plus (p : PPic)

def Pic.bits (s : State) : Pic → Bits
  | .sor p => p.bits
  | .base p => p.bits
  | .plus p => p.bits s

def Pic.picture (s : State) : Pic → PicHdr
  | .sor p => sorensonPicture p.hdr
  | .base p => basePicture p.hdr
  | .plus p => p.picture s

def Pic.mbs : Pic → List MbD
  | .sor p => p.mbs
  | .base p => p.mbs
  | .plus p => p.mbs

/-- validity in decoder state `s`: the flavour fits the decoder's mode, and the flavour's own conditions -/
def Pic.Valid (s : State) (w h : Nat) : Pic → Prop
  | .sor p => s.opts.sorenson = true ∧ p.Valid s.opts w h
  | .base p => s.opts = { sorenson := false, scalability := false } ∧ p.Valid s.opts w h ∧
      ∀ q, s.getLast = some q → q.hdr.format = some (stdFmt p.hdr.srcFmt)
  | .plus p => s.opts.sorenson = false ∧ p.Valid s w h

/-- **picture round trip, any flavour** -/
theorem decode_pic (s : State) (hr : s.running = 0) (p : Pic) (w h : Nat) (hv : p.Valid s w h) (rest : Bits) (pos : Nat) :
    decodeNextPicture s ⟨p.bits s ++ rest, pos⟩ =
      semCore s (p.picture s) p.mbs >>= fun r => .ok (commitPic s r.1 r.2, ⟨rest, pos + (p.bits s).length⟩) := by
  cases p with
  | sor p => exact decode_spic s hv.1 hr p w h hv.2 rest pos
  | base p => exact decode_bpic s hv.1 hr p w h hv.2.1 hv.2.2 rest pos
  | plus p => exact decode_ppic s hv.1 p w h hv.2 rest pos

/-- every picture starts with the start code -/
theorem bits_start (s : State) (p : Pic) : ∃ a, p.bits s = startCode ++ a := by
  cases p with
  | sor p => exact ⟨_, by unfold Pic.bits SPic.bits encodeSorensonHdr; simp only [List.append_assoc]; rfl⟩
  | base p => exact ⟨_, by unfold Pic.bits BPic.bits encodeBaseHdr; simp only [List.append_assoc]; rfl⟩
  | plus p => exact ⟨_, by unfold Pic.bits PPic.bits encodePlusHdr; simp only [List.append_assoc]; rfl⟩

/-- zero stuffing in front of a picture of any flavour, within the alignment window, is skipped: the call behaves exactly as the
call at the picture's start code -/
theorem decode_padded (s : State) (x : Bits) (k pos : Nat) (hk : k ≤ 7) (hwin : k ≤ realignmentBits ⟨[], pos⟩ + 1)
    (hdr : PicHdr) (c' : Cur)
    (hrt : Header.decodePicture s.opts (s.getLast.map (·.hdr)) ⟨startCode ++ x, pos + k⟩ = .ok (some hdr, c')) :
    decodeNextPicture s ⟨zeros k ++ (startCode ++ x), pos⟩ = decodeNextPicture s ⟨startCode ++ x, pos + k⟩ := by
  have hw : k ≤ realignmentBits ⟨zeros k ++ (startCode ++ x), pos⟩ + 1 := by
    unfold realignmentBits at hwin ⊢
    exact hwin
  have := decodePicture_zeros _ _ k x pos hk hw hdr c' hrt
  unfold decodeNextPicture decodeCore
  simp only [this, hrt]

/-- the header parse that `decode_pic` performs succeeds (needed to move the zero stuffing out of the way) -/
theorem header_ok (s : State) (p : Pic) (w h : Nat) (hv : p.Valid s w h) (rest : Bits) (pos : Nat) :
    ∃ c', Header.decodePicture s.opts (s.getLast.map (·.hdr)) ⟨p.bits s ++ rest, pos⟩ = .ok (some (p.picture s), c') := by
  cases p with
  | sor p =>
    obtain ⟨hs, hv⟩ := hv
    have hopts : s.opts = { sorenson := true, scalability := s.opts.scalability } := by
      cases ho : s.opts; rw [ho] at hs; simp only at hs; rw [hs]
    unfold Pic.bits SPic.bits Pic.picture
    rw [List.append_assoc, hopts]
    exact ⟨_, SorensonRoundTrip.round_trip p.hdr hv.hdr _ _ _ _⟩
  | base p =>
    obtain ⟨hs, hv, hprev⟩ := hv
    unfold Pic.bits BPic.bits Pic.picture
    rw [List.append_assoc, hs]
    exact ⟨_, BaseRoundTrip.round_trip p.hdr hv.hdr _ (by
      intro ph hph
      cases hl : s.getLast with
      | none => rw [hl] at hph; simp at hph
      | some q0 =>
        rw [hl] at hph
        simp only [Option.map_some, Option.some.injEq] at hph
        rw [← hph]; exact hprev q0 hl) _ _⟩
  | plus p =>
    obtain ⟨hs, hv⟩ := hv
    have hopts : s.opts = { sorenson := false, scalability := s.opts.scalability } := by
      cases ho : s.opts; rw [ho] at hs; simp only at hs; rw [hs]
    unfold Pic.bits PPic.bits Pic.picture
    rw [List.append_assoc, hopts]
    exact ⟨_, PlusHeader.plus_round_trip _ _ p.hdr hv.hdr _ _⟩

/-- **One call, one picture (any flavour).**  A valid picture preceded by up to seven zero stuffing bits inside the alignment
window and followed by anything decodes to the bit-free semantic result, and the reader is left exactly at what follows. -/
theorem decode_pic_padded (s : State) (hr : s.running = 0) (p : Pic) (w h : Nat) (hv : p.Valid s w h) (k : Nat) (rest : Bits)
    (pos : Nat) (hk : k ≤ 7) (hwin : k ≤ realignmentBits ⟨[], pos⟩ + 1) :
    decodeNextPicture s ⟨zeros k ++ (p.bits s ++ rest), pos⟩ =
      semCore s (p.picture s) p.mbs >>= fun r => .ok (commitPic s r.1 r.2, ⟨rest, pos + k + (p.bits s).length⟩) := by
  rw [← decode_pic s hr p w h hv rest (pos + k)]
  obtain ⟨a, ha⟩ := bits_start s p
  obtain ⟨c', hc⟩ := header_ok s p w h hv rest (pos + k)
  rw [ha, List.append_assoc] at hc ⊢
  exact decode_padded s _ k pos hk hwin _ c' hc

/-! ### streams -/

/-- the decoder state after picture `p`, when its semantics succeeds -/
def next (s : State) (p : Pic) : Option State :=
  match semCore s (p.picture s) p.mbs with
  | .ok r => some (commitPic s r.1 r.2)
  | _ => none

/-- decoding pictures one by one, each from its own reader -/
def decodeAlone (s : State) : List Pic → Out State
  | [] => .ok s
  | p :: ps => decodeNextPicture s ⟨p.bits s, 0⟩ >>= fun r => decodeAlone r.1 ps

/-- the pictures written one after the other by an encoder tracking the decoder state (PLUSPTYPE headers depend on the previous
header), each preceded by the zero bits that bring it to a byte boundary -/
def stream : State → List Pic → Nat → Bits
  | _, [], _ => []
  | s, p :: ps, pos => zeros (padTo pos) ++ (p.bits s ++
      (match next s p with
       | some s' => stream s' ps (pos + padTo pos + (p.bits s).length)
       | none => []))

def streamEnd : State → List Pic → Nat → Nat
  | _, [], pos => pos
  | s, p :: ps, pos =>
      match next s p with
      | some s' => streamEnd s' ps (pos + padTo pos + (p.bits s).length)
      | none => pos + padTo pos + (p.bits s).length

/-- every picture of the list is valid in the state the decoder is in when it reaches it -/
def StreamValid : State → List Pic → Prop
  | _, [] => True
  | s, p :: ps => (∃ w h, p.Valid s w h) ∧ ∀ s', next s p = some s' → StreamValid s' ps

/-- **Streams of any flavour.**  `n` pictures in one reader decode, call after call, to the same decoder states as the same
pictures decoded from one reader each; after the calls the reader stands exactly behind the last picture. -/
theorem calls_eq_alone : ∀ (ps : List Pic) (s : State) (pos : Nat) (tail : Bits), s.running = 0 → StreamValid s ps →
    decodeCalls ps.length s ⟨stream s ps pos ++ tail, pos⟩ =
      decodeAlone s ps >>= fun s' => .ok (s', ⟨tail, streamEnd s ps pos⟩) := by
  intro ps
  induction ps with
  | nil => intro s pos tail _ _; simp [decodeCalls, decodeAlone, stream, streamEnd]
  | cons p ps ih =>
    intro s pos tail hr hv
    obtain ⟨⟨w, h, hvp⟩, hvn⟩ := hv
    simp only [List.length_cons, decodeCalls, decodeAlone, stream, streamEnd, List.append_assoc]
    rw [decode_pic_padded s hr p w h hvp (padTo pos) _ pos (by unfold padTo; omega)
      (by unfold padTo realignmentBits; simp only; omega)]
    have e0 := decode_pic s hr p w h hvp [] 0
    rw [List.append_nil] at e0
    rw [e0]
    unfold next at hvn ⊢
    cases hsem : semCore s (p.picture s) p.mbs with
    | err e => rfl
    | panic m => rfl
    | fuel => rfl
    | ok r =>
      rw [hsem] at hvn
      simp only [Out.bind_ok]
      obtain ⟨_, kr⟩ := commit_keeps s r.1 r.2
      exact ih (commitPic s r.1 r.2) _ tail (by rw [kr, hr]) (hvn _ rfl)

end H263V.Lemmas.StreamAny
