import H263V.Lemmas.AnnexADefs
namespace H263V.Lemmas.AnnexA
theorem range4_ok : rangeOk 1 256 255 true 10000 = true := by native_decide
end H263V.Lemmas.AnnexA
