import H263V.Model.Idct
import H263V.Spec.AnnexA
namespace H263V.Lemmas.AnnexA
open H263V H263V.Idct H263V.Spec.AnnexA

/-- the decoder's inverse transform of a full coefficient block: samples clipped to −256..255 (index 8*row + col) -/
def modelIdct (coef : Blk) : Blk :=
  match blockResidual (.full coef.toList) with
  | some (res, _) => Array.ofFn (n := 64) fun i => res (i.val % 8) (i.val / 8)
  | none => Array.replicate 64 0

/-- the Annex A criteria hold for the 10,000 blocks of range (−L, H), generator seed `seed`, optionally sign-flipped -/
def rangeOk (seed L H : Nat) (negate : Bool) (count : Nat) : Bool := (runRange modelIdct seed L H negate count).ok

/-- residual of a sparse block of the given shape, as an 8x8 sample array -/
def shapeIdct (b : Rle.Dct) : Blk :=
  match blockResidual b with
  | some (res, _) => Array.ofFn (n := 64) fun i => res (i.val % 8) (i.val / 8)
  | none => Array.replicate 64 0

def peakErr (a b : Blk) : Nat := (List.range 64).foldl (fun m i => max m (a.getD i 0 - b.getD i 0).natAbs) 0

/-- all DC-only blocks: the DC shortcut is within 1 of the reference transform of the same coefficient block -/
def dcAllOk : Bool :=
  (List.range 4096).all fun k =>
    let v : Int := (k : Int) - 2048
    v == 0 || decide (peakErr (shapeIdct (.dc v)) (refIdct ((Array.replicate 64 (0 : Int)).set! 0 v)) ≤ 1)

/-- `count` pseudo-random first-row (`horiz = true`) or first-column blocks over the full range −2048..2047 -/
def sparseOk (horiz : Bool) (seed count : Nat) : Bool := Id.run do
  let mut r := seed
  let mut ok := true
  for _ in [0:count] do
    let mut vals : List Int := []
    for _ in [0:8] do
      r := randStep r
      vals := ((((r / 65536) % 4096 : Nat) : Int) - 2048) :: vals
    let full : Blk := Array.ofFn (n := 64) fun i =>
      if horiz then (if i.val / 8 = 0 then vals.getD (i.val % 8) 0 else 0)
      else (if i.val % 8 = 0 then vals.getD (i.val / 8) 0 else 0)
    let test := shapeIdct (if horiz then .horiz vals else .vert vals)
    if peakErr test (refIdct full) > 1 then ok := false
  return ok

end H263V.Lemmas.AnnexA
