import H263V.Lemmas.Yuv
namespace H263V.Lemmas.YuvImg
open H263V H263V.Yuv H263V.Spec.Bt601 H263V.Lemmas.Yuv

def Bytes (a : Array Nat) : Prop := ∀ i (h : i < a.size), a[i] < 256

theorem getD_byte (a : Array Nat) (h : Bytes a) (i : Nat) : a.getD i 0 < 256 := by
  by_cases hi : i < a.size
  · simp [Array.getD, hi]; exact h i hi
  · simp [Array.getD, hi]

theorem list_getD_byte (l : List Nat) (h : ∀ v ∈ l, v < 256) (i : Nat) : l.getD i 0 < 256 :=
  getD_lt_of_all l h i

/-- `mapM` over an index range with a function that always succeeds -/
theorem mapM_range_some {β : Type} (f : Nat → Option β) (n : Nat) (h : ∀ i, i < n → (f i).isSome) :
    ∃ bs, (List.range n).mapM f = some bs ∧ bs.length = n ∧ ∀ i (hi : i < n) (hb : i < bs.length), f i = some bs[i] := by
  induction n with
  | zero => exact ⟨[], by simp, rfl, by intro i hi; omega⟩
  | succ n ih =>
    obtain ⟨bs, h1, h2, h3⟩ := ih (fun i hi => h i (by omega))
    obtain ⟨b, hb⟩ := Option.isSome_iff_exists.mp (h n (by omega))
    refine ⟨bs ++ [b], ?_, by simp [h2], ?_⟩
    · rw [List.range_succ, List.mapM_append, h1]
      simp [hb]
    · intro i hi hb'
      by_cases hin : i < n
      · have : i < bs.length := by omega
        rw [List.getElem_append_left this]
        exact h3 i hin this
      · have : i = n := by omega
        subst this
        rw [List.getElem_append_right (by omega)]
        simp [h2, hb]

theorem kernelByte_isSome (y4 cb2 cr2 : List Nat) (hy : ∀ v ∈ y4, v < 256) (hb : ∀ v ∈ cb2, v < 256)
    (hr : ∀ v ∈ cr2, v < 256) (i : Nat) : (kernelByte y4 cb2 cr2 i).isSome := by
  unfold kernelByte
  simp only
  have h1 := list_getD_byte y4 hy (Gen.YUV_Y_LANES.getD (i / 4) 0)
  have h2 := list_getD_byte cb2 hb (Gen.YUV_CB_LANES.getD (i / 4) 0)
  have h3 := list_getD_byte cr2 hr (Gen.YUV_CR_LANES.getD (i / 4) 0)
  rw [lane_eq_spec _ _ _ (by omega) (by omega) (by omega), packByte_spec _ _ _ (i % 4) (by omega)]
  rfl

theorem remLoop_bytes (yrow cbrow crrow : Nat → Nat) (hy : ∀ x, yrow x < 256) (hb : ∀ x, cbrow x < 256)
    (hr : ∀ x, crrow x < 256) :
    ∀ (xs : List Nat) (acc : List Nat × List Nat × List Nat),
      (∀ v ∈ acc.1, v < 256) → (∀ v ∈ acc.2.1, v < 256) → (∀ v ∈ acc.2.2, v < 256) →
      (∀ v ∈ (remLoop yrow cbrow crrow xs acc).1, v < 256) ∧ (∀ v ∈ (remLoop yrow cbrow crrow xs acc).2.1, v < 256) ∧
      (∀ v ∈ (remLoop yrow cbrow crrow xs acc).2.2, v < 256) := by
  intro xs
  induction xs with
  | nil => intro acc h1 h2 h3; exact ⟨h1, h2, h3⟩
  | cons x xs ih =>
    intro acc h1 h2 h3
    obtain ⟨a, b, c⟩ := acc
    unfold remLoop
    apply ih
    · intro v hv
      rcases List.mem_or_eq_of_mem_set hv with h | h
      · exact h1 v h
      · rw [h]; exact hy _
    · intro v hv
      rcases List.mem_or_eq_of_mem_set hv with h | h
      · exact h2 v h
      · rw [h]; exact hb _
    · intro v hv
      rcases List.mem_or_eq_of_mem_set hv with h | h
      · exact h3 v h
      · rw [h]; exact hr _

theorem outByte_isSome (y cb cr : Array Nat) (w : Nat) (hy : Bytes y) (hb : Bytes cb) (hr : Bytes cr) (i : Nat) :
    (outByte y cb cr w i).isSome := by
  unfold outByte
  simp only
  split
  · apply kernelByte_isSome
    · intro v hv; simp only [List.mem_map] at hv; obtain ⟨j, _, rfl⟩ := hv; exact getD_byte y hy _
    · intro v hv; simp only [List.mem_map] at hv; obtain ⟨j, _, rfl⟩ := hv; exact getD_byte cb hb _
    · intro v hv; simp only [List.mem_map] at hv; obtain ⟨j, _, rfl⟩ := hv; exact getD_byte cr hr _
  · have := remLoop_bytes (fun x => y.getD (i / (w * 4) * w + x) 0) (fun x => cb.getD (i / (w * 4) / 2 * ((w + 1) / 2) + x) 0)
      (fun x => cr.getD (i / (w * 4) / 2 * ((w + 1) / 2) + x) 0) (fun x => getD_byte y hy _) (fun x => getD_byte cb hb _)
      (fun x => getD_byte cr hr _) (List.range' (w - w % 4) (w % 4)) ([0, 0, 0, 0], [0, 0], [0, 0])
      (by intro v hv; simp at hv; omega) (by intro v hv; simp at hv; omega) (by intro v hv; simp at hv; omega)
    obtain ⟨h1, h2, h3⟩ := this
    exact kernelByte_isSome _ _ _ h1 h2 h3 _

/-- Under the documented preconditions the conversion never panics and yields exactly 4·w·h bytes. -/
theorem yuv_ok (y cb cr : Array Nat) (w h : Nat) (hw : 1 ≤ w) (hh : 1 ≤ h) (hys : y.size = w * h)
    (hbs : cb.size = ((w + 1) / 2) * ((h + 1) / 2)) (hrs : cr.size = ((w + 1) / 2) * ((h + 1) / 2))
    (hy : Bytes y) (hb : Bytes cb) (hr : Bytes cr) :
    ∃ out, yuv420ToRgba y cb cr w = .ok out ∧ out.size = 4 * (w * h) := by
  unfold yuv420ToRgba
  have hy0 : ¬ y.size = 0 := by
    rw [hys]; exact Nat.ne_of_gt (Nat.mul_pos (by omega) (by omega))
  have hw0 : ¬ w = 0 := by omega
  have hbrw : 0 < (w + 1) / 2 := by omega
  have hpre : precond y cb cr w = true := by
    unfold precond
    simp only [hys, hbs, hrs, Nat.mul_mod_right, Nat.mul_mod_right, beq_self_eq_true, Bool.and_true, Bool.true_and,
      Bool.and_self]
    rw [Nat.mul_div_cancel_left _ (by omega : 0 < w), Nat.mul_div_cancel_left _ hbrw]
    simp
  simp only [hy0, hw0, ↓reduceIte, hpre, Bool.not_true, Bool.false_eq_true]
  obtain ⟨bs, h1, h2, _⟩ := mapM_range_some (outByte y cb cr w) (y.size * 4) (fun i _ => outByte_isSome y cb cr w hy hb hr i)
  rw [h1]
  refine ⟨bs.toArray, rfl, ?_⟩
  simp [h2, hys]; omega

end H263V.Lemmas.YuvImg
