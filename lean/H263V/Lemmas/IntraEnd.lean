/-
End to end for intra pictures: a valid intra picture of any flavour DECODES SUCCESSFULLY (no error value: every step of the
bit-free semantics either returns or panics, and the totality theorem of C01 excludes the panics), to planes of the signalled
sizes whose samples are within one of the H.263 reconstruction of the levels the description carries.
-/
import H263V.Lemmas.SampleErr
import H263V.Lemmas.LevelArrays
import H263V.Lemmas.StreamAny
namespace H263V.Lemmas.IntraEnd
open H263V H263V.State H263V.Mb H263V.Mv H263V.Rle H263V.Gather H263V.Spec.Vlc H263V.Spec.Syntax
open H263V.Lemmas.RoundTrip H263V.Lemmas.PictureRoundTrip H263V.Lemmas.DecodeTotal H263V.Lemmas.LevelArrays
open H263V.Lemmas.StreamAny H263V.Lemmas.SampleErr H263V.Lemmas.ReconSpec H263V.Lemmas.F32Range

/-! ### computations that never return an error value -/

/-- never an error value (a value, or one of the outcomes C01 excludes) -/
def NoErr {α : Type} (x : Out α) : Prop := ∀ e, x ≠ .err e

theorem NoErr.ok {α : Type} (a : α) : NoErr (.ok a : Out α) := fun _ h => by cases h

theorem NoErr.bind {α β : Type} {x : Out α} {f : α → Out β} (hx : NoErr x) (hf : ∀ a, x = .ok a → NoErr (f a)) :
    NoErr (x >>= f) := by
  cases x with
  | ok a => exact hf a rfl
  | err e => exact absurd rfl (hx e)
  | panic s => intro e h; cases h
  | fuel => intro e h; cases h

theorem NoErr.foldlM {α β : Type} (f : α → β → Out α) (hf : ∀ a b, NoErr (f a b)) :
    ∀ (l : List β) (a : α), NoErr (l.foldlM f a) := by
  intro l
  induction l with
  | nil => intro a; exact NoErr.ok a
  | cons b bs ih =>
    intro a
    rw [List.foldlM_cons]
    exact NoErr.bind (hf a b) (fun a' _ => ih a')

/-- with the totality theorem: a value -/
theorem ok_of_sat_noErr {α : Type} {x : Out α} {Q : α → Prop} (h : OutSat x Q) (hn : NoErr x) : ∃ a, x = .ok a ∧ Q a := by
  cases x with
  | ok a => exact ⟨a, rfl, h⟩
  | err e => exact absurd rfl (hn e)
  | panic s => exact absurd h id
  | fuel => exact absurd h id

theorem updateQuant_noErr (q : Nat) (dq : Option Int) : NoErr (updateQuant q dq) := by
  unfold updateQuant
  intro e h
  simp only at h
  split at h <;> cases h

theorem inverseRle_noErr (b : Block) (levels : Array Dct) (pos : Nat × Nat) (bpl q : Nat) :
    NoErr (inverseRle b levels pos bpl q) := by
  unfold inverseRle
  intro e h
  simp only at h
  split at h
  · split at h <;> cases h
  · cases h

theorem addBlock_noErr (out : Array Nat) (spl xb yb xs ys : Nat) (res : Nat → Nat → Int) :
    NoErr (Idct.addBlock out spl xb yb xs ys res) := by
  unfold Idct.addBlock
  refine NoErr.foldlM _ (fun o yo => ?_) _ _
  refine NoErr.foldlM _ (fun o xo => ?_) _ _
  intro e h
  simp only at h
  split at h <;> cases h

theorem idctChannel_noErr (levels : Array Dct) (output : Array Nat) (bpl spl : Nat) :
    NoErr (Idct.idctChannel levels output bpl spl) := by
  unfold Idct.idctChannel
  split
  · intro e h; cases h
  split
  · intro e h; cases h
  refine NoErr.foldlM _ (fun o yb => ?_) _ _
  refine NoErr.foldlM _ (fun o xb => ?_) _ _
  show NoErr (match levels[xb + yb * bpl]? with
    | none => Out.ok o
    | some b => match Idct.blockResidual b with
      | none => Out.ok o
      | some (res, bad) =>
        if bad = true then Out.panic "model gap: f32 value outside the normal range"
        else Idct.addBlock o spl xb yb (min 8 (spl - xb * 8)) (min 8 (output.size / spl - yb * 8)) res)
  split
  · exact NoErr.ok _
  · split
    · exact NoErr.ok _
    · split
      · intro e h; cases h
      · exact addBlock_noErr _ _ _ _ _ _ _

/-! ### the macroblock layer of an intra picture -/

/-- in an intra picture only INTRA and INTRA+Q macroblocks have an MCBPC code -/
theorem mcbpc_intra (t : MbType) (cb cr : Bool) (h : (mcbpcCode true t cb cr).isSome = true) :
    t.isInter = false ∧ t.isIntra = true := by
  cases t <;> cases cb <;> cases cr <;> first | (exact ⟨rfl, rfl⟩) | (exact absurd h (by decide))

theorem codedMbSem_noErr (hdr : PicHdr) (dims : Option (Nat × Nat)) (running m : Nat) (l : Loop) (t : MbType)
    (ht : t.isInter = false) (dq : Option Int) (mv : Option Mv) (addl : Option (Mv × Mv × Mv)) (b : Nat → Block) :
    NoErr (codedMbSem hdr dims running m l t dq mv addl b) := by
  unfold codedMbSem
  refine NoErr.bind (updateQuant_noErr _ _) (fun q _ => ?_)
  rw [ht]
  simp only [Bool.false_eq_true, ↓reduceIte]
  refine NoErr.bind (NoErr.ok _) (fun mvs _ => ?_)
  refine NoErr.bind (inverseRle_noErr _ _ _ _ _) (fun l0 _ => ?_)
  refine NoErr.bind (inverseRle_noErr _ _ _ _ _) (fun l1 _ => ?_)
  refine NoErr.bind (inverseRle_noErr _ _ _ _ _) (fun l2 _ => ?_)
  refine NoErr.bind (inverseRle_noErr _ _ _ _ _) (fun l3 _ => ?_)
  refine NoErr.bind (inverseRle_noErr _ _ _ _ _) (fun l4 _ => ?_)
  refine NoErr.bind (inverseRle_noErr _ _ _ _ _) (fun l5 _ => ?_)
  exact NoErr.ok _

theorem semMb_noErr (d : DecOpts) (hdr : PicHdr) (dims : Option (Nat × Nat)) (running m : Nat) (l : Loop) (mb : MbD)
    (hok : MbOK d hdr true mb) : NoErr (semMb hdr dims running m l mb) := by
  unfold semMb
  unfold MbOK at hok
  cases hk : mb.kind with
  | notCoded => rw [hk] at hok; cases hok
  | coded t dq mvd mvd234 blocks =>
    rw [hk] at hok
    exact codedMbSem_noErr hdr dims running m l t (mcbpc_intra t _ _ hok.1).1 _ _ _ _

theorem semMbs_noErr (d : DecOpts) (hdr : PicHdr) (dims : Option (Nat × Nat)) (running m : Nat) :
    ∀ (mbs : List MbD) (l : Loop), (∀ mb ∈ mbs, MbOK d hdr true mb) → NoErr (semMbs hdr dims running m mbs l) := by
  intro mbs
  induction mbs with
  | nil => intro l _; exact NoErr.ok l
  | cons mb ms ih =>
    intro l hok
    unfold semMbs
    exact NoErr.bind (semMb_noErr d hdr dims running m l mb (hok mb (by simp))) (fun l' _ => ih l' (fun x hx => hok x (by simp [hx])))

/-! ### the whole picture -/

theorem intra_format (s : State) (hdr : PicHdr) (w h : Nat) (hd : dimsOf s hdr = some (w, h)) (hi : hdr.picType = .iFrame) :
    ∃ f, hdr.format = some f ∧ f.dims = some (w, h) := by
  unfold dimsOf at hd
  cases hf : hdr.format with
  | some f => rw [hf] at hd; exact ⟨f, rfl, hd⟩
  | none => rw [hf] at hd; simp [hi] at hd

/-- the initial loop state of `decode_next_picture` for `m x mbH` macroblocks -/
def loop0 (hdr : PicHdr) (m mbH : Nat) : Loop :=
  { cur := ⟨[], 0⟩, quant := hdr.quantizer, mvs := #[], types := #[],
    lumaLv := Array.replicate (m * 16 * (mbH * 16) / 64) .zero,
    cbLv := Array.replicate (m * 16 * (mbH * 16) / 4 / 64) .zero,
    crLv := Array.replicate (m * 16 * (mbH * 16) / 4 / 64) .zero }

/-- `semCore` for an intra picture, unfolded: the macroblock loop from `loop0`, then the reconstruction of a fresh picture -/
theorem semCore_intra_eq (s : State) (hdr : PicHdr) (mbs : List MbD) (w h : Nat) (f : SrcFmt) (hf : hdr.format = some f)
    (hd : f.dims = some (w, h)) (hw : 1 ≤ w) (hh : 1 ≤ h) :
    ∃ pic0, DecPic.new hdr f = some pic0 ∧
    semCore s hdr mbs =
      semMbs hdr (some (w, h)) (nextRunning hdr s.running) ((w + 15) / 16) mbs (loop0 hdr ((w + 15) / 16) ((h + 15) / 16)) >>= fun l =>
        let total := (w + 15) / 16 * ((h + 15) / 16)
        let mvs := if l.mvs.size < total then l.mvs ++ Array.replicate (total - l.mvs.size) zeroMv4 else l.mvs
        let types := if l.types.size < total then l.types ++ Array.replicate (total - l.types.size) MbType.inter else l.types
        reconstruct types s.getRef mvs ((w + 15) / 16) w pic0 l.lumaLv l.cbLv l.crLv >>= fun pic => .ok (hdr, pic) := by
  have hnew : ∃ pic0, DecPic.new hdr f = some pic0 := by unfold DecPic.new; rw [hd]; exact ⟨_, rfl⟩
  obtain ⟨pic0, hp⟩ := hnew
  refine ⟨pic0, hp, ?_⟩
  unfold semCore fmtOf
  rw [hf]
  simp only [Out.bind_ok]
  rw [hd]
  simp only
  rw [if_neg (by omega), hp]
  rfl

/-! ### the level arrays of a valid picture hold bounded blocks -/

theorem lvOf_bounded (d : DecOpts) (hdr : PicHdr) (ip : Bool) (mb : MbD) (hok : MbOK d hdr ip mb) (q j : Nat) (hj : j < 6) :
    Dct.Bounded (lvOf mb q j .zero) := by
  unfold lvOf
  unfold MbOK at hok
  cases hk : mb.kind with
  | notCoded => trivial
  | coded t dq mvd mvd234 blocks =>
    rw [hk] at hok
    simp only
    cases hb : inverseRleBlock (toBlock (blk blocks j)) q with
    | none => trivial
    | some dd =>
      refine inverseRleBlock_bounded _ q ?_ dd hb
      intro dc hdc
      have hbo := (hok.2.2.2.2 j hj).1
      unfold toBlock at hdc
      simp only at hdc
      split at hbo
      · obtain ⟨c, hc, hlt, _⟩ := hbo
        rw [hc] at hdc; cases hdc; exact hlt
      · rw [hbo] at hdc; cases hdc

theorem getD_of_getElem? {α : Type} (a : Array α) (i : Nat) (d x : α) (h : a[i]? = some x) : a.getD i d = x := by
  rw [Array.getD_eq_getD_getElem?, h]; rfl

theorem luma_allBounded (d : DecOpts) (hdr : PicHdr) (ip : Bool) (m : Nat) (mbs : List MbD) (qs : List Nat)
    (hok : ∀ mb ∈ mbs, MbOK d hdr ip mb) (a : Array Dct)
    (ha : ∀ id, a.getD id .zero = lumaLvAt m 0 mbs qs .zero id) : AllBounded a := by
  intro i x hx
  have := getD_of_getElem? a i .zero x hx
  rw [ha i] at this
  rw [← this]
  unfold lumaLvAt
  split
  · rename_i hc
    have hlt : i % (m * 2) / 2 + i / (m * 2) / 2 * m - 0 < mbs.length := by omega
    have hmem : mbs.getD (i % (m * 2) / 2 + i / (m * 2) / 2 * m - 0) default ∈ mbs := by
      rw [List.getD_eq_getElem?_getD, List.getElem?_eq_getElem hlt]
      exact List.getElem_mem hlt
    exact lvOf_bounded d hdr ip _ (hok _ hmem) _ (i % (m * 2) % 2 + 2 * (i / (m * 2) % 2)) (by omega)
  · trivial

theorem chroma_allBounded (d : DecOpts) (hdr : PicHdr) (ip : Bool) (mbs : List MbD) (qs : List Nat) (j : Nat) (hj : j < 6)
    (hok : ∀ mb ∈ mbs, MbOK d hdr ip mb) (a : Array Dct)
    (ha : ∀ id, a.getD id .zero = chromaLvAt 0 mbs qs j .zero id) : AllBounded a := by
  intro i x hx
  have := getD_of_getElem? a i .zero x hx
  rw [ha i] at this
  rw [← this]
  unfold chromaLvAt
  split
  · rename_i hc
    have hlt : i - 0 < mbs.length := by omega
    have hmem : mbs.getD (i - 0) default ∈ mbs := by
      rw [List.getD_eq_getElem?_getD, List.getElem?_eq_getElem hlt]
      exact List.getElem_mem hlt
    exact lvOf_bounded d hdr ip _ (hok _ hmem) _ j hj
  · trivial

/-! ### success, sizes and samples -/

theorem types_intra (d : DecOpts) (hdr : PicHdr) (mbs : List MbD) (hok : ∀ mb ∈ mbs, MbOK d hdr true mb) :
    ∀ i, i < (mbs.map typeOf).toArray.size → (((mbs.map typeOf).toArray).getD i .inter).isInter = false := by
  intro i hi
  have hi' : i < mbs.length := by simpa using hi
  rw [Array.getD_eq_getD_getElem?, Array.getElem?_eq_getElem hi]
  simp only [List.getElem_toArray, List.getElem_map, Option.getD_some]
  have hm := hok mbs[i] (List.getElem_mem hi')
  unfold MbOK at hm
  unfold typeOf
  cases hk : mbs[i].kind with
  | notCoded => rw [hk] at hm; cases hm
  | coded t dq mvd mvd234 blocks => rw [hk] at hm; exact (mcbpc_intra t _ _ hm.1).1

theorem replicate_getD_zero (n k : Nat) : (Array.replicate n (0 : Nat)).getD k 0 = 0 := by
  rw [Array.getD_eq_getD_getElem?, Array.getElem?_replicate]
  split <;> rfl

theorem replicate_getD_dct (n k : Nat) : (Array.replicate n Dct.zero).getD k .zero = .zero := by
  rw [Array.getD_eq_getD_getElem?, Array.getElem?_replicate]
  split <;> rfl

/-- **A valid intra picture decodes successfully**, to planes of the signalled sizes whose samples are within one of the H.263
reconstruction.  `hsat` is what the totality theorem (C01) provides: the computation does not panic. -/
theorem semCore_intra_ok (s : State) (hdr : PicHdr) (mbs : List MbD) (w h : Nat) (f : SrcFmt) (hf : hdr.format = some f)
    (hd : f.dims = some (w, h)) (hw : 1 ≤ w) (hh : 1 ≤ h) (hcount : mbs.length = (w + 15) / 16 * ((h + 15) / 16))
    (hok : ∀ mb ∈ mbs, MbOK s.opts hdr true mb) (hsat : OutSat (semCore s hdr mbs) (fun _ => True)) :
    ∃ (pic : DecPic) (lumaLv cbLv crLv : Array Dct) (qs : List Nat),
      semCore s hdr mbs = .ok (hdr, pic) ∧ QChain hdr.quantizer mbs qs ∧
      (∀ id, lumaLv.getD id .zero = lumaLvAt ((w + 15) / 16) 0 mbs qs .zero id) ∧
      (∀ id, cbLv.getD id .zero = chromaLvAt 0 mbs qs 4 .zero id) ∧
      (∀ id, crLv.getD id .zero = chromaLvAt 0 mbs qs 5 .zero id) ∧
      pic.luma.size = w * h ∧ pic.cb.size = (w + 1) / 2 * ((h + 1) / 2) ∧ pic.cr.size = (w + 1) / 2 * ((h + 1) / 2) ∧
      (∀ k, ((pic.luma.getD k 0 : Int) - (idealVal lumaLv ((w + 15) / 16 * 2) w (w * h) k 0 : Int)).natAbs ≤ 1) ∧
      (∀ k, ((pic.cb.getD k 0 : Int) -
        (idealVal cbLv ((w + 15) / 16) ((w + 1) / 2) ((w + 1) / 2 * ((h + 1) / 2)) k 0 : Int)).natAbs ≤ 1) ∧
      (∀ k, ((pic.cr.getD k 0 : Int) -
        (idealVal crLv ((w + 15) / 16) ((w + 1) / 2) ((w + 1) / 2 * ((h + 1) / 2)) k 0 : Int)).natAbs ≤ 1) := by
  obtain ⟨pic0, hp, heq⟩ := semCore_intra_eq s hdr mbs w h f hf hd hw hh
  have hp0 : pic0 = { hdr := hdr, fmt := f, luma := Array.replicate (w * h) 0, cb := Array.replicate ((w + 1) / 2 * ((h + 1) / 2)) 0,
                      cr := Array.replicate ((w + 1) / 2 * ((h + 1) / 2)) 0, chromaSpr := (w + 1) / 2 } := by
    unfold DecPic.new at hp
    rw [hd] at hp
    simp only [Option.some.injEq] at hp
    exact hp.symm
  have hm1 : 1 ≤ (w + 15) / 16 := by omega
  rw [heq] at hsat ⊢
  cases hsm : semMbs hdr (some (w, h)) (nextRunning hdr s.running) ((w + 15) / 16) mbs (loop0 hdr ((w + 15) / 16) ((h + 15) / 16)) with
  | err e => exact absurd hsm (semMbs_noErr s.opts hdr _ _ _ mbs _ hok e)
  | panic x => rw [hsm] at hsat; exact absurd hsat id
  | fuel => rw [hsm] at hsat; exact absurd hsat id
  | ok l =>
    rw [hsm] at hsat
    simp only [Out.bind_ok] at hsat ⊢
    obtain ⟨qs, hq, htypes, ⟨_, hluma⟩, ⟨_, hcb⟩, ⟨_, hcr⟩⟩ := semMbs_levels hdr (some (w, h)) _ ((w + 15) / 16) hm1 mbs _ l hsm
    have ht0 : (loop0 hdr ((w + 15) / 16) ((h + 15) / 16)).types = #[] := rfl
    have hts : l.types = (mbs.map typeOf).toArray := by rw [htypes, ht0]; simp
    have hsize : l.types.size = (w + 15) / 16 * ((h + 15) / 16) := by rw [hts]; simpa using hcount
    rw [if_neg (by omega : ¬ l.types.size < (w + 15) / 16 * ((h + 15) / 16))] at hsat ⊢
    have hall : ∀ i, i < l.types.size → (l.types.getD i .inter).isInter = false := by
      rw [hts]; exact types_intra s.opts hdr mbs hok
    generalize hmv : (if l.mvs.size < (w + 15) / 16 * ((h + 15) / 16) then
      l.mvs ++ Array.replicate ((w + 15) / 16 * ((h + 15) / 16) - l.mvs.size) zeroMv4 else l.mvs) = mvs at hsat ⊢
    have hl0 : ∀ id, (loop0 hdr ((w + 15) / 16) ((h + 15) / 16)).lumaLv.getD id .zero = .zero := fun id => replicate_getD_dct _ id
    have hb0 : ∀ id, (loop0 hdr ((w + 15) / 16) ((h + 15) / 16)).cbLv.getD id .zero = .zero := fun id => replicate_getD_dct _ id
    have hr0 : ∀ id, (loop0 hdr ((w + 15) / 16) ((h + 15) / 16)).crLv.getD id .zero = .zero := fun id => replicate_getD_dct _ id
    have hluma' : ∀ id, l.lumaLv.getD id .zero = lumaLvAt ((w + 15) / 16) 0 mbs qs .zero id := by
      intro id; rw [hluma id, hl0 id, ht0]; rfl
    have hcb' : ∀ id, l.cbLv.getD id .zero = chromaLvAt 0 mbs qs 4 .zero id := by
      intro id; rw [hcb id, hb0 id, ht0]; rfl
    have hcr' : ∀ id, l.crLv.getD id .zero = chromaLvAt 0 mbs qs 5 .zero id := by
      intro id; rw [hcr id, hr0 id, ht0]; rfl
    cases hrec : reconstruct l.types s.getRef mvs ((w + 15) / 16) w pic0 l.lumaLv l.cbLv l.crLv with
    | panic x => rw [hrec] at hsat; exact absurd hsat id
    | fuel => rw [hrec] at hsat; exact absurd hsat id
    | err e =>
      exfalso
      unfold reconstruct at hrec
      rw [gather_no_inter l.types s.getRef mvs _ pic0 hall] at hrec
      simp only [Out.bind_ok] at hrec
      refine NoErr.bind (idctChannel_noErr _ _ _ _) (fun a _ => ?_) e hrec
      refine NoErr.bind (idctChannel_noErr _ _ _ _) (fun b _ => ?_)
      refine NoErr.bind (idctChannel_noErr _ _ _ _) (fun c _ => ?_)
      exact NoErr.ok _
    | ok pic =>
      have hcs : 1 ≤ pic0.chromaSpr := by rw [hp0]; simp only; omega
      obtain ⟨⟨s1, _⟩, ⟨s2, _⟩, ⟨s3, _⟩⟩ := reconstruct_intra l.types s.getRef mvs _ w pic0 pic l.lumaLv l.cbLv l.crLv hw hcs
        (by omega) hall hrec
      obtain ⟨c1, c2, c3⟩ := intra_close l.types s.getRef mvs _ w pic0 pic l.lumaLv l.cbLv l.crLv hw hcs (by omega) hall
        (luma_allBounded s.opts hdr true _ mbs qs hok _ hluma') (chroma_allBounded s.opts hdr true mbs qs 4 (by omega) hok _ hcb')
        (chroma_allBounded s.opts hdr true mbs qs 5 (by omega) hok _ hcr') hrec
      have hq' : QChain hdr.quantizer mbs qs := hq
      refine ⟨pic, l.lumaLv, l.cbLv, l.crLv, qs, rfl, hq', hluma', hcb', hcr', ?_, ?_, ?_, ?_, ?_, ?_⟩
      · rw [s1, hp0]; simp
      · rw [s2, hp0]; simp
      · rw [s3, hp0]; simp
      · intro k; have := c1 k; rw [hp0] at this; simp only [Array.size_replicate, replicate_getD_zero] at this; exact this
      · intro k; have := c2 k; rw [hp0] at this; simp only [Array.size_replicate, replicate_getD_zero] at this; exact this
      · intro k; have := c3 k; rw [hp0] at this; simp only [Array.size_replicate, replicate_getD_zero] at this; exact this

/-! ### from a picture description of any flavour -/

open H263V.Lemmas.SorensonPicture H263V.Lemmas.BasePicture H263V.Lemmas.PlusPicture in
theorem pic_facts (s : State) (hr : s.running = 0) (p : Pic) (w h : Nat) (hv : p.Valid s w h) :
    dimsOf s (p.picture s) = some (w, h) ∧ p.mbs.length = (w + 15) / 16 * ((h + 15) / 16) ∧
    ∃ ip, HdrCtx (p.picture s) (nextRunning (p.picture s) s.running) ip ∧ ∀ m ∈ p.mbs, MbOK s.opts (p.picture s) ip m := by
  cases p with
  | sor p =>
    refine ⟨by unfold dimsOf Pic.picture; simp only [Spec.HeaderSpec.sorensonPicture]; exact hv.2.dims, hv.2.count,
      (p.hdr.picType == 0), ?_, hv.2.mbs⟩
    rw [hr]; exact sorenson_ctx p.hdr hv.2.ptype
  | base p =>
    refine ⟨by unfold dimsOf Pic.picture; simp only [Spec.HeaderSpec.basePicture]; exact hv.2.1.dims, hv.2.1.count,
      (!p.hdr.inter), ?_, hv.2.1.mbs⟩
    rw [hr]; exact base_ctx p.hdr hv.2.1.nopb
  | plus p => exact ⟨hv.2.dims, hv.2.count, (p.hdr.picType == 0), plus_ctx s p w h hv.2, hv.2.mbs⟩

open H263V.Lemmas.PlaneInv H263V.Lemmas.SorensonPicture in
/-- **C02, end to end.**  In every decoder state a history can reach (`StoreOK`, C01's invariant), a valid intra picture of any
header flavour with a non-empty picture area, followed by anything, decodes SUCCESSFULLY; the reader is left exactly behind the
picture; the decoded picture reports the header, its planes have exactly the signalled sizes, and every sample of every plane is
within one of the H.263 reconstruction — clip to 0..255 of the reference inverse transform (exact arithmetic, nearest integer,
clipped to -256..255) of the dequantised, zig-zag placed levels of the 8x8 block covering the sample — where the level arrays hold,
slot by slot, exactly the blocks of the description expanded with the quantizer in force at their macroblock (`QChain`). -/
theorem intra_picture_decodes (s : State) (hs : StoreOK s) (hr : s.running = 0) (p : Pic) (w h : Nat) (hv : p.Valid s w h)
    (hw : 1 ≤ w) (hh : 1 ≤ h) (hi : (p.picture s).picType = .iFrame) (rest : Bits) (pos : Nat) :
    ∃ (pic : DecPic) (lumaLv cbLv crLv : Array Dct) (qs : List Nat),
      decodeNextPicture s ⟨p.bits s ++ rest, pos⟩ =
        .ok (commitPic s (p.picture s) pic, ⟨rest, pos + (p.bits s).length⟩) ∧
      pic.hdr = p.picture s ∧ QChain (p.picture s).quantizer p.mbs qs ∧
      (∀ id, lumaLv.getD id .zero = lumaLvAt ((w + 15) / 16) 0 p.mbs qs .zero id) ∧
      (∀ id, cbLv.getD id .zero = chromaLvAt 0 p.mbs qs 4 .zero id) ∧
      (∀ id, crLv.getD id .zero = chromaLvAt 0 p.mbs qs 5 .zero id) ∧
      pic.luma.size = w * h ∧ pic.cb.size = (w + 1) / 2 * ((h + 1) / 2) ∧ pic.cr.size = (w + 1) / 2 * ((h + 1) / 2) ∧
      (∀ k, ((pic.luma.getD k 0 : Int) - (idealVal lumaLv ((w + 15) / 16 * 2) w (w * h) k 0 : Int)).natAbs ≤ 1) ∧
      (∀ k, ((pic.cb.getD k 0 : Int) -
        (idealVal cbLv ((w + 15) / 16) ((w + 1) / 2) ((w + 1) / 2 * ((h + 1) / 2)) k 0 : Int)).natAbs ≤ 1) ∧
      (∀ k, ((pic.cr.getD k 0 : Int) -
        (idealVal crLv ((w + 15) / 16) ((w + 1) / 2) ((w + 1) / 2 * ((h + 1) / 2)) k 0 : Int)).natAbs ≤ 1) := by
  obtain ⟨hdims, hcount, ip, hctx, hmbs⟩ := pic_facts s hr p w h hv
  have hip : ip = true := by
    cases ip with
    | true => rfl
    | false =>
      have := hctx.ptype
      simp only [Bool.false_eq_true, ↓reduceIte] at this
      rw [hi] at this
      rcases this with h1 | h1 <;> cases h1
  subst hip
  obtain ⟨f, hf, hfd⟩ := intra_format s _ w h hdims hi
  have hdp := decode_pic s hr p w h hv rest pos
  have hret := decodeNextPicture_returns s hs ⟨p.bits s ++ rest, pos⟩
  rw [hdp] at hret
  have hsat : OutSat (semCore s (p.picture s) p.mbs) (fun _ => True) := by
    cases hsc : semCore s (p.picture s) p.mbs with
    | ok r => trivial
    | err e => trivial
    | panic x => rw [hsc] at hret; cases hret
    | fuel => rw [hsc] at hret; cases hret
  obtain ⟨pic, lumaLv, cbLv, crLv, qs, hsc, hq, h1, h2, h3, z1, z2, z3, c1, c2, c3⟩ :=
    semCore_intra_ok s (p.picture s) p.mbs w h f hf hfd hw hh hcount hmbs hsat
  refine ⟨pic, lumaLv, cbLv, crLv, qs, ?_, (semCore_hdr s _ _ _ hsc).2.1, hq, h1, h2, h3, z1, z2, z3, c1, c2, c3⟩
  rw [hdp, hsc]
  rfl

end H263V.Lemmas.IntraEnd
