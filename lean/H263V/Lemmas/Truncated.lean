/-
Pictures that end early: fewer macroblocks than the picture holds, followed by the end of the data (possibly after up to seven zero
padding bits).  The decoder stops the macroblock loop there and treats the missing macroblocks as not coded.
-/
import H263V.Lemmas.PictureRoundTrip
import H263V.Lemmas.SorensonPicture
namespace H263V.Lemmas.Truncated
open H263V H263V.State H263V.Mb H263V.Mv H263V.Spec.Vlc H263V.Spec.Syntax
open H263V.Lemmas.RoundTrip H263V.Lemmas.PictureRoundTrip H263V.Lemmas.SorensonPicture

/-- at the end of the data — nothing, or up to seven zero padding bits — `decode_macroblock` reports end of data -/
theorem eof_tail (hdr : PicHdr) (running : Nat) (ip : Bool) (ctx : HdrCtx hdr running ip) (k : Nat) (hk : k ≤ 7) (p : Nat) :
    decodeMacroblock hdr running ⟨zeros k, p⟩ = .err .eof := by
  have hp := ctx.ptype
  unfold decodeMacroblock
  cases ip with
  | true =>
    simp only [↓reduceIte] at hp
    simp only [hp, ↓reduceIte]
    have : k = 0 ∨ k = 1 ∨ k = 2 ∨ k = 3 ∨ k = 4 ∨ k = 5 ∨ k = 6 ∨ k = 7 := by omega
    rcases this with h | h | h | h | h | h | h | h <;> subst h <;> rfl
  | false =>
    simp only [Bool.false_eq_true, ↓reduceIte] at hp
    have : k = 0 ∨ k = 1 ∨ k = 2 ∨ k = 3 ∨ k = 4 ∨ k = 5 ∨ k = 6 ∨ k = 7 := by omega
    rcases hp with hp | hp <;> simp only [hp] <;>
      rcases this with h | h | h | h | h | h | h | h <;> subst h <;> rfl

/-- **The macroblock loop on a picture body that ends early.**  The description holds at most the macroblocks still missing; if it
holds fewer, what follows reads as end of data.  The loop performs the semantic steps of the described macroblocks and stops. -/
theorem mbLoop_encode_stop (d : DecOpts) (hdr : PicHdr) (dims : Option (Nat × Nat)) (running w total : Nat) (hw : w ≠ 0) (ip : Bool)
    (ctx : HdrCtx hdr running ip) (rest : Bits) (E : Nat)
    (hstop : ∀ l : Loop, l.types.size < total →
      mbStep d hdr dims running w total { l with cur := ⟨rest, E⟩ } = .ok (.stop { l with cur := ⟨rest, E⟩ })) :
    ∀ (mbs : List MbD) (l : Loop) (fuel pos : Nat), l.types.size + mbs.length ≤ total → iters mbs < fuel →
      (∀ m ∈ mbs, MbOK d hdr ip m) → pos + (mbs.flatMap (encodeMb ip)).length = E →
      mbLoop d hdr dims running w total fuel { l with cur := ⟨mbs.flatMap (encodeMb ip) ++ rest, pos⟩ } =
        Out.mapCur (semMbs hdr dims running w mbs l) ⟨rest, pos + (mbs.flatMap (encodeMb ip)).length⟩ := by
  intro mbs
  induction mbs with
  | nil =>
    intro l fuel pos hn hf _ hE
    obtain ⟨f, rfl⟩ : ∃ f, fuel = f + 1 := ⟨fuel - 1, by simp [iters] at hf; omega⟩
    rw [mbLoop_succ]
    simp only [List.flatMap_nil, List.length_nil, Nat.add_zero] at hE
    subst hE
    simp only [List.flatMap_nil, List.nil_append]
    by_cases hfull : l.types.size ≥ total
    · unfold mbStep
      simp only
      rw [if_pos hfull]
      simp [semMbs]
    · rw [hstop l (by omega)]
      simp [semMbs]
  | cons m ms ih =>
    intro l fuel pos hn hf hok hE
    simp only [List.length_cons] at hn
    simp only [iters] at hf
    obtain ⟨f, rfl⟩ : ∃ f, fuel = (f + 1) + m.stuffing := ⟨fuel - 1 - m.stuffing, by omega⟩
    simp only [List.flatMap_cons, List.append_assoc]
    rw [encodeMb_eq, List.append_assoc]
    rw [mbLoop_stuff d hdr dims running w total hw ip ctx l (by omega) _ m.stuffing (f + 1) pos]
    rw [mbLoop_succ, List.append_assoc]
    rw [mbStep_body d hdr dims running w total hw ip ctx l (by omega) m (hok m (by simp)) _ _]
    simp only [semMbs]
    cases hs : semMb hdr dims running w l m with
    | ok l1 =>
      simp only [mapCur_ok, Out.bind_ok]
      have ht := semMb_types hdr dims running w l l1 m hs
      rw [ih l1 f _ (by omega) (by omega) (fun x hx => hok x (by simp [hx]))
        (by simp only [List.flatMap_cons, encodeMb_eq, List.length_append] at hE; omega)]
      simp only [List.length_append, Nat.add_assoc]
    | err e => rfl
    | panic s => rfl
    | fuel => rfl

/-- **Picture round trip, early end included.**  As `decodeCore_encode`, for a description with at most the picture's macroblocks
followed, when there are fewer, by something that reads as end of data: the result is the bit-free semantics of the SHORT list
— `semCore` completes the type and vector arrays with not-coded macroblocks (INTER, zero vectors) and leaves their level slots
`Zero`, so that reconstruction copies the co-located reference macroblocks (`zero_vector_copies`). -/
theorem decodeCore_encode_stop (s : State) (hbits : Bits) (hdr : PicHdr) (ip : Bool) (mbs : List MbD) (w h : Nat)
    (hhdr : ∀ r p, Header.decodePicture s.opts (s.getLast.map (·.hdr)) ⟨hbits ++ r, p⟩ = .ok (some hdr, ⟨r, p + hbits.length⟩))
    (hdims : dimsOf s hdr = some (w, h)) (hcount : mbs.length ≤ (w + 15) / 16 * ((h + 15) / 16))
    (ctx : HdrCtx hdr (nextRunning hdr s.running) ip) (hok : ∀ m ∈ mbs, MbOK s.opts hdr ip m) (rest : Bits) (pos : Nat)
    (hstop : ∀ l : Loop, l.types.size < (w + 15) / 16 * ((h + 15) / 16) →
      mbStep s.opts hdr (some (w, h)) (nextRunning hdr s.running) ((w + 15) / 16) ((w + 15) / 16 * ((h + 15) / 16))
        { l with cur := ⟨rest, pos + hbits.length + (mbs.flatMap (encodeMb ip)).length⟩ } =
      .ok (.stop { l with cur := ⟨rest, pos + hbits.length + (mbs.flatMap (encodeMb ip)).length⟩ })) :
    decodeCore s ⟨hbits ++ (mbs.flatMap (encodeMb ip) ++ rest), pos⟩ =
      semCore s hdr mbs >>= fun r => .ok (r.1, r.2, ⟨rest, pos + hbits.length + (mbs.flatMap (encodeMb ip)).length⟩) := by
  unfold decodeCore semCore
  rw [hhdr]
  simp only [Out.bind_ok]
  show (fmtOf s hdr >>= _) = ((fmtOf s hdr >>= _) >>= _)
  cases hfmt : fmtOf s hdr with
  | err e => rfl
  | panic m => rfl
  | fuel => rfl
  | ok fmt =>
    simp only [Out.bind_ok]
    have hfd : fmt.dims = some (w, h) := by
      unfold dimsOf at hdims
      unfold fmtOf at hfmt
      cases hf : hdr.format with
      | some f => rw [hf] at hfmt hdims; simp only [Out.ok.injEq] at hfmt; rw [← hfmt]; exact hdims
      | none =>
        rw [hf] at hfmt hdims
        simp only at hfmt hdims
        split at hfmt
        · simp at hfmt
        · rename_i hni
          rw [if_neg hni] at hdims
          cases hl : s.getLast with
          | none => rw [hl] at hfmt; simp at hfmt
          | some p => rw [hl] at hfmt hdims; simp only [Out.ok.injEq] at hfmt; rw [← hfmt]; simpa using hdims
    rw [hfd]
    simp only
    split
    · rfl
    · rename_i hz
      cases hnew : Gather.DecPic.new hdr fmt with
      | none => rfl
      | some pic =>
        simp only
        have hw : (w + 15) / 16 ≠ 0 := by omega
        have hloop := mbLoop_encode_stop s.opts hdr (some (w, h)) (nextRunning hdr s.running) ((w + 15) / 16)
          ((w + 15) / 16 * ((h + 15) / 16)) hw ip ctx rest _ hstop mbs
          { cur := ⟨[], 0⟩, quant := hdr.quantizer, mvs := #[], types := #[],
            lumaLv := Array.replicate ((w + 15) / 16 * 16 * ((h + 15) / 16 * 16) / 64) .zero,
            cbLv := Array.replicate ((w + 15) / 16 * 16 * ((h + 15) / 16 * 16) / 4 / 64) .zero,
            crLv := Array.replicate ((w + 15) / 16 * 16 * ((h + 15) / 16 * 16) / 4 / 64) .zero }
          ((mbs.flatMap (encodeMb ip) ++ rest).length + (w + 15) / 16 * ((h + 15) / 16) + 2) (pos + hbits.length)
          (by simpa using hcount) (by have := iters_le ip mbs; simp only [List.length_append]; omega) hok rfl
        simp only at hloop
        rw [hloop]
        cases hsem : semMbs hdr (some (w, h)) (nextRunning hdr s.running) ((w + 15) / 16) mbs
            { cur := ⟨[], 0⟩, quant := hdr.quantizer, mvs := #[], types := #[],
              lumaLv := Array.replicate ((w + 15) / 16 * 16 * ((h + 15) / 16 * 16) / 64) .zero,
              cbLv := Array.replicate ((w + 15) / 16 * 16 * ((h + 15) / 16 * 16) / 4 / 64) .zero,
              crLv := Array.replicate ((w + 15) / 16 * 16 * ((h + 15) / 16 * 16) / 4 / 64) .zero } with
        | err e => rfl
        | panic m => rfl
        | fuel => rfl
        | ok l =>
          simp only [mapCur_ok, Out.bind_ok]
          cases hrec : reconstruct
              (if l.types.size < (w + 15) / 16 * ((h + 15) / 16) then l.types ++ Array.replicate ((w + 15) / 16 * ((h + 15) / 16) - l.types.size) MbType.inter else l.types)
              s.getRef
              (if l.mvs.size < (w + 15) / 16 * ((h + 15) / 16) then l.mvs ++ Array.replicate ((w + 15) / 16 * ((h + 15) / 16) - l.mvs.size) zeroMv4 else l.mvs)
              ((w + 15) / 16) w pic l.lumaLv l.cbLv l.crLv with
          | ok p => simp [Nat.add_assoc]
          | err e => rfl
          | panic m => rfl
          | fuel => rfl

/-- the stop condition of `decodeCore_encode_stop` when what follows reads as end of data -/
theorem stop_of_eof (d : DecOpts) (hdr : PicHdr) (dims : Option (Nat × Nat)) (running w total : Nat) (hw : w ≠ 0) (rest : Bits)
    (htail : ∀ p, decodeMacroblock hdr running ⟨rest, p⟩ = .err .eof) (E : Nat) (l : Loop) (hl : l.types.size < total) :
    mbStep d hdr dims running w total { l with cur := ⟨rest, E⟩ } = .ok (.stop { l with cur := ⟨rest, E⟩ }) := by
  unfold mbStep
  simp only
  rw [if_neg (by omega), if_neg hw, htail E]
  simp

theorem decodeCore_encode_le (s : State) (hbits : Bits) (hdr : PicHdr) (ip : Bool) (mbs : List MbD) (w h : Nat)
    (hhdr : ∀ r p, Header.decodePicture s.opts (s.getLast.map (·.hdr)) ⟨hbits ++ r, p⟩ = .ok (some hdr, ⟨r, p + hbits.length⟩))
    (hdims : dimsOf s hdr = some (w, h)) (hcount : mbs.length ≤ (w + 15) / 16 * ((h + 15) / 16))
    (ctx : HdrCtx hdr (nextRunning hdr s.running) ip) (hok : ∀ m ∈ mbs, MbOK s.opts hdr ip m) (rest : Bits)
    (htail : ∀ p, decodeMacroblock hdr (nextRunning hdr s.running) ⟨rest, p⟩ = .err .eof) (pos : Nat) :
    decodeCore s ⟨hbits ++ (mbs.flatMap (encodeMb ip) ++ rest), pos⟩ =
      semCore s hdr mbs >>= fun r => .ok (r.1, r.2, ⟨rest, pos + hbits.length + (mbs.flatMap (encodeMb ip)).length⟩) :=
  decodeCore_encode_stop s hbits hdr ip mbs w h hhdr hdims hcount ctx hok rest pos
    (fun l hl => stop_of_eof s.opts hdr _ _ _ _ (by
      have : dimsOf s hdr = some (w, h) := hdims
      intro h0
      have : (w + 15) / 16 * ((h + 15) / 16) = 0 := by rw [h0]; simp
      omega) rest htail _ l hl)

/-- **A Sorenson picture that ends early**: the described macroblocks, then at most seven zero padding bits, then the end of the
data.  The call commits the picture the bit-free semantics computes from the short list — the remaining macroblocks are copies of
the co-located reference macroblocks (for a P picture; an I picture cut short is rejected by `gather`: no reference for them). -/
theorem decode_spic_truncated (s : State) (hs : s.opts.sorenson = true) (hr : s.running = 0) (p : SPic) (w h : Nat)
    (hhdr : SorensonRoundTrip.Valid p.hdr) (hpt : p.hdr.picType ≤ 2)
    (hd : (Spec.HeaderSpec.sorensonFmt p.hdr).dims = some (w, h))
    (hcount : p.mbs.length ≤ (w + 15) / 16 * ((h + 15) / 16))
    (hmbs : ∀ m ∈ p.mbs, MbOK s.opts (Spec.HeaderSpec.sorensonPicture p.hdr) (p.hdr.picType == 0) m)
    (k : Nat) (hk : k ≤ 7) (pos : Nat) :
    decodeNextPicture s ⟨p.bits ++ zeros k, pos⟩ =
      semCore s (Spec.HeaderSpec.sorensonPicture p.hdr) p.mbs >>= fun r =>
        .ok (commitPic s r.1 r.2, ⟨zeros k, pos + p.bits.length⟩) := by
  unfold decodeNextPicture SPic.bits
  rw [List.append_assoc]
  have hopts : s.opts = { sorenson := true, scalability := s.opts.scalability } := by
    cases ho : s.opts; rw [ho] at hs; simp only at hs; rw [hs]
  have hctx : HdrCtx (Spec.HeaderSpec.sorensonPicture p.hdr) (nextRunning (Spec.HeaderSpec.sorensonPicture p.hdr) s.running)
      (p.hdr.picType == 0) := by
    rw [hr]; exact sorenson_ctx p.hdr hpt
  rw [decodeCore_encode_le s (encodeSorensonHdr p.hdr) (Spec.HeaderSpec.sorensonPicture p.hdr) (p.hdr.picType == 0) p.mbs w h
    (fun r q => by rw [hopts]; exact SorensonRoundTrip.round_trip p.hdr hhdr _ _ r q)
    (by unfold dimsOf; simp only [Spec.HeaderSpec.sorensonPicture]; exact hd) hcount hctx hmbs (zeros k)
    (fun q => eof_tail _ _ _ hctx k hk q) pos]
  cases semCore s (Spec.HeaderSpec.sorensonPicture p.hdr) p.mbs with
  | ok r => simp [Nat.add_assoc]
  | err e => rfl
  | panic m => rfl
  | fuel => rfl

end H263V.Lemmas.Truncated
