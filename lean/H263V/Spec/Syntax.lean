/-
Specification: picture / macroblock / block layer syntax of H.263 (01/2005) §5.1–5.4 and of the
Sorenson Spark picture header, written as an *encoder* from a picture description to bits.
Bit 1 of a field is the first transmitted bit.
-/
import H263V.Spec.Vlc
namespace H263V.Spec.Syntax
open H263V H263V.Spec.Vlc

/-- how a TCOEF event is written -/
inductive Form where
  | short      -- Table 16 codeword + sign bit
  | esc8       -- ESCAPE, LAST(1), RUN(6), LEVEL(8)             (standard H.263, Sorenson version 0)
  | esc7       -- ESCAPE, 0, LAST(1), RUN(6), LEVEL(7)           (Sorenson version 1)
  | esc11      -- ESCAPE, 1, LAST(1), RUN(6), LEVEL(11)          (Sorenson version 1)
  deriving Repr, DecidableEq, Inhabited

structure Event where
  run : Nat
  level : Int
  form : Form
  deriving Repr, DecidableEq, Inhabited

/-- one block: INTRADC code for intra macroblocks, and the coefficient events (coded iff non-empty) -/
structure BlockD where
  dc : Option Nat := none
  events : List Event := []
  deriving Repr, DecidableEq, Inhabited

abbrev Mvd := Int × Int

inductive MbKind where
  | notCoded
  | coded (t : MbType) (dquant : Int) (mvd : Mvd) (mvd234 : Mvd × Mvd × Mvd) (blocks : List BlockD)  -- 6 blocks: Y1..Y4, Cb, Cr
  deriving Repr, Inhabited

structure MbD where
  stuffing : Nat := 0       -- MCBPC stuffing codewords in front of this macroblock
  kind : MbKind
  deriving Repr, Inhabited

def encodeEvent (last : Bool) (e : Event) : Bits :=
  match e.form with
  | .short => (tcoefCode last e.run e.level.natAbs).getD [] ++ [decide (e.level < 0)]
  | .esc8 => tcoefEscape ++ [last] ++ natBits 6 e.run ++ intBits 8 e.level
  | .esc7 => tcoefEscape ++ [false] ++ [last] ++ natBits 6 e.run ++ intBits 7 e.level
  | .esc11 => tcoefEscape ++ [true] ++ [last] ++ natBits 6 e.run ++ intBits 11 e.level

def encodeEvents : List Event → Bits
  | [] => []
  | [e] => encodeEvent true e
  | e :: es => encodeEvent false e ++ encodeEvents es

def encodeBlock (b : BlockD) : Bits :=
  (match b.dc with | some c => natBits 8 c | none => []) ++ encodeEvents b.events

def codedFlag (b : BlockD) : Bool := !b.events.isEmpty

def encodeMvd (m : Mvd) : Bits := mvdCode m.1 ++ mvdCode m.2

/-- macroblock layer: [COD] MCBPC CBPY [DQUANT] [MVD] [MVD2-4] block data -/
def encodeMb (intraPicture : Bool) (m : MbD) : Bits :=
  let stuff : Bits := (List.range m.stuffing).flatMap fun _ => (if intraPicture then [] else [false]) ++ mcbpcStuffing
  stuff ++
  match m.kind with
  | .notCoded => [true]
  | .coded t dq mvd mvd234 blocks =>
    let b := fun i => blocks.getD i {}
    (if intraPicture then [] else [false]) ++
    (mcbpcCode intraPicture t (codedFlag (b 4)) (codedFlag (b 5))).getD [] ++
    cbpyCode t.isIntra (codedFlag (b 0), codedFlag (b 1), codedFlag (b 2), codedFlag (b 3)) ++
    (if t.hasQuantizer then dquantCode dq else []) ++
    (if t.isInter then encodeMvd mvd else []) ++
    (if t.hasFourVec then encodeMvd mvd234.1 ++ encodeMvd mvd234.2.1 ++ encodeMvd mvd234.2.2 else []) ++
    (List.range 6).flatMap fun i => encodeBlock (b i)

/-- PEI / PSUPP: each extra byte is announced by a 1 bit; a 0 bit ends the list -/
def encodePei (extra : List Nat) : Bits := (extra.flatMap fun b => [true] ++ natBits 8 b) ++ [false]

/-- Sorenson Spark picture header -/
structure SorensonHdr where
  version : Nat          -- 5 bits
  tr : Nat               -- 8 bits
  sizeCode : Nat         -- 3 bits: 0 = 8-bit custom, 1 = 16-bit custom, 2 CIF, 3 QCIF, 4 SQCIF, 5 320x240, 6 160x120, 7 reserved
  customW : Nat := 0
  customH : Nat := 0
  picType : Nat          -- 2 bits: 0 I, 1 P, 2 disposable P, 3 reserved
  deblock : Bool
  quant : Nat            -- 5 bits
  extra : List Nat := []
  deriving Repr, DecidableEq, Inhabited

def startCode : Bits := natBits 17 1

def encodeSorensonHdr (h : SorensonHdr) : Bits :=
  startCode ++ natBits 5 h.version ++ natBits 8 h.tr ++ natBits 3 h.sizeCode ++
  (if h.sizeCode = 0 then natBits 8 h.customW ++ natBits 8 h.customH
   else if h.sizeCode = 1 then natBits 16 h.customW ++ natBits 16 h.customH else []) ++
  natBits 2 h.picType ++ [h.deblock] ++ natBits 5 h.quant ++ encodePei h.extra

def SorensonHdr.dims (h : SorensonHdr) : Nat × Nat :=
  match h.sizeCode with
  | 0 => (h.customW, h.customH)
  | 1 => (h.customW, h.customH)
  | 2 => (352, 288)
  | 3 => (176, 144)
  | 4 => (128, 96)
  | 5 => (320, 240)
  | 6 => (160, 120)
  | _ => (0, 0)

/-- baseline H.263 picture header (PTYPE without PLUSPTYPE): PSC, TR, PTYPE(13), PQUANT, CPM[, PSBI], PEI… -/
structure BaseHdr where
  tr : Nat               -- 8 bits
  split : Bool := false
  docCamera : Bool := false
  freezeRelease : Bool := false
  srcFmt : Nat           -- 3 bits, 1..5 (6 reserved)
  inter : Bool           -- PTYPE bit 9: 0 INTRA, 1 INTER
  umv : Bool := false
  sac : Bool := false
  ap : Bool := false
  pb : Bool := false
  quant : Nat
  cpm : Option Nat := none     -- PSBI when CPM = 1
  trb : Nat := 0               -- 3 bits, only when pb
  dbquant : Nat := 0           -- 2 bits, only when pb
  extra : List Nat := []
  deriving Repr, DecidableEq, Inhabited

def encodeBaseHdr (h : BaseHdr) : Bits :=
  startCode ++ natBits 5 0 ++ natBits 8 h.tr ++
  [true, false, h.split, h.docCamera, h.freezeRelease] ++ natBits 3 h.srcFmt ++
  [h.inter, h.umv, h.sac, h.ap, h.pb] ++
  natBits 5 h.quant ++
  (match h.cpm with | some p => [true] ++ natBits 2 p | none => [false]) ++
  (if h.pb then natBits 3 h.trb ++ natBits 2 h.dbquant else []) ++
  encodePei h.extra

def stdDims : Nat → Nat × Nat
  | 1 => (128, 96) | 2 => (176, 144) | 3 => (352, 288) | 4 => (704, 576) | 5 => (1408, 1152) | _ => (0, 0)

/-- H.263 picture header with PLUSPTYPE (§5.1.4 ff.) -/
structure PlusHdr where
  tr : Nat                       -- TR, 8 bits
  split : Bool := false
  docCamera : Bool := false
  freezeRelease : Bool := false
  ufep : Bool                    -- UFEP = 001 (OPPTYPE present) / 000
  -- OPPTYPE (only when `ufep`)
  srcFmt : Nat := 6              -- bits 1-3 (6 = custom picture format)
  customPcf : Bool := false      -- bit 4
  umv : Bool := false            -- bit 5
  sac : Bool := false
  ap : Bool := false
  aic : Bool := false
  df : Bool := false
  ss : Bool := false             -- bit 10, slice structured
  rps : Bool := false            -- bit 11
  isd : Bool := false
  aiv : Bool := false
  mq : Bool := false             -- bit 14
  -- MPPTYPE
  picType : Nat                  -- bits 1-3
  rpr : Bool := false
  rru : Bool := false
  rtype : Bool := false
  cpm : Option Nat := none       -- PSBI when CPM = 1
  -- CPFMT (when ufep and srcFmt = 6)
  par : Nat := 1                 -- 4 bits
  pwi : Nat := 0                 -- 9 bits: width = (pwi + 1) * 4
  phi : Nat := 1                 -- 9 bits: height = phi * 4
  eparW : Nat := 1               -- EPAR (when par = 15)
  eparH : Nat := 1
  cpcfc : Nat := 0               -- 8 bits (when customPcf)
  etr : Nat := 0                 -- 2 bits (when customPcf)
  uuiUnlimited : Bool := false   -- UUI (when umv, ufep): "1" or "01"
  sssRect : Bool := false        -- SSS (when ss, ufep)
  sssArb : Bool := false
  elnum : Nat := 0               -- when scalability negotiated
  rlnum : Nat := 0               -- additionally when ufep
  rpsmf : Nat := 4               -- 3 bits (when rps, ufep)
  trp : Option Nat := none       -- TRPI/TRP (when RPS in force)
  quant : Nat
  trb : Nat := 0
  dbquant : Nat := 0
  extra : List Nat := []
  -- fixed marker bits (for generating headers that must be rejected): their correct values are the defaults
  ufepCode : Option Nat := none  -- raw UFEP when neither 000 nor 001
  oppTail : Nat := 8             -- OPPTYPE bits 15-18, must be 1000
  mppTail : Nat := 1             -- MPPTYPE bits 7-9, must be 001
  cpfmtMarker : Bool := true     -- CPFMT bit 14, must be 1
  uuiBad : Bool := false         -- UUI = "00"
  bciBad : Bool := false         -- BCI = "00"
  deriving Repr, DecidableEq, Inhabited

def PlusHdr.markersOk (h : PlusHdr) : Bool :=
  h.ufepCode.isNone && h.oppTail == 8 && h.mppTail == 1 && h.cpfmtMarker && !h.uuiBad && !h.bciBad

/-- `scal`: scalability mode negotiated; `rpsInForce`: RPS flag in force (own OPPTYPE bit, or inherited when UFEP=000) -/
def encodePlusHdr (scal : Bool) (rpsInForce : Bool) (h : PlusHdr) : Bits :=
  startCode ++ natBits 5 0 ++ natBits 8 h.tr ++
  [true, false, h.split, h.docCamera, h.freezeRelease] ++ natBits 3 7 ++
  (match h.ufepCode with
   | some c => natBits 3 c
   | none =>
     if h.ufep then natBits 3 1 ++ natBits 3 h.srcFmt ++
        [h.customPcf, h.umv, h.sac, h.ap, h.aic, h.df, h.ss, h.rps, h.isd, h.aiv, h.mq] ++ natBits 4 h.oppTail
     else natBits 3 0) ++
  natBits 3 h.picType ++ [h.rpr, h.rru, h.rtype] ++ natBits 3 h.mppTail ++
  (match h.cpm with | some p => [true] ++ natBits 2 p | none => [false]) ++
  (if h.ufep ∧ h.srcFmt = 6 then
      natBits 4 h.par ++ natBits 9 h.pwi ++ [h.cpfmtMarker] ++ natBits 9 h.phi ++
      (if h.par = 15 then natBits 8 h.eparW ++ natBits 8 h.eparH else [])
   else []) ++
  (if h.ufep ∧ h.customPcf then natBits 8 h.cpcfc ++ natBits 2 h.etr else []) ++
  (if h.ufep ∧ h.umv then (if h.uuiBad then [false, false] else if h.uuiUnlimited then [false, true] else [true]) else []) ++
  (if h.ufep ∧ h.ss then [h.sssRect, h.sssArb] else []) ++
  (if scal then natBits 4 h.elnum ++ (if h.ufep then natBits 4 h.rlnum else []) else []) ++
  (if h.ufep ∧ h.rps then natBits 3 h.rpsmf else []) ++
  (if rpsInForce then (match h.trp with | some t => [true] ++ natBits 10 t | none => [false]) ++ (if h.bciBad then [false, false] else [false, true]) else []) ++
  natBits 5 h.quant ++
  (if h.picType = 2 then natBits (if h.ufep ∧ h.customPcf then 5 else 3) h.trb ++ natBits 2 h.dbquant else []) ++
  encodePei h.extra

inductive HdrD where
  | sorenson (h : SorensonHdr)
  | base (h : BaseHdr)
  | plus (h : PlusHdr)      -- UFEP=001 with custom picture format, no scalability, no RPS
  deriving Repr, Inhabited

def HdrD.encode : HdrD → Bits
  | .sorenson h => encodeSorensonHdr h
  | .base h => encodeBaseHdr h
  | .plus h => encodePlusHdr false h.rps h

def HdrD.intra : HdrD → Bool
  | .sorenson h => h.picType == 0
  | .base h => !h.inter
  | .plus h => h.picType == 0

def HdrD.dims : HdrD → Nat × Nat
  | .sorenson h => h.dims
  | .base h => stdDims h.srcFmt
  | .plus h => if h.srcFmt = 6 then ((h.pwi + 1) * 4, h.phi * 4) else stdDims h.srcFmt

/-- a whole picture: header, macroblocks in raster order (possibly fewer than the picture holds), zero bits up to a byte boundary plus `pad8` more -/
structure PicD where
  hdr : HdrD
  mbs : List MbD
  deriving Repr, Inhabited

def encodePicBits (p : PicD) : Bits :=
  p.hdr.encode ++ p.mbs.flatMap (encodeMb p.hdr.intra)

/-- pad with zero bits to a byte boundary -/
def padToByte (b : Bits) : Bits := b ++ List.replicate ((8 - b.length % 8) % 8) false

def bitsToBytes : Bits → List Nat
  | b0 :: b1 :: b2 :: b3 :: b4 :: b5 :: b6 :: b7 :: rest =>
    ofBits [b0, b1, b2, b3, b4, b5, b6, b7] :: bitsToBytes rest
  | [] => []
  | rest => [ofBits (rest ++ List.replicate (8 - rest.length) false)]

def encodePic (p : PicD) : List Nat := bitsToBytes (padToByte (encodePicBits p))

end H263V.Spec.Syntax
